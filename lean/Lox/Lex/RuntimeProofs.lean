import Lox.Lex.Runtime
/-! Lemmas about the lexer runtime model (`Lox/Lex/Model.lean`) over the definitions of
`Lox/Lex/Runtime.lean`. The property theorems built from them are in `Lox/Props/C11.lean` and
`Lox/Props/C07.lean`. -/
namespace Lox.Lex.Rt

/-! ## `wfModes` decides `WFModes` -/

theorem sortedFrom_iff (p : Int) (ts : List Triple) :
    sortedFrom p ts = true ↔
      ts.Pairwise (fun a b => a.hi < b.lo) ∧ (∀ t ∈ ts, t.lo ≤ t.hi) ∧ ∀ t ∈ ts, p < t.lo := by
  induction ts generalizing p with
  | nil => simp [sortedFrom]
  | cons t rest ih =>
    obtain ⟨lo, hi, st⟩ := t
    simp only [sortedFrom, Bool.and_eq_true, decide_eq_true_eq, ih, List.pairwise_cons,
      List.mem_cons, forall_eq_or_imp, Triple.lo, Triple.hi]
    constructor
    · rintro ⟨⟨h1, h2⟩, h3, h4, h5⟩
      refine ⟨⟨h5, h3⟩, ⟨h2, h4⟩, h1, ?_⟩
      intro t ht
      have := h5 t ht
      omega
    · rintro ⟨⟨h5, h3⟩, ⟨h2, h4⟩, h1, _⟩
      exact ⟨⟨h1, h2⟩, h3, h4, h5⟩

theorem sortedFrom_neg_one_iff (ts : List Triple) :
    sortedFrom (-1) ts = true ↔ SortedTriples ts := by
  rw [sortedFrom_iff, SortedTriples]
  constructor
  · rintro ⟨h1, h2, h3⟩
    exact ⟨h1, fun t ht => ⟨by have := h3 t ht; omega, h2 t ht⟩⟩
  · rintro ⟨h1, h2⟩
    exact ⟨h1, fun t ht => (h2 t ht).2, fun t ht => by have := (h2 t ht).1; omega⟩

theorem isModeAct_iff (nModes : Nat) (p : Pair) :
    isModeAct nModes p = true ↔ (p.1 = 1 ∧ p.2.toNat < nModes) ∨ p.1 = 2 := by
  simp [isModeAct]

theorem isTermAct_iff (p : Pair) : isTermAct p = true ↔ (p.1 = 3 ∨ p.1 = 4 ∨ p.1 = 5) := by
  simp [isTermAct, or_assoc]

theorem wfPairs_iff (nModes : Nat) (ps : List Pair) :
    wfPairs nModes ps = true ↔ PairsWF nModes ps := by
  unfold wfPairs PairsWF
  by_cases hps : ps = []
  · subst hps; simp
  · have hsplit := List.dropLast_concat_getLast hps
    simp only [Bool.or_eq_true, List.isEmpty_iff, hps, false_or, Bool.and_eq_true,
      List.all_eq_true, isModeAct_iff, Option.any_eq_true, isTermAct_iff]
    constructor
    · rintro ⟨h1, t, ht, h2⟩
      refine ⟨ps.dropLast, t, ?_, h1, h2⟩
      rw [List.getLast?_eq_some_getLast hps] at ht
      injection ht with ht
      rw [← ht]; exact hsplit.symm
    · rintro ⟨pre, t, rfl, h1, h2⟩
      refine ⟨by simpa using h1, t, by simp, h2⟩

theorem wfRow_iff (nModes n s : Nat) (row : Row) :
    wfRow nModes n s row = true ↔ RowWF nModes n s row := by
  unfold wfRow
  simp only [Bool.and_eq_true, sortedFrom_neg_one_iff, List.all_eq_true, decide_eq_true_eq,
    wfPairs_iff, Bool.or_eq_true, bne_iff_ne, ne_eq, List.isEmpty_iff]
  constructor
  · rintro ⟨⟨⟨h1, h2⟩, h3⟩, h4⟩
    exact ⟨h1, h2, h3, fun hs => by cases h4 with | inl h => exact absurd hs h | inr h => exact h⟩
  · rintro ⟨h1, h2, h3, h4⟩
    refine ⟨⟨⟨h1, h2⟩, h3⟩, ?_⟩
    by_cases hs : s = 0
    · exact Or.inr (h4 hs)
    · exact Or.inl hs

theorem wfMode_iff (nModes : Nat) (m : Mode) :
    wfMode nModes m = true ↔
      0 < nStates m ∧ ∀ s, s < nStates m →
        ∃ row, decodeRow m (s : Int) = some row ∧ RowWF nModes (nStates m) s row := by
  unfold wfMode
  simp only [Bool.and_eq_true, decide_eq_true_eq, List.all_eq_true, List.mem_range]
  refine and_congr Iff.rfl (forall_congr' fun s => imp_congr Iff.rfl ?_)
  unfold wfState
  cases h : decodeRow m (s : Int) with
  | none => simp
  | some row => simp [wfRow_iff]

/-- The Bool checker decides the well-formedness predicate. -/
theorem wfModes_iff (modes : Array Mode) : wfModes modes = true ↔ WFModes modes := by
  unfold wfModes WFModes
  simp only [Bool.and_eq_true, decide_eq_true_eq, List.all_eq_true, wfMode_iff]
  refine and_congr Iff.rfl ?_
  constructor
  · intro h mi m hm
    exact h m (List.mem_iff_getElem?.2 ⟨mi, by rw [Array.getElem?_toList]; exact hm⟩)
  · intro h m hm
    obtain ⟨mi, hmi⟩ := List.mem_iff_getElem?.1 hm
    rw [Array.getElem?_toList] at hmi
    exact h mi m hmi

instance (modes : Array Mode) : Decidable (WFModes modes) :=
  decidable_of_iff _ (wfModes_iff modes)

/-! ## Decoding: what the reads of `pushRune` return -/

theorem readTriples_spec (m : Mode) (n : Nat) (k : Int) (ts : List Triple)
    (h : readTriples m n k = some ts) :
    ts.length = n ∧ ∀ (j : Nat) (t : Triple), ts[j]? = some t →
      geti m (k + j * 3) = some t.lo ∧ geti m (k + j * 3 + 1) = some t.hi ∧
      geti m (k + j * 3 + 2) = some t.target := by
  induction n generalizing k ts with
  | zero =>
    simp only [readTriples, Option.some.injEq] at h
    subst h; simp
  | succ n ih =>
    unfold readTriples at h
    split at h
    · rename_i lo hi st rest h1 h2 h3 h4
      simp only [Option.some.injEq] at h
      subst h
      obtain ⟨hl, hg⟩ := ih (k + 3) rest h4
      refine ⟨by simp [hl], ?_⟩
      intro j t hj
      cases j with
      | zero =>
        simp only [List.getElem?_cons_zero, Option.some.injEq] at hj
        subst hj
        simpa [Triple.lo, Triple.hi, Triple.target] using ⟨h1, h2, h3⟩
      | succ j =>
        simp only [List.getElem?_cons_succ] at hj
        have := hg j t hj
        have e : k + ((j + 1 : Nat) : Int) * 3 = k + 3 + (j : Int) * 3 := by omega
        rw [e]; exact this
    · cases h

theorem readPairs_length (m : Mode) (n : Nat) (k : Int) (ps : List Pair)
    (h : readPairs m n k = some ps) : ps.length = n := by
  induction n generalizing k ps with
  | zero =>
    simp only [readPairs, Option.some.injEq] at h
    subst h; rfl
  | succ n ih =>
    unfold readPairs at h
    split at h
    · rename_i a b rest h1 h2 h3
      simp only [Option.some.injEq] at h
      subst h
      simp [ih _ _ h3]
    · cases h

/-- Inversion of `decodeRow`. -/
theorem decodeRow_some {m : Mode} {s : Int} {row : Row} (h : decodeRow m s = some row) :
    ∃ i count gotoN : Int,
      geti m s = some i ∧ geti m i = some count ∧ geti m (i + 1) = some row.flags ∧
      geti m (i + 2) = some gotoN ∧ 0 ≤ gotoN ∧
      count = 2 + 3 * gotoN + 2 * (row.pairs.length : Int) ∧
      readTriples m gotoN.toNat (i + 3) = some row.triples ∧
      readPairs m row.pairs.length (i + 3 + gotoN * 3) = some row.pairs := by
  unfold decodeRow at h
  split at h
  · cases h
  · rename_i i hi
    split at h
    · rename_i count flags gotoN h1 h2 h3
      split at h
      · rename_i hc
        split at h
        · rename_i ts ps ht hp
          simp only [Option.some.injEq] at h
          subst h
          have hlen := readPairs_length _ _ _ _ hp
          refine ⟨i, count, gotoN, hi, h1, h2, h3, hc.1, ?_, ht, ?_⟩
          · simp only
            rw [hlen]
            omega
          · simp only
            rw [hlen]; exact hp
        · cases h
      · cases h
    · cases h

/-! ## Binary search = linear lookup -/

theorem lookup_none_of {ts : List Triple} {r : Int}
    (h : ∀ t ∈ ts, ¬ (t.lo ≤ r ∧ r ≤ t.hi)) : lookup ts r = none := by
  induction ts with
  | nil => rfl
  | cons t rest ih =>
    obtain ⟨lo, hi, st⟩ := t
    have h0 := h (lo, hi, st) (List.mem_cons_self)
    simp only [Triple.lo, Triple.hi] at h0
    simp only [lookup, h0, if_false]
    exact ih fun t ht => h t (List.mem_cons_of_mem _ ht)

theorem lookup_some_iff {ts : List Triple} {r st : Int} :
    lookup ts r = some st → ∃ t ∈ ts, t.lo ≤ r ∧ r ≤ t.hi ∧ t.target = st := by
  induction ts with
  | nil => simp [lookup]
  | cons t rest ih =>
    obtain ⟨lo, hi, st'⟩ := t
    simp only [lookup]
    split
    · rename_i hc
      intro h
      simp only [Option.some.injEq] at h
      exact ⟨(lo, hi, st'), List.mem_cons_self, hc.1, hc.2, h⟩
    · intro h
      obtain ⟨t, ht, h3⟩ := ih h
      exact ⟨t, List.mem_cons_of_mem _ ht, h3⟩

/-- On a sorted, disjoint row the triple containing `r` is the one `lookup` finds. -/
theorem lookup_of_sorted {ts : List Triple} (hs : ts.Pairwise (fun a b => a.hi < b.lo))
    (hle : ∀ t ∈ ts, t.lo ≤ t.hi) {r : Int} {j : Nat} {t : Triple}
    (hj : ts[j]? = some t) (hr : t.lo ≤ r ∧ r ≤ t.hi) : lookup ts r = some t.target := by
  induction ts generalizing j with
  | nil => simp at hj
  | cons a rest ih =>
    obtain ⟨lo, hi, st⟩ := a
    rw [List.pairwise_cons] at hs
    cases j with
    | zero =>
      simp only [List.getElem?_cons_zero, Option.some.injEq] at hj
      subst hj
      simp only [Triple.lo, Triple.hi] at hr
      simp [lookup, hr, Triple.target]
    | succ j =>
      simp only [List.getElem?_cons_succ] at hj
      have hmem : t ∈ rest := List.mem_of_getElem? hj
      have h1 := hs.1 t hmem
      simp only [Triple.lo, Triple.hi] at h1 hr
      have : ¬ (lo ≤ r ∧ r ≤ hi) := by omega
      simp only [lookup, this, if_false]
      exact ih hs.2 (fun t ht => hle t (List.mem_cons_of_mem _ ht)) hj

theorem lookup_none_of_split {ts : List Triple} {r b : Int}
    (hlow : ∀ (j : Nat) (t : Triple), ts[j]? = some t → (j : Int) < b → t.hi < r)
    (hhigh : ∀ (j : Nat) (t : Triple), ts[j]? = some t → b ≤ (j : Int) → r < t.lo) :
    lookup ts r = none := by
  apply lookup_none_of
  intro t ht
  obtain ⟨j, hj⟩ := List.mem_iff_getElem?.1 ht
  by_cases hjb : (j : Int) < b
  · have := hlow j t hj hjb; omega
  · have := hhigh j t hj (by omega); omega

/-- `bsearch` over the decoded, sorted, disjoint triples of a row returns exactly what the linear
`lookup` returns, and never reads outside the array. Invariant: everything left of `b` lies
below `r`, everything from `e` on lies above `r`. -/
theorem bsearch_inv (m : Mode) (r base : Int) (ts : List Triple)
    (hg : ∀ (j : Nat) (t : Triple), ts[j]? = some t →
      geti m (base + j * 3) = some t.lo ∧ geti m (base + j * 3 + 1) = some t.hi ∧
      geti m (base + j * 3 + 2) = some t.target)
    (hs : ts.Pairwise (fun a b => a.hi < b.lo)) (hle : ∀ t ∈ ts, t.lo ≤ t.hi)
    (fuel : Nat) (b e : Int) (hb : 0 ≤ b) (hbe : b ≤ e) (he : e ≤ ts.length)
    (hfuel : e - b ≤ fuel)
    (hlow : ∀ (j : Nat) (t : Triple), ts[j]? = some t → (j : Int) < b → t.hi < r)
    (hhigh : ∀ (j : Nat) (t : Triple), ts[j]? = some t → e ≤ (j : Int) → r < t.lo) :
    bsearch m r base fuel b e = some (lookup ts r) := by
  induction fuel generalizing b e with
  | zero =>
    have : b = e := by omega
    subst this
    simp [bsearch, lookup_none_of_split hlow hhigh]
  | succ n ih =>
    unfold bsearch
    by_cases hlt : b < e
    · simp only [hlt, if_true]
      have hj0 : 0 ≤ b + (e - b) / 2 := by omega
      have hjlt : b + (e - b) / 2 < e := by omega
      have hjb : b ≤ b + (e - b) / 2 := by omega
      generalize b + (e - b) / 2 = j at *
      have hjn : j.toNat < ts.length := by omega
      obtain ⟨t, ht⟩ : ∃ t, ts[j.toNat]? = some t := ⟨ts[j.toNat], by simp [hjn]⟩
      have hcast : ((j.toNat : Nat) : Int) = j := by omega
      obtain ⟨g1, g2, g3⟩ := hg j.toNat t ht
      rw [hcast] at g1 g2 g3
      simp only [g1, g2]
      have hpw := List.pairwise_iff_getElem.1 hs
      have e1 : ts[j.toNat] = t := (List.getElem?_eq_some_iff.1 ht).2
      by_cases hin : r ≥ t.lo ∧ r ≤ t.hi
      · simp only [hin, and_self, if_true, g3]
        rw [lookup_of_sorted hs hle ht ⟨hin.1, hin.2⟩]
      · simp only [hin, if_false]
        have htle := hle t (List.mem_of_getElem? ht)
        by_cases hlo : r < t.lo
        · simp only [hlo, if_true]
          apply ih b j hb hjb (by omega) (by omega) hlow
          intro j' t' hj' hge
          by_cases heq : j' = j.toNat
          · subst heq
            rw [ht] at hj'; injection hj' with hj'; subst hj'; exact hlo
          · have hj'n : j' < ts.length := (List.getElem?_eq_some_iff.1 hj').1
            have := hpw j.toNat j' hjn hj'n (by omega)
            have e2 : ts[j'] = t' := (List.getElem?_eq_some_iff.1 hj').2
            rw [e1, e2] at this
            omega
        · simp only [hlo, if_false]
          have hhi : t.hi < r := by omega
          apply ih (j + 1) e (by omega) (by omega) he (by omega) ?_ hhigh
          intro j' t' hj' hlt'
          by_cases heq : j' = j.toNat
          · subst heq
            rw [ht] at hj'; injection hj' with hj'; subst hj'; exact hhi
          · have hj'n : j' < ts.length := (List.getElem?_eq_some_iff.1 hj').1
            have := hpw j' j.toNat hj'n hjn (by omega)
            have e2 : ts[j'] = t' := (List.getElem?_eq_some_iff.1 hj').2
            rw [e1, e2] at this
            have := hle t' (List.mem_of_getElem? hj')
            omega
    · have : b = e := by omega
      subst this
      simp [lookup_none_of_split hlow hhigh]

/-- `bsearch` as called by `pushRune` (`b = 0`, `e = gotoN`, fuel `gotoN + 1`) on the decoded
triples of a sorted row is the linear lookup. -/
theorem bsearch_linear (m : Mode) (r base : Int) (gotoN : Int) (ts : List Triple)
    (hdec : readTriples m gotoN.toNat base = some ts) (h0 : 0 ≤ gotoN)
    (hs : ts.Pairwise (fun a b => a.hi < b.lo)) (hle : ∀ t ∈ ts, t.lo ≤ t.hi) :
    bsearch m r base (gotoN.toNat + 1) 0 gotoN = some (lookup ts r) := by
  obtain ⟨hlen, hg⟩ := readTriples_spec m _ base ts hdec
  apply bsearch_inv m r base ts hg hs hle _ 0 gotoN (by omega) h0 (by omega) (by omega)
  · intro j t _ hj; omega
  · intro j t hj hge
    have := (List.getElem?_eq_some_iff.1 hj).1
    omega

/-! ## `runActions` and `pushRune` over decoded rows -/

theorem readPairs_cons {m : Mode} {n : Nat} {k : Int} {a : Pair} {rest : List Pair}
    (h : readPairs m (n + 1) k = some (a :: rest)) :
    geti m k = some a.1 ∧ geti m (k + 1) = some a.2 ∧ readPairs m n (k + 2) = some rest := by
  unfold readPairs at h
  split at h
  · rename_i x y rest' h1 h2 h3
    simp only [Option.some.injEq, List.cons.injEq] at h
    obtain ⟨rfl, rfl⟩ := h
    exact ⟨h1, h2, h3⟩
  · cases h

/-- The action loop of `pushRune` over a decoded action section is `execPairs`; it never runs out
of fuel and never reads outside the array. -/
theorem runActions_eq (modes : Array Mode) (m : Mode) (r : Int) (ps : List Pair) (i : Int)
    (fuel : Nat) (sm : SM) (hdec : readPairs m ps.length i = some ps) (hfuel : ps.length < fuel) :
    runActions modes m r fuel i (i + 2 * (ps.length : Int)) sm
      = some (execPairs modes.size r ps sm) := by
  induction ps generalizing i fuel sm with
  | nil =>
    cases fuel with
    | zero => omega
    | succ n =>
      simp only [runActions, List.length_nil, Int.natCast_zero, Int.mul_zero, Int.add_zero,
        Int.lt_irrefl, if_false, execPairs]
      split <;> rfl
  | cons a rest ih =>
    obtain ⟨ty, p⟩ := a
    cases fuel with
    | zero => omega
    | succ n =>
      obtain ⟨h1, h2, h3⟩ := readPairs_cons hdec
      simp only at h1 h2
      have hlt : i < i + 2 * (((ty, p) :: rest).length : Int) := by
        simp only [List.length_cons]; omega
      have hstop : i + 2 * (((ty, p) :: rest).length : Int) = i + 2 + 2 * (rest.length : Int) := by
        simp only [List.length_cons]; omega
      have hf : rest.length < n := by simp only [List.length_cons] at hfuel; omega
      unfold runActions
      simp only [hlt, if_true, h1, h2, execPairs]
      rw [hstop]
      by_cases c1 : ty = 1
      · simp only [c1, if_true]
        by_cases cm : p.toNat < modes.size
        · simp only [cm, if_true]
          exact ih _ _ _ h3 hf
        · simp only [cm, if_false]
      · simp only [c1, if_false]
        by_cases c2 : ty = 2
        · simp only [c2, if_true]
          cases hst : sm.modeStack with
          | nil => simp only
          | cons top st => simp only; exact ih _ _ _ h3 hf
        · simp only [c2, if_false]
          by_cases c3 : ty = 3
          · simp only [c3, if_true]
          · simp only [c3, if_false]
            by_cases c4 : ty = 4
            · simp only [c4, if_true]
            · simp only [c4, if_false]
              by_cases c5 : ty = 5
              · simp only [c5, if_true]
              · simp only [c5, if_false]
                exact ih _ _ _ h3 hf

/-- **`pushRune` on a decodable row** whose transitions are sorted and disjoint: consume iff some
triple of the row contains `r` (flag-0 rows; a non-greedy accepting row, flag 1, never consumes),
otherwise the row's pairs are executed left to right. -/
theorem pushRune_eq_stepRow (modes : Array Mode) (sm : SM) (r : Int) (m : Mode) (row : Row)
    (hm : modes[sm.mode.getD 0]? = some m) (hrow : decodeRow m sm.state = some row)
    (hs : row.triples.Pairwise (fun a b => a.hi < b.lo)) (hle : ∀ t ∈ row.triples, t.lo ≤ t.hi) :
    pushRune modes sm r
      = stepRow modes.size row { sm with mode := some (sm.mode.getD 0) } r := by
  obtain ⟨i, count, gotoN, g0, g1, g2, g3, h0, hcount, htr, hpr⟩ := decodeRow_some hrow
  unfold pushRune stepRow
  simp only [hm, g0, g1, g2, g3]
  have hb := bsearch_linear m r (i + 3) gotoN row.triples htr h0 hs hle
  have hstop : i + 1 + count = i + 3 + gotoN * 3 + 2 * (row.pairs.length : Int) := by omega
  have hra := runActions_eq modes m r row.pairs (i + 3 + gotoN * 3) (count.toNat + 1)
    { sm with mode := some (sm.mode.getD 0) } hpr (by omega)
  by_cases hf : row.flags % 2 = 0
  · simp only [hf, if_true, hb]
    cases hl : lookup row.triples r with
    | some st => simp only
    | none => simp only [hstop, hra]
  · simp only [hf, if_false, hstop, hra]

/-! ## Mode actions: `execPairs` against the abstract mode stack -/

theorem applyModeActs_eq_T {ps : List Pair} {ms ms' : MS} (h : applyModeActs ps ms = some ms') :
    applyModeActsT ps ms = ms' := by
  induction ps generalizing ms with
  | nil => simpa [applyModeActs, applyModeActsT] using h
  | cons a rest ih =>
    obtain ⟨ty, p⟩ := a
    obtain ⟨mode, stack⟩ := ms
    unfold applyModeActs at h
    unfold applyModeActsT
    by_cases c1 : ty = 1
    · simp only [c1, if_true] at h ⊢; exact ih h
    · simp only [c1, if_false] at h ⊢
      by_cases c2 : ty = 2
      · simp only [c2, if_true] at h ⊢
        cases stack with
        | nil => simp at h
        | cons top st => simp only at h ⊢; exact ih h
      · simp only [c2, if_false] at h ⊢; exact ih h

/-- Mode actions keep current and saved modes inside `_lexerModes`. -/
theorem applyModeActsT_ok {n : Nat} {ps : List Pair} {ms : MS}
    (hps : ∀ p ∈ ps, (p.1 = 1 ∧ p.2.toNat < n) ∨ p.1 = 2)
    (h1 : ms.1 < n) (h2 : ∀ x ∈ ms.2, x < n) :
    (applyModeActsT ps ms).1 < n ∧ ∀ x ∈ (applyModeActsT ps ms).2, x < n := by
  induction ps generalizing ms with
  | nil => exact ⟨h1, h2⟩
  | cons a rest ih =>
    obtain ⟨ty, p⟩ := a
    obtain ⟨mode, stack⟩ := ms
    have ha := hps (ty, p) List.mem_cons_self
    have hrest : ∀ q ∈ rest, (q.1 = 1 ∧ q.2.toNat < n) ∨ q.1 = 2 :=
      fun q hq => hps q (List.mem_cons_of_mem _ hq)
    unfold applyModeActsT
    simp only at ha h1 h2
    by_cases c1 : ty = 1
    · simp only [c1, if_true]
      have hp : p.toNat < n := by
        cases ha with
        | inl h => exact h.2
        | inr h => omega
      apply ih hrest hp
      intro x hx
      simp only [List.mem_cons] at hx
      cases hx with
      | inl h => subst h; exact h1
      | inr h => exact h2 x h
    · simp only [c1, if_false]
      by_cases c2 : ty = 2
      · simp only [c2, if_true]
        cases stack with
        | nil => exact ⟨h1, h2⟩
        | cons top st =>
          simp only
          apply ih hrest
          · exact h2 top List.mem_cons_self
          · intro x hx; exact h2 x (List.mem_cons_of_mem _ hx)
      · exfalso
        cases ha with
        | inl h => exact c1 h.1
        | inr h => exact c2 h

theorem execPairs_push (n : Nat) (r : Int) (p : Int) (rest : List Pair) (sm : SM)
    (hp : p.toNat < n) :
    execPairs n r ((1, p) :: rest) sm = execPairs n r rest
      { sm with modeStack := sm.mode.getD 0 :: sm.modeStack, mode := some p.toNat } := by
  rw [execPairs]; simp only [if_true, hp]

theorem execPairs_pop_nil (n : Nat) (r : Int) (p : Int) (rest : List Pair) (sm : SM)
    (hst : sm.modeStack = []) : execPairs n r ((2, p) :: rest) sm = (.error, sm) := by
  rw [execPairs]; simp [hst]

theorem execPairs_pop_cons (n : Nat) (r : Int) (p : Int) (rest : List Pair) (sm : SM)
    (top : Nat) (st : List Nat) (hst : sm.modeStack = top :: st) :
    execPairs n r ((2, p) :: rest) sm
      = execPairs n r rest { sm with mode := some top, modeStack := st } := by
  rw [execPairs]; simp [hst]

/-- Running a prefix of mode actions: all of them are applied, in order; a pop on the empty stack
stops with `_lexerError` and leaves the `(mode, stack)` reached up to there. -/
theorem execPairs_modeActs (n : Nat) (r : Int) (pre tail : List Pair) (sm : SM) (mo : Nat)
    (hpre : ∀ p ∈ pre, (p.1 = 1 ∧ p.2.toNat < n) ∨ p.1 = 2) (hmo : sm.mode = some mo) :
    execPairs n r (pre ++ tail) sm =
      match applyModeActs pre (mo, sm.modeStack) with
      | some ms => execPairs n r tail { sm with mode := some ms.1, modeStack := ms.2 }
      | none =>
        (.error, { sm with mode := some (applyModeActsT pre (mo, sm.modeStack)).1,
                           modeStack := (applyModeActsT pre (mo, sm.modeStack)).2 }) := by
  induction pre generalizing sm mo with
  | nil =>
    simp only [List.nil_append, applyModeActs]
    rw [← hmo]
  | cons a rest ih =>
    obtain ⟨ty, p⟩ := a
    have ha := hpre (ty, p) List.mem_cons_self
    have hrest : ∀ q ∈ rest, (q.1 = 1 ∧ q.2.toNat < n) ∨ q.1 = 2 :=
      fun q hq => hpre q (List.mem_cons_of_mem _ hq)
    simp only at ha
    simp only [List.cons_append]
    by_cases c1 : ty = 1
    · have hp : p.toNat < n := by
        cases ha with
        | inl h => exact h.2
        | inr h => omega
      subst c1
      rw [execPairs_push n r p _ sm hp,
        ih { sm with modeStack := sm.mode.getD 0 :: sm.modeStack, mode := some p.toNat }
          p.toNat hrest rfl]
      simp only [applyModeActs, applyModeActsT, if_true, hmo, Option.getD_some]
    · have c2 : ty = 2 := by
        cases ha with
        | inl h => exact absurd h.1 c1
        | inr h => exact h
      subst c2
      cases hst : sm.modeStack with
      | nil =>
        rw [execPairs_pop_nil n r p _ sm hst]
        simp only [applyModeActs, applyModeActsT, if_true]
        cases sm; simp_all
      | cons top st =>
        rw [execPairs_pop_cons n r p _ sm top st hst,
          ih { sm with mode := some top, modeStack := st } top hrest rfl]
        simp only [applyModeActs, applyModeActsT, if_true]
        rfl

theorem execPairs_terminal (n : Nat) (r : Int) (t : Pair) (sm : SM)
    (ht : t.1 = 3 ∨ t.1 = 4 ∨ t.1 = 5) : execPairs n r [t] sm = terminalEffect t sm := by
  obtain ⟨ty, p⟩ := t
  simp only at ht
  unfold execPairs terminalEffect
  rcases ht with h | h | h <;> subst h <;> simp

/-- **A well-formed action section** `pre ++ [t]`: every mode action of `pre` is applied in order
to `(mode, stack)`, then the terminal pair takes effect; a pop on the empty stack gives
`_lexerError` (and then the terminal pair does not run). -/
theorem execPairs_wf (n : Nat) (r : Int) (pre : List Pair) (t : Pair) (sm : SM) (mo : Nat)
    (hpre : ∀ p ∈ pre, (p.1 = 1 ∧ p.2.toNat < n) ∨ p.1 = 2) (ht : t.1 = 3 ∨ t.1 = 4 ∨ t.1 = 5)
    (hmo : sm.mode = some mo) :
    execPairs n r (pre ++ [t]) sm =
      match applyModeActs pre (mo, sm.modeStack) with
      | some ms => terminalEffect t { sm with mode := some ms.1, modeStack := ms.2 }
      | none =>
        (.error, { sm with mode := some (applyModeActsT pre (mo, sm.modeStack)).1,
                           modeStack := (applyModeActsT pre (mo, sm.modeStack)).2 }) := by
  rw [execPairs_modeActs n r pre [t] sm mo hpre hmo]
  cases applyModeActs pre (mo, sm.modeStack) with
  | none => rfl
  | some ms => simp only; exact execPairs_terminal n r t _ ht

/-! ## One `PushRune` call on a well-formed table -/

/-- Everything the driver proofs need to know about one `PushRune` call. -/
structure StepOK (modes : Array Mode) (sm : SM) (r : Int) (res : Res) (sm' : SM) : Prop where
  /-- no index out of range -/
  noOob : res ≠ .oob
  modesOK : ModesOK modes sm'
  /-- the state stays a state of the (possibly new) current mode, unless `_lexerError` was
  returned (the driver then calls `Reset()`) -/
  inRange : res ≠ .error → InRange modes sm'
  /-- a consumed rune is a real rune and leads to a state other than the start state -/
  consume : res = .consume → sm'.state ≠ 0 ∧ 0 ≤ r
  /-- accept / discard / accumulate happen only after something was consumed and lead to state 0 -/
  terminal : (res = .accept ∨ res = .discard ∨ res = .tryAgain) → sm'.state = 0 ∧ sm.state ≠ 0
  eof : res = .eof → sm.state = 0 ∧ r = -1 ∧ sm'.state = 0
  start : sm.state = 0 → res = .consume ∨ res = .error ∨ res = .eof
  startEof : sm.state = 0 → r = -1 → res = .eof

theorem terminalEffect_cases (t : Pair) (sm : SM) :
    ((terminalEffect t sm).1 = .accept ∨ (terminalEffect t sm).1 = .discard ∨
      (terminalEffect t sm).1 = .tryAgain) ∧
    (terminalEffect t sm).2.state = 0 ∧ (terminalEffect t sm).2.mode = sm.mode ∧
    (terminalEffect t sm).2.modeStack = sm.modeStack := by
  unfold terminalEffect
  split
  · simp
  · split <;> simp

theorem pushRune_stepOK {modes : Array Mode} (hwf : WFModes modes) {sm : SM}
    (hin : InRange modes sm) (r : Int) :
    StepOK modes sm r (pushRune modes sm r).1 (pushRune modes sm r).2 := by
  obtain ⟨⟨hmo, hstack⟩, hst0, m, hm, hlt⟩ := hin
  obtain ⟨hn, hrows⟩ := hwf.2 _ m hm
  obtain ⟨row, hrow, rwf⟩ := hrows _ hlt
  have hcast : ((sm.state.toNat : Nat) : Int) = sm.state := by omega
  rw [hcast] at hrow
  rw [pushRune_eq_stepRow modes sm r m row hm hrow rwf.sorted.1
    (fun t ht => (rwf.sorted.2 t ht).2)]
  have hstart : sm.state = 0 → row.pairs = [] := fun h => rwf.start (by omega)
  generalize hsm0 : ({ sm with mode := some (sm.mode.getD 0) } : SM) = sm0
  have e1 : sm0.state = sm.state := by subst hsm0; rfl
  have e2 : sm0.mode = some (sm.mode.getD 0) := by subst hsm0; rfl
  have e3 : sm0.modeStack = sm.modeStack := by subst hsm0; rfl
  have hok0 : ModesOK modes sm0 := by
    refine ⟨by rw [e2]; exact hmo, by rw [e3]; exact hstack⟩
  have hin0 : InRange modes sm0 := by
    refine ⟨hok0, by rw [e1]; exact hst0, m, by rw [e2]; exact hm, by rw [e1]; exact hlt⟩
  unfold stepRow
  cases hl : (if row.flags % 2 = 0 then lookup row.triples r else none) with
  | some st =>
    simp only
    have hl' : lookup row.triples r = some st := by
      split at hl
      · exact hl
      · cases hl
    obtain ⟨t, ht, h1, h2, h3⟩ := lookup_some_iff hl'
    have htg := rwf.targets t ht
    have hso := rwf.sorted.2 t ht
    rw [h3] at htg
    refine ⟨by simp, ⟨by simpa [e2] using hmo, by simpa [e3] using hstack⟩, ?_, ?_, by simp,
      by simp, by simp, ?_⟩
    · intro _
      refine ⟨⟨by simpa [e2] using hmo, by simpa [e3] using hstack⟩, by simp only; omega, m,
        by simpa [e2] using hm, by simp only; omega⟩
    · intro _; exact ⟨by simp only; omega, by omega⟩
    · intro _ hr; omega
  | none =>
    simp only
    rcases rwf.pairs with hnil | ⟨pre, t, hps, hpre, ht⟩
    · rw [hnil]
      unfold execPairs
      by_cases hc : sm0.state = 0 ∧ r = -1
      · rw [if_pos hc]
        refine ⟨by simp, hok0, fun _ => hin0, by simp, by simp, ?_, by simp, by simp⟩
        intro _; exact ⟨by rw [← e1]; exact hc.1, hc.2, hc.1⟩
      · rw [if_neg hc]
        refine ⟨by simp, hok0, by simp, by simp, by simp, by simp, by simp, ?_⟩
        intro h0 hr; exact absurd ⟨by rw [e1]; exact h0, hr⟩ hc
    · have hne : sm.state ≠ 0 := by
        intro h0
        have := hstart h0
        rw [hps] at this
        simp at this
      rw [hps, execPairs_wf modes.size r pre t sm0 _ hpre ht e2]
      have hT := applyModeActsT_ok (ms := (sm.mode.getD 0, sm0.modeStack)) hpre hmo
        (by rw [e3]; exact hstack)
      cases ha : applyModeActs pre (sm.mode.getD 0, sm0.modeStack) with
      | none =>
        simp only
        refine ⟨by simp, ⟨by simpa using hT.1, by simpa using hT.2⟩, by simp, by simp, by simp,
          by simp, ?_, ?_⟩
        · intro h0; exact absurd h0 hne
        · intro h0; exact absurd h0 hne
      | some ms =>
        simp only
        have hms := applyModeActs_eq_T ha
        rw [hms] at hT
        obtain ⟨hres, hst, hmode, hstk⟩ :=
          terminalEffect_cases t { sm0 with mode := some ms.1, modeStack := ms.2 }
        generalize terminalEffect t { sm0 with mode := some ms.1, modeStack := ms.2 } = out at *
        obtain ⟨res, sm'⟩ := out
        simp only at hres hst hmode hstk ⊢
        have hok' : ModesOK modes sm' :=
          ⟨by rw [hmode]; exact hT.1, by rw [hstk]; exact hT.2⟩
        obtain ⟨m', hm'⟩ : ∃ m', modes[ms.1]? = some m' :=
          ⟨modes[ms.1]'hT.1, by simp [hT.1]⟩
        have hn' := (hwf.2 _ m' hm').1
        refine ⟨?_, hok', ?_, ?_, ?_, ?_, ?_, ?_⟩
        · rcases hres with h | h | h <;> rw [h] <;> simp
        · intro _
          refine ⟨hok', by omega, m', by rw [hmode]; exact hm', by rw [hst]; exact hn'⟩
        · intro h; rcases hres with h' | h' | h' <;> rw [h'] at h <;> cases h
        · intro _; exact ⟨hst, hne⟩
        · intro h; rcases hres with h' | h' | h' <;> rw [h'] at h <;> cases h
        · intro h0; exact absurd h0 hne
        · intro h0; exact absurd h0 hne

/-- **No index out of range, and the range invariant is kept** (`no_oob`). -/
theorem pushRune_no_oob {modes : Array Mode} (hwf : WFModes modes) {sm : SM}
    (hin : InRange modes sm) (r : Int) :
    (pushRune modes sm r).1 ≠ .oob ∧ ModesOK modes (pushRune modes sm r).2 ∧
    ((pushRune modes sm r).1 ≠ .error → InRange modes (pushRune modes sm r).2) :=
  let h := pushRune_stepOK hwf hin r
  ⟨h.noOob, h.modesOK, h.inRange⟩

/-- After `Reset()` the state machine is in range again whatever `PushRune` left behind. -/
theorem inRange_reset {modes : Array Mode} (hwf : WFModes modes) {sm : SM}
    (hok : ModesOK modes sm) : InRange modes sm.reset := by
  obtain ⟨m, hm⟩ : ∃ m, modes[0]? = some m := ⟨modes[0]'hwf.1, by simp [hwf.1]⟩
  refine ⟨⟨by simpa [SM.reset] using hwf.1, by simpa [SM.reset] using hok.2⟩, by simp [SM.reset],
    m, by simpa [SM.reset] using hm, by simpa [SM.reset] using (hwf.2 _ m hm).1⟩

/-! ## The driver: unfolding lemmas -/

section unfold
variable (modes : Array Mode) (inp : Input) (n : Nat) (start : Option Nat) (l : Lx) (sm' : SM)

theorem readToken_consume (h : pushRune modes l.sm (l.char inp) = (.consume, sm')) :
    readToken modes inp (n + 1) start l
      = readToken modes inp n (some (start.getD l.offset)) (({ l with sm := sm' } : Lx).consume inp) := by
  rw [readToken]; simp only [h]

theorem readToken_accept (h : pushRune modes l.sm (l.char inp) = (.accept, sm')) :
    readToken modes inp (n + 1) start l
      = some (some (.tok sm'.token (start.getD l.offset) l.offset), { l with sm := sm' }) := by
  rw [readToken]; simp only [h]

theorem readToken_discard (h : pushRune modes l.sm (l.char inp) = (.discard, sm')) :
    readToken modes inp (n + 1) start l = readToken modes inp n none { l with sm := sm' } := by
  rw [readToken]; simp only [h]

theorem readToken_tryAgain (h : pushRune modes l.sm (l.char inp) = (.tryAgain, sm')) :
    readToken modes inp (n + 1) start l
      = readToken modes inp n (some (start.getD l.offset)) { l with sm := sm' } := by
  rw [readToken]; simp only [h]

theorem readToken_eof (h : pushRune modes l.sm (l.char inp) = (.eof, sm')) :
    readToken modes inp (n + 1) start l
      = some (some (.eof (start.getD l.offset)), { l with sm := sm' }) := by
  rw [readToken]; simp only [h]

theorem readToken_oob (h : pushRune modes l.sm (l.char inp) = (.oob, sm')) :
    readToken modes inp (n + 1) start l = some (none, { l with sm := sm' }) := by
  rw [readToken]; simp only [h]

theorem readToken_error (h : pushRune modes l.sm (l.char inp) = (.error, sm')) :
    readToken modes inp (n + 1) start l
      = some (some (.err (start.getD l.offset) (l.char inp)),
          afterError inp { l with sm := sm' }) := by
  rw [readToken]; simp only [h]; rfl

end unfold

/-! ## `consume` and `skipLine` -/

theorem char_eq_neg_one_of_ge {inp : Input} {l : Lx} (h : inp.size ≤ l.idx) : l.char inp = -1 := by
  unfold Lx.char
  rw [Array.getElem?_eq_none h]

theorem idx_lt_of_char_ne {inp : Input} {l : Lx} (h : l.char inp ≠ -1) : l.idx < inp.size := by
  by_cases hlt : l.idx < inp.size
  · exact hlt
  · exact absurd (char_eq_neg_one_of_ge (by omega)) h

theorem consume_lt {inp : Input} {l : Lx} (h : l.idx < inp.size) :
    (l.consume inp).idx = l.idx + 1 ∧ (l.consume inp).sm = l.sm ∧
    (l.consume inp).offset = l.offset + inp[l.idx].2 := by
  unfold Lx.consume
  rw [Array.getElem?_eq_getElem h]
  simp

theorem consume_ge {inp : Input} {l : Lx} (h : inp.size ≤ l.idx) : l.consume inp = l := by
  unfold Lx.consume
  rw [Array.getElem?_eq_none h]

theorem consume_sm (inp : Input) (l : Lx) : (l.consume inp).sm = l.sm := by
  by_cases h : l.idx < inp.size
  · exact (consume_lt h).2.1
  · rw [consume_ge (by omega)]

theorem consume_idx_le (inp : Input) (l : Lx) : l.idx ≤ (l.consume inp).idx := by
  by_cases h : l.idx < inp.size
  · rw [(consume_lt h).1]; omega
  · rw [consume_ge (by omega)]; omega

theorem skipLine_sm (inp : Input) (n : Nat) (l : Lx) : (skipLine inp n l).sm = l.sm := by
  induction n generalizing l with
  | zero => rfl
  | succ n ih =>
    unfold skipLine
    split
    · rw [ih, consume_sm]
    · rfl

theorem skipLine_idx_le (inp : Input) (n : Nat) (l : Lx) : l.idx ≤ (skipLine inp n l).idx := by
  induction n generalizing l with
  | zero => exact Nat.le_refl _
  | succ n ih =>
    unfold skipLine
    split
    · exact Nat.le_trans (consume_idx_le inp l) (ih _)
    · exact Nat.le_refl _

theorem afterError_sm (inp : Input) (l : Lx) : (afterError inp l).sm = l.sm.reset := by
  simp [afterError, consume_sm, skipLine_sm]

theorem afterError_idx_le (inp : Input) (l : Lx) : l.idx ≤ (afterError inp l).idx := by
  simp only [afterError]
  exact Nat.le_trans (skipLine_idx_le inp _ l) (consume_idx_le inp _)

theorem afterError_idx_lt {inp : Input} {l : Lx} (h : l.idx < inp.size) :
    l.idx < (afterError inp l).idx := by
  simp only [afterError]
  have h1 := skipLine_idx_le inp (inp.size + 1) l
  by_cases h2 : (skipLine inp (inp.size + 1) l).idx < inp.size
  · rw [(consume_lt h2).1]; omega
  · rw [consume_ge (by omega)]; omega

theorem consume_idx_le_size {inp : Input} {l : Lx} (h : l.idx ≤ inp.size) :
    (l.consume inp).idx ≤ inp.size := by
  by_cases hlt : l.idx < inp.size
  · rw [(consume_lt hlt).1]; omega
  · rw [consume_ge (by omega)]; exact h

theorem skipLine_idx_le_size {inp : Input} (n : Nat) {l : Lx} (h : l.idx ≤ inp.size) :
    (skipLine inp n l).idx ≤ inp.size := by
  induction n generalizing l with
  | zero => exact h
  | succ n ih =>
    unfold skipLine
    split
    · exact ih (consume_idx_le_size h)
    · exact h

theorem afterError_idx_le_size {inp : Input} {l : Lx} (h : l.idx ≤ inp.size) :
    (afterError inp l).idx ≤ inp.size := by
  simp only [afterError]
  exact consume_idx_le_size (skipLine_idx_le_size _ h)

/-! ## Progress (C11) -/

/-- **Progress of `ReadToken`.** On a well-formed table, from any in-range state, with fuel above
`2 · remaining runes + (0 if at the start state, else 1)`, `readToken` returns a token (never
runs out of fuel, never panics); the state machine is back at the start state of an existing
mode; the position never moves backwards; an EOF token is returned only in front of the
end-of-input marker; and a call that began at the start state and returns a non-EOF token has
advanced by at least one rune. -/
theorem readToken_progress {modes : Array Mode} (hwf : WFModes modes) (inp : Input) :
    ∀ (fuel : Nat) (start : Option Nat) (l : Lx), InRange modes l.sm →
      2 * (inp.size - l.idx) + (if l.sm.state = 0 then 0 else 1) < fuel →
      ∃ t l', readToken modes inp fuel start l = some (some t, l') ∧
        InRange modes l'.sm ∧ l'.sm.state = 0 ∧ l.idx ≤ l'.idx ∧
        (l.idx ≤ inp.size → l'.idx ≤ inp.size) ∧
        (∀ p, t = .eof p → l'.char inp = -1) ∧
        ((∀ p, t ≠ .eof p) → l.sm.state = 0 → l.idx < l'.idx) := by
  intro fuel
  induction fuel with
  | zero => intro _ _ _ h; omega
  | succ n ih =>
    intro start l hin hfuel
    have h := pushRune_stepOK hwf hin (l.char inp)
    generalize hpr : pushRune modes l.sm (l.char inp) = pr at h
    obtain ⟨res, sm'⟩ := pr
    simp only at h
    cases res with
    | consume =>
      rw [readToken_consume _ _ _ _ _ _ hpr]
      obtain ⟨hs', hr⟩ := h.consume rfl
      have hlt : l.idx < inp.size := idx_lt_of_char_ne (by omega)
      obtain ⟨c1, c2, _⟩ := consume_lt (l := { l with sm := sm' }) hlt
      simp only at c1 c2
      obtain ⟨t, l', e, i1, i2, i3, i3', i4, _⟩ :=
        ih (some (start.getD l.offset)) (({ l with sm := sm' } : Lx).consume inp)
          (by rw [c2]; exact h.inRange (by simp))
          (by rw [c1, c2]; simp only [hs', if_false]; split at hfuel <;> omega)
      refine ⟨t, l', e, i1, i2, by omega, fun _ => i3' (by omega), i4, fun _ _ => by omega⟩
    | accept =>
      rw [readToken_accept _ _ _ _ _ _ hpr]
      obtain ⟨hs', hne⟩ := h.terminal (Or.inl rfl)
      exact ⟨_, _, rfl, h.inRange (by simp), hs', Nat.le_refl _, fun hh => hh, by simp,
        fun _ h0 => absurd h0 hne⟩
    | discard =>
      rw [readToken_discard _ _ _ _ _ _ hpr]
      obtain ⟨hs', hne⟩ := h.terminal (Or.inr (Or.inl rfl))
      obtain ⟨t, l', e, i1, i2, i3, i3', i4, _⟩ :=
        ih none ({ l with sm := sm' } : Lx) (h.inRange (by simp))
          (by simp only [hs', if_true]; simp only [hne, if_false] at hfuel; omega)
      exact ⟨t, l', e, i1, i2, i3, i3', i4, fun _ h0 => absurd h0 hne⟩
    | tryAgain =>
      rw [readToken_tryAgain _ _ _ _ _ _ hpr]
      obtain ⟨hs', hne⟩ := h.terminal (Or.inr (Or.inr rfl))
      obtain ⟨t, l', e, i1, i2, i3, i3', i4, _⟩ :=
        ih (some (start.getD l.offset)) ({ l with sm := sm' } : Lx) (h.inRange (by simp))
          (by simp only [hs', if_true]; simp only [hne, if_false] at hfuel; omega)
      exact ⟨t, l', e, i1, i2, i3, i3', i4, fun _ h0 => absurd h0 hne⟩
    | eof =>
      rw [readToken_eof _ _ _ _ _ _ hpr]
      obtain ⟨_, hr, hs'⟩ := h.eof rfl
      refine ⟨_, _, rfl, h.inRange (by simp), hs', Nat.le_refl _, fun hh => hh, fun _ _ => hr, ?_⟩
      intro hne; exact absurd rfl (hne _)
    | error =>
      rw [readToken_error _ _ _ _ _ _ hpr]
      refine ⟨_, _, rfl, ?_, ?_, afterError_idx_le inp { l with sm := sm' },
        fun hh => afterError_idx_le_size (l := { l with sm := sm' }) hh, by simp, ?_⟩
      · rw [afterError_sm]; exact inRange_reset hwf h.modesOK
      · rw [afterError_sm]; rfl
      · intro _ h0
        have hc : l.char inp ≠ -1 := by
          intro hc
          have := h.startEof h0 hc
          cases this
        exact afterError_idx_lt (l := { l with sm := sm' }) (idx_lt_of_char_ne hc)
    | oob => exact absurd rfl h.noOob

/-- The initial state machine (`mode == nil`, state 0) is in range. -/
theorem inRange_init {modes : Array Mode} (hwf : WFModes modes) : InRange modes ({} : SM) := by
  have := inRange_reset hwf (sm := ({} : SM)) ⟨by simpa using hwf.1, by simp⟩
  simpa [SM.reset] using this

/-- **`lexAll` reaches EOF.** From an in-range driver state at a start state, with per-call fuel
above `2 · inp.size` and more than `remaining runes` calls allowed, the status is `"ok"` and the
token list is what was accumulated, then non-EOF tokens, then exactly one EOF token. -/
theorem lexAll_progress {modes : Array Mode} (hwf : WFModes modes) (inp : Input) (fuel : Nat)
    (hfuel : 2 * inp.size < fuel) :
    ∀ (n : Nat) (l : Lx) (acc : List Tok), InRange modes l.sm → l.sm.state = 0 →
      l.idx ≤ inp.size → inp.size - l.idx < n →
      ∃ ts p, lexAll modes inp fuel n l acc = (acc.reverse ++ ts ++ [.eof p], "ok") ∧
        ∀ t ∈ ts, ∀ q, t ≠ .eof q := by
  intro n
  induction n with
  | zero => intro _ _ _ _ _ h; omega
  | succ n ih =>
    intro l acc hin h0 hidx hn
    obtain ⟨t, l', e, i1, i2, i3, i4, i5, i6⟩ :=
      readToken_progress hwf inp fuel none l hin (by simp only [h0, if_true]; omega)
    unfold lexAll
    rw [e]
    cases t with
    | eof p =>
      refine ⟨[], p, by simp, by simp⟩
    | tok ty a b =>
      have hlt := i6 (by simp) h0
      obtain ⟨ts, p, e', hts⟩ := ih l' (.tok ty a b :: acc) i1 i2 (i4 hidx) (by omega)
      refine ⟨.tok ty a b :: ts, p, by simp [e'], ?_⟩
      intro t ht q
      simp only [List.mem_cons] at ht
      cases ht with
      | inl h => subst h; simp
      | inr h => exact hts t h q
    | err a c =>
      have hlt := i6 (by simp) h0
      obtain ⟨ts, p, e', hts⟩ := ih l' (.err a c :: acc) i1 i2 (i4 hidx) (by omega)
      refine ⟨.err a c :: ts, p, by simp [e'], ?_⟩
      intro t ht q
      simp only [List.mem_cons] at ht
      cases ht with
      | inl h => subst h; simp
      | inr h => exact hts t h q

/-! ## Written action lists (C07) -/

theorem applyModeActsT_append_terminal (pre : List Pair) (t : Pair) (ms : MS)
    (ht : t.1 = 3 ∨ t.1 = 4 ∨ t.1 = 5) :
    applyModeActsT (pre ++ [t]) ms = applyModeActsT pre ms := by
  induction pre generalizing ms with
  | nil =>
    obtain ⟨ty, p⟩ := t
    obtain ⟨mode, stack⟩ := ms
    simp only at ht
    have h1 : ty ≠ 1 := by omega
    have h2 : ty ≠ 2 := by omega
    simp [applyModeActsT, h1, h2]
  | cons a rest ih =>
    obtain ⟨ty, p⟩ := a
    obtain ⟨mode, stack⟩ := ms
    simp only [List.cons_append]
    unfold applyModeActsT
    by_cases c1 : ty = 1
    · simp only [c1, if_true]; exact ih _
    · simp only [c1, if_false]
      by_cases c2 : ty = 2
      · simp only [c2, if_true]
        cases stack with
        | nil => rfl
        | cons top st => simp only; exact ih _
      · simp only [c2, if_false]; exact ih _

theorem modePairs_cons_mode (w : WAction) (ws : List WAction) (h : w.isTerminal = false) :
    modePairs (w :: ws) = w.pair :: modePairs ws := by
  simp [modePairs, h]

theorem modePairs_cons_terminal (w : WAction) (ws : List WAction) (h : w.isTerminal = true) :
    modePairs (w :: ws) = modePairs ws := by
  simp [modePairs, h]

/-- The emitted mode pairs do to the abstract stack exactly what the written mode actions do, in
written order. -/
theorem applyModeActs_modePairs (ws : List WAction) (ms : MS) :
    applyModeActs (modePairs ws) ms = applyW ws ms := by
  induction ws generalizing ms with
  | nil => rfl
  | cons w rest ih =>
    obtain ⟨mode, stack⟩ := ms
    cases w with
    | pushMode k =>
      rw [modePairs_cons_mode _ _ rfl]
      simp only [WAction.pair, applyModeActs, applyW, if_true, Int.toNat_natCast]
      exact ih _
    | popMode =>
      rw [modePairs_cons_mode _ _ rfl]
      simp only [WAction.pair, applyModeActs, applyW]
      cases stack with
      | nil => simp
      | cons top st => simp; exact ih _
    | emit t => rw [modePairs_cons_terminal _ _ rfl]; simp only [applyW]; exact ih _
    | discard => rw [modePairs_cons_terminal _ _ rfl]; simp only [applyW]; exact ih _

/-- The emitted mode pairs are push (to the written mode) / pop pairs. -/
theorem modePairs_wf (n : Nat) (ws : List WAction) (hn : ∀ k, WAction.pushMode k ∈ ws → k < n) :
    ∀ p ∈ modePairs ws, (p.1 = 1 ∧ p.2.toNat < n) ∨ p.1 = 2 := by
  intro p hp
  simp only [modePairs, List.mem_map, List.mem_filter] at hp
  obtain ⟨w, ⟨hw, hnt⟩, rfl⟩ := hp
  cases w with
  | pushMode k => left; exact ⟨rfl, by simpa [WAction.pair] using hn k hw⟩
  | popMode => right; rfl
  | emit t => simp [WAction.isTerminal] at hnt
  | discard => simp [WAction.isTerminal] at hnt

theorem writtenTerminal_type (dflt : Pair) (ws : List WAction)
    (hd : dflt.1 = 3 ∨ dflt.1 = 4 ∨ dflt.1 = 5) :
    (writtenTerminal dflt ws).1 = 3 ∨ (writtenTerminal dflt ws).1 = 4 ∨
      (writtenTerminal dflt ws).1 = 5 := by
  unfold writtenTerminal
  cases h : ws.find? WAction.isTerminal with
  | none => exact hd
  | some w =>
    have := List.find?_some h
    cases w with
    | pushMode k => simp [WAction.isTerminal] at this
    | popMode => simp [WAction.isTerminal] at this
    | emit t => left; rfl
    | discard => right; left; rfl

theorem filter_terminal_length (ws : List WAction) :
    (ws.filter WAction.isTerminal).length =
      (ws.filter (· == .discard)).length + (ws.filter isEmit).length := by
  induction ws with
  | nil => rfl
  | cons w rest ih =>
    cases w <;> simp [List.filter_cons, WAction.isTerminal, isEmit, ih] <;> omega

/-- `fragRulePairs` with the `@emit` test named. -/
theorem fragRulePairs_def (ws : List WAction) :
    fragRulePairs ws =
      if (ws.filter (· == .discard)).length > 1 ∨ (ws.filter isEmit).length > 1 ∨
          ((ws.filter (· == .discard)).length ≥ 1 ∧ (ws.filter isEmit).length ≥ 1) then none
      else
        some ((ws.filter (fun w => !w.isTerminal)).map WAction.pair ++
          (if ((ws.filter WAction.isTerminal).map WAction.pair).isEmpty then [accumPair]
           else (ws.filter WAction.isTerminal).map WAction.pair)) := by
  have key : ∀ f : WAction → Bool, f = isEmit →
      (let nd := (ws.filter (· == .discard)).length
       let ne := (ws.filter f).length
       if nd > 1 ∨ ne > 1 ∨ (nd ≥ 1 ∧ ne ≥ 1) then none
       else
        let modeActs := (ws.filter (fun w => !w.isTerminal)).map WAction.pair
        let termActs := (ws.filter WAction.isTerminal).map WAction.pair
        some (modeActs ++ (if termActs.isEmpty then [accumPair] else termActs))) =
      if (ws.filter (· == .discard)).length > 1 ∨ (ws.filter isEmit).length > 1 ∨
          ((ws.filter (· == .discard)).length ≥ 1 ∧ (ws.filter isEmit).length ≥ 1) then none
      else
        some ((ws.filter (fun w => !w.isTerminal)).map WAction.pair ++
          (if ((ws.filter WAction.isTerminal).map WAction.pair).isEmpty then [accumPair]
           else (ws.filter WAction.isTerminal).map WAction.pair)) := by
    intro f hf; subst hf; rfl
  unfold fragRulePairs
  exact key _ (by funext w; cases w <;> rfl)

/-- **What `FragRule.RunPass(GenerateGrammar)` stores**: the written mode actions in written order,
then the one terminal pair – the written `@emit`/`@discard` wherever it was written, else
accumulate. -/
theorem fragRulePairs_eq {ws : List WAction} {ps : List Pair} (h : fragRulePairs ws = some ps) :
    ps = modePairs ws ++ [writtenTerminal accumPair ws] := by
  rw [fragRulePairs_def] at h
  split at h
  · cases h
  · rename_i hc
    simp only [Option.some.injEq] at h
    subst h
    have hlen := filter_terminal_length ws
    have hle : (ws.filter WAction.isTerminal).length ≤ 1 := by omega
    unfold modePairs writtenTerminal
    congr 1
    rw [← List.head?_filter]
    match hf : ws.filter WAction.isTerminal with
    | [] => simp
    | [w] => simp
    | _ :: _ :: _ => rw [hf] at hle; simp at hle

/-- **What `TokenRule.RunPass(GenerateGrammar)` stores**: the written mode actions in written
order, then accept of the rule's own terminal. -/
theorem tokenRulePairs_eq {terminal : Nat} {ws : List WAction} {ps : List Pair}
    (h : tokenRulePairs terminal ws = some ps) :
    ps = modePairs ws ++ [writtenTerminal ((3 : Int), (terminal : Int)) ws] ∧
      writtenTerminal ((3 : Int), (terminal : Int)) ws = (3, (terminal : Int)) := by
  unfold tokenRulePairs at h
  split at h
  · cases h
  · rename_i hc
    simp only [Option.some.injEq] at h
    subst h
    have hall : ∀ w ∈ ws, w.isTerminal = false := by
      simpa using hc
    have hfind : ws.find? WAction.isTerminal = none := by
      rw [List.find?_eq_none]; intro w hw; simp [hall w hw]
    have hfilter : ws.filter (fun w => !w.isTerminal) = ws := by
      rw [List.filter_eq_self]; intro w hw; simp [hall w hw]
    simp [modePairs, writtenTerminal, hfind, hfilter]

/-- Position independence: wherever the terminal action is written among the mode actions, the
stored pairs are the same. -/
theorem fragRulePairs_terminal_anywhere (ms1 ms2 : List WAction) (t : WAction)
    (h1 : ∀ w ∈ ms1, w.isTerminal = false) (h2 : ∀ w ∈ ms2, w.isTerminal = false)
    (ht : t.isTerminal = true) :
    fragRulePairs (ms1 ++ t :: ms2) = some ((ms1 ++ ms2).map WAction.pair ++ [t.pair]) := by
  have hf1 : ms1.filter WAction.isTerminal = [] := by
    rw [List.filter_eq_nil_iff]; intro w hw; simp [h1 w hw]
  have hf2 : ms2.filter WAction.isTerminal = [] := by
    rw [List.filter_eq_nil_iff]; intro w hw; simp [h2 w hw]
  have hn1 : ms1.filter (fun w => !w.isTerminal) = ms1 := by
    rw [List.filter_eq_self]; intro w hw; simp [h1 w hw]
  have hn2 : ms2.filter (fun w => !w.isTerminal) = ms2 := by
    rw [List.filter_eq_self]; intro w hw; simp [h2 w hw]
  have hfilter : (ms1 ++ t :: ms2).filter WAction.isTerminal = [t] := by
    simp [List.filter_append, hf1, hf2, ht]
  have hlen := filter_terminal_length (ms1 ++ t :: ms2)
  rw [hfilter] at hlen
  simp only [List.length_singleton] at hlen
  rw [fragRulePairs_def, if_neg (by omega)]
  simp [hfilter, List.filter_append, hn1, hn2, ht]

/-- Executing the pairs stored for a written action list `ws` (default terminal `dflt`): every
written mode action is applied, in written order, then the one terminal action takes effect; a
written `@pop_mode` that finds the stack empty gives `_lexerError`. -/
theorem execPairs_written (n : Nat) (r : Int) (ws : List WAction) (dflt : Pair) (sm : SM) (mo : Nat)
    (hd : dflt.1 = 3 ∨ dflt.1 = 4 ∨ dflt.1 = 5) (hn : ∀ k, WAction.pushMode k ∈ ws → k < n)
    (hmo : sm.mode = some mo) :
    execPairs n r (modePairs ws ++ [writtenTerminal dflt ws]) sm =
      match applyW ws (mo, sm.modeStack) with
      | some ms =>
        terminalEffect (writtenTerminal dflt ws) { sm with mode := some ms.1, modeStack := ms.2 }
      | none =>
        (.error, { sm with mode := some (applyModeActsT (modePairs ws) (mo, sm.modeStack)).1,
                           modeStack := (applyModeActsT (modePairs ws) (mo, sm.modeStack)).2 }) := by
  rw [execPairs_wf n r (modePairs ws) _ sm mo (modePairs_wf n ws hn)
    (writtenTerminal_type dflt ws hd) hmo, applyModeActs_modePairs]

/-! ## The ghost-instrumented driver -/

section unfoldG
variable (modes : Array Mode) (inp : Input) (n : Nat) (start : Option Nat) (l : Lx) (sm' : SM)
  (g : List Ev)

theorem readTokenG_consume (h : pushRune modes l.sm (l.char inp) = (.consume, sm')) :
    readTokenG modes inp (n + 1) start l g
      = readTokenG modes inp n (some (start.getD l.offset))
          (({ l with sm := sm' } : Lx).consume inp) g := by
  rw [readTokenG]; simp only [h]

theorem readTokenG_accept (h : pushRune modes l.sm (l.char inp) = (.accept, sm')) :
    readTokenG modes inp (n + 1) start l g
      = some (some (.tok sm'.token (start.getD l.offset) l.offset), { l with sm := sm' },
          g ++ [fireEv start l .accept] ++
            [.seg ⟨.tok sm'.token, start.getD l.offset, l.offset⟩,
             .ret (.tok sm'.token (start.getD l.offset) l.offset) (sm'.mode.getD 0) sm'.modeStack]) := by
  rw [readTokenG]; simp only [h, fireEv]

theorem readTokenG_discard (h : pushRune modes l.sm (l.char inp) = (.discard, sm')) :
    readTokenG modes inp (n + 1) start l g
      = readTokenG modes inp n none { l with sm := sm' }
          (g ++ [fireEv start l .discard] ++ [.seg ⟨.discarded, start.getD l.offset, l.offset⟩]) := by
  rw [readTokenG]; simp only [h, fireEv]

theorem readTokenG_tryAgain (h : pushRune modes l.sm (l.char inp) = (.tryAgain, sm')) :
    readTokenG modes inp (n + 1) start l g
      = readTokenG modes inp n (some (start.getD l.offset)) { l with sm := sm' }
          (g ++ [fireEv start l .tryAgain]) := by
  rw [readTokenG]; simp only [h, fireEv]

theorem readTokenG_eof (h : pushRune modes l.sm (l.char inp) = (.eof, sm')) :
    readTokenG modes inp (n + 1) start l g
      = some (some (.eof (start.getD l.offset)), { l with sm := sm' },
          g ++ [fireEv start l .eof] ++
            [.seg ⟨.pending, start.getD l.offset, l.offset⟩,
             .ret (.eof (start.getD l.offset)) (sm'.mode.getD 0) sm'.modeStack]) := by
  rw [readTokenG]; simp only [h, fireEv]

theorem readTokenG_oob (h : pushRune modes l.sm (l.char inp) = (.oob, sm')) :
    readTokenG modes inp (n + 1) start l g
      = some (none, { l with sm := sm' }, g ++ [fireEv start l .oob]) := by
  rw [readTokenG]; simp only [h, fireEv]

theorem readTokenG_error (h : pushRune modes l.sm (l.char inp) = (.error, sm')) :
    readTokenG modes inp (n + 1) start l g
      = some (some (.err (start.getD l.offset) (l.char inp)), afterError inp { l with sm := sm' },
          g ++ [fireEv start l .error] ++
            [.seg ⟨.error (l.char inp), start.getD l.offset, (afterError inp { l with sm := sm' }).offset⟩,
             .ret (.err (start.getD l.offset) (l.char inp))
               ((afterError inp { l with sm := sm' }).sm.mode.getD 0)
               (afterError inp { l with sm := sm' }).sm.modeStack]) := by
  rw [readTokenG]; simp only [h, fireEv]; rfl

end unfoldG

/-- **Erasing the ghost log from `readTokenG` gives `readToken`.** -/
theorem readTokenG_erase (modes : Array Mode) (inp : Input) (n : Nat) (start : Option Nat) (l : Lx)
    (g : List Ev) :
    (readTokenG modes inp n start l g).map (fun x => (x.1, x.2.1)) = readToken modes inp n start l := by
  induction n generalizing start l g with
  | zero => rfl
  | succ n ih =>
    generalize hpr : pushRune modes l.sm (l.char inp) = pr
    obtain ⟨res, sm'⟩ := pr
    cases res with
    | consume => rw [readTokenG_consume _ _ _ _ _ _ _ hpr, readToken_consume _ _ _ _ _ _ hpr]; exact ih _ _ _
    | accept => rw [readTokenG_accept _ _ _ _ _ _ _ hpr, readToken_accept _ _ _ _ _ _ hpr]; rfl
    | discard => rw [readTokenG_discard _ _ _ _ _ _ _ hpr, readToken_discard _ _ _ _ _ _ hpr]; exact ih _ _ _
    | tryAgain => rw [readTokenG_tryAgain _ _ _ _ _ _ _ hpr, readToken_tryAgain _ _ _ _ _ _ hpr]; exact ih _ _ _
    | eof => rw [readTokenG_eof _ _ _ _ _ _ _ hpr, readToken_eof _ _ _ _ _ _ hpr]; rfl
    | oob => rw [readTokenG_oob _ _ _ _ _ _ _ hpr, readToken_oob _ _ _ _ _ _ hpr]; rfl
    | error => rw [readTokenG_error _ _ _ _ _ _ _ hpr, readToken_error _ _ _ _ _ _ hpr]; rfl

/-- **Erasing the ghost log from `lexAllG` gives `lexAll`.** -/
theorem lexAllG_erase (modes : Array Mode) (inp : Input) (fuel n : Nat) (l : Lx) (acc : List Tok)
    (g : List Ev) :
    ((lexAllG modes inp fuel n l acc g).1, (lexAllG modes inp fuel n l acc g).2.1)
      = lexAll modes inp fuel n l acc := by
  induction n generalizing l acc g with
  | zero => rfl
  | succ n ih =>
    have he := readTokenG_erase modes inp fuel none l g
    unfold lexAllG lexAll
    rw [← he]
    cases hr : readTokenG modes inp fuel none l g with
    | none => rfl
    | some x =>
      obtain ⟨ot, l', g'⟩ := x
      cases ot with
      | none => rfl
      | some t =>
        cases t with
        | eof p => rfl
        | tok ty a b => exact ih _ _ _
        | err a c => exact ih _ _ _

/-- Induction principle for `readTokenG`: one premise per `PushRune` result. -/
theorem readTokenG_induct (modes : Array Mode) (inp : Input)
    (P : Option Nat → Lx → List Ev → Option Tok × Lx × List Ev → Prop)
    (hconsume : ∀ start l g sm' out, pushRune modes l.sm (l.char inp) = (.consume, sm') →
      P (some (start.getD l.offset)) (({ l with sm := sm' } : Lx).consume inp) g out → P start l g out)
    (haccept : ∀ start l g sm', pushRune modes l.sm (l.char inp) = (.accept, sm') →
      P start l g (some (.tok sm'.token (start.getD l.offset) l.offset), { l with sm := sm' },
        g ++ [fireEv start l .accept] ++
          [.seg ⟨.tok sm'.token, start.getD l.offset, l.offset⟩,
           .ret (.tok sm'.token (start.getD l.offset) l.offset) (sm'.mode.getD 0) sm'.modeStack]))
    (hdiscard : ∀ start l g sm' out, pushRune modes l.sm (l.char inp) = (.discard, sm') →
      P none { l with sm := sm' }
        (g ++ [fireEv start l .discard] ++ [.seg ⟨.discarded, start.getD l.offset, l.offset⟩]) out →
      P start l g out)
    (htry : ∀ start l g sm' out, pushRune modes l.sm (l.char inp) = (.tryAgain, sm') →
      P (some (start.getD l.offset)) { l with sm := sm' } (g ++ [fireEv start l .tryAgain]) out →
      P start l g out)
    (heof : ∀ start l g sm', pushRune modes l.sm (l.char inp) = (.eof, sm') →
      P start l g (some (.eof (start.getD l.offset)), { l with sm := sm' },
        g ++ [fireEv start l .eof] ++
          [.seg ⟨.pending, start.getD l.offset, l.offset⟩,
           .ret (.eof (start.getD l.offset)) (sm'.mode.getD 0) sm'.modeStack]))
    (hoob : ∀ start l g sm', pushRune modes l.sm (l.char inp) = (.oob, sm') →
      P start l g (none, { l with sm := sm' }, g ++ [fireEv start l .oob]))
    (herror : ∀ start l g sm', pushRune modes l.sm (l.char inp) = (.error, sm') →
      P start l g (some (.err (start.getD l.offset) (l.char inp)),
        afterError inp { l with sm := sm' },
        g ++ [fireEv start l .error] ++
          [.seg ⟨.error (l.char inp), start.getD l.offset,
              (afterError inp { l with sm := sm' }).offset⟩,
           .ret (.err (start.getD l.offset) (l.char inp))
             ((afterError inp { l with sm := sm' }).sm.mode.getD 0)
             (afterError inp { l with sm := sm' }).sm.modeStack])) :
    ∀ n start l g out, readTokenG modes inp n start l g = some out → P start l g out := by
  intro n
  induction n with
  | zero => intro _ _ _ _ h; cases h
  | succ n ih =>
    intro start l g out h
    generalize hpr : pushRune modes l.sm (l.char inp) = pr at h
    obtain ⟨res, sm'⟩ := pr
    cases res with
    | consume =>
      rw [readTokenG_consume _ _ _ _ _ _ _ hpr] at h
      exact hconsume _ _ _ _ _ hpr (ih _ _ _ _ h)
    | accept =>
      rw [readTokenG_accept _ _ _ _ _ _ _ hpr] at h
      cases h; exact haccept _ _ _ _ hpr
    | discard =>
      rw [readTokenG_discard _ _ _ _ _ _ _ hpr] at h
      exact hdiscard _ _ _ _ _ hpr (ih _ _ _ _ h)
    | tryAgain =>
      rw [readTokenG_tryAgain _ _ _ _ _ _ _ hpr] at h
      exact htry _ _ _ _ _ hpr (ih _ _ _ _ h)
    | eof =>
      rw [readTokenG_eof _ _ _ _ _ _ _ hpr] at h
      cases h; exact heof _ _ _ _ hpr
    | oob =>
      rw [readTokenG_oob _ _ _ _ _ _ _ hpr] at h
      cases h; exact hoob _ _ _ _ hpr
    | error =>
      rw [readTokenG_error _ _ _ _ _ _ _ hpr] at h
      cases h; exact herror _ _ _ _ hpr

/-! ## Offsets -/

theorem offsetOf_succ {inp : Input} {k : Nat} (h : k < inp.size) :
    offsetOf inp (k + 1) = offsetOf inp k + inp[k].2 := by
  unfold offsetOf
  have hk : k < inp.toList.length := by simpa using h
  rw [List.take_succ_eq_append_getElem hk]
  simp [List.sum_append]

theorem offsetOf_ge {inp : Input} {k : Nat} (h : inp.size ≤ k) : offsetOf inp k = totalBytes inp := by
  unfold totalBytes offsetOf
  rw [List.take_of_length_le (by simpa using h), List.take_of_length_le (by simp)]

theorem offsetOf_mono (inp : Input) {j k : Nat} (h : j ≤ k) : offsetOf inp j ≤ offsetOf inp k := by
  induction k with
  | zero => have : j = 0 := by omega
            subst this; exact Nat.le_refl _
  | succ k ih =>
    by_cases hj : j = k + 1
    · subst hj; exact Nat.le_refl _
    · have := ih (by omega)
      by_cases hk : k < inp.size
      · rw [offsetOf_succ hk]; omega
      · rw [offsetOf_ge (k := k + 1) (by omega), ← offsetOf_ge (k := k) (by omega)]; exact this

theorem consume_sync {inp : Input} {l : Lx} (h : Sync inp l) : Sync inp (l.consume inp) := by
  unfold Sync at *
  by_cases hlt : l.idx < inp.size
  · obtain ⟨c1, _, c3⟩ := consume_lt hlt
    rw [c1, c3, offsetOf_succ hlt, h]
  · rw [consume_ge (by omega)]; exact h

theorem consume_offset_le (inp : Input) (l : Lx) : l.offset ≤ (l.consume inp).offset := by
  by_cases hlt : l.idx < inp.size
  · rw [(consume_lt hlt).2.2]; omega
  · rw [consume_ge (by omega)]; omega

theorem skipLine_sync {inp : Input} (n : Nat) {l : Lx} (h : Sync inp l) :
    Sync inp (skipLine inp n l) := by
  induction n generalizing l with
  | zero => exact h
  | succ n ih =>
    unfold skipLine
    split
    · exact ih (consume_sync h)
    · exact h

theorem skipLine_offset_le (inp : Input) (n : Nat) (l : Lx) : l.offset ≤ (skipLine inp n l).offset := by
  induction n generalizing l with
  | zero => exact Nat.le_refl _
  | succ n ih =>
    unfold skipLine
    split
    · exact Nat.le_trans (consume_offset_le inp l) (ih _)
    · exact Nat.le_refl _

theorem afterError_sync {inp : Input} {l : Lx} (h : Sync inp l) : Sync inp (afterError inp l) := by
  have := consume_sync (skipLine_sync (inp.size + 1) h)
  simpa [afterError, Sync] using this

theorem afterError_offset_le (inp : Input) (l : Lx) : l.offset ≤ (afterError inp l).offset := by
  simp only [afterError]
  exact Nat.le_trans (skipLine_offset_le inp _ l) (consume_offset_le inp _)

/-! ## Segments -/

@[simp] theorem segsOf_append (a b : List Ev) : segsOf (a ++ b) = segsOf a ++ segsOf b := by
  simp [segsOf, List.filterMap_append]

@[simp] theorem segsOf_nil : segsOf [] = [] := rfl

@[simp] theorem segsOf_cons_fire (start : Option Nat) (l : Lx) (res : Res) (rest : List Ev) :
    segsOf (fireEv start l res :: rest) = segsOf rest := rfl

@[simp] theorem segsOf_cons_seg (s : Seg) (rest : List Ev) :
    segsOf (.seg s :: rest) = s :: segsOf rest := rfl

@[simp] theorem segsOf_cons_ret (t : Tok) (mo : Nat) (st : List Nat) (rest : List Ev) :
    segsOf (.ret t mo st :: rest) = segsOf rest := rfl

theorem contig_snoc (xs : List Seg) (s : Seg) (a b : Nat) :
    Contig (xs ++ [s]) a b ↔ Contig xs a s.start ∧ s.start ≤ s.stop ∧ s.stop = b := by
  induction xs generalizing a with
  | nil =>
    simp only [List.nil_append, Contig]
    constructor
    · rintro ⟨h1, h2, h3⟩; exact ⟨h1.symm, h2, h3⟩
    · rintro ⟨h1, h2, h3⟩; exact ⟨h1.symm, h2, h3⟩
  | cons x rest ih =>
    simp only [List.cons_append, Contig, ih]
    constructor
    · rintro ⟨h1, h2, h3, h4, h5⟩; exact ⟨⟨h1, h2, h3⟩, h4, h5⟩
    · rintro ⟨⟨h1, h2, h3⟩, h4, h5⟩; exact ⟨h1, h2, h3, h4, h5⟩

/-- **Contiguity through one `ReadToken` call.** Whatever the table: if the segments logged so
far run contiguously from `a` to the pending token start, then after the call they run
contiguously from `a` to the driver's offset; the offset only grows and stays in step with the
rune index. -/
theorem readTokenG_contig (modes : Array Mode) (inp : Input) (n : Nat) (start : Option Nat)
    (l : Lx) (g : List Ev) (out : Option Tok × Lx × List Ev)
    (h : readTokenG modes inp n start l g = some out) (a : Nat)
    (hc : Contig (segsOf g) a (start.getD l.offset)) (hle : start.getD l.offset ≤ l.offset)
    (hs : Sync inp l) :
    Sync inp out.2.1 ∧ l.offset ≤ out.2.1.offset ∧
      (out.1 ≠ none → Contig (segsOf out.2.2) a out.2.1.offset) := by
  revert a hle hs
  refine readTokenG_induct modes inp
    (fun start l g out => ∀ a, Contig (segsOf g) a (start.getD l.offset) →
      start.getD l.offset ≤ l.offset → Sync inp l →
      Sync inp out.2.1 ∧ l.offset ≤ out.2.1.offset ∧
        (out.1 ≠ none → Contig (segsOf out.2.2) a out.2.1.offset))
    ?_ ?_ ?_ ?_ ?_ ?_ ?_ n start l g out h
  · intro start l g sm' out _ ih a hc hle hs
    have hco := consume_offset_le inp ({ l with sm := sm' } : Lx)
    obtain ⟨i1, i2, i3⟩ := ih a hc (Nat.le_trans hle hco) (consume_sync (l := { l with sm := sm' }) hs)
    exact ⟨i1, Nat.le_trans hco i2, i3⟩
  · intro start l g sm' _ a hc hle hs
    refine ⟨hs, Nat.le_refl _, fun _ => ?_⟩
    simp only [segsOf_append, segsOf_cons_fire, segsOf_cons_seg, segsOf_cons_ret, segsOf_nil,
      List.append_assoc, List.nil_append]
    exact (contig_snoc _ _ _ _).2 ⟨hc, hle, rfl⟩
  · intro start l g sm' out _ ih a hc hle hs
    refine ih a ?_ (Nat.le_refl _) hs
    simp only [segsOf_append, segsOf_cons_fire, segsOf_cons_seg, segsOf_nil,
      List.append_assoc, List.nil_append]
    exact (contig_snoc _ _ _ _).2 ⟨hc, hle, rfl⟩
  · intro start l g sm' out _ ih a hc hle hs
    refine ih a ?_ hle hs
    simpa using hc
  · intro start l g sm' _ a hc hle hs
    refine ⟨hs, Nat.le_refl _, fun _ => ?_⟩
    simp only [segsOf_append, segsOf_cons_fire, segsOf_cons_seg, segsOf_cons_ret, segsOf_nil,
      List.append_assoc, List.nil_append]
    exact (contig_snoc _ _ _ _).2 ⟨hc, hle, rfl⟩
  · intro start l g sm' _ a hc hle hs
    exact ⟨hs, Nat.le_refl _, fun h => absurd rfl h⟩
  · intro start l g sm' _ a hc hle hs
    have hao := afterError_offset_le inp ({ l with sm := sm' } : Lx)
    refine ⟨afterError_sync (l := { l with sm := sm' }) hs, hao, fun _ => ?_⟩
    simp only [segsOf_append, segsOf_cons_fire, segsOf_cons_seg, segsOf_cons_ret, segsOf_nil,
      List.append_assoc, List.nil_append]
    exact (contig_snoc _ _ _ _).2 ⟨hc, Nat.le_trans hle hao, rfl⟩

/-- **Every returned token is the report of the one new reported segment**; discarded segments
are the only other new ones. -/
theorem readTokenG_reports (modes : Array Mode) (inp : Input) (n : Nat) (start : Option Nat)
    (l : Lx) (g : List Ev) (out : Option Tok × Lx × List Ev)
    (h : readTokenG modes inp n start l g = some out) :
    (segsOf out.2.2).filterMap Seg.report = (segsOf g).filterMap Seg.report ++ out.1.toList := by
  refine readTokenG_induct modes inp
    (fun _ _ g out =>
      (segsOf out.2.2).filterMap Seg.report = (segsOf g).filterMap Seg.report ++ out.1.toList)
    ?_ ?_ ?_ ?_ ?_ ?_ ?_ n start l g out h
  · intro _ _ _ _ _ _ ih; exact ih
  · intro _ _ _ _ _; simp [Seg.report]
  · intro _ _ _ _ _ _ ih; rw [ih]; simp [Seg.report]
  · intro _ _ _ _ _ _ ih; rw [ih]; simp
  · intro _ _ _ _ _; simp [Seg.report]
  · intro _ _ _ _ _; simp
  · intro _ _ _ _ _; simp [Seg.report]

/-- **`accum_prefix`, general form**: the first segment closed by a `ReadToken` iteration that
runs with token start `s` begins at `s` and ends at or after the current offset. -/
theorem readTokenG_first_seg (modes : Array Mode) (inp : Input) (n : Nat) (start : Option Nat)
    (l : Lx) (g : List Ev) (out : Option Tok × Lx × List Ev)
    (h : readTokenG modes inp n start l g = some out) (hno : out.1 ≠ none) :
    ∃ seg rest, segsOf out.2.2 = segsOf g ++ seg :: rest ∧ seg.start = start.getD l.offset ∧
      l.offset ≤ seg.stop := by
  revert hno
  refine readTokenG_induct modes inp
    (fun start l g out => out.1 ≠ none →
      ∃ seg rest, segsOf out.2.2 = segsOf g ++ seg :: rest ∧ seg.start = start.getD l.offset ∧
        l.offset ≤ seg.stop)
    ?_ ?_ ?_ ?_ ?_ ?_ ?_ n start l g out h
  · intro start l g sm' out _ ih hno
    obtain ⟨seg, rest, e1, e2, e3⟩ := ih hno
    exact ⟨seg, rest, e1, e2, Nat.le_trans (consume_offset_le inp ({ l with sm := sm' } : Lx)) e3⟩
  · intro start l g sm' _ _
    exact ⟨⟨.tok sm'.token, start.getD l.offset, l.offset⟩, [], by simp, rfl, Nat.le_refl _⟩
  · intro start l g sm' out _ ih hno
    obtain ⟨seg, rest, e1, _, _⟩ := ih hno
    exact ⟨⟨.discarded, start.getD l.offset, l.offset⟩, seg :: rest, by simp [e1], rfl,
      Nat.le_refl _⟩
  · intro start l g sm' out _ ih hno
    obtain ⟨seg, rest, e1, e2, e3⟩ := ih hno
    exact ⟨seg, rest, by simpa using e1, e2, e3⟩
  · intro start l g sm' _ _
    exact ⟨⟨.pending, start.getD l.offset, l.offset⟩, [], by simp, rfl, Nat.le_refl _⟩
  · intro start l g sm' _ hno; exact absurd rfl hno
  · intro start l g sm' _ _
    exact ⟨⟨.error (l.char inp), start.getD l.offset, (afterError inp { l with sm := sm' }).offset⟩,
      [], by simp, rfl, afterError_offset_le inp ({ l with sm := sm' } : Lx)⟩

/-! ## `_lexerEOF` is only returned for the end-of-input marker (any table) -/

theorem runActions_eof (modes : Array Mode) (m : Mode) (r : Int) (fuel : Nat) (i stop : Int)
    (sm sm' : SM) (h : runActions modes m r fuel i stop sm = some (.eof, sm')) : r = -1 := by
  fun_induction runActions modes m r fuel i stop sm <;> simp_all

theorem pushRune_eof (modes : Array Mode) (sm sm' : SM) (r : Int)
    (h : pushRune modes sm r = (.eof, sm')) : r = -1 := by
  unfold pushRune at h
  simp only at h
  repeat' split at h
  all_goals first
    | (cases h; done)
    | (rename_i hra; subst h; exact runActions_eof _ _ _ _ _ _ _ _ hra)

/-! ## One `PushRune` call against the abstract mode stack -/

/-- What one `PushRune` call does to `(mode, modeStack)`. -/
structure StepAbs (ps : List Pair) (sm : SM) (res : Res) (sm' : SM) : Prop where
  /-- consuming a rune does not touch the modes -/
  consume : res = .consume → sm'.mode.getD 0 = sm.mode.getD 0 ∧ sm'.modeStack = sm.modeStack
  /-- otherwise the push/pop pairs of the current row are applied in order (up to the first pop on
  an empty stack) -/
  fire : res ≠ .consume → (sm'.mode.getD 0, sm'.modeStack) =
    applyModeActsT ps (sm.mode.getD 0, sm.modeStack)
  /-- `_lexerTryAgain` comes from an accumulate pair -/
  tryAgain : res = .tryAgain → ∃ p ∈ ps, p.1 = 5

theorem pushRune_stepAbs {modes : Array Mode} (hwf : WFModes modes) {sm : SM}
    (hin : InRange modes sm) (r : Int) :
    StepAbs (rowPairs modes (sm.mode.getD 0) sm.state) sm
      (pushRune modes sm r).1 (pushRune modes sm r).2 := by
  obtain ⟨⟨hmo, hstack⟩, hst0, m, hm, hlt⟩ := hin
  obtain ⟨hn, hrows⟩ := hwf.2 _ m hm
  obtain ⟨row, hrow, rwf⟩ := hrows _ hlt
  have hcast : ((sm.state.toNat : Nat) : Int) = sm.state := by omega
  rw [hcast] at hrow
  rw [pushRune_eq_stepRow modes sm r m row hm hrow rwf.sorted.1
    (fun t ht => (rwf.sorted.2 t ht).2)]
  have hrp : rowPairs modes (sm.mode.getD 0) sm.state = row.pairs := by
    simp only [rowPairs, hm, hrow]
  rw [hrp]
  generalize hsm0 : ({ sm with mode := some (sm.mode.getD 0) } : SM) = sm0
  have e2 : sm0.mode = some (sm.mode.getD 0) := by subst hsm0; rfl
  have e3 : sm0.modeStack = sm.modeStack := by subst hsm0; rfl
  unfold stepRow
  cases hl : (if row.flags % 2 = 0 then lookup row.triples r else none) with
  | some st =>
    dsimp only
    exact ⟨fun _ => ⟨by simp [e2], e3⟩, fun h => absurd rfl h, (fun h => by cases h)⟩
  | none =>
    dsimp only
    rcases rwf.pairs with hnil | ⟨pre, t, hps, hpre, ht⟩
    · rw [hnil]
      unfold execPairs
      split
      · dsimp only
        exact ⟨(fun h => by cases h), (fun _ => by simp [applyModeActsT, e2, e3]),
          (fun h => by cases h)⟩
      · dsimp only
        exact ⟨(fun h => by cases h), (fun _ => by simp [applyModeActsT, e2, e3]),
          (fun h => by cases h)⟩
    · rw [hps, execPairs_wf modes.size r pre t sm0 _ hpre ht e2, e3]
      have hT := applyModeActsT_append_terminal pre t (sm.mode.getD 0, sm.modeStack) ht
      cases ha : applyModeActs pre (sm.mode.getD 0, sm.modeStack) with
      | none =>
        dsimp only
        exact ⟨(fun h => by cases h), (fun _ => by rw [hT]; simp), (fun h => by cases h)⟩
      | some ms =>
        dsimp only
        have hms := applyModeActs_eq_T ha
        obtain ⟨hres, hst, hmode, hstk⟩ :=
          terminalEffect_cases t { sm0 with mode := some ms.1, modeStack := ms.2 }
        have htry : (terminalEffect t { sm0 with mode := some ms.1, modeStack := ms.2 }).1 = .tryAgain →
            t.1 = 5 := by
          unfold terminalEffect
          split
          · intro h; cases h
          · split
            · intro h; cases h
            · intro _; omega
        refine ⟨?_, ?_, ?_⟩
        · intro h; rcases hres with h' | h' | h' <;> rw [h'] at h <;> cases h
        · intro _
          rw [hmode, hstk, hT, hms]
          simp
        · intro h
          exact ⟨t, by simp, htry h⟩

theorem absRun_append (modes : Array Mode) (a b : List Ev) (ms : MS) :
    absRun modes (a ++ b) ms = absRun modes b (absRun modes a ms) := by
  induction a generalizing ms with
  | nil => rfl
  | cons ev rest ih => simp only [List.cons_append, absRun]; exact ih _

theorem absAgrees_append (modes : Array Mode) (a b : List Ev) (ms : MS) :
    AbsAgrees modes (a ++ b) ms ↔ AbsAgrees modes a ms ∧ AbsAgrees modes b (absRun modes a ms) := by
  induction a generalizing ms with
  | nil => simp [AbsAgrees, absRun]
  | cons ev rest ih =>
    simp only [List.cons_append, AbsAgrees, absRun, ih, and_assoc]

/-- **Mode-stack discipline through one `ReadToken` call.** On a well-formed table: if the
abstract mode stack obtained by replaying the log agrees with the state machine before the call,
it agrees after it – at every row that fired and at the return. -/
theorem readTokenG_abs {modes : Array Mode} (hwf : WFModes modes) (inp : Input) (n : Nat)
    (start : Option Nat) (l : Lx) (g : List Ev) (out : Option Tok × Lx × List Ev)
    (h : readTokenG modes inp n start l g = some out) (ms0 : MS)
    (hin : InRange modes l.sm) (hag : AbsAgrees modes g ms0)
    (hrun : absRun modes g ms0 = (l.sm.mode.getD 0, l.sm.modeStack)) :
    out.1 ≠ none ∧ InRange modes out.2.1.sm ∧ AbsAgrees modes out.2.2 ms0 ∧
      absRun modes out.2.2 ms0 = (out.2.1.sm.mode.getD 0, out.2.1.sm.modeStack) := by
  revert hin hag hrun
  refine readTokenG_induct modes inp
    (fun start l g out => InRange modes l.sm → AbsAgrees modes g ms0 →
      absRun modes g ms0 = (l.sm.mode.getD 0, l.sm.modeStack) →
      out.1 ≠ none ∧ InRange modes out.2.1.sm ∧ AbsAgrees modes out.2.2 ms0 ∧
        absRun modes out.2.2 ms0 = (out.2.1.sm.mode.getD 0, out.2.1.sm.modeStack))
    ?_ ?_ ?_ ?_ ?_ ?_ ?_ n start l g out h
  · intro start l g sm' out hpr ih hin hag hrun
    have hok := pushRune_stepOK hwf hin (l.char inp)
    have hab := pushRune_stepAbs hwf hin (l.char inp)
    rw [hpr] at hok hab
    obtain ⟨a1, a2⟩ := hab.consume rfl
    simp only at a1 a2
    refine ih ?_ hag ?_
    · rw [consume_sm]; exact hok.inRange (by simp)
    · rw [consume_sm]; simp only; rw [a1, a2]; exact hrun
  all_goals
    intro start l g sm'
  · intro hpr hin hag hrun
    have hok := pushRune_stepOK hwf hin (l.char inp)
    have hab := pushRune_stepAbs hwf hin (l.char inp)
    rw [hpr] at hok hab
    have hf := hab.fire (by simp)
    simp only at hf
    refine ⟨by simp, hok.inRange (by simp), ?_, ?_⟩
    · rw [List.append_assoc, absAgrees_append]
      refine ⟨hag, ?_⟩
      rw [hrun]
      simp [AbsAgrees, fireEv, absStep, hf]
    · rw [List.append_assoc, absRun_append, hrun]
      simp [absRun, fireEv, absStep, hf]
  · intro out hpr ih hin hag hrun
    have hok := pushRune_stepOK hwf hin (l.char inp)
    have hab := pushRune_stepAbs hwf hin (l.char inp)
    rw [hpr] at hok hab
    have hf := hab.fire (by simp)
    simp only at hf
    refine ih (hok.inRange (by simp)) ?_ ?_
    · rw [List.append_assoc, absAgrees_append]
      refine ⟨hag, ?_⟩
      rw [hrun]
      simp [AbsAgrees, fireEv]
    · rw [List.append_assoc, absRun_append, hrun]
      simp [absRun, fireEv, absStep, hf]
  · intro out hpr ih hin hag hrun
    have hok := pushRune_stepOK hwf hin (l.char inp)
    have hab := pushRune_stepAbs hwf hin (l.char inp)
    rw [hpr] at hok hab
    have hf := hab.fire (by simp)
    simp only at hf
    refine ih (hok.inRange (by simp)) ?_ ?_
    · rw [absAgrees_append]
      refine ⟨hag, ?_⟩
      rw [hrun]
      simp [AbsAgrees, fireEv]
    · rw [absRun_append, hrun]
      simp [absRun, fireEv, absStep, hf]
  · intro hpr hin hag hrun
    have hok := pushRune_stepOK hwf hin (l.char inp)
    have hab := pushRune_stepAbs hwf hin (l.char inp)
    rw [hpr] at hok hab
    have hf := hab.fire (by simp)
    simp only at hf
    refine ⟨by simp, hok.inRange (by simp), ?_, ?_⟩
    · rw [List.append_assoc, absAgrees_append]
      refine ⟨hag, ?_⟩
      rw [hrun]
      simp [AbsAgrees, fireEv, absStep, hf]
    · rw [List.append_assoc, absRun_append, hrun]
      simp [absRun, fireEv, absStep, hf]
  · intro hpr hin _ _
    have hok := pushRune_stepOK hwf hin (l.char inp)
    rw [hpr] at hok
    exact absurd rfl hok.noOob
  · intro hpr hin hag hrun
    have hok := pushRune_stepOK hwf hin (l.char inp)
    have hab := pushRune_stepAbs hwf hin (l.char inp)
    rw [hpr] at hok hab
    have hf := hab.fire (by simp)
    simp only at hf
    have hsm := afterError_sm inp ({ l with sm := sm' } : Lx)
    simp only at hsm
    refine ⟨by simp, ?_, ?_, ?_⟩
    · rw [hsm]; exact inRange_reset hwf hok.modesOK
    · rw [List.append_assoc, absAgrees_append]
      refine ⟨hag, ?_⟩
      rw [hrun, hsm]
      simp [AbsAgrees, fireEv, absStep, SM.reset, ← hf]
    · rw [List.append_assoc, absRun_append, hrun, hsm]
      simp [absRun, fireEv, absStep, SM.reset, ← hf]

theorem readTokenG_eof_char (modes : Array Mode) (inp : Input) (n : Nat) (start : Option Nat)
    (l : Lx) (g : List Ev) (out : Option Tok × Lx × List Ev)
    (h : readTokenG modes inp n start l g = some out) (p : Nat) (hp : out.1 = some (.eof p)) :
    out.2.1.char inp = -1 := by
  revert hp
  refine readTokenG_induct modes inp
    (fun _ _ _ out => out.1 = some (.eof p) → out.2.1.char inp = -1)
    ?_ ?_ ?_ ?_ ?_ ?_ ?_ n start l g out h
  · intro _ _ _ _ _ _ ih; exact ih
  · intro _ _ _ _ _ h; simp at h
  · intro _ _ _ _ _ _ ih; exact ih
  · intro _ _ _ _ _ _ ih; exact ih
  · intro _ l _ sm' hpr _; exact pushRune_eof _ _ _ _ hpr
  · intro _ _ _ _ _ h; simp at h
  · intro _ _ _ _ _ h; simp at h

/-! ## `skipLine`: the error stretch -/

/-- `skipLine` with enough fuel stops exactly at the first `'\n'` or at the end-of-input marker:
every rune it steps over is neither. -/
theorem skipLine_spec (inp : Input) (n : Nat) (l : Lx) (hn : inp.size - l.idx < n) :
    l.idx ≤ (skipLine inp n l).idx ∧
    (∀ j, l.idx ≤ j → j < (skipLine inp n l).idx → ∃ p, inp[j]? = some p ∧ p.1 ≠ 10 ∧ p.1 ≠ -1) ∧
    ((skipLine inp n l).char inp = 10 ∨ (skipLine inp n l).char inp = -1) := by
  induction n generalizing l with
  | zero => omega
  | succ n ih =>
    unfold skipLine
    split
    · rename_i hc
      have hlt : l.idx < inp.size := idx_lt_of_char_ne hc.2
      obtain ⟨c1, _, _⟩ := consume_lt hlt
      obtain ⟨i1, i2, i3⟩ := ih (l.consume inp) (by rw [c1]; omega)
      rw [c1] at i1 i2
      refine ⟨by omega, ?_, i3⟩
      intro j hj1 hj2
      by_cases hj : j = l.idx
      · subst hj
        refine ⟨inp[l.idx], Array.getElem?_eq_getElem hlt, ?_⟩
        unfold Lx.char at hc
        rw [Array.getElem?_eq_getElem hlt] at hc
        exact hc
      · exact i2 j (by omega) hj2
    · rename_i hc
      refine ⟨Nat.le_refl _, fun j h1 h2 => by omega, ?_⟩
      by_cases h10 : l.char inp = 10
      · exact Or.inl h10
      · right
        by_cases h1 : l.char inp = -1
        · exact h1
        · exact absurd ⟨h10, h1⟩ hc

/-- **The error stretch.** After an ERROR token on a valid input the driver stands just after the
first `'\n'` at or after the offending rune, or at the end of the input when there is none. -/
theorem afterError_spec (inp : Input) (hv : ValidInput inp) (l : Lx) (hidx : l.idx ≤ inp.size) :
    ∃ k, l.idx ≤ k ∧ k ≤ inp.size ∧
      (∀ j, l.idx ≤ j → j < k → ∃ p, inp[j]? = some p ∧ p.1 ≠ 10) ∧
      (k = inp.size ∨ ∃ p, inp[k]? = some p ∧ p.1 = 10) ∧
      (afterError inp l).idx = min (k + 1) inp.size := by
  obtain ⟨s1, s2, s3⟩ := skipLine_spec inp (inp.size + 1) l (by omega)
  have hle := skipLine_idx_le_size (inp.size + 1) hidx
  refine ⟨(skipLine inp (inp.size + 1) l).idx, s1, hle, ?_, ?_, ?_⟩
  · intro j h1 h2
    obtain ⟨p, hp, h10, _⟩ := s2 j h1 h2
    exact ⟨p, hp, h10⟩
  · by_cases hlt : (skipLine inp (inp.size + 1) l).idx < inp.size
    · right
      refine ⟨inp[(skipLine inp (inp.size + 1) l).idx], Array.getElem?_eq_getElem hlt, ?_⟩
      unfold Lx.char at s3
      rw [Array.getElem?_eq_getElem hlt] at s3
      simp only at s3
      have := hv inp[(skipLine inp (inp.size + 1) l).idx] (by simp)
      omega
    · left; omega
  · simp only [afterError]
    by_cases hlt : (skipLine inp (inp.size + 1) l).idx < inp.size
    · rw [(consume_lt hlt).1]; omega
    · rw [consume_ge (by omega)]; omega

/-! ## Whole runs -/

/-- Invariant transfer for `lexAllG`: an invariant kept by every `ReadToken` call holds at the end
of a run that reached EOF. -/
theorem lexAllG_inv (modes : Array Mode) (inp : Input) (fuel : Nat)
    (I : Lx → List Tok → List Ev → Prop)
    (hstep : ∀ l acc g t l' g', I l acc g →
      readTokenG modes inp fuel none l g = some (some t, l', g') → I l' (t :: acc) g') :
    ∀ n l acc g toks gf, I l acc g → lexAllG modes inp fuel n l acc g = (toks, "ok", gf) →
      ∃ lf accf p, I lf (.eof p :: accf) gf ∧ toks = (.eof p :: accf).reverse := by
  intro n
  induction n with
  | zero => intro l acc g toks gf _ h; simp [lexAllG] at h
  | succ n ih =>
    intro l acc g toks gf hI h
    unfold lexAllG at h
    cases hr : readTokenG modes inp fuel none l g with
    | none => rw [hr] at h; simp at h
    | some x =>
      obtain ⟨ot, l', g'⟩ := x
      rw [hr] at h
      cases ot with
      | none => simp at h
      | some t =>
        have hI' := hstep l acc g t l' g' hI hr
        cases t with
        | eof p =>
          simp only [Prod.mk.injEq, true_and] at h
          obtain ⟨h1, h2⟩ := h
          subst h1 h2
          exact ⟨l', acc, p, hI', rfl⟩
        | tok ty a b => exact ih _ _ _ _ _ hI' h
        | err a c => exact ih _ _ _ _ _ hI' h

/-- The conservation invariant of a run. -/
def ConsInv (inp : Input) (l : Lx) (acc : List Tok) (g : List Ev) : Prop :=
  Sync inp l ∧ Contig (segsOf g) 0 l.offset ∧ (segsOf g).filterMap Seg.report = acc.reverse ∧
  ∀ p rest, acc = .eof p :: rest → l.char inp = -1

theorem consInv_step (modes : Array Mode) (inp : Input) (fuel : Nat) (l : Lx) (acc : List Tok)
    (g : List Ev) (t : Tok) (l' : Lx) (g' : List Ev) (hI : ConsInv inp l acc g)
    (h : readTokenG modes inp fuel none l g = some (some t, l', g')) :
    ConsInv inp l' (t :: acc) g' := by
  obtain ⟨i1, i2, i3, _⟩ := hI
  obtain ⟨c1, _, c3⟩ := readTokenG_contig modes inp fuel none l g _ h 0 (by simpa using i2)
    (by simp) i1
  have hrep := readTokenG_reports modes inp fuel none l g _ h
  refine ⟨c1, c3 (by simp), ?_, ?_⟩
  · simp only at hrep
    rw [hrep, i3]; simp
  · intro p rest he
    simp only [List.cons.injEq] at he
    exact readTokenG_eof_char modes inp fuel none l g _ h p (by simp [he.1])

theorem consInv_init (inp : Input) : ConsInv inp {} [] [] := by
  refine ⟨by simp [Sync, offsetOf], by simp [Contig], by simp, by simp⟩

/-- **Conservation, any table.** If a run of the ghost driver on a valid input reaches EOF
(status `"ok"`), the logged segments are contiguous, in order, start at byte 0 and end at the
byte length of the input; and the tokens returned are exactly the reports of the segments, in
order (discarded segments report nothing). -/
theorem lexAllG_conservation (modes : Array Mode) (inp : Input) (hv : ValidInput inp)
    (fuel n : Nat) (toks : List Tok) (log : List Ev)
    (h : lexAllG modes inp fuel n {} [] [] = (toks, "ok", log)) :
    Contig (segsOf log) 0 (totalBytes inp) ∧ (segsOf log).filterMap Seg.report = toks := by
  obtain ⟨lf, accf, p, ⟨i1, i2, i3, i4⟩, e⟩ :=
    lexAllG_inv modes inp fuel (ConsInv inp) (consInv_step modes inp fuel) n {} [] [] toks log
      (consInv_init inp) h
  have hc := i4 p accf rfl
  have hge : inp.size ≤ lf.idx := by
    by_cases hlt : lf.idx < inp.size
    · exfalso
      unfold Lx.char at hc
      rw [Array.getElem?_eq_getElem hlt] at hc
      have := hv inp[lf.idx] (by simp)
      simp only at hc
      omega
    · omega
  have : lf.offset = totalBytes inp := by rw [i1, offsetOf_ge hge]
  rw [this] at i2
  exact ⟨i2, by rw [i3, e]⟩

/-! ## Contiguous segments partition the bytes -/

theorem contig_le {segs : List Seg} {a b : Nat} (h : Contig segs a b) : a ≤ b := by
  induction segs generalizing a with
  | nil => simp only [Contig] at h; omega
  | cons s rest ih =>
    obtain ⟨h1, h2, h3⟩ := h
    have := ih h3
    omega

/-- Concatenating the stretches of contiguous segments gives back the bytes between the two ends. -/
theorem contig_concat {α : Type} (bytes : List α) {segs : List Seg} {a b : Nat}
    (h : Contig segs a b) :
    (segs.map fun s => (bytes.drop s.start).take (s.stop - s.start)).flatten
      = (bytes.drop a).take (b - a) := by
  induction segs generalizing a with
  | nil => simp only [Contig] at h; subst h; simp
  | cons s rest ih =>
    obtain ⟨h1, h2, h3⟩ := h
    have hle := contig_le h3
    simp only [List.map_cons, List.flatten_cons, ih h3]
    subst h1
    have e : b - s.start = (s.stop - s.start) + (b - s.stop) := by omega
    rw [e, List.take_add, List.drop_drop]
    congr 3
    omega

/-- Every byte offset between the two ends lies in exactly one of the contiguous segments. -/
theorem contig_unique {segs : List Seg} {a b : Nat} (h : Contig segs a b) (x : Nat)
    (hax : a ≤ x) (hxb : x < b) :
    (segs.filter fun s => decide (s.start ≤ x ∧ x < s.stop)).length = 1 := by
  have hnone : ∀ {segs : List Seg} {c b : Nat}, Contig segs c b → x < c →
      (segs.filter fun s => decide (s.start ≤ x ∧ x < s.stop)) = [] := by
    intro segs
    induction segs with
    | nil => intro _ _ _ _; rfl
    | cons s rest ih =>
      intro c b hc hx
      obtain ⟨h1, h2, h3⟩ := hc
      have : ¬ (s.start ≤ x ∧ x < s.stop) := by omega
      simp only [List.filter_cons, this, decide_false]
      exact ih h3 (by omega)
  induction segs generalizing a with
  | nil => simp only [Contig] at h; omega
  | cons s rest ih =>
    obtain ⟨h1, h2, h3⟩ := h
    by_cases hx : x < s.stop
    · have : s.start ≤ x ∧ x < s.stop := by omega
      simp only [List.filter_cons, this, decide_true, and_self, if_true, List.length_cons]
      rw [hnone h3 hx]; rfl
    · have : ¬ (s.start ≤ x ∧ x < s.stop) := by omega
      simp only [List.filter_cons, this, decide_false]
      exact ih h3 (by omega)

/-- **Mode-stack discipline over a whole run.** On a well-formed table the abstract mode stack
replayed from the ghost log agrees with the state machine at every row that fired and at every
return of `ReadToken`, whatever the fuel (also on a run cut short by `"timeout"`). -/
theorem lexAllG_abs {modes : Array Mode} (hwf : WFModes modes) (inp : Input) (fuel : Nat) (ms0 : MS) :
    ∀ n l acc g, InRange modes l.sm → AbsAgrees modes g ms0 →
      absRun modes g ms0 = (l.sm.mode.getD 0, l.sm.modeStack) →
      AbsAgrees modes (lexAllG modes inp fuel n l acc g).2.2 ms0 := by
  intro n
  induction n with
  | zero => intro l acc g _ hag _; exact hag
  | succ n ih =>
    intro l acc g hin hag hrun
    unfold lexAllG
    cases hr : readTokenG modes inp fuel none l g with
    | none => exact hag
    | some x =>
      obtain ⟨a1, a2, a3, a4⟩ := readTokenG_abs hwf inp fuel none l g x hr ms0 hin hag hrun
      obtain ⟨ot, l', g'⟩ := x
      cases ot with
      | none => exact absurd rfl a1
      | some t =>
        cases t with
        | eof p => exact a3
        | tok ty a b => exact ih _ _ _ a2 a3 a4
        | err a c => exact ih _ _ _ a2 a3 a4

/-- `AbsAgrees` read at one `ret` event: the abstract mode stack after the prefix of the log up to
and including that return is the recorded `(mode, stack)`. -/
theorem absAgrees_at_ret (modes : Array Mode) (pre post : List Ev) (t : Tok) (mo : Nat)
    (st : List Nat) (ms0 : MS) (h : AbsAgrees modes (pre ++ .ret t mo st :: post) ms0) :
    absRun modes (pre ++ [.ret t mo st]) ms0 = (mo, st) := by
  rw [absAgrees_append] at h
  rw [absRun_append]
  exact h.2.1

/-- At a `fire` event the abstract current mode is the mode whose row fired. -/
theorem absAgrees_at_fire (modes : Array Mode) (pre post : List Ev) (mode : Nat) (state : Int)
    (res : Res) (a b : Nat) (ms0 : MS)
    (h : AbsAgrees modes (pre ++ .fire mode state res a b :: post) ms0) :
    (absRun modes pre ms0).1 = mode := by
  rw [absAgrees_append] at h
  exact h.2.1

/-! ## No accumulate pair, no pending text (the complement of K5) -/

theorem noAccum_iff (modes : Array Mode) : noAccum modes = true ↔ NoAccum modes := by
  unfold noAccum NoAccum
  simp only [List.all_eq_true, List.mem_range]
  constructor
  · intro h mi m hm s hs row hrow p hp
    have := h m (List.mem_iff_getElem?.2 ⟨mi, by rw [Array.getElem?_toList]; exact hm⟩) s hs
    rw [hrow] at this
    simp only [List.all_eq_true, decide_eq_true_eq] at this
    exact this p hp
  · intro h m hm s hs
    obtain ⟨mi, hmi⟩ := List.mem_iff_getElem?.1 hm
    rw [Array.getElem?_toList] at hmi
    cases hrow : decodeRow m (s : Int) with
    | none => rfl
    | some row =>
      simp only [List.all_eq_true, decide_eq_true_eq]
      exact h mi m hmi s hs row hrow

theorem pushRune_no_tryAgain {modes : Array Mode} (hwf : WFModes modes) (hna : NoAccum modes)
    {sm : SM} (hin : InRange modes sm) (r : Int) : (pushRune modes sm r).1 ≠ .tryAgain := by
  intro h
  obtain ⟨p, hp, h5⟩ := (pushRune_stepAbs hwf hin r).tryAgain h
  obtain ⟨_, hst0, m, hm, hlt⟩ := hin
  have hcast : ((sm.state.toNat : Nat) : Int) = sm.state := by omega
  unfold rowPairs at hp
  rw [hm] at hp
  simp only at hp
  cases hrow : decodeRow m sm.state with
  | none => rw [hrow] at hp; simp at hp
  | some row =>
    rw [hrow] at hp
    exact hna _ m hm _ hlt row (by rw [hcast]; exact hrow) p hp h5

/-- Without accumulate pairs every `pending` segment is empty: the driver never returns EOF with
text in hand. -/
theorem readTokenG_pending {modes : Array Mode} (hwf : WFModes modes) (hna : NoAccum modes)
    (inp : Input) (n : Nat) (start : Option Nat) (l : Lx) (g : List Ev)
    (out : Option Tok × Lx × List Ev) (h : readTokenG modes inp n start l g = some out)
    (hin : InRange modes l.sm) (hst : l.sm.state = 0 → start.getD l.offset = l.offset)
    (hg : ∀ s ∈ segsOf g, s.kind = .pending → s.start = s.stop) :
    ∀ s ∈ segsOf out.2.2, s.kind = .pending → s.start = s.stop := by
  revert hin hst hg
  refine readTokenG_induct modes inp
    (fun start l g out => InRange modes l.sm → (l.sm.state = 0 → start.getD l.offset = l.offset) →
      (∀ s ∈ segsOf g, s.kind = .pending → s.start = s.stop) →
      ∀ s ∈ segsOf out.2.2, s.kind = .pending → s.start = s.stop)
    ?_ ?_ ?_ ?_ ?_ ?_ ?_ n start l g out h
  · intro start l g sm' out hpr ih hin _ hg
    have hok := pushRune_stepOK hwf hin (l.char inp)
    rw [hpr] at hok
    refine ih ?_ ?_ hg
    · rw [consume_sm]; exact hok.inRange (by simp)
    · rw [consume_sm]; intro h0; exact absurd h0 (hok.consume rfl).1
  · intro start l g sm' _ _ _ hg s hs hk
    simp only [segsOf_append, segsOf_cons_fire, segsOf_cons_seg, segsOf_cons_ret, segsOf_nil,
      List.append_assoc, List.nil_append, List.mem_append, List.mem_singleton] at hs
    rcases hs with hs | hs
    · exact hg s hs hk
    · subst hs; cases hk
  · intro start l g sm' out hpr ih hin _ hg
    have hok := pushRune_stepOK hwf hin (l.char inp)
    rw [hpr] at hok
    refine ih (hok.inRange (by simp)) (fun _ => rfl) ?_
    intro s hs hk
    simp only [segsOf_append, segsOf_cons_fire, segsOf_cons_seg, segsOf_nil,
      List.append_assoc, List.nil_append, List.mem_append, List.mem_singleton] at hs
    rcases hs with hs | hs
    · exact hg s hs hk
    · subst hs; cases hk
  · intro start l g sm' out hpr _ hin _ _
    have := pushRune_no_tryAgain hwf hna hin (l.char inp)
    rw [hpr] at this
    exact absurd rfl this
  · intro start l g sm' hpr hin hst hg s hs hk
    have hok := pushRune_stepOK hwf hin (l.char inp)
    rw [hpr] at hok
    simp only [segsOf_append, segsOf_cons_fire, segsOf_cons_seg, segsOf_cons_ret, segsOf_nil,
      List.append_assoc, List.nil_append, List.mem_append, List.mem_singleton] at hs
    rcases hs with hs | hs
    · exact hg s hs hk
    · subst hs; exact hst (hok.eof rfl).1
  · intro start l g sm' _ _ _ hg s hs hk
    simp only [segsOf_append, segsOf_cons_fire, segsOf_nil, List.append_nil] at hs
    exact hg s hs hk
  · intro start l g sm' _ _ _ hg s hs hk
    simp only [segsOf_append, segsOf_cons_fire, segsOf_cons_seg, segsOf_cons_ret, segsOf_nil,
      List.append_assoc, List.nil_append, List.mem_append, List.mem_singleton] at hs
    rcases hs with hs | hs
    · exact hg s hs hk
    · subst hs; cases hk

/-- On a well-formed table a `ReadToken` call from an in-range state machine does not panic and
leaves the state machine in range. -/
theorem readTokenG_inRange {modes : Array Mode} (hwf : WFModes modes) (inp : Input) (n : Nat)
    (start : Option Nat) (l : Lx) (g : List Ev) (out : Option Tok × Lx × List Ev)
    (h : readTokenG modes inp n start l g = some out) (hin : InRange modes l.sm) :
    out.1 ≠ none ∧ InRange modes out.2.1.sm := by
  revert hin
  refine readTokenG_induct modes inp
    (fun _ l _ out => InRange modes l.sm → out.1 ≠ none ∧ InRange modes out.2.1.sm)
    ?_ ?_ ?_ ?_ ?_ ?_ ?_ n start l g out h
  · intro start l g sm' out hpr ih hin
    have hok := pushRune_stepOK hwf hin (l.char inp)
    rw [hpr] at hok
    exact ih (by rw [consume_sm]; exact hok.inRange (by simp))
  · intro start l g sm' hpr hin
    have hok := pushRune_stepOK hwf hin (l.char inp)
    rw [hpr] at hok
    exact ⟨by simp, hok.inRange (by simp)⟩
  · intro start l g sm' out hpr ih hin
    have hok := pushRune_stepOK hwf hin (l.char inp)
    rw [hpr] at hok
    exact ih (hok.inRange (by simp))
  · intro start l g sm' out hpr ih hin
    have hok := pushRune_stepOK hwf hin (l.char inp)
    rw [hpr] at hok
    exact ih (hok.inRange (by simp))
  · intro start l g sm' hpr hin
    have hok := pushRune_stepOK hwf hin (l.char inp)
    rw [hpr] at hok
    exact ⟨by simp, hok.inRange (by simp)⟩
  · intro start l g sm' hpr hin
    have hok := pushRune_stepOK hwf hin (l.char inp)
    rw [hpr] at hok
    exact absurd rfl hok.noOob
  · intro start l g sm' hpr hin
    have hok := pushRune_stepOK hwf hin (l.char inp)
    rw [hpr] at hok
    refine ⟨by simp, ?_⟩
    rw [afterError_sm]; exact inRange_reset hwf hok.modesOK

theorem lexAllG_pending {modes : Array Mode} (hwf : WFModes modes) (hna : NoAccum modes)
    (inp : Input) (fuel : Nat) :
    ∀ n l acc g, InRange modes l.sm →
      (∀ s ∈ segsOf g, s.kind = .pending → s.start = s.stop) →
      ∀ s ∈ segsOf (lexAllG modes inp fuel n l acc g).2.2, s.kind = .pending → s.start = s.stop := by
  intro n
  induction n with
  | zero => intro l acc g _ hg; exact hg
  | succ n ih =>
    intro l acc g hin hg
    unfold lexAllG
    cases hr : readTokenG modes inp fuel none l g with
    | none => exact hg
    | some x =>
      have hp := readTokenG_pending hwf hna inp fuel none l g x hr hin (fun _ => rfl) hg
      obtain ⟨a1, a2⟩ := readTokenG_inRange hwf inp fuel none l g x hr hin
      obtain ⟨ot, l', g'⟩ := x
      cases ot with
      | none => exact absurd rfl a1
      | some t =>
        cases t with
        | eof p => exact hp
        | tok ty a b => exact ih _ _ _ a2 hp
        | err a c => exact ih _ _ _ a2 hp

/-- For an accepted fragment action list the terminal effect is the written `@emit`/`@discard`
(there is at most one), wherever it stands. -/
theorem writtenTerminal_of_mem {ws : List WAction} {ps : List Pair}
    (h : fragRulePairs ws = some ps) {w : WAction} (hw : w ∈ ws) (ht : w.isTerminal = true)
    (dflt : Pair) : writtenTerminal dflt ws = w.pair := by
  rw [fragRulePairs_def] at h
  split at h
  · cases h
  · rename_i hc
    have hlen := filter_terminal_length ws
    have hle : (ws.filter WAction.isTerminal).length ≤ 1 := by omega
    have hmem : w ∈ ws.filter WAction.isTerminal := List.mem_filter.2 ⟨hw, ht⟩
    unfold writtenTerminal
    rw [← List.head?_filter]
    match hf : ws.filter WAction.isTerminal with
    | [] => rw [hf] at hmem; simp at hmem
    | [w'] =>
      rw [hf] at hmem
      simp only [List.mem_singleton] at hmem
      subst hmem; rfl
    | _ :: _ :: _ => rw [hf] at hle; simp at hle

theorem writtenTerminal_none {ws : List WAction} (h : ∀ w ∈ ws, w.isTerminal = false)
    (dflt : Pair) : writtenTerminal dflt ws = dflt := by
  unfold writtenTerminal
  have : ws.find? WAction.isTerminal = none := by
    rw [List.find?_eq_none]; intro w hw; simp [h w hw]
  rw [this]

/-! ## Push / pop match like brackets -/

theorem applyModeActs_append (a b : List Pair) (ms : MS) :
    applyModeActs (a ++ b) ms = (applyModeActs a ms).bind (applyModeActs b) := by
  induction a generalizing ms with
  | nil => rfl
  | cons x rest ih =>
    obtain ⟨ty, p⟩ := x
    obtain ⟨mode, stack⟩ := ms
    simp only [List.cons_append]
    unfold applyModeActs
    by_cases c1 : ty = 1
    · simp only [c1, if_true]; exact ih _
    · simp only [c1, if_false]
      by_cases c2 : ty = 2
      · simp only [c2, if_true]
        cases stack with
        | nil => rfl
        | cons top st => simp only; exact ih _
      · simp only [c2, if_false]; exact ih _

/-- A pop returns to the mode that was current before the matching push: if the actions `mid`
executed between them (by any number of rules) leave the saved modes as the push left them, the
push … pop bracket restores `(mode, stack)` exactly. -/
theorem applyModeActs_bracket (M : Int) (p : Int) (mid : List Pair) (mo : Nat) (st : List Nat)
    (M' : Nat) (hmid : applyModeActs mid (M.toNat, mo :: st) = some (M', mo :: st)) :
    applyModeActs ((1, M) :: mid ++ [(2, p)]) (mo, st) = some (mo, st) := by
  have : (1, M) :: mid ++ [(2, p)] = [(1, M)] ++ (mid ++ [(2, p)]) := rfl
  rw [this, applyModeActs_append]
  have h1 : applyModeActs [(1, M)] (mo, st) = some (M.toNat, mo :: st) := by
    simp [applyModeActs]
  rw [h1, Option.bind_some, applyModeActs_append, hmid, Option.bind_some]
  simp [applyModeActs]

/-- On a well-formed table `lexAll` never reports a Go panic, whatever the fuel. -/
theorem lexAll_no_panic {modes : Array Mode} (hwf : WFModes modes) (inp : Input) (fuel : Nat) :
    ∀ n l acc, InRange modes l.sm → (lexAll modes inp fuel n l acc).2 ≠ "panic" := by
  intro n
  induction n with
  | zero => intro _ _ _; simp [lexAll]
  | succ n ih =>
    intro l acc hin
    unfold lexAll
    rw [← readTokenG_erase modes inp fuel none l []]
    cases hr : readTokenG modes inp fuel none l [] with
    | none => simp
    | some x =>
      obtain ⟨a1, a2⟩ := readTokenG_inRange hwf inp fuel none l [] x hr hin
      obtain ⟨ot, l', g'⟩ := x
      cases ot with
      | none => exact absurd rfl a1
      | some t =>
        cases t with
        | eof p => simp
        | tok ty a b => exact ih _ _ a2
        | err a c => exact ih _ _ a2

end Lox.Lex.Rt
