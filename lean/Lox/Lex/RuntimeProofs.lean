import Lox.Lex.Runtime
/-! Lemmas about the lexer runtime model (`Lox/Lex/Model.lean`) over the definitions of
`Lox/Lex/Runtime.lean`. The property theorems built from them are in `Lox/Props/C11.lean` and
`Lox/Props/C07.lean`. -/
namespace Lox.Lex.Rt

/-! ## `wfModes` decides `WFModes` -/

theorem sortedFrom_iff (p : Int) (ts : List Triple) :
    sortedFrom p ts = true ↔
      ts.Pairwise (fun a b => a.hi < b.lo) ∧ (∀ t ∈ ts, t.lo ≤ t.hi) ∧ ∀ t ∈ ts, p < t.lo := by
  induction ts generalizing p with
  | nil => simp [sortedFrom]
  | cons t rest ih =>
    obtain ⟨lo, hi, st⟩ := t
    simp only [sortedFrom, Bool.and_eq_true, decide_eq_true_eq, ih, List.pairwise_cons,
      List.mem_cons, forall_eq_or_imp, Triple.lo, Triple.hi]
    constructor
    · rintro ⟨⟨h1, h2⟩, h3, h4, h5⟩
      refine ⟨⟨h5, h3⟩, ⟨h2, h4⟩, h1, ?_⟩
      intro t ht
      have := h5 t ht
      omega
    · rintro ⟨⟨h5, h3⟩, ⟨h2, h4⟩, h1, _⟩
      exact ⟨⟨h1, h2⟩, h3, h4, h5⟩

theorem sortedFrom_neg_one_iff (ts : List Triple) :
    sortedFrom (-1) ts = true ↔ SortedTriples ts := by
  rw [sortedFrom_iff, SortedTriples]
  constructor
  · rintro ⟨h1, h2, h3⟩
    exact ⟨h1, fun t ht => ⟨by have := h3 t ht; omega, h2 t ht⟩⟩
  · rintro ⟨h1, h2⟩
    exact ⟨h1, fun t ht => (h2 t ht).2, fun t ht => by have := (h2 t ht).1; omega⟩

theorem isModeAct_iff (nModes : Nat) (p : Pair) :
    isModeAct nModes p = true ↔ (p.1 = 1 ∧ p.2.toNat < nModes) ∨ p.1 = 2 := by
  simp [isModeAct]

theorem isTermAct_iff (p : Pair) : isTermAct p = true ↔ (p.1 = 3 ∨ p.1 = 4 ∨ p.1 = 5) := by
  simp [isTermAct, or_assoc]

theorem wfPairs_iff (nModes : Nat) (ps : List Pair) :
    wfPairs nModes ps = true ↔ PairsWF nModes ps := by
  unfold wfPairs PairsWF
  by_cases hps : ps = []
  · subst hps; simp
  · have hsplit := List.dropLast_concat_getLast hps
    simp only [Bool.or_eq_true, List.isEmpty_iff, hps, false_or, Bool.and_eq_true,
      List.all_eq_true, isModeAct_iff, Option.any_eq_true, isTermAct_iff]
    constructor
    · rintro ⟨h1, t, ht, h2⟩
      refine ⟨ps.dropLast, t, ?_, h1, h2⟩
      rw [List.getLast?_eq_some_getLast hps] at ht
      injection ht with ht
      rw [← ht]; exact hsplit.symm
    · rintro ⟨pre, t, rfl, h1, h2⟩
      refine ⟨by simpa using h1, t, by simp, h2⟩

theorem wfRow_iff (nModes n s : Nat) (row : Row) :
    wfRow nModes n s row = true ↔ RowWF nModes n s row := by
  unfold wfRow
  simp only [Bool.and_eq_true, sortedFrom_neg_one_iff, List.all_eq_true, decide_eq_true_eq,
    wfPairs_iff, Bool.or_eq_true, bne_iff_ne, ne_eq, List.isEmpty_iff]
  constructor
  · rintro ⟨⟨⟨h1, h2⟩, h3⟩, h4⟩
    exact ⟨h1, h2, h3, fun hs => by cases h4 with | inl h => exact absurd hs h | inr h => exact h⟩
  · rintro ⟨h1, h2, h3, h4⟩
    refine ⟨⟨⟨h1, h2⟩, h3⟩, ?_⟩
    by_cases hs : s = 0
    · exact Or.inr (h4 hs)
    · exact Or.inl hs

theorem wfMode_iff (nModes : Nat) (m : Mode) :
    wfMode nModes m = true ↔
      0 < nStates m ∧ ∀ s, s < nStates m →
        ∃ row, decodeRow m (s : Int) = some row ∧ RowWF nModes (nStates m) s row := by
  unfold wfMode
  simp only [Bool.and_eq_true, decide_eq_true_eq, List.all_eq_true, List.mem_range]
  refine and_congr Iff.rfl (forall_congr' fun s => imp_congr Iff.rfl ?_)
  unfold wfState
  cases h : decodeRow m (s : Int) with
  | none => simp
  | some row => simp [wfRow_iff]

/-- The Bool checker decides the well-formedness predicate. -/
theorem wfModes_iff (modes : Array Mode) : wfModes modes = true ↔ WFModes modes := by
  unfold wfModes WFModes
  simp only [Bool.and_eq_true, decide_eq_true_eq, List.all_eq_true, wfMode_iff]
  refine and_congr Iff.rfl ?_
  constructor
  · intro h mi m hm
    exact h m (List.mem_iff_getElem?.2 ⟨mi, by rw [Array.getElem?_toList]; exact hm⟩)
  · intro h m hm
    obtain ⟨mi, hmi⟩ := List.mem_iff_getElem?.1 hm
    rw [Array.getElem?_toList] at hmi
    exact h mi m hmi

instance (modes : Array Mode) : Decidable (WFModes modes) :=
  decidable_of_iff _ (wfModes_iff modes)

/-! ## Decoding: what the reads of `pushRune` return -/

theorem readTriples_spec (m : Mode) (n : Nat) (k : Int) (ts : List Triple)
    (h : readTriples m n k = some ts) :
    ts.length = n ∧ ∀ (j : Nat) (t : Triple), ts[j]? = some t →
      geti m (k + j * 3) = some t.lo ∧ geti m (k + j * 3 + 1) = some t.hi ∧
      geti m (k + j * 3 + 2) = some t.target := by
  induction n generalizing k ts with
  | zero =>
    simp only [readTriples, Option.some.injEq] at h
    subst h; simp
  | succ n ih =>
    unfold readTriples at h
    split at h
    · rename_i lo hi st rest h1 h2 h3 h4
      simp only [Option.some.injEq] at h
      subst h
      obtain ⟨hl, hg⟩ := ih (k + 3) rest h4
      refine ⟨by simp [hl], ?_⟩
      intro j t hj
      cases j with
      | zero =>
        simp only [List.getElem?_cons_zero, Option.some.injEq] at hj
        subst hj
        simpa [Triple.lo, Triple.hi, Triple.target] using ⟨h1, h2, h3⟩
      | succ j =>
        simp only [List.getElem?_cons_succ] at hj
        have := hg j t hj
        have e : k + ((j + 1 : Nat) : Int) * 3 = k + 3 + (j : Int) * 3 := by omega
        rw [e]; exact this
    · cases h

theorem readPairs_length (m : Mode) (n : Nat) (k : Int) (ps : List Pair)
    (h : readPairs m n k = some ps) : ps.length = n := by
  induction n generalizing k ps with
  | zero =>
    simp only [readPairs, Option.some.injEq] at h
    subst h; rfl
  | succ n ih =>
    unfold readPairs at h
    split at h
    · rename_i a b rest h1 h2 h3
      simp only [Option.some.injEq] at h
      subst h
      simp [ih _ _ h3]
    · cases h

/-- Inversion of `decodeRow`. -/
theorem decodeRow_some {m : Mode} {s : Int} {row : Row} (h : decodeRow m s = some row) :
    ∃ i count gotoN : Int,
      geti m s = some i ∧ geti m i = some count ∧ geti m (i + 1) = some row.flags ∧
      geti m (i + 2) = some gotoN ∧ 0 ≤ gotoN ∧
      count = 2 + 3 * gotoN + 2 * (row.pairs.length : Int) ∧
      readTriples m gotoN.toNat (i + 3) = some row.triples ∧
      readPairs m row.pairs.length (i + 3 + gotoN * 3) = some row.pairs := by
  unfold decodeRow at h
  split at h
  · cases h
  · rename_i i hi
    split at h
    · rename_i count flags gotoN h1 h2 h3
      split at h
      · rename_i hc
        split at h
        · rename_i ts ps ht hp
          simp only [Option.some.injEq] at h
          subst h
          have hlen := readPairs_length _ _ _ _ hp
          refine ⟨i, count, gotoN, hi, h1, h2, h3, hc.1, ?_, ht, ?_⟩
          · simp only
            rw [hlen]
            omega
          · simp only
            rw [hlen]; exact hp
        · cases h
      · cases h
    · cases h

/-! ## Binary search = linear lookup -/

theorem lookup_none_of {ts : List Triple} {r : Int}
    (h : ∀ t ∈ ts, ¬ (t.lo ≤ r ∧ r ≤ t.hi)) : lookup ts r = none := by
  induction ts with
  | nil => rfl
  | cons t rest ih =>
    obtain ⟨lo, hi, st⟩ := t
    have h0 := h (lo, hi, st) (List.mem_cons_self)
    simp only [Triple.lo, Triple.hi] at h0
    simp only [lookup, h0, if_false]
    exact ih fun t ht => h t (List.mem_cons_of_mem _ ht)

theorem lookup_some_iff {ts : List Triple} {r st : Int} :
    lookup ts r = some st → ∃ t ∈ ts, t.lo ≤ r ∧ r ≤ t.hi ∧ t.target = st := by
  induction ts with
  | nil => simp [lookup]
  | cons t rest ih =>
    obtain ⟨lo, hi, st'⟩ := t
    simp only [lookup]
    split
    · rename_i hc
      intro h
      simp only [Option.some.injEq] at h
      exact ⟨(lo, hi, st'), List.mem_cons_self, hc.1, hc.2, h⟩
    · intro h
      obtain ⟨t, ht, h3⟩ := ih h
      exact ⟨t, List.mem_cons_of_mem _ ht, h3⟩

/-- On a sorted, disjoint row the triple containing `r` is the one `lookup` finds. -/
theorem lookup_of_sorted {ts : List Triple} (hs : ts.Pairwise (fun a b => a.hi < b.lo))
    (hle : ∀ t ∈ ts, t.lo ≤ t.hi) {r : Int} {j : Nat} {t : Triple}
    (hj : ts[j]? = some t) (hr : t.lo ≤ r ∧ r ≤ t.hi) : lookup ts r = some t.target := by
  induction ts generalizing j with
  | nil => simp at hj
  | cons a rest ih =>
    obtain ⟨lo, hi, st⟩ := a
    rw [List.pairwise_cons] at hs
    cases j with
    | zero =>
      simp only [List.getElem?_cons_zero, Option.some.injEq] at hj
      subst hj
      simp only [Triple.lo, Triple.hi] at hr
      simp [lookup, hr, Triple.target]
    | succ j =>
      simp only [List.getElem?_cons_succ] at hj
      have hmem : t ∈ rest := List.mem_of_getElem? hj
      have h1 := hs.1 t hmem
      simp only [Triple.lo, Triple.hi] at h1 hr
      have : ¬ (lo ≤ r ∧ r ≤ hi) := by omega
      simp only [lookup, this, if_false]
      exact ih hs.2 (fun t ht => hle t (List.mem_cons_of_mem _ ht)) hj

theorem lookup_none_of_split {ts : List Triple} {r b : Int}
    (hlow : ∀ (j : Nat) (t : Triple), ts[j]? = some t → (j : Int) < b → t.hi < r)
    (hhigh : ∀ (j : Nat) (t : Triple), ts[j]? = some t → b ≤ (j : Int) → r < t.lo) :
    lookup ts r = none := by
  apply lookup_none_of
  intro t ht
  obtain ⟨j, hj⟩ := List.mem_iff_getElem?.1 ht
  by_cases hjb : (j : Int) < b
  · have := hlow j t hj hjb; omega
  · have := hhigh j t hj (by omega); omega

/-- `bsearch` over the decoded, sorted, disjoint triples of a row returns exactly what the linear
`lookup` returns, and never reads outside the array. Invariant: everything left of `b` lies
below `r`, everything from `e` on lies above `r`. -/
theorem bsearch_inv (m : Mode) (r base : Int) (ts : List Triple)
    (hg : ∀ (j : Nat) (t : Triple), ts[j]? = some t →
      geti m (base + j * 3) = some t.lo ∧ geti m (base + j * 3 + 1) = some t.hi ∧
      geti m (base + j * 3 + 2) = some t.target)
    (hs : ts.Pairwise (fun a b => a.hi < b.lo)) (hle : ∀ t ∈ ts, t.lo ≤ t.hi)
    (fuel : Nat) (b e : Int) (hb : 0 ≤ b) (hbe : b ≤ e) (he : e ≤ ts.length)
    (hfuel : e - b ≤ fuel)
    (hlow : ∀ (j : Nat) (t : Triple), ts[j]? = some t → (j : Int) < b → t.hi < r)
    (hhigh : ∀ (j : Nat) (t : Triple), ts[j]? = some t → e ≤ (j : Int) → r < t.lo) :
    bsearch m r base fuel b e = some (lookup ts r) := by
  induction fuel generalizing b e with
  | zero =>
    have : b = e := by omega
    subst this
    simp [bsearch, lookup_none_of_split hlow hhigh]
  | succ n ih =>
    unfold bsearch
    by_cases hlt : b < e
    · simp only [hlt, if_true]
      have hj0 : 0 ≤ b + (e - b) / 2 := by omega
      have hjlt : b + (e - b) / 2 < e := by omega
      have hjb : b ≤ b + (e - b) / 2 := by omega
      generalize b + (e - b) / 2 = j at *
      have hjn : j.toNat < ts.length := by omega
      obtain ⟨t, ht⟩ : ∃ t, ts[j.toNat]? = some t := ⟨ts[j.toNat], by simp [hjn]⟩
      have hcast : ((j.toNat : Nat) : Int) = j := by omega
      obtain ⟨g1, g2, g3⟩ := hg j.toNat t ht
      rw [hcast] at g1 g2 g3
      simp only [g1, g2]
      have hpw := List.pairwise_iff_getElem.1 hs
      have e1 : ts[j.toNat] = t := (List.getElem?_eq_some_iff.1 ht).2
      by_cases hin : r ≥ t.lo ∧ r ≤ t.hi
      · simp only [hin, and_self, if_true, g3]
        rw [lookup_of_sorted hs hle ht ⟨hin.1, hin.2⟩]
      · simp only [hin, if_false]
        have htle := hle t (List.mem_of_getElem? ht)
        by_cases hlo : r < t.lo
        · simp only [hlo, if_true]
          apply ih b j hb hjb (by omega) (by omega) hlow
          intro j' t' hj' hge
          by_cases heq : j' = j.toNat
          · subst heq
            rw [ht] at hj'; injection hj' with hj'; subst hj'; exact hlo
          · have hj'n : j' < ts.length := (List.getElem?_eq_some_iff.1 hj').1
            have := hpw j.toNat j' hjn hj'n (by omega)
            have e2 : ts[j'] = t' := (List.getElem?_eq_some_iff.1 hj').2
            rw [e1, e2] at this
            omega
        · simp only [hlo, if_false]
          have hhi : t.hi < r := by omega
          apply ih (j + 1) e (by omega) (by omega) he (by omega) ?_ hhigh
          intro j' t' hj' hlt'
          by_cases heq : j' = j.toNat
          · subst heq
            rw [ht] at hj'; injection hj' with hj'; subst hj'; exact hhi
          · have hj'n : j' < ts.length := (List.getElem?_eq_some_iff.1 hj').1
            have := hpw j' j.toNat hj'n hjn (by omega)
            have e2 : ts[j'] = t' := (List.getElem?_eq_some_iff.1 hj').2
            rw [e1, e2] at this
            have := hle t' (List.mem_of_getElem? hj')
            omega
    · have : b = e := by omega
      subst this
      simp [lookup_none_of_split hlow hhigh]

/-- `bsearch` as called by `pushRune` (`b = 0`, `e = gotoN`, fuel `gotoN + 1`) on the decoded
triples of a sorted row is the linear lookup. -/
theorem bsearch_linear (m : Mode) (r base : Int) (gotoN : Int) (ts : List Triple)
    (hdec : readTriples m gotoN.toNat base = some ts) (h0 : 0 ≤ gotoN)
    (hs : ts.Pairwise (fun a b => a.hi < b.lo)) (hle : ∀ t ∈ ts, t.lo ≤ t.hi) :
    bsearch m r base (gotoN.toNat + 1) 0 gotoN = some (lookup ts r) := by
  obtain ⟨hlen, hg⟩ := readTriples_spec m _ base ts hdec
  apply bsearch_inv m r base ts hg hs hle _ 0 gotoN (by omega) h0 (by omega) (by omega)
  · intro j t _ hj; omega
  · intro j t hj hge
    have := (List.getElem?_eq_some_iff.1 hj).1
    omega

/-! ## `runActions` and `pushRune` over decoded rows -/

theorem readPairs_cons {m : Mode} {n : Nat} {k : Int} {a : Pair} {rest : List Pair}
    (h : readPairs m (n + 1) k = some (a :: rest)) :
    geti m k = some a.1 ∧ geti m (k + 1) = some a.2 ∧ readPairs m n (k + 2) = some rest := by
  unfold readPairs at h
  split at h
  · rename_i x y rest' h1 h2 h3
    simp only [Option.some.injEq, List.cons.injEq] at h
    obtain ⟨rfl, rfl⟩ := h
    exact ⟨h1, h2, h3⟩
  · cases h

/-- The action loop of `pushRune` over a decoded action section is `execPairs`; it never runs out
of fuel and never reads outside the array. -/
theorem runActions_eq (modes : Array Mode) (m : Mode) (r : Int) (ps : List Pair) (i : Int)
    (fuel : Nat) (sm : SM) (hdec : readPairs m ps.length i = some ps) (hfuel : ps.length < fuel) :
    runActions modes m r fuel i (i + 2 * (ps.length : Int)) sm
      = some (execPairs modes.size r ps sm) := by
  induction ps generalizing i fuel sm with
  | nil =>
    cases fuel with
    | zero => omega
    | succ n =>
      simp only [runActions, List.length_nil, Int.natCast_zero, Int.mul_zero, Int.add_zero,
        Int.lt_irrefl, if_false, execPairs]
      split <;> rfl
  | cons a rest ih =>
    obtain ⟨ty, p⟩ := a
    cases fuel with
    | zero => omega
    | succ n =>
      obtain ⟨h1, h2, h3⟩ := readPairs_cons hdec
      simp only at h1 h2
      have hlt : i < i + 2 * (((ty, p) :: rest).length : Int) := by
        simp only [List.length_cons]; omega
      have hstop : i + 2 * (((ty, p) :: rest).length : Int) = i + 2 + 2 * (rest.length : Int) := by
        simp only [List.length_cons]; omega
      have hf : rest.length < n := by simp only [List.length_cons] at hfuel; omega
      unfold runActions
      simp only [hlt, if_true, h1, h2, execPairs]
      rw [hstop]
      by_cases c1 : ty = 1
      · simp only [c1, if_true]
        by_cases cm : p.toNat < modes.size
        · simp only [cm, if_true]
          exact ih _ _ _ h3 hf
        · simp only [cm, if_false]
      · simp only [c1, if_false]
        by_cases c2 : ty = 2
        · simp only [c2, if_true]
          cases hst : sm.modeStack with
          | nil => simp only
          | cons top st => simp only; exact ih _ _ _ h3 hf
        · simp only [c2, if_false]
          by_cases c3 : ty = 3
          · simp only [c3, if_true]
          · simp only [c3, if_false]
            by_cases c4 : ty = 4
            · simp only [c4, if_true]
            · simp only [c4, if_false]
              by_cases c5 : ty = 5
              · simp only [c5, if_true]
              · simp only [c5, if_false]
                exact ih _ _ _ h3 hf

/-- **`pushRune` on a decodable row** whose transitions are sorted and disjoint: consume iff some
triple of the row contains `r` (flag-0 rows; a non-greedy accepting row, flag 1, never consumes),
otherwise the row's pairs are executed left to right. -/
theorem pushRune_eq_stepRow (modes : Array Mode) (sm : SM) (r : Int) (m : Mode) (row : Row)
    (hm : modes[sm.mode.getD 0]? = some m) (hrow : decodeRow m sm.state = some row)
    (hs : row.triples.Pairwise (fun a b => a.hi < b.lo)) (hle : ∀ t ∈ row.triples, t.lo ≤ t.hi) :
    pushRune modes sm r
      = stepRow modes.size row { sm with mode := some (sm.mode.getD 0) } r := by
  obtain ⟨i, count, gotoN, g0, g1, g2, g3, h0, hcount, htr, hpr⟩ := decodeRow_some hrow
  unfold pushRune stepRow
  simp only [hm, g0, g1, g2, g3]
  have hb := bsearch_linear m r (i + 3) gotoN row.triples htr h0 hs hle
  have hstop : i + 1 + count = i + 3 + gotoN * 3 + 2 * (row.pairs.length : Int) := by omega
  have hra := runActions_eq modes m r row.pairs (i + 3 + gotoN * 3) (count.toNat + 1)
    { sm with mode := some (sm.mode.getD 0) } hpr (by omega)
  by_cases hf : row.flags % 2 = 0
  · simp only [hf, if_true, hb]
    cases hl : lookup row.triples r with
    | some st => simp only
    | none => simp only [hstop, hra]
  · simp only [hf, if_false, hstop, hra]

/-! ## Mode actions: `execPairs` against the abstract mode stack -/

theorem applyModeActs_eq_T {ps : List Pair} {ms ms' : MS} (h : applyModeActs ps ms = some ms') :
    applyModeActsT ps ms = ms' := by
  induction ps generalizing ms with
  | nil => simpa [applyModeActs, applyModeActsT] using h
  | cons a rest ih =>
    obtain ⟨ty, p⟩ := a
    obtain ⟨mode, stack⟩ := ms
    unfold applyModeActs at h
    unfold applyModeActsT
    by_cases c1 : ty = 1
    · simp only [c1, if_true] at h ⊢; exact ih h
    · simp only [c1, if_false] at h ⊢
      by_cases c2 : ty = 2
      · simp only [c2, if_true] at h ⊢
        cases stack with
        | nil => simp at h
        | cons top st => simp only at h ⊢; exact ih h
      · simp only [c2, if_false] at h ⊢; exact ih h

/-- Mode actions keep current and saved modes inside `_lexerModes`. -/
theorem applyModeActsT_ok {n : Nat} {ps : List Pair} {ms : MS}
    (hps : ∀ p ∈ ps, (p.1 = 1 ∧ p.2.toNat < n) ∨ p.1 = 2)
    (h1 : ms.1 < n) (h2 : ∀ x ∈ ms.2, x < n) :
    (applyModeActsT ps ms).1 < n ∧ ∀ x ∈ (applyModeActsT ps ms).2, x < n := by
  induction ps generalizing ms with
  | nil => exact ⟨h1, h2⟩
  | cons a rest ih =>
    obtain ⟨ty, p⟩ := a
    obtain ⟨mode, stack⟩ := ms
    have ha := hps (ty, p) List.mem_cons_self
    have hrest : ∀ q ∈ rest, (q.1 = 1 ∧ q.2.toNat < n) ∨ q.1 = 2 :=
      fun q hq => hps q (List.mem_cons_of_mem _ hq)
    unfold applyModeActsT
    simp only at ha h1 h2
    by_cases c1 : ty = 1
    · simp only [c1, if_true]
      have hp : p.toNat < n := by
        cases ha with
        | inl h => exact h.2
        | inr h => omega
      apply ih hrest hp
      intro x hx
      simp only [List.mem_cons] at hx
      cases hx with
      | inl h => subst h; exact h1
      | inr h => exact h2 x h
    · simp only [c1, if_false]
      by_cases c2 : ty = 2
      · simp only [c2, if_true]
        cases stack with
        | nil => exact ⟨h1, h2⟩
        | cons top st =>
          simp only
          apply ih hrest
          · exact h2 top List.mem_cons_self
          · intro x hx; exact h2 x (List.mem_cons_of_mem _ hx)
      · exfalso
        cases ha with
        | inl h => exact c1 h.1
        | inr h => exact c2 h

theorem execPairs_push (n : Nat) (r : Int) (p : Int) (rest : List Pair) (sm : SM)
    (hp : p.toNat < n) :
    execPairs n r ((1, p) :: rest) sm = execPairs n r rest
      { sm with modeStack := sm.mode.getD 0 :: sm.modeStack, mode := some p.toNat } := by
  rw [execPairs]; simp only [if_true, hp]

theorem execPairs_pop_nil (n : Nat) (r : Int) (p : Int) (rest : List Pair) (sm : SM)
    (hst : sm.modeStack = []) : execPairs n r ((2, p) :: rest) sm = (.error, sm) := by
  rw [execPairs]; simp [hst]

theorem execPairs_pop_cons (n : Nat) (r : Int) (p : Int) (rest : List Pair) (sm : SM)
    (top : Nat) (st : List Nat) (hst : sm.modeStack = top :: st) :
    execPairs n r ((2, p) :: rest) sm
      = execPairs n r rest { sm with mode := some top, modeStack := st } := by
  rw [execPairs]; simp [hst]

/-- Running a prefix of mode actions: all of them are applied, in order; a pop on the empty stack
stops with `_lexerError` and leaves the partially updated `(mode, stack)`. -/
theorem execPairs_modeActs (n : Nat) (r : Int) (pre tail : List Pair) (sm : SM) (mo : Nat)
    (hpre : ∀ p ∈ pre, (p.1 = 1 ∧ p.2.toNat < n) ∨ p.1 = 2) (hmo : sm.mode = some mo) :
    execPairs n r (pre ++ tail) sm =
      match applyModeActs pre (mo, sm.modeStack) with
      | some ms => execPairs n r tail { sm with mode := some ms.1, modeStack := ms.2 }
      | none =>
        (.error, { sm with mode := some (applyModeActsT pre (mo, sm.modeStack)).1,
                           modeStack := (applyModeActsT pre (mo, sm.modeStack)).2 }) := by
  induction pre generalizing sm mo with
  | nil =>
    simp only [List.nil_append, applyModeActs]
    rw [← hmo]
  | cons a rest ih =>
    obtain ⟨ty, p⟩ := a
    have ha := hpre (ty, p) List.mem_cons_self
    have hrest : ∀ q ∈ rest, (q.1 = 1 ∧ q.2.toNat < n) ∨ q.1 = 2 :=
      fun q hq => hpre q (List.mem_cons_of_mem _ hq)
    simp only at ha
    simp only [List.cons_append]
    by_cases c1 : ty = 1
    · have hp : p.toNat < n := by
        cases ha with
        | inl h => exact h.2
        | inr h => omega
      subst c1
      rw [execPairs_push n r p _ sm hp,
        ih { sm with modeStack := sm.mode.getD 0 :: sm.modeStack, mode := some p.toNat }
          p.toNat hrest rfl]
      simp only [applyModeActs, applyModeActsT, if_true, hmo, Option.getD_some]
    · have c2 : ty = 2 := by
        cases ha with
        | inl h => exact absurd h.1 c1
        | inr h => exact h
      subst c2
      cases hst : sm.modeStack with
      | nil =>
        rw [execPairs_pop_nil n r p _ sm hst]
        simp only [applyModeActs, applyModeActsT, if_true]
        cases sm; simp_all
      | cons top st =>
        rw [execPairs_pop_cons n r p _ sm top st hst,
          ih { sm with mode := some top, modeStack := st } top hrest rfl]
        simp only [applyModeActs, applyModeActsT, if_true]
        rfl

theorem execPairs_terminal (n : Nat) (r : Int) (t : Pair) (sm : SM)
    (ht : t.1 = 3 ∨ t.1 = 4 ∨ t.1 = 5) : execPairs n r [t] sm = terminalEffect t sm := by
  obtain ⟨ty, p⟩ := t
  simp only at ht
  unfold execPairs terminalEffect
  rcases ht with h | h | h <;> subst h <;> simp

/-- **A well-formed action section** `pre ++ [t]`: every mode action of `pre` is applied in order
to `(mode, stack)`, then the terminal pair takes effect; a pop on the empty stack gives
`_lexerError` (and then the terminal pair does not run). -/
theorem execPairs_wf (n : Nat) (r : Int) (pre : List Pair) (t : Pair) (sm : SM) (mo : Nat)
    (hpre : ∀ p ∈ pre, (p.1 = 1 ∧ p.2.toNat < n) ∨ p.1 = 2) (ht : t.1 = 3 ∨ t.1 = 4 ∨ t.1 = 5)
    (hmo : sm.mode = some mo) :
    execPairs n r (pre ++ [t]) sm =
      match applyModeActs pre (mo, sm.modeStack) with
      | some ms => terminalEffect t { sm with mode := some ms.1, modeStack := ms.2 }
      | none =>
        (.error, { sm with mode := some (applyModeActsT pre (mo, sm.modeStack)).1,
                           modeStack := (applyModeActsT pre (mo, sm.modeStack)).2 }) := by
  rw [execPairs_modeActs n r pre [t] sm mo hpre hmo]
  cases applyModeActs pre (mo, sm.modeStack) with
  | none => rfl
  | some ms => simp only; exact execPairs_terminal n r t _ ht

/-! ## One `PushRune` call on a well-formed table -/

/-- Everything the driver proofs need to know about one `PushRune` call. -/
structure StepOK (modes : Array Mode) (sm : SM) (r : Int) (res : Res) (sm' : SM) : Prop where
  /-- no index out of range -/
  noOob : res ≠ .oob
  modesOK : ModesOK modes sm'
  /-- the state stays a state of the (possibly new) current mode, unless `_lexerError` was
  returned (the driver then calls `Reset()`) -/
  inRange : res ≠ .error → InRange modes sm'
  /-- a consumed rune is a real rune and leads to a state other than the start state -/
  consume : res = .consume → sm'.state ≠ 0 ∧ 0 ≤ r
  /-- accept / discard / accumulate happen only after something was consumed and lead to state 0 -/
  terminal : (res = .accept ∨ res = .discard ∨ res = .tryAgain) → sm'.state = 0 ∧ sm.state ≠ 0
  eof : res = .eof → sm.state = 0 ∧ r = -1 ∧ sm'.state = 0
  start : sm.state = 0 → res = .consume ∨ res = .error ∨ res = .eof
  startEof : sm.state = 0 → r = -1 → res = .eof

theorem terminalEffect_cases (t : Pair) (sm : SM) :
    ((terminalEffect t sm).1 = .accept ∨ (terminalEffect t sm).1 = .discard ∨
      (terminalEffect t sm).1 = .tryAgain) ∧
    (terminalEffect t sm).2.state = 0 ∧ (terminalEffect t sm).2.mode = sm.mode ∧
    (terminalEffect t sm).2.modeStack = sm.modeStack := by
  unfold terminalEffect
  split
  · simp
  · split <;> simp

theorem pushRune_stepOK {modes : Array Mode} (hwf : WFModes modes) {sm : SM}
    (hin : InRange modes sm) (r : Int) :
    StepOK modes sm r (pushRune modes sm r).1 (pushRune modes sm r).2 := by
  obtain ⟨⟨hmo, hstack⟩, hst0, m, hm, hlt⟩ := hin
  obtain ⟨hn, hrows⟩ := hwf.2 _ m hm
  obtain ⟨row, hrow, rwf⟩ := hrows _ hlt
  have hcast : ((sm.state.toNat : Nat) : Int) = sm.state := by omega
  rw [hcast] at hrow
  rw [pushRune_eq_stepRow modes sm r m row hm hrow rwf.sorted.1
    (fun t ht => (rwf.sorted.2 t ht).2)]
  have hstart : sm.state = 0 → row.pairs = [] := fun h => rwf.start (by omega)
  generalize hsm0 : ({ sm with mode := some (sm.mode.getD 0) } : SM) = sm0
  have e1 : sm0.state = sm.state := by subst hsm0; rfl
  have e2 : sm0.mode = some (sm.mode.getD 0) := by subst hsm0; rfl
  have e3 : sm0.modeStack = sm.modeStack := by subst hsm0; rfl
  have hok0 : ModesOK modes sm0 := by
    refine ⟨by rw [e2]; exact hmo, by rw [e3]; exact hstack⟩
  have hin0 : InRange modes sm0 := by
    refine ⟨hok0, by rw [e1]; exact hst0, m, by rw [e2]; exact hm, by rw [e1]; exact hlt⟩
  unfold stepRow
  cases hl : (if row.flags % 2 = 0 then lookup row.triples r else none) with
  | some st =>
    simp only
    have hl' : lookup row.triples r = some st := by
      split at hl
      · exact hl
      · cases hl
    obtain ⟨t, ht, h1, h2, h3⟩ := lookup_some_iff hl'
    have htg := rwf.targets t ht
    have hso := rwf.sorted.2 t ht
    rw [h3] at htg
    refine ⟨by simp, ⟨by simpa [e2] using hmo, by simpa [e3] using hstack⟩, ?_, ?_, by simp,
      by simp, by simp, ?_⟩
    · intro _
      refine ⟨⟨by simpa [e2] using hmo, by simpa [e3] using hstack⟩, by simp only; omega, m,
        by simpa [e2] using hm, by simp only; omega⟩
    · intro _; exact ⟨by simp only; omega, by omega⟩
    · intro _ hr; omega
  | none =>
    simp only
    rcases rwf.pairs with hnil | ⟨pre, t, hps, hpre, ht⟩
    · rw [hnil]
      unfold execPairs
      by_cases hc : sm0.state = 0 ∧ r = -1
      · rw [if_pos hc]
        refine ⟨by simp, hok0, fun _ => hin0, by simp, by simp, ?_, by simp, by simp⟩
        intro _; exact ⟨by rw [← e1]; exact hc.1, hc.2, hc.1⟩
      · rw [if_neg hc]
        refine ⟨by simp, hok0, by simp, by simp, by simp, by simp, by simp, ?_⟩
        intro h0 hr; exact absurd ⟨by rw [e1]; exact h0, hr⟩ hc
    · have hne : sm.state ≠ 0 := by
        intro h0
        have := hstart h0
        rw [hps] at this
        simp at this
      rw [hps, execPairs_wf modes.size r pre t sm0 _ hpre ht e2]
      have hT := applyModeActsT_ok (ms := (sm.mode.getD 0, sm0.modeStack)) hpre hmo
        (by rw [e3]; exact hstack)
      cases ha : applyModeActs pre (sm.mode.getD 0, sm0.modeStack) with
      | none =>
        simp only
        refine ⟨by simp, ⟨by simpa using hT.1, by simpa using hT.2⟩, by simp, by simp, by simp,
          by simp, ?_, ?_⟩
        · intro h0; exact absurd h0 hne
        · intro h0; exact absurd h0 hne
      | some ms =>
        simp only
        have hms := applyModeActs_eq_T ha
        rw [hms] at hT
        obtain ⟨hres, hst, hmode, hstk⟩ :=
          terminalEffect_cases t { sm0 with mode := some ms.1, modeStack := ms.2 }
        generalize terminalEffect t { sm0 with mode := some ms.1, modeStack := ms.2 } = out at *
        obtain ⟨res, sm'⟩ := out
        simp only at hres hst hmode hstk ⊢
        have hok' : ModesOK modes sm' :=
          ⟨by rw [hmode]; exact hT.1, by rw [hstk]; exact hT.2⟩
        obtain ⟨m', hm'⟩ : ∃ m', modes[ms.1]? = some m' :=
          ⟨modes[ms.1]'hT.1, by simp [hT.1]⟩
        have hn' := (hwf.2 _ m' hm').1
        refine ⟨?_, hok', ?_, ?_, ?_, ?_, ?_, ?_⟩
        · rcases hres with h | h | h <;> rw [h] <;> simp
        · intro _
          refine ⟨hok', by omega, m', by rw [hmode]; exact hm', by rw [hst]; exact hn'⟩
        · intro h; rcases hres with h' | h' | h' <;> rw [h'] at h <;> cases h
        · intro _; exact ⟨hst, hne⟩
        · intro h; rcases hres with h' | h' | h' <;> rw [h'] at h <;> cases h
        · intro h0; exact absurd h0 hne
        · intro h0; exact absurd h0 hne

/-- **No index out of range, and the range invariant is kept** (`no_oob`). -/
theorem pushRune_no_oob {modes : Array Mode} (hwf : WFModes modes) {sm : SM}
    (hin : InRange modes sm) (r : Int) :
    (pushRune modes sm r).1 ≠ .oob ∧ ModesOK modes (pushRune modes sm r).2 ∧
    ((pushRune modes sm r).1 ≠ .error → InRange modes (pushRune modes sm r).2) :=
  let h := pushRune_stepOK hwf hin r
  ⟨h.noOob, h.modesOK, h.inRange⟩

/-- After `Reset()` the state machine is in range again whatever `PushRune` left behind. -/
theorem inRange_reset {modes : Array Mode} (hwf : WFModes modes) {sm : SM}
    (hok : ModesOK modes sm) : InRange modes sm.reset := by
  obtain ⟨m, hm⟩ : ∃ m, modes[0]? = some m := ⟨modes[0]'hwf.1, by simp [hwf.1]⟩
  refine ⟨⟨by simpa [SM.reset] using hwf.1, by simpa [SM.reset] using hok.2⟩, by simp [SM.reset],
    m, by simpa [SM.reset] using hm, by simpa [SM.reset] using (hwf.2 _ m hm).1⟩

/-! ## The driver: unfolding lemmas -/

section unfold
variable (modes : Array Mode) (inp : Input) (n : Nat) (start : Option Nat) (l : Lx) (sm' : SM)

theorem readToken_consume (h : pushRune modes l.sm (l.char inp) = (.consume, sm')) :
    readToken modes inp (n + 1) start l
      = readToken modes inp n (some (start.getD l.offset)) (({ l with sm := sm' } : Lx).consume inp) := by
  rw [readToken]; simp only [h]

theorem readToken_accept (h : pushRune modes l.sm (l.char inp) = (.accept, sm')) :
    readToken modes inp (n + 1) start l
      = some (some (.tok sm'.token (start.getD l.offset) l.offset), { l with sm := sm' }) := by
  rw [readToken]; simp only [h]

theorem readToken_discard (h : pushRune modes l.sm (l.char inp) = (.discard, sm')) :
    readToken modes inp (n + 1) start l = readToken modes inp n none { l with sm := sm' } := by
  rw [readToken]; simp only [h]

theorem readToken_tryAgain (h : pushRune modes l.sm (l.char inp) = (.tryAgain, sm')) :
    readToken modes inp (n + 1) start l
      = readToken modes inp n (some (start.getD l.offset)) { l with sm := sm' } := by
  rw [readToken]; simp only [h]

theorem readToken_eof (h : pushRune modes l.sm (l.char inp) = (.eof, sm')) :
    readToken modes inp (n + 1) start l
      = some (some (.eof (start.getD l.offset)), { l with sm := sm' }) := by
  rw [readToken]; simp only [h]

theorem readToken_oob (h : pushRune modes l.sm (l.char inp) = (.oob, sm')) :
    readToken modes inp (n + 1) start l = some (none, { l with sm := sm' }) := by
  rw [readToken]; simp only [h]

/-- The state of the driver after an ERROR token: skip to the next newline, step over it, `Reset()`. -/
def afterError (inp : Input) (l : Lx) : Lx :=
  let l2 := (skipLine inp (inp.size + 1) l).consume inp
  { l2 with sm := l2.sm.reset }

theorem readToken_error (h : pushRune modes l.sm (l.char inp) = (.error, sm')) :
    readToken modes inp (n + 1) start l
      = some (some (.err (start.getD l.offset) (l.char inp)),
          afterError inp { l with sm := sm' }) := by
  rw [readToken]; simp only [h]; rfl

end unfold

/-! ## `consume` and `skipLine` -/

theorem char_eq_neg_one_of_ge {inp : Input} {l : Lx} (h : inp.size ≤ l.idx) : l.char inp = -1 := by
  unfold Lx.char
  rw [Array.getElem?_eq_none h]

theorem idx_lt_of_char_ne {inp : Input} {l : Lx} (h : l.char inp ≠ -1) : l.idx < inp.size := by
  by_cases hlt : l.idx < inp.size
  · exact hlt
  · exact absurd (char_eq_neg_one_of_ge (by omega)) h

theorem consume_lt {inp : Input} {l : Lx} (h : l.idx < inp.size) :
    (l.consume inp).idx = l.idx + 1 ∧ (l.consume inp).sm = l.sm ∧
    (l.consume inp).offset = l.offset + inp[l.idx].2 := by
  unfold Lx.consume
  rw [Array.getElem?_eq_getElem h]
  simp

theorem consume_ge {inp : Input} {l : Lx} (h : inp.size ≤ l.idx) : l.consume inp = l := by
  unfold Lx.consume
  rw [Array.getElem?_eq_none h]

theorem consume_sm (inp : Input) (l : Lx) : (l.consume inp).sm = l.sm := by
  by_cases h : l.idx < inp.size
  · exact (consume_lt h).2.1
  · rw [consume_ge (by omega)]

theorem consume_idx_le (inp : Input) (l : Lx) : l.idx ≤ (l.consume inp).idx := by
  by_cases h : l.idx < inp.size
  · rw [(consume_lt h).1]; omega
  · rw [consume_ge (by omega)]; omega

theorem skipLine_sm (inp : Input) (n : Nat) (l : Lx) : (skipLine inp n l).sm = l.sm := by
  induction n generalizing l with
  | zero => rfl
  | succ n ih =>
    unfold skipLine
    split
    · rw [ih, consume_sm]
    · rfl

theorem skipLine_idx_le (inp : Input) (n : Nat) (l : Lx) : l.idx ≤ (skipLine inp n l).idx := by
  induction n generalizing l with
  | zero => exact Nat.le_refl _
  | succ n ih =>
    unfold skipLine
    split
    · exact Nat.le_trans (consume_idx_le inp l) (ih _)
    · exact Nat.le_refl _

theorem afterError_sm (inp : Input) (l : Lx) : (afterError inp l).sm = l.sm.reset := by
  simp [afterError, consume_sm, skipLine_sm]

theorem afterError_idx_le (inp : Input) (l : Lx) : l.idx ≤ (afterError inp l).idx := by
  simp only [afterError]
  exact Nat.le_trans (skipLine_idx_le inp _ l) (consume_idx_le inp _)

theorem afterError_idx_lt {inp : Input} {l : Lx} (h : l.idx < inp.size) :
    l.idx < (afterError inp l).idx := by
  simp only [afterError]
  have h1 := skipLine_idx_le inp (inp.size + 1) l
  by_cases h2 : (skipLine inp (inp.size + 1) l).idx < inp.size
  · rw [(consume_lt h2).1]; omega
  · rw [consume_ge (by omega)]; omega

theorem consume_idx_le_size {inp : Input} {l : Lx} (h : l.idx ≤ inp.size) :
    (l.consume inp).idx ≤ inp.size := by
  by_cases hlt : l.idx < inp.size
  · rw [(consume_lt hlt).1]; omega
  · rw [consume_ge (by omega)]; exact h

theorem skipLine_idx_le_size {inp : Input} (n : Nat) {l : Lx} (h : l.idx ≤ inp.size) :
    (skipLine inp n l).idx ≤ inp.size := by
  induction n generalizing l with
  | zero => exact h
  | succ n ih =>
    unfold skipLine
    split
    · exact ih (consume_idx_le_size h)
    · exact h

theorem afterError_idx_le_size {inp : Input} {l : Lx} (h : l.idx ≤ inp.size) :
    (afterError inp l).idx ≤ inp.size := by
  simp only [afterError]
  exact consume_idx_le_size (skipLine_idx_le_size _ h)

/-! ## Progress (C11) -/

/-- **Progress of `ReadToken`.** On a well-formed table, from any in-range state, with fuel above
`2 · remaining runes + (0 if at the start state, else 1)`, `readToken` returns a token (never
runs out of fuel, never panics); the state machine is back at the start state of an existing
mode; the position never moves backwards; an EOF token is returned only in front of the
end-of-input marker; and a call that began at the start state and returns a non-EOF token has
advanced by at least one rune. -/
theorem readToken_progress {modes : Array Mode} (hwf : WFModes modes) (inp : Input) :
    ∀ (fuel : Nat) (start : Option Nat) (l : Lx), InRange modes l.sm →
      2 * (inp.size - l.idx) + (if l.sm.state = 0 then 0 else 1) < fuel →
      ∃ t l', readToken modes inp fuel start l = some (some t, l') ∧
        InRange modes l'.sm ∧ l'.sm.state = 0 ∧ l.idx ≤ l'.idx ∧
        (l.idx ≤ inp.size → l'.idx ≤ inp.size) ∧
        (∀ p, t = .eof p → l'.char inp = -1) ∧
        ((∀ p, t ≠ .eof p) → l.sm.state = 0 → l.idx < l'.idx) := by
  intro fuel
  induction fuel with
  | zero => intro _ _ _ h; omega
  | succ n ih =>
    intro start l hin hfuel
    have h := pushRune_stepOK hwf hin (l.char inp)
    generalize hpr : pushRune modes l.sm (l.char inp) = pr at h
    obtain ⟨res, sm'⟩ := pr
    simp only at h
    cases res with
    | consume =>
      rw [readToken_consume _ _ _ _ _ _ hpr]
      obtain ⟨hs', hr⟩ := h.consume rfl
      have hlt : l.idx < inp.size := idx_lt_of_char_ne (by omega)
      obtain ⟨c1, c2, _⟩ := consume_lt (l := { l with sm := sm' }) hlt
      simp only at c1 c2
      obtain ⟨t, l', e, i1, i2, i3, i3', i4, _⟩ :=
        ih (some (start.getD l.offset)) (({ l with sm := sm' } : Lx).consume inp)
          (by rw [c2]; exact h.inRange (by simp))
          (by rw [c1, c2]; simp only [hs', if_false]; split at hfuel <;> omega)
      refine ⟨t, l', e, i1, i2, by omega, fun _ => i3' (by omega), i4, fun _ _ => by omega⟩
    | accept =>
      rw [readToken_accept _ _ _ _ _ _ hpr]
      obtain ⟨hs', hne⟩ := h.terminal (Or.inl rfl)
      exact ⟨_, _, rfl, h.inRange (by simp), hs', Nat.le_refl _, fun hh => hh, by simp,
        fun _ h0 => absurd h0 hne⟩
    | discard =>
      rw [readToken_discard _ _ _ _ _ _ hpr]
      obtain ⟨hs', hne⟩ := h.terminal (Or.inr (Or.inl rfl))
      obtain ⟨t, l', e, i1, i2, i3, i3', i4, _⟩ :=
        ih none ({ l with sm := sm' } : Lx) (h.inRange (by simp))
          (by simp only [hs', if_true]; simp only [hne, if_false] at hfuel; omega)
      exact ⟨t, l', e, i1, i2, i3, i3', i4, fun _ h0 => absurd h0 hne⟩
    | tryAgain =>
      rw [readToken_tryAgain _ _ _ _ _ _ hpr]
      obtain ⟨hs', hne⟩ := h.terminal (Or.inr (Or.inr rfl))
      obtain ⟨t, l', e, i1, i2, i3, i3', i4, _⟩ :=
        ih (some (start.getD l.offset)) ({ l with sm := sm' } : Lx) (h.inRange (by simp))
          (by simp only [hs', if_true]; simp only [hne, if_false] at hfuel; omega)
      exact ⟨t, l', e, i1, i2, i3, i3', i4, fun _ h0 => absurd h0 hne⟩
    | eof =>
      rw [readToken_eof _ _ _ _ _ _ hpr]
      obtain ⟨_, hr, hs'⟩ := h.eof rfl
      refine ⟨_, _, rfl, h.inRange (by simp), hs', Nat.le_refl _, fun hh => hh, fun _ _ => hr, ?_⟩
      intro hne; exact absurd rfl (hne _)
    | error =>
      rw [readToken_error _ _ _ _ _ _ hpr]
      refine ⟨_, _, rfl, ?_, ?_, afterError_idx_le inp { l with sm := sm' },
        fun hh => afterError_idx_le_size (l := { l with sm := sm' }) hh, by simp, ?_⟩
      · rw [afterError_sm]; exact inRange_reset hwf h.modesOK
      · rw [afterError_sm]; rfl
      · intro _ h0
        have hc : l.char inp ≠ -1 := by
          intro hc
          have := h.startEof h0 hc
          cases this
        exact afterError_idx_lt (l := { l with sm := sm' }) (idx_lt_of_char_ne hc)
    | oob => exact absurd rfl h.noOob

/-- The initial state machine (`mode == nil`, state 0) is in range. -/
theorem inRange_init {modes : Array Mode} (hwf : WFModes modes) : InRange modes ({} : SM) := by
  have := inRange_reset hwf (sm := ({} : SM)) ⟨by simpa using hwf.1, by simp⟩
  simpa [SM.reset] using this

/-- **`lexAll` reaches EOF.** From an in-range driver state at a start state, with per-call fuel
above `2 · inp.size` and more than `remaining runes` calls allowed, the status is `"ok"` and the
token list is what was accumulated, then non-EOF tokens, then exactly one EOF token. -/
theorem lexAll_progress {modes : Array Mode} (hwf : WFModes modes) (inp : Input) (fuel : Nat)
    (hfuel : 2 * inp.size < fuel) :
    ∀ (n : Nat) (l : Lx) (acc : List Tok), InRange modes l.sm → l.sm.state = 0 →
      l.idx ≤ inp.size → inp.size - l.idx < n →
      ∃ ts p, lexAll modes inp fuel n l acc = (acc.reverse ++ ts ++ [.eof p], "ok") ∧
        ∀ t ∈ ts, ∀ q, t ≠ .eof q := by
  intro n
  induction n with
  | zero => intro _ _ _ _ _ h; omega
  | succ n ih =>
    intro l acc hin h0 hidx hn
    obtain ⟨t, l', e, i1, i2, i3, i4, i5, i6⟩ :=
      readToken_progress hwf inp fuel none l hin (by simp only [h0, if_true]; omega)
    unfold lexAll
    rw [e]
    cases t with
    | eof p =>
      refine ⟨[], p, by simp, by simp⟩
    | tok ty a b =>
      have hlt := i6 (by simp) h0
      obtain ⟨ts, p, e', hts⟩ := ih l' (.tok ty a b :: acc) i1 i2 (i4 hidx) (by omega)
      refine ⟨.tok ty a b :: ts, p, by simp [e'], ?_⟩
      intro t ht q
      simp only [List.mem_cons] at ht
      cases ht with
      | inl h => subst h; simp
      | inr h => exact hts t h q
    | err a c =>
      have hlt := i6 (by simp) h0
      obtain ⟨ts, p, e', hts⟩ := ih l' (.err a c :: acc) i1 i2 (i4 hidx) (by omega)
      refine ⟨.err a c :: ts, p, by simp [e'], ?_⟩
      intro t ht q
      simp only [List.mem_cons] at ht
      cases ht with
      | inl h => subst h; simp
      | inr h => exact hts t h q

end Lox.Lex.Rt
