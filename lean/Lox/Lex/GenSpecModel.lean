import Lox.Lex.EmitModel
import Lox.Dec.Terminals
/-! Model of the lexer generator for a WHOLE specification: from the lexer statements of all the
files of a specification to the `_lexerModes` array of `lexer.gen.go`. Core Lean only, executable.

Go code modelled (on top of `genMode` of `Lox/Lex/EmitModel.lean`, which is one mode):

* `internal/ast/spec.go` `Spec.RunPass`: pass `CreateNames` creates the mode `$default`
  (`ctx.CreateMode(DefaultModeName)`) and pushes it as the current mode, so every lexer rule outside
  a `@mode` block is added to it, whatever the file; pass `GenerateGrammar` sorts the mode names
  (`slices.Sort(modeNames)`), calls `Build` on every mode in that order and sets `mode.Index = i`.
* `internal/ast/lexer_mode.go` `Mode.RunPass`: `RegisterName`, `CreateMode(m.Name)`, the rules of the
  block are added to that mode. The grammar (`internal/parser/parser.lox`:
  `mode = MODE ID NL* '{' lexer_rule* '}'`) has no nested modes.
* `internal/ast/lexer_token_rule.go`, `lexer_frag_rule.go`, pass `GenerateGrammar`: the stored action
  list of a rule (`Lox/Lex/Actions.lean`: `tokenRulePairs`, `fragRulePairs`); the accept action of a
  token rule carries `r.Terminal.Index`.
* `internal/ast/action.go`: `@push_mode(M)` must name a mode (`Check`: "undefined mode"; the parser
  turns `@push_mode()` into `@push_mode($default)`), `@emit(T)` must name a token rule or an
  `@external` name ("undefined" / "not a token") and carries that terminal's `Index`.
* `internal/parsergen/lr1/grammar.go` `AddTerminal`: `Index` = position in `Grammar.Terminals`
  (`Lox/Dec/Terminals.lean`: `terminals`, `constOf`).
* `internal/lexergen/mode/mode.go` `pickAction`: candidates of two different files in one DFA state
  are an error ("Conflicting lexer actions").
* `internal/codegen/emit_lexer.go` `EmitLexer`: `modes()` sorts `c.LexerModes` by `Index`;
  `_lexerModes[i]` is the table of the mode with `Index = i`; a push-mode action is written as
  `1, uint32(mode.Index)`, an accept action as `3, uint32(action.Terminal)`. -/
namespace Lox.Lex.GenSpec
open Lox.Lex Lox.Lex.Gen
open Lox.Dec.Terminals (Stmt terminals constOf specNames createNames)

/-- An action as written (`ast.ActionPushMode` … `ast.ActionDiscard`): modes and tokens by name. -/
inductive LAct where
  | pushMode (mode : String)
  | popMode
  | emit (name : String)
  | discard
  deriving DecidableEq, Repr, Inhabited

/-- `lexer_rule` of the grammar. Rule bodies are `Rx` (macros inlined, as `NFACons` sees them). -/
inductive LRule where
  /-- `NAME = expr actions` -/
  | token (name : String) (body : Rx) (acts : List LAct)
  /-- `@frag expr actions` -/
  | frag (body : Rx) (acts : List LAct)
  /-- `@external A B C` -/
  | external (names : List String)
  /-- `@macro NAME = expr` (its body is inlined where it is used) -/
  | «macro» (name : String)
  deriving Inhabited

/-- A statement of a file, reduced to what the lexer generator and the name table look at. -/
inductive LStmt where
  | rule (r : LRule)
  /-- `@mode name { rules }` -/
  | mode (name : String) (rules : List LRule)
  /-- a parser rule (`some name`: it calls `RegisterName`) or anything without a name -/
  | other (name : Option String)
  deriving Inhabited

/-- One file (`ast.Unit`). -/
abbrev LFile := List LStmt
/-- The files in the order the parser received them (`ast.Spec`). -/
abbrev LSpec := List LFile

/-! ### The name table and the terminal numbers -/

def LRule.toStmt : LRule → Stmt
  | .token n _ _ => .token n
  | .frag _ _ => .other none
  | .external ns => .external ns
  | .macro n => .other (some n)

def LStmt.toStmt : LStmt → Stmt
  | .rule r => r.toStmt
  | .mode n rs => .mode n (rs.map LRule.toStmt)
  | .other n => .other n

/-- What pass `CreateNames` sees (`Lox/Dec/Terminals.lean`). -/
def toTermSpec (s : LSpec) : Lox.Dec.Terminals.Spec := s.map fun f => f.map LStmt.toStmt

/-- `Terminal.Index` of the token rule or `@external` name `n` (`ctx.Lookup(n)` is a `*TokenRule`
or an `*ExternalName`); `none`: "undefined" / "not a token" (`EOF` and `ERROR` are terminals but
not names). -/
def tokenNumber (s : LSpec) (n : String) : Option Nat :=
  if n ∈ specNames (toTermSpec s) then constOf (terminals (toTermSpec s)) n else none

/-! ### The modes -/

/-- `ast.DefaultModeName`. -/
def defaultName : String := "$default"

/-- A rule that reaches `ModeBuilder.AddRule`. -/
structure GRule where
  /-- index of the file it is written in -/
  file : Nat
  /-- `some n`: the token rule `n`; `none`: a `@frag` rule -/
  name : Option String
  body : Rx
  acts : List LAct

/-- The `AddRule` calls caused by a list of `lexer_rule`s of file `file`, in order. -/
def rulesOf (file : Nat) : List LRule → List GRule
  | [] => []
  | .token n b a :: rest => ⟨file, some n, b, a⟩ :: rulesOf file rest
  | .frag b a :: rest => ⟨file, none, b, a⟩ :: rulesOf file rest
  | _ :: rest => rulesOf file rest

/-- Rules of one file added to `$default`: those outside the `@mode` blocks. -/
def fileDefaultRules (file : Nat) : LFile → List GRule
  | [] => []
  | .rule r :: rest => rulesOf file [r] ++ fileDefaultRules file rest
  | _ :: rest => fileDefaultRules file rest

/-- The `@mode` blocks of one file with their rules. -/
def fileModes (file : Nat) : LFile → List (String × List GRule)
  | [] => []
  | .mode n rs :: rest => (n, rulesOf file rs) :: fileModes file rest
  | _ :: rest => fileModes file rest

def specDefaultRules : Nat → LSpec → List GRule
  | _, [] => []
  | k, f :: fs => fileDefaultRules k f ++ specDefaultRules (k + 1) fs

def specModes : Nat → LSpec → List (String × List GRule)
  | _, [] => []
  | k, f :: fs => fileModes k f ++ specModes (k + 1) fs

/-- `ctx.LexerModes` after pass `GenerateGrammar`: every mode with its `ModeBuilder.Rules`, in
order of creation (`$default` first). -/
def modeDecls (s : LSpec) : List (String × List GRule) :=
  (defaultName, specDefaultRules 0 s) :: specModes 0 s

def insertName (n : String) : List String → List String
  | [] => [n]
  | x :: xs => if n < x then n :: x :: xs else x :: insertName n xs

/-- `slices.Sort(modeNames)`: the names are distinct (keys of a map), so the result is the one
increasing list of them (`sortNames_unique`). Go compares strings byte-wise; on UTF-8 that is the
code-point-wise order of `String.lt`. -/
def sortNames (ns : List String) : List String := ns.foldr insertName []

/-- The names of the modes in the order of their `Index` = the order of `_lexerModes`. -/
def modeNames (s : LSpec) : List String := sortNames ((modeDecls s).map (·.1))

/-- `mode.Index` of the mode called `n`; `none`: "undefined mode". -/
def modeIndex (s : LSpec) (n : String) : Option Nat :=
  if n ∈ modeNames s then some ((modeNames s).idxOf n) else none

/-- `ModeBuilder.Rules` of the mode called `n`. -/
def modeRules (s : LSpec) (n : String) : List GRule :=
  (((modeDecls s).find? fun d => d.1 == n).map (·.2)).getD []

/-! ### Actions -/

/-- A written action with the names resolved (`mode.Action`, with the mode's `Index` in place of
its name as `mode_table` will write it). `none`: an error of pass `Check`. -/
def resolveAct (s : LSpec) : LAct → Option WAction
  | .pushMode m => (modeIndex s m).map .pushMode
  | .popMode => some .popMode
  | .emit n => (tokenNumber s n).map .emit
  | .discard => some .discard

/-- All `some`, or `none`. -/
def allSome {α : Type} : List (Option α) → Option (List α)
  | [] => some []
  | none :: _ => none
  | some a :: rest => (allSome rest).map (a :: ·)

def resolveActs (s : LSpec) (as : List LAct) : Option (List WAction) := allSome (as.map (resolveAct s))

/-- The `(actionType, actionParam)` pairs `mode_table` writes on a state whose winner is rule `r`.
`none`: an error of pass `Check` or `GenerateGrammar` ("tokens cannot be discarded", "@frag can
only have one @discard action", …). -/
def GRule.pairs (s : LSpec) (r : GRule) : Option (List Pair) :=
  match resolveActs s r.acts with
  | none => none
  | some ws =>
    match r.name with
    | some n =>
      match tokenNumber s n with
      | some t => tokenRulePairs t ws
      | none => none
    | none => fragRulePairs ws

/-! ### One mode -/

/-- `pickAction` reports no conflict: in every state of the automaton `Build` returns, all the
candidates (`actionSet`) are rules of one file. -/
def conflictFree (files : List Nat) (xs : List Rx) : Bool :=
  match buildDFA (modeNFA xs) with
  | some (.ok F) =>
    F.states.all fun st =>
      match (actionSet (modeNFA xs) st.nfa).map (fun i => files.getD i 0) with
      | [] => true
      | f :: fs => fs.all (· == f)
  | _ => true

/-- The `_lexerModeN` array of a mode with the rules `rs`. `none`: an error was reported (or
`genMode` is `none`, which cannot happen for classes written `lo ≤ hi`). -/
def genModeOf (s : LSpec) (rs : List GRule) : Option Mode :=
  match allSome (rs.map (GRule.pairs s)) with
  | none => none
  | some pss =>
    if conflictFree (rs.map (·.file)) (rs.map (·.body)) then
      genMode (rs.map (·.body)) ((rs.map fun r => r.body.toRe).zip pss)
    else none

/-! ### The whole lexer -/

/-- The front end accepts the names: pass `CreateNames` reports no error (token names valid, no
name defined twice) and `CreateMode` does not panic (no `@mode` is called `$default`; two `@mode`
blocks of one name are already a `RegisterName` error). -/
def namesOK (s : LSpec) : Bool :=
  !(createNames (toTermSpec s)).err && decide ((modeDecls s).map (·.1)).Nodup

/-- **`_lexerModes`** of `lexer.gen.go` for the specification `s`: the tables of all modes, sorted
by mode name (`$default` first, see `Lox.Props.C07.default_mode_first`). `none`: the generator
reports an error instead of writing `lexer.gen.go`. -/
def genModes (s : LSpec) : Option (Array Mode) :=
  if namesOK s then
    (allSome ((modeNames s).map fun n => genModeOf s (modeRules s n))).map List.toArray
  else none

end Lox.Lex.GenSpec
