import Lox.Lex.GenSpecModel
import Lox.Props.C10_e2e
/-! Lemmas about the whole-specification generator model `genModes` (`Lox/Lex/GenSpecModel.lean`):
what `genModes s = some modes` says about every `modes[i]` (`ModeOf`), the shape of the stored
action pairs, and `Rt.WFModes modes` for every specification whose rules are written over code
points, with non-empty classes, and match no empty string (`LSpec.ok`). The property theorems built
from them are in `Lox/Props/C07_e2e.lean`, `C11_e2e.lean`, `C19_e2e.lean`. -/
namespace Lox.Lex.GenSpec
open Lox.Lex Lox.Lex.Gen
open Lox.Dec.Terminals (terminals constOf specNames createNames)

/-! ### The decidable premises -/

/-- The rule is written over code points `0..0x10FFFF` (`Rx.runesOK`), every class is non-empty
with ranges written `lo ≤ hi` (`Rx.clsOK`), and the rule does not match the empty string (the
premise of C02/C11; known finding K3 otherwise). -/
def GRule.ok (r : GRule) : Bool := r.body.clsOK && r.body.runesOK && !nullable r.body.toRe

/-- Every rule that reaches `AddRule`, of every mode. -/
def allRules (s : LSpec) : List GRule := (modeDecls s).flatMap (·.2)

/-- **The well-formedness premise of the end-to-end runtime theorems** (decidable). -/
def LSpec.ok (s : LSpec) : Bool := (allRules s).all GRule.ok

/-- No rule uses `*?` / `+?` (non-greedy rules have their own specification: C08, finding K2). -/
def LSpec.greedy (s : LSpec) : Bool := (allRules s).all fun r => r.body.greedy

def LAct.isTerminal : LAct → Bool
  | .emit _ => true
  | .discard => true
  | _ => false

/-- No action-less `@frag`: every fragment rule carries `@emit` or `@discard` (otherwise its text is
accumulated and may be pending at EOF: known finding K5). -/
def LSpec.noAccum (s : LSpec) : Bool :=
  (allRules s).all fun r => r.name.isSome || r.acts.any LAct.isTerminal

/-! ### `allSome` -/

theorem allSome_eq_some {α : Type} : ∀ {l : List (Option α)} {ys : List α},
    allSome l = some ys → l = ys.map some
  | [], ys, h => by simp only [allSome, Option.some.injEq] at h; subst h; rfl
  | none :: _, _, h => by simp [allSome] at h
  | some a :: rest, ys, h => by
    simp only [allSome, Option.map_eq_some_iff] at h
    obtain ⟨zs, hz, rfl⟩ := h
    rw [allSome_eq_some hz]; rfl

theorem allSome_map_some {α : Type} (ys : List α) : allSome (ys.map some) = some ys := by
  induction ys with
  | nil => rfl
  | cons a rest ih => simp [allSome, ih]

theorem allSome_isSome_of {α : Type} {l : List (Option α)} (h : ∀ x ∈ l, x.isSome = true) :
    ∃ ys, allSome l = some ys := by
  induction l with
  | nil => exact ⟨[], rfl⟩
  | cons a rest ih =>
    obtain ⟨ys, hy⟩ := ih (fun x hx => h x (by simp [hx]))
    cases a with
    | none => have := h none (by simp); cases this
    | some a => exact ⟨a :: ys, by simp [allSome, hy]⟩

theorem map_eq_map_some {α β : Type} {f : α → Option β} {xs : List α} {ys : List β}
    (h : xs.map f = ys.map some) :
    xs.length = ys.length ∧ ∀ i (hi : i < xs.length) (hj : i < ys.length), f xs[i] = some ys[i] := by
  have hl : xs.length = ys.length := by simpa using congrArg List.length h
  refine ⟨hl, fun i hi hj => ?_⟩
  have := congrArg (fun l => l[i]?) h
  simpa [hi, hj] using this

/-! ### Sorting the mode names -/

theorem mem_insertName {n x : String} {l : List String} :
    x ∈ insertName n l ↔ x = n ∨ x ∈ l := by
  induction l with
  | nil => simp [insertName]
  | cons y ys ih =>
    simp only [insertName]
    split
    · simp
    · simp only [List.mem_cons, ih]
      constructor
      · rintro (h | h | h)
        · exact .inr (.inl h)
        · exact .inl h
        · exact .inr (.inr h)
      · rintro (h | h | h)
        · exact .inr (.inl h)
        · exact .inl h
        · exact .inr (.inr h)

theorem length_insertName (n : String) (l : List String) :
    (insertName n l).length = l.length + 1 := by
  induction l with
  | nil => rfl
  | cons y ys ih => simp only [insertName]; split <;> simp [ih]

theorem mem_sortNames {x : String} {l : List String} : x ∈ sortNames l ↔ x ∈ l := by
  induction l with
  | nil => simp [sortNames]
  | cons y ys ih =>
    have : sortNames (y :: ys) = insertName y (sortNames ys) := rfl
    rw [this, mem_insertName, ih, List.mem_cons]

theorem length_sortNames (l : List String) : (sortNames l).length = l.length := by
  induction l with
  | nil => rfl
  | cons y ys ih =>
    have : sortNames (y :: ys) = insertName y (sortNames ys) := rfl
    rw [this, length_insertName, ih]; rfl

theorem modeNames_pos (s : LSpec) : 0 < (modeNames s).length := by
  simp [modeNames, length_sortNames, modeDecls]

theorem default_mem_modeNames (s : LSpec) : defaultName ∈ modeNames s := by
  simp [modeNames, mem_sortNames, modeDecls]

theorem modeIndex_lt {s : LSpec} {n : String} {k : Nat} (h : modeIndex s n = some k) :
    k < (modeNames s).length := by
  unfold modeIndex at h
  split at h
  · rename_i hm
    simp only [Option.some.injEq] at h
    subst h
    exact List.idxOf_lt_length_of_mem hm
  · cases h

theorem modeIndex_get {s : LSpec} {n : String} {k : Nat} (h : modeIndex s n = some k) :
    (modeNames s)[k]? = some n := by
  unfold modeIndex at h
  split at h
  · rename_i hm
    simp only [Option.some.injEq] at h
    subst h
    rw [List.getElem?_eq_getElem (List.idxOf_lt_length_of_mem hm)]
    simp
  · cases h

/-! ### The rules of a mode are rules of the specification -/

theorem modeRules_sub (s : LSpec) (n : String) : ∀ r ∈ modeRules s n, r ∈ allRules s := by
  intro r hr
  unfold modeRules at hr
  cases hf : (modeDecls s).find? (fun d => d.1 == n) with
  | none => rw [hf] at hr; simp at hr
  | some d =>
    rw [hf] at hr
    simp only [Option.map_some, Option.getD_some] at hr
    exact List.mem_flatMap.2 ⟨d, List.mem_of_find?_eq_some hf, hr⟩

/-! ### What `genModes s = some modes` says -/

/-- `modes[i]` is the table of the mode with `Index = i`: the mode called `name`, whose
`ModeBuilder.Rules` are `rs`; `pss` are the action pairs of these rules. -/
structure ModeOf (s : LSpec) (modes : Array Mode) (i : Nat) (name : String) (rs : List GRule)
    (pss : List (List Pair)) (m : Mode) : Prop where
  name_eq : (modeNames s)[i]? = some name
  rules_eq : rs = modeRules s name
  get : modes[i]? = some m
  pairs : rs.map (GRule.pairs s) = pss.map some
  conflict : conflictFree (rs.map (·.file)) (rs.map (·.body)) = true
  gen : genMode (rs.map (·.body)) ((rs.map fun r => r.body.toRe).zip pss) = some m

theorem genModeOf_some {s : LSpec} {rs : List GRule} {m : Mode} (h : genModeOf s rs = some m) :
    ∃ pss, rs.map (GRule.pairs s) = pss.map some ∧
      conflictFree (rs.map (·.file)) (rs.map (·.body)) = true ∧
      genMode (rs.map (·.body)) ((rs.map fun r => r.body.toRe).zip pss) = some m := by
  unfold genModeOf at h
  cases hp : allSome (rs.map (GRule.pairs s)) with
  | none => rw [hp] at h; cases h
  | some pss =>
    rw [hp] at h
    simp only at h
    split at h
    · rename_i hc
      exact ⟨pss, allSome_eq_some hp, hc, h⟩
    · cases h

theorem genModes_some {s : LSpec} {modes : Array Mode} (h : genModes s = some modes) :
    namesOK s = true ∧ modes.size = (modeNames s).length ∧
    ∀ i, i < modes.size → ∃ name rs pss m, ModeOf s modes i name rs pss m := by
  unfold genModes at h
  split at h
  · rename_i hn
    simp only [Option.map_eq_some_iff] at h
    obtain ⟨l, hl, rfl⟩ := h
    have hmap := allSome_eq_some hl
    obtain ⟨hlen, hget⟩ := map_eq_map_some hmap
    refine ⟨hn, by simpa using hlen.symm, ?_⟩
    intro i hi
    simp only [List.size_toArray] at hi
    have hi' : i < (modeNames s).length := by omega
    have hg := hget i hi' hi
    obtain ⟨pss, h1, h2, h3⟩ := genModeOf_some hg
    exact ⟨(modeNames s)[i], _, pss, l[i],
      ⟨List.getElem?_eq_getElem hi', rfl, by simp [hi], h1, h2, h3⟩⟩
  · cases h

/-! ### Shape of the stored pairs -/

theorem resolveActs_push {s : LSpec} {as : List LAct} {ws : List WAction}
    (h : resolveActs s as = some ws) :
    ∀ k, WAction.pushMode k ∈ ws → k < (modeNames s).length := by
  intro k hk
  have hm := allSome_eq_some h
  obtain ⟨hlen, hget⟩ := map_eq_map_some hm
  obtain ⟨i, hi, hw⟩ := List.getElem_of_mem hk
  have := hget i (by omega) hi
  rw [hw] at this
  cases ha : as[i]'(by omega) with
  | pushMode mname =>
    rw [ha] at this
    simp only [resolveAct, Option.map_eq_some_iff, WAction.pushMode.injEq] at this
    obtain ⟨k', hk', rfl⟩ := this
    exact modeIndex_lt hk'
  | popMode => rw [ha] at this; simp [resolveAct] at this
  | emit t =>
    rw [ha] at this
    simp only [resolveAct, Option.map_eq_some_iff] at this
    obtain ⟨_, _, h'⟩ := this
    cases h'
  | discard => rw [ha] at this; simp [resolveAct] at this

/-- The pairs of a rule: the written mode actions (resolved) in written order, then one terminal
pair. -/
theorem pairs_shape {s : LSpec} {r : GRule} {ps : List Pair} (h : r.pairs s = some ps) :
    ∃ ws, resolveActs s r.acts = some ws ∧
      ((∃ n t, r.name = some n ∧ tokenNumber s n = some t ∧ tokenRulePairs t ws = some ps ∧
          ps = Rt.modePairs ws ++ [((3 : Int), (t : Int))]) ∨
       (r.name = none ∧ fragRulePairs ws = some ps ∧
          ps = Rt.modePairs ws ++ [Rt.writtenTerminal accumPair ws])) := by
  unfold GRule.pairs at h
  cases hw : resolveActs s r.acts with
  | none => rw [hw] at h; cases h
  | some ws =>
    rw [hw] at h
    refine ⟨ws, rfl, ?_⟩
    cases hn : r.name with
    | none =>
      rw [hn] at h
      exact .inr ⟨rfl, h, Rt.fragRulePairs_eq h⟩
    | some n =>
      rw [hn] at h
      simp only at h
      cases ht : tokenNumber s n with
      | none => rw [ht] at h; cases h
      | some t =>
        rw [ht] at h
        obtain ⟨e1, e2⟩ := Rt.tokenRulePairs_eq h
        rw [e2] at e1
        exact .inl ⟨n, t, rfl, ht, h, e1⟩

theorem pairs_wf {s : LSpec} {r : GRule} {ps : List Pair} (h : r.pairs s = some ps) :
    Rt.wfPairs (modeNames s).length ps = true := by
  obtain ⟨ws, hw, hsh⟩ := pairs_shape h
  rw [Rt.wfPairs_iff]
  right
  have hpush := resolveActs_push hw
  rcases hsh with ⟨n, t, _, _, _, hps⟩ | ⟨_, _, hps⟩
  · exact ⟨_, _, hps, Rt.modePairs_wf _ ws hpush, .inl rfl⟩
  · exact ⟨_, _, hps, Rt.modePairs_wf _ ws hpush,
      Rt.writtenTerminal_type accumPair ws (by decide)⟩

/-! ### Every mode is generated; `WFModes` -/

theorem ok_rule {s : LSpec} (hok : s.ok = true) {r : GRule} (hr : r ∈ allRules s) :
    r.body.clsOK = true ∧ r.body.runesOK = true ∧ ¬ Matches r.body.toRe [] := by
  have := List.all_eq_true.1 hok r hr
  simp only [GRule.ok, Bool.and_eq_true, Bool.not_eq_true'] at this
  refine ⟨this.1.1, this.1.2, fun hm => ?_⟩
  have h2 := (nullable_iff _).2 hm
  rw [this.2] at h2
  cases h2

/-- The hypotheses the per-mode end-to-end theorems (`generator_bisim`, `generator_wfMode`, …) ask
of the rule lists `xs` / `rules` of a mode. -/
structure RulesOK (n : Nat) (xs : List Rx) (rules : List Rule) : Prop where
  map : rules.map (·.1) = xs.map Rx.toRe
  cls : ∀ r ∈ xs, r.clsOK = true
  runes : ∀ r ∈ xs, r.runesOK = true
  pairs : ∀ r ∈ rules, Rt.wfPairs n r.2 = true
  nonempty : ∀ r ∈ rules, ¬ Matches r.1 []

theorem ModeOf.rulesOK {s : LSpec} {modes : Array Mode} {i : Nat} {name : String}
    {rs : List GRule} {pss : List (List Pair)} {m : Mode} (h : ModeOf s modes i name rs pss m)
    (hok : s.ok = true) :
    RulesOK (modeNames s).length (rs.map (·.body)) ((rs.map fun r => r.body.toRe).zip pss) := by
  obtain ⟨hlen, hget⟩ := map_eq_map_some h.pairs
  have hsub : ∀ r ∈ rs, r ∈ allRules s := by
    intro r hr; rw [h.rules_eq] at hr; exact modeRules_sub s name r hr
  refine ⟨?_, ?_, ?_, ?_, ?_⟩
  · rw [List.map_fst_zip (by simp [hlen])]
    simp
  · intro x hx
    obtain ⟨r, hr, rfl⟩ := List.mem_map.1 hx
    exact (ok_rule hok (hsub r hr)).1
  · intro x hx
    obtain ⟨r, hr, rfl⟩ := List.mem_map.1 hx
    exact (ok_rule hok (hsub r hr)).2.1
  · intro x hx
    have h2 := (List.of_mem_zip hx).2
    obtain ⟨j, hj, hjv⟩ := List.getElem_of_mem h2
    have := hget j (by omega) hj
    rw [hjv] at this
    exact pairs_wf this
  · intro x hx
    have h1 := (List.of_mem_zip hx).1
    obtain ⟨r, hr, hre⟩ := List.mem_map.1 h1
    rw [← hre]
    exact (ok_rule hok (hsub r hr)).2.2

/-- The table of a mode without rules: one state, no transition, no action. -/
theorem genMode_nil : genMode [] [] = some #[1, 2, 0, 0] := by decide +kernel

theorem wfMode_empty (n : Nat) : Rt.wfMode n #[1, 2, 0, 0] = true := by
  have h1 : Rt.nStates #[1, 2, 0, 0] = 1 := by decide
  have h2 : Rt.decodeRow #[1, 2, 0, 0] 0 = some ⟨0, [], []⟩ := by decide
  simp [Rt.wfMode, h1, Rt.wfState, h2, Rt.wfRow, Rt.sortedFrom, Rt.wfPairs]

theorem ModeOf.wfMode {s : LSpec} {modes : Array Mode} {i : Nat} {name : String}
    {rs : List GRule} {pss : List (List Pair)} {m : Mode} (h : ModeOf s modes i name rs pss m)
    (hok : s.ok = true) : Rt.wfMode (modeNames s).length m = true := by
  by_cases hne : rs = []
  · have hg := h.gen
    have hp : pss = [] := by
      have := (map_eq_map_some h.pairs).1
      rw [hne] at this
      exact List.length_eq_zero_iff.1 this.symm
    rw [hne, hp] at hg
    simp only [List.map_nil, List.zip_nil_right] at hg
    rw [genMode_nil] at hg
    cases hg
    exact wfMode_empty _
  · have hR := h.rulesOK hok
    exact Lox.Props.C10.generator_wfMode _ m
      ⟨_, _, hR.map, by simpa using hne, hR.cls, hR.runes, hR.pairs, hR.nonempty, h.gen⟩

/-- **Every lexer the generator model emits for a specification satisfying `LSpec.ok` is
`WFModes`**: the hypothesis of every runtime theorem of C11 and C07. -/
theorem genModes_wfModes {s : LSpec} {modes : Array Mode} (h : genModes s = some modes)
    (hok : s.ok = true) : Rt.WFModes modes := by
  obtain ⟨_, hsz, hall⟩ := genModes_some h
  rw [← Rt.wfModes_iff]
  simp only [Rt.wfModes, Bool.and_eq_true, decide_eq_true_eq, List.all_eq_true]
  refine ⟨by rw [hsz]; exact modeNames_pos s, ?_⟩
  intro m hm
  obtain ⟨i, hi, hv⟩ := List.getElem_of_mem hm
  simp only [Array.length_toList] at hi
  obtain ⟨name, rs, pss, m', hM⟩ := hall i hi
  have : m' = m := by
    have := hM.get
    rw [Array.getElem?_eq_getElem hi] at this
    simp only [Array.getElem_toList] at hv
    rw [hv] at this
    exact (Option.some.inj this).symm
  subst this
  rw [hsz]
  exact hM.wfMode hok

/-! ### The rows of a generated mode -/

/-- The rule list of mode `i` as the per-mode theorems see it: bodies and `(Re, pairs)`. -/
abbrev modeXs (rs : List GRule) : List Rx := rs.map (·.body)
abbrev modeRuleList (rs : List GRule) (pss : List (List Pair)) : List Rule :=
  (rs.map fun r => r.body.toRe).zip pss

/-- Every row of a generated table stores no pairs or the pairs of a rule of the mode. -/
theorem ModeOf.rows {s : LSpec} {modes : Array Mode} {i : Nat} {name : String}
    {rs : List GRule} {pss : List (List Pair)} {m : Mode} (h : ModeOf s modes i name rs pss m)
    (hok : s.ok = true) (q : Nat) (hq : q < Rt.nStates m) :
    ∃ row, Rt.decodeRow m (q : Int) = some row ∧
      (row.pairs = [] ∨ ∃ j, ∃ (_ : j < rs.length) (hj' : j < pss.length), row.pairs = pss[j]) := by
  by_cases hne : rs = []
  · have hg := h.gen
    have hp : pss = [] := by
      have := (map_eq_map_some h.pairs).1
      rw [hne] at this
      exact List.length_eq_zero_iff.1 this.symm
    rw [hne, hp] at hg
    simp only [List.map_nil, List.zip_nil_right] at hg
    rw [genMode_nil] at hg
    cases hg
    have h1 : Rt.nStates #[1, 2, 0, 0] = 1 := by decide
    rw [h1] at hq
    have : q = 0 := by omega
    subst this
    exact ⟨⟨0, [], []⟩, by decide, .inl rfl⟩
  · have hR := h.rulesOK hok
    have hne' : modeXs rs ≠ [] := by simpa using hne
    obtain ⟨F, hF⟩ := buildDFA_total (modeXs rs) hR.cls
    have hg := h.gen
    simp only [genMode, hF] at hg
    obtain ⟨_, hpos, _, _, _⟩ := buildDFA_shape (modeXs rs) hne' hR.cls F hF
    obtain ⟨hn, _, _⟩ := emit_rows hg hpos
    rw [rt_nStates_eq, hn] at hq
    have hst : F.states[q]? = some F.states[q] := List.getElem?_eq_getElem hq
    refine ⟨_, emit_decodeRow hg hst, ?_⟩
    simp only
    rw [Lox.Props.C02.statePairs_eq _ _ F q _ hst]
    cases pickAction (modeNFA (modeXs rs)) F.states[q].nfa with
    | none => exact .inl rfl
    | some j =>
      simp only [Lox.Props.C02.winnerPairs]
      cases hj : (modeRuleList rs pss)[j]? with
      | none => exact .inl rfl
      | some r =>
        right
        have hlen := (map_eq_map_some h.pairs).1
        have hjl : j < (modeRuleList rs pss).length := (List.getElem?_eq_some_iff.1 hj).1
        simp only [List.length_zip, List.length_map] at hjl
        refine ⟨j, by omega, by omega, ?_⟩
        have := (List.getElem?_eq_some_iff.1 hj).2
        simp only [Option.map_some, Option.getD_some, ← this, List.getElem_zip]

/-- … and, spelled out, the pairs of a rule `r` of the mode: `r.pairs s = some row.pairs`. -/
theorem ModeOf.rows_rule {s : LSpec} {modes : Array Mode} {i : Nat} {name : String}
    {rs : List GRule} {pss : List (List Pair)} {m : Mode} (h : ModeOf s modes i name rs pss m)
    (hok : s.ok = true) (q : Nat) (hq : q < Rt.nStates m) :
    ∃ row, Rt.decodeRow m (q : Int) = some row ∧
      (row.pairs = [] ∨ ∃ r ∈ rs, r.pairs s = some row.pairs) := by
  obtain ⟨row, hrow, hp⟩ := h.rows hok q hq
  refine ⟨row, hrow, ?_⟩
  rcases hp with hp | ⟨j, hj, hj', hp⟩
  · exact .inl hp
  · right
    have := (map_eq_map_some h.pairs).2 j hj hj'
    exact ⟨rs[j], List.getElem_mem hj, by rw [this, hp]⟩

/-! ### No accumulate pair -/

theorem writtenTerminal_ne_accum {ws : List WAction} (h : ∃ w ∈ ws, w.isTerminal = true) :
    (Rt.writtenTerminal accumPair ws).1 ≠ 5 := by
  unfold Rt.writtenTerminal
  cases hf : ws.find? WAction.isTerminal with
  | none =>
    obtain ⟨w, hw, ht⟩ := h
    have := List.find?_eq_none.1 hf w hw
    rw [ht] at this
    exact absurd rfl this
  | some w =>
    have := List.find?_some hf
    cases w <;> simp_all [WAction.isTerminal, WAction.pair]

theorem resolveActs_terminal {s : LSpec} {as : List LAct} {ws : List WAction}
    (h : resolveActs s as = some ws) (ht : as.any LAct.isTerminal = true) :
    ∃ w ∈ ws, w.isTerminal = true := by
  obtain ⟨hlen, hget⟩ := map_eq_map_some (allSome_eq_some h)
  obtain ⟨a, ha, hat⟩ := List.any_eq_true.1 ht
  obtain ⟨i, hi, hai⟩ := List.getElem_of_mem ha
  have := hget i hi (by omega)
  rw [hai] at this
  refine ⟨ws[i]'(by omega), List.getElem_mem _, ?_⟩
  cases a with
  | pushMode _ => cases hat
  | popMode => cases hat
  | emit t =>
    simp only [resolveAct, Option.map_eq_some_iff] at this
    obtain ⟨_, _, h'⟩ := this
    rw [← h']; rfl
  | discard =>
    simp only [resolveAct, Option.some.injEq] at this
    rw [← this]; rfl

/-- The pairs of a token rule, and of a fragment with `@emit` / `@discard`, hold no accumulate
pair. -/
theorem pairs_no_accum {s : LSpec} {r : GRule} {ps : List Pair} (h : r.pairs s = some ps)
    (hna : (r.name.isSome || r.acts.any LAct.isTerminal) = true) : ∀ p ∈ ps, p.1 ≠ 5 := by
  obtain ⟨ws, hw, hsh⟩ := pairs_shape h
  have hmode : ∀ p ∈ Rt.modePairs ws, p.1 ≠ 5 := by
    intro p hp
    rcases Rt.modePairs_wf _ ws (resolveActs_push hw) p hp with h1 | h1 <;> omega
  intro p hp
  rcases hsh with ⟨n, t, _, _, _, hps⟩ | ⟨hnone, _, hps⟩
  · rw [hps] at hp
    rcases List.mem_append.1 hp with h1 | h1
    · exact hmode p h1
    · simp only [List.mem_singleton] at h1; rw [h1]; simp
  · rw [hps] at hp
    rcases List.mem_append.1 hp with h1 | h1
    · exact hmode p h1
    · simp only [List.mem_singleton] at h1
      rw [h1]
      rw [hnone] at hna
      simp only [Option.isSome_none, Bool.false_or] at hna
      exact writtenTerminal_ne_accum (resolveActs_terminal hw hna)

theorem genModes_noAccum {s : LSpec} {modes : Array Mode} (h : genModes s = some modes)
    (hok : s.ok = true) (hna : s.noAccum = true) : Rt.NoAccum modes := by
  obtain ⟨_, hsz, hall⟩ := genModes_some h
  intro mi m hm q hq row hrow p hp
  have hmi : mi < modes.size := by
    rcases Nat.lt_or_ge mi modes.size with h1 | h1
    · exact h1
    · rw [Array.getElem?_eq_none h1] at hm; cases hm
  obtain ⟨name, rs, pss, m', hM⟩ := hall mi hmi
  have : m' = m := by
    have := hM.get; rw [hm] at this; exact (Option.some.inj this).symm
  subst this
  obtain ⟨row', hrow', hp'⟩ := hM.rows_rule hok q hq
  rw [hrow] at hrow'
  cases hrow'
  rcases hp' with h0 | ⟨r, hr, hrp⟩
  · rw [h0] at hp; cases hp
  · have hr' : r ∈ allRules s := by
      rw [hM.rules_eq] at hr; exact modeRules_sub s name r hr
    exact pairs_no_accum hrp (List.all_eq_true.1 hna r hr') p hp

/-! ### Accept pairs carry terminal numbers -/

theorem tokenNumber_some {s : LSpec} {n : String} {k : Nat} (h : tokenNumber s n = some k) :
    n ∈ specNames (toTermSpec s) ∧ constOf (terminals (toTermSpec s)) n = some k := by
  unfold tokenNumber at h
  split at h
  · rename_i hm; exact ⟨hm, h⟩
  · cases h

theorem resolveActs_emit {s : LSpec} {as : List LAct} {ws : List WAction}
    (h : resolveActs s as = some ws) {k : Nat} (hk : WAction.emit k ∈ ws) :
    ∃ name, LAct.emit name ∈ as ∧ tokenNumber s name = some k := by
  obtain ⟨hlen, hget⟩ := map_eq_map_some (allSome_eq_some h)
  obtain ⟨i, hi, hw⟩ := List.getElem_of_mem hk
  have := hget i (by omega) hi
  rw [hw] at this
  cases ha : as[i]'(by omega) with
  | pushMode mname =>
    rw [ha] at this
    simp only [resolveAct, Option.map_eq_some_iff] at this
    obtain ⟨_, _, h'⟩ := this
    cases h'
  | popMode => rw [ha] at this; simp [resolveAct] at this
  | emit t =>
    rw [ha] at this
    simp only [resolveAct, Option.map_eq_some_iff, WAction.emit.injEq] at this
    obtain ⟨k', hk', rfl⟩ := this
    exact ⟨t, by rw [← ha]; exact List.getElem_mem _, hk'⟩
  | discard => rw [ha] at this; simp [resolveAct] at this

/-- An accept pair among the pairs of a rule is the last pair, and its parameter is the number of
the rule's own token (token rule) or of the token named by the written `@emit` (fragment). -/
theorem pairs_accept {s : LSpec} {r : GRule} {ps : List Pair} (h : r.pairs s = some ps)
    {p : Pair} (hp : p ∈ ps) (h3 : p.1 = 3) :
    ∃ (name : String) (k : Nat), p = ((3 : Int), (k : Int)) ∧ ps.getLast? = some p ∧
      tokenNumber s name = some k ∧
      (r.name = some name ∨ (r.name = none ∧ LAct.emit name ∈ r.acts)) := by
  obtain ⟨ws, hw, hsh⟩ := pairs_shape h
  have hmode : ∀ p ∈ Rt.modePairs ws, p.1 ≠ 3 := by
    intro p hp
    rcases Rt.modePairs_wf _ ws (resolveActs_push hw) p hp with h1 | h1 <;> omega
  rcases hsh with ⟨n, t, hn, ht, _, hps⟩ | ⟨hnone, _, hps⟩
  · rw [hps] at hp
    rcases List.mem_append.1 hp with h1 | h1
    · exact absurd h3 (hmode p h1)
    · simp only [List.mem_singleton] at h1
      exact ⟨n, t, h1, by rw [hps, h1]; simp, ht, .inl hn⟩
  · rw [hps] at hp
    rcases List.mem_append.1 hp with h1 | h1
    · exact absurd h3 (hmode p h1)
    · simp only [List.mem_singleton] at h1
      have hlast : ps.getLast? = some p := by rw [hps, h1]; simp
      rw [h1] at h3
      unfold Rt.writtenTerminal at h1 h3
      cases hf : ws.find? WAction.isTerminal with
      | none => rw [hf] at h3; simp [accumPair] at h3
      | some w =>
        rw [hf] at h1 h3
        have hmem := List.mem_of_find?_eq_some hf
        cases w with
        | pushMode _ => simp [WAction.pair] at h3
        | popMode => simp [WAction.pair] at h3
        | discard => simp [WAction.pair] at h3
        | emit k =>
          obtain ⟨name, hname, hnum⟩ := resolveActs_emit hw hmem
          exact ⟨name, k, h1, hlast, hnum, .inr ⟨hnone, hname⟩⟩

theorem namesOK_createNames {s : LSpec} (h : namesOK s = true) :
    (createNames (toTermSpec s)).err = false := by
  simp only [namesOK, Bool.and_eq_true, Bool.not_eq_true'] at h
  exact h.1

/-! ### The generator fails only on front-end errors -/

/-- `genModes` is `none` only for the errors it models: if the names are accepted (`namesOK`), every
rule has its pairs (`@push_mode` / `@emit` name a mode / token, action lists legal), no mode has a
cross-file conflict, and classes are written `lo ≤ hi`, then `lexer.gen.go` is written: no panic of
`rang3.Normalize`, `GetStateGroup` or `AddRow` for any specification (`C02.generator_total` for
every mode). -/
theorem genModes_total (s : LSpec) (hn : namesOK s = true)
    (hp : ∀ r ∈ allRules s, (r.pairs s).isSome = true)
    (hc : ∀ n ∈ modeNames s,
      conflictFree ((modeRules s n).map (·.file)) ((modeRules s n).map (·.body)) = true)
    (hcls : ∀ r ∈ allRules s, r.body.clsOK = true) :
    ∃ modes, genModes s = some modes := by
  unfold genModes
  rw [if_pos hn]
  have : ∃ ys, allSome ((modeNames s).map fun n => genModeOf s (modeRules s n)) = some ys := by
    apply allSome_isSome_of
    intro x hx
    obtain ⟨n, hnm, rfl⟩ := List.mem_map.1 hx
    unfold genModeOf
    obtain ⟨pss, hpss⟩ := allSome_isSome_of (l := (modeRules s n).map (GRule.pairs s)) (by
      intro y hy
      obtain ⟨r, hr, rfl⟩ := List.mem_map.1 hy
      exact hp r (modeRules_sub s n r hr))
    rw [hpss]
    simp only [hc n hnm, if_true]
    obtain ⟨tbl, ht⟩ := Lox.Props.C02.generator_total ((modeRules s n).map (·.body))
      (((modeRules s n).map fun r => r.body.toRe).zip pss) (by
        intro x hx
        obtain ⟨r, hr, rfl⟩ := List.mem_map.1 hx
        exact hcls r (modeRules_sub s n r hr))
    rw [ht]; rfl
  obtain ⟨ys, hys⟩ := this
  exact ⟨ys.toArray, by rw [hys]; rfl⟩

/-! ### `slices.Sort` is modelled by its result -/

theorem str_lt_of_not_lt_of_ne {a b : String} (h : ¬ a < b) (hne : a ≠ b) : b < a := by
  rcases Classical.em (b < a) with h1 | h1
  · exact h1
  · exact absurd (String.le_antisymm (String.not_lt.1 h1) (String.not_lt.1 h)) hne

theorem insertName_sorted {n : String} {l : List String} (hs : l.Pairwise (· < ·))
    (hn : n ∉ l) : (insertName n l).Pairwise (· < ·) := by
  induction l with
  | nil => simp [insertName]
  | cons x xs ih =>
    obtain ⟨hx, hxs⟩ := List.pairwise_cons.1 hs
    simp only [insertName]
    split
    · rename_i hlt
      refine List.pairwise_cons.2 ⟨?_, hs⟩
      intro y hy
      rcases List.mem_cons.1 hy with rfl | hy
      · exact hlt
      · exact String.lt_trans hlt (hx y hy)
    · rename_i hnlt
      have hxn : x < n := str_lt_of_not_lt_of_ne hnlt (fun h => hn (by simp [h]))
      refine List.pairwise_cons.2 ⟨?_, ih hxs (fun h => hn (by simp [h]))⟩
      intro y hy
      rcases mem_insertName.1 hy with rfl | hy
      · exact hxn
      · exact hx y hy

theorem sortNames_sorted {ns : List String} (hnd : ns.Nodup) :
    (sortNames ns).Pairwise (· < ·) := by
  induction ns with
  | nil => simp [sortNames]
  | cons y ys ih =>
    obtain ⟨hy, hys⟩ := List.nodup_cons.1 hnd
    show (insertName y (sortNames ys)).Pairwise (· < ·)
    exact insertName_sorted (ih hys) (by rw [mem_sortNames]; exact hy)

theorem sorted_ext : ∀ {l₁ l₂ : List String}, l₁.Pairwise (· < ·) → l₂.Pairwise (· < ·) →
    (∀ x, x ∈ l₁ ↔ x ∈ l₂) → l₁ = l₂
  | [], [], _, _, _ => rfl
  | [], b :: _, _, _, h => by have := (h b).2 (by simp); simp at this
  | a :: _, [], _, _, h => by have := (h a).1 (by simp); simp at this
  | a :: t₁, b :: t₂, h1, h2, h => by
    obtain ⟨ha, ht1⟩ := List.pairwise_cons.1 h1
    obtain ⟨hb, ht2⟩ := List.pairwise_cons.1 h2
    have hab : a = b := by
      rcases Classical.em (a = b) with e | e
      · exact e
      · have h3 : a ∈ t₂ := by
          rcases List.mem_cons.1 ((h a).1 (by simp)) with h' | h'
          · exact absurd h' e
          · exact h'
        have h4 : b ∈ t₁ := by
          rcases List.mem_cons.1 ((h b).2 (by simp)) with h' | h'
          · exact absurd h'.symm e
          · exact h'
        exact absurd (hb a h3) (String.lt_asymm (ha b h4))
    subst hab
    congr 1
    apply sorted_ext ht1 ht2
    intro x
    constructor
    · intro hx
      rcases List.mem_cons.1 ((h x).1 (by simp [hx])) with h' | h'
      · subst h'; exact absurd (ha x hx) (String.lt_irrefl _)
      · exact h'
    · intro hx
      rcases List.mem_cons.1 ((h x).2 (by simp [hx])) with h' | h'
      · subst h'; exact absurd (hb x hx) (String.lt_irrefl _)
      · exact h'

/-- `slices.Sort(modeNames)` (pdqsort) is modelled by its result: any increasing list that holds
exactly the names – which are distinct, being the keys of `ctx.LexerModes` – is `sortNames`. -/
theorem sortNames_unique {ns : List String} (hnd : ns.Nodup) {l : List String}
    (hs : l.Pairwise (· < ·)) (hmem : ∀ x, x ∈ l ↔ x ∈ ns) : l = sortNames ns :=
  sorted_ext hs (sortNames_sorted hnd) (fun x => by rw [hmem, mem_sortNames])

end Lox.Lex.GenSpec
