import Lox.Lex.BisimProofs
import Lox.Lex.SpecProofs
import Lox.Lex.TableProofs
/-! Maximal munch: the table consumes exactly the longest viable prefix; the driver loop
(`readToken` of `Model.lean`) does the same and then executes the action pairs of the earliest rule
matching that prefix. -/
namespace Lox.Lex

/-! ### Table level -/

theorem tableRunFrom_append (tbl : Mode) : ∀ (u v : List Int) (q : Nat),
    tableRunFrom tbl q (u ++ v) = (tableRunFrom tbl q u).bind fun q' => tableRunFrom tbl q' v := by
  intro u
  induction u with
  | nil => intro v q; rfl
  | cons c u ih =>
    intro v q
    simp only [List.cons_append, tableRunFrom]
    cases tableStep tbl q c with
    | none => rfl
    | some q' => exact ih v q'

theorem tableRunFrom_none_append {tbl : Mode} {u : List Int} {q : Nat}
    (h : tableRunFrom tbl q u = none) (v : List Int) : tableRunFrom tbl q (u ++ v) = none := by
  rw [tableRunFrom_append, h]; rfl

theorem scanLen_le (tbl : Mode) : ∀ (s : List Int) (q : Nat), scanLen tbl q s ≤ s.length := by
  intro s
  induction s with
  | nil => intro q; simp [scanLen]
  | cons c s ih =>
    intro q
    simp only [scanLen]
    cases tableStep tbl q c with
    | none => simp
    | some q' => have := ih q'; simp only [List.length_cons]; omega

theorem scanLen_cons_none {tbl : Mode} {q : Nat} {c : Int} (s : List Int)
    (h : tableStep tbl q c = none) : scanLen tbl q (c :: s) = 0 := by
  simp [scanLen, h]

theorem scanLen_cons_some {tbl : Mode} {q q' : Nat} {c : Int} (s : List Int)
    (h : tableStep tbl q c = some q') : scanLen tbl q (c :: s) = scanLen tbl q' s + 1 := by
  simp [scanLen, h]

/-- The scan follows the table along the prefix it consumes and stops where the table has no
transition. -/
theorem scan_spec (tbl : Mode) : ∀ (s : List Int) (q : Nat),
    ∃ q', tableRunFrom tbl q (s.take (scanLen tbl q s)) = some q' ∧
      ∀ c, s[scanLen tbl q s]? = some c → tableStep tbl q' c = none := by
  intro s
  induction s with
  | nil => intro q; exact ⟨q, rfl, fun c h => by simp at h⟩
  | cons c s ih =>
    intro q
    cases hstep : tableStep tbl q c with
    | none =>
      rw [scanLen_cons_none s hstep]
      refine ⟨q, rfl, ?_⟩
      intro c' hc'
      simp only [List.getElem?_cons_zero, Option.some.injEq] at hc'
      subst hc'; exact hstep
    | some q1 =>
      rw [scanLen_cons_some s hstep]
      obtain ⟨q', h1, h2⟩ := ih q1
      refine ⟨q', ?_, ?_⟩
      · simp only [List.take_succ_cons, tableRunFrom, hstep]
        exact h1
      · intro c' hc'
        simp only [List.getElem?_cons_succ] at hc'
        exact h2 c' hc'

theorem take_of_lt {s : List Int} {k j : Nat} (hkj : k < j) (hk : k < s.length) :
    s.take j = s.take k ++ [s[k]] ++ (s.take j).drop (k + 1) := by
  have h1 : (s.take j).take (k + 1) = s.take (k + 1) := by
    rw [List.take_take]; congr 1; omega
  have h2 : s.take (k + 1) = s.take k ++ [s[k]] := by
    rw [List.take_succ_eq_append_getElem hk]
  calc s.take j = (s.take j).take (k + 1) ++ (s.take j).drop (k + 1) := (List.take_append_drop _ _).symm
    _ = s.take k ++ [s[k]] ++ (s.take j).drop (k + 1) := by rw [h1, h2]

/-- The table computes a specification given by a viability predicate `V` and a labelling `L`
(`viable`/`label` for greedy modes, `viableNG`/`labelNG` for modes with non-greedy rules). -/
structure TableSpec (tbl : Mode) (V : List Int → Prop) (L : List Int → List Pair) : Prop where
  wf : wfTable tbl = true
  dead : ∀ s, tableRun tbl s = none ↔ ¬ V s
  lab : ∀ s ps, tableRun tbl s = some ps → ps = L s

theorem tableSpec_of_closed {rules : List Rule} {tbl : Mode} {R : List Cfg}
    (hC : Closed rules tbl R) : TableSpec tbl (viable rules) (label rules) := by
  refine ⟨hC.wf, ?_, ?_⟩
  · intro s
    rw [closed_sound hC s]
    unfold specRun
    by_cases hv : viable rules s <;> simp [hv]
  · intro s ps h
    rw [closed_sound hC s] at h
    unfold specRun at h
    by_cases hv : viable rules s
    · simp only [hv, ↓reduceIte, Option.some.injEq] at h; exact h.symm
    · simp [hv] at h

/-- **Maximal munch at table level.** For a table that computes the specification `(V, L)`, the
number of runes the table consumes from state 0 on `s` is the length of the LONGEST viable prefix
of `s`, and the state reached carries the label of that prefix. -/
theorem munch_table_gen {tbl : Mode} {V : List Int → Prop} {L : List Int → List Pair}
    (hS : TableSpec tbl V L) (s : List Int) :
    V (s.take (scanLen tbl 0 s)) ∧
    (∀ j, scanLen tbl 0 s < j → j ≤ s.length → ¬ V (s.take j)) ∧
    ∃ q', tableRunFrom tbl 0 (s.take (scanLen tbl 0 s)) = some q' ∧
      rowPairs tbl q' = L (s.take (scanLen tbl 0 s)) := by
  obtain ⟨q', hrun, hstop⟩ := scan_spec tbl s 0
  have hk : tableRun tbl (s.take (scanLen tbl 0 s)) = some (rowPairs tbl q') := by
    simp only [tableRun, hrun, Option.map_some]
  have hv : V (s.take (scanLen tbl 0 s)) := by
    by_cases hv : V (s.take (scanLen tbl 0 s))
    · exact hv
    · rw [(hS.dead _).mpr hv] at hk; cases hk
  refine ⟨hv, ?_, q', hrun, hS.lab _ _ hk⟩
  intro j hj hjl
  have hlt : scanLen tbl 0 s < s.length := by omega
  have hnone : tableRunFrom tbl 0 (s.take (scanLen tbl 0 s) ++ [s[scanLen tbl 0 s]]) = none := by
    rw [tableRunFrom_append, hrun]
    simp only [Option.bind_some, tableRunFrom, hstop _ (List.getElem?_eq_getElem hlt)]
  apply (hS.dead _).mp
  rw [take_of_lt hj hlt]
  simp only [tableRun, tableRunFrom_none_append hnone, Option.map_none]

theorem munch_table {rules : List Rule} {tbl : Mode} (hC : ∃ R, Closed rules tbl R)
    (s : List Int) :
    viable rules (s.take (scanLen tbl 0 s)) ∧
    (∀ j, scanLen tbl 0 s < j → j ≤ s.length → ¬ viable rules (s.take j)) ∧
    ∃ q', tableRunFrom tbl 0 (s.take (scanLen tbl 0 s)) = some q' ∧
      rowPairs tbl q' = label rules (s.take (scanLen tbl 0 s)) := by
  obtain ⟨R, hC⟩ := hC
  exact munch_table_gen (tableSpec_of_closed hC) s

/-! ### Driver level -/

theorem readToken_eq_tokBody (modes : Array Mode) (inp : Input) (n : Nat) (start : Option Nat)
    (l : Lx) :
    readToken modes inp (n + 1) start l =
      tokBody modes inp n (start.getD l.offset) l (pushRune modes l.sm (l.char inp)) := by
  simp only [readToken, tokBody]
  cases pushRune modes l.sm (l.char inp) with
  | mk res sm => cases res <;> rfl

theorem rest_nil {inp : Input} {l : Lx} (h : l.rest inp = []) : l.char inp = -1 := by
  simp only [Lx.rest, List.map_eq_nil_iff, List.drop_eq_nil_iff, Array.length_toList] at h
  simp only [Lx.char]
  have : inp[l.idx]? = none := by simp; omega
  rw [this]

theorem rest_cons {inp : Input} {l : Lx} {c : Int} {s : List Int} (h : l.rest inp = c :: s) :
    l.char inp = c ∧ ∀ sm', (({ l with sm := sm' } : Lx).consume inp).rest inp = s := by
  simp only [Lx.rest] at h
  have hlt : l.idx < inp.size := by
    by_cases hlt : l.idx < inp.size
    · exact hlt
    · have : inp.toList.drop l.idx = [] := by simp; omega
      rw [this] at h; cases h
  have hd : inp.toList.drop l.idx = inp[l.idx] :: inp.toList.drop (l.idx + 1) := by
    rw [← Array.getElem_toList hlt]
    exact List.drop_eq_getElem_cons (by simpa using hlt)
  rw [hd] at h
  simp only [List.map_cons, List.cons.injEq] at h
  have hget : inp[l.idx]? = some inp[l.idx] := by simp [hlt]
  refine ⟨?_, ?_⟩
  · simp only [Lx.char, hget]; exact h.1
  · intro sm'
    simp only [Lx.consume, hget, Lx.rest]
    exact h.2

theorem consume_sm (inp : Input) (l : Lx) : (l.consume inp).sm = l.sm := by
  simp only [Lx.consume]; split <;> rfl

theorem advance_sm (inp : Input) : ∀ (k : Nat) (l : Lx), (l.advance inp k).sm = l.sm := by
  intro k
  induction k with
  | zero => intro l; rfl
  | succ k ih => intro l; simp only [Lx.advance, ih, consume_sm]

theorem consume_with_sm (inp : Input) (l : Lx) (sm' : SM) :
    (({ l with sm := sm' } : Lx).consume inp) = { l.consume inp with sm := sm' } := by
  simp only [Lx.consume]; split <;> rfl

theorem advance_with_sm (inp : Input) : ∀ (k : Nat) (l : Lx) (sm' : SM),
    (({ l with sm := sm' } : Lx).advance inp k) = { l.advance inp k with sm := sm' } := by
  intro k
  induction k with
  | zero => intro l sm'; rfl
  | succ k ih =>
    intro l sm'
    show Lx.advance inp k (({ l with sm := sm' } : Lx).consume inp) = _
    rw [consume_with_sm]
    exact ih (l.consume inp) sm'

theorem char_with_sm (inp : Input) (l : Lx) (sm' : SM) :
    ({ l with sm := sm' } : Lx).char inp = l.char inp := rfl

theorem tokBody_consume (modes : Array Mode) (inp : Input) (n start : Nat) (l : Lx) (sm' : SM) :
    tokBody modes inp n start l (.consume, sm') =
      readToken modes inp n (some start) (({ l with sm := sm' } : Lx).consume inp) := rfl

theorem tokBody_with_sm (modes : Array Mode) (inp : Input) (n start : Nat) (l : Lx) (sm' : SM)
    (x : Res × SM) :
    tokBody modes inp n start { l with sm := sm' } x = tokBody modes inp n start l x := rfl

/-- The scan loop of `ReadToken`: from state `q` of mode `m` the driver consumes
`scanLen m q (rest)` runes, walking the table, and then hands the result of the next `PushRune`
(the action pairs of the state reached, `pushRune_step`) to `tokBody`. -/
theorem readToken_scan (modes : Array Mode) (inp : Input) (m : Mode) (hwf : wfTable m = true) :
    ∀ (s : List Int) (q : Nat) (l : Lx) (start : Option Nat) (n : Nat),
      l.rest inp = s → modes[l.sm.mode.getD 0]? = some m → l.sm.state = (q : Int) →
      q < nStates m →
      ∃ q', tableRunFrom m q (s.take (scanLen m q s)) = some q' ∧ q' < nStates m ∧
        readToken modes inp (scanLen m q s + (n + 1)) start l =
          tokBody modes inp n (start.getD l.offset) (l.advance inp (scanLen m q s))
            (runPairs modes ((l.advance inp (scanLen m q s)).char inp) (rowPairs m q')
              { l.sm with mode := some (l.sm.mode.getD 0), state := (q' : Int) }) := by
  intro s
  induction s with
  | nil =>
    intro q l start n hrest hmode hstate hq
    refine ⟨q, rfl, hq, ?_⟩
    have hchar := rest_nil hrest
    have hstep : tableStep m q (-1) = none := tableStep_outside hwf hq (.inl (by omega))
    simp only [scanLen, Nat.zero_add, Lx.advance]
    rw [readToken_eq_tokBody, pushRune_step modes l.sm m q _ hwf hmode hstate hq, hchar, hstep]
    simp only [hstate]
  | cons c s ih =>
    intro q l start n hrest hmode hstate hq
    obtain ⟨hchar, hrest'⟩ := rest_cons hrest
    cases hstep : tableStep m q c with
    | none =>
      rw [scanLen_cons_none s hstep]
      refine ⟨q, rfl, hq, ?_⟩
      simp only [Nat.zero_add, Lx.advance]
      rw [readToken_eq_tokBody, pushRune_step modes l.sm m q _ hwf hmode hstate hq, hchar, hstep]
      simp only [hstate]
    | some q1 =>
      rw [scanLen_cons_some s hstep]
      obtain ⟨hq1, _⟩ := tableStep_spec hwf hq hstep
      let sm1 : SM := { l.sm with mode := some (l.sm.mode.getD 0), state := (q1 : Int) }
      let l1 : Lx := ({ l with sm := sm1 } : Lx).consume inp
      have hsm1 : l1.sm = sm1 := by simp only [l1, consume_sm]
      obtain ⟨q', hrun, hq', hread⟩ := ih q1 l1 (some (start.getD l.offset)) n (hrest' sm1)
        (by rw [hsm1]; simpa [sm1] using hmode) (by rw [hsm1]) hq1
      refine ⟨q', ?_, hq', ?_⟩
      · simp only [List.take_succ_cons, tableRunFrom, hstep]; exact hrun
      · have e : scanLen m q1 s + 1 + (n + 1) = (scanLen m q1 s + (n + 1)) + 1 := by omega
        rw [e, readToken_eq_tokBody, pushRune_step modes l.sm m q _ hwf hmode hstate hq, hchar, hstep]
        simp only
        rw [tokBody_consume]
        have hl1 : l1 = { l.consume inp with sm := sm1 } := consume_with_sm inp l sm1
        have hadv : l1.advance inp (scanLen m q1 s) =
            { l.advance inp (scanLen m q1 s + 1) with sm := sm1 } := by
          rw [hl1, advance_with_sm]; rfl
        have hread' : readToken modes inp (scanLen m q1 s + (n + 1)) (some (start.getD l.offset)) l1 = _ :=
          hread
        rw [hadv, tokBody_with_sm, char_with_sm, hsm1] at hread'
        exact hread'

/-! ### State 0 means "nothing consumed" -/

theorem startClean_spec {tbl : Mode} (hwf : wfTable tbl = true) (h : startClean tbl = true) :
    rowPairs tbl 0 = [] ∧ ∀ q c q', q < nStates tbl → tableStep tbl q c = some q' → q' ≠ 0 := by
  simp only [startClean, Bool.and_eq_true, List.isEmpty_iff, List.all_eq_true, List.mem_range] at h
  refine ⟨h.1, ?_⟩
  intro q c q' hq hstep
  obtain ⟨_, _, _, row, hrow, _, hl⟩ := tableStep_spec hwf hq hstep
  have hall := h.2 q hq
  rw [hrow] at hall
  simp only [List.all_eq_true, decide_eq_true_eq] at hall
  obtain ⟨t, ht, _, hst⟩ := lookup_some_mem hl
  have := hall t ht
  intro h0
  subst h0
  exact this (by simpa using hst)

theorem tableRunFrom_ne_zero {tbl : Mode} (hwf : wfTable tbl = true) (hsc : startClean tbl = true) :
    ∀ (u : List Int) (q q' : Nat), u ≠ [] → q < nStates tbl → tableRunFrom tbl q u = some q' →
      q' ≠ 0 := by
  intro u
  induction u with
  | nil => intro q q' h; exact absurd rfl h
  | cons c u ih =>
    intro q q' _ hq hrun
    simp only [tableRunFrom] at hrun
    cases hstep : tableStep tbl q c with
    | none => rw [hstep] at hrun; cases hrun
    | some q1 =>
      rw [hstep] at hrun
      have hq1 := (startClean_spec hwf hsc).2 q c q1 hq hstep
      cases u with
      | nil => simp only [tableRunFrom, Option.some.injEq] at hrun; subst hrun; exact hq1
      | cons c' u' =>
        exact ih q1 q' (by simp) (tableStep_spec hwf hq hstep).1 hrun

/-- **Maximal munch at driver level.** `m` is the current mode, computing the specification
`(V, L)` (`TableSpec`); the state machine is in state 0 (between tokens). Let `s` be the remaining
runes, `k = scanLen m 0 s` and `p = s.take k`. Then `p` is the longest viable prefix of `s`, and
`ReadToken` consumes exactly `p` and then does what `tokBody` does with the result of executing the
action pairs `L p` (those of the earliest rule that matches `p`; `[]` when no rule matches `p`). The
state `q'` reached is `≠ 0` when `p ≠ []` and the table is `startClean`. -/
theorem munch_driver_gen (modes : Array Mode) (inp : Input) (m : Mode) {V : List Int → Prop}
    {L : List Int → List Pair} (l : Lx) (hS : TableSpec m V L)
    (hmode : modes[l.sm.mode.getD 0]? = some m)
    (hstate : l.sm.state = 0) (start : Option Nat) (n : Nat) :
    V ((l.rest inp).take (scanLen m 0 (l.rest inp))) ∧
    (∀ j, scanLen m 0 (l.rest inp) < j → j ≤ (l.rest inp).length →
      ¬ V ((l.rest inp).take j)) ∧
    ∃ q', tableRunFrom m 0 ((l.rest inp).take (scanLen m 0 (l.rest inp))) = some q' ∧
      (startClean m = true → (l.rest inp).take (scanLen m 0 (l.rest inp)) ≠ [] → q' ≠ 0) ∧
      readToken modes inp (scanLen m 0 (l.rest inp) + (n + 1)) start l =
        tokBody modes inp n (start.getD l.offset) (l.advance inp (scanLen m 0 (l.rest inp)))
          (runPairs modes ((l.advance inp (scanLen m 0 (l.rest inp))).char inp)
            (L ((l.rest inp).take (scanLen m 0 (l.rest inp))))
            { l.sm with mode := some (l.sm.mode.getD 0), state := (q' : Int) }) := by
  obtain ⟨hv, hlong, q1, hrun1, hlab⟩ := munch_table_gen hS (l.rest inp)
  have hwf := hS.wf
  obtain ⟨q', hrun, _, hread⟩ := readToken_scan modes inp m hwf (l.rest inp) 0 l start n rfl hmode
    (by simpa using hstate) (wfTable_nStates hwf)
  have : q1 = q' := by rw [hrun1] at hrun; exact Option.some.inj hrun
  subst this
  refine ⟨hv, hlong, q1, hrun1, ?_, ?_⟩
  · intro hsc hne
    exact tableRunFrom_ne_zero hwf hsc _ 0 q1 hne (wfTable_nStates hwf) hrun1
  · rw [hread, hlab]

/-- Plain token rule wins (`label = [(3, t)]`, i.e. accept terminal `t`, no mode actions): the call
returns the token `t` whose text is exactly the longest viable prefix. -/
theorem munch_token_gen (modes : Array Mode) (inp : Input) (m : Mode) {V : List Int → Prop}
    {L : List Int → List Pair} (l : Lx) (hS : TableSpec m V L)
    (hmode : modes[l.sm.mode.getD 0]? = some m)
    (hstate : l.sm.state = 0) (start : Option Nat) (n : Nat) (t : Int)
    (hlab : L ((l.rest inp).take (scanLen m 0 (l.rest inp))) = [(3, t)]) :
    readToken modes inp (scanLen m 0 (l.rest inp) + (n + 1)) start l =
      some (some (.tok t (start.getD l.offset) (l.advance inp (scanLen m 0 (l.rest inp))).offset),
        { l.advance inp (scanLen m 0 (l.rest inp)) with
          sm := { l.sm with token := t, mode := some (l.sm.mode.getD 0), state := 0 } }) := by
  obtain ⟨_, _, q', _, _, hread⟩ := munch_driver_gen modes inp m l hS hmode hstate start n
  rw [hread, hlab]
  simp [runPairs, tokBody]

/-- No rule matches the longest viable prefix `p`: the call returns an ERROR token starting at the
start offset and carrying the first rune that could not be consumed – provided that rune is not
end-of-input, or `p` is non-empty and the table is `startClean` (otherwise `PushRune` reports
`EOF`, see `munch_eof`). -/
theorem munch_error_gen (modes : Array Mode) (inp : Input) (m : Mode) {V : List Int → Prop}
    {L : List Int → List Pair} (l : Lx) (hS : TableSpec m V L)
    (hmode : modes[l.sm.mode.getD 0]? = some m)
    (hstate : l.sm.state = 0) (start : Option Nat) (n : Nat)
    (hlab : L ((l.rest inp).take (scanLen m 0 (l.rest inp))) = [])
    (hne : (l.advance inp (scanLen m 0 (l.rest inp))).char inp ≠ -1 ∨
      (startClean m = true ∧ (l.rest inp).take (scanLen m 0 (l.rest inp)) ≠ [])) :
    ∃ l', readToken modes inp (scanLen m 0 (l.rest inp) + (n + 1)) start l =
      some (some (.err (start.getD l.offset)
        ((l.advance inp (scanLen m 0 (l.rest inp))).char inp)), l') := by
  obtain ⟨_, _, q', _, hq0, hread⟩ := munch_driver_gen modes inp m l hS hmode hstate start n
  rw [hread, hlab]
  have hcond : ¬ ((q' : Int) = 0 ∧ (l.advance inp (scanLen m 0 (l.rest inp))).char inp = -1) := by
    rintro ⟨h0, hc⟩
    rcases hne with h | ⟨hsc, hp⟩
    · exact h hc
    · exact hq0 hsc hp (by omega)
  simp only [runPairs, hcond, ↓reduceIte, tokBody]
  exact ⟨_, rfl⟩

/-- At end of input, between tokens, with a `startClean` table: EOF. -/
theorem munch_eof_gen (modes : Array Mode) (inp : Input) (m : Mode) {V : List Int → Prop}
    {L : List Int → List Pair} (l : Lx) (hS : TableSpec m V L)
    (hmode : modes[l.sm.mode.getD 0]? = some m)
    (hstate : l.sm.state = 0) (start : Option Nat) (n : Nat) (hend : l.rest inp = [])
    (hsc : startClean m = true) :
    readToken modes inp (n + 1) start l =
      some (some (.eof (start.getD l.offset)),
        { l with sm := { l.sm with mode := some (l.sm.mode.getD 0) } }) := by
  have hwf := hS.wf
  rw [readToken_eq_tokBody, pushRune_step modes l.sm m 0 _ hwf hmode (by simpa using hstate)
    (wfTable_nStates hwf), rest_nil hend, tableStep_outside hwf (wfTable_nStates hwf) (.inl (by omega))]
  simp only [(startClean_spec hwf hsc).1, runPairs, hstate, and_self, ↓reduceIte, tokBody]

/-! ### Greedy modes -/

theorem munch_driver (modes : Array Mode) (inp : Input) (m : Mode) (rules : List Rule) (l : Lx)
    (hC : ∃ R, Closed rules m R) (hmode : modes[l.sm.mode.getD 0]? = some m)
    (hstate : l.sm.state = 0) (start : Option Nat) (n : Nat) :
    viable rules ((l.rest inp).take (scanLen m 0 (l.rest inp))) ∧
    (∀ j, scanLen m 0 (l.rest inp) < j → j ≤ (l.rest inp).length →
      ¬ viable rules ((l.rest inp).take j)) ∧
    ∃ q', tableRunFrom m 0 ((l.rest inp).take (scanLen m 0 (l.rest inp))) = some q' ∧
      (startClean m = true → (l.rest inp).take (scanLen m 0 (l.rest inp)) ≠ [] → q' ≠ 0) ∧
      readToken modes inp (scanLen m 0 (l.rest inp) + (n + 1)) start l =
        tokBody modes inp n (start.getD l.offset) (l.advance inp (scanLen m 0 (l.rest inp)))
          (runPairs modes ((l.advance inp (scanLen m 0 (l.rest inp))).char inp)
            (label rules ((l.rest inp).take (scanLen m 0 (l.rest inp))))
            { l.sm with mode := some (l.sm.mode.getD 0), state := (q' : Int) }) := by
  obtain ⟨R, hC⟩ := hC
  exact munch_driver_gen modes inp m l (tableSpec_of_closed hC) hmode hstate start n

theorem munch_token (modes : Array Mode) (inp : Input) (m : Mode) (rules : List Rule) (l : Lx)
    (hC : ∃ R, Closed rules m R) (hmode : modes[l.sm.mode.getD 0]? = some m)
    (hstate : l.sm.state = 0) (start : Option Nat) (n : Nat) (t : Int)
    (hlab : label rules ((l.rest inp).take (scanLen m 0 (l.rest inp))) = [(3, t)]) :
    readToken modes inp (scanLen m 0 (l.rest inp) + (n + 1)) start l =
      some (some (.tok t (start.getD l.offset) (l.advance inp (scanLen m 0 (l.rest inp))).offset),
        { l.advance inp (scanLen m 0 (l.rest inp)) with
          sm := { l.sm with token := t, mode := some (l.sm.mode.getD 0), state := 0 } }) := by
  obtain ⟨R, hC⟩ := hC
  exact munch_token_gen modes inp m l (tableSpec_of_closed hC) hmode hstate start n t hlab

theorem munch_error (modes : Array Mode) (inp : Input) (m : Mode) (rules : List Rule) (l : Lx)
    (hC : ∃ R, Closed rules m R) (hmode : modes[l.sm.mode.getD 0]? = some m)
    (hstate : l.sm.state = 0) (start : Option Nat) (n : Nat)
    (hlab : label rules ((l.rest inp).take (scanLen m 0 (l.rest inp))) = [])
    (hne : (l.advance inp (scanLen m 0 (l.rest inp))).char inp ≠ -1 ∨
      (startClean m = true ∧ (l.rest inp).take (scanLen m 0 (l.rest inp)) ≠ [])) :
    ∃ l', readToken modes inp (scanLen m 0 (l.rest inp) + (n + 1)) start l =
      some (some (.err (start.getD l.offset)
        ((l.advance inp (scanLen m 0 (l.rest inp))).char inp)), l') := by
  obtain ⟨R, hC⟩ := hC
  exact munch_error_gen modes inp m l (tableSpec_of_closed hC) hmode hstate start n hlab hne

theorem munch_eof (modes : Array Mode) (inp : Input) (m : Mode) (rules : List Rule) (l : Lx)
    (hC : ∃ R, Closed rules m R) (hmode : modes[l.sm.mode.getD 0]? = some m)
    (hstate : l.sm.state = 0) (start : Option Nat) (n : Nat) (hend : l.rest inp = [])
    (hsc : startClean m = true) :
    readToken modes inp (n + 1) start l =
      some (some (.eof (start.getD l.offset)),
        { l with sm := { l.sm with mode := some (l.sm.mode.getD 0) } }) := by
  obtain ⟨R, hC⟩ := hC
  exact munch_eof_gen modes inp m l (tableSpec_of_closed hC) hmode hstate start n hend hsc

end Lox.Lex
