import Lox.Lex.GenNFAProofs
/-! Soundness of the Thompson construction: every path through a fragment spells a word of the
expression (continuation form, so that it composes). -/
namespace Lox.Lex.Gen
open Lox.Rang3 (Range)

theorem litEdges_sound (E : List Edge) : ∀ (cps : List Int) (p : Nat),
    (∀ ed ∈ E, p ≤ ed.src → ed.src < p + cps.length → ed ∈ litEdges cps p) →
    ∀ k w q, PathN E k p w q → (q < p ∨ p + cps.length ≤ q) →
    ∃ v k', k' ≤ k ∧ w = cps ++ v ∧ PathN E k' (p + cps.length) v q := by
  intro cps
  induction cps with
  | nil => intro p _ k w q hp _; exact ⟨w, k, Nat.le_refl k, rfl, by simpa using hp⟩
  | cons c cs ih =>
    intro p own k w q hp hq
    simp only [List.length_cons] at own hq ⊢
    have hne : p ≠ q := by omega
    obtain ⟨k', rfl, h⟩ := hp.first hne
    have honly : ∀ ed ∈ E, ed.src = p → ed = ⟨p, some ⟨c, c⟩, p + 1⟩ := by
      intro ed hed hs
      have := own ed hed (by omega) (by omega)
      simp only [litEdges, List.mem_cons] at this
      rcases this with h | h
      · exact h
      · have := litEdges_wf cs (p + 1) ed h; omega
    have own' : ∀ ed ∈ E, p + 1 ≤ ed.src → ed.src < p + 1 + cs.length →
        ed ∈ litEdges cs (p + 1) := by
      intro ed hed h1 h2
      have := own ed hed (by omega) (by omega)
      simp only [litEdges, List.mem_cons] at this
      rcases this with h | h
      · subst h; simp only at h1; omega
      · exact h
    rcases h with ⟨p', he, hp'⟩ | ⟨p', rg, c', w', he, h1, h2, rfl, hp'⟩
    · have := honly _ he rfl
      simp only [Edge.mk.injEq, reduceCtorEq, false_and, and_false] at this
    · have := honly _ he rfl
      simp only [Edge.mk.injEq, Option.some.injEq, true_and] at this
      obtain ⟨hrg, hp1⟩ := this
      subst hrg hp1
      have hc : c' = c := by simp only at h1 h2; omega
      subst hc
      obtain ⟨v, k2, hk2, hw, hpath⟩ := ih (p + 1) own' k' w' q hp' (by omega)
      refine ⟨v, k2, by omega, by simp [hw], ?_⟩
      rw [show p + (cs.length + 1) = p + 1 + cs.length by omega]; exact hpath

theorem clsEdges_inv : ∀ (cs : Cls) (b e p : Nat) (ed : Edge), ed ∈ clsEdges cs b e p →
    ∃ i r, cs[i]? = some r ∧
      (ed = ⟨p + 2 * i, some ⟨r.1, r.2⟩, p + 2 * i + 1⟩ ∨ ed = ⟨b, none, p + 2 * i⟩ ∨
        ed = ⟨p + 2 * i + 1, none, e⟩) := by
  intro cs
  induction cs with
  | nil => intro b e p ed h; simp [clsEdges] at h
  | cons r0 cs ih =>
    intro b e p ed h
    simp only [clsEdges, List.mem_cons] at h
    rcases h with rfl | rfl | rfl | h
    · exact ⟨0, r0, by simp, Or.inl rfl⟩
    · exact ⟨0, r0, by simp, Or.inr (Or.inl rfl)⟩
    · exact ⟨0, r0, by simp, Or.inr (Or.inr rfl)⟩
    · obtain ⟨i, r, hi, h⟩ := ih b e (p + 2) ed h
      refine ⟨i + 1, r, by simpa using hi, ?_⟩
      rw [show p + 2 * (i + 1) = p + 2 + 2 * i by omega]
      exact h

theorem cls_sound (E : List Edge) (cs : Cls) (n : Nat)
    (own : ∀ ed ∈ E, n ≤ ed.src → ed.src < n + 2 + 2 * cs.length → ed.src ≠ n + 1 →
      ed ∈ clsEdges cs n (n + 1) (n + 2)) :
    ∀ k w q, PathN E k n w q → (q < n ∨ n + 2 + 2 * cs.length ≤ q ∨ q = n + 1) →
    ∃ u v k', k' ≤ k ∧ w = u ++ v ∧ Matches (.cls cs) u ∧ PathN E k' (n + 1) v q := by
  intro k w q hp hq
  have inv : ∀ ed ∈ E, n ≤ ed.src → ed.src < n + 2 + 2 * cs.length → ed.src ≠ n + 1 →
      ∃ i r, cs[i]? = some r ∧ i < cs.length ∧
      (ed = ⟨n + 2 + 2 * i, some ⟨r.1, r.2⟩, n + 2 + 2 * i + 1⟩ ∨ ed = ⟨n, none, n + 2 + 2 * i⟩ ∨
        ed = ⟨n + 2 + 2 * i + 1, none, n + 1⟩) := by
    intro ed hed h1 h2 h3
    obtain ⟨i, r, hi, h⟩ := clsEdges_inv cs n (n + 1) (n + 2) ed (own ed hed h1 h2 h3)
    have hlt : i < cs.length := by
      rcases Nat.lt_or_ge i cs.length with h | h
      · exact h
      · rw [List.getElem?_eq_none h] at hi; cases hi
    exact ⟨i, r, hi, hlt, h⟩
  have hsimp1 : ∀ {a : Nat} {l : Range} {b a' b' : Nat},
      ¬ ((⟨a, some l, b⟩ : Edge) = ⟨a', none, b'⟩) := by
    intro a l b a' b' h; cases h
  have hsimp2 : ∀ {a : Nat} {l : Range} {b a' b' : Nat},
      ¬ ((⟨a', none, b'⟩ : Edge) = ⟨a, some l, b⟩) := by
    intro a l b a' b' h; cases h
  -- step 1: B -ε-> rb
  obtain ⟨k1, rfl, h⟩ := hp.first (by omega)
  rcases h with ⟨p1, he1, hp1⟩ | ⟨p1, rg, c, w', he1, _, _, _, _⟩
  · obtain ⟨i, r, hi, hlt, h | h | h⟩ := inv _ he1 (by simp) (by simp only; omega) (by simp)
    · exact absurd h hsimp2
    · simp only [Edge.mk.injEq, true_and] at h
      subst h
      -- step 2: rb -r-> re
      obtain ⟨k2, rfl, h⟩ := hp1.first (by omega)
      rcases h with ⟨p2, he2, _⟩ | ⟨p2, rg, c, w', he2, hc1, hc2, rfl, hp2⟩
      · obtain ⟨j, r', _, _, h | h | h⟩ := inv _ he2 (by simp only; omega) (by simp only; omega)
          (by simp only; omega)
        · exact absurd h hsimp2
        · simp only [Edge.mk.injEq] at h; omega
        · simp only [Edge.mk.injEq] at h; omega
      · obtain ⟨j, r', hj, _, h | h | h⟩ := inv _ he2 (by simp only; omega) (by simp only; omega)
          (by simp only; omega)
        · simp only [Edge.mk.injEq, Option.some.injEq] at h
          obtain ⟨hij, hrg, hp2e⟩ := h
          have : j = i := by omega
          subst this
          rw [hi] at hj
          cases hj
          subst hrg hp2e
          -- step 3: re -ε-> E
          obtain ⟨k3, rfl, h⟩ := hp2.first (by omega)
          rcases h with ⟨p3, he3, hp3⟩ | ⟨p3, rg, c', w'', he3, _, _, _, _⟩
          · obtain ⟨j, r', _, _, h | h | h⟩ := inv _ he3 (by simp only; omega)
              (by simp only; omega) (by simp only; omega)
            · exact absurd h hsimp2
            · simp only [Edge.mk.injEq] at h; omega
            · simp only [Edge.mk.injEq, true_and] at h
              obtain ⟨_, hp3e⟩ := h
              subst hp3e
              refine ⟨[c], w', k3, by omega, rfl, ?_, hp3⟩
              exact .cls ((inCls_iff cs c).2 ⟨r, List.mem_of_getElem? hi, hc1, hc2⟩)
          · obtain ⟨j, r', _, _, h | h | h⟩ := inv _ he3 (by simp only; omega)
              (by simp only; omega) (by simp only; omega)
            · simp only [Edge.mk.injEq] at h; omega
            · exact absurd h hsimp1
            · exact absurd h hsimp1
        · exact absurd h hsimp1
        · exact absurd h hsimp1
    · simp only [Edge.mk.injEq] at h; omega
  · obtain ⟨i, r, _, _, h | h | h⟩ := inv _ he1 (by simp) (by simp only; omega) (by simp)
    · simp only [Edge.mk.injEq] at h; omega
    · exact absurd h hsimp1
    · exact absurd h hsimp1



/-- An edge of the remaining factors whose source is `B` (allocated before them) is one of the
`B -ε->` edges. -/
theorem thAlts_src_b : ∀ (a : Alts) (b e n : Nat), b < n → ∀ ed ∈ (thAlts a b e n).edges,
    ed.src = b → ed.lbl = none ∧ (⟨b, none, ed.dst⟩ : Edge) ∈ (thAlts a b e n).edges
  | .last r, b, e, n, hb, ed, hmem, hs => by
    have wf := th_wf r n
    have := wf.he
    simp only [thAlts, List.mem_append, List.mem_cons, List.not_mem_nil, or_false] at hmem ⊢
    rcases hmem with h | h | h
    · have := wf.edges ed h; omega
    · subst h; exact ⟨rfl, Or.inr (Or.inl rfl)⟩
    · subst h; simp only at hs; omega
  | .more r rest, b, e, n, hb, ed, hmem, hs => by
    have wf := th_wf r n
    have := wf.he; have := wf.hb
    simp only [thAlts, List.mem_append, List.mem_cons, List.not_mem_nil, or_false] at hmem ⊢
    rcases hmem with (h | h | h) | h
    · have := wf.edges ed h; omega
    · subst h; exact ⟨rfl, Or.inl (Or.inr (Or.inl rfl))⟩
    · subst h; simp only at hs; omega
    · have := thAlts_src_b rest b e (th r n).next (by omega) ed h hs
      exact ⟨this.1, Or.inr this.2⟩

/-- First step out of a state all of whose outgoing edges are ε edges with targets in `P`. -/
theorem PathN.first_eps {E : List Edge} {k p w q} (h : PathN E k p w q) (hne : p ≠ q)
    (P : Nat → Prop) (honly : ∀ ed ∈ E, ed.src = p → ed.lbl = none ∧ P ed.dst) :
    ∃ k' t, k = k' + 1 ∧ P t ∧ PathN E k' t w q := by
  obtain ⟨k', rfl, h2⟩ := PathN.first h hne
  rcases h2 with ⟨p', he, hp'⟩ | ⟨p', rg, c, w', he, _, _, _, _⟩
  · exact ⟨k', p', rfl, (honly _ he rfl).2, hp'⟩
  · have := (honly _ he rfl).1
    cases this

/-- The loop shared by `*` and `+`: from the entry of the body, any path to an outside state `q`
spells a word of `body*` and then continues from the exit `ex`. -/
theorem loop_sound (E : List Edge) (fb fe ex q : Nat) (re : Re) (ng : Bool)
    (hsub : ∀ k w, PathN E k fb w q → ∃ u v k', k' ≤ k ∧ w = u ++ v ∧ Matches re u ∧
      PathN E k' fe v q)
    (hfe : ∀ ed ∈ E, ed.src = fe → ed.lbl = none ∧ (ed.dst = fb ∨ ed.dst = ex))
    (hne : fe ≠ q) :
    ∀ N k w, k ≤ N → PathN E k fb w q →
      ∃ u v k', k' < k ∧ w = u ++ v ∧ Matches (.star ng re) u ∧ PathN E k' ex v q := by
  intro N
  induction N with
  | zero =>
    intro k w hk hp
    obtain ⟨u1, v1, k1, hk1, rfl, hm1, hp1⟩ := hsub k w hp
    obtain ⟨k2, t, rfl, _, _⟩ := hp1.first_eps hne (fun t => t = fb ∨ t = ex) hfe
    omega
  | succ N ih =>
    intro k w hk hp
    obtain ⟨u1, v1, k1, hk1, rfl, hm1, hp1⟩ := hsub k w hp
    obtain ⟨k2, t, rfl, ht, hp2⟩ := hp1.first_eps hne (fun t => t = fb ∨ t = ex) hfe
    rcases ht with rfl | rfl
    · obtain ⟨u2, v2, k3, hk3, rfl, hm2, hp3⟩ := ih k2 v1 (by omega) hp2
      exact ⟨u1 ++ u2, v2, k3, by omega, by simp, matches_star_append hm1 hm2, hp3⟩
    · exact ⟨u1, v1, k2, by omega, rfl, matches_star_one hm1, hp2⟩

mutual
theorem th_sound : ∀ (r : Rx) (n : Nat) (E : List Edge),
    (∀ ed ∈ E, n ≤ ed.src → ed.src < (th r n).next → ed.src ≠ (th r n).e → ed ∈ (th r n).edges) →
    ∀ k w q, PathN E k (th r n).b w q → (q < n ∨ (th r n).next ≤ q ∨ q = (th r n).e) →
    ∃ u v k', k' ≤ k ∧ w = u ++ v ∧ Matches r.toRe u ∧ PathN E k' (th r n).e v q
  | .lit cps, n, E, own, k, w, q, hp, hq => by
    simp only [th] at own hp hq ⊢
    obtain ⟨v, k', hk, hw, hp'⟩ := litEdges_sound E cps n
      (fun ed hed h1 h2 => own ed hed h1 (by omega) (by omega)) k w q hp (by omega)
    exact ⟨cps, v, k', hk, hw, (matches_lit cps cps).2 rfl, hp'⟩
  | .cls cs, n, E, own, k, w, q, hp, hq => by
    simp only [th] at own hp hq ⊢
    exact cls_sound E cs n own k w q hp hq
  | .seq r s, n, E, own, k, w, q, hp, hq => by
    have wf := th_wf r n
    have wg := th_wf s (th r n).next
    have := wf.hb; have := wf.he; have := wg.hb; have := wg.he
    simp only [th] at own hp hq ⊢
    have ownf : ∀ ed ∈ E, n ≤ ed.src → ed.src < (th r n).next → ed.src ≠ (th r n).e →
        ed ∈ (th r n).edges := by
      intro ed hed h1 h2 h3
      have := own ed hed h1 (by omega) (by omega)
      simp only [List.mem_append, List.mem_singleton] at this
      rcases this with (h | h) | h
      · exact h
      · have := wg.edges ed h; omega
      · subst h; exact absurd rfl h3
    have owng : ∀ ed ∈ E, (th r n).next ≤ ed.src → ed.src < (th s (th r n).next).next →
        ed.src ≠ (th s (th r n).next).e → ed ∈ (th s (th r n).next).edges := by
      intro ed hed h1 h2 h3
      have := own ed hed (by omega) h2 h3
      simp only [List.mem_append, List.mem_singleton] at this
      rcases this with (h | h) | h
      · have := wf.edges ed h; omega
      · exact h
      · subst h; simp only at h1; omega
    have hfe : ∀ ed ∈ E, ed.src = (th r n).e →
        ed.lbl = none ∧ ed.dst = (th s (th r n).next).b := by
      intro ed hed hs
      have := own ed hed (by omega) (by omega) (by omega)
      simp only [List.mem_append, List.mem_singleton] at this
      rcases this with (h | h) | h
      · have := wf.edges ed h; omega
      · have := wg.edges ed h; omega
      · subst h; exact ⟨rfl, rfl⟩
    obtain ⟨u1, v1, k1, hk1, rfl, hm1, hp1⟩ := th_sound r n E ownf k w q hp (by omega)
    obtain ⟨k2, t, rfl, rfl, hp2⟩ := hp1.first_eps (by omega)
            (fun t => t = (th s (th r n).next).b) hfe
    obtain ⟨u2, v2, k3, hk3, rfl, hm2, hp3⟩ := th_sound s _ E owng k2 v1 q hp2 (by omega)
    exact ⟨u1 ++ u2, v2, k3, by omega, by simp, .seq hm1 hm2, hp3⟩
  | .alt r rest, n, E, own, k, w, q, hp, hq => by
    have wf := th_wf r (n + 2)
    have wg := thAlts_wf rest n (n + 1) (th r (n + 2)).next
    have := wf.hb; have := wf.he; have := wg.hn
    simp only [th] at own hp hq ⊢
    have ownf : ∀ ed ∈ E, n + 2 ≤ ed.src → ed.src < (th r (n + 2)).next →
        ed.src ≠ (th r (n + 2)).e → ed ∈ (th r (n + 2)).edges := by
      intro ed hed h1 h2 h3
      have := own ed hed (by omega) (by omega) (by omega)
      simp only [List.mem_append, List.mem_cons, List.not_mem_nil, or_false] at this
      rcases this with (h | h | h) | h
      · exact h
      · subst h; simp only at h1; omega
      · subst h; exact absurd rfl h3
      · have := wg.edges ed h; omega
    have owng : ∀ ed ∈ E, (th r (n + 2)).next ≤ ed.src →
        ed.src < (thAlts rest n (n + 1) (th r (n + 2)).next).next →
        ed ∈ (thAlts rest n (n + 1) (th r (n + 2)).next).edges := by
      intro ed hed h1 h2
      have := own ed hed (by omega) h2 (by omega)
      simp only [List.mem_append, List.mem_cons, List.not_mem_nil, or_false] at this
      rcases this with (h | h | h) | h
      · have := wf.edges ed h; omega
      · subst h; simp only at h1; omega
      · subst h; simp only at h1; omega
      · exact h
    have hB : ∀ ed ∈ E, ed.src = n → ed.lbl = none ∧ (ed.dst = (th r (n + 2)).b ∨
        (⟨n, none, ed.dst⟩ : Edge) ∈ (thAlts rest n (n + 1) (th r (n + 2)).next).edges) := by
      intro ed hed hs
      have := own ed hed (by omega) (by omega) (by omega)
      simp only [List.mem_append, List.mem_cons, List.not_mem_nil, or_false] at this
      rcases this with (h | h | h) | h
      · have := wf.edges ed h; omega
      · subst h; exact ⟨rfl, Or.inl rfl⟩
      · subst h; simp only at hs; omega
      · have h2 := (wg.edges ed h).1
        -- an edge of the remaining factors that starts in B is one of the `B -ε->` edges
        have hl : ed.lbl = none ∧ (⟨n, none, ed.dst⟩ : Edge) ∈
            (thAlts rest n (n + 1) (th r (n + 2)).next).edges :=
          thAlts_src_b rest n (n + 1) (th r (n + 2)).next (by omega) ed h hs
        exact ⟨hl.1, Or.inr hl.2⟩
    have hfe : ∀ ed ∈ E, ed.src = (th r (n + 2)).e → ed.lbl = none ∧ ed.dst = n + 1 := by
      intro ed hed hs
      have := own ed hed (by omega) (by omega) (by omega)
      simp only [List.mem_append, List.mem_cons, List.not_mem_nil, or_false] at this
      rcases this with (h | h | h) | h
      · have := wf.edges ed h; omega
      · subst h; simp only at hs; omega
      · subst h; exact ⟨rfl, rfl⟩
      · have := wg.edges ed h; omega
    obtain ⟨k1, t, rfl, ht, hp1⟩ := hp.first_eps (by omega)
            (fun t => t = (th r (n + 2)).b ∨ (⟨n, none, t⟩ : Edge) ∈ (thAlts rest n (n + 1) (th r (n + 2)).next).edges) hB
    rcases ht with rfl | ht
    · obtain ⟨u1, v1, k2, hk2, rfl, hm1, hp2⟩ := th_sound r (n + 2) E ownf k1 w q hp1 (by omega)
      obtain ⟨k3, t, rfl, rfl, hp3⟩ := hp2.first_eps (by omega)
            (fun t => t = n + 1) hfe
      exact ⟨u1, v1, k3, by omega, rfl, .altl hm1, hp3⟩
    · obtain ⟨u, v, k2, hk2, rfl, hm, hp2⟩ := thAlts_sound rest n (n + 1) (th r (n + 2)).next E
        (by omega) (by omega) owng t ht k1 w q hp1 (by omega)
      exact ⟨u, v, k2, by omega, rfl, .altr hm, hp2⟩
  | .opt r, n, E, own, k, w, q, hp, hq => by
    have wf := th_wf r n
    have := wf.hb; have := wf.he
    simp only [th] at own hp hq ⊢
    have ownf : ∀ ed ∈ E, n ≤ ed.src → ed.src < (th r n).next → ed.src ≠ (th r n).e →
        ed ∈ (th r n).edges := by
      intro ed hed h1 h2 h3
      have := own ed hed h1 (by omega) (by omega)
      simp only [List.mem_append, List.mem_cons, List.not_mem_nil, or_false] at this
      rcases this with h | h | h | h
      · exact h
      · subst h; simp only at h2; omega
      · subst h; simp only at h2; omega
      · subst h; exact absurd rfl h3
    have hB : ∀ ed ∈ E, ed.src = (th r n).next →
        ed.lbl = none ∧ (ed.dst = (th r n).next + 1 ∨ ed.dst = (th r n).b) := by
      intro ed hed hs
      have := own ed hed (by omega) (by omega) (by omega)
      simp only [List.mem_append, List.mem_cons, List.not_mem_nil, or_false] at this
      rcases this with h | h | h | h
      · have := wf.edges ed h; omega
      · subst h; exact ⟨rfl, Or.inl rfl⟩
      · subst h; exact ⟨rfl, Or.inr rfl⟩
      · subst h; exact ⟨rfl, Or.inl rfl⟩
    have hfe : ∀ ed ∈ E, ed.src = (th r n).e → ed.lbl = none ∧ ed.dst = (th r n).next + 1 := by
      intro ed hed hs
      have := own ed hed (by omega) (by omega) (by omega)
      simp only [List.mem_append, List.mem_cons, List.not_mem_nil, or_false] at this
      rcases this with h | h | h | h
      · have := wf.edges ed h; omega
      · subst h; exact ⟨rfl, rfl⟩
      · subst h; simp only at hs; omega
      · subst h; exact ⟨rfl, rfl⟩
    obtain ⟨k1, t, rfl, ht, hp1⟩ := hp.first_eps (by omega)
            (fun t => t = (th r n).next + 1 ∨ t = (th r n).b) hB
    rcases ht with rfl | rfl
    · exact ⟨[], w, k1, by omega, rfl, .altr .eps, hp1⟩
    · obtain ⟨u1, v1, k2, hk2, rfl, hm1, hp2⟩ := th_sound r n E ownf k1 w q hp1 (by omega)
      obtain ⟨k3, t, rfl, rfl, hp3⟩ := hp2.first_eps (by omega)
            (fun t => t = (th r n).next + 1) hfe
      exact ⟨u1, v1, k3, by omega, rfl, .altl hm1, hp3⟩
  | .star ng r, n, E, own, k, w, q, hp, hq => by
    have wf := th_wf r n
    have := wf.hb; have := wf.he
    simp only [th] at own hp hq ⊢
    have ownf : ∀ ed ∈ E, n ≤ ed.src → ed.src < (th r n).next → ed.src ≠ (th r n).e →
        ed ∈ (th r n).edges := by
      intro ed hed h1 h2 h3
      have := own ed hed h1 (by omega) (by omega)
      simp only [List.mem_append, List.mem_cons, List.not_mem_nil, or_false] at this
      rcases this with h | h | h | h | h
      · exact h
      · subst h; simp only at h2; omega
      · subst h; simp only at h2; omega
      · subst h; exact absurd rfl h3
      · subst h; exact absurd rfl h3
    have hB : ∀ ed ∈ E, ed.src = (th r n).next →
        ed.lbl = none ∧ (ed.dst = (th r n).next + 1 ∨ ed.dst = (th r n).b) := by
      intro ed hed hs
      have := own ed hed (by omega) (by omega) (by omega)
      simp only [List.mem_append, List.mem_cons, List.not_mem_nil, or_false] at this
      rcases this with h | h | h | h | h
      · have := wf.edges ed h; omega
      · subst h; exact ⟨rfl, Or.inl rfl⟩
      · subst h; exact ⟨rfl, Or.inr rfl⟩
      · subst h; exact ⟨rfl, Or.inr rfl⟩
      · subst h; exact ⟨rfl, Or.inl rfl⟩
    have hfe : ∀ ed ∈ E, ed.src = (th r n).e →
        ed.lbl = none ∧ (ed.dst = (th r n).b ∨ ed.dst = (th r n).next + 1) := by
      intro ed hed hs
      have := own ed hed (by omega) (by omega) (by omega)
      simp only [List.mem_append, List.mem_cons, List.not_mem_nil, or_false] at this
      rcases this with h | h | h | h | h
      · have := wf.edges ed h; omega
      · subst h; exact ⟨rfl, Or.inr rfl⟩
      · subst h; exact ⟨rfl, Or.inl rfl⟩
      · subst h; exact ⟨rfl, Or.inl rfl⟩
      · subst h; exact ⟨rfl, Or.inr rfl⟩
    obtain ⟨k1, t, rfl, ht, hp1⟩ := hp.first_eps (by omega)
            (fun t => t = (th r n).next + 1 ∨ t = (th r n).b) hB
    rcases ht with rfl | rfl
    · exact ⟨[], w, k1, by omega, rfl, .star_nil, hp1⟩
    · obtain ⟨u, v, k2, hk2, rfl, hm, hp2⟩ := loop_sound E (th r n).b (th r n).e
        ((th r n).next + 1) q r.toRe ng
        (fun k w hp => th_sound r n E ownf k w q hp (by omega)) hfe (by omega) k1 k1 w
        (Nat.le_refl _) hp1
      exact ⟨u, v, k2, by omega, rfl, hm, hp2⟩
  | .plus ng r, n, E, own, k, w, q, hp, hq => by
    have wf := th_wf r n
    have := wf.hb; have := wf.he
    simp only [th] at own hp hq ⊢
    have ownf : ∀ ed ∈ E, n ≤ ed.src → ed.src < (th r n).next → ed.src ≠ (th r n).e →
        ed ∈ (th r n).edges := by
      intro ed hed h1 h2 h3
      have := own ed hed h1 (by omega) (by omega)
      simp only [List.mem_append, List.mem_cons, List.not_mem_nil, or_false] at this
      rcases this with h | h | h | h
      · exact h
      · subst h; simp only at h2; omega
      · subst h; exact absurd rfl h3
      · subst h; exact absurd rfl h3
    have hB : ∀ ed ∈ E, ed.src = (th r n).next → ed.lbl = none ∧ ed.dst = (th r n).b := by
      intro ed hed hs
      have := own ed hed (by omega) (by omega) (by omega)
      simp only [List.mem_append, List.mem_cons, List.not_mem_nil, or_false] at this
      rcases this with h | h | h | h
      · have := wf.edges ed h; omega
      · subst h; exact ⟨rfl, rfl⟩
      · subst h; exact ⟨rfl, rfl⟩
      · subst h; simp only at hs; omega
    have hfe : ∀ ed ∈ E, ed.src = (th r n).e →
        ed.lbl = none ∧ (ed.dst = (th r n).b ∨ ed.dst = (th r n).next + 1) := by
      intro ed hed hs
      have := own ed hed (by omega) (by omega) (by omega)
      simp only [List.mem_append, List.mem_cons, List.not_mem_nil, or_false] at this
      rcases this with h | h | h | h
      · have := wf.edges ed h; omega
      · subst h; exact ⟨rfl, Or.inl rfl⟩
      · subst h; exact ⟨rfl, Or.inl rfl⟩
      · subst h; exact ⟨rfl, Or.inr rfl⟩
    obtain ⟨k1, t, rfl, rfl, hp1⟩ := hp.first_eps (by omega)
            (fun t => t = (th r n).b) hB
    obtain ⟨u1, v1, k2, hk2, rfl, hm1, hp2⟩ := th_sound r n E ownf k1 w q hp1 (by omega)
    obtain ⟨k3, t, rfl, ht, hp3⟩ := hp2.first_eps (by omega)
            (fun t => t = (th r n).b ∨ t = (th r n).next + 1) hfe
    rcases ht with rfl | rfl
    · obtain ⟨u, v, k4, hk4, rfl, hm, hp4⟩ := loop_sound E (th r n).b (th r n).e
        ((th r n).next + 1) q r.toRe ng
        (fun k w hp => th_sound r n E ownf k w q hp (by omega)) hfe (by omega) k3 k3 v1
        (Nat.le_refl _) hp3
      exact ⟨u1 ++ u, v, k4, by omega, by simp, .seq hm1 hm, hp4⟩
    · refine ⟨u1, v1, k3, by omega, rfl, ?_, hp3⟩
      have : Matches (Re.seq r.toRe (Re.star ng r.toRe)) (u1 ++ []) := .seq hm1 .star_nil
      simpa [Rx.toRe, Re.plus] using this
theorem thAlts_sound : ∀ (a : Alts) (b e n : Nat) (E : List Edge), b < n → e < n →
    (∀ ed ∈ E, n ≤ ed.src → ed.src < (thAlts a b e n).next → ed ∈ (thAlts a b e n).edges) →
    ∀ p, (⟨b, none, p⟩ : Edge) ∈ (thAlts a b e n).edges →
    ∀ k w q, PathN E k p w q → (q < n ∨ (thAlts a b e n).next ≤ q) →
    ∃ u v k', k' < k ∧ w = u ++ v ∧ Matches a.toRe u ∧ PathN E k' e v q
  | .last r, b, e, n, E, hb, he, own, p, hmem, k, w, q, hp, hq => by
    have wf := th_wf r n
    have := wf.hb; have := wf.he
    simp only [thAlts] at own hmem hq ⊢
    have hpb : p = (th r n).b := by
      simp only [List.mem_append, List.mem_cons, List.not_mem_nil, or_false] at hmem
      rcases hmem with h | h | h
      · have := wf.edges _ h; simp only at this; omega
      · simp only [Edge.mk.injEq, true_and] at h; exact h
      · simp only [Edge.mk.injEq] at h; omega
    subst hpb
    have ownf : ∀ ed ∈ E, n ≤ ed.src → ed.src < (th r n).next → ed.src ≠ (th r n).e →
        ed ∈ (th r n).edges := by
      intro ed hed h1 h2 h3
      have := own ed hed h1 h2
      simp only [List.mem_append, List.mem_cons, List.not_mem_nil, or_false] at this
      rcases this with h | h | h
      · exact h
      · subst h; simp only at h1; omega
      · subst h; exact absurd rfl h3
    have hfe : ∀ ed ∈ E, ed.src = (th r n).e → ed.lbl = none ∧ ed.dst = e := by
      intro ed hed hs
      have := own ed hed (by omega) (by omega)
      simp only [List.mem_append, List.mem_cons, List.not_mem_nil, or_false] at this
      rcases this with h | h | h
      · have := wf.edges ed h; omega
      · subst h; simp only at hs; omega
      · subst h; exact ⟨rfl, rfl⟩
    obtain ⟨u1, v1, k2, hk2, rfl, hm1, hp2⟩ := th_sound r n E ownf k w q hp (by omega)
    obtain ⟨k3, t, rfl, rfl, hp3⟩ := hp2.first_eps (by omega)
            (fun t => t = e) hfe
    exact ⟨u1, v1, k3, by omega, rfl, hm1, hp3⟩
  | .more r rest, b, e, n, E, hb, he, own, p, hmem, k, w, q, hp, hq => by
    have wf := th_wf r n
    have wg := thAlts_wf rest b e (th r n).next
    have := wf.hb; have := wf.he; have := wg.hn
    simp only [thAlts] at own hmem hq ⊢
    have ownf : ∀ ed ∈ E, n ≤ ed.src → ed.src < (th r n).next → ed.src ≠ (th r n).e →
        ed ∈ (th r n).edges := by
      intro ed hed h1 h2 h3
      have := own ed hed h1 (by omega)
      simp only [List.mem_append, List.mem_cons, List.not_mem_nil, or_false] at this
      rcases this with (h | h | h) | h
      · exact h
      · subst h; simp only at h1; omega
      · subst h; exact absurd rfl h3
      · have := wg.edges ed h; omega
    have owng : ∀ ed ∈ E, (th r n).next ≤ ed.src →
        ed.src < (thAlts rest b e (th r n).next).next →
        ed ∈ (thAlts rest b e (th r n).next).edges := by
      intro ed hed h1 h2
      have := own ed hed (by omega) h2
      simp only [List.mem_append, List.mem_cons, List.not_mem_nil, or_false] at this
      rcases this with (h | h | h) | h
      · have := wf.edges ed h; omega
      · subst h; simp only at h1; omega
      · subst h; simp only at h1; omega
      · exact h
    have hfe : ∀ ed ∈ E, ed.src = (th r n).e → ed.lbl = none ∧ ed.dst = e := by
      intro ed hed hs
      have := own ed hed (by omega) (by omega)
      simp only [List.mem_append, List.mem_cons, List.not_mem_nil, or_false] at this
      rcases this with (h | h | h) | h
      · have := wf.edges ed h; omega
      · subst h; simp only at hs; omega
      · subst h; exact ⟨rfl, rfl⟩
      · have := wg.edges ed h; omega
    simp only [List.mem_append, List.mem_cons, List.not_mem_nil, or_false] at hmem
    rcases hmem with (h | h | h) | h
    · have := wf.edges _ h; simp only at this; omega
    · simp only [Edge.mk.injEq, true_and] at h
      subst h
      obtain ⟨u1, v1, k2, hk2, rfl, hm1, hp2⟩ := th_sound r n E ownf k w q hp (by omega)
      obtain ⟨k3, t, rfl, rfl, hp3⟩ := hp2.first_eps (by omega)
            (fun t => t = e) hfe
      exact ⟨u1, v1, k3, by omega, rfl, .altl hm1, hp3⟩
    · simp only [Edge.mk.injEq] at h; omega
    · obtain ⟨u, v, k2, hk2, rfl, hm, hp2⟩ := thAlts_sound rest b e (th r n).next E
        (by omega) (by omega) owng p h k w q hp (by omega)
      exact ⟨u, v, k2, hk2, rfl, .altr hm, hp2⟩
end


/-! ### The fragment as a whole -/

/-- The exit of a fragment has no outgoing edge inside the fragment. -/
theorem th_exit_stuck (r : Rx) (n : Nat) {k w q} (h : PathN (th r n).edges k (th r n).e w q) :
    q = (th r n).e ∧ w = [] ∧ k = 0 :=
  h.stuck fun ed hed => ((th_wf r n).edges ed hed).2.2.2.2

/-- `NFACons` is correct for every expression and every state of the factory: the words leading
from `B` to `E` inside the fragment are exactly the words of the expression. -/
theorem th_correct (r : Rx) (n : Nat) (w : List Int) :
    Path (th r n).edges (th r n).b w (th r n).e ↔ Matches r.toRe w := by
  constructor
  · rintro ⟨k, hp⟩
    obtain ⟨u, v, k', _, rfl, hm, hp'⟩ := th_sound r n (th r n).edges (fun ed h _ _ _ => h) k w _ hp
      (Or.inr (Or.inr rfl))
    obtain ⟨_, rfl, _⟩ := th_exit_stuck r n hp'
    simpa using hm
  · exact th_complete r n _ (fun _ h => h) w

/-! ### The mode NFA -/

theorem fragsNext_ruleFrags_ge : ∀ (rs : List Rx) (n : Nat), n ≤ fragsNext (ruleFrags rs n) n := by
  intro rs
  induction rs with
  | nil => intro n; exact Nat.le_refl n
  | cons r rs ih =>
    intro n
    simp only [ruleFrags, fragsNext]
    have := ih (th r n).next
    have := (th_wf r n).hb
    omega

/-- Rule `i` of a mode is built at some counter value `m`; its states lie below the final counter,
and all earlier rules lie below `m`. -/
theorem ruleFrags_get : ∀ (rs : List Rx) (n i : Nat) (f : Frag), (ruleFrags rs n)[i]? = some f →
    ∃ r m, rs[i]? = some r ∧ f = th r m ∧ n ≤ m ∧ f.next ≤ fragsNext (ruleFrags rs n) n ∧
      ∀ j g, (ruleFrags rs n)[j]? = some g → j < i → g.next ≤ m := by
  intro rs
  induction rs with
  | nil => intro n i f h; simp [ruleFrags] at h
  | cons r rs ih =>
    intro n i f h
    cases i with
    | zero =>
      simp only [ruleFrags, List.getElem?_cons_zero, Option.some.injEq] at h
      subst h
      refine ⟨r, n, by simp, rfl, Nat.le_refl n, ?_, fun j g _ hj => by omega⟩
      simp only [ruleFrags, fragsNext]
      exact fragsNext_ruleFrags_ge rs _
    | succ i =>
      simp only [ruleFrags, List.getElem?_cons_succ] at h
      obtain ⟨r', m, hr', hf, hm, hS, hprev⟩ := ih (th r n).next i f h
      have := (th_wf r n).hb
      refine ⟨r', m, by simpa using hr', hf, by omega, by simpa [ruleFrags, fragsNext] using hS, ?_⟩
      intro j g hg hj
      cases j with
      | zero =>
        simp only [ruleFrags, List.getElem?_cons_zero, Option.some.injEq] at hg
        subst hg; exact hm
      | succ j =>
        simp only [ruleFrags, List.getElem?_cons_succ] at hg
        exact hprev j g hg (by omega)

theorem ruleFrags_length : ∀ (rs : List Rx) (n : Nat), (ruleFrags rs n).length = rs.length := by
  intro rs
  induction rs with
  | nil => intro n; rfl
  | cons r rs ih => intro n; simp [ruleFrags, ih]

theorem mem_modeNFA_acc (rules : List Rx) (q i : Nat) :
    (q, i) ∈ (modeNFA rules).acc ↔ ∃ f, (ruleFrags rules 0)[i]? = some f ∧ q = f.e := by
  simp only [modeNFA, List.mem_map]
  constructor
  · rintro ⟨⟨f, j⟩, hmem, heq⟩
    simp only [Prod.mk.injEq] at heq
    obtain ⟨rfl, rfl⟩ := heq
    exact ⟨f, List.mem_zipIdx_iff_getElem?.1 hmem, rfl⟩
  · rintro ⟨f, hf, rfl⟩
    exact ⟨(f, i), List.mem_zipIdx_iff_getElem?.2 hf, rfl⟩

/-- The edges of the mode NFA that start inside the state interval of rule `i` are the edges of
the fragment of rule `i`. -/
theorem modeNFA_own (rules : List Rx) (i : Nat) (f : Frag) (r : Rx) (m : Nat)
    (hf : (ruleFrags rules 0)[i]? = some f) (hfr : f = th r m)
    (hprev : ∀ j g, (ruleFrags rules 0)[j]? = some g → j < i → g.next ≤ m)
    (hS : f.next ≤ fragsNext (ruleFrags rules 0) 0) :
    ∀ ed ∈ (modeNFA rules).edges, m ≤ ed.src → ed.src < f.next → ed ∈ f.edges := by
  intro ed hed h1 h2
  simp only [modeNFA, List.mem_append, List.mem_flatMap, List.mem_map] at hed
  rcases hed with ⟨g, hg, hedg⟩ | ⟨g, _, rfl⟩
  · obtain ⟨j, hj⟩ := List.mem_iff_getElem?.1 hg
    obtain ⟨r', m', _, hg', _, _, hprev'⟩ := ruleFrags_get rules 0 j g hj
    subst hg'
    have hsrc := (th_wf r' m').edges ed hedg
    rcases Nat.lt_trichotomy j i with hlt | heq | hgt
    · have := hprev j _ hj hlt
      omega
    · subst heq; rw [hf] at hj; cases hj; exact hedg
    · have := hprev' i f hf hgt
      omega
  · simp only at h2; omega

/-- **The mode NFA labels words by rules exactly**: some path from the start state reads `w` and
ends in the accepting state of rule `i` iff rule `i` exists and matches `w`. -/
theorem modeNFA_label (rules : List Rx) (i : Nat) (w : List Int) :
    (modeNFA rules).AcceptsRule i w ↔ ∃ r, rules[i]? = some r ∧ Matches r.toRe w := by
  constructor
  · rintro ⟨q, ⟨k, hp⟩, hacc⟩
    obtain ⟨f, hf, rfl⟩ := (mem_modeNFA_acc rules _ i).1 hacc
    obtain ⟨r, m, hr, hfr, _, hS, hprev⟩ := ruleFrags_get rules 0 i f hf
    have wf := hfr ▸ th_wf r m
    -- first step: from the start state to the entry of some rule `j`
    have hstart : ∀ ed ∈ (modeNFA rules).edges, ed.src = (modeNFA rules).start →
        ed.lbl = none ∧ ∃ g, g ∈ ruleFrags rules 0 ∧ ed.dst = g.b := by
      intro ed hed hs
      simp only [modeNFA, List.mem_append, List.mem_flatMap, List.mem_map] at hed hs
      rcases hed with ⟨g, hg, hedg⟩ | ⟨g, hg, rfl⟩
      · obtain ⟨j, hj⟩ := List.mem_iff_getElem?.1 hg
        obtain ⟨r', m', _, hg', _, hS', _⟩ := ruleFrags_get rules 0 j g hj
        subst hg'
        have hsrc := (th_wf r' m').edges ed hedg
        omega
      · exact ⟨rfl, g, hg, rfl⟩
    have hne : (modeNFA rules).start ≠ f.e := by
      have := wf.he
      simp only [modeNFA]; omega
    obtain ⟨k1, t, rfl, ⟨g, hg, rfl⟩, hp1⟩ := hp.first_eps hne
      (fun t => ∃ g, g ∈ ruleFrags rules 0 ∧ t = g.b) hstart
    obtain ⟨j, hj⟩ := List.mem_iff_getElem?.1 hg
    obtain ⟨r', m', hr', hg', _, hS', hprev'⟩ := ruleFrags_get rules 0 j g hj
    have wg := hg' ▸ th_wf r' m'
    have ownj := modeNFA_own rules j g r' m' hj hg' hprev' hS'
    have hq : f.e < m' ∨ g.next ≤ f.e ∨ f.e = g.e := by
      rcases Nat.lt_trichotomy j i with hlt | heq | hgt
      · have := hprev j g hj hlt
        have := wf.he; omega
      · subst heq; rw [hf] at hj; cases hj; exact Or.inr (Or.inr rfl)
      · have := hprev' i f hf hgt
        have := wf.he; omega
    subst hg'
    obtain ⟨u, v, k', _, rfl, hm, hp'⟩ := th_sound r' m' _ (fun ed hed h1 h2 _ => ownj ed hed h1 h2)
      k1 w f.e hp1 hq
    -- the exit of rule `j` has no outgoing edge in the mode NFA
    have hstuck := hp'.stuck (by
      intro ed hed hs
      have hin := ownj ed hed (by have := wg.he; omega) (by have := wg.he; omega)
      exact ((th_wf r' m').edges ed hin).2.2.2.2 hs)
    obtain ⟨he, rfl, _⟩ := hstuck
    -- hence `j = i`
    have hji : j = i := by
      rcases Nat.lt_trichotomy j i with hlt | heq | hgt
      · have := hprev j _ hj hlt
        have := wf.he; have := wg.he; omega
      · exact heq
      · have := hprev' i f hf hgt
        have := wf.he; have := wg.he; omega
    subst hji
    rw [hr] at hr'; cases hr'
    exact ⟨r, hr, by simpa using hm⟩
  · rintro ⟨r, hr, hm⟩
    have hi : i < (ruleFrags rules 0).length := by
      rw [ruleFrags_length]
      rcases Nat.lt_or_ge i rules.length with h | h
      · exact h
      · rw [List.getElem?_eq_none h] at hr; cases hr
    have hf : (ruleFrags rules 0)[i]? = some (ruleFrags rules 0)[i] := List.getElem?_eq_getElem hi
    obtain ⟨r', m, hr', hfr, _, _, _⟩ := ruleFrags_get rules 0 i _ hf
    rw [hr] at hr'; cases hr'
    refine ⟨(ruleFrags rules 0)[i].e, ?_, (mem_modeNFA_acc rules _ i).2 ⟨_, hf, rfl⟩⟩
    have hsub : ∀ ed ∈ (th r m).edges, ed ∈ (modeNFA rules).edges := by
      intro ed hed
      simp only [modeNFA, List.mem_append, List.mem_flatMap]
      exact Or.inl ⟨_, List.mem_of_getElem? hf, hfr ▸ hed⟩
    have hp := th_complete r m _ hsub w hm
    have hst : (⟨(modeNFA rules).start, none, (ruleFrags rules 0)[i].b⟩ : Edge) ∈
        (modeNFA rules).edges := by
      simp only [modeNFA, List.mem_append, List.mem_map]
      exact Or.inr ⟨_, List.mem_of_getElem? hf, rfl⟩
    rw [hfr]
    exact Path.eps (hfr ▸ hst) hp

end Lox.Lex.Gen
