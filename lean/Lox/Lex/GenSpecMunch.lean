import Lox.Lex.GenSpecRun
/-! Run-level maximal munch: over a whole run of the driver (`lexAllG`, any input, any fuel), every
time a row fires the state machine has walked, in the table of the current mode, from state 0
along exactly the runes consumed since the last firing (or since the end of the last ERROR
stretch), and has no transition on the next rune (`MunchLog`, `lexAllG_munch`: for every lexer
with well-formed tables). For generated lexers (`genModes`) this says: the consumed text is the
LONGEST viable prefix under the rules of the current mode and the row stores the pairs of the
EARLIEST rule matching it (`fire_matched`). Used by `Lox/Props/C07_e2e.lean`. -/
namespace Lox.Lex.GenSpec
open Lox.Lex Lox.Lex.Rt Lox.Lex.Gen

/-! ### Words of the input -/

/-- The runes `[i, j)` of the input. -/
def runesBetween (inp : Input) (i j : Nat) : List Int :=
  ((inp.toList.drop i).take (j - i)).map (·.1)

/-- Rune number `j`, `-1` at the end of the input (`l.char` of a driver at index `j`). -/
def runeAt (inp : Input) (j : Nat) : Int :=
  match inp[j]? with
  | some (r, _) => r
  | none => -1

theorem runesBetween_self (inp : Input) (i : Nat) : runesBetween inp i i = [] := by
  simp [runesBetween]

theorem runesBetween_succ {inp : Input} {i j : Nat} (hij : i ≤ j) (hj : j < inp.size) :
    runesBetween inp i (j + 1) = runesBetween inp i j ++ [inp[j].1] := by
  unfold runesBetween
  have h1 : j + 1 - i = (j - i) + 1 := by omega
  have hlen : j - i < (inp.toList.drop i).length := by simp; omega
  rw [h1, List.take_succ_eq_append_getElem hlen, List.map_append]
  congr 1
  simp only [List.getElem_drop, List.map_cons, List.map_nil, List.cons.injEq, and_true]
  have : i + (j - i) = j := by omega
  simp [this]

theorem runesBetween_append {inp : Input} {i j k : Nat} (hij : i ≤ j) (hjk : j ≤ k) :
    runesBetween inp i k = runesBetween inp i j ++ runesBetween inp j k := by
  unfold runesBetween
  rw [← List.map_append]
  congr 1
  have h1 : k - i = (j - i) + (k - j) := by omega
  rw [h1, List.take_add]
  congr 2
  rw [List.drop_drop]
  congr 1
  omega

theorem char_eq_runeAt (inp : Input) (l : Lx) : l.char inp = runeAt inp l.idx := rfl

theorem runeAt_lt {inp : Input} {j : Nat} (h : j < inp.size) : runeAt inp j = inp[j].1 := by
  unfold runeAt
  rw [Array.getElem?_eq_getElem h]

/-! ### The log walked with the boundary of the current match -/

/-- The byte offset at which the state machine was last in state 0 with nothing consumed: the
offset of the last row that fired, or the end of the last ERROR stretch. -/
def nextBoundary (bd : Nat) : Ev → Nat
  | .fire _ _ _ _ off => off
  | .seg ⟨.error _, _, stop⟩ => stop
  | _ => bd

def boundaryRun : Nat → List Ev → Nat
  | bd, [] => bd
  | bd, e :: rest => boundaryRun (nextBoundary bd e) rest

/-- What a `fire` event says, `bd` being the boundary before it: the state whose row fired is the
state the table of that mode reaches from state 0 on the runes `[i, j)` – `i` at byte offset `bd`,
`j` at the byte offset of the event – and the table has no transition from it on rune `j` (or on
end of input). -/
def FireMatches (modes : Array Mode) (inp : Input) (bd : Nat) : Ev → Prop
  | .fire mode state _ _ off =>
    ∃ m i j, modes[mode]? = some m ∧ i ≤ j ∧ j ≤ inp.size ∧ offsetOf inp i = bd ∧
      offsetOf inp j = off ∧ 0 ≤ state ∧
      tableRunFrom m 0 (runesBetween inp i j) = some state.toNat ∧
      tableStep m state.toNat (runeAt inp j) = none
  | _ => True

/-- Every `fire` event of the log matches, the boundary moving along. -/
def MunchLog (modes : Array Mode) (inp : Input) : Nat → List Ev → Prop
  | _, [] => True
  | bd, e :: rest => FireMatches modes inp bd e ∧ MunchLog modes inp (nextBoundary bd e) rest

theorem boundaryRun_append (a b : List Ev) (bd : Nat) :
    boundaryRun bd (a ++ b) = boundaryRun (boundaryRun bd a) b := by
  induction a generalizing bd with
  | nil => rfl
  | cons e rest ih => simp only [List.cons_append, boundaryRun]; exact ih _

theorem munchLog_append (modes : Array Mode) (inp : Input) (a b : List Ev) (bd : Nat) :
    MunchLog modes inp bd (a ++ b) ↔
      MunchLog modes inp bd a ∧ MunchLog modes inp (boundaryRun bd a) b := by
  induction a generalizing bd with
  | nil => simp [MunchLog, boundaryRun]
  | cons e rest ih => simp only [List.cons_append, MunchLog, boundaryRun, ih, and_assoc]

/-- `MunchLog` read at one `fire` event. -/
theorem munchLog_at_fire {modes : Array Mode} {inp : Input} {pre post : List Ev} {e : Ev}
    (h : MunchLog modes inp 0 (pre ++ e :: post)) :
    FireMatches modes inp (boundaryRun 0 pre) e := by
  rw [munchLog_append] at h
  exact h.2.1

/-! ### One `PushRune` call against the table automaton -/

theorem runPairs_ne_consume (modes : Array Mode) (r : Int) : ∀ (ps : List Pair) (sm : SM),
    (runPairs modes r ps sm).1 ≠ .consume := by
  intro ps
  induction ps with
  | nil => intro sm; unfold runPairs; split <;> simp
  | cons p rest ih =>
    intro sm
    obtain ⟨ty, v⟩ := p
    unfold runPairs
    split
    · split
      · exact ih _
      · simp
    · split
      · split
        · simp
        · exact ih _
      · split
        · simp
        · split
          · simp
          · split
            · simp
            · exact ih _

/-- All tables of the lexer are well-formed tables (`Lox.Lex.wfTable`). -/
def TablesWF (modes : Array Mode) : Prop :=
  ∀ (mi : Nat) (m : Mode), modes[mi]? = some m → wfTable m = true

/-- `PushRune` consumes along `tableStep` of the current mode's table and fires exactly when there
is no step. -/
theorem pushRune_table {modes : Array Mode} (hT : TablesWF modes) {sm : SM}
    (hin : InRange modes sm) (c : Int) :
    ∃ m, modes[sm.mode.getD 0]? = some m ∧
      (∀ sm', pushRune modes sm c = (.consume, sm') →
        ∃ q', tableStep m sm.state.toNat c = some q' ∧
          sm' = { sm with mode := some (sm.mode.getD 0), state := (q' : Int) }) ∧
      (∀ res sm', pushRune modes sm c = (res, sm') → res ≠ .consume →
        tableStep m sm.state.toNat c = none) := by
  obtain ⟨_, h0, m, hm, hlt⟩ := hin
  have hwf := hT _ m hm
  have hq : sm.state.toNat < Lox.Lex.nStates m := by rw [← rt_nStates_eq]; exact hlt
  have hst : sm.state = ((sm.state.toNat : Nat) : Int) := by omega
  have hpr := pushRune_step modes sm m sm.state.toNat c hwf hm hst hq
  refine ⟨m, hm, ?_, ?_⟩
  · intro sm' h
    rw [hpr] at h
    cases hs : tableStep m sm.state.toNat c with
    | some q' =>
      rw [hs] at h
      simp only [Prod.mk.injEq, true_and] at h
      exact ⟨q', rfl, h.symm⟩
    | none =>
      rw [hs] at h
      simp only at h
      have := runPairs_ne_consume modes c (Lox.Lex.rowPairs m sm.state.toNat)
        { sm with mode := some (sm.mode.getD 0) }
      rw [h] at this
      exact absurd rfl this
  · intro res sm' h hne
    rw [hpr] at h
    cases hs : tableStep m sm.state.toNat c with
    | some q' =>
      rw [hs] at h
      simp only [Prod.mk.injEq] at h
      exact absurd h.1.symm hne
    | none => rfl

/-! ### The invariant of a run -/

/-- The driver is synchronised with the input, the log so far matches, and the current state is
the state the current mode's table reaches from state 0 on the runes consumed since the
boundary. -/
structure MunchInv (modes : Array Mode) (inp : Input) (l : Lx) (g : List Ev) : Prop where
  sync : Sync inp l
  idx : l.idx ≤ inp.size
  inRange : InRange modes l.sm
  log : MunchLog modes inp 0 g
  reach : ∃ i m, i ≤ l.idx ∧ offsetOf inp i = boundaryRun 0 g ∧
    modes[l.sm.mode.getD 0]? = some m ∧
    tableRunFrom m 0 (runesBetween inp i l.idx) = some l.sm.state.toNat

theorem munchInv_init {modes : Array Mode} (hwf : WFModes modes) (inp : Input) :
    MunchInv modes inp {} [] := by
  have hin := inRange_init hwf
  obtain ⟨_, _, m, hm, _⟩ := hin
  exact ⟨by simp [Sync, offsetOf], Nat.zero_le _, inRange_init hwf, trivial,
    0, m, Nat.le_refl _, by simp [offsetOf, boundaryRun], hm, by simp [runesBetween_self, tableRunFrom]⟩

/-- The `fire` event written by a `PushRune` call that did not consume matches. -/
theorem fire_matches {modes : Array Mode} (hT : TablesWF modes) {inp : Input} {l : Lx}
    {g : List Ev} (hI : MunchInv modes inp l g) (start : Option Nat) {res : Res} {sm' : SM}
    (hpr : pushRune modes l.sm (l.char inp) = (res, sm')) (hne : res ≠ .consume) :
    FireMatches modes inp (boundaryRun 0 g) (fireEv start l res) := by
  obtain ⟨i, m, hi, hoff, hm, hrun⟩ := hI.reach
  obtain ⟨m', hm', _, hfire⟩ := pushRune_table hT hI.inRange (l.char inp)
  rw [hm] at hm'
  cases hm'
  refine ⟨m, i, l.idx, hm, hi, hI.idx, hoff, hI.sync.symm, hI.inRange.2.1, hrun, ?_⟩
  rw [← char_eq_runeAt]
  exact hfire res sm' hpr hne

/-- After a row fired with accept / discard / accumulate / EOF the invariant holds again from the
current position, the log extended by the `fire` event and by events that are no `fire`. -/
theorem munchInv_after_fire {modes : Array Mode} (hT : TablesWF modes) {inp : Input} {l : Lx}
    {g : List Ev} (hI : MunchInv modes inp l g) (start : Option Nat) {res : Res} {sm' : SM}
    (hpr : pushRune modes l.sm (l.char inp) = (res, sm')) (hne : res ≠ .consume)
    (hin' : InRange modes sm') (h0 : sm'.state = 0) (extra : List Ev)
    (hextra : ∀ bd, MunchLog modes inp bd extra ∧ boundaryRun bd extra = bd) :
    MunchInv modes inp { l with sm := sm' } (g ++ [fireEv start l res] ++ extra) := by
  have hfm := fire_matches hT hI start hpr hne
  obtain ⟨m', hm', _⟩ := hin'.2.2
  have hbd : boundaryRun 0 (g ++ [fireEv start l res] ++ extra) = l.offset := by
    rw [boundaryRun_append, (hextra _).2, boundaryRun_append]
    rfl
  refine ⟨hI.sync, hI.idx, hin', ?_, l.idx, m', Nat.le_refl _, ?_, hm', ?_⟩
  · rw [munchLog_append, munchLog_append]
    exact ⟨⟨hI.log, hfm, trivial⟩, (hextra _).1⟩
  · rw [hbd]; exact hI.sync.symm
  · simp only [runesBetween_self, tableRunFrom, h0]
    rfl

theorem readTokenG_munch {modes : Array Mode} (hwf : WFModes modes) (hT : TablesWF modes)
    (inp : Input) (n : Nat) (start : Option Nat) (l : Lx) (g : List Ev)
    (out : Option Tok × Lx × List Ev) (h : readTokenG modes inp n start l g = some out)
    (hI : MunchInv modes inp l g) : MunchInv modes inp out.2.1 out.2.2 := by
  revert hI
  refine readTokenG_induct modes inp
    (fun _ l g out => MunchInv modes inp l g → MunchInv modes inp out.2.1 out.2.2)
    ?_ ?_ ?_ ?_ ?_ ?_ ?_ n start l g out h
  · -- consume
    intro start l g sm' out hpr ih hI
    apply ih
    have hok := pushRune_stepOK hwf hI.inRange (l.char inp)
    rw [hpr] at hok
    obtain ⟨hs0, hc0⟩ := hok.consume rfl
    have hlt : l.idx < inp.size := idx_lt_of_char_ne (by omega)
    obtain ⟨i, m, hi, hoff, hm, hrun⟩ := hI.reach
    obtain ⟨m', hm', hcons, _⟩ := pushRune_table hT hI.inRange (l.char inp)
    rw [hm] at hm'
    cases hm'
    obtain ⟨q', hstep, hsm'⟩ := hcons sm' hpr
    have hl' : (({ l with sm := sm' } : Lx).consume inp).idx = l.idx + 1 :=
      (consume_lt (l := ({ l with sm := sm' } : Lx)) hlt).1
    refine ⟨consume_sync (l := { l with sm := sm' }) hI.sync, by rw [hl']; omega, ?_, hI.log,
      i, m, by rw [hl']; omega, hoff, ?_, ?_⟩
    · rw [Rt.consume_sm]; exact hok.inRange (by simp)
    · rw [Rt.consume_sm]; simp only; rw [hsm']; exact hm
    · rw [hl', Rt.consume_sm, runesBetween_succ hi hlt, tableRunFrom_append, hrun]
      simp only [Option.bind_some, tableRunFrom]
      have hc : inp[l.idx].1 = l.char inp := by
        rw [char_eq_runeAt, runeAt_lt hlt]
      rw [hc, hstep, hsm']
      simp
  · -- accept
    intro start l g sm' hpr hI
    have hok := pushRune_stepOK hwf hI.inRange (l.char inp)
    rw [hpr] at hok
    have := munchInv_after_fire hT hI start hpr (by simp) (hok.inRange (by simp))
      (hok.terminal (.inl rfl)).1
      [.seg ⟨.tok sm'.token, start.getD l.offset, l.offset⟩,
       .ret (.tok sm'.token (start.getD l.offset) l.offset) (sm'.mode.getD 0) sm'.modeStack]
      (fun bd => ⟨⟨trivial, trivial, trivial⟩, rfl⟩)
    simpa using this
  · -- discard
    intro start l g sm' out hpr ih hI
    have hok := pushRune_stepOK hwf hI.inRange (l.char inp)
    rw [hpr] at hok
    exact ih (munchInv_after_fire hT hI start hpr (by simp) (hok.inRange (by simp))
      (hok.terminal (.inr (.inl rfl))).1 [.seg ⟨.discarded, start.getD l.offset, l.offset⟩]
      (fun bd => ⟨⟨trivial, trivial⟩, rfl⟩))
  · -- tryAgain
    intro start l g sm' out hpr ih hI
    have hok := pushRune_stepOK hwf hI.inRange (l.char inp)
    rw [hpr] at hok
    have := munchInv_after_fire hT hI start hpr (by simp) (hok.inRange (by simp))
      (hok.terminal (.inr (.inr rfl))).1 [] (fun bd => ⟨trivial, rfl⟩)
    rw [List.append_nil] at this
    exact ih this
  · -- eof
    intro start l g sm' hpr hI
    have hok := pushRune_stepOK hwf hI.inRange (l.char inp)
    rw [hpr] at hok
    have := munchInv_after_fire hT hI start hpr (by simp) (hok.inRange (by simp))
      (hok.eof rfl).2.2
      [.seg ⟨.pending, start.getD l.offset, l.offset⟩,
       .ret (.eof (start.getD l.offset)) (sm'.mode.getD 0) sm'.modeStack]
      (fun bd => ⟨⟨trivial, trivial, trivial⟩, rfl⟩)
    simpa using this
  · -- oob
    intro start l g sm' hpr hI
    have hok := pushRune_stepOK hwf hI.inRange (l.char inp)
    rw [hpr] at hok
    exact absurd rfl hok.noOob
  · -- error
    intro start l g sm' hpr hI
    have hok := pushRune_stepOK hwf hI.inRange (l.char inp)
    rw [hpr] at hok
    have hfm := fire_matches hT hI start hpr (by simp)
    have hsm := afterError_sm inp ({ l with sm := sm' } : Lx)
    simp only at hsm
    have hin' : InRange modes (afterError inp ({ l with sm := sm' } : Lx)).sm := by
      rw [hsm]; exact inRange_reset hwf hok.modesOK
    have hsync : Sync inp (afterError inp ({ l with sm := sm' } : Lx)) :=
      afterError_sync (l := { l with sm := sm' }) hI.sync
    obtain ⟨m', hm', _⟩ := hin'.2.2
    refine ⟨hsync, afterError_idx_le_size (l := { l with sm := sm' }) hI.idx, hin', ?_,
      (afterError inp ({ l with sm := sm' } : Lx)).idx, m', Nat.le_refl _, ?_, hm', ?_⟩
    · rw [List.append_assoc, munchLog_append]
      exact ⟨hI.log, hfm, trivial, trivial, trivial⟩
    · rw [List.append_assoc, boundaryRun_append]
      exact hsync.symm
    · simp only [runesBetween_self, tableRunFrom, hsm, SM.reset]
      rfl

/-- **Run-level maximal munch, any lexer with well-formed tables**: every `fire` event of the log
of any run (any input, any fuel, also a run cut short) matches. -/
theorem lexAllG_munch {modes : Array Mode} (hwf : WFModes modes) (hT : TablesWF modes)
    (inp : Input) (fuel : Nat) :
    ∀ n l acc g, MunchInv modes inp l g →
      MunchLog modes inp 0 (lexAllG modes inp fuel n l acc g).2.2 := by
  intro n
  induction n with
  | zero => intro l acc g hI; exact hI.log
  | succ n ih =>
    intro l acc g hI
    unfold lexAllG
    cases hr : readTokenG modes inp fuel none l g with
    | none => exact hI.log
    | some x =>
      have hI' := readTokenG_munch hwf hT inp fuel none l g x hr hI
      obtain ⟨a1, _⟩ := readTokenG_inRange hwf inp fuel none l g x hr hI.inRange
      obtain ⟨ot, l', g'⟩ := x
      cases ot with
      | none => exact absurd rfl a1
      | some t =>
        cases t with
        | eof p => exact hI'.log
        | tok ty a b => exact ih _ _ _ hI'
        | err a c => exact ih _ _ _ hI'

/-! ### Generated lexers: the consumed text is the longest viable prefix, the row that of the
earliest matching rule -/

theorem genModes_tablesWF {s : LSpec} {modes : Array Mode} (hgen : genModes s = some modes)
    (hok : s.ok = true) : TablesWF modes := by
  obtain ⟨_, _, hall⟩ := genModes_some hgen
  intro mi m hm
  have hmi : mi < modes.size := by
    rcases Nat.lt_or_ge mi modes.size with h1 | h1
    · exact h1
    · rw [Array.getElem?_eq_none h1] at hm; cases hm
  obtain ⟨name, rs, pss, m', hM⟩ := hall mi hmi
  have : m' = m := by
    have := hM.get; rw [hm] at this; exact (Option.some.inj this).symm
  subst this
  exact (hM.readers hok).1

/-- Every mode of the specification (also `$default`) has at least one rule. -/
def LSpec.modesNonempty (s : LSpec) : Bool := (modeDecls s).all fun d => !d.2.isEmpty

theorem modeRules_ne_nil {s : LSpec} (hne : s.modesNonempty = true) {n : String}
    (hn : n ∈ modeNames s) : modeRules s n ≠ [] := by
  unfold modeNames at hn
  rw [mem_sortNames] at hn
  obtain ⟨d, hd, hdn⟩ := List.mem_map.1 hn
  unfold modeRules
  cases hf : (modeDecls s).find? (fun d => d.1 == n) with
  | none =>
    have := List.find?_eq_none.1 hf d hd
    simp [hdn] at this
  | some d' =>
    simp only [Option.map_some, Option.getD_some]
    have hd' := List.mem_of_find?_eq_some hf
    have := List.all_eq_true.1 hne d' hd'
    simpa using this

/-- `r0` is the earliest rule of `rs` (order of `AddRule` = source order) that matches `w`. -/
def EarliestMatch (rs : List GRule) (w : List Int) (r0 : GRule) : Prop :=
  ∃ pre post, rs = pre ++ r0 :: post ∧ Matches r0.body.toRe w ∧
    ∀ r ∈ pre, ¬ Matches r.body.toRe w

theorem label_earliest (f : GRule → List Pair) {rs : List GRule} {w : List Int} {r0 : GRule}
    (h : EarliestMatch rs w r0) :
    label (rs.map fun r => (r.body.toRe, f r)) w = f r0 := by
  obtain ⟨pre, post, rfl, hm, hpre⟩ := h
  induction pre with
  | nil => simp only [List.nil_append, List.map_cons]; exact label_cons_pos hm
  | cons a rest ih =>
    simp only [List.cons_append, List.map_cons]
    rw [label_cons_neg (hpre a (by simp))]
    exact ih (fun r hr => hpre r (by simp [hr]))

theorem viable_prefix {rules : List Rule} {u v : List Int} (h : viable rules (u ++ v)) :
    viable rules u := by
  obtain ⟨r, hr, t, hm⟩ := h
  exact ⟨r, hr, v ++ t, by rw [← List.append_assoc]; exact hm⟩

/-- **What a `fire` event of a generated lexer says at the level of the rules** (greedy rules, every
mode has a rule): the runes `w = [i, j)` consumed since the boundary are a viable word of the mode
whose row fired, no longer stretch `[i, k)` of the input is viable – `w` is the LONGEST viable
prefix of the rest of the input – and the row that fired stores `label … w`: the pairs of the
EARLIEST rule of the mode matching `w` exactly, nothing if no rule does. -/
theorem fire_matched {s : LSpec} {modes : Array Mode} (hgen : genModes s = some modes)
    (hok : s.ok = true) (hgreedy : s.greedy = true) (hne : s.modesNonempty = true) {inp : Input}
    {bd mode : Nat} {state : Int} {res : Res} {a b : Nat}
    (h : FireMatches modes inp bd (.fire mode state res a b)) :
    ∃ mname i j, (modeNames s)[mode]? = some mname ∧ i ≤ j ∧ j ≤ inp.size ∧
      offsetOf inp i = bd ∧ offsetOf inp j = b ∧
      viable (specRules s mname) (runesBetween inp i j) ∧
      (∀ k, j < k → k ≤ inp.size → ¬ viable (specRules s mname) (runesBetween inp i k)) ∧
      Rt.rowPairs modes mode state = label (specRules s mname) (runesBetween inp i j) := by
  obtain ⟨m, i, j, hm, hij, hj, hbd, hoff, h0, hrun, hstep⟩ := h
  obtain ⟨_, _, hall⟩ := genModes_some hgen
  have hmi : mode < modes.size := by
    rcases Nat.lt_or_ge mode modes.size with h1 | h1
    · exact h1
    · rw [Array.getElem?_eq_none h1] at hm; cases hm
  obtain ⟨name, rs, pss, m', hM⟩ := hall mode hmi
  have : m' = m := by
    have := hM.get; rw [hm] at this; exact (Option.some.inj this).symm
  subst this
  have hrs : rs ≠ [] := by
    rw [hM.rules_eq]
    exact modeRules_ne_nil hne (List.mem_of_getElem? hM.name_eq)
  obtain ⟨hwf, _, hS, _⟩ := hM.bisim hok hgreedy hrs
  have hk : tableRun m' (runesBetween inp i j) = some (Lox.Lex.rowPairs m' state.toNat) := by
    simp only [tableRun, hrun, Option.map_some]
  have hq := tableRunFrom_lt hwf _ 0 _ (wfTable_nStates hwf) hrun
  have hcast : ((state.toNat : Nat) : Int) = state := by omega
  refine ⟨name, i, j, hM.name_eq, hij, hj, hbd, hoff, ?_, ?_, ?_⟩
  · by_cases hv : viable (specRules s name) (runesBetween inp i j)
    · exact hv
    · rw [(hS.dead _).mpr hv] at hk; cases hk
  · intro k hjk hk'
    have hjl : j < inp.size := by omega
    have hsplit : runesBetween inp i k =
        (runesBetween inp i j ++ [inp[j].1]) ++ runesBetween inp (j + 1) k := by
      rw [runesBetween_append (j := j + 1) (by omega) (by omega), runesBetween_succ hij hjl]
    have hnone : tableRunFrom m' 0 (runesBetween inp i j ++ [inp[j].1]) = none := by
      rw [tableRunFrom_append, hrun]
      simp only [Option.bind_some, tableRunFrom]
      rw [runeAt_lt hjl] at hstep
      rw [hstep]
    apply (hS.dead _).mp
    rw [hsplit]
    simp only [tableRun, tableRunFrom_none_append hnone, Option.map_none]
  · have := hM.rowPairs_eq hok state.toNat hq
    rw [hcast] at this
    rw [this]
    exact hS.lab _ _ hk

/-- Every rule of a mode of an accepted specification has its pairs. -/
theorem genModes_rule_pairs {s : LSpec} {modes : Array Mode} (hgen : genModes s = some modes)
    {mi : Nat} {mname : String} (hname : (modeNames s)[mi]? = some mname) {r : GRule}
    (hr : r ∈ modeRules s mname) : ∃ ps, r.pairs s = some ps := by
  obtain ⟨_, hsz, hall⟩ := genModes_some hgen
  have hmi : mi < modes.size := by
    rw [hsz]; exact (List.getElem?_eq_some_iff.1 hname).1
  obtain ⟨name, rs, pss, m, hM⟩ := hall mi hmi
  have : name = mname := by
    have := hM.name_eq; rw [hname] at this; exact (Option.some.inj this).symm
  subst this
  rw [← hM.rules_eq] at hr
  obtain ⟨hlen, hget⟩ := map_eq_map_some hM.pairs
  obtain ⟨k, hk, rfl⟩ := List.getElem_of_mem hr
  exact ⟨_, hget k hk (by omega)⟩

/-- The step of the abstract replay at a `fire` event of a log that agrees. -/
theorem absRun_at_fire (modes : Array Mode) (pre post : List Ev) (mode : Nat) (state : Int)
    (res : Res) (a b : Nat) (ms0 : MS)
    (h : AbsAgrees modes (pre ++ .fire mode state res a b :: post) ms0) :
    absRun modes (pre ++ [.fire mode state res a b]) ms0 =
      applyModeActsT (Rt.rowPairs modes mode state) (absRun modes pre ms0) := by
  have hmode := absAgrees_at_fire modes pre post mode state res a b ms0 h
  rw [absRun_append]
  simp only [absRun, absStep, hmode]

end Lox.Lex.GenSpec
