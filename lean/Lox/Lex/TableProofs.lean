import Lox.Lex.Bisim
/-! Facts about decoded mode tables: sorted rows, the linear lookup, and the binary search of the
generated `PushRune` (`Lox.Lex.bsearch` in `Model.lean`). -/
namespace Lox.Lex

/-! ### Sorted rows and the linear lookup -/

/-- `c` lies in the range of the triple. -/
def Triple.has (t : Triple) (c : Int) : Prop := t.1 ≤ c ∧ c ≤ t.2.1

theorem sortedFrom_spec : ∀ (l : List Triple) (p : Int), sortedFrom p l = true →
    (∀ t ∈ l, p < t.1 ∧ t.1 ≤ t.2.1) ∧ List.Pairwise (fun a b => a.2.1 < b.1) l := by
  intro l
  induction l with
  | nil => intro p _; simp
  | cons t l ih =>
    intro p h
    obtain ⟨lo, hi, tg⟩ := t
    simp only [sortedFrom, Bool.and_eq_true, decide_eq_true_eq] at h
    obtain ⟨⟨h1, h2⟩, h3⟩ := h
    obtain ⟨ih1, ih2⟩ := ih hi h3
    refine ⟨?_, ?_⟩
    · intro t ht
      rcases List.mem_cons.mp ht with rfl | ht
      · exact ⟨h1, h2⟩
      · have := ih1 t ht
        exact ⟨by omega, this.2⟩
    · rw [List.pairwise_cons]
      exact ⟨fun t ht => (ih1 t ht).1, ih2⟩

theorem lookup_eq_none {l : List Triple} {c : Int} (h : ∀ t ∈ l, ¬ t.has c) :
    lookup l c = none := by
  induction l with
  | nil => rfl
  | cons t l ih =>
    obtain ⟨lo, hi, tg⟩ := t
    have h0 := h (lo, hi, tg) (by simp)
    simp only [Triple.has] at h0
    simp only [lookup, h0, ↓reduceIte]
    exact ih (fun t ht => h t (by simp [ht]))

theorem lookup_eq_some {l : List Triple} {c : Int}
    (hp : List.Pairwise (fun a b : Triple => a.2.1 < b.1) l) {t : Triple} (ht : t ∈ l)
    (hc : t.has c) : lookup l c = some t.2.2 := by
  induction l with
  | nil => simp at ht
  | cons x l ih =>
    obtain ⟨lo, hi, tg⟩ := x
    rw [List.pairwise_cons] at hp
    simp only [lookup]
    rcases List.mem_cons.mp ht with rfl | ht'
    · simp only [Triple.has] at hc
      simp [hc]
    · have hlt := hp.1 t ht'
      simp only [Triple.has] at hc
      have : ¬ (lo ≤ c ∧ c ≤ hi) := by simp only at hlt; omega
      simp only [this, ↓reduceIte]
      exact ih hp.2 ht'

theorem lookup_some_mem {l : List Triple} {c st : Int} (h : lookup l c = some st) :
    ∃ t ∈ l, t.has c ∧ t.2.2 = st := by
  induction l with
  | nil => simp [lookup] at h
  | cons x l ih =>
    obtain ⟨lo, hi, tg⟩ := x
    simp only [lookup] at h
    split at h
    · rename_i hc
      simp only [Option.some.injEq] at h
      exact ⟨(lo, hi, tg), by simp, hc, h⟩
    · obtain ⟨t, ht, h1, h2⟩ := ih h
      exact ⟨t, by simp [ht], h1, h2⟩

/-! ### Reading the raw array -/

theorem geti_ofNat (a : Array Int) (k : Nat) : geti a (k : Int) = a[k]? := by
  unfold geti
  have : ¬ ((k : Int) < 0) := by omega
  simp [this]

theorem getElem?_eq_getD {a : Array Int} {k : Nat} (h : k < a.size) : a[k]? = some (a.getD k 0) := by
  simp [Array.getD, h]

theorem length_triplesAt (tbl : Mode) (base n : Nat) : (triplesAt tbl base n).length = n := by
  simp [triplesAt]

theorem getElem_triplesAt (tbl : Mode) (base n j : Nat) (hj : j < n) :
    (triplesAt tbl base n)[j]'(by simpa [length_triplesAt] using hj) =
      (tbl.getD (base + 3 * j) 0, tbl.getD (base + 3 * j + 1) 0, tbl.getD (base + 3 * j + 2) 0) := by
  simp [triplesAt]

/-! ### Binary search = linear lookup -/

theorem bsearch_inv (tbl : Mode) (base n : Nat) (r : Int) (hfit : base + 3 * n ≤ tbl.size)
    (p : Int) (hs : sortedFrom p (triplesAt tbl base n) = true) :
    ∀ (fuel b e : Nat), b ≤ e → e ≤ n → e - b < fuel →
      (∀ j (hj : j < n), j < b → ((triplesAt tbl base n)[j]'(by simpa [length_triplesAt] using hj)).2.1 < r) →
      (∀ j (hj : j < n), e ≤ j → r < ((triplesAt tbl base n)[j]'(by simpa [length_triplesAt] using hj)).1) →
      bsearch tbl r (base : Int) fuel (b : Int) (e : Int) = some (lookup (triplesAt tbl base n) r) := by
  obtain ⟨hrange, hpair⟩ := sortedFrom_spec _ _ hs
  have hlen := length_triplesAt tbl base n
  rw [List.pairwise_iff_getElem] at hpair
  intro fuel
  induction fuel with
  | zero => intro b e _ _ h; omega
  | succ f ih =>
    intro b e hbe hen hfuel hlow hhigh
    unfold bsearch
    by_cases hlt : b < e
    · have hlt' : (b : Int) < (e : Int) := by omega
      simp only [hlt', ↓reduceIte]
      have hj : (b : Int) + ((e : Int) - (b : Int)) / 2 = ((b + (e - b) / 2 : Nat) : Int) := by omega
      rw [hj]
      generalize hjd : b + (e - b) / 2 = j
      have hjb : b ≤ j := by omega
      have hje : j < e := by omega
      have hjn : j < n := by omega
      have hk : (base : Int) + (j : Int) * 3 = ((base + 3 * j : Nat) : Int) := by omega
      have hk1 : ((base + 3 * j : Nat) : Int) + 1 = ((base + 3 * j + 1 : Nat) : Int) := by omega
      have hk2 : ((base + 3 * j : Nat) : Int) + 2 = ((base + 3 * j + 2 : Nat) : Int) := by omega
      simp only [hk, hk1, hk2, geti_ofNat]
      rw [getElem?_eq_getD (by omega), getElem?_eq_getD (by omega), getElem?_eq_getD (by omega)]
      simp only
      have htj := getElem_triplesAt tbl base n j hjn
      have hmem : (triplesAt tbl base n)[j]'(by omega) ∈ triplesAt tbl base n := List.getElem_mem _
      have hlohi := (hrange _ hmem).2
      rw [htj] at hlohi hmem
      simp only at hlohi
      by_cases hin : r ≥ tbl.getD (base + 3 * j) 0 ∧ r ≤ tbl.getD (base + 3 * j + 1) 0
      · simp only [hin, and_self, ↓reduceIte]
        have := lookup_eq_some (c := r) (List.pairwise_iff_getElem.mpr hpair) hmem
          (by simp only [Triple.has]; omega)
        rw [this]
      · simp only [hin, ↓reduceIte]
        by_cases hlo : r < tbl.getD (base + 3 * j) 0
        · simp only [hlo, ↓reduceIte]
          apply ih b j hjb (by omega) (by omega) hlow
          intro j' hj' hjj'
          by_cases heq : j' = j
          · subst heq; rw [htj]; exact hlo
          · have := hpair j j' (by omega) (by omega) (by omega)
            rw [htj] at this
            simp only at this
            omega
        · simp only [hlo, ↓reduceIte]
          have : ((j : Int) + 1) = ((j + 1 : Nat) : Int) := by omega
          rw [this]
          apply ih (j + 1) e (by omega) hen (by omega) _ hhigh
          intro j' hj' hjj'
          by_cases heq : j' = j
          · subst heq; rw [htj]; simp only; omega
          · have := hpair j' j (by omega) (by omega) (by omega)
            rw [htj] at this
            simp only at this
            omega
    · have hlt' : ¬ ((b : Int) < (e : Int)) := by omega
      simp only [hlt', ↓reduceIte]
      rw [lookup_eq_none]
      intro t ht
      obtain ⟨j, hj, rfl⟩ := List.getElem_of_mem ht
      rw [hlen] at hj
      simp only [Triple.has]
      by_cases hjb : j < b
      · have := hlow j hj hjb; omega
      · have := hhigh j hj (by omega); omega

/-- The binary search of `PushRune` over a sorted, disjoint row returns exactly the linear lookup,
for every rune (including `-1`, end of input). Stated over the raw array. -/
theorem bsearch_eq_lookup (tbl : Mode) (base n : Nat) (r : Int) (hfit : base + 3 * n ≤ tbl.size)
    (p : Int) (hs : sortedFrom p (triplesAt tbl base n) = true) :
    bsearch tbl r (base : Int) (n + 1) 0 (n : Int) = some (lookup (triplesAt tbl base n) r) := by
  have := bsearch_inv tbl base n r hfit p hs (n + 1) 0 n (by omega) (by omega) (by omega)
    (by intro j _ h; omega) (by intro j hj h; omega)
  simpa using this

/-- A row above `-1` has no transition on `-1` (end of input). -/
theorem lookup_neg (l : List Triple) (r : Int) (hr : r < 0) (hs : sortedFrom (-1) l = true) :
    lookup l r = none := by
  obtain ⟨hrange, _⟩ := sortedFrom_spec _ _ hs
  apply lookup_eq_none
  intro t ht
  have := (hrange t ht).1
  simp only [Triple.has]
  omega

/-! ### Layout of a decoded row in the raw array -/

/-- What `rowAt tbl q = some row` says about the raw array. -/
structure Layout (tbl : Mode) (q : Nat) (row : Row) (i g a : Nat) : Prop where
  off : tbl[q]? = some (i : Int)
  count : tbl[i]? = some ((2 + 3 * g + 2 * a : Nat) : Int)
  flags : tbl[i + 1]? = some row.flags
  gotoN : tbl[i + 2]? = some (g : Int)
  fit : i + 3 + 3 * g + 2 * a ≤ tbl.size
  trs : row.trs = triplesAt tbl (i + 3) g
  acts : row.acts = pairsAt tbl (i + 3 + 3 * g) a

theorem rowAt_layout {tbl : Mode} {q : Nat} {row : Row} (h : rowAt tbl q = some row) :
    ∃ i g a, Layout tbl q row i g a := by
  unfold rowAt at h
  split at h
  · cases h
  · rename_i off hoff
    split at h
    · cases h
    · rename_i hneg
      simp only at h
      split at h
      · rename_i count flags gotoN hc hf hg
        split at h
        · rename_i hcond
          obtain ⟨h0, h1, h2, h3⟩ := hcond
          simp only [Option.some.injEq] at h
          subst h
          refine ⟨off.toNat, gotoN.toNat, (count.toNat - 2 - 3 * gotoN.toNat) / 2, ?_⟩
          have e1 : (off.toNat : Int) = off := by omega
          have e2 : (gotoN.toNat : Int) = gotoN := by omega
          have e3 : ((2 + 3 * gotoN.toNat + 2 * ((count.toNat - 2 - 3 * gotoN.toNat) / 2) : Nat) : Int) = count := by
            omega
          constructor
          · rw [hoff, e1]
          · rw [hc, e3]
          · exact hf
          · rw [hg, e2]
          · omega
          · rfl
          · rfl
        · cases h
      · cases h

theorem pairsAt_zero (tbl : Mode) (base : Nat) : pairsAt tbl base 0 = [] := rfl

theorem pairsAt_succ (tbl : Mode) (base n : Nat) :
    pairsAt tbl base (n + 1) =
      (tbl.getD base 0, tbl.getD (base + 1) 0) :: pairsAt tbl (base + 2) n := by
  unfold pairsAt
  rw [List.range_succ_eq_map]
  simp only [List.map_cons, List.map_map, Nat.mul_zero, Nat.add_zero]
  congr 1
  apply List.map_congr_left
  intro j _
  simp only [Function.comp]
  have e1 : base + 2 * (j + 1) = base + 2 + 2 * j := by omega
  rw [e1]

/-- The raw action loop computes the decoded action interpreter. -/
theorem runActions_eq_runPairs (modes : Array Mode) (m : Mode) (r : Int) :
    ∀ (n fuel a : Nat) (sm : SM), n < fuel → a + 2 * n ≤ m.size →
      runActions modes m r fuel (a : Int) ((a + 2 * n : Nat) : Int) sm =
        some (runPairs modes r (pairsAt m a n) sm) := by
  intro n
  induction n with
  | zero =>
    intro fuel a sm hf _
    cases fuel with
    | zero => omega
    | succ f =>
      simp only [Nat.mul_zero, Nat.add_zero, runActions, Int.lt_irrefl, ↓reduceIte, pairsAt_zero, runPairs]
      split <;> rfl
  | succ n ih =>
    intro fuel a sm hf hfit
    cases fuel with
    | zero => omega
    | succ f =>
      have hlt : (a : Int) < ((a + 2 * (n + 1) : Nat) : Int) := by omega
      have e1 : (a : Int) + 1 = ((a + 1 : Nat) : Int) := by omega
      have e2 : (a : Int) + 2 = ((a + 2 : Nat) : Int) := by omega
      have e3 : ((a + 2 * (n + 1) : Nat) : Int) = ((a + 2 + 2 * n : Nat) : Int) := by omega
      have ih' := fun sm' => ih f (a + 2) sm' (by omega) (by omega)
      rw [pairsAt_succ]
      unfold runActions
      simp only [hlt, ↓reduceIte, geti_ofNat, e1, e2]
      rw [getElem?_eq_getD (show a < m.size by omega), getElem?_eq_getD (show a + 1 < m.size by omega)]
      simp only [runPairs, e3, ih']
      by_cases h1 : m.getD a 0 = 1
      · simp only [h1, ↓reduceIte]
        split <;> rfl
      · by_cases h2 : m.getD a 0 = 2
        · simp only [h2]
          cases sm.modeStack <;> simp
        · by_cases h3 : m.getD a 0 = 3
          · simp [h3]
          · by_cases h4 : m.getD a 0 = 4
            · simp [h4]
            · by_cases h5 : m.getD a 0 = 5
              · simp [h5]
              · simp only [h1, h2, h3, h4, h5, ↓reduceIte]

/-! ### `PushRune` over a decoded row -/

/-- The generated `PushRune` (model over the raw arrays) in terms of the decoded row of the
current state: follow the transition found by the linear lookup if the row is greedy and has
one, otherwise run the row's action pairs. -/
theorem pushRune_eq (modes : Array Mode) (sm : SM) (m : Mode) (q : Nat) (row : Row) (c : Int)
    (p : Int) (hmode : modes[sm.mode.getD 0]? = some m) (hstate : sm.state = (q : Int))
    (hrow : rowAt m q = some row) (hs : sortedFrom p row.trs = true) :
    pushRune modes sm c =
      match (if row.flags % 2 = 0 then lookup row.trs c else none) with
      | some st => (.consume, { sm with mode := some (sm.mode.getD 0), state := st })
      | none => runPairs modes c row.acts { sm with mode := some (sm.mode.getD 0) } := by
  obtain ⟨i, g, a, L⟩ := rowAt_layout hrow
  have e1 : (i : Int) + 1 = ((i + 1 : Nat) : Int) := by omega
  have e2 : (i : Int) + 2 = ((i + 2 : Nat) : Int) := by omega
  have e3 : (i : Int) + 3 = ((i + 3 : Nat) : Int) := by omega
  have e4 : ((i + 3 : Nat) : Int) + (g : Int) * 3 = ((i + 3 + 3 * g : Nat) : Int) := by omega
  have e5 : ((i + 1 : Nat) : Int) + ((2 + 3 * g + 2 * a : Nat) : Int) =
      ((i + 3 + 3 * g + 2 * a : Nat) : Int) := by omega
  have hfit := L.fit
  rw [L.trs] at hs
  have hb := bsearch_eq_lookup m (i + 3) g c (by omega) p hs
  have hr := runActions_eq_runPairs modes m c a ((2 + 3 * g + 2 * a) + 1) (i + 3 + 3 * g)
    { sm with mode := some (sm.mode.getD 0) } (by omega) (by omega)
  simp only [hstate] at hr
  unfold pushRune
  simp only [hmode, hstate, geti_ofNat, L.off, L.count, e1, e2, L.flags, L.gotoN, e3, e4, e5,
    Int.toNat_natCast, hb]
  rw [L.trs, L.acts]
  by_cases hf : row.flags % 2 = 0
  · simp only [hf, ↓reduceIte]
    cases hl : lookup (triplesAt m (i + 3) g) c with
    | some st => rfl
    | none =>
      simp only
      rw [hr]
  · simp only [hf, ↓reduceIte]
    rw [hr]

/-! ### Well-formed tables -/

theorem wfTable_nStates {tbl : Mode} (h : wfTable tbl = true) : 1 ≤ nStates tbl := by
  simp only [wfTable, Bool.and_eq_true, decide_eq_true_eq] at h
  exact h.1.1

theorem wfTable_row {tbl : Mode} (h : wfTable tbl = true) {q : Nat} (hq : q < nStates tbl) :
    ∃ row, rowAt tbl q = some row ∧ rowOK (nStates tbl) row = true := by
  simp only [wfTable, Bool.and_eq_true, decide_eq_true_eq, List.all_eq_true, List.mem_range] at h
  have := h.2 q hq
  split at this
  · rename_i row hrow; exact ⟨row, hrow, this⟩
  · cases this

/-- What `rowOK` says: ranges sorted, pairwise disjoint, inside `0..0x10FFFF`, targets are
states. -/
theorem rowOK_spec {n : Nat} {row : Row} (h : rowOK n row = true) :
    sortedFrom (-1) row.trs = true ∧
    List.Pairwise (fun a b : Triple => a.2.1 < b.1) row.trs ∧
    ∀ t ∈ row.trs, 0 ≤ t.1 ∧ t.1 ≤ t.2.1 ∧ t.2.1 ≤ maxRune ∧ 0 ≤ t.2.2 ∧ t.2.2 < n := by
  simp only [rowOK, Bool.and_eq_true, List.all_eq_true, decide_eq_true_eq] at h
  obtain ⟨hs, hall⟩ := h
  obtain ⟨hr, hp⟩ := sortedFrom_spec _ _ hs
  refine ⟨hs, hp, ?_⟩
  intro t ht
  have h1 := hr t ht
  have h2 := hall t ht
  omega

theorem tableStep_spec {tbl : Mode} (h : wfTable tbl = true) {q : Nat} (hq : q < nStates tbl)
    {c : Int} {q' : Nat} (hstep : tableStep tbl q c = some q') :
    q' < nStates tbl ∧ 0 ≤ c ∧ c ≤ maxRune ∧
    ∃ row, rowAt tbl q = some row ∧ row.flags % 2 = 0 ∧ lookup row.trs c = some (q' : Int) := by
  obtain ⟨row, hrow, hok⟩ := wfTable_row h hq
  obtain ⟨_, _, hall⟩ := rowOK_spec hok
  simp only [tableStep, hrow] at hstep
  split at hstep
  · rename_i hf
    cases hl : lookup row.trs c with
    | none => rw [hl] at hstep; cases hstep
    | some st =>
      rw [hl] at hstep
      simp only [Option.map_some, Option.some.injEq] at hstep
      obtain ⟨t, ht, hc, hst⟩ := lookup_some_mem hl
      have := hall t ht
      simp only [Triple.has] at hc
      have hst' : st = (q' : Int) := by omega
      refine ⟨by omega, by omega, by omega, row, hrow, hf, ?_⟩
      rw [hl, hst']
  · cases hstep

/-- No transition on end of input (`-1`) or any rune outside `0..0x10FFFF`. -/
theorem tableStep_outside {tbl : Mode} (h : wfTable tbl = true) {q : Nat} (hq : q < nStates tbl)
    {c : Int} (hc : c < 0 ∨ maxRune < c) : tableStep tbl q c = none := by
  cases hs : tableStep tbl q c with
  | none => rfl
  | some q' => have := tableStep_spec h hq hs; omega

/-- `PushRune` on a well-formed table, by the decoded automaton: consume along `tableStep`,
otherwise run the action pairs of the current state. -/
theorem pushRune_step (modes : Array Mode) (sm : SM) (m : Mode) (q : Nat) (c : Int)
    (hwf : wfTable m = true) (hmode : modes[sm.mode.getD 0]? = some m)
    (hstate : sm.state = (q : Int)) (hq : q < nStates m) :
    pushRune modes sm c =
      match tableStep m q c with
      | some q' => (.consume, { sm with mode := some (sm.mode.getD 0), state := (q' : Int) })
      | none => runPairs modes c (rowPairs m q) { sm with mode := some (sm.mode.getD 0) } := by
  obtain ⟨row, hrow, hok⟩ := wfTable_row hwf hq
  obtain ⟨hs, _, _⟩ := rowOK_spec hok
  rw [pushRune_eq modes sm m q row c (-1) hmode hstate hrow hs]
  cases hstep : tableStep m q c with
  | some q' =>
    obtain ⟨_, _, _, row', hrow', hf, hl⟩ := tableStep_spec hwf hq hstep
    rw [hrow] at hrow'; cases hrow'
    simp only [hf, ↓reduceIte, hl]
  | none =>
    simp only [tableStep, hrow] at hstep
    simp only [rowPairs, hrow]
    split at hstep
    · rename_i hf
      simp only [hf, ↓reduceIte]
      cases hl : lookup row.trs c with
      | none => rfl
      | some st => rw [hl] at hstep; cases hstep
    · rename_i hf
      simp only [hf, ↓reduceIte]

/-! ### No index out of range -/

/-- Invariant of the action interpreter: current and stacked modes exist. -/
def ModesIn (n : Nat) (sm : SM) : Prop := sm.mode.getD 0 < n ∧ ∀ x ∈ sm.modeStack, x < n

theorem runPairs_ok (modes : Array Mode) (r : Int) : ∀ (ps : List Pair) (sm : SM),
    pairsOK modes.size ps = true → ModesIn modes.size sm →
    (runPairs modes r ps sm).1 ≠ .oob ∧ (runPairs modes r ps sm).1 ≠ .consume ∧
    ModesIn modes.size (runPairs modes r ps sm).2 ∧
    ((runPairs modes r ps sm).1 ≠ .error → (runPairs modes r ps sm).2.state = 0) := by
  intro ps
  induction ps with
  | nil =>
    intro sm _ hin
    simp only [runPairs]
    split
    · rename_i h; exact ⟨by simp, by simp, hin, fun _ => h.1⟩
    · exact ⟨by simp, by simp, hin, by simp⟩
  | cons p ps ih =>
    intro sm hok hin
    obtain ⟨ty, pa⟩ := p
    simp only [pairsOK, List.all_cons, Bool.and_eq_true, Bool.or_eq_true, decide_eq_true_eq] at hok
    obtain ⟨hp, hps⟩ := hok
    have hps' : pairsOK modes.size ps = true := hps
    simp only [runPairs]
    by_cases h1 : ty = 1
    · have hlt : pa.toNat < modes.size := by
        rcases hp with h | h
        · exact absurd h1 h
        · exact h
      simp only [h1, ↓reduceIte, hlt]
      apply ih _ hps'
      refine ⟨hlt, ?_⟩
      intro x hx
      rcases List.mem_cons.mp hx with rfl | hx
      · exact hin.1
      · exact hin.2 x hx
    · simp only [h1, ↓reduceIte]
      by_cases h2 : ty = 2
      · simp only [h2, ↓reduceIte]
        cases hst : sm.modeStack with
        | nil => exact ⟨by simp, by simp, hin, by simp⟩
        | cons top st =>
          simp only
          apply ih _ hps'
          have := hin.2
          rw [hst] at this
          exact ⟨this top (by simp), fun x hx => this x (by simp [hx])⟩
      · simp only [h2, ↓reduceIte]
        by_cases h3 : ty = 3
        · simp only [h3, ↓reduceIte]; exact ⟨by simp, by simp, hin, by simp⟩
        · simp only [h3, ↓reduceIte]
          by_cases h4 : ty = 4
          · simp only [h4, ↓reduceIte]; exact ⟨by simp, by simp, hin, by simp⟩
          · simp only [h4, ↓reduceIte]
            by_cases h5 : ty = 5
            · simp only [h5, ↓reduceIte]; exact ⟨by simp, by simp, hin, by simp⟩
            · simp only [h5, ↓reduceIte]; exact ih sm hps' hin

theorem wfModes_spec {modes : Array Mode} (h : wfModes modes = true) :
    1 ≤ modes.size ∧ ∀ (i : Nat) (m : Mode), modes[i]? = some m →
      wfTable m = true ∧ ∀ q, q < nStates m → pairsOK modes.size (rowPairs m q) = true := by
  simp only [wfModes, Bool.and_eq_true, decide_eq_true_eq, List.all_eq_true, List.mem_range] at h
  refine ⟨h.1, ?_⟩
  intro i m hm
  have hmem : m ∈ modes.toList := by
    rw [Array.mem_toList_iff]
    exact Array.mem_of_getElem? hm
  exact h.2 m hmem

theorem exists_getElem? {modes : Array Mode} {i : Nat} (h : i < modes.size) :
    ∃ m, modes[i]? = some m := ⟨modes[i], by simp [h]⟩

theorem SMok.modesIn {modes : Array Mode} {sm : SM} (h : SMok modes sm) :
    ModesIn modes.size sm := by
  obtain ⟨hst, m, hm, _⟩ := h
  refine ⟨?_, hst⟩
  have := Array.getElem?_eq_some_iff.mp hm
  exact this.1

/-- On well-formed tables `PushRune` never reads outside the arrays (the Go code cannot panic with
an index out of range), and it keeps the state machine inside the tables: after any result but
`_lexerError` directly, and after `_lexerError` once `Reset()` was called (as `simplelexer` does). -/
theorem pushRune_no_oob (modes : Array Mode) (sm : SM) (c : Int) (hwf : wfModes modes = true)
    (hsm : SMok modes sm) :
    (pushRune modes sm c).1 ≠ .oob ∧
    ((pushRune modes sm c).1 ≠ .error → SMok modes (pushRune modes sm c).2) ∧
    SMok modes (pushRune modes sm c).2.reset := by
  obtain ⟨hsz, hall⟩ := wfModes_spec hwf
  have hin := hsm.modesIn
  obtain ⟨hst, m, hm, q, hq, hqn⟩ := hsm
  obtain ⟨hwfm, hpairs⟩ := hall _ m hm
  rw [pushRune_step modes sm m q c hwfm hm hq hqn]
  obtain ⟨m0, hm0⟩ := exists_getElem? (modes := modes) (i := 0) (by omega)
  have hwf0 := (hall 0 m0 hm0).1
  have hreset : ∀ sm' : SM, (∀ x ∈ sm'.modeStack, x < modes.size) → SMok modes sm'.reset := by
    intro sm' hst'
    refine ⟨hst', m0, by simpa [SM.reset] using hm0, 0, by simp [SM.reset], wfTable_nStates hwf0⟩
  cases hstep : tableStep m q c with
  | some q' =>
    obtain ⟨hq', _⟩ := tableStep_spec hwfm hqn hstep
    simp only
    refine ⟨by simp, fun _ => ⟨hst, m, by simpa using hm, q', rfl, hq'⟩, hreset _ hst⟩
  | none =>
    simp only
    have hin' : ModesIn modes.size { sm with mode := some (sm.mode.getD 0) } := ⟨hin.1, hin.2⟩
    obtain ⟨h1, _, h3, h4⟩ := runPairs_ok modes c (rowPairs m q) _ (hpairs q hqn) hin'
    refine ⟨h1, ?_, hreset _ h3.2⟩
    intro hne
    have hs0 := h4 hne
    have hlt := h3.1
    obtain ⟨m', hm'⟩ := exists_getElem? hlt
    exact ⟨h3.2, m', hm', 0, by simpa using hs0, wfTable_nStates (hall _ m' hm').1⟩

end Lox.Lex
