import Lox.Lex.BisimNGProofs
/-! The shortest-match language of a rule of the shape `'prefix' body*? 'terminator'` (or `+?`):
the text ends at the first occurrence of the terminator after the prefix. -/
namespace Lox.Lex

/-- `b` matches exactly the one-code-point words `[c]` with `P c` (a class, `.`, or an
alternation of such expressions). -/
def SingleChar (b : Re) (P : Int → Prop) : Prop := ∀ w, Matches b w ↔ ∃ c, w = [c] ∧ P c

theorem singleChar_cls (cs : Cls) : SingleChar (.cls cs) (fun c => inCls cs c = true) := by
  intro w
  constructor
  · intro h; cases h with
    | cls hin => exact ⟨_, rfl, hin⟩
  · rintro ⟨c, rfl, hc⟩; exact .cls hc

theorem singleChar_alt {a b : Re} {P Q : Int → Prop} (ha : SingleChar a P) (hb : SingleChar b Q) :
    SingleChar (.alt a b) (fun c => P c ∨ Q c) := by
  intro w
  constructor
  · intro h
    cases h with
    | altl h => obtain ⟨c, hw, hc⟩ := (ha w).mp h; exact ⟨c, hw, .inl hc⟩
    | altr h => obtain ⟨c, hw, hc⟩ := (hb w).mp h; exact ⟨c, hw, .inr hc⟩
  · rintro ⟨c, rfl, hc | hc⟩
    · exact .altl ((ha _).mpr ⟨c, rfl, hc⟩)
    · exact .altr ((hb _).mpr ⟨c, rfl, hc⟩)

theorem matches_seq_iff (r s : Re) (w : List Int) :
    Matches (.seq r s) w ↔ ∃ u v, w = u ++ v ∧ Matches r u ∧ Matches s v := by
  constructor
  · intro h; cases h with
    | seq h1 h2 => exact ⟨_, _, rfl, h1, h2⟩
  · rintro ⟨u, v, rfl, h1, h2⟩; exact .seq h1 h2

theorem inCls_single (c x : Int) : inCls [(c, c)] x = true ↔ x = c := by
  simp only [inCls, List.any_cons, List.any_nil, Bool.or_false, Bool.and_eq_true, decide_eq_true_eq]
  omega

theorem matches_single (c : Int) (w : List Int) : Matches (.cls [(c, c)]) w ↔ w = [c] := by
  constructor
  · intro h; cases h with
    | cls hin => rw [(inCls_single c _).mp hin]
  · rintro rfl; exact .cls ((inCls_single c c).mpr rfl)

/-- A literal matches exactly its own code points. -/
theorem matches_lit : ∀ (p w : List Int), Matches (Re.lit p) w ↔ w = p := by
  intro p
  induction p with
  | nil =>
    intro w
    constructor
    · intro h; cases h; rfl
    · rintro rfl; exact .eps
  | cons c cs ih =>
    intro w
    cases cs with
    | nil => exact matches_single c w
    | cons c' cs' =>
      show Matches (.seq (.cls [(c, c)]) (Re.lit (c' :: cs'))) w ↔ _
      rw [matches_seq_iff]
      constructor
      · rintro ⟨u, v, rfl, h1, h2⟩
        rw [(matches_single c u).mp h1, (ih v).mp h2]; rfl
      · rintro rfl
        exact ⟨[c], c' :: cs', rfl, (matches_single c _).mpr rfl, (ih _).mpr rfl⟩

theorem matches_star_single {b : Re} {P : Int → Prop} (hb : SingleChar b P) (ng : Bool)
    (w : List Int) : Matches (.star ng b) w ↔ ∀ c ∈ w, P c := by
  constructor
  · intro h
    generalize hr : Re.star ng b = r at h
    induction h with
    | eps => cases hr
    | cls _ => cases hr
    | seq _ _ _ _ => cases hr
    | altl _ _ => cases hr
    | altr _ _ => cases hr
    | star_nil => intro c hc; cases hc
    | @star_cons ng' r' c u v h1 _ _ ih2 =>
      cases hr
      obtain ⟨c', hw, hc'⟩ := (hb _).mp h1
      simp only [List.cons.injEq] at hw
      obtain ⟨rfl, rfl⟩ := hw
      intro x hx
      have hx' : x = c ∨ x ∈ v := by simpa using hx
      rcases hx' with rfl | hx'
      · exact hc'
      · exact ih2 rfl x hx'
  · intro h
    induction w with
    | nil => exact .star_nil
    | cons c w ih =>
      have h1 : Matches b (c :: []) := (hb _).mpr ⟨c, rfl, h c (by simp)⟩
      have h2 := ih (fun x hx => h x (by simp [hx]))
      exact Matches.star_cons (u := []) h1 h2

/-- `'p' b*? 't'`. -/
def ngStarRule (p : List Int) (b : Re) (t : List Int) : Re :=
  .seq (Re.lit p) (.seq (.star true b) (Re.lit t))

/-- `'p' b+? 't'` (`x+?` is `x x*?`). -/
def ngPlusRule (p : List Int) (b : Re) (t : List Int) : Re :=
  .seq (Re.lit p) (.seq (.seq b (.star true b)) (Re.lit t))

theorem ngStarRule_hasNG (p : List Int) (b : Re) (t : List Int) :
    (ngStarRule p b t).hasNG = true := by
  simp [ngStarRule, Re.hasNG]

theorem ngPlusRule_hasNG (p : List Int) (b : Re) (t : List Int) :
    (ngPlusRule p b t).hasNG = true := by
  simp [ngPlusRule, Re.hasNG]

theorem matches_ngStarRule {b : Re} {P : Int → Prop} (hb : SingleChar b P) (p t s : List Int) :
    Matches (ngStarRule p b t) s ↔ ∃ x, s = p ++ x ++ t ∧ ∀ c ∈ x, P c := by
  unfold ngStarRule
  rw [matches_seq_iff]
  constructor
  · rintro ⟨u, v, rfl, h1, h2⟩
    rw [matches_seq_iff] at h2
    obtain ⟨x, y, rfl, h3, h4⟩ := h2
    rw [(matches_lit p u).mp h1, (matches_lit t y).mp h4]
    exact ⟨x, by simp, (matches_star_single hb true x).mp h3⟩
  · rintro ⟨x, rfl, hx⟩
    refine ⟨p, x ++ t, by simp, (matches_lit p p).mpr rfl, ?_⟩
    rw [matches_seq_iff]
    exact ⟨x, t, rfl, (matches_star_single hb true x).mpr hx, (matches_lit t t).mpr rfl⟩

theorem matches_ngPlusRule {b : Re} {P : Int → Prop} (hb : SingleChar b P) (p t s : List Int) :
    Matches (ngPlusRule p b t) s ↔ ∃ x, x ≠ [] ∧ s = p ++ x ++ t ∧ ∀ c ∈ x, P c := by
  unfold ngPlusRule
  rw [matches_seq_iff]
  constructor
  · rintro ⟨u, v, rfl, h1, h2⟩
    rw [matches_seq_iff] at h2
    obtain ⟨x, y, rfl, h3, h4⟩ := h2
    rw [matches_seq_iff] at h3
    obtain ⟨x1, x2, rfl, h5, h6⟩ := h3
    obtain ⟨c, rfl, hc⟩ := (hb _).mp h5
    rw [(matches_lit p u).mp h1, (matches_lit t y).mp h4]
    refine ⟨[c] ++ x2, by simp, by simp, ?_⟩
    intro d hd
    simp only [List.cons_append, List.nil_append, List.mem_cons] at hd
    rcases hd with rfl | hd
    · exact hc
    · exact (matches_star_single hb true x2).mp h6 d hd
  · rintro ⟨x, hne, rfl, hx⟩
    cases x with
    | nil => exact absurd rfl hne
    | cons c x' =>
      refine ⟨p, (c :: x') ++ t, by simp, (matches_lit p p).mpr rfl, ?_⟩
      rw [matches_seq_iff]
      refine ⟨c :: x', t, rfl, ?_, (matches_lit t t).mpr rfl⟩
      rw [matches_seq_iff]
      exact ⟨[c], x', rfl, (hb _).mpr ⟨c, rfl, hx c (by simp)⟩,
        (matches_star_single hb true x').mpr (fun d hd => hx d (by simp [hd]))⟩

/-- Splitting at an occurrence of `t` at position `i` of `x ++ t`, with `i ≤ |x|`. -/
theorem split_at_occurrence {x t : List Int} {i : Nat} (hi : i ≤ x.length)
    (hocc : t <+: (x ++ t).drop i) :
    ∃ rest, x ++ t = x.take i ++ t ++ rest ∧ rest.length = x.length - i := by
  obtain ⟨rest, hrest⟩ := hocc
  refine ⟨rest, ?_, ?_⟩
  · have := List.take_append_drop i (x ++ t)
    rw [← hrest, List.take_append_of_le_length hi] at this
    rw [← this, List.append_assoc]
  · have := congrArg List.length hrest
    simp only [List.length_append, List.length_drop] at this
    omega

/-- **Shape theorem, `*?`.** For a literal prefix `p`, a body `b` matching one code point per
repetition and a non-empty literal terminator `t`, the non-greedy rule `'p' b*? 't'` matches `s`
(shortest-match semantics) iff `s = p ++ x ++ t` where all of `x` is body and the FIRST occurrence of
`t` in `x ++ t` (the text after the prefix) is the final one – even when `b` can match the
terminator's code points. -/
theorem ng_shape_star {b : Re} {P : Int → Prop} (hb : SingleChar b P) (p t s : List Int) :
    RuleMatches (ngStarRule p b t).hasNG (ngStarRule p b t) s ↔
      ∃ x, s = p ++ x ++ t ∧ (∀ c ∈ x, P c) ∧
        ∀ i, i < x.length → ¬ t <+: (x ++ t).drop i := by
  rw [ngStarRule_hasNG]
  constructor
  · rintro ⟨hm, hnp⟩
    obtain ⟨x, rfl, hx⟩ := (matches_ngStarRule hb p t _).mp hm
    refine ⟨x, rfl, hx, ?_⟩
    intro i hi hocc
    obtain ⟨rest, hsplit, hlen⟩ := split_at_occurrence (Nat.le_of_lt hi) hocc
    apply hnp rfl (p ++ x.take i ++ t) rest
    · rw [List.append_assoc p x t, hsplit]; simp
    · intro he; subst he; simp at hlen; omega
    · exact (matches_ngStarRule hb p t _).mpr
        ⟨x.take i, rfl, fun c hc => hx c (List.mem_of_mem_take hc)⟩
  · rintro ⟨x, rfl, hx, hfirst⟩
    refine ⟨(matches_ngStarRule hb p t _).mpr ⟨x, rfl, hx⟩, ?_⟩
    intro _ u v huv hv hmu
    obtain ⟨x', rfl, _⟩ := (matches_ngStarRule hb p t _).mp hmu
    have h1 : x ++ t = x' ++ (t ++ v) := by
      have : p ++ (x ++ t) = p ++ (x' ++ (t ++ v)) := by simpa using huv
      exact List.append_cancel_left this
    have hlen := congrArg List.length h1
    simp only [List.length_append] at hlen
    have hvl : 0 < v.length := List.length_pos_iff.mpr hv
    apply hfirst x'.length (by omega)
    rw [h1, List.drop_left]
    exact ⟨v, rfl⟩

/-- **Shape theorem, `+?`.** As `ng_shape_star` with at least one repetition: `x ≠ []`, and an
occurrence of `t` at position 0 (before any repetition) does not count. -/
theorem ng_shape_plus {b : Re} {P : Int → Prop} (hb : SingleChar b P) (p t s : List Int) :
    RuleMatches (ngPlusRule p b t).hasNG (ngPlusRule p b t) s ↔
      ∃ x, x ≠ [] ∧ s = p ++ x ++ t ∧ (∀ c ∈ x, P c) ∧
        ∀ i, 1 ≤ i → i < x.length → ¬ t <+: (x ++ t).drop i := by
  rw [ngPlusRule_hasNG]
  constructor
  · rintro ⟨hm, hnp⟩
    obtain ⟨x, hne, rfl, hx⟩ := (matches_ngPlusRule hb p t _).mp hm
    refine ⟨x, hne, rfl, hx, ?_⟩
    intro i hi1 hi hocc
    obtain ⟨rest, hsplit, hlen⟩ := split_at_occurrence (Nat.le_of_lt hi) hocc
    apply hnp rfl (p ++ x.take i ++ t) rest
    · rw [List.append_assoc p x t, hsplit]; simp
    · intro he; subst he; simp at hlen; omega
    · refine (matches_ngPlusRule hb p t _).mpr
        ⟨x.take i, ?_, rfl, fun c hc => hx c (List.mem_of_mem_take hc)⟩
      intro he
      have := congrArg List.length he
      simp only [List.length_take, List.length_nil] at this
      omega
  · rintro ⟨x, hne, rfl, hx, hfirst⟩
    refine ⟨(matches_ngPlusRule hb p t _).mpr ⟨x, hne, rfl, hx⟩, ?_⟩
    intro _ u v huv hv hmu
    obtain ⟨x', hne', rfl, _⟩ := (matches_ngPlusRule hb p t _).mp hmu
    have h1 : x ++ t = x' ++ (t ++ v) := by
      have : p ++ (x ++ t) = p ++ (x' ++ (t ++ v)) := by simpa using huv
      exact List.append_cancel_left this
    have hlen := congrArg List.length h1
    simp only [List.length_append] at hlen
    have hvl : 0 < v.length := List.length_pos_iff.mpr hv
    have hx'l : 0 < x'.length := List.length_pos_iff.mpr hne'
    apply hfirst x'.length (by omega) (by omega)
    rw [h1, List.drop_left]
    exact ⟨v, rfl⟩

end Lox.Lex
