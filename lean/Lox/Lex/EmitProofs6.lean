import Lox.Lex.EmitProofs5
import Lox.Lex.RuntimeProofs
/-! The emitted array under the second reader of the framework, `Lox.Lex.Rt.decodeRow` /
`Rt.wfMode` (`Lox/Lex/Runtime.lean`: the well-formedness under which the theorems of C11 and C07
are proved): every state's row decodes to its flags, sorted triples and pairs, and the array is a
well-formed mode. -/
namespace Lox.Lex.Gen
open Lox.Rang3 (Range cmp)
open Lox.Lex (geti)
open Lox.Table (flattenTriples flattenPairs encodeLexRow)

theorem geti_toArray_nat (a : List Int) (k : Nat) : geti a.toArray (k : Int) = a[k]? := by
  rw [Lox.Lex.geti_ofNat, List.getElem?_toArray]

theorem readTriples_of_drop (a : List Int) : ∀ (ts : List (Int × Int × Int)) (base : Nat)
    (rest : List Int), a.drop base = flattenTriples ts ++ rest →
    Rt.readTriples a.toArray ts.length (base : Int) = some ts := by
  intro ts
  induction ts with
  | nil => intro base rest _; rfl
  | cons t ts ih =>
    intro base rest h
    obtain ⟨b, e, s⟩ := t
    simp only [flattenTriples, List.cons_append] at h
    obtain ⟨h0, h1⟩ := Lox.Table.drop_cons_get h
    obtain ⟨h2, h3⟩ := Lox.Table.drop_cons_get h1
    obtain ⟨h4, h5⟩ := Lox.Table.drop_cons_get h3
    have e1 : (base : Int) + 1 = ((base + 1 : Nat) : Int) := by omega
    have e2 : (base : Int) + 2 = ((base + 1 + 1 : Nat) : Int) := by omega
    have e3 : (base : Int) + 3 = ((base + 1 + 1 + 1 : Nat) : Int) := by omega
    simp only [List.length_cons, Rt.readTriples, e1, e2, e3, geti_toArray_nat, h0, h2, h4,
      ih (base + 1 + 1 + 1) rest h5]

theorem readPairs_of_drop (a : List Int) : ∀ (ps : List (Int × Int)) (base : Nat)
    (rest : List Int), a.drop base = flattenPairs ps ++ rest →
    Rt.readPairs a.toArray ps.length (base : Int) = some ps := by
  intro ps
  induction ps with
  | nil => intro base rest _; rfl
  | cons t ps ih =>
    intro base rest h
    obtain ⟨k, v⟩ := t
    simp only [flattenPairs, List.cons_append] at h
    obtain ⟨h0, h1⟩ := Lox.Table.drop_cons_get h
    obtain ⟨h2, h3⟩ := Lox.Table.drop_cons_get h1
    have e1 : (base : Int) + 1 = ((base + 1 : Nat) : Int) := by omega
    have e2 : (base : Int) + 2 = ((base + 1 + 1 : Nat) : Int) := by omega
    simp only [List.length_cons, Rt.readPairs, e1, e2, geti_toArray_nat, h0, h2,
      ih (base + 1 + 1) rest h3]

theorem decodeRow_core {a : List Int} {q off L : Nat} {f : Int} {ts : List (Int × Int × Int)}
    {ps : List (Int × Int)} {R : List Int} (hget : a[q]? = some (off : Int))
    (hL : L = 2 + 3 * ts.length + 2 * ps.length)
    (hdrop : a.drop off = (L : Int) :: f :: (ts.length : Int) ::
      (flattenTriples ts ++ (flattenPairs ps ++ R))) :
    Rt.decodeRow a.toArray (q : Int) = some ⟨f, ts, ps⟩ := by
  obtain ⟨h0, h1⟩ := Lox.Table.drop_cons_get hdrop
  obtain ⟨h2, h3⟩ := Lox.Table.drop_cons_get h1
  obtain ⟨h4, h5⟩ := Lox.Table.drop_cons_get h3
  have e3 : off + 1 + 1 + 1 = off + 3 := by omega
  rw [e3] at h5
  have htr := readTriples_of_drop a ts (off + 3) _ h5
  have h6 : a.drop (off + 3 + 3 * ts.length) = flattenPairs ps ++ R := by
    have := congrArg (List.drop (3 * ts.length)) h5
    rw [List.drop_drop, List.drop_left' (Lox.Table.flattenTriples_length ts)] at this
    exact this
  have hpa := readPairs_of_drop a ps (off + 3 + 3 * ts.length) _ h6
  unfold Rt.decodeRow
  have e1 : (off : Int) + 1 = ((off + 1 : Nat) : Int) := by omega
  have e2 : (off : Int) + 2 = ((off + 1 + 1 : Nat) : Int) := by omega
  simp only [geti_toArray_nat, hget, e1, e2, h0, h2, h4]
  have hcond : 0 ≤ (ts.length : Int) ∧ 2 + 3 * (ts.length : Int) ≤ (L : Int) ∧
      ((L : Int) - 2 - 3 * (ts.length : Int)) % 2 = 0 := by omega
  simp only [hcond, and_self, ↓reduceIte, Int.toNat_natCast]
  have e4 : (off : Int) + 3 = ((off + 3 : Nat) : Int) := by omega
  have e5 : ((off + 3 : Nat) : Int) + (ts.length : Int) * 3 = ((off + 3 + 3 * ts.length : Nat) : Int) := by
    omega
  have e6 : (((L : Int) - 2 - 3 * (ts.length : Int)) / 2).toNat = ps.length := by omega
  rw [e4, e5, e6, htr, hpa]

theorem decodeRow_of_view {a : List Int} {q off : Nat} {f : Int} {ts : List (Int × Int × Int)}
    {ps : List (Int × Int)} (hget : a[q]? = some (off : Int))
    (hdrop : a.drop off = (((encodeLexRow f ts ps).length : Int) :: encodeLexRow f ts ps) ++
      a.drop (off + 1 + (encodeLexRow f ts ps).length)) :
    Rt.decodeRow a.toArray (q : Int) = some ⟨f, ts, ps⟩ := by
  have hlen := encodeLexRow_length f ts ps
  apply decodeRow_core hget hlen (R := a.drop (off + 1 + (encodeLexRow f ts ps).length))
  rw [hdrop]
  simp [encodeLexRow]

theorem rt_nStates_eq (tbl : Mode) : Rt.nStates tbl = Lox.Lex.nStates tbl := by
  unfold Rt.nStates Lox.Lex.nStates
  cases h : tbl[0]? with
  | none => simp [Array.getD, Array.getElem?_eq_none_iff.1 h |> fun h => Nat.not_lt.2 h]
  | some n =>
    have := Array.getElem?_eq_some_iff.1 h
    obtain ⟨hlt, hv⟩ := this
    simp [Array.getD, hlt, hv]

/-- The row of every state under `Rt.decodeRow`. -/
theorem emit_decodeRow {F : DFA} {acts : Nat → List Pair} {tbl : Mode}
    (h : emitMode F acts = some tbl) {s : Nat} {st : DState} (hst : F.states[s]? = some st) :
    Rt.decodeRow tbl (s : Int) = some ⟨stateFlags st, stateTriples st, acts s⟩ := by
  unfold emitMode Lox.Table.build at h
  cases ha : Lox.Table.addRows {} (emitRows F acts) with
  | none => rw [ha] at h; cases h
  | some t =>
    rw [ha] at h
    simp only [Option.map_some, Option.some.injEq] at h
    subst h
    have hinv : Lox.Table.Inv t (emitRows F acts) := by
      have := Lox.Table.inv_addRows Lox.Table.inv_empty ha
      simpa using this
    obtain ⟨off, hget, hdrop⟩ := Lox.Table.view_of_inv hinv (mem_emitRows (acts := acts) hst)
    exact decodeRow_of_view hget hdrop

theorem rt_sortedFrom_eq (p : Int) (l : List (Int × Int × Int)) :
    Rt.sortedFrom p l = Lox.Lex.sortedFrom p l := by
  induction l generalizing p with
  | nil => rfl
  | cons t l ih =>
    obtain ⟨lo, hi, tg⟩ := t
    simp only [Rt.sortedFrom, Lox.Lex.sortedFrom, ih]

/-- **The emitted array is a well-formed mode** (`Rt.wfMode`, the premise of the runtime theorems
of C11 / C07) when the DFA is well formed over code points, has no transition into state 0, the
pairs of every state have the shape `mode actions…, one terminal action` and state 0 has none. -/
theorem emit_wfMode {F : DFA} {acts : Nat → List Pair} {tbl : Mode} (nModes : Nat)
    (h : emitMode F acts = some tbl) (hn : 0 < F.states.length) (hwf : F.WF) (hr : F.Runes)
    (hno : NoEdgeIntoStart F) (hacts : ∀ s, s < F.states.length → Rt.wfPairs nModes (acts s) = true)
    (h0 : acts 0 = []) : Rt.wfMode nModes tbl = true := by
  obtain ⟨h1, _, _⟩ := emit_rows h hn
  unfold Rt.wfMode
  rw [rt_nStates_eq, h1]
  simp only [Bool.and_eq_true, decide_eq_true_eq, List.all_eq_true, List.mem_range]
  refine ⟨hn, ?_⟩
  intro s hs
  have hst : F.states[s]? = some F.states[s] := List.getElem?_eq_getElem hs
  unfold Rt.wfState
  rw [emit_decodeRow h hst, rt_nStates_eq, h1]
  have hok := transOK_of_wf hwf hr hst
  simp only [Rt.wfRow, Bool.and_eq_true, List.all_eq_true, decide_eq_true_eq, Bool.or_eq_true,
    bne_iff_ne, ne_eq, List.isEmpty_iff]
  refine ⟨⟨⟨?_, ?_⟩, hacts s hs⟩, ?_⟩
  · rw [rt_sortedFrom_eq]; exact hok.sorted
  · intro x hx
    obtain ⟨t, htm, rfl⟩ := hok.mem_triples.1 hx
    have h2 := hno s t (by rw [DFA.trans_of_get hst]; exact htm)
    have h3 := hok.tgt t htm
    simp only [Rt.Triple.target]
    omega
  · by_cases hs0 : s = 0
    · right; rw [hs0]; exact h0
    · left; exact hs0

end Lox.Lex.Gen
