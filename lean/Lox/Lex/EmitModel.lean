import Lox.Lex.GenOpt
import Lox.Lex.Model
import Lox.Lex.Actions
import Lox.Lex.Regex
import Lox.Table.Model
/-! Model of the last step of the lexer generator: the encoding of a mode's DFA into the
`_lexerModeN` array (`internal/codegen/emit_lexer.go`, func `EmitLexer`, closure `mode_table`, and
`internal/codegen/table.go` `newTable`/`AddRow`/`Array`), and the composition with the model of
`ModeBuilder.Build` (`Lox/Lex/GenNFA.lean`, `GenDFA.lean`, `GenOpt.lean`). Core Lean only,
executable.

`mode_table`, per state in ID order:

```go
inputs := keys of state.Transitions            // a map: every key once
slices.SortFunc(inputs, rang3.Compare)
stateFlags = 1 if state.Accept && state.NonGreedy
row = stateFlags, len(inputs), {uint32(input.B), uint32(input.E), Transitions.Get(input).ID}…,
      {actionType, actionParam}…                // of state.Data (the winner of pickAction)
table.AddRow(int(state.ID), row)
```

The model's `DState.trans` is a list of `(key, target)` pairs that stands for the map
`state.Transitions` (`stablemap`, keyed by the input range); `keys` are its distinct keys and
`target` is `Transitions.Get`. -/
namespace Lox.Lex.Gen
open Lox.Rang3 (Range cmp)

/-- Insertion of a key into a list sorted by `rang3.Compare`; a key that is already there
(`Compare = 0`, i.e. the same range) is not inserted twice (keys of a map). -/
def insRangeKey (r : Range) : List Range → List Range
  | [] => [r]
  | x :: xs =>
    if cmp r x < 0 then r :: x :: xs
    else if cmp r x = 0 then x :: xs
    else x :: insRangeKey r xs

/-- `inputs` after `slices.SortFunc(inputs, rang3.Compare)`: the distinct keys of the transition
map in the order of `Compare` (the keys being distinct, every sorting algorithm gives this list). -/
def sortedKeys (ts : List (Range × Nat)) : List Range := (ts.map (·.1)).foldr insRangeKey []

/-- `state.Transitions.Get(input)`; the `assert.True(ok)` cannot fail on a key (`0` is never
used). -/
def target (ts : List (Range × Nat)) (k : Range) : Nat :=
  ((ts.find? fun t => t.1 = k).map (·.2)).getD 0

/-- The `(uint32(input.B), uint32(input.E), toState.ID)` triples of the row. `uint32(x)` is
`x mod 2^32` (`Lox.Table.castU32`); code points are `0..0x10FFFF`, so it changes nothing on the
ranges the generator sees. -/
def stateTriples (s : DState) : List (Int × Int × Int) :=
  (sortedKeys s.trans).map fun k =>
    (Lox.Table.castU32 k.b, Lox.Table.castU32 k.e, (target s.trans k : Int))

/-- `stateFlags`: `_stateNonGreedyAccepting = 1` iff `state.Accept && state.NonGreedy`. -/
def stateFlags (s : DState) : Int := if s.accept && s.ng then 1 else 0

/-- The row of one state; `ps` are the `(actionType, actionParam)` pairs of `state.Data`. -/
def stateRow (s : DState) (ps : List Pair) : List Int :=
  Lox.Table.encodeLexRow (stateFlags s) (stateTriples s) ps

/-- The `AddRow(int(state.ID), row)` calls of `mode_table` in order (`state.ID` is the index in
`DFA.States`). `acts s` are the action pairs of state `s`. -/
def emitRows (F : DFA) (acts : Nat → List Pair) : List (Nat × List Int) :=
  F.states.zipIdx.map fun p => (p.2, stateRow p.1 (acts p.2))

/-- `mode_table(mode)`: the contents of `_lexerModeN`. `none` would be the panic of `AddRow`
("index must be monotonically increasing"; impossible: `emitMode_total`). -/
def emitMode (F : DFA) (acts : Nat → List Pair) : Option Mode :=
  (Lox.Table.build (emitRows F acts)).map List.toArray

/-- The action pairs `mode_table` writes for state `s`: those of the rule `pickAction` selected
(`state.Data`; none when the state has no accepting NFA state). `rules[i].2` are the pairs of rule
`i` (`Lox/Lex/Actions.lean`: `tokenRulePairs` / `fragRulePairs`; a push-mode pair carries the index
of the pushed mode in `_lexerModes`). -/
def statePairs (rules : List (Re × List Pair)) (m : NFA) (F : DFA) (s : Nat) : List Pair :=
  match pickAction m ((F.states[s]?.map (·.nfa)).getD []) with
  | none => []
  | some i => (rules[i]?.map (·.2)).getD []

/-- The whole generator for one mode: `NFACons` of every rule + start state (`modeNFA`),
`ModeBuilder.Build` (`buildDFA`: `normalizeInputs`, `NFAToDFA` with `optimize`, `splitStartState`,
`mergeTransitions`, `pickAction` per state), then `mode_table`. `xs` are the rule bodies as
written, `rules` their `Re` reading and action pairs (only the pairs are used here). `none`: a
panic or the model ran out of fuel (impossible for classes written `lo ≤ hi`:
`Lox.Props.C02.generator_total`). -/
def genMode (xs : List Rx) (rules : List (Re × List Pair)) : Option Mode :=
  match buildDFA (modeNFA xs) with
  | some (.ok F) => emitMode F (statePairs rules (modeNFA xs) F)
  | _ => none

/-! ### Canonical state numbering (for comparing arrays up to the numbering of the states) -/

/-- Rows of an emitted array, decoded: per state `(flags, triples, pairs)`; `none` if the array
is not of the emitted shape. Used only by the driver (`lex.genmode`, canonical form). -/
def decodeAll (a : List Int) : Option (List (Int × List (Int × Int × Int) × List (Int × Int))) :=
  match a with
  | [] => some []
  | n :: _ => (List.range n.toNat).mapM fun s => (Lox.Table.rowAt a s).bind Lox.Table.decodeLexRow

/-- Breadth-first order from state 0 over the triples in row order (they are sorted). -/
def canonOrder (rows : List (Int × List (Int × Int × Int) × List (Int × Int))) :
    Nat → List Nat → List Nat → List Nat
  | 0, _, seen => seen
  | _ + 1, [], seen => seen
  | f + 1, q :: queue, seen =>
    let tg := ((rows.getD q (0, [], [])).2.1).map fun t => t.2.2.toNat
    let r := tg.foldl (fun (acc : List Nat × List Nat) t =>
      if acc.2.contains t then acc else (acc.1 ++ [t], acc.2 ++ [t])) (queue, seen)
    canonOrder rows f r.1 r.2

/-- The array of the same automaton with the states renumbered breadth first from state 0
(states that cannot be reached from state 0 are dropped). -/
def canonMode (a : List Int) : Option (List Int) :=
  match decodeAll a with
  | none => none
  | some rows =>
    if rows.isEmpty then some a else
    let order := canonOrder rows (rows.length + 1) [0] [0]
    let newId (q : Int) : Int := (order.idxOf q.toNat : Nat)
    Lox.Table.build (order.zipIdx.map fun p =>
      let r := rows.getD p.1 (0, [], [])
      (p.2, Lox.Table.encodeLexRow r.1 (r.2.1.map fun t => (t.1, t.2.1, newId t.2.2)) r.2.2))

end Lox.Lex.Gen
