import Lox.Lex.Spec
/-! Characterisation of `label` (earliest matching rule) by indices. -/
namespace Lox.Lex

theorem label_nil (s : List Int) : label [] s = [] := rfl

theorem label_cons_pos {r : Rule} {rest : List Rule} {s : List Int} (h : Matches r.1 s) :
    label (r :: rest) s = r.2 := by
  simp [label, h]

theorem label_cons_neg {r : Rule} {rest : List Rule} {s : List Int} (h : ¬ Matches r.1 s) :
    label (r :: rest) s = label rest s := by
  simp [label, h]

/-- `label rules s` is the pair list of the rule with the least index that matches `s`. -/
theorem label_of_least : ∀ (rules : List Rule) (s : List Int) (i : Nat) (hi : i < rules.length),
    Matches rules[i].1 s → (∀ j (hj : j < i), ¬ Matches (rules[j]'(by omega)).1 s) →
    label rules s = rules[i].2 := by
  intro rules
  induction rules with
  | nil => intro s i hi; simp at hi
  | cons r rest ih =>
    intro s i hi hm hleast
    cases i with
    | zero => exact label_cons_pos hm
    | succ i =>
      have h0 : ¬ Matches r.1 s := hleast 0 (by omega)
      rw [label_cons_neg h0]
      simp only [List.getElem_cons_succ] at hm ⊢
      apply ih s i (by simpa using hi) hm
      intro j hj
      exact hleast (j + 1) (by omega)

theorem label_of_none : ∀ (rules : List Rule) (s : List Int),
    (∀ r ∈ rules, ¬ Matches r.1 s) → label rules s = [] := by
  intro rules
  induction rules with
  | nil => intro s _; rfl
  | cons r rest ih =>
    intro s h
    rw [label_cons_neg (h r (by simp))]
    exact ih s (fun r hr => h r (by simp [hr]))

/-- Either some rule matches and there is a least such index, or none does. -/
theorem least_or_none : ∀ (rules : List Rule) (s : List Int),
    (∃ (i : Nat) (hi : i < rules.length), Matches rules[i].1 s ∧
        ∀ j (hj : j < i), ¬ Matches (rules[j]'(by omega)).1 s) ∨
    (∀ r ∈ rules, ¬ Matches r.1 s) := by
  intro rules
  induction rules with
  | nil => intro s; right; intro r hr; simp at hr
  | cons r rest ih =>
    intro s
    by_cases h : Matches r.1 s
    · left; exact ⟨0, by simp, h, fun j hj => by omega⟩
    · rcases ih s with ⟨i, hi, hm, hleast⟩ | hnone
      · left
        refine ⟨i + 1, by simpa using hi, by simpa using hm, ?_⟩
        intro j hj
        cases j with
        | zero => exact h
        | succ j => simpa using hleast j (by omega)
      · right
        intro r' hr'
        rcases List.mem_cons.mp hr' with rfl | hr'
        · exact h
        · exact hnone r' hr'

/-- If every rule has at least one action pair, the label is empty exactly when no rule matches. -/
theorem label_eq_nil_iff (rules : List Rule) (s : List Int) (hne : ∀ r ∈ rules, r.2 ≠ []) :
    label rules s = [] ↔ ∀ r ∈ rules, ¬ Matches r.1 s := by
  constructor
  · intro h
    rcases least_or_none rules s with ⟨i, hi, hm, hleast⟩ | hnone
    · rw [label_of_least rules s i hi hm hleast] at h
      exact absurd h (hne _ (List.getElem_mem hi))
    · exact hnone
  · exact label_of_none rules s

end Lox.Lex
