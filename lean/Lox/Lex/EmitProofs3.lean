import Lox.Lex.EmitProofs2
/-! `emitMode`: the array `mode_table` emits for a DFA is total, has one offset per state, and
every state's row reads back (`Lox.Lex.rowAt`) as the state's flags, sorted triples and action
pairs; for a well-formed DFA over code points the array is a well-formed table (`wfTable`) whose
decoded automaton (`tableStep`) is the DFA. -/
namespace Lox.Lex.Gen
open Lox.Rang3 (Range cmp)
open Lox.Lex (Triple lookup sortedFrom triplesAt pairsAt)
open Lox.Table (flattenTriples flattenPairs encodeLexRow Tbl addRow addRows lookupIdx array build
  numSlots Inv)

/-! ### The rows added -/

theorem emitRows_idx (F : DFA) (acts : Nat → List Pair) :
    (emitRows F acts).map (·.1) = List.range F.states.length := by
  unfold emitRows
  rw [List.map_map]
  apply List.ext_getElem
  · simp
  · intro i h1 h2
    simp

theorem mem_emitRows {F : DFA} {acts : Nat → List Pair} {s : Nat} {st : DState}
    (h : F.states[s]? = some st) : (s, stateRow st (acts s)) ∈ emitRows F acts := by
  unfold emitRows
  rw [List.mem_map]
  refine ⟨(st, s), ?_, rfl⟩
  rw [List.mem_zipIdx_iff_getElem?]
  simpa using h

theorem numSlots_of_range {rows : List (Nat × List Int)} {n : Nat}
    (h : rows.map (·.1) = List.range n) : numSlots rows = n := by
  have h1 : (rows.map (·.1)).getLast? = (List.range n).getLast? := by rw [h]
  rw [List.getLast?_map, List.getLast?_range] at h1
  unfold numSlots
  cases hl : rows.getLast? with
  | none =>
    rw [hl] at h1
    simp only [Option.map_none] at h1
    split at h1
    · show 0 = n
      omega
    · cases h1
  | some x =>
    rw [hl] at h1
    simp only [Option.map_some] at h1
    split at h1
    · cases h1
    · simp only [Option.some.injEq] at h1
      obtain ⟨i, r⟩ := x
      show i + 1 = n
      simp only at h1
      omega

/-- `AddRow` never panics in `mode_table`: the state IDs are `0, 1, 2, …`. -/
theorem emitMode_total (F : DFA) (acts : Nat → List Pair) : ∃ tbl, emitMode F acts = some tbl := by
  unfold emitMode build
  have h := @Lox.Table.addRows_isSome (emitRows F acts) {}
  have : (addRows {} (emitRows F acts)).isSome := by
    apply h.2
    rw [emitRows_idx]
    refine ⟨?_, List.pairwise_lt_range⟩
    intro i _
    show (-1 : Int) < (i : Int)
    omega
  cases ha : addRows {} (emitRows F acts) with
  | none => rw [ha] at this; cases this
  | some t => exact ⟨_, rfl⟩

/-! ### The first row is stored first -/

theorem addRow_lookupIdx_old {t t' : Tbl} {i : Nat} {row : List Int} (h : addRow t i row = some t')
    {j : Nat} (hj : (j : Int) ≤ t.maxIndex) : lookupIdx t'.index j = lookupIdx t.index j := by
  unfold addRow at h
  split at h
  · cases h
  · rename_i hi
    have hne : i ≠ j := by omega
    split at h <;> (cases h; simp only [Lox.Table.lookupIdx_cons, hne, ↓reduceIte])

theorem addRows_lookupIdx_old : ∀ (rows : List (Nat × List Int)) {t t' : Tbl},
    addRows t rows = some t' → ∀ {j : Nat}, (j : Int) ≤ t.maxIndex →
    lookupIdx t'.index j = lookupIdx t.index j := by
  intro rows
  induction rows with
  | nil => intro t t' h j _; simp only [addRows, Option.some.injEq] at h; subst h; rfl
  | cons x rest ih =>
    intro t t' h j hj
    obtain ⟨i, row⟩ := x
    simp only [addRows] at h
    cases ha : addRow t i row with
    | none => rw [ha] at h; cases h
    | some t1 =>
      rw [ha] at h
      have hm := Lox.Table.addRow_maxIndex ha
      have hi : t.maxIndex < (i : Int) := (Lox.Table.addRow_isSome t i row).1 (by rw [ha]; rfl)
      rw [ih h (by omega), addRow_lookupIdx_old ha hj]

theorem addRows_first {row : List Int} {rest : List (Nat × List Int)} {t : Tbl}
    (h : addRows {} ((0, row) :: rest) = some t) : lookupIdx t.index 0 = some 0 := by
  simp only [addRows] at h
  cases ha : addRow {} 0 row with
  | none => rw [ha] at h; cases h
  | some t1 =>
    rw [ha] at h
    have h1 : lookupIdx t1.index 0 = some 0 := by
      unfold addRow at ha
      simp only [Lox.Table.lookupRow, List.find?_nil, Option.map_none] at ha
      split at ha
      · cases ha
      · cases ha
        rfl
    have hm := Lox.Table.addRow_maxIndex ha
    rw [addRows_lookupIdx_old rest h (by omega), h1]

/-! ### Reading the emitted array -/

/-- The shape of the emitted array: `tbl[0]` is the number of states (the row of state 0 is stored
right behind the offset vector) and the row of every state decodes to what was encoded. -/
theorem emit_rows {F : DFA} {acts : Nat → List Pair} {tbl : Mode} (h : emitMode F acts = some tbl)
    (hn : 0 < F.states.length) :
    Lox.Lex.nStates tbl = F.states.length ∧ F.states.length ≤ tbl.size ∧
    ∀ s st, F.states[s]? = some st →
      Lox.Lex.rowAt tbl s = some ⟨stateFlags st, stateTriples st, acts s⟩ := by
  unfold emitMode at h
  cases hb : build (emitRows F acts) with
  | none => rw [hb] at h; cases h
  | some a =>
    rw [hb] at h
    simp only [Option.map_some, Option.some.injEq] at h
    subst h
    have hslots := numSlots_of_range (emitRows_idx F acts)
    have hb' := hb
    unfold build at hb'
    cases ha : addRows {} (emitRows F acts) with
    | none => rw [ha] at hb'; cases hb'
    | some t =>
      rw [ha] at hb'
      simp only [Option.map_some, Option.some.injEq] at hb'
      subst hb'
      have hinv : Inv t (emitRows F acts) := by
        have := Lox.Table.inv_addRows Lox.Table.inv_empty ha
        simpa using this
      have hmax : (t.maxIndex + 1).toNat = F.states.length := by
        rw [Lox.Table.addRows_numSlots ha, hslots]
      refine ⟨?_, ?_, ?_⟩
      · -- tbl[0] = n
        obtain ⟨st0, hst0⟩ : ∃ st0, F.states[0]? = some st0 :=
          ⟨F.states[0], List.getElem?_eq_getElem hn⟩
        have hm := mem_emitRows (acts := acts) hst0
        obtain ⟨off, hoff, _, hget⟩ := hinv.offset hm
        have hfirst : lookupIdx t.index 0 = some 0 := by
          cases hrows : emitRows F acts with
          | nil => rw [hrows] at hm; cases hm
          | cons x rest =>
            have hidx := emitRows_idx F acts
            rw [hrows, List.map_cons] at hidx
            have hx : x.1 = 0 := by
              have := congrArg List.head? hidx
              simp only [List.head?_cons, List.head?_range] at this
              split at this
              · omega
              · simpa using this
            obtain ⟨i, r⟩ := x
            simp only at hx
            subst hx
            rw [hrows] at ha
            exact addRows_first ha
        rw [hfirst] at hoff
        cases hoff
        unfold Lox.Lex.nStates
        have : (array t).toArray.getD 0 0 = ((0 + (t.maxIndex + 1).toNat : Nat) : Int) := by
          rw [getD_toArray]
          simp [List.getD, hget]
        rw [this, hmax]
        simp
      · have := Lox.Table.array_length t
        simp only [List.size_toArray]
        omega
      · intro s st hst
        obtain ⟨off, hget, hdrop⟩ := Lox.Table.view_of_inv hinv (mem_emitRows (acts := acts) hst)
        exact rowAt_of_view hget hdrop

end Lox.Lex.Gen
