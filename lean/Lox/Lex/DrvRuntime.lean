import Lox.Drv.Common
import Lox.Lex.Runtime
/-! Driver op of the runtime well-formedness checker (core Lean only).

`lex.wfmodes mode0 ; mode1 ; …`   answer: `ok` when `wfModes` (the hypothesis of the C11 / C07
runtime theorems, `Lox/Lex/Runtime.lean`) holds of the table, else `fail <reason>` where the
reason names the first mode / state / check that fails. The verdict is `wfModes` itself; the
reason is only a diagnostic. -/
namespace Lox.Lex.Rt
open Lox.Drv

/-- Name of the first failing conjunct of `wfRow`. -/
def rowWhy (nModes n s : Nat) (row : Row) : String :=
  if !sortedFrom (-1) row.triples then "ranges-unsorted-or-negative"
  else if !row.triples.all (fun t => decide (t.target < (n : Int)) && decide (0 ≤ t.target)) then
    "target-out-of-range"
  else if !row.triples.all (fun t => decide (0 < t.target)) then "edge-into-start-state"
  else if s == 0 && !row.pairs.isEmpty then "start-state-accepting"
  else if !wfPairs nModes row.pairs then "bad-action-section"
  else "?"

def modeWhy (nModes : Nat) (m : Mode) : String :=
  if nStates m = 0 then "no-states"
  else
    match (List.range (nStates m)).find? (fun s => !wfState nModes m s) with
    | none => "?"
    | some s =>
      "state=" ++ toString s ++ " " ++
        match decodeRow m s with
        | none => "row-undecodable"
        | some row => rowWhy nModes (nStates m) s row

def modesWhy (modes : Array Mode) : String :=
  if modes.size = 0 then "no-modes"
  else
    match (List.range modes.size).find? (fun i => !wfMode modes.size (modes[i]?.getD #[])) with
    | none => "?"
    | some i => "mode=" ++ toString i ++ " " ++ modeWhy modes.size (modes[i]?.getD #[])

def parseModesR (s : String) : Option (Array Mode) :=
  ((s.splitOn ";").mapM fun m => (parseInts m).map List.toArray).map List.toArray

def handleRuntime (op payload : String) : Option String :=
  match op with
  | "lex.wfmodes" => do
    let modes ← parseModesR payload
    if wfModes modes then some "ok" else some ("fail " ++ modesWhy modes)
  | _ => none

end Lox.Lex.Rt
