import Lox.Lex.EmitProofs4
import Lox.Lex.GenTotalProofs
/-! The automaton `ModeBuilder.Build` returns for rules over code points (`Rx.runesOK`) has only
code-point labels (`DFA.Runes`), and for rules without non-greedy operators (`Rx.greedy`) no state
is marked `NonGreedy` (`DFA.Greedy`): both facts travel through `normalizeInputs`, the subset
construction, `optimize`, `splitStartState` and `mergeTransitions`. -/
namespace Lox.Lex.Gen
open Lox.Rang3 (Range Den Valid)

/-- `0 ≤ b` and `e ≤ 0x10FFFF`. -/
def RuneRange (r : Range) : Prop := 0 ≤ r.b ∧ r.e ≤ Lox.Lex.maxRune

mutual
/-- Every literal code point and every class bound is a code point `0..0x10FFFF` (what the lox
front end produces: `unescape` / `hexToRune` reject anything else). -/
def Rx.runesOK : Rx → Bool
  | .lit cps => cps.all fun c => decide (0 ≤ c) && decide (c ≤ Lox.Lex.maxRune)
  | .cls cs => cs.all fun r => decide (0 ≤ r.1) && decide (r.2 ≤ Lox.Lex.maxRune)
  | .seq r s => r.runesOK && s.runesOK
  | .alt r rest => r.runesOK && rest.runesOK
  | .opt r => r.runesOK
  | .star _ r => r.runesOK
  | .plus _ r => r.runesOK
def Alts.runesOK : Alts → Bool
  | .last r => r.runesOK
  | .more r rest => r.runesOK && rest.runesOK
end

mutual
/-- No `*?` / `+?` in the expression. -/
def Rx.greedy : Rx → Bool
  | .lit _ => true
  | .cls _ => true
  | .seq r s => r.greedy && s.greedy
  | .alt r rest => r.greedy && rest.greedy
  | .opt r => r.greedy
  | .star ng r => !ng && r.greedy
  | .plus ng r => !ng && r.greedy
def Alts.greedy : Alts → Bool
  | .last r => r.greedy
  | .more r rest => r.greedy && rest.greedy
end

/-! ### Thompson construction -/

theorem litEdges_runes (cps : List Int) (h : ∀ c ∈ cps, 0 ≤ c ∧ c ≤ Lox.Lex.maxRune) (p : Nat) :
    ∀ ed ∈ litEdges cps p, ∀ r, ed.lbl = some r → RuneRange r := by
  induction cps generalizing p with
  | nil => intro ed h; simp [litEdges] at h
  | cons c cs ih =>
    intro ed hm r hr
    simp only [litEdges, List.mem_cons] at hm
    rcases hm with rfl | hm
    · simp only [Option.some.injEq] at hr; subst hr; exact h c (by simp)
    · exact ih (fun c' hc' => h c' (by simp [hc'])) (p + 1) ed hm r hr

theorem clsEdges_runes (cs : Cls) (hv : ∀ x ∈ cs, 0 ≤ x.1 ∧ x.2 ≤ Lox.Lex.maxRune) (b e p : Nat) :
    ∀ ed ∈ clsEdges cs b e p, ∀ r, ed.lbl = some r → RuneRange r := by
  induction cs generalizing p with
  | nil => intro ed h; simp [clsEdges] at h
  | cons x cs ih =>
    intro ed h r hr
    simp only [clsEdges, List.mem_cons] at h
    rcases h with rfl | rfl | rfl | h
    · simp only [Option.some.injEq] at hr; subst hr; exact hv x (by simp)
    · cases hr
    · cases hr
    · exact ih (fun y hy => hv y (by simp [hy])) (p + 2) ed h r hr

mutual
theorem th_labels_runes : ∀ (r : Rx) (n : Nat), r.runesOK = true →
    ∀ ed ∈ (th r n).edges, ∀ x, ed.lbl = some x → RuneRange x
  | .lit cps, n, hok => by
    simp only [Rx.runesOK, List.all_eq_true, Bool.and_eq_true, decide_eq_true_eq] at hok
    simp only [th]; exact litEdges_runes cps hok n
  | .cls cs, n, hok => by
    simp only [Rx.runesOK, Bool.and_eq_true, List.all_eq_true, decide_eq_true_eq] at hok
    simp only [th]; exact clsEdges_runes cs hok n (n + 1) (n + 2)
  | .seq r s, n, hok => by
    simp only [Rx.runesOK, Bool.and_eq_true] at hok
    intro ed h x hx
    simp only [th, List.mem_append, List.mem_singleton] at h
    rcases h with (h | h) | rfl
    · exact th_labels_runes r n hok.1 ed h x hx
    · exact th_labels_runes s _ hok.2 ed h x hx
    · cases hx
  | .alt r rest, n, hok => by
    simp only [Rx.runesOK, Bool.and_eq_true] at hok
    intro ed h x hx
    simp only [th, List.mem_append, List.mem_cons, List.not_mem_nil, or_false] at h
    rcases h with (h | rfl | rfl) | h
    · exact th_labels_runes r _ hok.1 ed h x hx
    · cases hx
    · cases hx
    · exact thAlts_labels_runes rest _ _ _ hok.2 ed h x hx
  | .opt r, n, hok => by
    simp only [Rx.runesOK] at hok
    intro ed h x hx
    simp only [th, List.mem_append, List.mem_cons, List.not_mem_nil, or_false] at h
    rcases h with h | rfl | rfl | rfl
    · exact th_labels_runes r n hok ed h x hx
    all_goals cases hx
  | .star ng r, n, hok => by
    simp only [Rx.runesOK] at hok
    intro ed h x hx
    simp only [th, List.mem_append, List.mem_cons, List.not_mem_nil, or_false] at h
    rcases h with h | rfl | rfl | rfl | rfl
    · exact th_labels_runes r n hok ed h x hx
    all_goals cases hx
  | .plus ng r, n, hok => by
    simp only [Rx.runesOK] at hok
    intro ed h x hx
    simp only [th, List.mem_append, List.mem_cons, List.not_mem_nil, or_false] at h
    rcases h with h | rfl | rfl | rfl
    · exact th_labels_runes r n hok ed h x hx
    all_goals cases hx
theorem thAlts_labels_runes : ∀ (a : Alts) (b e n : Nat), a.runesOK = true →
    ∀ ed ∈ (thAlts a b e n).edges, ∀ x, ed.lbl = some x → RuneRange x
  | .last r, b, e, n, hok => by
    simp only [Alts.runesOK] at hok
    intro ed h x hx
    simp only [thAlts, List.mem_append, List.mem_cons, List.not_mem_nil, or_false] at h
    rcases h with h | rfl | rfl
    · exact th_labels_runes r n hok ed h x hx
    all_goals cases hx
  | .more r rest, b, e, n, hok => by
    simp only [Alts.runesOK, Bool.and_eq_true] at hok
    intro ed h x hx
    simp only [thAlts, List.mem_append, List.mem_cons, List.not_mem_nil, or_false] at h
    rcases h with (h | rfl | rfl) | h
    · exact th_labels_runes r n hok.1 ed h x hx
    · cases hx
    · cases hx
    · exact thAlts_labels_runes rest _ _ _ hok.2 ed h x hx
end

mutual
theorem th_ng_nil : ∀ (r : Rx) (n : Nat), r.greedy = true → (th r n).ng = []
  | .lit _, _, _ => rfl
  | .cls _, _, _ => rfl
  | .seq r s, n, h => by
    simp only [Rx.greedy, Bool.and_eq_true] at h
    simp only [th, th_ng_nil r n h.1, th_ng_nil s _ h.2, List.append_nil]
  | .alt r rest, n, h => by
    simp only [Rx.greedy, Bool.and_eq_true] at h
    simp only [th, th_ng_nil r _ h.1, thAlts_ng_nil rest _ _ _ h.2, List.append_nil]
  | .opt r, n, h => by
    simp only [Rx.greedy] at h
    simp only [th, th_ng_nil r n h]
  | .star ng r, n, h => by
    simp only [Rx.greedy, Bool.and_eq_true, Bool.not_eq_true'] at h
    simp only [th, th_ng_nil r n h.2, h.1, List.nil_append, Bool.false_eq_true, ↓reduceIte]
  | .plus ng r, n, h => by
    simp only [Rx.greedy, Bool.and_eq_true, Bool.not_eq_true'] at h
    simp only [th, th_ng_nil r n h.2, h.1, List.nil_append, Bool.false_eq_true, ↓reduceIte]
theorem thAlts_ng_nil : ∀ (a : Alts) (b e n : Nat), a.greedy = true → (thAlts a b e n).ng = []
  | .last r, b, e, n, h => by
    simp only [Alts.greedy] at h
    simp only [thAlts, th_ng_nil r n h]
  | .more r rest, b, e, n, h => by
    simp only [Alts.greedy, Bool.and_eq_true] at h
    simp only [thAlts, th_ng_nil r n h.1, thAlts_ng_nil rest _ _ _ h.2, List.append_nil]
end

theorem modeNFA_runes (rules : List Rx) (hok : ∀ r ∈ rules, r.runesOK = true) :
    ∀ ed ∈ (modeNFA rules).edges, ∀ x, ed.lbl = some x → RuneRange x := by
  intro ed hed x hl
  simp only [modeNFA, List.mem_append, List.mem_flatMap, List.mem_map] at hed
  rcases hed with ⟨g, hg, hedg⟩ | ⟨g, _, rfl⟩
  · obtain ⟨j, hj⟩ := List.mem_iff_getElem?.1 hg
    obtain ⟨r', m', hr', hg', _⟩ := ruleFrags_get rules 0 j g hj
    subst hg'
    exact th_labels_runes r' m' (hok r' (List.mem_of_getElem? hr')) ed hedg x hl
  · cases hl

theorem modeNFA_ng_nil (rules : List Rx) (hg : ∀ r ∈ rules, r.greedy = true) :
    (modeNFA rules).ng = [] := by
  simp only [modeNFA, List.flatMap_eq_nil_iff]
  intro g hgm
  obtain ⟨j, hj⟩ := List.mem_iff_getElem?.1 hgm
  obtain ⟨r', m', hr', hg', _⟩ := ruleFrags_get rules 0 j g hj
  subst hg'
  exact th_ng_nil r' m' (hg r' (List.mem_of_getElem? hr'))

/-! ### `normalizeInputs`: labels stay inside the old labels (by the runs it preserves) -/

theorem pathN_chr_edge {E : List Edge} {k p q : Nat} {w : List Int} (h : PathN E k p w q) :
    ∀ c ∈ w, ∃ ed ∈ E, ∃ rg, ed.lbl = some rg ∧ rg.b ≤ c ∧ c ≤ rg.e := by
  induction h with
  | nil p => intro c hc; cases hc
  | eps _ _ ih => exact ih
  | chr he h1 h2 _ ih =>
    intro c hc
    rcases List.mem_cons.1 hc with rfl | hc
    · exact ⟨_, he, _, rfl, h1, h2⟩
    · exact ih c hc

theorem normalized_runes (m m' : NFA) (hval : ValidLabels m'.edges)
    (hpath : ∀ p w q, Path m'.edges p w q ↔ Path m.edges p w q)
    (hr : ∀ ed ∈ m.edges, ∀ x, ed.lbl = some x → RuneRange x) :
    ∀ ed ∈ m'.edges, ∀ x, ed.lbl = some x → RuneRange x := by
  intro ed hed x hx
  have hv : x.b ≤ x.e := hval x ((mem_labels _ x).2 ⟨ed, hed, hx⟩)
  obtain ⟨src, lbl, dst⟩ := ed
  simp only at hx
  subst hx
  have hpt : ∀ c, x.b ≤ c → c ≤ x.e → ∃ rg, RuneRange rg ∧ rg.b ≤ c ∧ c ≤ rg.e := by
    intro c h1 h2
    have hp : Path m'.edges src [c] dst := ⟨1, PathN.chr hed h1 h2 (PathN.nil dst)⟩
    obtain ⟨k, hk⟩ := (hpath _ _ _).1 hp
    obtain ⟨ed2, hed2, rg, hl2, h3, h4⟩ := pathN_chr_edge hk c (by simp)
    exact ⟨rg, hr ed2 hed2 rg hl2, h3, h4⟩
  obtain ⟨r1, ⟨h1, _⟩, h2, _⟩ := hpt x.b (Int.le_refl _) hv
  obtain ⟨r2, ⟨_, h3⟩, _, h4⟩ := hpt x.e hv (Int.le_refl _)
  exact ⟨by omega, by omega⟩

/-! ### Labels and `NonGreedy` marks of a DFA, stage by stage -/

/-- Every transition label of every state satisfies `P`. -/
def DFA.LabelsP (P : Range → Prop) (d : DFA) : Prop := ∀ st ∈ d.states, ∀ t ∈ st.trans, P t.1

/-- No state is marked `NonGreedy`. -/
def DFA.NoNG (d : DFA) : Prop := ∀ st ∈ d.states, st.ng = false

theorem subset_labelsP {P : Range → Prop} (m : NFA) (fuel : Nat) (d : DFA)
    (h : subset m fuel = some d) (hP : ∀ ed ∈ m.edges, ∀ x, ed.lbl = some x → P x) :
    d.LabelsP P := by
  simp only [subset, Option.map_eq_some_iff] at h
  obtain ⟨seen, _, rfl⟩ := h
  intro st hst t ht
  obtain ⟨S, _, rfl⟩ := List.mem_map.1 hst
  simp only [mkDState, List.mem_map] at ht
  obtain ⟨a, ha, rfl⟩ := ht
  obtain ⟨ed, hed, _, hl⟩ := (mem_inputs _ _ _).1 ha
  exact hP ed hed a hl

theorem subset_noNG (m : NFA) (fuel : Nat) (d : DFA) (h : subset m fuel = some d)
    (hng : m.ng = []) : d.NoNG := by
  simp only [subset, Option.map_eq_some_iff] at h
  obtain ⟨seen, _, rfl⟩ := h
  intro st hst
  obtain ⟨S, _, rfl⟩ := List.mem_map.1 hst
  simp [mkDState, hng]

theorem quotient_labelsP {P : Range → Prop} (d : DFA) (gs : Groups) (h : d.LabelsP P) :
    (quotient d gs).LabelsP P := by
  intro st hst t ht
  obtain ⟨i, hi⟩ := List.mem_iff_getElem?.1 hst
  have hlt : i < gs.length := by
    rcases Nat.lt_or_ge i gs.length with hlt | hge
    · exact hlt
    · rw [List.getElem?_eq_none (by rw [quotient_length]; exact hge)] at hi; cases hi
  rw [quotient_get d gs i hlt] at hi
  cases hi
  simp only [List.mem_map] at ht
  obtain ⟨⟨a, v⟩, hm, rfl⟩ := ht
  obtain ⟨s, hs, _, t', ht', _⟩ := (groupState_trans d gs _).1 a v hm
  have hst' : d.states[s]? = some d.states[s] := List.getElem?_eq_getElem hs
  rw [DFA.trans_of_get hst'] at ht'
  exact h _ (List.mem_of_getElem? hst') (a, t') ht'

theorem quotient_noNG (d : DFA) (gs : Groups) (h : d.NoNG) : (quotient d gs).NoNG := by
  intro st hst
  obtain ⟨i, hi⟩ := List.mem_iff_getElem?.1 hst
  have hlt : i < gs.length := by
    rcases Nat.lt_or_ge i gs.length with hlt | hge
    · exact hlt
    · rw [List.getElem?_eq_none (by rw [quotient_length]; exact hge)] at hi; cases hi
  rw [quotient_get d gs i hlt] at hi
  cases hi
  simp only [groupState, List.any_eq_false]
  intro s _
  cases hs : d.states[s]? with
  | none => simp
  | some st' => simp [h st' (List.mem_of_getElem? hs)]

theorem optimize_keeps {Q : DFA → Prop} (m : NFA) (d d' : DFA) (h : optimize m d = .ok d')
    (hQ : Q d) (hq : ∀ gs, Q (quotient d gs)) : Q d' := by
  unfold optimize at h
  simp only at h
  split at h
  · cases h; exact hQ
  · split at h
    · cases h
    · split at h
      · cases h; exact hq _
      · cases h

theorem splitStart_labelsP {P : Range → Prop} (d : DFA) (h : d.LabelsP P) :
    (splitStart d).LabelsP P := by
  unfold splitStart
  cases h0 : d.states[0]? with
  | none => exact h
  | some start =>
    simp only
    split
    · intro st hst t ht
      simp only [List.mem_map, List.mem_append, List.mem_singleton] at hst
      obtain ⟨st0, hst0, rfl⟩ := hst
      simp only [redirect, List.mem_map] at ht
      obtain ⟨t0, ht0, rfl⟩ := ht
      rcases hst0 with hst0 | rfl
      · exact h st0 hst0 t0 ht0
      · exact h _ (List.mem_of_getElem? h0) t0 ht0
    · exact h

theorem splitStart_noNG (d : DFA) (h : d.NoNG) : (splitStart d).NoNG := by
  unfold splitStart
  cases h0 : d.states[0]? with
  | none => exact h
  | some start =>
    simp only
    split
    · intro st hst
      simp only [List.mem_map, List.mem_append, List.mem_singleton] at hst
      obtain ⟨st0, hst0, rfl⟩ := hst
      simp only [redirect]
      rcases hst0 with hst0 | rfl
      · exact h st0 hst0
      · exact h _ (List.mem_of_getElem? h0)
    · exact h

theorem mergeTransitions_noNG (d : DFA) (h : d.NoNG) : (mergeTransitions d).NoNG := by
  intro st hst
  simp only [mergeTransitions, List.mem_map] at hst
  obtain ⟨st0, hst0, rfl⟩ := hst
  simp only [mergeState]
  exact h st0 hst0

/-- `mergeTransitions` replaces the labels leading to one target by their `rang3.Flatten`: every
new label is non-empty (`WF` of the result) and covered by old labels, so its ends are code
points. -/
theorem mergeTransitions_runes (d : DFA) (hwf : d.WF) (h : d.LabelsP RuneRange) :
    (mergeTransitions d).Runes := by
  obtain ⟨hFwf, _⟩ := mergeTransitions_correct d hwf
  intro s x hx
  have hv := hFwf.valid s x hx
  rw [mergeTransitions_trans] at hx
  cases hst : d.states[s]? with
  | none => rw [hst] at hx; simp at hx
  | some st =>
    rw [hst] at hx
    simp only [Option.map_some, Option.getD_some] at hx
    obtain ⟨r, q⟩ := x
    obtain ⟨_, hr⟩ := (mem_mergeState st r q).1 hx
    have hvst : ∀ t ∈ st.trans, t.1.b ≤ t.1.e := by
      intro t ht
      exact hwf.valid s t (by rw [DFA.trans_of_get hst]; exact ht)
    have hmem := List.mem_of_getElem? hst
    have hpt : ∀ c, r.b ≤ c → c ≤ r.e → ∃ a : Range, RuneRange a ∧ a.b ≤ c ∧ c ≤ a.e := by
      intro c h1 h2
      obtain ⟨a, ha, h3, h4⟩ := (mergedLabels_den st hvst q c).1 ⟨r, hr, h1, h2⟩
      exact ⟨a, h st hmem (a, q) ha, h3, h4⟩
    simp only at hv
    obtain ⟨r1, ⟨h1, _⟩, h2, _⟩ := hpt r.b (Int.le_refl _) hv
    obtain ⟨r2, ⟨_, h3⟩, _, h4⟩ := hpt r.e hv (Int.le_refl _)
    exact ⟨by simp only; omega, by simp only; omega⟩

theorem greedy_of_noNG (d : DFA) (h : d.NoNG) : d.Greedy := by
  intro st hst
  rw [h st hst]
  simp

/-! ### The whole of `Build` -/

/-- **The automaton of `Build` is fit for `mode_table`**: well formed, not empty, no transition
into state 0, all labels code points (for rules over code points), no `NonGreedy` mark (for rules
without `*?` / `+?`). -/
theorem buildDFA_shape (rules : List Rx) (hne : rules ≠ []) (hok : ∀ r ∈ rules, r.clsOK = true)
    (F : DFA) (h : buildDFA (modeNFA rules) = some (.ok F)) :
    F.WF ∧ 0 < F.states.length ∧ NoEdgeIntoStart F ∧
    ((∀ r ∈ rules, r.runesOK = true) → F.Runes) ∧
    ((∀ r ∈ rules, r.greedy = true) → F.Greedy) := by
  obtain ⟨hFwf, hno, hrun⟩ := buildDFA_correct rules hne hok F h
  have hpos : 0 < F.states.length := by
    obtain ⟨_, h2⟩ := hrun []
    obtain ⟨st, hst, _⟩ := h2 0 rfl
    rcases Nat.eq_zero_or_pos F.states.length with h0 | h0
    · rw [List.getElem?_eq_none (by omega)] at hst; cases hst
    · exact h0
  obtain ⟨m', hm', _, _, hng, _, hpd, hval, hpath⟩ :=
    normalizeNFA_spec (modeNFA rules) (modeNFA_validLabels rules hok)
  simp only [buildDFA, hm', Option.bind_some, Option.map_eq_some_iff] at h
  obtain ⟨d, hd, hres⟩ := h
  obtain ⟨hdwf, hdacc⟩ := subset_wf m' hpd hval _ d hd
  cases hopt : optimize m' d with
  | panic msg => rw [hopt] at hres; cases hres
  | fuel => rw [hopt] at hres; cases hres
  | ok d' =>
    rw [hopt] at hres
    simp only [OptRes.ok.injEq] at hres
    subst hres
    obtain ⟨hd'wf, _⟩ := optimize_correct m' d hdwf hdacc d' hopt
    obtain ⟨_, hswf, _⟩ := splitStart_correct d' hd'wf
    refine ⟨hFwf, hpos, hno, ?_, ?_⟩
    · intro hr
      have h1 := normalized_runes (modeNFA rules) m' hval hpath (modeNFA_runes rules hr)
      have h2 := subset_labelsP m' _ d hd h1
      have h3 : d'.LabelsP RuneRange :=
        optimize_keeps (Q := DFA.LabelsP RuneRange) m' d d' hopt h2 fun gs => quotient_labelsP d gs h2
      exact mergeTransitions_runes _ hswf (splitStart_labelsP d' h3)
    · intro hg
      have h1 : m'.ng = [] := by rw [hng]; exact modeNFA_ng_nil rules hg
      have h2 := subset_noNG m' _ d hd h1
      have h3 : d'.NoNG :=
        optimize_keeps (Q := DFA.NoNG) m' d d' hopt h2 fun gs => quotient_noNG d gs h2
      exact greedy_of_noNG _ (mergeTransitions_noNG _ (splitStart_noNG d' h3))

end Lox.Lex.Gen
