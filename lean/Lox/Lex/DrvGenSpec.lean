import Lox.Drv.Common
import Lox.Lex.DrvGen
import Lox.Lex.DrvEmit
import Lox.Lex.GenSpecModel
/-! Driver op of the whole-specification generator model (family `lexgenspec`,
harness/drv/ops_lexgenspec.go).

`lex.genmodes <item> | <item> | …`
    The lexer statements of all files of a specification, flattened; items:
    `file`                        a new file begins (the first item)
    `tok NAME : <rule> : <acts>`  token rule; `<rule>` in the rich prefix code of `lex.build`
    `frag : <rule> : <acts>`      `@frag` rule
    `ext A B …`                   `@external`
    `mac NAME`                    `@macro` (its body is inlined in the rules that use it)
    `mode NAME` … `end`           a `@mode` block (rule items in between)
    `other NAME` / `other`        a parser rule / a statement without a name
    `<acts>`: `push=NAME` (`push=-` is `@push_mode()`), `pop`, `emit=NAME`, `disc`, space separated.
    Answer: `rejected` for `genModes = none`, else the arrays of `_lexerModes` in order, each
    renumbered breadth first from state 0 (`canonMode`, as for `lex.genmode`), separated by ` | `. -/
namespace Lox.Lex.GenSpec
open Lox.Drv Lox.Lex.Gen

def parseAct (t : String) : Option LAct :=
  match t.splitOn "=" with
  | ["pop"] => some .popMode
  | ["disc"] => some .discard
  | ["push", n] => some (.pushMode (if n = "-" then defaultName else n))
  | ["emit", n] => some (.emit n)
  | _ => none

def parseActs (s : String) : Option (List LAct) := (fields s ' ').mapM parseAct

inductive Item where
  | file
  | rule (r : LRule)
  | modeBegin (n : String)
  | modeEnd
  | other (n : Option String)

def parseItem (s : String) : Option Item :=
  match (s.splitOn ":").map fun t => t.trimAscii.toString with
  | [hd, code, acts] =>
    match fields hd ' ' with
    | ["tok", n] => do
      let b ← parseRule code
      let a ← parseActs acts
      some (.rule (.token n b a))
    | ["frag"] => do
      let b ← parseRule code
      let a ← parseActs acts
      some (.rule (.frag b a))
    | _ => none
  | [hd] =>
    match fields hd ' ' with
    | ["file"] => some .file
    | "ext" :: ns => some (.rule (.external ns))
    | ["mac", n] => some (.rule (.macro n))
    | ["mode", n] => some (.modeBegin n)
    | ["end"] => some .modeEnd
    | ["other", n] => some (.other (some n))
    | ["other"] => some (.other none)
    | _ => none
  | _ => none

def isRule : Item → Option LRule
  | .rule r => some r
  | _ => none

/-- The statements of one file (`fuel` ≥ number of items). -/
def buildFile : Nat → List Item → Option LFile
  | _, [] => some []
  | 0, _ => none
  | f + 1, .rule r :: rest => (buildFile f rest).map (LStmt.rule r :: ·)
  | f + 1, .other n :: rest => (buildFile f rest).map (LStmt.other n :: ·)
  | f + 1, .modeBegin n :: rest =>
    let body := rest.takeWhile fun i => (isRule i).isSome
    match rest.dropWhile fun i => (isRule i).isSome with
    | .modeEnd :: after => (buildFile f after).map (LStmt.mode n (body.filterMap isRule) :: ·)
    | _ => none
  | _, _ => none

/-- Split at the `file` markers (the first item must be one). -/
def splitFiles : List Item → List (List Item) → Option (List (List Item))
  | [], acc => some acc.reverse
  | .file :: rest, acc => splitFiles rest ([] :: acc)
  | i :: rest, cur :: acc => splitFiles rest ((cur ++ [i]) :: acc)
  | _ :: _, [] => none

def parseSpec (payload : String) : Option LSpec := do
  let items ← ((payload.splitOn "|").filter fun t => !t.trimAscii.toString.isEmpty).mapM parseItem
  let files ← splitFiles items []
  files.mapM fun f => buildFile (f.length + 1) f

def handleGenSpec (op payload : String) : Option String :=
  match op with
  | "lex.genmodes" => do
    let s ← parseSpec payload
    match genModes s with
    | none => some "rejected"
    | some modes =>
      some (" | ".intercalate (modes.toList.map fun a =>
        match canonMode a.toList with
        | none => "undecodable"
        | some c => showInts c))
  | _ => none

end Lox.Lex.GenSpec
