import Lox.Lex.MunchProofs
import Lox.Lex.BisimNGProofs
/-! Maximal munch for modes with non-greedy rules: instances of the generic theorems of
`MunchProofs.lean` for the specification `(viableNG, labelNG)`. -/
namespace Lox.Lex

theorem tableSpec_of_closedNG {rules : List Rule} {tbl : Mode} {R : List Cfg}
    (hC : ClosedNG rules tbl R) : TableSpec tbl (viableNG rules) (labelNG rules) := by
  refine ⟨hC.wf, ?_, ?_⟩
  · intro s
    rw [closedNG_sound hC s]
    unfold specRunNG
    by_cases hv : viableNG rules s <;> simp [hv]
  · intro s ps h
    rw [closedNG_sound hC s] at h
    unfold specRunNG at h
    by_cases hv : viableNG rules s
    · simp only [hv, ↓reduceIte, Option.some.injEq] at h; exact h.symm
    · simp [hv] at h

end Lox.Lex
