import Lox.Lex.BisimNG
import Lox.Lex.BisimProofs
/-! Soundness of the validator for modes with non-greedy rules (`bisimNG`). -/
namespace Lox.Lex

/-! ### Uniformity and dead vectors -/

theorem vecBounds_cons (ts : List Re) (v : List (List Re)) :
    vecBounds (ts :: v) = (ts.flatMap fun t => (firstCls t).flatMap clsBounds) ++ vecBounds v := by
  simp [vecBounds]

theorem stepSet_congr (ng : Bool) (c c' : Int) (ts : List Re)
    (h : SamePiece (ts.flatMap fun t => (firstCls t).flatMap clsBounds) c c') :
    stepSet ng c ts = stepSet ng c' ts := by
  unfold stepSet
  split
  · rfl
  · apply pdSet_congr
    intro t ht cs hcs
    apply inCls_congr
    apply h.mono
    intro b hb
    simp only [List.mem_flatMap]
    exact ⟨t, ht, cs, hcs, hb⟩

theorem pdVecNG_samePiece (c c' : Int) : ∀ (ngs : List Bool) (v : List (List Re)),
    SamePiece (vecBounds v) c c' → pdVecNG ngs c v = pdVecNG ngs c' v := by
  intro ngs
  induction ngs with
  | nil => intro v _; cases v <;> rfl
  | cons ng ngs ih =>
    intro v h
    cases v with
    | nil => rfl
    | cons ts v =>
      rw [vecBounds_cons] at h
      simp only [pdVecNG]
      rw [stepSet_congr ng c c' ts (h.mono (by intro b hb; simp [hb])),
        ih v (h.mono (by intro b hb; simp [hb]))]

theorem stepSet_nil (ng : Bool) (c : Int) : stepSet ng c [] = [] := by
  simp [stepSet, pdSet_nil]

theorem vecDead_pdVecNG (c : Int) : ∀ (ngs : List Bool) (v : List (List Re)),
    vecDead v = true → vecDead (pdVecNG ngs c v) = true := by
  intro ngs
  induction ngs with
  | nil => intro v _; cases v <;> rfl
  | cons ng ngs ih =>
    intro v h
    cases v with
    | nil => rfl
    | cons ts v =>
      simp only [vecDead, List.all_cons, Bool.and_eq_true, List.isEmpty_iff] at h
      obtain ⟨h1, h2⟩ := h
      subst h1
      simp only [pdVecNG, stepSet_nil, vecDead, List.all_cons, List.isEmpty_nil, Bool.true_and]
      exact ih v h2

def pdVecNGW (ngs : List Bool) (w : List Int) (v : List (List Re)) : List (List Re) :=
  w.foldl (fun v c => pdVecNG ngs c v) v

theorem pdVecNGW_cons (ngs : List Bool) (c : Int) (w : List Int) (v : List (List Re)) :
    pdVecNGW ngs (c :: w) v = pdVecNGW ngs w (pdVecNG ngs c v) := rfl

theorem vecDead_pdVecNGW (ngs : List Bool) (w : List Int) : ∀ (v : List (List Re)),
    vecDead v = true → vecDead (pdVecNGW ngs w v) = true := by
  induction w with
  | nil => intro v h; exact h
  | cons c w ih => intro v h; rw [pdVecNGW_cons]; exact ih _ (vecDead_pdVecNG c ngs v h)

/-! ### What the checker establishes -/

def CfgOKNG (ngs : List Bool) (pss : List (List Pair)) (tbl : Mode) (R : List Cfg) (q : Nat)
    (v : List (List Re)) : Prop :=
  ∃ row, rowAt tbl q = some row ∧ row.acts = labelOf pss v ∧
    ∀ c : Int,
      match tableStep tbl q c with
      | none => vecDead (pdVecNG ngs c v) = true
      | some q' => vecDead (pdVecNG ngs c v) = false ∧ (q', pdVecNG ngs c v) ∈ R

theorem checkCfgNG_sound {ngs : List Bool} {pss : List (List Pair)} {tbl : Mode} {R : List Cfg}
    {q : Nat} {v : List (List Re)} {n : Nat}
    (h : checkCfgNG ngs pss tbl (mkIndex n R) (q, v) = true) : CfgOKNG ngs pss tbl R q v := by
  unfold checkCfgNG at h
  simp only at h
  split at h
  · simp at h
  · rename_i row hrow
    simp only [Bool.and_eq_true, decide_eq_true_eq, List.all_eq_true] at h
    obtain ⟨hacts, hall⟩ := h
    refine ⟨row, hrow, hacts, ?_⟩
    intro c
    obtain ⟨c', hc', hsame⟩ := reps_cover (rowBounds row ++ vecBounds v) c
    have hl : lookup row.trs c = lookup row.trs c' :=
      lookup_congr (hsame.mono (by intro b hb; simp only [rowBounds] at *; simp [hb]))
    have hp : pdVecNG ngs c v = pdVecNG ngs c' v :=
      pdVecNG_samePiece c c' ngs v (hsame.mono (by intro b hb; simp [hb]))
    have hstep : tableStep tbl q c =
        (if row.flags % 2 = 0 then (lookup row.trs c').map Int.toNat else none) := by
      simp only [tableStep, hrow, hl]
    have := hall c' hc'
    rw [hstep, hp]
    split at this
    · rename_i hnone
      rw [hnone]; exact this
    · rename_i q' hsome
      rw [hsome]
      simp only [Bool.and_eq_true, Bool.not_eq_true'] at this
      exact ⟨this.1, mkIndex_has this.2⟩

structure ClosedNG (rules : List Rule) (tbl : Mode) (R : List Cfg) : Prop where
  wf : wfTable tbl = true
  rulesOK : rulesOK rules = true
  init : (0, initVec rules) ∈ R
  step : ∀ q v, (q, v) ∈ R → CfgOKNG (rules.map (·.1.hasNG)) (rules.map (·.2)) tbl R q v

theorem checkAllNG_sound {rules : List Rule} {tbl : Mode} {R : List Cfg}
    (h : checkAllNG rules tbl R = true) : ClosedNG rules tbl R := by
  unfold checkAllNG at h
  simp only [Bool.and_eq_true, List.all_eq_true] at h
  obtain ⟨⟨⟨hwf, hrules⟩, hinit⟩, hall⟩ := h
  exact ⟨hwf, hrules, mkIndex_has hinit, fun q v hqv => checkCfgNG_sound (hall (q, v) hqv)⟩

theorem bisimNGN_ok {rules : List Rule} {tbl : Mode} {n : Nat} (h : bisimNGN rules tbl = .ok n) :
    ∃ R, checkAllNG rules tbl R = true := by
  unfold bisimNGN at h
  split at h
  · cases h
  · split at h
    · cases h
    · split at h
      · cases h
      · split at h
        · cases h
        · simp only at h
          split at h
          · cases h
          · rename_i R _
            split at h
            · rename_i hc; exact ⟨_, hc⟩
            · split at h <;> cases h

theorem bisimNG_ok {rules : List Rule} {tbl : Mode} (h : bisimNG rules tbl = .ok ()) :
    ∃ R, ClosedNG rules tbl R := by
  unfold bisimNG at h
  cases hb : bisimNGN rules tbl with
  | error e => rw [hb] at h; cases h
  | ok n =>
    obtain ⟨R, hR⟩ := bisimNGN_ok hb
    exact ⟨R, checkAllNG_sound hR⟩

theorem run_inv_ng {rules : List Rule} {tbl : Mode} {R : List Cfg} (hC : ClosedNG rules tbl R) :
    ∀ (s : List Int) (q : Nat) (v : List (List Re)), (q, v) ∈ R → vecDead v = false →
      match tableRunFrom tbl q s with
      | none => vecDead (pdVecNGW (rules.map (·.1.hasNG)) s v) = true
      | some q' => vecDead (pdVecNGW (rules.map (·.1.hasNG)) s v) = false ∧
          (q', pdVecNGW (rules.map (·.1.hasNG)) s v) ∈ R := by
  intro s
  induction s with
  | nil => intro q v hqv hd; exact ⟨hd, hqv⟩
  | cons c s ih =>
    intro q v hqv hd
    obtain ⟨row, _, _, hstep⟩ := hC.step q v hqv
    have hc := hstep c
    simp only [tableRunFrom, pdVecNGW_cons]
    split at hc
    · rename_i hnone
      rw [hnone]
      exact vecDead_pdVecNGW _ s _ hc
    · rename_i q' hsome
      rw [hsome]
      exact ih q' _ hc.2 hc.1

/-! ### Proper prefixes -/

theorem noProperPrefix_nil (r : Re) : NoProperPrefix r [] := by
  intro u v h hv
  have : v = [] := by
    have := congrArg List.length h
    simp only [List.length_nil, List.length_append] at this
    exact List.eq_nil_of_length_eq_zero (by omega)
  exact absurd this hv

theorem noProperPrefix_of_append {r : Re} {u t : List Int} (h : NoProperPrefix r (u ++ t)) :
    NoProperPrefix r u := by
  intro a b hab hb
  apply h a (b ++ t)
  · rw [hab, List.append_assoc]
  · intro he
    exact hb (List.append_eq_nil_iff.mp he).1

theorem not_matches_of_noProperPrefix_snoc {r : Re} {u : List Int} {c : Int}
    (h : NoProperPrefix r (u ++ [c])) : ¬ Matches r u :=
  h u [c] rfl (by simp)

theorem noProperPrefix_snoc {r : Re} {u : List Int} {c : Int} (h : NoProperPrefix r u)
    (hu : ¬ Matches r u) : NoProperPrefix r (u ++ [c]) := by
  intro a b hab hb
  rcases List.eq_nil_or_concat b with hnil | ⟨b', x, hbx⟩
  · exact absurd hnil hb
  · subst hbx
    rw [List.concat_eq_append, ← List.append_assoc] at hab
    have hinj := List.append_inj' hab rfl
    obtain ⟨h1, _⟩ := hinj
    by_cases hb' : b' = []
    · subst hb'
      simp only [List.append_nil] at h1
      subst h1; exact hu
    · exact h a b' h1 hb'

/-- Among the extensions of `u` matched by `r` there is a shortest one. -/
theorem exists_shortest_ext (r : Re) : ∀ (w u : List Int), NoProperPrefix r u →
    Matches r (u ++ w) →
    ∃ w' w2, w = w' ++ w2 ∧ Matches r (u ++ w') ∧ NoProperPrefix r (u ++ w') := by
  intro w
  induction w with
  | nil =>
    intro u hu hm
    exact ⟨[], [], rfl, hm, by simpa using hu⟩
  | cons c w ih =>
    intro u hu hm
    by_cases hmu : Matches r u
    · exact ⟨[], c :: w, rfl, by simpa using hmu, by simpa using hu⟩
    · have hu' := noProperPrefix_snoc (c := c) hu hmu
      have hm' : Matches r ((u ++ [c]) ++ w) := by simpa using hm
      obtain ⟨w', w2, hw, hmw, hnp⟩ := ih (u ++ [c]) hu' hm'
      refine ⟨c :: w', w2, by simp [hw], by simpa using hmw, by simpa using hnp⟩

/-! ### The term sets represent the (shortest-match) residual languages -/

/-- A non-greedy rule is still alive after `u` if no proper prefix of `u` matched. -/
def Alive (r : Re) (u : List Int) : Prop := r.hasNG = true → NoProperPrefix r u

def RepOne (ts : List Re) (r : Re) (u : List Int) : Prop :=
  (Alive r u → (∀ w, SetMatches ts w ↔ Matches r (u ++ w)) ∧ ∀ t ∈ ts, t.clsOK = true) ∧
  (¬ Alive r u → ts = [])

def RepNG : List (List Re) → List Rule → List Int → Prop
  | [], [], _ => True
  | ts :: v, r :: rs, u => RepOne ts r.1 u ∧ RepNG v rs u
  | _, _, _ => False

theorem repNG_init : ∀ (rules : List Rule), (∀ r ∈ rules, r.1.clsOK = true) →
    RepNG (initVec rules) rules [] := by
  intro rules
  induction rules with
  | nil => intro _; trivial
  | cons r rs ih =>
    intro h
    refine ⟨⟨?_, ?_⟩, ih (fun r hr => h r (by simp [hr]))⟩
    · intro _
      refine ⟨by intro w; simp [SetMatches], ?_⟩
      intro t ht
      simp only [List.mem_singleton] at ht
      subst ht
      exact h r (by simp)
    · intro hna
      exact absurd (fun _ => noProperPrefix_nil r.1) hna

theorem nullable_of_rep {ts : List Re} {r : Re} {u : List Int}
    (h : ∀ w, SetMatches ts w ↔ Matches r (u ++ w)) : ts.any nullable = true ↔ Matches r u := by
  have := h []
  simp only [List.append_nil] at this
  rw [← this, List.any_eq_true]
  constructor
  · rintro ⟨t, ht, hm⟩; exact ⟨t, ht, (nullable_iff t).mp hm⟩
  · rintro ⟨t, ht, hm⟩; exact ⟨t, ht, (nullable_iff t).mpr hm⟩

theorem repOne_step {ts : List Re} {r : Re} {u : List Int} (c : Int) (h : RepOne ts r u) :
    RepOne (stepSet r.hasNG c ts) r (u ++ [c]) := by
  obtain ⟨halive, hdead⟩ := h
  constructor
  · intro ha'
    have ha : Alive r u := fun hng => noProperPrefix_of_append (ha' hng)
    obtain ⟨hrep, hcls⟩ := halive ha
    have hstep : stepSet r.hasNG c ts = pdSet c ts := by
      unfold stepSet
      cases hng : r.hasNG with
      | false => simp
      | true =>
        have hnm : ¬ Matches r u := not_matches_of_noProperPrefix_snoc (ha' hng)
        have : ts.any nullable = false := by
          cases hn : ts.any nullable with
          | false => rfl
          | true => exact absurd ((nullable_of_rep hrep).mp hn) hnm
        simp [this]
    rw [hstep]
    refine ⟨?_, clsOK_pdSet c ts hcls⟩
    intro w
    rw [pdSet_iff, hrep]
    simp
  · intro hna'
    have hng : r.hasNG = true := by
      cases hng : r.hasNG with
      | true => rfl
      | false => exact absurd (fun h => by rw [hng] at h; cases h) hna'
    by_cases ha : Alive r u
    · obtain ⟨hrep, _⟩ := halive ha
      by_cases hm : Matches r u
      · have := (nullable_of_rep hrep).mpr hm
        simp [stepSet, hng, this]
      · exact absurd (fun _ => noProperPrefix_snoc (ha hng) hm) hna'
    · rw [hdead ha]; exact stepSet_nil _ c

theorem repNG_step (c : Int) (u : List Int) : ∀ (v : List (List Re)) (rules : List Rule),
    RepNG v rules u → RepNG (pdVecNG (rules.map (·.1.hasNG)) c v) rules (u ++ [c]) := by
  intro v
  induction v with
  | nil => intro rules h; cases rules with
    | nil => trivial
    | cons _ _ => exact h.elim
  | cons ts v ih =>
    intro rules h
    cases rules with
    | nil => exact h.elim
    | cons r rs =>
      obtain ⟨h1, h2⟩ := h
      exact ⟨repOne_step c h1, ih rs h2⟩

theorem repNG_word {rules : List Rule} (s : List Int) : ∀ (u : List Int) (v : List (List Re)),
    RepNG v rules u → RepNG (pdVecNGW (rules.map (·.1.hasNG)) s v) rules (u ++ s) := by
  induction s with
  | nil => intro u v h; simpa [pdVecNGW] using h
  | cons c s ih =>
    intro u v h
    rw [pdVecNGW_cons]
    have := ih (u ++ [c]) _ (repNG_step c u v rules h)
    simpa using this

theorem repOne_viable {ts : List Re} {r : Re} {u : List Int} (h : RepOne ts r u) :
    (∃ t, RuleMatches r.hasNG r (u ++ t)) ↔ ts ≠ [] := by
  obtain ⟨halive, hdead⟩ := h
  constructor
  · rintro ⟨t, hm, hnp⟩
    have ha : Alive r u := fun hng => noProperPrefix_of_append (hnp hng)
    obtain ⟨hrep, _⟩ := halive ha
    obtain ⟨x, hx, _⟩ := (hrep t).mpr hm
    intro he; subst he; simp at hx
  · intro hne
    have ha : Alive r u := by
      by_cases ha : Alive r u
      · exact ha
      · exact absurd (hdead ha) hne
    obtain ⟨hrep, hcls⟩ := halive ha
    obtain ⟨w, hw⟩ := setMatches_of_clsOK hcls hne
    have hm := (hrep w).mp hw
    cases hng : r.hasNG with
    | false => exact ⟨w, hm, fun h => by cases h⟩
    | true =>
      obtain ⟨w', _, _, hmw, hnp⟩ := exists_shortest_ext r w u (ha hng) hm
      exact ⟨w', hmw, fun _ => hnp⟩

theorem repOne_label {ts : List Re} {r : Re} {u : List Int} (h : RepOne ts r u) :
    RuleMatches r.hasNG r u ↔ ts.any nullable = true := by
  obtain ⟨halive, hdead⟩ := h
  constructor
  · rintro ⟨hm, hnp⟩
    obtain ⟨hrep, _⟩ := halive hnp
    exact (nullable_of_rep hrep).mpr hm
  · intro hn
    have hne : ts ≠ [] := by intro he; subst he; simp at hn
    have ha : Alive r u := by
      by_cases ha : Alive r u
      · exact ha
      · exact absurd (hdead ha) hne
    obtain ⟨hrep, _⟩ := halive ha
    exact ⟨(nullable_of_rep hrep).mp hn, ha⟩

theorem repNG_viable (u : List Int) : ∀ (v : List (List Re)) (rules : List Rule),
    RepNG v rules u → (viableNG rules u ↔ vecDead v = false) := by
  intro v
  induction v with
  | nil =>
    intro rules h
    cases rules with
    | nil => simp [viableNG, vecDead]
    | cons _ _ => exact h.elim
  | cons ts v ih =>
    intro rules h
    cases rules with
    | nil => exact h.elim
    | cons r rs =>
      obtain ⟨h1, h2⟩ := h
      have hv : viableNG (r :: rs) u ↔
          (∃ t, RuleMatches r.1.hasNG r.1 (u ++ t)) ∨ viableNG rs u := by
        simp [viableNG]
      rw [hv, ih rs h2, repOne_viable h1]
      simp only [vecDead, List.all_cons, Bool.and_eq_false_iff]
      constructor
      · rintro (h | h)
        · left; cases ts with
          | nil => exact absurd rfl h
          | cons _ _ => rfl
        · right; exact h
      · rintro (h | h)
        · left; intro he; subst he; simp at h
        · right; exact h

theorem repNG_label (u : List Int) : ∀ (v : List (List Re)) (rules : List Rule),
    RepNG v rules u → labelNG rules u = labelOf (rules.map (·.2)) v := by
  intro v
  induction v with
  | nil =>
    intro rules h
    cases rules with
    | nil => rfl
    | cons _ _ => exact h.elim
  | cons ts v ih =>
    intro rules h
    cases rules with
    | nil => exact h.elim
    | cons r rs =>
      obtain ⟨h1, h2⟩ := h
      have hm := repOne_label h1
      simp only [labelNG, List.map_cons, labelOf]
      by_cases hn : ts.any nullable = true
      · simp [hn, hm.mpr hn]
      · have : ¬ RuleMatches r.1.hasNG r.1 u := fun h => hn (hm.mp h)
        simp [hn, this, ih rs h2]

/-- Main lemma for non-greedy modes. -/
theorem closedNG_sound {rules : List Rule} {tbl : Mode} {R : List Cfg}
    (hC : ClosedNG rules tbl R) (s : List Int) : tableRun tbl s = specRunNG rules s := by
  obtain ⟨hne, hok⟩ := rulesOK_iff.mp hC.rulesOK
  have hrun := run_inv_ng hC s 0 (initVec rules) hC.init (initVec_not_dead hne)
  have hrep : RepNG (pdVecNGW (rules.map (·.1.hasNG)) s (initVec rules)) rules s := by
    simpa using repNG_word s [] _ (repNG_init rules (fun r hr => (hok r hr).1))
  have hvi := repNG_viable s _ rules hrep
  have hla := repNG_label s _ rules hrep
  unfold tableRun specRunNG
  split at hrun
  · rename_i hnone
    have : ¬ viableNG rules s := by rw [hvi, hrun]; simp
    simp [hnone, this]
  · rename_i q' hsome
    obtain ⟨hnd, hmem⟩ := hrun
    obtain ⟨row, hrow, hacts, _⟩ := hC.step q' _ hmem
    have : viableNG rules s := hvi.mpr hnd
    simp [hsome, this, rowPairs, hrow, hacts, hla]

end Lox.Lex
