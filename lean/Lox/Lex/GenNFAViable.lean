import Lox.Lex.GenNFASound
/-! Every state of a Thompson fragment can reach the exit (when every class is non-empty): the
mode NFA has no dead states, so "some NFA state is reachable by `w`" is the same as "`w` is a
prefix of a word matched by some rule". -/
namespace Lox.Lex.Gen
open Lox.Rang3 (Range)

theorem litEdges_coreach : ∀ (cps : List Int) (p p' : Nat), p ≤ p' → p' ≤ p + cps.length →
    ∃ v, Path (litEdges cps p) p' v (p + cps.length) := by
  intro cps
  induction cps with
  | nil =>
    intro p p' h1 h2
    have : p' = p := by simp only [List.length_nil] at h2; omega
    subst this
    exact ⟨[], Path.refl _ _⟩
  | cons c cs ih =>
    intro p p' h1 h2
    rcases Nat.eq_or_lt_of_le h1 with rfl | hlt
    · exact ⟨_, litEdges_path _ (c :: cs) p (fun _ h => h)⟩
    · simp only [List.length_cons] at h2
      obtain ⟨v, hv⟩ := ih (p + 1) p' (by omega) (by omega)
      refine ⟨v, ?_⟩
      rw [show p + (c :: cs).length = p + 1 + cs.length by simp only [List.length_cons]; omega]
      exact hv.mono (fun ed h => by simp [litEdges, h])

theorem clsEdges_get : ∀ (cs : Cls) (b e p i : Nat) (r : Int × Int), cs[i]? = some r →
    (⟨p + 2 * i, some ⟨r.1, r.2⟩, p + 2 * i + 1⟩ : Edge) ∈ clsEdges cs b e p ∧
      (⟨b, none, p + 2 * i⟩ : Edge) ∈ clsEdges cs b e p ∧
      (⟨p + 2 * i + 1, none, e⟩ : Edge) ∈ clsEdges cs b e p := by
  intro cs
  induction cs with
  | nil => intro b e p i r h; simp at h
  | cons r0 cs ih =>
    intro b e p i r h
    cases i with
    | zero =>
      simp only [List.getElem?_cons_zero, Option.some.injEq] at h
      subst h
      simp [clsEdges]
    | succ i =>
      simp only [List.getElem?_cons_succ] at h
      obtain ⟨h1, h2, h3⟩ := ih b e (p + 2) i r h
      rw [show p + 2 * (i + 1) = p + 2 + 2 * i by omega]
      exact ⟨by simp [clsEdges, h1], by simp [clsEdges, h2], by simp [clsEdges, h3]⟩

theorem cls_coreach (cs : Cls) (n : Nat) (hne : cs ≠ []) (hv : ∀ r ∈ cs, r.1 ≤ r.2) :
    ∀ p, n ≤ p → p < n + 2 + 2 * cs.length →
      ∃ v, Path (clsEdges cs n (n + 1) (n + 2)) p v (n + 1) := by
  intro p h1 h2
  have hget : ∀ i, i < cs.length → ∃ r, cs[i]? = some r ∧ r.1 ≤ r.2 := by
    intro i hi
    exact ⟨cs[i], List.getElem?_eq_getElem hi, hv _ (List.getElem_mem hi)⟩
  -- from an inner state of branch `i`
  have hbranch : ∀ i, i < cs.length →
      (∃ v, Path (clsEdges cs n (n + 1) (n + 2)) (n + 2 + 2 * i) v (n + 1)) ∧
      (∃ v, Path (clsEdges cs n (n + 1) (n + 2)) (n + 2 + 2 * i + 1) v (n + 1)) := by
    intro i hi
    obtain ⟨r, hr, hle⟩ := hget i hi
    obtain ⟨e1, _, e3⟩ := clsEdges_get cs n (n + 1) (n + 2) i r hr
    exact ⟨⟨[r.1], Path.chr e1 (Int.le_refl _) hle (Path.eps_edge e3)⟩, ⟨[], Path.eps_edge e3⟩⟩
  by_cases hp0 : p = n
  · subst hp0
    have hpos : 0 < cs.length := by
      cases cs with
      | nil => exact absurd rfl hne
      | cons _ _ => simp
    obtain ⟨r, hr, _⟩ := hget 0 hpos
    obtain ⟨_, e2, _⟩ := clsEdges_get cs p (p + 1) (p + 2) 0 r hr
    obtain ⟨v, hv⟩ := (hbranch 0 hpos).1
    exact ⟨v, Path.eps e2 hv⟩
  by_cases hp1 : p = n + 1
  · subst hp1; exact ⟨[], Path.refl _ _⟩
  · have hi : (p - (n + 2)) / 2 < cs.length := by omega
    rcases Nat.mod_two_eq_zero_or_one (p - (n + 2)) with hm | hm
    · have : p = n + 2 + 2 * ((p - (n + 2)) / 2) := by omega
      rw [this]; exact (hbranch _ hi).1
    · have : p = n + 2 + 2 * ((p - (n + 2)) / 2) + 1 := by omega
      rw [this]; exact (hbranch _ hi).2

mutual
theorem th_coreach : ∀ (r : Rx) (n : Nat), r.clsOK = true → ∀ p, n ≤ p → p < (th r n).next →
    ∃ v, Path (th r n).edges p v (th r n).e
  | .lit cps, n, _, p, h1, h2 => by
    simp only [th] at h2 ⊢
    exact litEdges_coreach cps n p h1 (by omega)
  | .cls cs, n, hok, p, h1, h2 => by
    simp only [th] at h2 ⊢
    simp only [Rx.clsOK, Bool.and_eq_true, Bool.not_eq_true', List.all_eq_true,
      decide_eq_true_eq] at hok
    refine cls_coreach cs n ?_ (fun r hr => hok.2 r hr) p h1 h2
    intro h; rw [h] at hok; simp at hok
  | .seq r s, n, hok, p, h1, h2 => by
    simp only [Rx.clsOK, Bool.and_eq_true] at hok
    have wf := th_wf r n
    have wg := th_wf s (th r n).next
    have := wf.hb; have := wf.he; have := wg.hb; have := wg.he
    simp only [th] at h2 ⊢
    have monof : ∀ ed ∈ (th r n).edges, ed ∈ (th r n).edges ++ (th s (th r n).next).edges ++
        [⟨(th r n).e, none, (th s (th r n).next).b⟩] := fun ed h => by simp [h]
    have monog : ∀ ed ∈ (th s (th r n).next).edges, ed ∈ (th r n).edges ++
        (th s (th r n).next).edges ++ [⟨(th r n).e, none, (th s (th r n).next).b⟩] :=
      fun ed h => by simp [h]
    rcases Nat.lt_or_ge p (th r n).next with hlt | hge
    · obtain ⟨v1, hv1⟩ := th_coreach r n hok.1 p h1 hlt
      obtain ⟨v2, hv2⟩ := th_coreach s (th r n).next hok.2 (th s (th r n).next).b (by omega) (by omega)
      exact ⟨v1 ++ v2, (hv1.mono monof).trans (Path.eps (by simp) (hv2.mono monog))⟩
    · obtain ⟨v, hv⟩ := th_coreach s (th r n).next hok.2 p hge h2
      exact ⟨v, hv.mono monog⟩
  | .alt r rest, n, hok, p, h1, h2 => by
    simp only [Rx.clsOK, Bool.and_eq_true] at hok
    have wf := th_wf r (n + 2)
    have := wf.hb; have := wf.he
    simp only [th] at h2 ⊢
    have monof : ∀ ed ∈ (th r (n + 2)).edges, ed ∈ (th r (n + 2)).edges ++
        [⟨n, none, (th r (n + 2)).b⟩, ⟨(th r (n + 2)).e, none, n + 1⟩] ++
        (thAlts rest n (n + 1) (th r (n + 2)).next).edges := fun ed h => by simp [h]
    have monog : ∀ ed ∈ (thAlts rest n (n + 1) (th r (n + 2)).next).edges,
        ed ∈ (th r (n + 2)).edges ++
        [⟨n, none, (th r (n + 2)).b⟩, ⟨(th r (n + 2)).e, none, n + 1⟩] ++
        (thAlts rest n (n + 1) (th r (n + 2)).next).edges := fun ed h => by simp [h]
    have hfrom : ∀ p, n + 2 ≤ p → p < (th r (n + 2)).next → ∃ v, Path ((th r (n + 2)).edges ++
        [⟨n, none, (th r (n + 2)).b⟩, ⟨(th r (n + 2)).e, none, n + 1⟩] ++
        (thAlts rest n (n + 1) (th r (n + 2)).next).edges) p v (n + 1) := by
      intro p h1 h2
      obtain ⟨v, hv⟩ := th_coreach r (n + 2) hok.1 p h1 h2
      refine ⟨v ++ [], (hv.mono monof).trans (Path.eps_edge (by simp))⟩
    by_cases hp0 : p = n
    · subst hp0
      obtain ⟨v, hv⟩ := hfrom (th r (p + 2)).b (by omega) (by omega)
      exact ⟨v, Path.eps (by simp) hv⟩
    by_cases hp1 : p = n + 1
    · subst hp1; exact ⟨[], Path.refl _ _⟩
    rcases Nat.lt_or_ge p (th r (n + 2)).next with hlt | hge
    · exact hfrom p (by omega) hlt
    · obtain ⟨v, hv⟩ := thAlts_coreach rest n (n + 1) (th r (n + 2)).next hok.2 p hge h2
      exact ⟨v, hv.mono monog⟩
  | .opt r, n, hok, p, h1, h2 => by
    simp only [Rx.clsOK] at hok
    have wf := th_wf r n
    have := wf.hb; have := wf.he
    simp only [th] at h2 ⊢
    have hfrom : ∀ p, n ≤ p → p < (th r n).next → ∃ v, Path ((th r n).edges ++
        [⟨(th r n).next, none, (th r n).next + 1⟩, ⟨(th r n).next, none, (th r n).b⟩,
          ⟨(th r n).e, none, (th r n).next + 1⟩]) p v ((th r n).next + 1) := by
      intro p h1 h2
      obtain ⟨v, hv⟩ := th_coreach r n hok p h1 h2
      exact ⟨v ++ [], (hv.mono (fun ed h => by simp [h])).trans (Path.eps_edge (by simp))⟩
    rcases Nat.lt_or_ge p (th r n).next with hlt | hge
    · exact hfrom p h1 hlt
    · by_cases hp0 : p = (th r n).next
      · subst hp0; exact ⟨[], Path.eps_edge (by simp)⟩
      · have : p = (th r n).next + 1 := by omega
        subst this; exact ⟨[], Path.refl _ _⟩
  | .star ng r, n, hok, p, h1, h2 => by
    simp only [Rx.clsOK] at hok
    have wf := th_wf r n
    have := wf.hb; have := wf.he
    simp only [th] at h2 ⊢
    have hfrom : ∀ p, n ≤ p → p < (th r n).next → ∃ v, Path ((th r n).edges ++
        [⟨(th r n).next, none, (th r n).next + 1⟩, ⟨(th r n).next, none, (th r n).b⟩,
          ⟨(th r n).e, none, (th r n).b⟩, ⟨(th r n).e, none, (th r n).next + 1⟩])
        p v ((th r n).next + 1) := by
      intro p h1 h2
      obtain ⟨v, hv⟩ := th_coreach r n hok p h1 h2
      exact ⟨v ++ [], (hv.mono (fun ed h => by simp [h])).trans (Path.eps_edge (by simp))⟩
    rcases Nat.lt_or_ge p (th r n).next with hlt | hge
    · exact hfrom p h1 hlt
    · by_cases hp0 : p = (th r n).next
      · subst hp0; exact ⟨[], Path.eps_edge (by simp)⟩
      · have : p = (th r n).next + 1 := by omega
        subst this; exact ⟨[], Path.refl _ _⟩
  | .plus ng r, n, hok, p, h1, h2 => by
    simp only [Rx.clsOK] at hok
    have wf := th_wf r n
    have := wf.hb; have := wf.he
    simp only [th] at h2 ⊢
    have hfrom : ∀ p, n ≤ p → p < (th r n).next → ∃ v, Path ((th r n).edges ++
        [⟨(th r n).next, none, (th r n).b⟩,
          ⟨(th r n).e, none, (th r n).b⟩, ⟨(th r n).e, none, (th r n).next + 1⟩])
        p v ((th r n).next + 1) := by
      intro p h1 h2
      obtain ⟨v, hv⟩ := th_coreach r n hok p h1 h2
      exact ⟨v ++ [], (hv.mono (fun ed h => by simp [h])).trans (Path.eps_edge (by simp))⟩
    rcases Nat.lt_or_ge p (th r n).next with hlt | hge
    · exact hfrom p h1 hlt
    · by_cases hp0 : p = (th r n).next
      · subst hp0
        obtain ⟨v, hv⟩ := hfrom (th r n).b (by omega) (by omega)
        exact ⟨v, Path.eps (by simp) hv⟩
      · have : p = (th r n).next + 1 := by omega
        subst this; exact ⟨[], Path.refl _ _⟩
theorem thAlts_coreach : ∀ (a : Alts) (b e n : Nat), a.clsOK = true → ∀ p, n ≤ p →
    p < (thAlts a b e n).next → ∃ v, Path (thAlts a b e n).edges p v e
  | .last r, b, e, n, hok, p, h1, h2 => by
    simp only [Alts.clsOK] at hok
    simp only [thAlts] at h2 ⊢
    obtain ⟨v, hv⟩ := th_coreach r n hok p h1 h2
    exact ⟨v ++ [], (hv.mono (fun ed h => by simp [h])).trans (Path.eps_edge (by simp))⟩
  | .more r rest, b, e, n, hok, p, h1, h2 => by
    simp only [Alts.clsOK, Bool.and_eq_true] at hok
    simp only [thAlts] at h2 ⊢
    rcases Nat.lt_or_ge p (th r n).next with hlt | hge
    · obtain ⟨v, hv⟩ := th_coreach r n hok.1 p h1 hlt
      exact ⟨v ++ [], (hv.mono (fun ed h => by simp [h])).trans (Path.eps_edge (by simp))⟩
    · obtain ⟨v, hv⟩ := thAlts_coreach rest b e (th r n).next hok.2 p hge h2
      exact ⟨v, hv.mono (fun ed h => by simp [h])⟩
end

/-- `w` is a prefix of a word matched by some rule. (Same as `Lox.Lex.viable` on the rules' `Re`.) -/
def Viable (rules : List Rx) (w : List Int) : Prop :=
  ∃ r ∈ rules, ∃ t, Matches r.toRe (w ++ t)

/-- A state of the mode NFA that belongs to the fragment of rule `i`. -/
def InRule (rules : List Rx) (q : Nat) : Prop :=
  ∃ (i : Nat) (r : Rx) (m : Nat), (ruleFrags rules 0)[i]? = some (th r m) ∧ rules[i]? = some r ∧ m ≤ q ∧ q < (th r m).next

theorem modeNFA_dst_inRule (rules : List Rx) : ∀ ed ∈ (modeNFA rules).edges, InRule rules ed.dst := by
  intro ed hed
  simp only [modeNFA, List.mem_append, List.mem_flatMap, List.mem_map] at hed
  rcases hed with ⟨g, hg, hedg⟩ | ⟨g, hg, rfl⟩
  · obtain ⟨j, hj⟩ := List.mem_iff_getElem?.1 hg
    obtain ⟨r', m', hr', hg', _, _, _⟩ := ruleFrags_get rules 0 j g hj
    subst hg'
    have := (th_wf r' m').edges ed hedg
    exact ⟨j, r', m', hj, hr', by omega, by omega⟩
  · obtain ⟨j, hj⟩ := List.mem_iff_getElem?.1 hg
    obtain ⟨r', m', hr', hg', _, _, _⟩ := ruleFrags_get rules 0 j g hj
    subst hg'
    have := (th_wf r' m').hb
    exact ⟨j, r', m', hj, hr', by simp only; omega, by simp only; omega⟩

theorem pathN_end_inRule (rules : List Rx) {k p w q} (h : PathN (modeNFA rules).edges k p w q) :
    p = q ∨ InRule rules q := by
  induction h with
  | nil p => exact Or.inl rfl
  | eps he _ ih =>
    rcases ih with rfl | h
    · exact Or.inr (modeNFA_dst_inRule rules _ he)
    · exact Or.inr h
  | chr he _ _ _ ih =>
    rcases ih with rfl | h
    · exact Or.inr (modeNFA_dst_inRule rules _ he)
    · exact Or.inr h

/-- **No dead states**: in a mode with at least one rule and non-empty classes, some state is
reachable from the start state by `w` iff `w` is viable. -/
theorem modeNFA_viable (rules : List Rx) (hne : rules ≠ []) (hok : ∀ r ∈ rules, r.clsOK = true)
    (w : List Int) :
    (∃ q, Path (modeNFA rules).edges (modeNFA rules).start w q) ↔ Viable rules w := by
  constructor
  · rintro ⟨q, hq⟩
    -- `q` can reach the accepting state of some rule `i`
    have hco : ∃ i r v, rules[i]? = some r ∧ (modeNFA rules).AcceptsRule i (w ++ v) := by
      have hin : ∀ q', InRule rules q' → Path (modeNFA rules).edges (modeNFA rules).start w q' →
          ∃ i r v, rules[i]? = some r ∧ (modeNFA rules).AcceptsRule i (w ++ v) := by
        rintro q' ⟨i, r, m, hf, hr, h1, h2⟩ hq'
        obtain ⟨v, hv⟩ := th_coreach r m (hok r (List.mem_of_getElem? hr)) q' h1 h2
        have hsub : ∀ ed ∈ (th r m).edges, ed ∈ (modeNFA rules).edges := by
          intro ed hed
          simp only [modeNFA, List.mem_append, List.mem_flatMap]
          exact Or.inl ⟨_, List.mem_of_getElem? hf, hed⟩
        exact ⟨i, r, v, hr, (th r m).e, hq'.trans (hv.mono hsub),
          (mem_modeNFA_acc rules _ i).2 ⟨_, hf, rfl⟩⟩
      obtain ⟨k, hk⟩ := hq
      rcases pathN_end_inRule rules hk with heq | h
      · -- still in the start state: step into the first rule
        cases rules with
        | nil => exact absurd rfl hne
        | cons r0 rs =>
          have hf : (ruleFrags (r0 :: rs) 0)[0]? = some (th r0 0) := by simp [ruleFrags]
          have hst : (⟨(modeNFA (r0 :: rs)).start, none, (th r0 0).b⟩ : Edge) ∈
              (modeNFA (r0 :: rs)).edges := by
            simp only [modeNFA, List.mem_append, List.mem_map]
            exact Or.inr ⟨_, List.mem_of_getElem? hf, rfl⟩
          have hb := (th_wf r0 0).hb
          refine hin (th r0 0).b ⟨0, r0, 0, hf, by simp, by omega, by omega⟩ ?_
          have := (Path.trans ⟨k, hk⟩ (heq ▸ Path.eps_edge hst))
          simpa using this
      · exact hin q h ⟨k, hk⟩
    obtain ⟨i, r, v, hr, hacc⟩ := hco
    obtain ⟨r', hr', hm⟩ := (modeNFA_label rules i (w ++ v)).1 hacc
    rw [hr] at hr'; cases hr'
    exact ⟨r, List.mem_of_getElem? hr, v, hm⟩
  · rintro ⟨r, hr, t, hm⟩
    obtain ⟨i, hi⟩ := List.mem_iff_getElem?.1 hr
    obtain ⟨q, hq, _⟩ := (modeNFA_label rules i (w ++ t)).2 ⟨r, hi, hm⟩
    obtain ⟨m, hm1, _⟩ := hq.split
    exact ⟨m, hm1⟩

end Lox.Lex.Gen
