import Lox.Lex.GenBuildProofs
/-! Totality of the model of `optimize`: on a well-formed DFA the refinement loop ends within its
fuel (the number of groups never exceeds the number of states) and `GetStateGroup` never panics
(the groups always cover all states). -/
namespace Lox.Lex.Gen
open Lox.Rang3 (Range NormCb)

/-- The groups partition the `n` states: sizes add up to `n`, no group is empty, every state is in
a group. -/
structure PartSize (n : Nat) (gs : Groups) : Prop where
  sum : (gs.map List.length).sum = n
  nonempty : ∀ G ∈ gs, G ≠ []
  cover : ∀ s, s < n → ∃ G ∈ gs, s ∈ G

theorem filter_length_add {α} (l : List α) (p : α → Bool) :
    (l.filter p).length + (l.filter fun x => !p x).length = l.length := by
  induction l with
  | nil => rfl
  | cons a l ih =>
    simp only [List.filter_cons]
    cases p a <;> simp <;> omega

theorem sum_length_set (gs : Groups) : ∀ (gi : Nat) (G K : List Nat), gs[gi]? = some G →
    ((gs.set gi K).map List.length).sum + G.length = (gs.map List.length).sum + K.length := by
  induction gs with
  | nil => intro gi G K h; simp at h
  | cons x gs ih =>
    intro gi G K h
    cases gi with
    | zero =>
      simp only [List.getElem?_cons_zero, Option.some.injEq] at h
      subst h
      simp only [List.set_cons_zero, List.map_cons, List.sum_cons]; omega
    | succ gi =>
      simp only [List.getElem?_cons_succ] at h
      have := ih gi G K h
      simp only [List.set_cons_succ, List.map_cons, List.sum_cons]; omega

theorem length_le_sum (gs : Groups) (h : ∀ G ∈ gs, G ≠ []) : gs.length ≤ (gs.map List.length).sum := by
  induction gs with
  | nil => simp
  | cons x gs ih =>
    have hx : 0 < x.length := by
      cases x with
      | nil => exact absurd rfl (h [] (by simp))
      | cons _ _ => simp
    have := ih (fun G hG => h G (by simp [hG]))
    simp only [List.length_cons, List.map_cons, List.sum_cons]; omega

theorem subPartition_size (m : NFA) (d : DFA) (n : Nat) (gs : Groups) (gi : Nat)
    (hs : PartSize n gs) : PartSize n (subPartition m d gs gi) := by
  unfold subPartition
  cases h : gs[gi]? with
  | none => exact hs
  | some G =>
    cases G with
    | nil => exact hs
    | cons first rest =>
      simp only
      split
      · exact hs
      · rename_i hmove
        generalize hins : ((first :: rest).flatMap fun s => (d.trans s).map (·.1)) = ins at hmove ⊢
        have hgi : gi < gs.length := by
          rcases Nat.lt_or_ge gi gs.length with h' | h'
          · exact h'
          · rw [List.getElem?_eq_none h'] at h; cases h
        refine ⟨?_, ?_, ?_⟩
        · have h1 := sum_length_set gs gi (first :: rest)
            (first :: rest.filter fun s => !differs m d gs ins first s) h
          have h2 := filter_length_add rest (fun s => differs m d gs ins first s)
          simp only [List.map_append, List.sum_append, List.map_cons, List.map_nil, List.sum_cons,
            List.sum_nil, List.length_cons] at h1 ⊢
          have := hs.sum
          omega
        · intro G' hG'
          rcases List.mem_append.1 hG' with hG' | hG'
          · rcases List.mem_or_eq_of_mem_set hG' with hG' | rfl
            · exact hs.nonempty G' hG'
            · simp
          · simp only [List.mem_singleton] at hG'
            subst hG'
            intro he
            rw [he] at hmove
            simp at hmove
        · intro s hsn
          obtain ⟨G', hG', hsG⟩ := hs.cover s hsn
          obtain ⟨j, hj⟩ := List.mem_iff_getElem?.1 hG'
          by_cases hji : j = gi
          · subst hji
            rw [h] at hj; cases hj
            by_cases hd : differs m d gs ins first s = true
            · rcases List.mem_cons.mp hsG with rfl | hsr
              · rw [differs_self] at hd; cases hd
              · exact ⟨_, List.mem_append_right _ (List.mem_singleton.2 rfl),
                  List.mem_filter.2 ⟨hsr, hd⟩⟩
            · refine ⟨_, List.mem_append_left _ (List.mem_iff_getElem?.2
                ⟨j, List.getElem?_set_self hgi⟩), ?_⟩
              rcases List.mem_cons.mp hsG with rfl | hsr
              · simp
              · exact List.mem_cons_of_mem _ (List.mem_filter.2 ⟨hsr, by simpa using hd⟩)
          · exact ⟨G', List.mem_append_left _ (List.mem_iff_getElem?.2
              ⟨j, by rw [List.getElem?_set_ne (Ne.symm hji)]; exact hj⟩), hsG⟩

theorem foldl_subPartition_size (m : NFA) (d : DFA) (n : Nat) : ∀ (l : List Nat) (gs : Groups),
    PartSize n gs → PartSize n (l.foldl (subPartition m d) gs) := by
  intro l
  induction l with
  | nil => intro gs h; exact h
  | cons gi l ih => intro gs h; exact ih _ (subPartition_size m d n gs gi h)

/-- The refinement loop ends within `fuel` passes as soon as `fuel` exceeds the number of groups
that can still be created. -/
theorem refineLoop_total (m : NFA) (d : DFA) (n : Nat) : ∀ (f : Nat) (gs : Groups),
    PartInv d gs → PartSize n gs → n - gs.length < f →
    ∃ gs', refineLoop m d f gs = some gs' ∧ PartSize n gs' := by
  intro f
  induction f with
  | zero => intro gs _ _ h; omega
  | succ f ih =>
    intro gs hinv hsz hf
    simp only [refineLoop]
    obtain ⟨h1, h2, _⟩ := foldl_subPartition m d (List.range gs.length) gs hinv
    have hsz' := foldl_subPartition_size m d n (List.range gs.length) gs hsz
    split
    · exact ⟨_, rfl, hsz'⟩
    · rename_i hne
      apply ih _ h1 hsz'
      have hle := length_le_sum _ hsz'.nonempty
      rw [hsz'.sum] at hle
      unfold refinePass at hne
      omega

theorem initial_partSize (d : DFA)
    (h1 : ((List.range d.states.length).filter fun s => !d.accept s) ≠ [])
    (h2 : ((List.range d.states.length).filter fun s => d.accept s) ≠ []) :
    PartSize d.states.length [(List.range d.states.length).filter fun s => !d.accept s,
      (List.range d.states.length).filter fun s => d.accept s] := by
  refine ⟨?_, ?_, ?_⟩
  · have := filter_length_add (List.range d.states.length) (fun s => d.accept s)
    simp only [List.map_cons, List.map_nil, List.sum_cons, List.sum_nil, List.length_range] at this ⊢
    omega
  · intro G hG
    simp only [List.mem_cons, List.not_mem_nil, or_false] at hG
    rcases hG with rfl | rfl
    · exact h1
    · exact h2
  · intro s hs
    cases hacc : d.accept s with
    | false =>
      exact ⟨_, List.mem_cons_self, List.mem_filter.2 ⟨List.mem_range.2 hs, by simp [hacc]⟩⟩
    | true =>
      exact ⟨_, List.mem_cons_of_mem _ (List.mem_singleton.2 rfl),
        List.mem_filter.2 ⟨List.mem_range.2 hs, hacc⟩⟩

theorem covers_of_partSize {d : DFA} (hwf : d.WF) {gs : Groups}
    (hs : PartSize d.states.length gs) : covers d gs = true := by
  have hlt : ∀ s, s < d.states.length → groupIdx gs s < gs.length := by
    intro s hsn
    obtain ⟨G, hG, hsG⟩ := hs.cover s hsn
    exact List.findIdx_lt_length_of_exists ⟨G, hG, by simpa using hsG⟩
  simp only [covers, List.all_eq_true, List.mem_range, Bool.and_eq_true, decide_eq_true_eq]
  intro s hsn
  exact ⟨hlt s hsn, fun t ht => hlt t.2 (hwf.tgt s t ht)⟩

/-- **`optimize` is total on well-formed DFAs**: the loop `for pcount != p.Count()` ends (at most
one pass per state), and no `assert.True` of `partitions` fails. -/
theorem optimize_total (m : NFA) (d : DFA) (hwf : d.WF) : ∃ d', optimize m d = .ok d' := by
  unfold optimize
  simp only
  split
  · exact ⟨d, rfl⟩
  · rename_i hne
    simp only [Bool.or_eq_true, List.isEmpty_iff, not_or] at hne
    obtain ⟨gs, hgs, hsz⟩ := refineLoop_total m d d.states.length (d.states.length + 1) _
      (initial_partInv d) (initial_partSize d hne.1 hne.2) (by omega)
    rw [hgs]
    simp only [covers_of_partSize hwf hsz, if_true]
    exact ⟨_, rfl⟩


/-! ### The subset construction ends: there are at most `2^n` sets of NFA states -/

/-- All strictly increasing lists over `[k, k + f)`. -/
def upLists : Nat → Nat → List (List Nat)
  | _, 0 => [[]]
  | k, f + 1 => upLists (k + 1) f ++ (upLists (k + 1) f).map (k :: ·)

theorem upLists_length : ∀ (f k : Nat), (upLists k f).length = 2 ^ f := by
  intro f
  induction f with
  | zero => intro k; rfl
  | succ f ih =>
    intro k
    simp only [upLists, List.length_append, List.length_map, ih]
    omega

theorem nil_mem_upLists : ∀ (f k : Nat), [] ∈ upLists k f := by
  intro f
  induction f with
  | zero => intro k; simp [upLists]
  | succ f ih => intro k; simp only [upLists, List.mem_append]; exact Or.inl (ih (k + 1))

theorem mem_upLists : ∀ (f k : Nat) (l : List Nat), l.Pairwise (· < ·) →
    (∀ x ∈ l, k ≤ x ∧ x < k + f) → l ∈ upLists k f := by
  intro f
  induction f with
  | zero =>
    intro k l _ hb
    cases l with
    | nil => simp [upLists]
    | cons a _ => have := hb a (by simp); omega
  | succ f ih =>
    intro k l hs hb
    cases l with
    | nil => exact nil_mem_upLists _ _
    | cons a l =>
      rw [List.pairwise_cons] at hs
      have ha := hb a (by simp)
      simp only [upLists, List.mem_append, List.mem_map]
      by_cases hak : a = k
      · subst hak
        right
        refine ⟨l, ih (a + 1) l hs.2 ?_, rfl⟩
        intro x hx
        have := hs.1 x hx
        have := hb x (by simp [hx])
        omega
      · left
        apply ih (k + 1) (a :: l) (List.pairwise_cons.2 hs)
        intro x hx
        rcases List.mem_cons.mp hx with rfl | hx
        · omega
        · have := hs.1 x hx
          have := hb x (by simp [hx])
          omega

/-- All states of the NFA are below `n`. -/
structure NFA.Bounded (m : NFA) : Prop where
  start : m.start < m.n
  dst : ∀ ed ∈ m.edges, ed.dst < m.n

theorem pathN_eps_end {E : List Edge} {k p w q} (h : PathN E k p w q) :
    q = p ∨ ∃ ed ∈ E, ed.dst = q := by
  induction h with
  | nil p => exact Or.inl rfl
  | eps he _ ih =>
    rcases ih with rfl | h
    · exact Or.inr ⟨_, he, rfl⟩
    · exact Or.inr h
  | chr he _ _ _ ih =>
    rcases ih with rfl | h
    · exact Or.inr ⟨_, he, rfl⟩
    · exact Or.inr h

theorem eclose_bounded (E : List Edge) (n : Nat) (hE : ∀ ed ∈ E, ed.dst < n) (S : List Nat)
    (hS : ∀ x ∈ S, x < n) : ∀ q ∈ eclose E S, q < n := by
  intro q hq
  obtain ⟨p, hp, k, hk⟩ := (mem_eclose E S q).1 hq
  rcases pathN_eps_end hk with rfl | ⟨ed, hed, rfl⟩
  · exact hS _ hp
  · exact hE ed hed

theorem dfaSucc_mem_upLists (m : NFA) (hb : m.Bounded) (S : List Nat) :
    ∀ T ∈ dfaSucc m.edges S, T ∈ upLists 0 m.n := by
  intro T hT
  simp only [dfaSucc, List.mem_map] at hT
  obtain ⟨a, _, rfl⟩ := hT
  apply mem_upLists _ _ _ (eclose_sorted _ _)
  intro x hx
  have := eclose_bounded m.edges m.n hb.dst _ (by
    intro y hy
    obtain ⟨p, _, hed⟩ := (mem_moveSet m.edges S a y).1 hy
    exact hb.dst _ hed) x hx
  omega

/-- **The subset construction ends within its fuel** `2^n + 1`: every DFA state is a strictly
increasing list of NFA states below `n`, there are `2^n` such lists, and every iteration of the
loop either consumes a pending state or creates a new one. -/
theorem subset_total (m : NFA) (hb : m.Bounded) : ∃ d, subset m (subsetFuel m) = some d := by
  have hs0 : eclose m.edges [m.start] ∈ upLists 0 m.n := by
    apply mem_upLists _ _ _ (eclose_sorted _ _)
    intro x hx
    have := eclose_bounded m.edges m.n hb.dst [m.start] (by
      intro y hy; simp only [List.mem_singleton] at hy; subst hy; exact hb.start) x hx
    omega
  have key : ∀ P : List Nat → Bool, P (eclose m.edges [m.start]) = false →
      ((upLists 0 m.n).filter P).length < 2 ^ m.n := by
    intro P hP
    have := filter_length_lt (upLists 0 m.n) (fun _ => true) P (fun _ _ => rfl)
      (eclose m.edges [m.start]) hs0 rfl hP
    rwa [List.filter_eq_self.2 (fun _ _ => rfl), upLists_length] at this
  obtain ⟨R, hR⟩ := reachLoop_total (dfaSucc m.edges) (upLists 0 m.n)
    (fun S T hT => dfaSucc_mem_upLists m hb S T hT) (subsetFuel m)
    [eclose m.edges [m.start]] [eclose m.edges [m.start]]
    (by
      simp only [subsetFuel, List.length_singleton]
      exact Nat.lt_of_le_of_lt (Nat.le_of_eq (Nat.add_comm 1 _))
        (Nat.succ_lt_succ (key _ (by simp))))
  exact ⟨{ states := R.map (mkDState m R) }, by simp only [subset, hR, Option.map_some]⟩

/-! ### The whole of `Build` is total -/

theorem modeNFA_bounded (rules : List Rx) : (modeNFA rules).Bounded := by
  constructor
  · simp [modeNFA]
  · intro ed hed
    simp only [modeNFA, List.mem_append, List.mem_flatMap, List.mem_map] at hed
    rcases hed with ⟨g, hg, hedg⟩ | ⟨g, hg, rfl⟩
    · obtain ⟨j, hj⟩ := List.mem_iff_getElem?.1 hg
      obtain ⟨r', m', _, hg', _, hS, _⟩ := ruleFrags_get rules 0 j g hj
      subst hg'
      have := (th_wf r' m').edges ed hedg
      simp only [modeNFA]; omega
    · obtain ⟨j, hj⟩ := List.mem_iff_getElem?.1 hg
      obtain ⟨r', m', _, hg', _, hS, _⟩ := ruleFrags_get rules 0 j g hj
      subst hg'
      have := (th_wf r' m').hb
      simp only [modeNFA]; omega

theorem fold_relabelEdges_dst (log : List NormCb) : ∀ (E : List Edge) (n : Nat),
    (∀ ed ∈ E, ed.dst < n) → ∀ ed ∈ log.foldl relabelEdges E, ed.dst < n := by
  induction log with
  | nil => intro E n h; exact h
  | cons cb log ih =>
    intro E n h
    apply ih
    intro ed' hed'
    obtain ⟨ed, hed, hm⟩ := (mem_relabelEdges E cb ed').1 hed'
    rcases (mem_relabelEdge cb ed ed').1 hm with ⟨_, heq⟩ | ⟨_, _, hd, _⟩
    · rw [heq]; exact h ed hed
    · rw [hd]; exact h ed hed

theorem normalizeNFA_bounded (m m' : NFA) (h : normalizeNFA m = some m') (hb : m.Bounded) :
    m'.Bounded := by
  simp only [normalizeNFA, normalizeEdges, Option.map_eq_some_iff] at h
  obtain ⟨E, ⟨log, _, rfl⟩, rfl⟩ := h
  exact ⟨hb.start, fold_relabelEdges_dst log m.edges m.n hb.dst⟩

/-- **The model of `ModeBuilder.Build` always returns an automaton** (for classes written
`lo ≤ hi`): `rang3.Normalize` does not panic, the subset construction and `optimize` end within
their fuel, `GetStateGroup` finds every state. -/
theorem buildDFA_total (rules : List Rx) (hok : ∀ r ∈ rules, r.clsOK = true) :
    ∃ F, buildDFA (modeNFA rules) = some (.ok F) := by
  obtain ⟨m', hm', _, _, _, _, hpd, hval, _⟩ :=
    normalizeNFA_spec (modeNFA rules) (modeNFA_validLabels rules hok)
  obtain ⟨d, hd⟩ := subset_total m' (normalizeNFA_bounded _ _ hm' (modeNFA_bounded rules))
  obtain ⟨hwf, _⟩ := subset_wf m' hpd hval _ d hd
  obtain ⟨d', hd'⟩ := optimize_total m' d hwf
  refine ⟨mergeTransitions (splitStart d'), ?_⟩
  simp only [buildDFA, hm', Option.bind_some, hd, Option.map_some, hd']

end Lox.Lex.Gen
