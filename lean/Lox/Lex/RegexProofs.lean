import Lox.Lex.Regex
/-! Correctness of partial derivatives (Antimirov): `nullable_iff`, `pd_sound`, `pd_complete`,
their lifting to term sets, words and rule vectors; every regex whose classes are non-empty matches
some word; `pd c r` only depends on the membership of `c` in the first classes of `r`. -/
namespace Lox.Lex

theorem nullable_iff (r : Re) : nullable r = true ↔ Matches r [] := by
  induction r with
  | eps => simp [nullable]; exact .eps
  | cls cs => simp [nullable]; intro h; cases h
  | seq r s ihr ihs =>
    simp [nullable, ihr, ihs]
    constructor
    · rintro ⟨h1, h2⟩; exact .seq (u := []) (v := []) h1 h2
    · intro h
      generalize hw : ([] : List Int) = w at h
      cases h with
      | seq h1 h2 =>
        rename_i u v
        have : u = [] ∧ v = [] := by simpa using hw.symm
        obtain ⟨rfl, rfl⟩ := this
        exact ⟨h1, h2⟩
  | alt r s ihr ihs =>
    simp [nullable, ihr, ihs]
    constructor
    · rintro (h | h)
      · exact .altl h
      · exact .altr h
    · intro h
      cases h with
      | altl h => exact .inl h
      | altr h => exact .inr h
  | star ng r _ => simp [nullable]; exact .star_nil

theorem mkSeq_matches (r s : Re) (w : List Int) :
    Matches (mkSeq r s) w ↔ Matches (.seq r s) w := by
  unfold mkSeq
  split
  · constructor
    · intro h; exact .seq (u := []) .eps h
    · intro h
      cases h with
      | seq h1 h2 => cases h1; simpa using h2
  · exact Iff.rfl

theorem pd_sound (c : Int) (r : Re) :
    ∀ w, (∃ r' ∈ pd c r, Matches r' w) → Matches r (c :: w) := by
  induction r with
  | eps => intro w ⟨r', h, _⟩; simp [pd] at h
  | cls cs =>
    intro w ⟨r', h, hm⟩
    simp only [pd] at h
    split at h
    · simp at h; subst h; cases hm; exact .cls ‹_›
    · simp at h
  | seq r s ihr ihs =>
    intro w ⟨r', h, hm⟩
    simp only [pd, List.mem_append, List.mem_map] at h
    rcases h with ⟨r1, hr1, rfl⟩ | h
    · rw [mkSeq_matches] at hm
      cases hm with
      | seq h1 h2 =>
        have := ihr _ ⟨r1, hr1, h1⟩
        exact Matches.seq this h2
    · split at h
      · rename_i hn
        have h0 := (nullable_iff r).mp hn
        have := ihs _ ⟨r', h, hm⟩
        exact Matches.seq (u := []) h0 this
      · simp at h
  | alt r s ihr ihs =>
    intro w ⟨r', h, hm⟩
    simp only [pd, List.mem_append] at h
    rcases h with h | h
    · exact .altl (ihr _ ⟨r', h, hm⟩)
    · exact .altr (ihs _ ⟨r', h, hm⟩)
  | star ng r ih =>
    intro w ⟨r', h, hm⟩
    simp only [pd, List.mem_map] at h
    obtain ⟨r1, hr1, rfl⟩ := h
    rw [mkSeq_matches] at hm
    cases hm with
    | seq h1 h2 =>
      have := ih _ ⟨r1, hr1, h1⟩
      exact Matches.star_cons this h2

theorem pd_complete (c : Int) : ∀ (r : Re) (w : List Int), Matches r (c :: w) →
    ∃ r' ∈ pd c r, Matches r' w := by
  intro r w h
  generalize hx : c :: w = x at h
  induction h generalizing c w with
  | eps => simp at hx
  | @cls cs c' hin =>
    have : c = c' ∧ w = [] := by simpa using hx
    obtain ⟨rfl, rfl⟩ := this
    exact ⟨.eps, by simp [pd, hin], .eps⟩
  | @seq r s u v h1 h2 ih1 ih2 =>
    cases u with
    | nil =>
      simp at hx
      obtain ⟨r', hr', hm⟩ := ih2 c w hx
      refine ⟨r', ?_, hm⟩
      simp [pd, (nullable_iff r).mpr h1, hr']
    | cons c' u' =>
      have : c = c' ∧ w = u' ++ v := by simpa using hx
      obtain ⟨rfl, rfl⟩ := this
      obtain ⟨r', hr', hm⟩ := ih1 c u' rfl
      refine ⟨mkSeq r' s, ?_, ?_⟩
      · simp only [pd, List.mem_append, List.mem_map]; exact .inl ⟨r', hr', rfl⟩
      · rw [mkSeq_matches]; exact .seq hm h2
  | altl h ih =>
    obtain ⟨r', hr', hm⟩ := ih c w hx
    exact ⟨r', by simp [pd, hr'], hm⟩
  | altr h ih =>
    obtain ⟨r', hr', hm⟩ := ih c w hx
    exact ⟨r', by simp [pd, hr'], hm⟩
  | star_nil => simp at hx
  | @star_cons ng r c' u v h1 h2 ih1 ih2 =>
    have : c = c' ∧ w = u ++ v := by simpa using hx
    obtain ⟨rfl, rfl⟩ := this
    obtain ⟨r', hr', hm⟩ := ih1 c u rfl
    refine ⟨mkSeq r' (.star ng r), ?_, ?_⟩
    · simp only [pd, List.mem_map]; exact ⟨r', hr', rfl⟩
    · rw [mkSeq_matches]; exact .seq hm h2

/-- One-symbol derivative, both directions. -/
theorem pd_iff (c : Int) (r : Re) (w : List Int) :
    Matches r (c :: w) ↔ ∃ r' ∈ pd c r, Matches r' w :=
  ⟨pd_complete c r w, pd_sound c r w⟩

/-! ### Term sets -/

theorem mem_insTerm {a x : Re} {l : List Re} : x ∈ insTerm a l ↔ x = a ∨ x ∈ l := by
  induction l with
  | nil => simp [insTerm]
  | cons b l ih =>
    unfold insTerm
    split
    · rename_i h; subst h; simp
    · split
      · simp
      · simp only [List.mem_cons, ih]
        constructor
        · rintro (h | h | h) <;> simp [h]
        · rintro (h | h | h) <;> simp [h]

theorem mem_canon {x : Re} {l : List Re} : x ∈ canon l ↔ x ∈ l := by
  induction l with
  | nil => simp [canon]
  | cons a l ih =>
    have : canon (a :: l) = insTerm a (canon l) := rfl
    rw [this, mem_insTerm, ih]; simp

theorem mem_pdSet {c : Int} {ts : List Re} {x : Re} :
    x ∈ pdSet c ts ↔ ∃ t ∈ ts, x ∈ pd c t := by
  simp [pdSet, mem_canon, List.mem_flatMap]

theorem pdSet_nil (c : Int) : pdSet c [] = [] := rfl

/-- The language of a term set. -/
def SetMatches (ts : List Re) (w : List Int) : Prop := ∃ t ∈ ts, Matches t w

theorem pdSet_iff (c : Int) (ts : List Re) (w : List Int) :
    SetMatches (pdSet c ts) w ↔ SetMatches ts (c :: w) := by
  unfold SetMatches
  constructor
  · rintro ⟨x, hx, hm⟩
    obtain ⟨t, ht, hxt⟩ := mem_pdSet.mp hx
    exact ⟨t, ht, pd_sound c t w ⟨x, hxt, hm⟩⟩
  · rintro ⟨t, ht, hm⟩
    obtain ⟨x, hx, hm'⟩ := pd_complete c t w hm
    exact ⟨x, mem_pdSet.mpr ⟨t, ht, hx⟩, hm'⟩

theorem pdSetW_nil (ts : List Re) : pdSetW [] ts = ts := rfl
theorem pdSetW_cons (c : Int) (w : List Int) (ts : List Re) :
    pdSetW (c :: w) ts = pdSetW w (pdSet c ts) := rfl
theorem pdSetW_append (u v : List Int) (ts : List Re) :
    pdSetW (u ++ v) ts = pdSetW v (pdSetW u ts) := by
  simp [pdSetW, List.foldl_append]

theorem pdSetW_iff (u : List Int) : ∀ (ts : List Re) (v : List Int),
    SetMatches (pdSetW u ts) v ↔ SetMatches ts (u ++ v) := by
  induction u with
  | nil => intro ts v; simp [pdSetW_nil]
  | cons c u ih =>
    intro ts v
    rw [pdSetW_cons, ih, pdSet_iff]; simp

/-- Word-level partial derivatives: `r` matches `u ++ v` iff some partial derivative of `r` by
`u` matches `v`. -/
theorem pdw_iff (r : Re) (u v : List Int) :
    Matches r (u ++ v) ↔ ∃ r' ∈ pdw u r, Matches r' v := by
  have := pdSetW_iff u [r] v
  simp only [SetMatches, List.mem_singleton, exists_eq_left] at this
  exact this.symm

/-- `r` matches `u` iff some partial derivative of `r` by `u` is nullable. -/
theorem pdw_nullable_iff (r : Re) (u : List Int) :
    Matches r u ↔ ∃ r' ∈ pdw u r, nullable r' = true := by
  have := pdw_iff r u []
  simp only [List.append_nil] at this
  rw [this]
  constructor
  · rintro ⟨x, hx, hm⟩; exact ⟨x, hx, (nullable_iff x).mpr hm⟩
  · rintro ⟨x, hx, hm⟩; exact ⟨x, hx, (nullable_iff x).mp hm⟩

/-! ### Rule vectors -/

theorem pdVecW_nil (v : List (List Re)) : pdVecW [] v = v := rfl
theorem pdVecW_cons (c : Int) (w : List Int) (v : List (List Re)) :
    pdVecW (c :: w) v = pdVecW w (pdVec c v) := rfl

theorem vecDead_pdVec (c : Int) (v : List (List Re)) (h : vecDead v = true) :
    vecDead (pdVec c v) = true := by
  simp only [vecDead, pdVec, List.all_map, List.all_eq_true] at *
  intro ts hts
  have := h ts hts
  simp only [List.isEmpty_iff] at this
  subst this
  simp [pdSet_nil]

theorem vecDead_pdVecW (w : List Int) : ∀ (v : List (List Re)), vecDead v = true →
    vecDead (pdVecW w v) = true := by
  induction w with
  | nil => intro v h; exact h
  | cons c w ih => intro v h; rw [pdVecW_cons]; exact ih _ (vecDead_pdVec c v h)

/-! ### Non-empty classes: every term matches some word -/

theorem clsNonEmpty_inCls {cs : Cls} (h : clsNonEmpty cs = true) : ∃ c, inCls cs c = true := by
  simp only [clsNonEmpty, List.any_eq_true, decide_eq_true_eq] at h
  obtain ⟨r, hr, hle⟩ := h
  refine ⟨r.1, ?_⟩
  simp only [inCls, List.any_eq_true, Bool.and_eq_true, decide_eq_true_eq]
  exact ⟨r, hr, Int.le_refl _, hle⟩

theorem clsOK_matches : ∀ (r : Re), r.clsOK = true → ∃ w, Matches r w := by
  intro r
  induction r with
  | eps => intro _; exact ⟨[], .eps⟩
  | cls cs =>
    intro h
    obtain ⟨c, hc⟩ := clsNonEmpty_inCls (by simpa [Re.clsOK] using h)
    exact ⟨[c], .cls hc⟩
  | seq r s ihr ihs =>
    intro h
    simp only [Re.clsOK, Bool.and_eq_true] at h
    obtain ⟨u, hu⟩ := ihr h.1
    obtain ⟨v, hv⟩ := ihs h.2
    exact ⟨u ++ v, .seq hu hv⟩
  | alt r s ihr _ =>
    intro h
    simp only [Re.clsOK, Bool.and_eq_true] at h
    obtain ⟨u, hu⟩ := ihr h.1
    exact ⟨u, .altl hu⟩
  | star ng r _ => intro _; exact ⟨[], .star_nil⟩

theorem clsOK_mkSeq {r s : Re} (hr : r.clsOK = true) (hs : s.clsOK = true) :
    (mkSeq r s).clsOK = true := by
  unfold mkSeq
  split
  · exact hs
  · simp [Re.clsOK, hr, hs]

theorem clsOK_pd (c : Int) : ∀ (r : Re), r.clsOK = true → ∀ t ∈ pd c r, t.clsOK = true := by
  intro r
  induction r with
  | eps => intro _ t ht; simp [pd] at ht
  | cls cs =>
    intro _ t ht
    simp only [pd] at ht
    split at ht
    · simp at ht; subst ht; rfl
    · simp at ht
  | seq r s ihr ihs =>
    intro h t ht
    simp only [Re.clsOK, Bool.and_eq_true] at h
    simp only [pd, List.mem_append, List.mem_map] at ht
    rcases ht with ⟨r1, hr1, rfl⟩ | ht
    · exact clsOK_mkSeq (ihr h.1 _ hr1) h.2
    · split at ht
      · exact ihs h.2 _ ht
      · simp at ht
  | alt r s ihr ihs =>
    intro h t ht
    simp only [Re.clsOK, Bool.and_eq_true] at h
    simp only [pd, List.mem_append] at ht
    rcases ht with ht | ht
    · exact ihr h.1 _ ht
    · exact ihs h.2 _ ht
  | star ng r ih =>
    intro h t ht
    simp only [pd, List.mem_map] at ht
    obtain ⟨r1, hr1, rfl⟩ := ht
    exact clsOK_mkSeq (ih (by simpa [Re.clsOK] using h) _ hr1) (by simpa [Re.clsOK] using h)

theorem clsOK_pdSet (c : Int) (ts : List Re) (h : ∀ t ∈ ts, t.clsOK = true) :
    ∀ t ∈ pdSet c ts, t.clsOK = true := by
  intro x hx
  obtain ⟨t, ht, hxt⟩ := mem_pdSet.mp hx
  exact clsOK_pd c t (h t ht) x hxt

/-! ### `pd` only looks at the first classes -/

theorem pd_congr (c c' : Int) : ∀ (r : Re),
    (∀ cs ∈ firstCls r, inCls cs c = inCls cs c') → pd c r = pd c' r := by
  intro r
  induction r with
  | eps => intro _; rfl
  | cls cs => intro h; simp only [pd]; rw [h cs (by simp [firstCls])]
  | seq r s ihr ihs =>
    intro h
    simp only [firstCls, List.mem_append] at h
    simp only [pd]
    rw [ihr (fun cs hcs => h cs (.inl hcs))]
    cases hn : nullable r with
    | false => simp
    | true =>
      simp only [hn, ↓reduceIte] at h ⊢
      rw [ihs (fun cs hcs => h cs (.inr hcs))]
  | alt r s ihr ihs =>
    intro h
    simp only [firstCls, List.mem_append] at h
    simp only [pd]
    rw [ihr (fun cs hcs => h cs (.inl hcs)), ihs (fun cs hcs => h cs (.inr hcs))]
  | star ng r ih =>
    intro h
    simp only [pd]
    rw [ih (fun cs hcs => h cs (by simpa [firstCls] using hcs))]

theorem pdSet_congr (c c' : Int) (ts : List Re)
    (h : ∀ t ∈ ts, ∀ cs ∈ firstCls t, inCls cs c = inCls cs c') : pdSet c ts = pdSet c' ts := by
  unfold pdSet
  congr 1
  induction ts with
  | nil => rfl
  | cons t ts ih =>
    simp only [List.flatMap_cons]
    rw [pd_congr c c' t (h t (by simp)), ih (fun t ht => h t (by simp [ht]))]

theorem pdVec_congr (c c' : Int) (v : List (List Re))
    (h : ∀ ts ∈ v, ∀ t ∈ ts, ∀ cs ∈ firstCls t, inCls cs c = inCls cs c') :
    pdVec c v = pdVec c' v := by
  unfold pdVec
  apply List.map_congr_left
  intro ts hts
  exact pdSet_congr c c' ts (h ts hts)

end Lox.Lex
