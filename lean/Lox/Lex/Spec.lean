import Lox.Lex.Regex
import Lox.Lex.Actions
/-! The rule-level specification of one lexer mode: which strings are still viable, and which
rule's action pairs label a string. Defined from `Matches` only (no derivatives, no automata).
This file and `Matches` (`Lox/Lex/Regex.lean`) are what a reader has to trust. -/
namespace Lox.Lex

/-- A rule of a mode: its regular expression and the action pairs it emits
(`tokenRulePairs` / `fragRulePairs`). Rules are listed in priority order: the earliest wins
(`ModeBuilder.pickAction` keeps the actions with the least source position). -/
abbrev Rule := Re × List Pair

/-- `s` is a prefix of a word matched by some rule. -/
def viable (rules : List Rule) (s : List Int) : Prop :=
  ∃ r ∈ rules, ∃ t, Matches r.1 (s ++ t)

open Classical in
/-- The action pairs of the earliest-declared rule that matches `s` exactly; `[]` if none does. -/
noncomputable def label : List Rule → List Int → List Pair
  | [], _ => []
  | r :: rest, s => if Matches r.1 s then r.2 else label rest s

open Classical in
/-- What the table automaton of the mode must compute on `s`: `none` if `s` is not viable, else
the label of `s`. -/
noncomputable def specRun (rules : List Rule) (s : List Int) : Option (List Pair) :=
  if viable rules s then some (label rules s) else none

end Lox.Lex
