import Lox.Drv.Common
/-! Driver ops of the Lex vertical: `handle op payload` answers one protocol line, `none` = unknown op. -/
namespace Lox.Lex

def handle (_op _payload : String) : Option String := none

end Lox.Lex
