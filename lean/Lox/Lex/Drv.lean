import Lox.Drv.Common
import Lox.Lex.Model
import Lox.Lex.Bisim
import Lox.Lex.BisimNG
/-! Driver ops of the Lex vertical.

`lex.run <fuel> | mode0 ; mode1 ; … | r1 w1 r2 w2 …`
   answer: tokens `T<type>:<start>-<end>`, `E@<start>:<rune>`, `EOF@<pos>` then `ok|timeout|panic`
`lex.push | modes | <token state mode(-1=nil) stack…> | r`
   answer: `<res> <token> <state> <mode> <stack…>`
`lex.bisim rule ; rule ; … | <mode table ints>` where a rule is
   `<k> <k ints: expected action pairs t p t p …> <regex in prefix code>`; regex prefix code:
   `0` eps, `1 n lo1 hi1 … lon hin` class, `2 re re` seq, `3 re re` alt, `4 re` star, `5 re` non-greedy star
   answer: `ok <pairs explored>` or `fail <reason>`
`lex.bisimng …` same payload; rules containing code `5` have shortest-match semantics (C08);
   failures caused by the known finding K2 start with `fail state q: K2 …`
`lex.wf <mode table ints>`   answer: `ok` or `fail <reason>`
`lex.startclean <mode table ints>`   answer: `ok` or `fail` (state 0 not accepting, no edge into 0)
`lex.wfall mode0 ; mode1 ; …`   answer: `ok` or `fail <mode index>: <reason>` (`Lox.Lex.wfModes`: every
   table `wfTable`, every push-mode parameter a mode index; hypothesis of `C10.decode_wf`) -/
namespace Lox.Lex
open Lox.Drv

def parseModes (s : String) : Option (Array Mode) :=
  ((s.splitOn ";").mapM fun m => (parseInts m).map List.toArray).map List.toArray

def toPairs : List Int → Option (List (Int × Nat))
  | [] => some []
  | r :: w :: rest => (toPairs rest).map ((r, w.toNat) :: ·)
  | _ => none

def showTok : Tok → String
  | .tok ty a b => "T" ++ toString ty ++ ":" ++ toString a ++ "-" ++ toString b
  | .err a c => "E@" ++ toString a ++ ":" ++ toString c
  | .eof p => "EOF@" ++ toString p

def showRes : Res → String
  | .consume => "0" | .accept => "1" | .discard => "2" | .tryAgain => "3" | .eof => "4"
  | .error => "-1" | .oob => "panic"

/-- Regex in prefix code; returns the rest of the input. -/
def parseRe : Nat → List Int → Option (Re × List Int)
  | 0, _ => none
  | _ + 1, [] => none
  | n + 1, code :: rest =>
    if code = 0 then some (.eps, rest)
    else if code = 1 then
      match rest with
      | [] => none
      | k :: rest =>
        let k := k.toNat
        if rest.length < 2 * k then none
        else
          let rs := rest.take (2 * k)
          some (.cls ((List.range k).map fun j => (rs.getD (2 * j) 0, rs.getD (2 * j + 1) 0)),
                rest.drop (2 * k))
    else if code = 2 ∨ code = 3 then
      match parseRe n rest with
      | none => none
      | some (a, rest) =>
        match parseRe n rest with
        | none => none
        | some (b, rest) => some (if code = 2 then .seq a b else .alt a b, rest)
    else if code = 4 ∨ code = 5 then
      match parseRe n rest with
      | none => none
      | some (a, rest) => some (.star (code = 5) a, rest)
    else none

def toActPairs : List Int → Option (List Pair)
  | [] => some []
  | t :: p :: rest => (toActPairs rest).map ((t, p) :: ·)
  | _ => none

def parseRule (xs : List Int) : Option (Re × List Pair) :=
  match xs with
  | [] => none
  | k :: rest =>
    if k < 0 ∨ rest.length < k.toNat then none
    else do
      let ps ← toActPairs (rest.take k.toNat)
      match parseRe (rest.length + 1) (rest.drop k.toNat) with
      | some (re, []) => some (re, ps)
      | _ => none

def handle (op payload : String) : Option String :=
  match op with
  | "lex.bisim" => do
    match payload.splitOn "|" with
    | [rules, tbl] =>
      let rules ← ((rules.splitOn ";").filter (fun s => !s.trimAscii.toString.isEmpty)).mapM
        fun r => parseInts r >>= parseRule
      let tbl ← parseInts tbl
      match bisimN rules tbl.toArray with
      | .ok n => some ("ok " ++ toString n)
      | .error e => some ("fail " ++ e)
    | _ => none
  | "lex.bisimng" => do
    match payload.splitOn "|" with
    | [rules, tbl] =>
      let rules ← ((rules.splitOn ";").filter (fun s => !s.trimAscii.toString.isEmpty)).mapM
        fun r => parseInts r >>= parseRule
      let tbl ← parseInts tbl
      match bisimNGN rules tbl.toArray with
      | .ok n => some ("ok " ++ toString n)
      | .error e => some ("fail " ++ e)
    | _ => none
  | "lex.wfall" => do
    let modes ← parseModes payload
    if wfModes modes then some "ok"
    else
      let bad := (List.range modes.size).filterMap fun i =>
        let m := modes.getD i #[]
        if !wfTable m then some (toString i ++ ": " ++ wfWhy m)
        else if (List.range (nStates m)).all fun q => pairsOK modes.size (rowPairs m q) then none
        else some (toString i ++ ": push-mode parameter out of range")
      some ("fail " ++ bad.headD "no modes")
  | "lex.startclean" => do
    let tbl ← parseInts payload
    if startClean tbl.toArray then some "ok" else some "fail"
  | "lex.wf" => do
    let tbl ← parseInts payload
    if wfTable tbl.toArray then some "ok" else some ("fail " ++ wfWhy tbl.toArray)
  | "lex.run" => do
    match payload.splitOn "|" with
    | [fuel, modes, inp] =>
      let fuel ← (fuel.trimAscii.toString).toNat?
      let modes ← parseModes modes
      let inp ← parseInts inp >>= toPairs
      let (toks, st) := lexAll modes inp.toArray fuel fuel {} []
      some (" ".intercalate (toks.map showTok ++ [st]))
    | _ => none
  | "lex.push" => do
    match payload.splitOn "|" with
    | [_, modes, st, r] =>
      let modes ← parseModes modes
      let st ← parseInts st
      let r ← parseInt r.trimAscii.toString
      match st with
      | tok :: state :: mode :: stack =>
        let sm : SM := { token := tok, state := state, mode := if mode < 0 then none else some mode.toNat,
                         modeStack := stack.map Int.toNat }
        let (res, sm') := pushRune modes sm r
        some (showRes res ++ " " ++ showInts ([sm'.token, sm'.state, (sm'.mode.map Int.ofNat).getD (-1)] ++ sm'.modeStack.map Int.ofNat))
      | _ => none
    | _ => none
  | _ => none

end Lox.Lex
