import Lox.Drv.Common
import Lox.Lex.Model
/-! Driver ops of the Lex vertical.

`lex.run <fuel> | mode0 ; mode1 ; … | r1 w1 r2 w2 …`
   answer: tokens `T<type>:<start>-<end>`, `E@<start>:<rune>`, `EOF@<pos>` then `ok|timeout|panic`
`lex.push | modes | <token state mode(-1=nil) stack…> | r`
   answer: `<res> <token> <state> <mode> <stack…>` -/
namespace Lox.Lex
open Lox.Drv

def parseModes (s : String) : Option (Array Mode) :=
  ((s.splitOn ";").mapM fun m => (parseInts m).map List.toArray).map List.toArray

def toPairs : List Int → Option (List (Int × Nat))
  | [] => some []
  | r :: w :: rest => (toPairs rest).map ((r, w.toNat) :: ·)
  | _ => none

def showTok : Tok → String
  | .tok ty a b => "T" ++ toString ty ++ ":" ++ toString a ++ "-" ++ toString b
  | .err a c => "E@" ++ toString a ++ ":" ++ toString c
  | .eof p => "EOF@" ++ toString p

def showRes : Res → String
  | .consume => "0" | .accept => "1" | .discard => "2" | .tryAgain => "3" | .eof => "4"
  | .error => "-1" | .oob => "panic"

def handle (op payload : String) : Option String :=
  match op with
  | "lex.run" => do
    match payload.splitOn "|" with
    | [fuel, modes, inp] =>
      let fuel ← (fuel.trimAscii.toString).toNat?
      let modes ← parseModes modes
      let inp ← parseInts inp >>= toPairs
      let (toks, st) := lexAll modes inp.toArray fuel fuel {} []
      some (" ".intercalate (toks.map showTok ++ [st]))
    | _ => none
  | "lex.push" => do
    match payload.splitOn "|" with
    | [_, modes, st, r] =>
      let modes ← parseModes modes
      let st ← parseInts st
      let r ← parseInt r.trimAscii.toString
      match st with
      | tok :: state :: mode :: stack =>
        let sm : SM := { token := tok, state := state, mode := if mode < 0 then none else some mode.toNat,
                         modeStack := stack.map Int.toNat }
        let (res, sm') := pushRune modes sm r
        some (showRes res ++ " " ++ showInts ([sm'.token, sm'.state, (sm'.mode.map Int.ofNat).getD (-1)] ++ sm'.modeStack.map Int.ofNat))
      | _ => none
    | _ => none
  | _ => none

end Lox.Lex
