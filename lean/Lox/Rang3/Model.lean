/-! Model of `internal/lexergen/rang3` (range.go, range_heap.go). Core Lean only.

Go `rune` is `int32`; the model uses `Int`, i.e. it describes the code on every input on which
no `int32` operation overflows (all code points and everything within ±1 of them). -/
namespace Lox.Rang3

structure Range where
  b : Int
  e : Int
  deriving DecidableEq, Repr, Inhabited

def maxRune : Int := 0x10FFFF

/-- `Range.Contains`. -/
def Range.contains (r o : Range) : Bool := r.b ≤ o.b && r.e ≥ o.e

/-- `Range.Intersects`: order the two by `B`, then `b.B <= a.E`. -/
def Range.intersects (r o : Range) : Bool :=
  if r.b > o.b then r.b ≤ o.e else o.b ≤ r.e

/-- `Range.Touches`: intersects or adjacent. -/
def Range.touches (r o : Range) : Bool :=
  if r.b > o.b then r.b ≤ o.e || r.b - 1 == o.e else o.b ≤ r.e || o.b - 1 == r.e

/-- `Compare`: lexicographic on (B, E). -/
def cmp (a b : Range) : Int :=
  if a.b < b.b then -1 else if a.b > b.b then 1 else if a.e < b.e then -1 else if a.e > b.e then 1 else 0

def Range.lt (a b : Range) : Bool := cmp a b < 0
def Range.le (a b : Range) : Bool := cmp a b ≤ 0

/-- Stable insertion into a `cmp`-sorted list (after equal elements). -/
def insertSorted (r : Range) : List Range → List Range
  | [] => [r]
  | x :: xs => if r.lt x then r :: x :: xs else x :: insertSorted r xs

/-- The order `Flatten` works on. (The Go code sorts by `Compare` and then once more with a
comparator that, on ranges with `B ≤ E`, orders by `B` only; the merge below does not depend on
the relative order of ranges with equal `B`.) -/
def sortRanges (rs : List Range) : List Range := rs.foldl (fun acc r => insertSorted r acc) []

/-- One `onChange(oa, ob, n)` call of `Flatten`. -/
structure FlatCb where
  oa : Range
  ob : Range
  n : Range
  deriving DecidableEq, Repr

/-- The merge loop of `Flatten` over the sorted input; `acc` is the stack `ranges2`, top first. -/
def flattenLoop : List Range → List Range → List FlatCb → List Range × List FlatCb
  | [], acc, log => (acc.reverse, log.reverse)
  | r :: rs, [], log => flattenLoop rs [r] log
  | r :: rs, tip :: acc, log =>
    if tip.touches r then
      let n : Range := ⟨min tip.b r.b, max tip.e r.e⟩
      flattenLoop rs (n :: acc) (⟨tip, r, n⟩ :: log)
    else flattenLoop rs (r :: tip :: acc) log

def flattenWithLog (rs : List Range) : List Range × List FlatCb := flattenLoop (sortRanges rs) [] []

/-- `Flatten(ranges, nil)`. -/
def flatten (rs : List Range) : List Range := (flattenWithLog rs).1

/-- The two-cursor loop of `Subtract` after both sides were flattened.
`r` is the result stack, top first. Terminates because every iteration either consumes an
element of `a`, consumes an element of `b`, or shrinks/pops the top of `r` against `b[0]`;
`fuel` bounds the iterations (see `subtract`). -/
def subtractLoop : Nat → List Range → List Range → List Range → List Range
  | 0, a, _, r => r.reverse ++ a
  | _, a, [], r => r.reverse ++ a
  | fuel + 1, a, eb :: b, r =>
    let pushA : Unit → List Range := fun _ =>
      match a with
      | [] => r.reverse ++ a
      | a0 :: a' => subtractLoop fuel a' (eb :: b) (a0 :: r)
    match r with
    | [] => pushA ()
    | ea :: r' =>
      if ea.e < eb.b then pushA ()
      else if ea.b > eb.e then subtractLoop fuel a b r
      else if ea.b ≥ eb.b && ea.e ≤ eb.e then subtractLoop fuel a (eb :: b) r'
      else if ea.b < eb.b && ea.e > eb.e then
        subtractLoop fuel a (eb :: b) (⟨eb.b + 1, ea.e⟩ :: ⟨ea.b, eb.b - 1⟩ :: r')
      else if ea.b < eb.b && ea.e ≤ eb.e then subtractLoop fuel a (eb :: b) (⟨ea.b, eb.b - 1⟩ :: r')
      else subtractLoop fuel a (eb :: b) (⟨eb.e + 1, ea.e⟩ :: r')

/-- `Subtract(a, b)`. -/
def subtract (a b : List Range) : List Range :=
  if a.isEmpty || b.isEmpty then a else
  let a' := flatten a
  let b' := flatten b
  -- each range of `a'` is pushed once and can be cut at most once per range of `b'` (+ slack)
  subtractLoop (4 * (a'.length + 1) * (b'.length + 1) + 8) a' b' []

/-- One `onChange(o, a, b, c)` call of `Normalize`. -/
structure NormCb where
  o : Range
  a : Range
  b : Range
  c : Range
  deriving DecidableEq, Repr

/-- `rangeHeap` as a `cmp`-sorted duplicate-free list: `Push` ignores a range already present. -/
def heapPush (r : Range) : List Range → List Range
  | [] => [r]
  | x :: xs => if r = x then x :: xs else if r.lt x then r :: x :: xs else x :: heapPush r xs

def heapOf (rs : List Range) : List Range := rs.foldl (fun h r => heapPush r h) []

/-- The loop of `Normalize` (`none` = the `panic("not reached")` arm, or out of fuel). -/
def normalizeLoop : Nat → List Range → List NormCb → Option (List NormCb)
  | 0, _, _ => none
  | _, [], log => some log.reverse
  | _, [_], log => some log.reverse
  | fuel + 1, x :: y :: rest, log =>
    -- x = Pop(), y = Peek(); heap now = y :: rest
    if x = y then normalizeLoop fuel (y :: rest) log
    else if !x.intersects y then normalizeLoop fuel (y :: rest) log
    else if x.b = y.b && x.e < y.e then
      let a : Range := ⟨x.e + 1, y.e⟩
      normalizeLoop fuel (heapPush a (heapPush x rest)) (⟨y, x, a, a⟩ :: log)
    else if x.b < y.b && x.e = y.e then
      let a : Range := ⟨x.b, y.b - 1⟩
      normalizeLoop fuel (heapPush a (y :: rest)) (⟨x, a, y, y⟩ :: log)
    else if x.b < y.b && x.e < y.e then
      let a : Range := ⟨x.b, y.b - 1⟩
      let b : Range := ⟨y.b, x.e⟩
      let c : Range := ⟨x.e + 1, y.e⟩
      normalizeLoop fuel (heapPush c (heapPush b (heapPush a rest))) (⟨y, b, c, c⟩ :: ⟨x, a, b, b⟩ :: log)
    else if x.b < y.b && x.e > y.e then
      let a : Range := ⟨x.b, y.b - 1⟩
      let b : Range := ⟨y.e + 1, x.e⟩
      normalizeLoop fuel (heapPush b (heapPush a (y :: rest))) (⟨x, a, y, b⟩ :: log)
    else none

def Range.len (r : Range) : Nat := (r.e + 1 - r.b).toNat

/-- Fuel that is enough for every list of ranges with `b ≤ e` (proved in `Lox.Rang3.Proofs`). -/
def normalizeFuel (rs : List Range) : Nat := 2 * ((rs.map Range.len).sum + rs.length) + 4

/-- `Normalize(ranges, onChange)`: the sequence of `onChange` calls. -/
def normalize (rs : List Range) : Option (List NormCb) := normalizeLoop (normalizeFuel rs) (heapOf rs) []

/-- What `mode.normalizeInputs`' callback does to the *set* of ranges labelling transitions:
`o` disappears, `a`, `b`, `c` appear. Kept as a sorted duplicate-free list. -/
def applyNormCb (s : List Range) (cb : NormCb) : List Range :=
  heapPush cb.c (heapPush cb.b (heapPush cb.a (s.filter (· ≠ cb.o))))

def normalizePieces (rs : List Range) : Option (List Range) :=
  (normalize rs).map fun log => log.foldl applyNormCb (heapOf rs)

/-- What `mode.mergeTransitions`' callback does to the set of ranges: `oa`, `ob` disappear, `n` appears. -/
def applyFlatCb (s : List Range) (cb : FlatCb) : List Range :=
  heapPush cb.n (s.filter (fun r => r ≠ cb.oa && r ≠ cb.ob))

end Lox.Rang3
