import Lox.Rang3.ClassExpr
/-! Model of `parser.on_char_class` (internal/parser/parser.go): how the character tokens between
`[` and `]` become `CharClassItem`s. A token is `CLASS_CHAR` (a plain character or one of the escapes
`\n \r \t \\ \- \xHH \uXXXX \UXXXXXXXX`, already unescaped to its code point) or `CLASS_DASH` (an
unescaped `-`, code point 45). The loop:

    for i := 0; i < len(chars); i++ {
        if i+2 > len(chars)-1 || chars[i+1].Type != CLASS_DASH { single chars[i] }
        else { range chars[i]..chars[i+2]; i += 2 }
    }

Core Lean only. -/
namespace Lox.Rang3

/-- A class character token: its code point and whether the token is `CLASS_DASH`. -/
abbrev CTok := Int × Bool

/-- `on_char_class`: a range is formed exactly when at least three tokens remain and the middle one is
a `CLASS_DASH` token (its TYPE, not its value, decides). -/
def classItems : List CTok → List Range
  | a :: d :: b :: rest =>
    if d.2 then ⟨a.1, b.1⟩ :: classItems rest else ⟨a.1, a.1⟩ :: classItems (d :: b :: rest)
  | a :: rest => ⟨a.1, a.1⟩ :: classItems rest
  | [] => []

/-- What a user writes between the brackets: single characters (possibly escaped, also `\-`) and
ranges `a-b` with an unescaped dash. -/
inductive Written where
  | single (c : Int)
  | range (a b : Int)
  deriving Repr, DecidableEq

def Written.toRange : Written → Range
  | .single c => ⟨c, c⟩
  | .range a b => ⟨a, b⟩

/-- The tokens the front-end lexer produces for a written item (`CLASS_CHAR` for every character or
escape, `CLASS_DASH` only for the unescaped range operator). -/
def Written.spell : Written → List CTok
  | .single c => [(c, false)]
  | .range a b => [(a, false), (45, true), (b, false)]

def spell (ws : List Written) : List CTok := ws.flatMap Written.spell

theorem classItems_single (c : Int) (L : List CTok) (h : ∀ d ∈ L.head?, d.2 = false) :
    classItems ((c, false) :: L) = ⟨c, c⟩ :: classItems L := by
  match L, h with
  | [], _ => simp [classItems]
  | [d], _ => simp [classItems]
  | d :: b :: rest, h =>
    have hd : d.2 = false := h d (by simp)
    simp [classItems, hd]

theorem classItems_range (a b : Int) (L : List CTok) :
    classItems ((a, false) :: (45, true) :: (b, false) :: L) = ⟨a, b⟩ :: classItems L := by
  simp [classItems]

theorem spell_head (ws : List Written) : ∀ d ∈ (spell ws).head?, d.2 = false := by
  cases ws with
  | nil => simp [spell]
  | cons w ws => cases w <;> simp [spell, Written.spell]

/-- The items of the AST are the written items, in order: an escaped dash is a character wherever it
stands, and only an unescaped dash between two characters forms a range. -/
theorem classItems_spell (ws : List Written) : classItems (spell ws) = ws.map Written.toRange := by
  induction ws with
  | nil => simp [spell, classItems]
  | cons w ws ih =>
    have hs : spell (w :: ws) = w.spell ++ spell ws := by simp [spell]
    cases w with
    | single c =>
      rw [hs]
      show classItems ((c, false) :: spell ws) = _
      rw [classItems_single c _ (spell_head ws), ih]; rfl
    | range a b =>
      rw [hs]
      show classItems ((a, false) :: (45, true) :: (b, false) :: spell ws) = _
      rw [classItems_range, ih]; rfl

end Lox.Rang3
