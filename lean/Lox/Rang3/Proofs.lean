import Lox.Rang3.Proofs.Defs
import Lox.Rang3.Proofs.Flatten
import Lox.Rang3.Proofs.Subtract
import Lox.Rang3.Proofs.ClassExpr
import Lox.Rang3.Proofs.Heap
import Lox.Rang3.Proofs.Normalize
import Lox.Rang3.Proofs.FlattenLog
import Lox.Rang3.Proofs.Canonical
import Lox.Rang3.Proofs.Relabel
/-! Helper lemmas for the `rang3` model (property C15); see the modules for the content. -/
