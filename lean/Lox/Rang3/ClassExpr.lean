import Lox.Rang3.Model
/-! Model of character-class evaluation: `CharClass.GetRanges` (internal/ast/char_class.go) and
`CharClassBinaryExpr.GetRanges` (internal/ast/char_class_expr.go). Core Lean only. -/
namespace Lox.Rang3

/-- `ast.CharClassExpr`. `cls neg items` is `ast.CharClass{Neg, CharClassItems}` (each item a range
`From..To`; a single character is `From = To`); `sub` is `CharClassBinaryExpr` with
`CharClassBinaryExprSub` (the only operator `parser.on_char_class_expr__binary` produces);
`add` is `CharClassBinaryExprAdd`, present in the AST but never built by the parser. -/
inductive ClassExpr where
  | cls (neg : Bool) (items : List Range)
  | sub (l r : ClassExpr)
  | add (l r : ClassExpr)
  deriving Repr

/-- `.` in a lexer rule: `parser.on_lexer_term__tok`, case `DOT`, builds the class `[\u0000-\U0010FFFF]`. -/
def ClassExpr.dot : ClassExpr := .cls false [⟨0, maxRune⟩]

/-- `GetRanges`.
* `CharClass.GetRanges`: items → `Flatten`; if `Neg`, `Subtract([{0, MaxRune}], ranges)`.
* `CharClassBinaryExpr.GetRanges`: `Sub` → `Subtract(left, right)`, `Add` → `Flatten(append(left, right))`. -/
def ClassExpr.eval : ClassExpr → List Range
  | .cls neg items =>
    let ranges := flatten items
    if neg then subtract [⟨0, maxRune⟩] ranges else ranges
  | .sub l r => subtract l.eval r.eval
  | .add l r => flatten (l.eval ++ r.eval)

/-- Every item written in the expression. -/
def ClassExpr.items : ClassExpr → List Range
  | .cls _ items => items
  | .sub l r => l.items ++ r.items
  | .add l r => l.items ++ r.items

/-- Decidable form of `c ∈ ⟦rs⟧`: what `LexerTermCharClass.NFACons` accepts as its single input, one
`B -ε-> · -r-> · -ε-> E` branch per range `r` of `GetRanges()`. -/
def inRanges (rs : List Range) (c : Int) : Bool := rs.any fun r => r.b ≤ c && c ≤ r.e

/-- `LexerTermLiteral.NFACons` (internal/ast/lexer_term_literal.go): for the decoded code points
`c₁ … cₙ` of the literal a chain `B -[c₁,c₁]-> s₁ -[c₂,c₂]-> … -> E`; the labels of the chain in order. -/
def literalLabels (cps : List Int) : List Range := cps.map fun c => ⟨c, c⟩

/-- The words spelled by a chain of states whose consecutive transitions carry the given labels:
the word leads from the first to the last state iff it has one code point per label, each inside
its label. -/
def chainMatches : List Range → List Int → Bool
  | [], [] => true
  | r :: rs, c :: w => (r.b ≤ c && c ≤ r.e) && chainMatches rs w
  | _, _ => false

/-! ### The callbacks of `mode.normalizeInputs` and `mode.mergeTransitions` on one state

(Not exercised by the correspondence harness: these two definitions are read off mode.go.) -/

/-- The outgoing range transitions of one automaton state as (label, target) pairs; targets are
state numbers. Used as a set. -/
abbrev Trans := List (Range × Nat)

/-- The callback inside `normalizeInputs` for one NFA state: `toStates := Transitions[o]`,
`Remove(o)`, then for every target `AddTransition(to, a)`, `(to, b)` and, if `c != b`, `(to, c)`. -/
def relabelSplit (t : Trans) (cb : NormCb) : Trans :=
  let tgts := (t.filter fun p => p.1 = cb.o).map (·.2)
  (t.filter fun p => p.1 ≠ cb.o) ++
    tgts.flatMap fun q => (cb.a, q) :: (cb.b, q) :: (if cb.c ≠ cb.b then [(cb.c, q)] else [])

/-- The callback inside `mergeTransitions` for one DFA state and the group of target `q`:
`Remove(oa)`, `Remove(ob)`, `AddTransition(q, n)` (`dfa.State.AddTransition` is a map `Put`, which
replaces an existing entry for `n`). -/
def relabelMerge (t : Trans) (cb : FlatCb) (q : Nat) : Trans :=
  (cb.n, q) :: t.filter fun p => p.1 ≠ cb.oa && p.1 ≠ cb.ob && p.1 ≠ cb.n

end Lox.Rang3
