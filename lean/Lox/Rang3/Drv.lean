import Lox.Drv.Common
import Lox.Rang3.Model
import Lox.Rang3.ClassText
/-! Driver ops of the Rang3 vertical (protocol documented in /verif/harness/drv/ops_rang3.go). -/
namespace Lox.Rang3
open Lox.Drv

def toRanges : List Int → Option (List Range)
  | [] => some []
  | b :: e :: rest => (toRanges rest).map (⟨b, e⟩ :: ·)
  | _ => none

def parseRanges (s : String) : Option (List Range) := parseInts s >>= toRanges

def showRanges (rs : List Range) : String := showInts (rs.flatMap fun r => [r.b, r.e])

def b2i (b : Bool) : Int := if b then 1 else 0

def handle (op payload : String) : Option String :=
  match op with
  | "rang3.rel" => do
    let rs ← parseRanges payload
    match rs with
    | [a, b] => some (showInts [b2i (a.contains b), b2i (a.intersects b), b2i (a.touches b), cmp a b])
    | _ => none
  | "rang3.flatten" => do
    let rs ← parseRanges payload
    some (showRanges (flatten rs))
  | "rang3.flattenlog" => do
    let rs ← parseRanges payload
    let (res, log) := flattenWithLog rs
    some (showRanges (log.foldl applyFlatCb (heapOf rs)) ++ " ; " ++ showRanges res)
  | "rang3.subtract" => do
    match payload.splitOn "|" with
    | [a, b] =>
      let a ← parseRanges a
      let b ← parseRanges b
      some (showRanges (subtract a b))
    | _ => none
  | "rang3.normalize" => do
    let rs ← parseRanges payload
    match normalize rs with
    | none => some "PANIC not reached"
    | some log =>
      let pieces := log.foldl applyNormCb (heapOf rs)
      some (showRanges pieces ++ " ; " ++ " / ".intercalate (log.map fun cb => showRanges [cb.o, cb.a, cb.b, cb.c]))
  | "rang3.classitems" =>
    -- payload: `neg | c f c f …` or `neg | … ; neg | …` (difference): tokens of each class, f = 1 for CLASS_DASH
    let cls (s : String) : Option ClassExpr :=
      match s.splitOn "|" with
      | [n, toks] => do
        let n ← parseInts n
        let xs ← parseInts toks
        let rec pairs : List Int → Option (List CTok)
          | [] => some []
          | c :: f :: rest => (pairs rest).map ((c, f != 0) :: ·)
          | _ => none
        let ts ← pairs xs
        some (.cls (n == [1]) (classItems ts))
      | _ => none
    match payload.splitOn ";" with
    | [a] => (cls a).map fun e => showRanges e.eval
    | [a, b] => do
      let l ← cls a
      let r ← cls b
      some (showRanges (ClassExpr.sub l r).eval)
    | _ => none
  | _ => none

end Lox.Rang3
