import Lox.Rang3.Proofs.Defs
/-! `rangeHeap` (range_heap.go) as a strictly `Compare`-sorted list: `heapPush`, `heapOf`. -/
namespace Lox.Rang3

/-- Strictly increasing in `Compare` order (hence duplicate-free). -/
def SortedLt (l : List Range) : Prop := l.Pairwise (fun x y => x.lt y = true)

theorem lt_irrefl (a : Range) : ¬ a.lt a = true := by rw [lt_iff]; omega

theorem lt_trans {a b c : Range} (h1 : a.lt b = true) (h2 : b.lt c = true) : a.lt c = true := by
  rw [lt_iff] at *; omega

theorem lt_of_not {a b : Range} (h1 : a ≠ b) (h2 : ¬ a.lt b = true) : b.lt a = true := by
  rw [lt_iff] at *
  have : a.b ≠ b.b ∨ a.e ≠ b.e := by
    by_cases hb : a.b = b.b
    · by_cases he : a.e = b.e
      · exact absurd (range_ext hb he) h1
      · exact Or.inr he
    · exact Or.inl hb
  omega

theorem mem_heapPush (r x : Range) (l : List Range) : x ∈ heapPush r l ↔ x = r ∨ x ∈ l := by
  induction l with
  | nil => simp [heapPush]
  | cons y ys ih =>
    simp only [heapPush]
    split
    · rename_i h; subst h; simp
    · split
      · simp
      · simp only [List.mem_cons, ih]
        constructor
        · rintro (h | h | h) <;> simp [h]
        · rintro (h | h | h) <;> simp [h]

theorem sortedLt_heapPush (r : Range) (l : List Range) (h : SortedLt l) : SortedLt (heapPush r l) := by
  induction l with
  | nil => simp [heapPush, SortedLt]
  | cons y ys ih =>
    unfold SortedLt at *
    rw [List.pairwise_cons] at h
    simp only [heapPush]
    split
    · exact List.pairwise_cons.2 h
    · rename_i hne
      split
      · rename_i hlt
        refine List.pairwise_cons.2 ⟨?_, List.pairwise_cons.2 h⟩
        intro z hz
        rcases List.mem_cons.1 hz with rfl | hz
        · exact hlt
        · exact lt_trans hlt (h.1 z hz)
      · rename_i hlt
        refine List.pairwise_cons.2 ⟨?_, ih h.2⟩
        intro z hz
        rcases (mem_heapPush r z ys).1 hz with rfl | hz
        · exact lt_of_not hne hlt
        · exact h.1 z hz

theorem mem_heapOf_aux (rs acc : List Range) (x : Range) :
    x ∈ rs.foldl (fun h r => heapPush r h) acc ↔ x ∈ acc ∨ x ∈ rs := by
  induction rs generalizing acc with
  | nil => simp
  | cons r rs ih =>
    simp only [List.foldl_cons, ih, mem_heapPush, List.mem_cons]
    constructor
    · rintro ((h | h) | h) <;> simp [h]
    · rintro (h | h | h) <;> simp [h]

theorem mem_heapOf (rs : List Range) (x : Range) : x ∈ heapOf rs ↔ x ∈ rs := by
  simp [heapOf, mem_heapOf_aux]

theorem sortedLt_heapOf_aux (rs acc : List Range) (h : SortedLt acc) :
    SortedLt (rs.foldl (fun h r => heapPush r h) acc) := by
  induction rs generalizing acc with
  | nil => simpa
  | cons r rs ih => exact ih _ (sortedLt_heapPush r acc h)

theorem sortedLt_heapOf (rs : List Range) : SortedLt (heapOf rs) :=
  sortedLt_heapOf_aux rs [] List.Pairwise.nil

/-- Total length, the termination measure of `Normalize`. -/
def total (h : List Range) : Nat := (h.map Range.len).sum

theorem total_nil : total [] = 0 := rfl
theorem total_cons (x : Range) (l : List Range) : total (x :: l) = x.len + total l := by
  simp [total]

theorem total_heapPush_le (r : Range) (h : List Range) : total (heapPush r h) ≤ total h + r.len := by
  induction h with
  | nil => simp [heapPush, total]
  | cons x xs ih =>
    simp only [heapPush]
    split
    · omega
    · split
      · simp only [total_cons]; omega
      · simp only [total_cons] at *; omega

theorem total_heapOf_aux (rs acc : List Range) :
    total (rs.foldl (fun h r => heapPush r h) acc) ≤ total acc + total rs := by
  induction rs generalizing acc with
  | nil => simp [total]
  | cons r rs ih =>
    simp only [List.foldl_cons, total_cons]
    have := ih (heapPush r acc)
    have := total_heapPush_le r acc
    omega

theorem total_heapOf_le (rs : List Range) : total (heapOf rs) ≤ total rs := by
  have := total_heapOf_aux rs []
  simpa [heapOf, total_nil] using this

theorem len_pos {r : Range} (h : Valid r) : 1 ≤ r.len := by
  unfold Valid at h; unfold Range.len; omega

end Lox.Rang3
