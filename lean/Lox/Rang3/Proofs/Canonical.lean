import Lox.Rang3.Proofs.FlattenLog
import Lox.Rang3.Proofs.Subtract
/-! Canonical lists are determined by their denotation; consequences for the sort in `Flatten`. -/
namespace Lox.Rang3

theorem flat_head_le {x : Range} {xs : List Range} (h : Flat (x :: xs)) {c : Int}
    (hc : Den (x :: xs) c) : x.b ≤ c := by
  have hx := (flat_cons x xs).1 h
  have hv := hx.1
  unfold Valid at hv
  rcases (den_cons ..).1 hc with h1 | h1
  · exact h1.1
  · have := den_gt_of hx.2.1 h1; omega

theorem flat_unique {l1 l2 : List Range} (h1 : Flat l1) (h2 : Flat l2)
    (h : ∀ c, Den l1 c ↔ Den l2 c) : l1 = l2 := by
  induction l1 generalizing l2 with
  | nil =>
    cases l2 with
    | nil => rfl
    | cons y ys =>
      have hv := ((flat_cons y ys).1 h2).1
      unfold Valid at hv
      exact absurd ((h y.b).2 ((den_cons ..).2 (Or.inl ⟨Int.le_refl _, hv⟩))) (by simp [den_nil])
  | cons x xs ih =>
    have hx := (flat_cons x xs).1 h1
    have hvx := hx.1
    unfold Valid at hvx
    cases l2 with
    | nil =>
      exact absurd ((h x.b).1 ((den_cons ..).2 (Or.inl ⟨Int.le_refl _, hvx⟩))) (by simp [den_nil])
    | cons y ys =>
      have hy := (flat_cons y ys).1 h2
      have hvy := hy.1
      unfold Valid at hvy
      have hxb : Den (x :: xs) x.b := (den_cons ..).2 (Or.inl ⟨Int.le_refl _, hvx⟩)
      have hyb : Den (y :: ys) y.b := (den_cons ..).2 (Or.inl ⟨Int.le_refl _, hvy⟩)
      have hb1 : y.b ≤ x.b := flat_head_le h2 ((h _).1 hxb)
      have hb2 : x.b ≤ y.b := flat_head_le h1 ((h _).2 hyb)
      have hb : x.b = y.b := by omega
      have he : x.e = y.e := by
        rcases Int.lt_trichotomy x.e y.e with hlt | heq | hgt
        · exfalso
          have hd : Den (y :: ys) (x.e + 1) := (den_cons ..).2 (Or.inl ⟨by omega, by omega⟩)
          rcases (den_cons ..).1 ((h _).2 hd) with hh | hh
          · omega
          · have := den_gt_of hx.2.1 hh; omega
        · exact heq
        · exfalso
          have hd : Den (x :: xs) (y.e + 1) := (den_cons ..).2 (Or.inl ⟨by omega, by omega⟩)
          rcases (den_cons ..).1 ((h _).1 hd) with hh | hh
          · omega
          · have := den_gt_of hy.2.1 hh; omega
      have hxy : x = y := range_ext hb he
      subst hxy
      congr 1
      refine ih hx.2.2 hy.2.2 ?_
      intro c
      have hh := h c
      rw [den_cons, den_cons] at hh
      constructor
      · intro hc
        have := den_gt_of hx.2.1 hc
        rcases hh.1 (Or.inr hc) with h' | h'
        · omega
        · exact h'
      · intro hc
        have := den_gt_of hy.2.1 hc
        rcases hh.2 (Or.inr hc) with h' | h'
        · omega
        · exact h'

/-- The merge loop gives the same ranges for every arrangement of the input that is sorted by lower
bound – in particular for whatever the unstable second sort in `Flatten` produces. -/
theorem flattenLoop_any_order (rs l : List Range) (hv : ∀ r ∈ rs, Valid r) (hs : SortedB l)
    (hm : ∀ x, x ∈ l ↔ x ∈ rs) : (flattenLoop l [] []).1 = flatten rs := by
  have hvl : ∀ r ∈ l, Valid r := fun r hr => hv r ((hm r).1 hr)
  have hinv := loopInv_init hs hvl
  refine flat_unique (flattenLoop_flat _ _ _ hinv) (flatten_flat' rs hv) ?_
  intro c
  rw [flattenLoop_den _ _ _ hinv, flatten_den' rs hv]
  simp [den_nil, den_congr hm]

/-! ### `sortRanges` keeps distinct inputs distinct -/

theorem nodup_insertSorted (r : Range) (l : List Range) (hr : r ∉ l) (h : l.Nodup) :
    (insertSorted r l).Nodup := by
  induction l with
  | nil => simp [insertSorted]
  | cons y ys ih =>
    rw [List.nodup_cons] at h
    simp only [insertSorted]
    split
    · exact List.nodup_cons.2 ⟨hr, List.nodup_cons.2 h⟩
    · refine List.nodup_cons.2 ⟨?_, ih (fun hh => hr (List.mem_cons_of_mem _ hh)) h.2⟩
      intro hy
      rcases (mem_insertSorted ..).1 hy with rfl | hy
      · exact hr (List.mem_cons_self ..)
      · exact h.1 hy

theorem nodup_foldl_insertSorted (rs acc : List Range) (hacc : acc.Nodup) (hrs : rs.Nodup)
    (hd : ∀ x ∈ rs, x ∉ acc) : (rs.foldl (fun acc r => insertSorted r acc) acc).Nodup := by
  induction rs generalizing acc with
  | nil => simpa
  | cons r rs ih =>
    rw [List.nodup_cons] at hrs
    refine ih _ (nodup_insertSorted r acc (hd r (List.mem_cons_self ..)) hacc) hrs.2 ?_
    intro x hx hmem
    rcases (mem_insertSorted ..).1 hmem with rfl | hmem
    · exact hrs.1 hx
    · exact hd x (List.mem_cons_of_mem _ hx) hmem

theorem nodup_sortRanges (rs : List Range) (h : rs.Nodup) : (sortRanges rs).Nodup :=
  nodup_foldl_insertSorted rs [] List.nodup_nil h (by simp)

end Lox.Rang3
