import Lox.Rang3.ClassExpr
import Lox.Rang3.Proofs.Canonical
import Lox.Rang3.Proofs.Normalize
/-! Effect of the split and merge callbacks on the transitions of one state, per target. -/
namespace Lox.Rang3

/-- `c` leads to target `q`: some transition to `q` carries a label containing `c`. -/
def DenT (t : Trans) (q : Nat) (c : Int) : Prop := ∃ p ∈ t, p.2 = q ∧ p.1.b ≤ c ∧ c ≤ p.1.e

theorem mem_relabelSplit (t : Trans) (cb : NormCb) (p : Range × Nat) :
    p ∈ relabelSplit t cb ↔
      (p ∈ t ∧ p.1 ≠ cb.o) ∨ ((cb.o, p.2) ∈ t ∧ (p.1 = cb.a ∨ p.1 = cb.b ∨ p.1 = cb.c)) := by
  obtain ⟨r, q⟩ := p
  simp only [relabelSplit, List.mem_append, List.mem_filter, List.mem_flatMap, List.mem_map,
    decide_eq_true_eq]
  constructor
  · rintro (h | ⟨q', ⟨⟨r', q''⟩, ⟨hm, ho⟩, hq⟩, hmem⟩)
    · exact Or.inl h
    · simp only at ho hq
      subst ho hq
      refine Or.inr ?_
      simp only [List.mem_cons, Prod.mk.injEq] at hmem
      rcases hmem with ⟨h1, h2⟩ | ⟨h1, h2⟩ | hmem
      · subst h2; exact ⟨hm, Or.inl h1⟩
      · subst h2; exact ⟨hm, Or.inr (Or.inl h1)⟩
      · split at hmem
        · simp only [List.mem_singleton, Prod.mk.injEq] at hmem
          obtain ⟨h1, h2⟩ := hmem
          subst h2; exact ⟨hm, Or.inr (Or.inr h1)⟩
        · simp at hmem
  · rintro (h | ⟨hm, h⟩)
    · exact Or.inl h
    · refine Or.inr ⟨q, ⟨(cb.o, q), ⟨hm, rfl⟩, rfl⟩, ?_⟩
      simp only [List.mem_cons, Prod.mk.injEq, and_true]
      rcases h with h | h | h
      · exact Or.inl h
      · exact Or.inr (Or.inl h)
      · by_cases hcb : cb.c = cb.b
        · exact Or.inr (Or.inl (h.trans hcb))
        · simp [hcb, h]

/-- A split callback (`o` exactly covered by `a`, `b`, `c` inside it) does not change which code
points lead to which target. -/
theorem relabelSplit_denT (t : Trans) (cb : NormCb) (ha : Inside cb.a cb.o) (hb : Inside cb.b cb.o)
    (hc : Inside cb.c cb.o)
    (hcover : ∀ k, cb.o.b ≤ k → k ≤ cb.o.e →
      (cb.a.b ≤ k ∧ k ≤ cb.a.e) ∨ (cb.b.b ≤ k ∧ k ≤ cb.b.e) ∨ (cb.c.b ≤ k ∧ k ≤ cb.c.e))
    (q : Nat) (k : Int) : DenT (relabelSplit t cb) q k ↔ DenT t q k := by
  unfold Inside at ha hb hc
  constructor
  · rintro ⟨p, hp, hq, hk⟩
    rcases (mem_relabelSplit t cb p).1 hp with ⟨hm, _⟩ | ⟨hm, h⟩
    · exact ⟨p, hm, hq, hk⟩
    · refine ⟨(cb.o, p.2), hm, hq, ?_⟩
      show cb.o.b ≤ k ∧ k ≤ cb.o.e
      rcases h with h | h | h <;> (rw [h] at hk; omega)
  · rintro ⟨p, hp, hq, hk⟩
    by_cases ho : p.1 = cb.o
    · have hm : (cb.o, p.2) ∈ t := by rw [← ho]; exact hp
      rw [ho] at hk
      rcases hcover k hk.1 hk.2 with h | h | h
      · exact ⟨(cb.a, p.2), (mem_relabelSplit ..).2 (Or.inr ⟨hm, Or.inl rfl⟩), hq, h⟩
      · exact ⟨(cb.b, p.2), (mem_relabelSplit ..).2 (Or.inr ⟨hm, Or.inr (Or.inl rfl)⟩), hq, h⟩
      · exact ⟨(cb.c, p.2), (mem_relabelSplit ..).2 (Or.inr ⟨hm, Or.inr (Or.inr rfl)⟩), hq, h⟩
    · exact ⟨p, (mem_relabelSplit ..).2 (Or.inl ⟨hp, ho⟩), hq, hk⟩

/-- Folding all callbacks of a `Normalize` run over the transitions of a state. -/
theorem relabelSplit_fold_denT (t : Trans) (s : List Range) (log : List NormCb) (h : CbsOk s log)
    (q : Nat) (k : Int) : DenT (log.foldl relabelSplit t) q k ↔ DenT t q k := by
  induction log generalizing t s with
  | nil => rfl
  | cons cb log ih =>
    simp only [List.foldl_cons]
    rw [ih _ _ h.2]
    exact relabelSplit_denT t cb h.1.a h.1.b h.1.c h.1.cover q k

end Lox.Rang3

namespace Lox.Rang3

/-- Every callback of `Flatten` reports the hull of its two arguments. -/
theorem flattenLoop_log_form (l acc : List Range) :
    ∀ cb ∈ (flattenLoop l acc []).2, cb.n = ⟨min cb.oa.b cb.ob.b, max cb.oa.e cb.ob.e⟩ := by
  induction l generalizing acc with
  | nil => simp [flattenLoop]
  | cons r rs ih =>
    cases acc with
    | nil => simp only [flattenLoop]; exact ih _
    | cons tip acc =>
      by_cases ht : tip.touches r = true
      · rw [flattenLoop_touch rs acc ht]
        intro cb hcb
        rcases List.mem_cons.1 hcb with rfl | hcb
        · rfl
        · exact ih _ cb hcb
      · rw [flattenLoop_notouch rs acc ht]; exact ih _

theorem mem_relabelMerge (t : Trans) (cb : FlatCb) (q : Nat) (p : Range × Nat) :
    p ∈ relabelMerge t cb q ↔ p = (cb.n, q) ∨ (p ∈ t ∧ p.1 ≠ cb.oa ∧ p.1 ≠ cb.ob ∧ p.1 ≠ cb.n) := by
  simp [relabelMerge, List.mem_filter, and_assoc]

/-- Folding the callbacks of one `Flatten` run (group of target `q`) over the transitions of a DFA
state: the code points leading to each target stay the same. -/
theorem relabelMerge_fold (t0 : Trans) (q : Nat) (hval0 : ∀ p ∈ t0, Valid p.1)
    (hdet : ∀ q1 q2 c, DenT t0 q1 c → DenT t0 q2 c → q1 = q2)
    (log : List FlatCb) (s : List Range) (t : Trans)
    (hok : MergeOk s log) (hasr : MergeAsserts s log)
    (hform : ∀ cb ∈ log, cb.n = ⟨min cb.oa.b cb.ob.b, max cb.oa.e cb.ob.e⟩)
    (h1 : ∀ x, x ∈ s ↔ (x, q) ∈ t) (h2 : ∀ p : Range × Nat, p.2 ≠ q → (p ∈ t ↔ p ∈ t0))
    (h3 : ∀ c, Den s c ↔ DenT t0 q c) (h4 : ∀ x ∈ s, Valid x) :
    (∀ q' c, DenT (log.foldl (fun t cb => relabelMerge t cb q) t) q' c ↔ DenT t0 q' c) ∧
      ∀ p ∈ log.foldl (fun t cb => relabelMerge t cb q) t, Valid p.1 := by
  induction log generalizing s t with
  | nil =>
    simp only [List.foldl_nil]
    constructor
    · intro q' c
      by_cases hq : q' = q
      · subst hq
        rw [← h3 c]
        constructor
        · rintro ⟨p, hp, hpq, hc⟩
          obtain ⟨x, y⟩ := p
          simp only at hpq; subst hpq
          exact ⟨x, (h1 x).2 hp, hc⟩
        · rintro ⟨x, hx, hc⟩
          exact ⟨(x, q'), (h1 x).1 hx, rfl, hc⟩
      · constructor
        · rintro ⟨p, hp, hpq, hc⟩
          exact ⟨p, (h2 p (by rw [hpq]; exact hq)).1 hp, hpq, hc⟩
        · rintro ⟨p, hp, hpq, hc⟩
          exact ⟨p, (h2 p (by rw [hpq]; exact hq)).2 hp, hpq, hc⟩
    · intro p hp
      by_cases hq : p.2 = q
      · obtain ⟨x, y⟩ := p
        simp only at hq; subst hq
        exact h4 x ((h1 x).2 hp)
      · exact hval0 p ((h2 p hq).1 hp)
  | cons cb log ih =>
    simp only [List.foldl_cons]
    obtain ⟨hden, hok'⟩ := hok
    obtain ⟨⟨hoa, hob⟩, hasr'⟩ := hasr
    have hn := hform cb (List.mem_cons_self ..)
    have hvoa : Valid cb.oa := h4 _ hoa
    have hvn : Valid cb.n := by
      unfold Valid at hvoa ⊢
      rw [hn]
      show min cb.oa.b cb.ob.b ≤ max cb.oa.e cb.ob.e
      omega
    have hns : cb.n ∈ applyFlatCb s cb := (mem_applyFlatCb ..).2 (Or.inl rfl)
    -- a label of another target is never a (valid) label whose points lead to `q`
    have hK : ∀ x, Valid x → Den s x.b → ∀ p ∈ t0, p.2 ≠ q → p.1 ≠ x := by
      intro x hvx hx p hp hpq hpx
      have hd1 : DenT t0 q x.b := (h3 _).1 hx
      have hd2 : DenT t0 p.2 x.b := ⟨p, hp, rfl, by rw [hpx]; exact ⟨Int.le_refl _, hvx⟩⟩
      exact hpq (hdet _ _ _ hd2 hd1)
    have hdoa : Den s cb.oa.b := ⟨cb.oa, hoa, Int.le_refl _, hvoa⟩
    have hdob : Den s cb.ob.b := ⟨cb.ob, hob, Int.le_refl _, h4 _ hob⟩
    have hdn : Den s cb.n.b := (hden _).1 ⟨cb.n, hns, Int.le_refl _, hvn⟩
    refine ih (applyFlatCb s cb) (relabelMerge t cb q) hok' hasr'
      (fun cb' h' => hform cb' (List.mem_cons_of_mem _ h')) ?_ ?_ ?_ ?_
    · intro x
      rw [mem_applyFlatCb, mem_relabelMerge, h1 x]
      simp only [Prod.mk.injEq, and_true]
      by_cases hx : x = cb.n
      · simp [hx]
      · simp [hx]
    · intro p hpq
      rw [mem_relabelMerge, ← h2 p hpq]
      constructor
      · rintro (h | h)
        · rw [h] at hpq; exact absurd rfl hpq
        · exact h.1
      · intro hp
        have hp0 := (h2 p hpq).1 hp
        exact Or.inr ⟨hp, hK _ hvoa hdoa p hp0 hpq, hK _ (h4 _ hob) hdob p hp0 hpq, hK _ hvn hdn p hp0 hpq⟩
    · intro c; exact (hden c).trans (h3 c)
    · intro x hx
      rcases (mem_applyFlatCb ..).1 hx with rfl | ⟨hx, _⟩
      · exact hvn
      · exact h4 x hx

end Lox.Rang3
