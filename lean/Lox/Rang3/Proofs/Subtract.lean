import Lox.Rang3.Proofs.Flatten
/-! `Subtract` (range.go): the two-cursor loop, one iteration at a time. -/
namespace Lox.Rang3

/-- One iteration of the loop in `Subtract`; `none` = loop exit (`len(b) = 0`, or the `break`). -/
def subStep (a b r : List Range) : Option (List Range × List Range × List Range) :=
  match b with
  | [] => none
  | eb :: b' =>
    let pushA : Option (List Range × List Range × List Range) :=
      match a with
      | [] => none
      | a0 :: a' => some (a', eb :: b', a0 :: r)
    match r with
    | [] => pushA
    | ea :: r' =>
      if ea.e < eb.b then pushA
      else if ea.b > eb.e then some (a, b', r)
      else if ea.b ≥ eb.b && ea.e ≤ eb.e then some (a, eb :: b', r')
      else if ea.b < eb.b && ea.e > eb.e then
        some (a, eb :: b', ⟨eb.b + 1, ea.e⟩ :: ⟨ea.b, eb.b - 1⟩ :: r')
      else if ea.b < eb.b && ea.e ≤ eb.e then some (a, eb :: b', ⟨ea.b, eb.b - 1⟩ :: r')
      else some (a, eb :: b', ⟨eb.e + 1, ea.e⟩ :: r')

theorem subtractLoop_zero (a b r : List Range) : subtractLoop 0 a b r = r.reverse ++ a := by
  simp [subtractLoop]

theorem subtractLoop_succ (fuel : Nat) (a b r : List Range) :
    subtractLoop (fuel + 1) a b r =
      match subStep a b r with
      | none => r.reverse ++ a
      | some (a', b', r') => subtractLoop fuel a' b' r' := by
  cases b with
  | nil => simp [subtractLoop, subStep]
  | cons eb b' =>
    cases r with
    | nil => cases a <;> simp [subtractLoop, subStep]
    | cons ea r' =>
      simp only [subtractLoop, subStep]
      split
      · cases a <;> simp
      · split
        · rfl
        · split
          · rfl
          · split
            · rfl
            · split <;> rfl

end Lox.Rang3

namespace Lox.Rang3

theorem flat_cons (x : Range) (l : List Range) :
    Flat (x :: l) ↔ Valid x ∧ (∀ y ∈ l, x.e + 1 < y.b) ∧ Flat l := by
  unfold Flat
  rw [List.pairwise_cons]
  constructor
  · rintro ⟨hv, hp, hq⟩
    exact ⟨hv x (List.mem_cons_self ..), hp, fun r hr => hv r (List.mem_cons_of_mem _ hr), hq⟩
  · rintro ⟨hx, hp, hv, hq⟩
    refine ⟨?_, hp, hq⟩
    intro r hr
    rcases List.mem_cons.1 hr with rfl | hr
    · exact hx
    · exact hv r hr

theorem flatD_cons (x : Range) (l : List Range) :
    FlatD (x :: l) ↔ Valid x ∧ (∀ y ∈ l, y.e + 1 < x.b) ∧ FlatD l := by
  unfold FlatD
  rw [List.pairwise_cons]
  constructor
  · rintro ⟨hv, hp, hq⟩
    exact ⟨hv x (List.mem_cons_self ..), hp, fun r hr => hv r (List.mem_cons_of_mem _ hr), hq⟩
  · rintro ⟨hx, hp, hv, hq⟩
    refine ⟨?_, hp, hq⟩
    intro r hr
    rcases List.mem_cons.1 hr with rfl | hr
    · exact hx
    · exact hv r hr

theorem flatD_nil : FlatD [] := ⟨by simp, List.Pairwise.nil⟩

theorem flat_append {l1 l2 : List Range} (h1 : Flat l1) (h2 : Flat l2)
    (h : ∀ x ∈ l1, ∀ y ∈ l2, x.e + 1 < y.b) : Flat (l1 ++ l2) := by
  refine ⟨?_, List.pairwise_append.2 ⟨h1.2, h2.2, h⟩⟩
  intro r hr
  rcases List.mem_append.1 hr with hr | hr
  · exact h1.1 r hr
  · exact h2.1 r hr

theorem den_lt_of {l : List Range} {k c : Int} (h : ∀ x ∈ l, x.e < k) (hc : Den l c) : c < k := by
  obtain ⟨x, hx, _, h2⟩ := hc
  have := h x hx; omega

theorem den_gt_of {l : List Range} {k c : Int} (h : ∀ x ∈ l, k < x.b) (hc : Den l c) : k < c := by
  obtain ⟨x, hx, h1, _⟩ := hc
  have := h x hx; omega

/-- Invariant of the loop in `Subtract`: `a`, `b` in canonical form, the result stack `r` in canonical
form read from the top and entirely before the rest of `a`; everything below the top of `r` ends
before the rest of `b` begins. -/
structure SubInv (a b r : List Range) : Prop where
  fa : Flat a
  fb : Flat b
  fr : FlatD r
  ra : ∀ x ∈ r, ∀ y ∈ a, x.e + 1 < y.b
  rb : ∀ x ∈ r.tail, ∀ y ∈ b, x.e < y.b

/-- What the state still stands for: `(⟦r⟧ ∪ ⟦a⟧) \ ⟦b⟧`. -/
def subSem (a b r : List Range) (c : Int) : Prop := (Den r c ∨ Den a c) ∧ ¬ Den b c

/-- How many more iterations can happen before `a` or `b` loses an element. -/
def subPhase : List Range → List Range → Nat
  | eb :: _, ea :: _ =>
    if ea.e < eb.b then 0 else if ea.b > eb.e then 0
    else if ea.b ≥ eb.b && ea.e ≤ eb.e then 1
    else if ea.b < eb.b && ea.e > eb.e then 2 else 1
  | _, _ => 0

/-- Termination measure of the loop. -/
def subMeasure (a b r : List Range) : Nat := 3 * (a.length + b.length) + subPhase b r

theorem subPhase_le (b r : List Range) : subPhase b r ≤ 2 := by
  unfold subPhase
  split
  · split <;> (try split) <;> (try split) <;> (try split) <;> omega
  · omega

/-! ### Exits -/

theorem sub_exit_flat {a b r : List Range} (h : SubInv a b r) : Flat (r.reverse ++ a) :=
  flat_append (flat_reverse h.fr) h.fa (fun x hx y hy => h.ra x (by simpa using hx) y hy)

theorem sub_exit_b {a r : List Range} (c : Int) : Den (r.reverse ++ a) c ↔ subSem a [] r c := by
  simp [subSem, den_append, den_reverse, den_nil]

theorem sub_exit_a {eb : Range} {b r : List Range} (h : SubInv [] (eb :: b) r)
    (hr : ∀ x ∈ r, x.e < eb.b) (c : Int) : Den (r.reverse ++ []) c ↔ subSem [] (eb :: b) r c := by
  have hb := (flat_cons eb b).1 h.fb
  have h1 : Den r c → c < eb.b := den_lt_of hr
  have h2 : Den b c → eb.e + 1 < c := den_gt_of hb.2.1
  have hv := hb.1
  unfold Valid at hv
  simp only [subSem, den_append, den_reverse, den_nil, den_cons]
  grind

/-! ### Transitions -/

theorem sub_push {a0 eb : Range} {a b r : List Range} (h : SubInv (a0 :: a) (eb :: b) r)
    (hr : ∀ x ∈ r, x.e < eb.b) :
    SubInv a (eb :: b) (a0 :: r) ∧ ∀ c, subSem a (eb :: b) (a0 :: r) c ↔ subSem (a0 :: a) (eb :: b) r c := by
  have ha := (flat_cons a0 a).1 h.fa
  have hb := (flat_cons eb b).1 h.fb
  have hv := hb.1
  unfold Valid at hv
  refine ⟨⟨ha.2.2, h.fb, ?_, ?_, ?_⟩, ?_⟩
  · exact (flatD_cons a0 r).2 ⟨ha.1, fun y hy => h.ra y hy a0 (List.mem_cons_self ..), h.fr⟩
  · intro x hx y hy
    rcases List.mem_cons.1 hx with rfl | hx
    · exact ha.2.1 y hy
    · exact h.ra x hx y (List.mem_cons_of_mem _ hy)
  · intro x hx y hy
    simp only [List.tail_cons] at hx
    rcases List.mem_cons.1 hy with rfl | hy
    · exact hr x hx
    · have := hr x hx; have := hb.2.1 y hy; omega
  · intro c
    simp only [subSem, den_cons]
    grind

theorem sub_dropB {ea eb : Range} {a b r : List Range} (h : SubInv a (eb :: b) (ea :: r))
    (hc : ea.b > eb.e) :
    SubInv a b (ea :: r) ∧ ∀ c, subSem a b (ea :: r) c ↔ subSem a (eb :: b) (ea :: r) c := by
  have hb := (flat_cons eb b).1 h.fb
  have hr := (flatD_cons ea r).1 h.fr
  have hv := hb.1
  have hva := hr.1
  unfold Valid at hv hva
  refine ⟨⟨h.fa, hb.2.2, h.fr, h.ra, fun x hx y hy => h.rb x hx y (List.mem_cons_of_mem _ hy)⟩, ?_⟩
  intro c
  have h1 : Den r c → c < eb.b :=
    den_lt_of (fun x hx => h.rb x (by simpa using hx) eb (List.mem_cons_self ..))
  have h2 : Den a c → ea.e + 1 < c := den_gt_of (fun y hy => h.ra ea (List.mem_cons_self ..) y hy)
  simp only [subSem, den_cons]
  grind

theorem sub_pop {ea eb : Range} {a b r : List Range} (h : SubInv a (eb :: b) (ea :: r))
    (hc1 : ea.b ≥ eb.b) (hc2 : ea.e ≤ eb.e) :
    SubInv a (eb :: b) r ∧ ∀ c, subSem a (eb :: b) r c ↔ subSem a (eb :: b) (ea :: r) c := by
  have hr := (flatD_cons ea r).1 h.fr
  refine ⟨⟨h.fa, h.fb, hr.2.2, fun x hx => h.ra x (List.mem_cons_of_mem _ hx), ?_⟩, ?_⟩
  · intro x hx y hy
    exact h.rb x (by simpa using List.mem_of_mem_tail hx) y hy
  · intro c
    simp only [subSem, den_cons]
    grind

theorem sub_split {ea eb : Range} {a b r : List Range} (h : SubInv a (eb :: b) (ea :: r))
    (hc1 : ea.b < eb.b) (hc2 : ea.e > eb.e) :
    SubInv a (eb :: b) (⟨eb.b + 1, ea.e⟩ :: ⟨ea.b, eb.b - 1⟩ :: r) ∧
      ∀ c, subSem a (eb :: b) (⟨eb.b + 1, ea.e⟩ :: ⟨ea.b, eb.b - 1⟩ :: r) c ↔
        subSem a (eb :: b) (ea :: r) c := by
  have hb := (flat_cons eb b).1 h.fb
  have hr := (flatD_cons ea r).1 h.fr
  have hv := hb.1
  have hva := hr.1
  unfold Valid at hv hva
  refine ⟨⟨h.fa, h.fb, ?_, ?_, ?_⟩, ?_⟩
  · refine (flatD_cons _ _).2 ⟨by show eb.b + 1 ≤ ea.e; omega, ?_, (flatD_cons _ _).2 ⟨by show ea.b ≤ eb.b - 1; omega, ?_, hr.2.2⟩⟩
    · intro y hy
      rcases List.mem_cons.1 hy with rfl | hy
      · show eb.b - 1 + 1 < eb.b + 1; omega
      · have := hr.2.1 y hy; show y.e + 1 < eb.b + 1; omega
    · intro y hy
      exact hr.2.1 y hy
  · intro x hx y hy
    have := h.ra ea (List.mem_cons_self ..) y hy
    rcases List.mem_cons.1 hx with rfl | hx
    · exact this
    · rcases List.mem_cons.1 hx with rfl | hx
      · show eb.b - 1 + 1 < y.b; omega
      · exact h.ra x (List.mem_cons_of_mem _ hx) y hy
  · intro x hx y hy
    simp only [List.tail_cons] at hx
    rcases List.mem_cons.1 hx with rfl | hx
    · rcases List.mem_cons.1 hy with rfl | hy
      · show y.b - 1 < y.b; omega
      · have := hb.2.1 y hy; show eb.b - 1 < y.b; omega
    · exact h.rb x (by simpa using hx) y hy
  · intro c
    simp only [subSem, den_cons]
    grind

theorem sub_cutRight {ea eb : Range} {a b r : List Range} (h : SubInv a (eb :: b) (ea :: r))
    (hc0 : ¬ ea.e < eb.b) (hc1 : ea.b < eb.b) (hc2 : ea.e ≤ eb.e) :
    SubInv a (eb :: b) (⟨ea.b, eb.b - 1⟩ :: r) ∧
      ∀ c, subSem a (eb :: b) (⟨ea.b, eb.b - 1⟩ :: r) c ↔ subSem a (eb :: b) (ea :: r) c := by
  have hb := (flat_cons eb b).1 h.fb
  have hr := (flatD_cons ea r).1 h.fr
  have hv := hb.1
  have hva := hr.1
  unfold Valid at hv hva
  refine ⟨⟨h.fa, h.fb, ?_, ?_, ?_⟩, ?_⟩
  · exact (flatD_cons _ _).2 ⟨by show ea.b ≤ eb.b - 1; omega, fun y hy => hr.2.1 y hy, hr.2.2⟩
  · intro x hx y hy
    have := h.ra ea (List.mem_cons_self ..) y hy
    rcases List.mem_cons.1 hx with rfl | hx
    · show eb.b - 1 + 1 < y.b; omega
    · exact h.ra x (List.mem_cons_of_mem _ hx) y hy
  · intro x hx y hy
    exact h.rb x (by simpa using hx) y hy
  · intro c
    simp only [subSem, den_cons]
    grind

theorem sub_cutLeft {ea eb : Range} {a b r : List Range} (h : SubInv a (eb :: b) (ea :: r))
    (hc0 : ¬ ea.b > eb.e) (hc1 : ea.b ≥ eb.b) (hc2 : ea.e > eb.e) :
    SubInv a (eb :: b) (⟨eb.e + 1, ea.e⟩ :: r) ∧
      ∀ c, subSem a (eb :: b) (⟨eb.e + 1, ea.e⟩ :: r) c ↔ subSem a (eb :: b) (ea :: r) c := by
  have hb := (flat_cons eb b).1 h.fb
  have hr := (flatD_cons ea r).1 h.fr
  have hv := hb.1
  have hva := hr.1
  unfold Valid at hv hva
  refine ⟨⟨h.fa, h.fb, ?_, ?_, ?_⟩, ?_⟩
  · refine (flatD_cons _ _).2 ⟨by show eb.e + 1 ≤ ea.e; omega, ?_, hr.2.2⟩
    intro y hy
    have := hr.2.1 y hy
    show y.e + 1 < eb.e + 1; omega
  · intro x hx y hy
    rcases List.mem_cons.1 hx with rfl | hx
    · exact h.ra ea (List.mem_cons_self ..) y hy
    · exact h.ra x (List.mem_cons_of_mem _ hx) y hy
  · intro x hx y hy
    exact h.rb x (by simpa using hx) y hy
  · intro c
    simp only [subSem, den_cons]
    grind

/-! ### Assembly -/

theorem subPhase_cons (ea eb : Range) (b r : List Range) :
    subPhase (eb :: b) (ea :: r) =
      if ea.e < eb.b then 0 else if ea.b > eb.e then 0
      else if ea.b ≥ eb.b && ea.e ≤ eb.e then 1
      else if ea.b < eb.b && ea.e > eb.e then 2 else 1 := rfl

theorem subPhase_zero_of {eb : Range} {b r : List Range} (h : ∀ x ∈ r.head?, x.e < eb.b) :
    subPhase (eb :: b) r = 0 := by
  cases r with
  | nil => rfl
  | cons x r => rw [subPhase_cons, if_pos (h x (by simp))]

theorem subStep_some {a b r a' b' r' : List Range} (hs : subStep a b r = some (a', b', r'))
    (h : SubInv a b r) :
    SubInv a' b' r' ∧ subMeasure a' b' r' < subMeasure a b r ∧
      ∀ c, subSem a' b' r' c ↔ subSem a b r c := by
  cases b with
  | nil => simp [subStep] at hs
  | cons eb b =>
    cases r with
    | nil =>
      cases a with
      | nil => simp [subStep] at hs
      | cons a0 a =>
        simp only [subStep, Option.some.injEq, Prod.mk.injEq] at hs
        obtain ⟨rfl, rfl, rfl⟩ := hs
        have := sub_push h (by simp)
        have hp := subPhase_le (eb :: b) [a0]
        refine ⟨this.1, ?_, this.2⟩
        simp only [subMeasure, List.length_cons]
        omega
    | cons ea r =>
      simp only [subStep] at hs
      split at hs
      · rename_i hc
        cases a with
        | nil => simp at hs
        | cons a0 a =>
          simp only [Option.some.injEq, Prod.mk.injEq] at hs
          obtain ⟨rfl, rfl, rfl⟩ := hs
          have hr : ∀ x ∈ ea :: r, x.e < eb.b := by
            intro x hx
            rcases List.mem_cons.1 hx with rfl | hx
            · exact hc
            · exact h.rb x (by simpa using hx) eb (List.mem_cons_self ..)
          have := sub_push h hr
          have hp := subPhase_le (eb :: b) (a0 :: ea :: r)
          refine ⟨this.1, ?_, this.2⟩
          simp only [subMeasure, List.length_cons]
          omega
      · rename_i hc0
        split at hs
        · rename_i hc
          simp only [Option.some.injEq, Prod.mk.injEq] at hs
          obtain ⟨rfl, rfl, rfl⟩ := hs
          have := sub_dropB h hc
          have hp := subPhase_le b (ea :: r)
          refine ⟨this.1, ?_, this.2⟩
          simp only [subMeasure, List.length_cons]
          omega
        · rename_i hc1
          have hrb : ∀ x ∈ r.head?, x.e < eb.b := fun x hx =>
            h.rb x (by simpa using List.mem_of_mem_head? hx) eb (List.mem_cons_self ..)
          split at hs
          · rename_i hc
            simp only [Option.some.injEq, Prod.mk.injEq] at hs
            obtain ⟨rfl, rfl, rfl⟩ := hs
            simp only [ge_iff_le, Bool.and_eq_true, decide_eq_true_eq] at hc
            have := sub_pop h hc.1 hc.2
            refine ⟨this.1, ?_, this.2⟩
            simp only [subMeasure, subPhase_zero_of hrb, subPhase_cons, if_neg hc0, if_neg hc1]
            simp [hc]
          · rename_i hc2
            split at hs
            · rename_i hc
              simp only [Option.some.injEq, Prod.mk.injEq] at hs
              obtain ⟨rfl, rfl, rfl⟩ := hs
              simp only [gt_iff_lt, Bool.and_eq_true, decide_eq_true_eq] at hc
              have := sub_split h hc.1 hc.2
              refine ⟨this.1, ?_, this.2⟩
              simp only [subMeasure, subPhase_cons, if_neg hc0, if_neg hc1, if_neg hc2]
              have hv := ((flat_cons eb b).1 h.fb).1
              unfold Valid at hv
              simp only [gt_iff_lt, ge_iff_le, Bool.and_eq_true, decide_eq_true_eq, hc, and_self, ↓reduceIte]
              split <;> (try split) <;> (try split) <;> (try split) <;> omega
            · rename_i hc3
              simp only [ge_iff_le, gt_iff_lt, Bool.and_eq_true, decide_eq_true_eq] at hc2 hc3
              split at hs
              · rename_i hc
                simp only [Option.some.injEq, Prod.mk.injEq] at hs
                obtain ⟨rfl, rfl, rfl⟩ := hs
                simp only [Bool.and_eq_true, decide_eq_true_eq] at hc
                have := sub_cutRight h hc0 hc.1 hc.2
                refine ⟨this.1, ?_, this.2⟩
                simp only [subMeasure, subPhase_cons, if_neg hc0, if_neg hc1]
                simp only [gt_iff_lt, ge_iff_le, Bool.and_eq_true, decide_eq_true_eq]
                split <;> (try split) <;> (try split) <;> (try split) <;> omega
              · rename_i hc
                simp only [Option.some.injEq, Prod.mk.injEq] at hs
                obtain ⟨rfl, rfl, rfl⟩ := hs
                simp only [Bool.and_eq_true, decide_eq_true_eq] at hc
                have := sub_cutLeft h hc1 (by omega) (by omega)
                refine ⟨this.1, ?_, this.2⟩
                simp only [subMeasure, subPhase_cons, if_neg hc0, if_neg hc1]
                simp only [gt_iff_lt, ge_iff_le, Bool.and_eq_true, decide_eq_true_eq]
                split <;> (try split) <;> (try split) <;> (try split) <;> omega

theorem subStep_none {a b r : List Range} (hs : subStep a b r = none) (h : SubInv a b r) (c : Int) :
    Den (r.reverse ++ a) c ↔ subSem a b r c := by
  cases b with
  | nil => exact sub_exit_b c
  | cons eb b =>
    cases r with
    | nil =>
      cases a with
      | nil => exact sub_exit_a h (by simp) c
      | cons a0 a => simp [subStep] at hs
    | cons ea r =>
      simp only [subStep] at hs
      split at hs
      · rename_i hc
        cases a with
        | nil =>
          refine sub_exit_a h ?_ c
          intro x hx
          rcases List.mem_cons.1 hx with rfl | hx
          · exact hc
          · exact h.rb x (by simpa using hx) eb (List.mem_cons_self ..)
        | cons a0 a => simp at hs
      · split at hs
        · simp at hs
        · split at hs
          · simp at hs
          · split at hs
            · simp at hs
            · split at hs <;> simp at hs

/-- With enough fuel the loop returns a canonical list denoting `(⟦r⟧ ∪ ⟦a⟧) \ ⟦b⟧`. -/
theorem subtractLoop_spec (fuel : Nat) (a b r : List Range) (h : SubInv a b r)
    (hm : subMeasure a b r < fuel) :
    Flat (subtractLoop fuel a b r) ∧ ∀ c, Den (subtractLoop fuel a b r) c ↔ subSem a b r c := by
  induction fuel generalizing a b r with
  | zero => omega
  | succ fuel ih =>
    rw [subtractLoop_succ]
    cases hstep : subStep a b r with
    | none => exact ⟨sub_exit_flat h, subStep_none hstep h⟩
    | some st =>
      obtain ⟨a', b', r'⟩ := st
      obtain ⟨h', hm', hsem⟩ := subStep_some hstep h
      have := ih a' b' r' h' (by omega)
      exact ⟨this.1, fun c => (this.2 c).trans (hsem c)⟩

/-- More fuel than the measure changes nothing. -/
theorem subtractLoop_fuel_succ (fuel : Nat) (a b r : List Range) (h : SubInv a b r)
    (hm : subMeasure a b r < fuel) : subtractLoop (fuel + 1) a b r = subtractLoop fuel a b r := by
  induction fuel generalizing a b r with
  | zero => omega
  | succ fuel ih =>
    rw [subtractLoop_succ (fuel + 1), subtractLoop_succ fuel]
    cases hstep : subStep a b r with
    | none => rfl
    | some st =>
      obtain ⟨a', b', r'⟩ := st
      obtain ⟨h', hm', _⟩ := subStep_some hstep h
      exact ih a' b' r' h' (by omega)

theorem subtractLoop_fuel_ge (fuel fuel' : Nat) (a b r : List Range) (h : SubInv a b r)
    (hm : subMeasure a b r < fuel) (hf : fuel ≤ fuel') :
    subtractLoop fuel' a b r = subtractLoop fuel a b r := by
  induction fuel' with
  | zero => have : fuel = 0 := by omega
            subst this; rfl
  | succ n ih =>
    rcases Nat.lt_or_ge n fuel with hlt | hge
    · have : fuel = n + 1 := by omega
      subst this; rfl
    · rw [subtractLoop_fuel_succ n a b r h (by omega)]
      exact ih hge

theorem subInv_init {a b : List Range} (ha : Flat a) (hb : Flat b) : SubInv a b [] :=
  ⟨ha, hb, flatD_nil, by simp, by simp⟩

theorem subMeasure_init_lt (a b : List Range) :
    subMeasure a b [] < 4 * (a.length + 1) * (b.length + 1) + 8 := by
  have h : subPhase b [] = 0 := by cases b <;> rfl
  have : a.length + b.length ≤ (a.length + 1) * (b.length + 1) := by
    rw [Nat.add_mul, Nat.mul_add, Nat.mul_add]; omega
  simp only [subMeasure, h, Nat.mul_assoc]
  omega

theorem subtract_flat' (a b : List Range) (ha : ∀ r ∈ a, Valid r) (hb : ∀ r ∈ b, Valid r)
    (hfa : a.isEmpty = true ∨ b.isEmpty = true → Flat a) : Flat (subtract a b) := by
  unfold subtract
  split
  · rename_i h; exact hfa (by simpa using h)
  · exact (subtractLoop_spec _ _ _ _ (subInv_init (flatten_flat' a ha) (flatten_flat' b hb))
      (subMeasure_init_lt _ _)).1

theorem subtract_den' (a b : List Range) (ha : ∀ r ∈ a, Valid r) (hb : ∀ r ∈ b, Valid r) (c : Int) :
    Den (subtract a b) c ↔ Den a c ∧ ¬ Den b c := by
  unfold subtract
  split
  · rename_i h
    simp only [Bool.or_eq_true, List.isEmpty_iff] at h
    rcases h with rfl | rfl <;> simp [den_nil]
  · rw [(subtractLoop_spec _ _ _ _ (subInv_init (flatten_flat' a ha) (flatten_flat' b hb))
      (subMeasure_init_lt _ _)).2 c]
    simp [subSem, den_nil, flatten_den' a ha, flatten_den' b hb]

end Lox.Rang3
