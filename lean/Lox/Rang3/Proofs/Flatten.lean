import Lox.Rang3.Proofs.Defs
/-! `Flatten` (range.go): the sort and the merge loop. -/
namespace Lox.Rang3

/-! ### The sort -/

theorem mem_insertSorted (r x : Range) (l : List Range) : x ∈ insertSorted r l ↔ x = r ∨ x ∈ l := by
  induction l with
  | nil => simp [insertSorted]
  | cons y ys ih =>
    simp only [insertSorted]
    split
    · simp
    · simp only [List.mem_cons, ih]
      constructor
      · rintro (h | h | h) <;> simp [h]
      · rintro (h | h | h) <;> simp [h]

theorem sortedB_insertSorted (r : Range) (l : List Range) (h : SortedB l) : SortedB (insertSorted r l) := by
  induction l with
  | nil => simp [insertSorted, SortedB]
  | cons y ys ih =>
    simp only [insertSorted]
    unfold SortedB at *
    rw [List.pairwise_cons] at h
    split
    · rename_i hlt
      rw [lt_iff] at hlt
      refine List.pairwise_cons.2 ⟨?_, List.pairwise_cons.2 h⟩
      intro z hz
      rcases List.mem_cons.1 hz with rfl | hz
      · omega
      · have := h.1 z hz; omega
    · rename_i hlt
      rw [lt_iff] at hlt
      refine List.pairwise_cons.2 ⟨?_, ih h.2⟩
      intro z hz
      rcases (mem_insertSorted r z ys).1 hz with rfl | hz
      · omega
      · exact h.1 z hz

theorem foldl_insertSorted_mem (rs acc : List Range) (x : Range) :
    x ∈ rs.foldl (fun acc r => insertSorted r acc) acc ↔ x ∈ acc ∨ x ∈ rs := by
  induction rs generalizing acc with
  | nil => simp
  | cons r rs ih =>
    simp only [List.foldl_cons, ih, mem_insertSorted, List.mem_cons]
    constructor
    · rintro ((h | h) | h) <;> simp [h]
    · rintro (h | h | h) <;> simp [h]

theorem foldl_insertSorted_sortedB (rs acc : List Range) (h : SortedB acc) :
    SortedB (rs.foldl (fun acc r => insertSorted r acc) acc) := by
  induction rs generalizing acc with
  | nil => simpa
  | cons r rs ih => exact ih _ (sortedB_insertSorted r acc h)

theorem mem_sortRanges (rs : List Range) (x : Range) : x ∈ sortRanges rs ↔ x ∈ rs := by
  simp [sortRanges, foldl_insertSorted_mem]

theorem sortedB_sortRanges (rs : List Range) : SortedB (sortRanges rs) :=
  foldl_insertSorted_sortedB rs [] List.Pairwise.nil

/-! ### The merge loop -/

/-- The top of the stack starts no later than every range still to come. -/
def HeadLe : List Range → List Range → Prop
  | [], _ => True
  | t :: _, l => ∀ r ∈ l, t.b ≤ r.b

theorem touches_iff_of_le {t r : Range} (h : t.b ≤ r.b) : t.touches r = true ↔ r.b ≤ t.e + 1 := by
  unfold Range.touches
  rw [if_neg (by omega)]
  simp; omega

/-- Invariant package of the merge loop. -/
structure LoopInv (l acc : List Range) : Prop where
  sorted : SortedB l
  valid : ∀ r ∈ l, Valid r
  flat : FlatD acc
  head : HeadLe acc l

theorem LoopInv.push_empty {r : Range} {rs : List Range} (h : LoopInv (r :: rs) []) : LoopInv rs [r] := by
  obtain ⟨hs, hv, _, _⟩ := h
  unfold SortedB at hs; rw [List.pairwise_cons] at hs
  exact ⟨hs.2, fun x hx => hv x (List.mem_cons_of_mem _ hx),
    ⟨by simpa using hv r (List.mem_cons_self ..), by simp⟩, fun x hx => hs.1 x hx⟩

theorem LoopInv.merge {r tip : Range} {rs acc : List Range} (h : LoopInv (r :: rs) (tip :: acc))
    (_ht : tip.touches r = true) : LoopInv rs (⟨min tip.b r.b, max tip.e r.e⟩ :: acc) := by
  obtain ⟨hs, hv, ⟨hfv, hfp⟩, hh⟩ := h
  unfold SortedB at hs; rw [List.pairwise_cons] at hs
  rw [List.pairwise_cons] at hfp
  have htr : tip.b ≤ r.b := hh r (List.mem_cons_self ..)
  have hvt : Valid tip := hfv tip (List.mem_cons_self ..)
  have hvr : Valid r := hv r (List.mem_cons_self ..)
  unfold Valid at hvt hvr
  refine ⟨hs.2, fun x hx => hv x (List.mem_cons_of_mem _ hx), ⟨?_, ?_⟩, ?_⟩
  · intro x hx
    rcases List.mem_cons.1 hx with rfl | hx
    · show min tip.b r.b ≤ max tip.e r.e
      omega
    · exact hfv x (List.mem_cons_of_mem _ hx)
  · refine List.pairwise_cons.2 ⟨?_, hfp.2⟩
    intro y hy
    have := hfp.1 y hy
    show y.e + 1 < min tip.b r.b
    omega
  · intro x hx
    have := hs.1 x hx
    show min tip.b r.b ≤ x.b
    omega

theorem LoopInv.push {r tip : Range} {rs acc : List Range} (h : LoopInv (r :: rs) (tip :: acc))
    (ht : ¬ tip.touches r = true) : LoopInv rs (r :: tip :: acc) := by
  obtain ⟨hs, hv, ⟨hfv, hfp⟩, hh⟩ := h
  unfold SortedB at hs; rw [List.pairwise_cons] at hs
  have htr : tip.b ≤ r.b := hh r (List.mem_cons_self ..)
  rw [touches_iff_of_le htr] at ht
  have hvt : Valid tip := hfv tip (List.mem_cons_self ..)
  have hvr : Valid r := hv r (List.mem_cons_self ..)
  unfold Valid at hvt hvr
  refine ⟨hs.2, fun x hx => hv x (List.mem_cons_of_mem _ hx), ⟨?_, ?_⟩, fun x hx => hs.1 x hx⟩
  · intro x hx
    rcases List.mem_cons.1 hx with rfl | hx
    · exact hvr
    · exact hfv x hx
  · refine List.pairwise_cons.2 ⟨?_, hfp⟩
    intro y hy
    rcases List.mem_cons.1 hy with rfl | hy
    · omega
    · have := (List.pairwise_cons.1 hfp).1 y hy; omega

theorem flattenLoop_flat (l acc : List Range) (log : List FlatCb) (h : LoopInv l acc) :
    Flat (flattenLoop l acc log).1 := by
  induction l generalizing acc log with
  | nil => simpa [flattenLoop] using flat_reverse h.flat
  | cons r rs ih =>
    cases acc with
    | nil => simpa [flattenLoop] using ih _ _ h.push_empty
    | cons tip acc =>
      simp only [flattenLoop]
      split
      · rename_i ht; exact ih _ _ (h.merge ht)
      · rename_i ht; exact ih _ _ (h.push ht)

theorem flattenLoop_den (l acc : List Range) (log : List FlatCb) (h : LoopInv l acc) (c : Int) :
    Den (flattenLoop l acc log).1 c ↔ Den acc c ∨ Den l c := by
  induction l generalizing acc log with
  | nil => simp [flattenLoop, den_reverse, den_nil]
  | cons r rs ih =>
    cases acc with
    | nil =>
      simp only [flattenLoop]
      rw [ih _ _ h.push_empty]
      simp [den_cons, den_nil]
    | cons tip acc =>
      simp only [flattenLoop]
      split
      · rename_i ht
        rw [ih _ _ (h.merge ht)]
        have htr : tip.b ≤ r.b := h.head r (List.mem_cons_self ..)
        rw [touches_iff_of_le htr] at ht
        have hvt : Valid tip := h.flat.1 tip (List.mem_cons_self ..)
        have hvr : Valid r := h.valid r (List.mem_cons_self ..)
        unfold Valid at hvt hvr
        simp only [den_cons]
        have : (min tip.b r.b ≤ c ∧ c ≤ max tip.e r.e) ↔ ((tip.b ≤ c ∧ c ≤ tip.e) ∨ (r.b ≤ c ∧ c ≤ r.e)) := by
          omega
        rw [this]
        constructor
        · rintro (((h | h) | h) | h) <;> simp [h]
        · rintro ((h | h) | h | h) <;> simp [h]
      · rename_i ht
        rw [ih _ _ (h.push ht)]
        simp only [den_cons]
        constructor
        · rintro ((h | h | h) | h) <;> simp [h]
        · rintro ((h | h) | h | h) <;> simp [h]

theorem loopInv_init {l : List Range} (hs : SortedB l) (hv : ∀ r ∈ l, Valid r) : LoopInv l [] :=
  ⟨hs, hv, ⟨by simp, List.Pairwise.nil⟩, trivial⟩

theorem loopInv_sortRanges {rs : List Range} (hv : ∀ r ∈ rs, Valid r) : LoopInv (sortRanges rs) [] :=
  loopInv_init (sortedB_sortRanges rs) (fun r hr => hv r ((mem_sortRanges rs r).1 hr))

theorem flatten_flat' (rs : List Range) (hv : ∀ r ∈ rs, Valid r) : Flat (flatten rs) :=
  flattenLoop_flat _ _ _ (loopInv_sortRanges hv)

theorem flatten_den' (rs : List Range) (hv : ∀ r ∈ rs, Valid r) (c : Int) :
    Den (flatten rs) c ↔ Den rs c := by
  unfold flatten flattenWithLog
  rw [flattenLoop_den _ _ _ (loopInv_sortRanges hv)]
  simp [den_nil, den_congr (mem_sortRanges rs)]

end Lox.Rang3
