import Lox.Rang3.Proofs.Heap
/-! `Normalize` (range.go): one iteration at a time. -/
namespace Lox.Rang3

/-- One iteration of the loop of `Normalize` on a heap `x :: y :: rest` (`x = Pop()`, `y = Peek()`):
the new heap and the `onChange` calls in the order they are made; `none` = `panic("not reached")`. -/
def normStep (x y : Range) (rest : List Range) : Option (List Range × List NormCb) :=
  if x = y then some (y :: rest, [])
  else if !x.intersects y then some (y :: rest, [])
  else if x.b = y.b && x.e < y.e then
    let a : Range := ⟨x.e + 1, y.e⟩
    some (heapPush a (heapPush x rest), [⟨y, x, a, a⟩])
  else if x.b < y.b && x.e = y.e then
    let a : Range := ⟨x.b, y.b - 1⟩
    some (heapPush a (y :: rest), [⟨x, a, y, y⟩])
  else if x.b < y.b && x.e < y.e then
    let a : Range := ⟨x.b, y.b - 1⟩
    let b : Range := ⟨y.b, x.e⟩
    let c : Range := ⟨x.e + 1, y.e⟩
    some (heapPush c (heapPush b (heapPush a rest)), [⟨x, a, b, b⟩, ⟨y, b, c, c⟩])
  else if x.b < y.b && x.e > y.e then
    let a : Range := ⟨x.b, y.b - 1⟩
    let b : Range := ⟨y.e + 1, x.e⟩
    some (heapPush b (heapPush a (y :: rest)), [⟨x, a, y, b⟩])
  else none

theorem normalizeLoop_succ (fuel : Nat) (x y : Range) (rest : List Range) (log : List NormCb) :
    normalizeLoop (fuel + 1) (x :: y :: rest) log =
      match normStep x y rest with
      | none => none
      | some (h', cbs) => normalizeLoop fuel h' (cbs.reverse ++ log) := by
  simp only [normalizeLoop, normStep]
  split
  · rfl
  · split
    · rfl
    · split
      · rfl
      · split
        · rfl
        · split
          · rfl
          · split <;> rfl

/-- The log argument is only an accumulator. -/
theorem normalizeLoop_log (fuel : Nat) (h : List Range) (log : List NormCb) :
    normalizeLoop fuel h log = (normalizeLoop fuel h []).map (log.reverse ++ ·) := by
  induction fuel generalizing h log with
  | zero => simp [normalizeLoop]
  | succ fuel ih =>
    match h with
    | [] => simp [normalizeLoop]
    | [_] => simp [normalizeLoop]
    | x :: y :: rest =>
      rw [normalizeLoop_succ, normalizeLoop_succ]
      cases normStep x y rest with
      | none => rfl
      | some st =>
        obtain ⟨h', cbs⟩ := st
        simp only []
        rw [ih h' (cbs.reverse ++ log), ih h' (cbs.reverse ++ [])]
        cases normalizeLoop fuel h' [] <;> simp

theorem normalizeLoop_succ' (fuel : Nat) (x y : Range) (rest : List Range) :
    normalizeLoop (fuel + 1) (x :: y :: rest) [] =
      match normStep x y rest with
      | none => none
      | some (h', cbs) => (normalizeLoop fuel h' []).map (cbs ++ ·) := by
  rw [normalizeLoop_succ]
  cases normStep x y rest with
  | none => rfl
  | some st =>
    obtain ⟨h', cbs⟩ := st
    simp only []
    rw [normalizeLoop_log]
    simp

/-! ### The geometric cases -/

theorem intersects_iff_of_le {x y : Range} (h : x.b ≤ y.b) : x.intersects y = true ↔ y.b ≤ x.e := by
  unfold Range.intersects
  rw [if_neg (by omega)]
  simp

theorem normStep_skip {x y : Range} (rest : List Range) (hle : x.b ≤ y.b) (h : x.e < y.b) :
    normStep x y rest = some (y :: rest, []) := by
  have hi : x.intersects y = false := by
    rw [← Bool.not_eq_true, intersects_iff_of_le hle]; omega
  unfold normStep
  split
  · rfl
  · simp [hi]

theorem normStep_case1 {x y : Range} (rest : List Range) (hb : x.b = y.b) (he : x.e < y.e) (hv : x.b ≤ x.e) :
    normStep x y rest = some (heapPush ⟨x.e + 1, y.e⟩ (heapPush x rest), [⟨y, x, ⟨x.e + 1, y.e⟩, ⟨x.e + 1, y.e⟩⟩]) := by
  have hi : x.intersects y = true := by
    rw [intersects_iff_of_le (by omega)]; omega
  have hne : x ≠ y := range_ne (Or.inr (by omega))
  simp [normStep, hne, hi, hb, he]

theorem normStep_case2 {x y : Range} (rest : List Range) (hb : x.b < y.b) (he : x.e = y.e) (hv : y.b ≤ y.e) :
    normStep x y rest = some (heapPush ⟨x.b, y.b - 1⟩ (y :: rest), [⟨x, ⟨x.b, y.b - 1⟩, y, y⟩]) := by
  have hi : x.intersects y = true := by
    rw [intersects_iff_of_le (by omega)]; omega
  have hne : x ≠ y := range_ne (Or.inl (by omega))
  have : ¬ x.b = y.b := by omega
  simp [normStep, hne, hi, hb, he, this]

theorem normStep_case3 {x y : Range} (rest : List Range) (hb : x.b < y.b) (he : x.e < y.e) (hi' : y.b ≤ x.e) :
    normStep x y rest = some (heapPush ⟨x.e + 1, y.e⟩ (heapPush ⟨y.b, x.e⟩ (heapPush ⟨x.b, y.b - 1⟩ rest)),
      [⟨x, ⟨x.b, y.b - 1⟩, ⟨y.b, x.e⟩, ⟨y.b, x.e⟩⟩, ⟨y, ⟨y.b, x.e⟩, ⟨x.e + 1, y.e⟩, ⟨x.e + 1, y.e⟩⟩]) := by
  have hi : x.intersects y = true := by
    rw [intersects_iff_of_le (by omega)]; omega
  have hne : x ≠ y := range_ne (Or.inl (by omega))
  have h1 : ¬ x.b = y.b := by omega
  have h2 : ¬ x.e = y.e := by omega
  simp [normStep, hne, hi, hb, he, h1, h2]

theorem normStep_case4 {x y : Range} (rest : List Range) (hb : x.b < y.b) (he : y.e < x.e) (hv : y.b ≤ y.e) :
    normStep x y rest = some (heapPush ⟨y.e + 1, x.e⟩ (heapPush ⟨x.b, y.b - 1⟩ (y :: rest)),
      [⟨x, ⟨x.b, y.b - 1⟩, y, ⟨y.e + 1, x.e⟩⟩]) := by
  have hi : x.intersects y = true := by
    rw [intersects_iff_of_le (by omega)]; omega
  have hne : x ≠ y := range_ne (Or.inl (by omega))
  have h1 : ¬ x.b = y.b := by omega
  have h2 : ¬ x.e = y.e := by omega
  have h3 : ¬ x.e < y.e := by omega
  simp [normStep, hne, hi, hb, he, h1, h2, h3]

/-! ### Refinement and the loop invariant -/

theorem Inside.refl (p : Range) : Inside p p := ⟨Int.le_refl _, Int.le_refl _⟩
theorem Inside.trans {a b c : Range} (h1 : Inside a b) (h2 : Inside b c) : Inside a c := by
  unfold Inside at *; omega

/-- `s'` refines `s`: every range of `s'` lies inside a range of `s`, and every range of `s` is
covered by the ranges of `s'` lying inside it. -/
structure Refines (s s' : List Range) : Prop where
  inside : ∀ p' ∈ s', ∃ p ∈ s, Inside p' p
  cover : ∀ p ∈ s, ∀ c, p.b ≤ c → c ≤ p.e → ∃ p' ∈ s', Inside p' p ∧ p'.b ≤ c ∧ c ≤ p'.e

theorem Refines.refl (s : List Range) : Refines s s :=
  ⟨fun p hp => ⟨p, hp, Inside.refl p⟩, fun p hp _ h1 h2 => ⟨p, hp, Inside.refl p, h1, h2⟩⟩

theorem Refines.trans {s1 s2 s3 : List Range} (h12 : Refines s1 s2) (h23 : Refines s2 s3) :
    Refines s1 s3 := by
  constructor
  · intro p3 hp3
    obtain ⟨p2, hp2, h32⟩ := h23.inside p3 hp3
    obtain ⟨p1, hp1, h21⟩ := h12.inside p2 hp2
    exact ⟨p1, hp1, h32.trans h21⟩
  · intro p1 hp1 c hc1 hc2
    obtain ⟨p2, hp2, h21, hc3, hc4⟩ := h12.cover p1 hp1 c hc1 hc2
    obtain ⟨p3, hp3, h32, hc5, hc6⟩ := h23.cover p2 hp2 c hc3 hc4
    exact ⟨p3, hp3, h32.trans h21, hc5, hc6⟩

theorem mem_applyNormCb (s : List Range) (cb : NormCb) (r : Range) :
    r ∈ applyNormCb s cb ↔ r = cb.c ∨ r = cb.b ∨ r = cb.a ∨ (r ∈ s ∧ r ≠ cb.o) := by
  simp [applyNormCb, mem_heapPush, List.mem_filter]

theorem sortedLt_applyNormCb (s : List Range) (cb : NormCb) (h : SortedLt s) :
    SortedLt (applyNormCb s cb) := by
  unfold applyNormCb
  exact sortedLt_heapPush _ _ (sortedLt_heapPush _ _ (sortedLt_heapPush _ _ (List.Pairwise.filter _ h)))

theorem refines_applyNormCb {s : List Range} {cb : NormCb} (h : GoodCb s cb) :
    Refines s (applyNormCb s cb) := by
  constructor
  · intro p' hp'
    rw [mem_applyNormCb] at hp'
    rcases hp' with rfl | rfl | rfl | ⟨hp, _⟩
    · exact ⟨cb.o, h.mem, h.c⟩
    · exact ⟨cb.o, h.mem, h.b⟩
    · exact ⟨cb.o, h.mem, h.a⟩
    · exact ⟨p', hp, Inside.refl _⟩
  · intro p hp k hk1 hk2
    by_cases hpo : p = cb.o
    · subst hpo
      rcases h.cover k hk1 hk2 with hk | hk | hk
      · exact ⟨cb.a, (mem_applyNormCb ..).2 (by simp), h.a, hk⟩
      · exact ⟨cb.b, (mem_applyNormCb ..).2 (by simp), h.b, hk⟩
      · exact ⟨cb.c, (mem_applyNormCb ..).2 (by simp), h.c, hk⟩
    · exact ⟨p, (mem_applyNormCb ..).2 (by simp [hp, hpo]), Inside.refl _, hk1, hk2⟩

theorem cbsOk_append {s : List Range} {l1 l2 : List NormCb} (h1 : CbsOk s l1)
    (h2 : CbsOk (l1.foldl applyNormCb s) l2) : CbsOk s (l1 ++ l2) := by
  induction l1 generalizing s with
  | nil => simpa using h2
  | cons cb l1 ih => exact ⟨h1.1, ih h1.2 h2⟩

/-- Invariant of the loop of `Normalize`: `h` the heap, `done` the ranges already popped for good,
`s` the label set maintained by the callbacks. -/
structure NInv (h done s : List Range) : Prop where
  hsorted : SortedLt h
  hvalid : ∀ r ∈ h, Valid r
  dvalid : ∀ r ∈ done, Valid r
  dh : ∀ d ∈ done, ∀ x ∈ h, d.e < x.b
  dd : ∀ d1 ∈ done, ∀ d2 ∈ done, d1 ≠ d2 → d1.e < d2.b ∨ d2.e < d1.b
  mem : ∀ r, r ∈ s ↔ r ∈ h ∨ r ∈ done
  ssorted : SortedLt s

/-! ### One iteration -/

/-- What one iteration establishes. -/
structure StepOk (h done s h' : List Range) (cbs : List NormCb) : Prop where
  inv : ∃ done', NInv h' done' (cbs.foldl applyNormCb s)
  cbs : CbsOk s cbs
  dec : total h' < total h

theorem total_push2 (a b : Range) (l : List Range) :
    total (heapPush a (heapPush b l)) ≤ total l + a.len + b.len := by
  have := total_heapPush_le a (heapPush b l)
  have := total_heapPush_le b l
  omega

theorem total_push3 (a b c : Range) (l : List Range) :
    total (heapPush a (heapPush b (heapPush c l))) ≤ total l + a.len + b.len + c.len := by
  have := total_heapPush_le a (heapPush b (heapPush c l))
  have := total_push2 b c l
  omega

theorem normStep_spec {x y : Range} {rest done s : List Range} (h : NInv (x :: y :: rest) done s) :
    ∃ h' cbs, normStep x y rest = some (h', cbs) ∧ StepOk (x :: y :: rest) done s h' cbs := by
  obtain ⟨hsorted, hvalid, dvalid, dh, dd, hmem, ssorted⟩ := h
  unfold SortedLt at hsorted
  rw [List.pairwise_cons, List.pairwise_cons] at hsorted
  obtain ⟨hx, hy, hrest⟩ := hsorted
  have hxy : x.lt y = true := hx y (List.mem_cons_self ..)
  have hvx : Valid x := hvalid x (by simp)
  have hvy : Valid y := hvalid y (by simp)
  have hvr : ∀ r ∈ rest, Valid r := fun r hr => hvalid r (by simp [hr])
  have hxr : ∀ z ∈ rest, x.lt z = true := fun z hz => hx z (List.mem_cons_of_mem _ hz)
  have hdx : ∀ d ∈ done, d.e < x.b := fun d hd => dh d hd x (by simp)
  have hdy : ∀ d ∈ done, d.e < y.b := fun d hd => dh d hd y (by simp)
  have hdr : ∀ d ∈ done, ∀ z ∈ rest, d.e < z.b := fun d hd z hz => dh d hd z (by simp [hz])
  have hxs : x ∈ s := (hmem x).2 (by simp)
  have hys : y ∈ s := (hmem y).2 (by simp)
  have hx_rest : x ∉ rest := fun hm => lt_irrefl x (hxr x hm)
  have hy_rest : y ∉ rest := fun hm => lt_irrefl y (hy y hm)
  have hx_done : x ∉ done := fun hm => by have := hdx x hm; unfold Valid at hvx; omega
  have hy_done : y ∉ done := fun hm => by have := hdy y hm; unfold Valid at hvy; omega
  have hne : x ≠ y := fun hh => by subst hh; exact lt_irrefl x hxy
  have hmem' : ∀ r, r ∈ s ↔ r = x ∨ r = y ∨ r ∈ rest ∨ r ∈ done := by
    intro r; rw [hmem]; simp [or_assoc]
  rw [lt_iff] at hxy
  unfold Valid at hvx hvy
  rcases hxy with hb | ⟨hb, he⟩
  · by_cases hskip : x.e < y.b
    · -- disjoint: `x` is final
      refine ⟨_, _, normStep_skip rest (by omega) hskip, ⟨x :: done, ?_⟩, trivial, ?_⟩
      · refine ⟨List.pairwise_cons.2 ⟨hy, hrest⟩, fun r hr => hvalid r (List.mem_cons_of_mem _ hr), ?_, ?_, ?_, ?_, ssorted⟩
        · intro r hr
          rcases List.mem_cons.1 hr with rfl | hr
          · exact hvx
          · exact dvalid r hr
        · intro d hd z hz
          rcases List.mem_cons.1 hd with rfl | hd
          · rcases List.mem_cons.1 hz with rfl | hz
            · exact hskip
            · have := hy z hz; rw [lt_iff] at this; omega
          · exact dh d hd z (List.mem_cons_of_mem _ hz)
        · intro d1 h1 d2 h2 hne12
          rcases List.mem_cons.1 h1 with h1' | h1' <;> rcases List.mem_cons.1 h2 with h2' | h2'
          · exact absurd (h1'.trans h2'.symm) hne12
          · subst h1'; exact Or.inr (hdx d2 h2')
          · subst h2'; exact Or.inl (hdx d1 h1')
          · exact dd d1 h1' d2 h2' hne12
        · intro r
          simp only [List.foldl_nil, hmem' r, List.mem_cons]
          grind
      · have := len_pos (r := x) hvx
        simp only [total_cons]; omega
    · have hi : y.b ≤ x.e := by omega
      have hyr : ∀ z ∈ rest, y.b ≤ z.b := fun z hz => by
        have := hy z hz; rw [lt_iff] at this; omega
      have hsy : SortedLt (y :: rest) := List.pairwise_cons.2 ⟨hy, hrest⟩
      rcases Int.lt_trichotomy x.e y.e with he | he | he
      · -- case 3: proper overlap
        refine ⟨_, _, normStep_case3 rest hb he hi, ⟨done, ?_⟩, ⟨?_, ?_, trivial⟩, ?_⟩
        · refine ⟨sortedLt_heapPush _ _ (sortedLt_heapPush _ _ (sortedLt_heapPush _ _ hrest)), ?_,
            dvalid, ?_, dd, ?_, sortedLt_applyNormCb _ _ (sortedLt_applyNormCb _ _ ssorted)⟩
          · intro r hr
            simp only [mem_heapPush] at hr
            rcases hr with rfl | rfl | rfl | hr
            · show x.e + 1 ≤ y.e; omega
            · show y.b ≤ x.e; omega
            · show x.b ≤ y.b - 1; omega
            · exact hvr r hr
          · intro d hd z hz
            have := hdx d hd
            simp only [mem_heapPush] at hz
            rcases hz with rfl | rfl | rfl | hz
            · show d.e < x.e + 1; omega
            · show d.e < y.b; omega
            · exact this
            · exact hdr d hd z hz
          · intro r
            have hay : (⟨x.b, y.b - 1⟩ : Range) ≠ y := range_ne (Or.inl (by show x.b ≠ y.b; omega))
            simp only [List.foldl_cons, List.foldl_nil, mem_applyNormCb, mem_heapPush, hmem' r]
            grind
        · exact ⟨hxs, ⟨by show x.b ≤ x.b; omega, by show y.b - 1 ≤ x.e; omega⟩,
            ⟨by show x.b ≤ y.b; omega, by show x.e ≤ x.e; omega⟩,
            ⟨by show x.b ≤ y.b; omega, by show x.e ≤ x.e; omega⟩,
            fun k (h1 : x.b ≤ k) (h2 : k ≤ x.e) => by
              show (x.b ≤ k ∧ k ≤ y.b - 1) ∨ (y.b ≤ k ∧ k ≤ x.e) ∨ (y.b ≤ k ∧ k ≤ x.e); omega⟩
        · refine ⟨(mem_applyNormCb ..).2 (Or.inr (Or.inr (Or.inr ⟨hys, fun hh => hne hh.symm⟩))),
            ⟨by show y.b ≤ y.b; omega, by show x.e ≤ y.e; omega⟩,
            ⟨by show y.b ≤ x.e + 1; omega, by show y.e ≤ y.e; omega⟩,
            ⟨by show y.b ≤ x.e + 1; omega, by show y.e ≤ y.e; omega⟩,
            fun k (h1 : y.b ≤ k) (h2 : k ≤ y.e) => by
              show (y.b ≤ k ∧ k ≤ x.e) ∨ (x.e + 1 ≤ k ∧ k ≤ y.e) ∨ (x.e + 1 ≤ k ∧ k ≤ y.e); omega⟩
        · have := total_push3 ⟨x.e + 1, y.e⟩ ⟨y.b, x.e⟩ ⟨x.b, y.b - 1⟩ rest
          simp only [total_cons, Range.len] at *
          omega
      · -- case 2: same end
        refine ⟨_, _, normStep_case2 rest hb he hvy, ⟨done, ?_⟩, ⟨?_, trivial⟩, ?_⟩
        · refine ⟨sortedLt_heapPush _ _ hsy, ?_, dvalid, ?_, dd, ?_, sortedLt_applyNormCb _ _ ssorted⟩
          · intro r hr
            simp only [mem_heapPush, List.mem_cons] at hr
            rcases hr with rfl | rfl | hr
            · show x.b ≤ y.b - 1; omega
            · exact hvy
            · exact hvr r hr
          · intro d hd z hz
            have := hdx d hd
            simp only [mem_heapPush, List.mem_cons] at hz
            rcases hz with rfl | rfl | hz
            · exact this
            · exact hdy d hd
            · exact hdr d hd z hz
          · intro r
            simp only [List.foldl_cons, List.foldl_nil, mem_applyNormCb, mem_heapPush, hmem' r, List.mem_cons]
            grind
        · exact ⟨hxs, ⟨by show x.b ≤ x.b; omega, by show y.b - 1 ≤ x.e; omega⟩,
            ⟨by show x.b ≤ y.b; omega, by show y.e ≤ x.e; omega⟩,
            ⟨by show x.b ≤ y.b; omega, by show y.e ≤ x.e; omega⟩,
            fun k (h1 : x.b ≤ k) (h2 : k ≤ x.e) => by
              show (x.b ≤ k ∧ k ≤ y.b - 1) ∨ (y.b ≤ k ∧ k ≤ y.e) ∨ (y.b ≤ k ∧ k ≤ y.e); omega⟩
        · have := total_heapPush_le ⟨x.b, y.b - 1⟩ (y :: rest)
          simp only [total_cons, Range.len] at *
          omega
      · -- case 4: `y` strictly inside `x`
        refine ⟨_, _, normStep_case4 rest hb he hvy, ⟨done, ?_⟩, ⟨?_, trivial⟩, ?_⟩
        · refine ⟨sortedLt_heapPush _ _ (sortedLt_heapPush _ _ hsy), ?_, dvalid, ?_, dd, ?_,
            sortedLt_applyNormCb _ _ ssorted⟩
          · intro r hr
            simp only [mem_heapPush, List.mem_cons] at hr
            rcases hr with rfl | rfl | rfl | hr
            · show y.e + 1 ≤ x.e; omega
            · show x.b ≤ y.b - 1; omega
            · exact hvy
            · exact hvr r hr
          · intro d hd z hz
            have := hdx d hd
            simp only [mem_heapPush, List.mem_cons] at hz
            rcases hz with rfl | rfl | rfl | hz
            · show d.e < y.e + 1; omega
            · exact this
            · exact hdy d hd
            · exact hdr d hd z hz
          · intro r
            simp only [List.foldl_cons, List.foldl_nil, mem_applyNormCb, mem_heapPush, hmem' r, List.mem_cons]
            grind
        · exact ⟨hxs, ⟨by show x.b ≤ x.b; omega, by show y.b - 1 ≤ x.e; omega⟩,
            ⟨by show x.b ≤ y.b; omega, by show y.e ≤ x.e; omega⟩,
            ⟨by show x.b ≤ y.e + 1; omega, by show x.e ≤ x.e; omega⟩,
            fun k (h1 : x.b ≤ k) (h2 : k ≤ x.e) => by
              show (x.b ≤ k ∧ k ≤ y.b - 1) ∨ (y.b ≤ k ∧ k ≤ y.e) ∨ (y.e + 1 ≤ k ∧ k ≤ x.e); omega⟩
        · have := total_push2 ⟨y.e + 1, x.e⟩ ⟨x.b, y.b - 1⟩ (y :: rest)
          simp only [total_cons, Range.len] at *
          omega
  · -- case 1: same start, `x` shorter
    refine ⟨_, _, normStep_case1 rest hb he hvx, ⟨done, ?_⟩, ⟨?_, trivial⟩, ?_⟩
    · refine ⟨sortedLt_heapPush _ _ (sortedLt_heapPush _ _ hrest), ?_, dvalid, ?_, dd, ?_,
        sortedLt_applyNormCb _ _ ssorted⟩
      · intro r hr
        simp only [mem_heapPush] at hr
        rcases hr with rfl | rfl | hr
        · show x.e + 1 ≤ y.e; omega
        · exact hvx
        · exact hvr r hr
      · intro d hd z hz
        have := hdx d hd
        simp only [mem_heapPush] at hz
        rcases hz with rfl | rfl | hz
        · show d.e < x.e + 1; omega
        · exact this
        · exact hdr d hd z hz
      · intro r
        simp only [List.foldl_cons, List.foldl_nil, mem_applyNormCb, mem_heapPush, hmem' r]
        grind
    · exact ⟨hys, ⟨by show y.b ≤ x.b; omega, by show x.e ≤ y.e; omega⟩,
        ⟨by show y.b ≤ x.e + 1; omega, by show y.e ≤ y.e; omega⟩,
        ⟨by show y.b ≤ x.e + 1; omega, by show y.e ≤ y.e; omega⟩,
        fun k (h1 : y.b ≤ k) (h2 : k ≤ y.e) => by show (x.b ≤ k ∧ k ≤ x.e) ∨ (x.e + 1 ≤ k ∧ k ≤ y.e) ∨ (x.e + 1 ≤ k ∧ k ≤ y.e); omega⟩
    · have := total_push2 ⟨x.e + 1, y.e⟩ x rest
      simp only [total_cons, Range.len] at *
      omega

/-! ### The whole loop -/

theorem refines_of_cbsOk {s : List Range} {L : List NormCb} (h : CbsOk s L) :
    Refines s (L.foldl applyNormCb s) := by
  induction L generalizing s with
  | nil => exact Refines.refl s
  | cons cb L ih => exact (refines_applyNormCb h.1).trans (ih h.2)

/-- The loop of `Normalize` terminates within `total h` iterations without reaching the panic, and
ends with at most one range on the heap. -/
theorem normalizeLoop_spec (fuel : Nat) (h done s : List Range) (hinv : NInv h done s)
    (hm : total h < fuel) :
    ∃ L h' done', normalizeLoop fuel h [] = some L ∧ h'.length ≤ 1 ∧
      NInv h' done' (L.foldl applyNormCb s) ∧ CbsOk s L := by
  induction fuel generalizing h done s with
  | zero => omega
  | succ fuel ih =>
    match h, hinv, hm with
    | [], hinv, _ => exact ⟨[], [], done, by simp [normalizeLoop], by simp, hinv, trivial⟩
    | [x], hinv, _ => exact ⟨[], [x], done, by simp [normalizeLoop], by simp, hinv, trivial⟩
    | x :: y :: rest, hinv, hm =>
      obtain ⟨h', cbs, hstep, ⟨done', hinv'⟩, hcbs, hdec⟩ := normStep_spec hinv
      obtain ⟨L, h'', done'', hL, hlen, hinv'', hcbs'⟩ := ih h' done' _ hinv' (by omega)
      refine ⟨cbs ++ L, h'', done'', ?_, hlen, ?_, cbsOk_append hcbs hcbs'⟩
      · rw [normalizeLoop_succ', hstep]
        simp [hL]
      · rw [List.foldl_append]; exact hinv''

theorem ninv_init (rs : List Range) (hv : ∀ r ∈ rs, Valid r) : NInv (heapOf rs) [] (heapOf rs) :=
  ⟨sortedLt_heapOf rs, fun r hr => hv r ((mem_heapOf rs r).1 hr), by simp, by simp, by simp, by simp,
    sortedLt_heapOf rs⟩

theorem total_lt_fuel (rs : List Range) : total (heapOf rs) < normalizeFuel rs := by
  have := total_heapOf_le rs
  unfold normalizeFuel
  unfold total at *
  omega

/-- Everything the proofs know about a run of `Normalize`. -/
theorem normalize_spec (rs : List Range) (hv : ∀ r ∈ rs, Valid r) :
    ∃ L h' done', normalize rs = some L ∧ h'.length ≤ 1 ∧
      NInv h' done' (L.foldl applyNormCb (heapOf rs)) ∧ CbsOk (heapOf rs) L :=
  normalizeLoop_spec _ _ _ _ (ninv_init rs hv) (total_lt_fuel rs)

/-- The final label set is pairwise disjoint and listed in increasing order. -/
theorem ninv_final {h done s : List Range} (hinv : NInv h done s) (hlen : h.length ≤ 1) :
    (∀ r ∈ s, Valid r) ∧ s.Pairwise (fun p q => p.e < q.b) := by
  have hval : ∀ r ∈ s, Valid r := by
    intro r hr
    rcases (hinv.mem r).1 hr with hr | hr
    · exact hinv.hvalid r hr
    · exact hinv.dvalid r hr
  refine ⟨hval, ?_⟩
  have hdis : ∀ p ∈ s, ∀ q ∈ s, p ≠ q → p.e < q.b ∨ q.e < p.b := by
    intro p hp q hq hne
    rcases (hinv.mem p).1 hp with hp | hp <;> rcases (hinv.mem q).1 hq with hq | hq
    · exfalso
      match h, hlen, hp, hq with
      | [z], _, hp, hq =>
        simp only [List.mem_singleton] at hp hq
        exact hne (hp.trans hq.symm)
    · exact Or.inr (hinv.dh q hq p hp)
    · exact Or.inl (hinv.dh p hp q hq)
    · exact hinv.dd p hp q hq hne
  have hs := hinv.ssorted
  unfold SortedLt at hs
  refine List.Pairwise.imp_of_mem ?_ hs
  intro p q hp hq hlt
  have hne : p ≠ q := fun hh => by subst hh; exact lt_irrefl p hlt
  have hvq := hval q hq
  unfold Valid at hvq
  rw [lt_iff] at hlt
  rcases hdis p hp q hq hne with h1 | h1
  · exact h1
  · omega

/-! ### Fuel, pieces -/

theorem normalizeLoop_fuel_succ (fuel : Nat) (h : List Range) (log L : List NormCb)
    (hL : normalizeLoop fuel h log = some L) : normalizeLoop (fuel + 1) h log = some L := by
  induction fuel generalizing h log with
  | zero => simp [normalizeLoop] at hL
  | succ fuel ih =>
    match h with
    | [] => simpa [normalizeLoop] using hL
    | [_] => simpa [normalizeLoop] using hL
    | x :: y :: rest =>
      rw [normalizeLoop_succ] at hL ⊢
      cases hstep : normStep x y rest with
      | none => simp [hstep] at hL
      | some st =>
        obtain ⟨h', cbs⟩ := st
        simp only [hstep] at hL ⊢
        exact ih _ _ hL

theorem normalizeLoop_fuel_ge (fuel fuel' : Nat) (h : List Range) (log L : List NormCb)
    (hL : normalizeLoop fuel h log = some L) (hf : fuel ≤ fuel') :
    normalizeLoop fuel' h log = some L := by
  induction fuel' with
  | zero => have : fuel = 0 := by omega
            subst this; exact hL
  | succ n ih =>
    rcases Nat.lt_or_ge n fuel with hlt | hge
    · have : fuel = n + 1 := by omega
      subst this; exact hL
    · exact normalizeLoop_fuel_succ n h log L (ih hge)

theorem contains_iff_inside (r p : Range) : r.contains p = true ↔ Inside p r := by
  simp [Range.contains, Inside]

/-- The pieces and their relation to the input, in one statement. -/
theorem normalizePieces_spec (rs : List Range) (hv : ∀ r ∈ rs, Valid r) :
    ∃ ps, normalizePieces rs = some ps ∧ (∀ p ∈ ps, Valid p) ∧ ps.Pairwise (fun p q => p.e < q.b) ∧
      Refines (heapOf rs) ps := by
  obtain ⟨L, h', done', hL, hlen, hinv, hcbs⟩ := normalize_spec rs hv
  refine ⟨L.foldl applyNormCb (heapOf rs), by simp [normalizePieces, hL], ?_, ?_, refines_of_cbsOk hcbs⟩
  · exact (ninv_final hinv hlen).1
  · exact (ninv_final hinv hlen).2

theorem disjoint_eq_of_common {ps : List Range} (hp : ps.Pairwise (fun p q => p.e < q.b))
    (hv : ∀ p ∈ ps, Valid p) {p q : Range} (hpm : p ∈ ps) (hqm : q ∈ ps) {c : Int}
    (h1 : p.b ≤ c ∧ c ≤ p.e) (h2 : q.b ≤ c ∧ c ≤ q.e) : p = q := by
  induction ps with
  | nil => simp at hpm
  | cons z zs ih =>
    rw [List.pairwise_cons] at hp
    rcases List.mem_cons.1 hpm with rfl | hpm' <;> rcases List.mem_cons.1 hqm with rfl | hqm'
    · rfl
    · have := hp.1 q hqm'; omega
    · have := hp.1 p hpm'; omega
    · exact ih hp.2 (fun r hr => hv r (List.mem_cons_of_mem _ hr)) hpm' hqm'

end Lox.Rang3
