import Lox.Rang3.Proofs.Flatten
import Lox.Rang3.Proofs.Heap
/-! The `onChange(oa, ob, n)` calls of `Flatten` and their effect on a label set
(`mode.mergeTransitions`). -/
namespace Lox.Rang3

/-- The log argument is only an accumulator. -/
theorem flattenLoop_acc (l acc : List Range) (log : List FlatCb) :
    flattenLoop l acc log = ((flattenLoop l acc []).1, log.reverse ++ (flattenLoop l acc []).2) := by
  induction l generalizing acc log with
  | nil => simp [flattenLoop]
  | cons r rs ih =>
    cases acc with
    | nil => simp only [flattenLoop]; exact ih _ _
    | cons tip acc =>
      simp only [flattenLoop]
      split
      · rw [ih _ (_ :: log), ih _ [_]]
        simp
      · exact ih _ _

theorem flattenLoop_touch {r tip : Range} (rs acc : List Range) (h : tip.touches r = true) :
    flattenLoop (r :: rs) (tip :: acc) [] =
      ((flattenLoop rs (⟨min tip.b r.b, max tip.e r.e⟩ :: acc) []).1,
        ⟨tip, r, ⟨min tip.b r.b, max tip.e r.e⟩⟩ ::
          (flattenLoop rs (⟨min tip.b r.b, max tip.e r.e⟩ :: acc) []).2) := by
  simp only [flattenLoop, if_pos h]
  rw [flattenLoop_acc]
  simp

theorem flattenLoop_notouch {r tip : Range} (rs acc : List Range) (h : ¬ tip.touches r = true) :
    flattenLoop (r :: rs) (tip :: acc) [] = flattenLoop rs (r :: tip :: acc) [] := by
  simp only [flattenLoop, if_neg h]

theorem mem_applyFlatCb (s : List Range) (cb : FlatCb) (x : Range) :
    x ∈ applyFlatCb s cb ↔ x = cb.n ∨ (x ∈ s ∧ x ≠ cb.oa ∧ x ≠ cb.ob) := by
  simp [applyFlatCb, mem_heapPush, List.mem_filter]

/-- Relation between the loop state and the label set `s`. -/
structure LogInv (l acc s : List Range) : Prop where
  sub : ∀ x ∈ s, x ∈ acc ∨ x ∈ l
  stack : ∀ x ∈ acc, x ∈ s
  todo : ∀ r ∈ l, r ∈ s ∨ ∃ tip rest, acc = tip :: rest ∧ tip.b ≤ r.b ∧ r.e ≤ tip.e

theorem LogInv.push_empty {r : Range} {rs s : List Range} (h : LogInv (r :: rs) [] s) :
    LogInv rs [r] s := by
  obtain ⟨h1, h2, h3⟩ := h
  have hr : r ∈ s := by
    rcases h3 r (List.mem_cons_self ..) with h | ⟨_, _, h, _⟩
    · exact h
    · cases h
  refine ⟨?_, ?_, ?_⟩
  · intro x hx
    rcases h1 x hx with h | h
    · cases h
    · simpa using h
  · intro x hx
    simp only [List.mem_singleton] at hx
    subst hx; exact hr
  · intro r' hr'
    rcases h3 r' (List.mem_cons_of_mem _ hr') with h | ⟨_, _, h, _⟩
    · exact Or.inl h
    · cases h

theorem LogInv.push {r tip : Range} {rs acc s : List Range} (hl : LoopInv (r :: rs) (tip :: acc))
    (h : LogInv (r :: rs) (tip :: acc) s) (ht : ¬ tip.touches r = true) :
    LogInv rs (r :: tip :: acc) s := by
  obtain ⟨h1, h2, h3⟩ := h
  have htr : tip.b ≤ r.b := hl.head r (List.mem_cons_self ..)
  rw [touches_iff_of_le htr] at ht
  have hs := hl.sorted
  unfold SortedB at hs; rw [List.pairwise_cons] at hs
  have hv : ∀ x ∈ r :: rs, Valid x := hl.valid
  have far : ∀ r' ∈ r :: rs, ¬ (tip.b ≤ r'.b ∧ r'.e ≤ tip.e) := by
    intro r' hr' hc
    have hv' := hv r' hr'
    unfold Valid at hv'
    rcases List.mem_cons.1 hr' with rfl | hr'
    · omega
    · have := hs.1 r' hr'; omega
  refine ⟨?_, ?_, ?_⟩
  · intro x hx
    rcases h1 x hx with h | h
    · exact Or.inl (List.mem_cons_of_mem _ h)
    · rcases List.mem_cons.1 h with rfl | h
      · exact Or.inl (List.mem_cons_self ..)
      · exact Or.inr h
  · intro x hx
    rcases List.mem_cons.1 hx with rfl | hx
    · rcases h3 x (List.mem_cons_self ..) with h | ⟨t, rest, heq, hc⟩
      · exact h
      · cases heq; exact absurd hc (far x (List.mem_cons_self ..))
    · exact h2 x hx
  · intro r' hr'
    rcases h3 r' (List.mem_cons_of_mem _ hr') with h | ⟨t, rest, heq, hc⟩
    · exact Or.inl h
    · cases heq; exact absurd hc (far r' (List.mem_cons_of_mem _ hr'))

theorem LogInv.merge {r tip : Range} {rs acc s : List Range} (hl : LoopInv (r :: rs) (tip :: acc))
    (h : LogInv (r :: rs) (tip :: acc) s) (ht : tip.touches r = true) :
    LogInv rs (⟨min tip.b r.b, max tip.e r.e⟩ :: acc)
      (applyFlatCb s ⟨tip, r, ⟨min tip.b r.b, max tip.e r.e⟩⟩) ∧
    ∀ c, Den (applyFlatCb s ⟨tip, r, ⟨min tip.b r.b, max tip.e r.e⟩⟩) c ↔ Den s c := by
  obtain ⟨h1, h2, h3⟩ := h
  have htr : tip.b ≤ r.b := hl.head r (List.mem_cons_self ..)
  rw [touches_iff_of_le htr] at ht
  have hvt : Valid tip := hl.flat.1 tip (List.mem_cons_self ..)
  have hvr : Valid r := hl.valid r (List.mem_cons_self ..)
  have hfp := hl.flat.2
  rw [List.pairwise_cons] at hfp
  unfold Valid at hvt hvr
  have htip : tip ∈ s := h2 tip (List.mem_cons_self ..)
  refine ⟨⟨?_, ?_, ?_⟩, ?_⟩
  · intro x hx
    rw [mem_applyFlatCb] at hx
    rcases hx with rfl | ⟨hx, hne1, hne2⟩
    · exact Or.inl (List.mem_cons_self ..)
    · rcases h1 x hx with h | h
      · rcases List.mem_cons.1 h with rfl | h
        · exact absurd rfl hne1
        · exact Or.inl (List.mem_cons_of_mem _ h)
      · rcases List.mem_cons.1 h with rfl | h
        · exact absurd rfl hne2
        · exact Or.inr h
  · intro x hx
    rw [mem_applyFlatCb]
    rcases List.mem_cons.1 hx with rfl | hx
    · exact Or.inl rfl
    · have hlt := hfp.1 x hx
      have hvx : Valid x := hl.flat.1 x (List.mem_cons_of_mem _ hx)
      unfold Valid at hvx
      refine Or.inr ⟨h2 x (List.mem_cons_of_mem _ hx), range_ne (Or.inl (show x.b ≠ tip.b by omega)), range_ne (Or.inl (show x.b ≠ r.b by omega))⟩
  · intro r' hr'
    by_cases hc : r' = tip ∨ r' = r
    · refine Or.inr ⟨_, _, rfl, ?_⟩
      rcases hc with rfl | rfl
      · show min r'.b r.b ≤ r'.b ∧ r'.e ≤ max r'.e r.e; omega
      · show min tip.b r'.b ≤ r'.b ∧ r'.e ≤ max tip.e r'.e; omega
    · rcases h3 r' (List.mem_cons_of_mem _ hr') with h | ⟨t, rest, heq, hc'⟩
      · refine Or.inl ((mem_applyFlatCb ..).2 (Or.inr ⟨h, ?_, ?_⟩))
        · exact fun hh => hc (Or.inl hh)
        · exact fun hh => hc (Or.inr hh)
      · cases heq
        refine Or.inr ⟨_, _, rfl, ?_⟩
        show min tip.b r.b ≤ r'.b ∧ r'.e ≤ max tip.e r.e; omega
  · intro c
    have hr : (∃ q ∈ s, q.b ≤ r.b ∧ r.e ≤ q.e) := by
      rcases h3 r (List.mem_cons_self ..) with h | ⟨t, rest, heq, hc'⟩
      · exact ⟨r, h, by omega⟩
      · cases heq; exact ⟨tip, htip, hc'⟩
    obtain ⟨q, hq, hq1, hq2⟩ := hr
    constructor
    · rintro ⟨x, hx, hc1, hc2⟩
      rw [mem_applyFlatCb] at hx
      rcases hx with rfl | ⟨hx, _⟩
      · have hc1' : min tip.b r.b ≤ c := hc1
        have hc2' : c ≤ max tip.e r.e := hc2
        by_cases hct : c ≤ tip.e
        · exact ⟨tip, htip, by omega, hct⟩
        · exact ⟨q, hq, by omega, by omega⟩
      · exact ⟨x, hx, hc1, hc2⟩
    · rintro ⟨x, hx, hc1, hc2⟩
      by_cases hxx : x = tip ∨ x = r
      · refine ⟨⟨min tip.b r.b, max tip.e r.e⟩, (mem_applyFlatCb ..).2 (Or.inl rfl), ?_⟩
        rcases hxx with rfl | rfl
        · show min x.b r.b ≤ c ∧ c ≤ max x.e r.e; omega
        · show min tip.b x.b ≤ c ∧ c ≤ max tip.e x.e; omega
      · exact ⟨x, (mem_applyFlatCb ..).2 (Or.inr ⟨hx, fun hh => hxx (Or.inl hh), fun hh => hxx (Or.inr hh)⟩), hc1, hc2⟩

/-- Folding the callbacks of the merge loop over the label set ends with exactly the returned
ranges, and every single callback keeps the denotation. -/
theorem flattenLoop_log (l acc s : List Range) (hl : LoopInv l acc) (h : LogInv l acc s) :
    (∀ x, x ∈ (flattenLoop l acc []).2.foldl applyFlatCb s ↔ x ∈ (flattenLoop l acc []).1) ∧
      MergeOk s (flattenLoop l acc []).2 := by
  induction l generalizing acc s with
  | nil =>
    simp only [flattenLoop, List.reverse_nil, List.foldl_nil, List.mem_reverse]
    refine ⟨fun x => ⟨fun hx => ?_, h.stack x⟩, trivial⟩
    rcases h.sub x hx with h | h
    · exact h
    · cases h
  | cons r rs ih =>
    cases acc with
    | nil =>
      simp only [flattenLoop]
      exact ih _ _ hl.push_empty h.push_empty
    | cons tip acc =>
      by_cases ht : tip.touches r = true
      · rw [flattenLoop_touch rs acc ht]
        obtain ⟨h', hden⟩ := h.merge hl ht
        have := ih _ _ (hl.merge ht) h'
        exact ⟨this.1, hden, this.2⟩
      · rw [flattenLoop_notouch rs acc ht]
        exact ih _ _ (hl.push ht) (h.push hl ht)

theorem logInv_init {l s : List Range} (h : ∀ x, x ∈ s ↔ x ∈ l) : LogInv l [] s :=
  ⟨fun x hx => Or.inr ((h x).1 hx), by simp, fun r hr => Or.inl ((h r).2 hr)⟩

/-- With pairwise distinct inputs (the keys of a transition map) every callback finds both of its
arguments in the label set. -/
theorem flattenLoop_asserts (l acc s : List Range) (hl : LoopInv l acc) (h : LogInv l acc s)
    (hnd : l.Nodup) (hin : ∀ r ∈ l, r ∈ s) (htip : ∀ t ∈ acc.head?, t ∉ l) :
    MergeAsserts s (flattenLoop l acc []).2 := by
  induction l generalizing acc s with
  | nil => simp [flattenLoop, MergeAsserts]
  | cons r rs ih =>
    rw [List.nodup_cons] at hnd
    cases acc with
    | nil =>
      simp only [flattenLoop]
      exact ih _ _ hl.push_empty h.push_empty hnd.2 (fun x hx => hin x (List.mem_cons_of_mem _ hx))
        (by simpa using hnd.1)
    | cons tip acc =>
      by_cases ht : tip.touches r = true
      · rw [flattenLoop_touch rs acc ht]
        have htr : tip.b ≤ r.b := hl.head r (List.mem_cons_self ..)
        have hs := hl.sorted
        unfold SortedB at hs; rw [List.pairwise_cons] at hs
        have htip' : tip ∉ r :: rs := htip tip (by simp)
        refine ⟨⟨h.stack tip (List.mem_cons_self ..), hin r (List.mem_cons_self ..)⟩, ?_⟩
        refine ih _ _ (hl.merge ht) (h.merge hl ht).1 hnd.2 ?_ ?_
        · intro r' hr'
          refine (mem_applyFlatCb ..).2 (Or.inr ⟨hin r' (List.mem_cons_of_mem _ hr'), ?_, ?_⟩)
          · rintro rfl; exact htip' (List.mem_cons_of_mem _ hr')
          · rintro rfl; exact hnd.1 hr'
        · intro t hthead hmem
          simp only [List.head?_cons, Option.mem_def, Option.some.injEq] at hthead
          subst hthead
          have hb := hs.1 _ hmem
          have hb' : r.b ≤ min tip.b r.b := hb
          by_cases he : r.e ≤ tip.e
          · have : (⟨min tip.b r.b, max tip.e r.e⟩ : Range) = tip :=
              range_ext (show min tip.b r.b = tip.b by omega) (show max tip.e r.e = tip.e by omega)
            rw [this] at hmem
            exact htip' (List.mem_cons_of_mem _ hmem)
          · have : (⟨min tip.b r.b, max tip.e r.e⟩ : Range) = r :=
              range_ext (show min tip.b r.b = r.b by omega) (show max tip.e r.e = r.e by omega)
            rw [this] at hmem
            exact hnd.1 hmem
      · rw [flattenLoop_notouch rs acc ht]
        exact ih _ _ (hl.push ht) (h.push hl ht) hnd.2 (fun x hx => hin x (List.mem_cons_of_mem _ hx))
          (by simpa using hnd.1)

end Lox.Rang3
