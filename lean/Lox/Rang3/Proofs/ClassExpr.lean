import Lox.Rang3.ClassExpr
import Lox.Rang3.Proofs.Subtract
/-! `GetRanges` always returns a canonical list. -/
namespace Lox.Rang3

theorem flat_full : Flat [⟨0, maxRune⟩] := by
  refine ⟨?_, by simp⟩
  intro r hr
  simp only [List.mem_singleton] at hr
  subst hr
  show (0 : Int) ≤ maxRune
  decide

theorem eval_flat (e : ClassExpr) (hv : ∀ r ∈ e.items, Valid r) : Flat e.eval := by
  induction e with
  | cls neg items =>
    have hf := flatten_flat' items hv
    simp only [ClassExpr.eval]
    split
    · exact subtract_flat' _ _ flat_full.1 hf.1 (fun _ => flat_full)
    · exact hf
  | sub l r ihl ihr =>
    simp only [ClassExpr.items, List.mem_append] at hv
    have hl := ihl (fun x hx => hv x (Or.inl hx))
    have hr := ihr (fun x hx => hv x (Or.inr hx))
    exact subtract_flat' _ _ hl.1 hr.1 (fun _ => hl)
  | add l r ihl ihr =>
    simp only [ClassExpr.items, List.mem_append] at hv
    have hl := ihl (fun x hx => hv x (Or.inl hx))
    have hr := ihr (fun x hx => hv x (Or.inr hx))
    refine flatten_flat' _ ?_
    intro x hx
    rcases List.mem_append.1 hx with hx | hx
    · exact hl.1 x hx
    · exact hr.1 x hx

end Lox.Rang3
