import Lox.Rang3.Model
/-! Specification vocabulary for the `rang3` proofs (short, meant to be read) and the elementary
lemmas about it. -/
namespace Lox.Rang3

/-- What the front end guarantees about every range (`CharClassItem.RunPass`, after fix F5). -/
def Valid (r : Range) : Prop := r.b ≤ r.e

/-- `c ∈ ⟦rs⟧`: the code point `c` lies in one of the ranges. -/
def Den (rs : List Range) (c : Int) : Prop := ∃ r ∈ rs, r.b ≤ c ∧ c ≤ r.e

/-- Canonical form produced by `Flatten`/`Subtract`: non-empty ranges, strictly increasing,
pairwise non-touching (`rᵢ.e + 1 < rⱼ.b` for `i < j`). -/
def Flat (l : List Range) : Prop := (∀ r ∈ l, Valid r) ∧ l.Pairwise (fun x y => x.e + 1 < y.b)

/-- `Flat` read from the top of a stack (largest range first). -/
def FlatD (l : List Range) : Prop := (∀ r ∈ l, Valid r) ∧ l.Pairwise (fun x y => y.e + 1 < x.b)

/-- Sorted by lower bound (all that `Flatten`'s merge loop needs). -/
def SortedB (l : List Range) : Prop := l.Pairwise (fun x y => x.b ≤ y.b)


/-! ### Vocabulary for the callbacks of `Normalize` and `Flatten` -/

/-- `q ⊆ p` (`p.Contains(q)`). -/
def Inside (q p : Range) : Prop := p.b ≤ q.b ∧ q.e ≤ p.e

/-- An `onChange(o, a, b, c)` call that splits: `o` is a current label, `a`, `b`, `c` lie inside `o`
and cover it. (`o ∈ s` is what `assert.True(len(states) > 0)` in `mode.normalizeInputs` needs.) -/
structure GoodCb (s : List Range) (cb : NormCb) : Prop where
  mem : cb.o ∈ s
  a : Inside cb.a cb.o
  b : Inside cb.b cb.o
  c : Inside cb.c cb.o
  cover : ∀ k, cb.o.b ≤ k → k ≤ cb.o.e →
    (cb.a.b ≤ k ∧ k ≤ cb.a.e) ∨ (cb.b.b ≤ k ∧ k ≤ cb.b.e) ∨ (cb.c.b ≤ k ∧ k ≤ cb.c.e)

/-- Every callback of the list is a `GoodCb` for the label set the callbacks before it produced. -/
def CbsOk : List Range → List NormCb → Prop
  | _, [] => True
  | s, cb :: cbs => GoodCb s cb ∧ CbsOk (applyNormCb s cb) cbs

/-- Each callback leaves the denotation of the label set unchanged. -/
def MergeOk : List Range → List FlatCb → Prop
  | _, [] => True
  | s, cb :: cbs => (∀ c, Den (applyFlatCb s cb) c ↔ Den s c) ∧ MergeOk (applyFlatCb s cb) cbs

/-- Each callback finds both `oa` and `ob` in the label set (the two `assert.True` in
`mode.mergeTransitions`). -/
def MergeAsserts : List Range → List FlatCb → Prop
  | _, [] => True
  | s, cb :: cbs => (cb.oa ∈ s ∧ cb.ob ∈ s) ∧ MergeAsserts (applyFlatCb s cb) cbs

instance (r : Range) : Decidable (Valid r) := by unfold Valid; infer_instance

theorem den_nil (c : Int) : Den [] c ↔ False := by simp [Den]

theorem den_cons (r : Range) (rs : List Range) (c : Int) :
    Den (r :: rs) c ↔ (r.b ≤ c ∧ c ≤ r.e) ∨ Den rs c := by simp [Den]

theorem den_append (l1 l2 : List Range) (c : Int) : Den (l1 ++ l2) c ↔ Den l1 c ∨ Den l2 c := by
  simp [Den, or_and_right, exists_or]

theorem den_reverse (l : List Range) (c : Int) : Den l.reverse c ↔ Den l c := by simp [Den]

theorem den_congr {l1 l2 : List Range} (h : ∀ r, r ∈ l1 ↔ r ∈ l2) (c : Int) : Den l1 c ↔ Den l2 c := by
  simp [Den, h]

theorem flat_nil : Flat [] := ⟨by simp, List.Pairwise.nil⟩

theorem flat_reverse {l : List Range} (h : FlatD l) : Flat l.reverse := by
  refine ⟨fun r hr => h.1 r (by simpa using hr), ?_⟩
  rw [List.pairwise_reverse]; exact h.2

/-! ### `cmp` -/

theorem lt_iff (a b : Range) : a.lt b = true ↔ a.b < b.b ∨ (a.b = b.b ∧ a.e < b.e) := by
  unfold Range.lt cmp
  split
  · simp; omega
  · split
    · simp; omega
    · split
      · simp; omega
      · split <;> simp <;> omega

theorem range_ext {a b : Range} (h1 : a.b = b.b) (h2 : a.e = b.e) : a = b := by
  cases a; cases b; simp_all

theorem range_ne {a b : Range} (h : a.b ≠ b.b ∨ a.e ≠ b.e) : a ≠ b := by
  intro hab; subst hab; omega

end Lox.Rang3
