import Lox.Drv.Common
import Lox.Dec.Assign
import Lox.Dec.AssignNames
/-! Driver op `dec.assign <case>` (C06). Core Lean only.

Case encoding (sections separated by `|`):

```
nT tokenTy errorTy | A | I | S | rules | prods | methods
```
* `A`, `I`: `nT` words of `nT` characters `0`/`1`; character `j` of word `i` is
  `AssignableTo(type i, type j)` resp. `Identical(type i, type j)`;
* `S`: flat pairs `t s` meaning `NewSlice(type t)` is type `s`;
* `rules`: words `k:name`, `k` = 0 user, 1 S', 2 `*`, 3 `*!`, 4 `+`, 5 `+!`, 6 `?`, 7 `@list`;
* `prods`: `;`-separated, each `lhs t1 t2 …` with a term `-1` = terminal, `-2` = ERROR, `r ≥ 0` = rule `r`;
* `methods`: `;`-separated, each `name nres ret variadic p1 p2 …` (`ret` = `-1` when there is no
  result), in the order of `ParserType.Method(i)`.

Answer: `ok <emitBounds> | <method index per production, -1 = none> | <type per rule, -1 = none>`
(a type is printed as the least index of a type identical to it),
`fail <kind:subject …>` (sorted) or `panic <message>`.

`dec.assignwf <case>` answers `wf=<0|1> ident=<0|1>`: whether the case satisfies the hypotheses `WF`
and `IdentEquiv` under which the theorems of `Lox/Props/C06.lean` speak about it. -/
namespace Lox.Dec.Assign

open Lox.Drv

def parseMatrix (n : Nat) (s : String) : Option (List (List Bool)) :=
  let rows := fields s ' '
  if rows.length ≠ n then none else
  rows.mapM fun w =>
    let cs := w.toList
    if cs.length ≠ n then none else
    cs.mapM fun ch => if ch = '1' then some true else if ch = '0' then some false else none

def matGet (m : List (List Bool)) (i j : Nat) : Bool := ((m[i]?).bind (·[j]?)).getD false

def pairsOf : List Nat → Option (List (Nat × Nat))
  | [] => some []
  | a :: b :: rest => (pairsOf rest).map ((a, b) :: ·)
  | [_] => none

def genOfCode : Nat → Option Gen
  | 0 => some .user | 1 => some .sprime | 2 => some .zeroOrMore | 3 => some .zeroOrMoreF
  | 4 => some .oneOrMore | 5 => some .oneOrMoreF | 6 => some .zeroOrOne | 7 => some .list
  | _ => none

def parseRule (w : String) : Option Rule :=
  match w.splitOn ":" with
  | k :: rest => do
    let g ← genOfCode (← k.toNat?)
    some ⟨":".intercalate rest, g⟩
  | [] => none

def parseTerm (i : Int) : Option Term :=
  if i = -1 then some .tok else if i = -2 then some .err
  else if i ≥ 0 then some (.rule i.toNat) else none

def parseProd (s : String) : Option Prod := do
  match ← parseInts s with
  | lhs :: ts => if lhs < 0 then none else some ⟨lhs.toNat, ← ts.mapM parseTerm⟩
  | [] => none

def parseMethod (s : String) : Option Method :=
  match fields s ' ' with
  | name :: nres :: ret :: var :: ps => do
    let nres ← nres.toNat?
    let ret ← ret.toInt?
    let var ← var.toNat?
    let ps ← ps.mapM String.toNat?
    some ⟨name, ps, nres, ret.toNat, var ≠ 0⟩
  | _ => none

def parseCase (payload : String) : Option (Nat × Case) :=
  match payload.splitOn "|" with
  | [h, a, i, s, rs, ps, ms] => do
    let hd ← parseNats h
    match hd with
    | [n, tok, err] =>
      let am ← parseMatrix n a
      let im ← parseMatrix n i
      let sl ← pairsOf (← parseNats s)
      let rules ← (fields rs ' ').mapM parseRule
      let prods ← ((ps.splitOn ";").filter (·.trimAscii.toString ≠ "")).mapM parseProd
      let methods ← ((ms.splitOn ";").filter (·.trimAscii.toString ≠ "")).mapM parseMethod
      some (n, {
        assignable := matGet am
        -- outside the tabulated universe `Identical` is equality (see `identEquiv_of_check`)
        identical := fun i j => if i < n && j < n then matGet im i j else i == j
        sliceOf := fun t => ((sl.find? (·.1 == t)).map (·.2)).getD 0
        tokenTy := tok, errorTy := err, rules := rules, prods := prods, methods := methods })
    | _ => none
  | _ => none

def showKind : DKind → String
  | .results => "results" | .variadic => "variadic" | .retConflict => "retconflict"
  | .noRule => "norule" | .untyped => "untyped" | .noMatch => "nomatch"
  | .ambiguous => "ambiguous" | .orphan => "orphan"

def showSubject : Subject → String
  | .method n => n
  | .rule r => "r" ++ toString r
  | .prod p => "p" ++ toString p

def showDiag (d : Diag) : String := showKind d.kind ++ ":" ++ showSubject d.subj

def showOptNat : Option Nat → String
  | some n => toString n
  | none => "-1"

/-- Types are printed up to `Identical`: the least index of an identical type. -/
def canonTy (c : Case) (n : Nat) (t : Ty) : Ty :=
  ((List.range n).find? (fun j => c.identical j t)).getD t

def showResult (c : Case) (n : Nat) : Result → String
  | .ok b =>
    "ok " ++ (if b.emitBounds then "1" else "0") ++ " | " ++ " ".intercalate (b.method.map showOptNat)
      ++ " | " ++ " ".intercalate (b.ruleTy.map fun t => showOptNat (t.map (canonTy c n)))
  | .fail ds => "fail " ++ " ".intercalate ((ds.map showDiag).mergeSort (fun a b => a ≤ b))
  | .panic m => "panic " ++ m

/-- `dec.assignwf <case>`: the hypotheses of the theorems of `Lox.Props.C06`, decided on the case:
`wf` = `decide (WF c)`, `ident` = `identCheck c n` (`Identical` is an equivalence on the universe). -/
def showHyps (c : Case) (n : Nat) : String :=
  "wf=" ++ (if decide (WF c) then "1" else "0") ++ " ident=" ++ (if identCheck c n then "1" else "0")

def handleAssign (op payload : String) : Option String :=
  if op == "dec.assign" then
    some (match parseCase payload with
      | some (n, c) => showResult c n (assign c)
      | none => "error: malformed case")
  else if op == "dec.assignwf" then
    some (match parseCase payload with
      | some (n, c) => showHyps c n
      | none => "error: malformed case")
  else none

end Lox.Dec.Assign
