import Lox.Dec.ContainersOps
/-! `set.Set[T]` (over `stablemap.Map[T,bool]`) refines duplicate-free lists in first-insertion
order. Core Lean only; not linked into the driver. -/
set_option linter.unusedSectionVars false
namespace Lox.Dec.Containers

section Set
variable {T : Type} [DecidableEq T] [Inhabited T]

/-- `s` represents the list `l` of its elements in first-insertion order (every value is `true`). -/
def SetRep (s : CSet T) (l : ASet T) : Prop := Rep s.set (l.map fun x => (x, true))

theorem setRep_zero : SetRep (CSet.zero : CSet T) [] := rep_zero

theorem map_pair_fst (l : List T) : (l.map fun x => (x, true)).map (·.1) = l := by
  rw [List.map_map]; exact List.map_id _

theorem SetRep.nodup {s : CSet T} {l : ASet T} (h : SetRep s l) : l.Nodup := by
  have := Rep.keys_nodup h
  rwa [map_pair_fst] at this

theorem any_pair (l : List T) (x : T) :
    (l.map fun y => (y, true)).any (fun e => decide (e.1 = x)) = decide (x ∈ l) := by
  induction l with
  | nil => simp
  | cons y l ih =>
    simp only [List.map_cons, List.any_cons, ih, List.mem_cons]
    by_cases h : y = x
    · subst h; simp
    · have : ¬ x = y := fun e => h e.symm
      simp [h, this]

theorem SetRep.has {s : CSet T} {l : ASet T} (h : SetRep s l) (x : T) :
    setHas s x = decide (x ∈ l) := by
  rw [setHas, Rep.has h, any_pair]

theorem SetRep.len {s : CSet T} {l : ASet T} (h : SetRep s l) : setLen s = l.length := by
  rw [setLen, Rep.len h, List.length_map]

theorem SetRep.empty {s : CSet T} {l : ASet T} (h : SetRep s l) : setEmpty s = l.isEmpty := by
  have := h.len
  simp only [setLen] at this
  rw [setEmpty, this]
  cases l <;> simp

theorem SetRep.forEach {s : CSet T} {l : ASet T} (h : SetRep s l) : setForEach s = .ok l := by
  simp only [setForEach, Rep.forEach h, ok_bind, pure_eq_ok, map_pair_fst]

theorem SetRep.elements {s : CSet T} {l : ASet T} (h : SetRep s l) : setElements s = .ok l := by
  simp only [setElements, keys, Rep.forEach h, ok_bind, pure_eq_ok, map_pair_fst]

theorem SetRep.add {s : CSet T} {l : ASet T} (h : SetRep s l) (x : T) :
    ∃ s', setAdd s x = .ok ((sAdd l x).1, s') ∧ SetRep s' (sAdd l x).2 := by
  have hh := h.has x
  simp only [setHas] at hh
  by_cases hx : x ∈ l
  · refine ⟨s, ?_, ?_⟩
    · simp [setAdd, hh, sAdd, hx]
    · simpa [sAdd, hx] using h
  · obtain ⟨m', h1, h2⟩ := Rep.put h x true
    refine ⟨{ set := m' }, ?_, ?_⟩
    · simp [setAdd, hh, sAdd, hx, h1]
    · have hany : (l.map fun y => (y, true)).any (fun e => decide (e.1 = x)) = false := by
        rw [any_pair]; simpa using hx
      simp only [aPut, hany, Bool.false_eq_true, if_false] at h2
      simpa [SetRep, sAdd, hx] using h2

theorem SetRep.addSlice {s : CSet T} {l : ASet T} (h : SetRep s l) (xs : List T) :
    ∃ s', setAddSlice s xs = .ok ((sAddAll l xs).1, s') ∧ SetRep s' (sAddAll l xs).2 := by
  induction xs generalizing s l with
  | nil => exact ⟨s, rfl, h⟩
  | cons x xs ih =>
    obtain ⟨s₁, h1, h2⟩ := h.add x
    obtain ⟨s₂, h3, h4⟩ := ih h2
    exact ⟨s₂, by simp [setAddSlice, h1, h3, sAddAll], h4⟩

theorem SetRep.addSet {s o : CSet T} {l lo : ASet T} (h : SetRep s l) (ho : SetRep o lo) :
    ∃ s', setAddSet s o = .ok ((sAddAll l lo).1, s') ∧ SetRep s' (sAddAll l lo).2 := by
  obtain ⟨s', h1, h2⟩ := h.addSlice lo
  exact ⟨s', by simp only [setAddSet, Rep.forEach ho, ok_bind, map_pair_fst, h1], h2⟩

theorem SetRep.remove {s : CSet T} {l : ASet T} (h : SetRep s l) (x : T) :
    ∃ s', setRemove s x = .ok s' ∧ SetRep s' (l.filter fun y => decide (y ≠ x)) := by
  obtain ⟨m', h1, h2⟩ := Rep.remove h x
  refine ⟨{ set := m' }, by simp [setRemove, h1], ?_⟩
  simp only [aRemove, List.filter_map] at h2
  exact h2

theorem SetRep.clear {s : CSet T} {l : ASet T} (h : SetRep s l) :
    ∃ s', setClear s = .ok s' ∧ SetRep s' [] := by
  obtain ⟨m', h1, h2⟩ := Rep.clear h
  exact ⟨{ set := m' }, by simp [setClear, h1], h2⟩

theorem foldl_and_all (xs : List T) (p : T → Bool) (b : Bool) :
    xs.foldl (fun acc x => acc && p x) b = (b && xs.all p) := by
  induction xs generalizing b with
  | nil => simp
  | cons x xs ih => simp [ih, Bool.and_assoc]

theorem SetRep.equal {s o : CSet T} {l lo : ASet T} (h : SetRep s l) (ho : SetRep o lo) :
    setEqual s o = .ok (sEqual l lo) := by
  have hfun : (fun x => setHas o x) = fun x => decide (x ∈ lo) := funext fun x => ho.has x
  simp only [setEqual, h.len, ho.len, h.forEach, ok_bind, pure_eq_ok, foldl_and_all, hfun, sEqual]
  by_cases hlen : l.length = lo.length
  · simp [hlen]
  · simp [hlen]

/-! ### The specification itself -/

theorem sAddAll_snd_nodup (l xs : List T) (hl : l.Nodup) : (sAddAll l xs).2.Nodup := by
  induction xs generalizing l with
  | nil => exact hl
  | cons x xs ih =>
    simp only [sAddAll]
    apply ih
    simp only [sAdd]
    split
    · exact hl
    · rename_i hx
      rw [List.nodup_append]
      refine ⟨hl, by simp, ?_⟩
      intro a ha b hb
      simp only [List.mem_singleton] at hb
      subst hb
      rintro rfl
      exact hx ha

/-- Adding a duplicate-free list: the new elements are appended in the order of the argument,
and `changed` says whether there were any. -/
theorem sAddAll_nodup (l xs : List T) (hx : xs.Nodup) :
    (sAddAll l xs).2 = l ++ xs.filter (fun x => decide (x ∉ l)) ∧
    (sAddAll l xs).1 = xs.any (fun x => decide (x ∉ l)) := by
  induction xs generalizing l with
  | nil => simp [sAddAll]
  | cons x xs ih =>
    obtain ⟨hx1, hx2⟩ := List.nodup_cons.mp hx
    simp only [sAddAll, sAdd]
    by_cases hm : x ∈ l
    · simp only [hm, if_true]
      obtain ⟨i1, i2⟩ := ih l hx2
      simp [i1, i2, hm]
    · simp only [hm, if_false]
      obtain ⟨i1, i2⟩ := ih (l ++ [x]) hx2
      have hf : xs.filter (fun y => decide (y ∉ l ++ [x])) = xs.filter (fun y => decide (y ∉ l)) := by
        apply List.filter_congr
        intro y hy
        have : y ≠ x := fun e => hx1 (e ▸ hy)
        simp [this]
      refine ⟨?_, by simp [hm]⟩
      rw [i1, hf]
      simp [hm]

/-- Cloning: adding a duplicate-free list to the empty set gives the list itself. -/
theorem sAddAll_nil (xs : List T) (hx : xs.Nodup) : (sAddAll [] xs).2 = xs := by
  rw [(sAddAll_nodup [] xs hx).1]
  simp

theorem nodup_subset_length {l o : List T} (hn : l.Nodup) (hs : ∀ x ∈ l, x ∈ o) :
    l.length ≤ o.length ∧ (l.length = o.length → ∀ x ∈ o, x ∈ l) := by
  induction l generalizing o with
  | nil =>
    refine ⟨Nat.zero_le _, ?_⟩
    intro h x hx
    have : o = [] := List.eq_nil_of_length_eq_zero h.symm
    subst this
    exact hx
  | cons a l ih =>
    obtain ⟨ha, hl⟩ := List.nodup_cons.mp hn
    have hao : a ∈ o := hs a (by simp)
    have hs' : ∀ x ∈ l, x ∈ o.erase a := by
      intro x hx
      have hne : x ≠ a := fun e => ha (e ▸ hx)
      exact (List.mem_erase_of_ne hne).mpr (hs x (List.mem_cons_of_mem _ hx))
    obtain ⟨i1, i2⟩ := ih hl hs'
    have hlen := List.length_erase_of_mem hao
    have hpos : 0 < o.length := List.length_pos_of_mem hao
    refine ⟨by simp only [List.length_cons]; omega, ?_⟩
    intro h x hx
    by_cases hxa : x = a
    · simp [hxa]
    · have := i2 (by simp only [List.length_cons] at h; omega) x ((List.mem_erase_of_ne hxa).mpr hx)
      exact List.mem_cons_of_mem _ this

/-- On duplicate-free lists `Equal` is set equality. -/
theorem sEqual_iff {l o : List T} (hl : l.Nodup) (ho : o.Nodup) :
    sEqual l o = true ↔ ∀ x, x ∈ l ↔ x ∈ o := by
  simp only [sEqual, Bool.and_eq_true, beq_iff_eq, List.all_eq_true, decide_eq_true_eq]
  constructor
  · rintro ⟨h1, h2⟩ x
    exact ⟨h2 x, (nodup_subset_length hl h2).2 h1 x⟩
  · intro h
    refine ⟨?_, fun x hx => (h x).mp hx⟩
    have a := (nodup_subset_length hl (fun x hx => (h x).mp hx)).1
    have b := (nodup_subset_length ho (fun x hx => (h x).mpr hx)).1
    omega

theorem SetRep.clone {s : CSet T} {l : ASet T} (h : SetRep s l) :
    ∃ s', setClone s = .ok s' ∧ SetRep s' l := by
  obtain ⟨s', h1, h2⟩ := (setRep_zero (T := T)).addSlice l
  refine ⟨s', by simp [setClone, h.forEach, h1], ?_⟩
  rwa [sAddAll_nil l h.nodup] at h2

theorem setNew_refines (xs : List T) :
    ∃ s', setNew xs = .ok s' ∧ SetRep s' (sAddAll [] xs).2 := by
  obtain ⟨s', h1, h2⟩ := (setRep_zero (T := T)).addSlice xs
  exact ⟨s', by simp [setNew, h1], h2⟩

/-! ### Programs over several sets -/

def RegsRep (regs : Nat → CSet T) (aregs : Nat → ASet T) : Prop := ∀ r, SetRep (regs r) (aregs r)

theorem RegsRep.set {regs : Nat → CSet T} {aregs : Nat → ASet T} (h : RegsRep regs aregs)
    (r : Nat) {s : CSet T} {l : ASet T} (hs : SetRep s l) :
    RegsRep (setVar regs r s) (setVar aregs r l) := by
  intro i
  simp only [setVar]
  split
  · exact hs
  · exact h i

theorem setStep_refines {regs : Nat → CSet T} {aregs : Nat → ASet T} (h : RegsRep regs aregs)
    (op : SetOp T) :
    ∃ regs', setStep op regs = .ok ((setSpecStep op aregs).1, regs') ∧
      RegsRep regs' (setSpecStep op aregs).2 := by
  cases op with
  | add r x =>
    obtain ⟨s', h1, h2⟩ := (h r).add x
    exact ⟨_, by simp [setStep, h1, setSpecStep], h.set r h2⟩
  | addSlice r xs =>
    obtain ⟨s', h1, h2⟩ := (h r).addSlice xs
    exact ⟨_, by simp [setStep, h1, setSpecStep], h.set r h2⟩
  | addSet r o =>
    obtain ⟨s', h1, h2⟩ := (h r).addSet (h o)
    exact ⟨_, by simp [setStep, h1, setSpecStep], h.set r h2⟩
  | remove r x =>
    obtain ⟨s', h1, h2⟩ := (h r).remove x
    exact ⟨_, by simp [setStep, h1, setSpecStep], h.set r h2⟩
  | has r x => exact ⟨regs, by simp [setStep, (h r).has x, setSpecStep], h⟩
  | empty r => exact ⟨regs, by simp [setStep, (h r).empty, setSpecStep], h⟩
  | len r => exact ⟨regs, by simp [setStep, (h r).len, setSpecStep], h⟩
  | elements r => exact ⟨regs, by simp [setStep, (h r).elements, setSpecStep], h⟩
  | equal r o => exact ⟨regs, by simp [setStep, (h r).equal (h o), setSpecStep], h⟩
  | forEach r => exact ⟨regs, by simp [setStep, (h r).forEach, setSpecStep], h⟩
  | clone dst src =>
    obtain ⟨s', h1, h2⟩ := (h src).clone
    exact ⟨_, by simp [setStep, h1, setSpecStep], h.set dst h2⟩
  | clear r =>
    obtain ⟨s', h1, h2⟩ := (h r).clear
    exact ⟨_, by simp [setStep, h1, setSpecStep], h.set r h2⟩
  | new dst xs =>
    obtain ⟨s', h1, h2⟩ := setNew_refines xs
    exact ⟨_, by simp [setStep, h1, setSpecStep], h.set dst h2⟩

theorem setRun_refines {regs : Nat → CSet T} {aregs : Nat → ASet T} (h : RegsRep regs aregs)
    (ops : List (SetOp T)) :
    ∃ regs', setRun ops regs = .ok ((setRunSpec ops aregs).1, regs') ∧
      RegsRep regs' (setRunSpec ops aregs).2 := by
  induction ops generalizing regs aregs with
  | nil => exact ⟨regs, rfl, h⟩
  | cons op ops ih =>
    obtain ⟨r₁, h1, h2⟩ := setStep_refines h op
    obtain ⟨r₂, h3, h4⟩ := ih h2
    exact ⟨r₂, by simp [setRun, setRunSpec, h1, h3], h4⟩

end Set
end Lox.Dec.Containers
