import Lox.Dec.AnalyzeProofs
/-! # C17 — `wellFormedB` decides `WellFormed` -/
namespace Lox.Dec.Analyze

theorem hasB_iff (s : Spec) (p : Ent → Bool) (n : Name) :
    s.hasB p n = true ↔ ∃ e, (n, e) ∈ s.declared ∧ p e = true := by
  simp only [Spec.hasB, List.any_eq_true, Bool.and_eq_true, beq_iff_eq]
  constructor
  · rintro ⟨⟨k, e⟩, hm, hk, hp⟩
    simp only at hk; subst hk; exact ⟨e, hm, hp⟩
  · rintro ⟨e, hm, hp⟩; exact ⟨(n, e), hm, rfl, hp⟩

theorem hasB_isMacro (s : Spec) (n : Name) : s.hasB Ent.isMacro n = true ↔ s.IsMacro n := by
  rw [hasB_iff]
  constructor
  · rintro ⟨e, hm, hp⟩
    obtain ⟨id, l, ex, rfl⟩ := (Ent.isMacro_iff e).1 hp
    exact ⟨id, l, ex, hm⟩
  · rintro ⟨id, l, ex, hm⟩; exact ⟨_, hm, rfl⟩

theorem hasB_isToken (s : Spec) (n : Name) : s.hasB Ent.isToken n = true ↔ s.IsToken n := by
  rw [hasB_iff]
  constructor
  · rintro ⟨e, hm, hp⟩
    obtain ⟨a, rfl⟩ := (Ent.isToken_iff e).1 hp
    exact ⟨a, hm⟩
  · rintro ⟨a, hm⟩; exact ⟨_, hm, rfl⟩

theorem hasB_isRule (s : Spec) (n : Name) : s.hasB Ent.isRule n = true ↔ s.IsRule n := by
  rw [hasB_iff]
  constructor
  · rintro ⟨e, hm, hp⟩
    obtain ⟨a, rfl⟩ := (Ent.isRule_iff e).1 hp
    exact ⟨a, hm⟩
  · rintro ⟨a, hm⟩; exact ⟨_, hm, rfl⟩

theorem hasB_isExt (s : Spec) (n : Name) : s.hasB Ent.isExt n = true ↔ s.IsExternal n := by
  rw [hasB_iff]
  constructor
  · rintro ⟨e, hm, hp⟩
    rw [(Ent.isExt_iff e).1 hp] at hm; exact hm
  · intro hm; exact ⟨_, hm, rfl⟩

theorem hasB_isMode (s : Spec) (n : Name) : s.hasB Ent.isMode n = true ↔ s.IsMode n := by
  rw [hasB_iff]
  constructor
  · rintro ⟨e, hm, hp⟩
    cases e <;> simp [Ent.isMode] at hp
    exact hm
  · intro hm; exact ⟨_, hm, rfl⟩

/-! ## Cycles -/

theorem mem_macroSucc (s : Spec) (a b : Name) : b ∈ s.macroSucc a ↔ s.MacroRef a b := by
  simp only [Spec.macroSucc, List.mem_flatMap, Spec.MacroRef]
  constructor
  · rintro ⟨⟨k, e⟩, hm, hb⟩
    cases e <;> simp at hb
    rename_i id l ex
    obtain ⟨hk, hb, hmac⟩ := hb
    subst hk
    exact ⟨id, l, ex, hm, hb, (hasB_isMacro s b).1 hmac⟩
  · rintro ⟨id, l, ex, hm, hb, hmac⟩
    exact ⟨(a, .macro id l ex), hm, by simp [hb, (hasB_isMacro s b).2 hmac]⟩

/-- A walk of `k` references starting at `m`. -/
def Spec.Walk (s : Spec) : Nat → Name → Prop
  | 0, _ => True
  | k + 1, m => ∃ b, s.MacroRef m b ∧ s.Walk k b

theorem walkB_iff (s : Spec) (k : Nat) (m : Name) : s.walkB k m = true ↔ s.Walk k m := by
  induction k generalizing m with
  | zero => simp [Spec.walkB, Spec.Walk]
  | succ k ih =>
    simp only [Spec.walkB, List.any_eq_true, Spec.Walk, mem_macroSucc, ih]

theorem Spec.MacroReach.snoc {s : Spec} {a b c : Name} (h : s.MacroReach a b) (e : s.MacroRef b c) : s.MacroReach a c := by
  induction h with
  | step e' => exact .trans e' (.step e)
  | trans e' _ ih => exact .trans e' (ih e)

theorem reach_self_step {s : Spec} {m : Name} (h : s.MacroReach m m) : ∃ b, s.MacroRef m b ∧ s.MacroReach b b := by
  cases h with
  | step e => exact ⟨m, e, .step e⟩
  | trans e h' => exact ⟨_, e, h'.snoc e⟩

theorem walk_of_cycle {s : Spec} : ∀ (k : Nat) (m : Name), s.MacroReach m m → s.Walk k m := by
  intro k
  induction k with
  | zero => intro m _; trivial
  | succ k ih =>
    intro m h
    obtain ⟨b, e, hb⟩ := reach_self_step h
    exact ⟨b, e, ih b hb⟩

theorem isMacro_mem_macroNames {s : Spec} {n : Name} (h : s.IsMacro n) : n ∈ s.macroNames := by
  obtain ⟨id, l, e, hm⟩ := h
  simp only [Spec.macroNames, List.mem_map, List.mem_filter]
  exact ⟨(n, .macro id l e), ⟨hm, rfl⟩, rfl⟩

theorem cycle_of_long_walk {s : Spec} :
    ∀ (k : Nat) (m : Name) (V : List Name), V.Nodup → (∀ v ∈ V, s.MacroReach v m) → (∀ v ∈ V, v ∈ s.macroNames) →
      m ∈ s.macroNames → s.Walk k m → s.macroNames.length ≤ k + V.length → ∃ x, s.MacroReach x x := by
  intro k
  induction k with
  | zero =>
    intro m V hnd hreach hsub hm _ hlen
    by_cases hmV : m ∈ V
    · exact ⟨m, hreach m hmV⟩
    · have := nodup_length_le (l := m :: V) (m := s.macroNames) (List.nodup_cons.2 ⟨hmV, hnd⟩) (by
        intro x hx
        rcases List.mem_cons.1 hx with rfl | hx
        · exact hm
        · exact hsub x hx)
      simp only [List.length_cons] at this
      omega
  | succ k ih =>
    intro m V hnd hreach hsub hm hw hlen
    by_cases hmV : m ∈ V
    · exact ⟨m, hreach m hmV⟩
    · obtain ⟨b, e, hwb⟩ := hw
      have hbm : b ∈ s.macroNames := by
        obtain ⟨_, _, _, _, _, hb⟩ := e
        exact isMacro_mem_macroNames hb
      apply ih b (m :: V) (List.nodup_cons.2 ⟨hmV, hnd⟩) _ _ hbm hwb
      · simp only [List.length_cons]; omega
      · intro v hv
        rcases List.mem_cons.1 hv with rfl | hv
        · exact .step e
        · exact (hreach v hv).snoc e
      · intro v hv
        rcases List.mem_cons.1 hv with rfl | hv
        · exact hm
        · exact hsub v hv

theorem acyclicB_iff (s : Spec) : acyclicB s = true ↔ ∀ m, ¬ s.MacroReach m m := by
  simp only [acyclicB, Bool.not_eq_true', List.any_eq_false, walkB_iff]
  constructor
  · intro h m hr
    have hm : m ∈ s.macroNames := by
      obtain ⟨b, e, _⟩ := reach_self_step hr
      obtain ⟨id, l, ex, hmem, _⟩ := e
      exact isMacro_mem_macroNames ⟨id, l, ex, hmem⟩
    exact h m hm (walk_of_cycle _ m hr)
  · intro h m hm hw
    obtain ⟨x, hx⟩ := cycle_of_long_walk _ m [] List.nodup_nil (by simp) (by simp) hm hw (by simp)
    exact h x hx


/-! ## The other clauses -/

theorem syntaxOkB_iff (s : Spec) : syntaxOkB s = true ↔ SyntaxOk s := by
  simp only [syntaxOkB, Bool.and_eq_true, List.all_eq_true]
  constructor
  · rintro ⟨⟨⟨⟨h1, h2⟩, h3⟩, h4⟩, h5⟩
    refine ⟨h1, h2, ?_, ?_, ?_⟩
    · intro t ht hl
      have := h3 t ht
      simp only [hl, Bool.not_true, Bool.false_or, Bool.or_eq_true, beq_iff_eq] at this
      exact this
    · intro r hr p hp q hq
      have := h4 r hr p hp
      simp only [hq, Bool.and_eq_true, decide_eq_true_eq] at this
      exact this
    · intro r hr e he
      have := h5 r hr
      simpa [he] using this
  · intro w
    refine ⟨⟨⟨⟨w.escapesLex, w.escapesParser⟩, ?_⟩, ?_⟩, ?_⟩
    · intro t ht
      cases hl : t.atom.isList
      · simp
      · have := w.listCard t ht hl
        simp only [Bool.not_true, Bool.false_or, Bool.or_eq_true, beq_iff_eq]
        exact this
    · intro r hr p hp
      cases hq : p.qual with
      | none => rfl
      | some q =>
        have := w.precedence r hr p hp q hq
        simp only [Bool.and_eq_true, decide_eq_true_eq]
        exact this
    · intro r hr
      cases he : r.expr? with
      | none => rfl
      | some e => exact w.shape r hr e he

theorem wellFormedB_iff (s : Spec) : wellFormedB s = true ↔ WellFormed s := by
  unfold wellFormedB
  simp only [Bool.and_eq_true, syntaxOkB_iff, decide_eq_true_eq, acyclicB_iff, List.all_eq_true]
  constructor
  · rintro ⟨⟨⟨⟨⟨⟨⟨⟨⟨⟨⟨hsyn, hnd⟩, hlex⟩, hrule⟩, hrefs⟩, hacts⟩, hatoms⟩, hcyc⟩, hstart⟩, htok⟩, hfrag⟩, hleaves⟩
    refine
      { syntaxOk := hsyn, namesUnique := hnd, lexicalNames := ?_, ruleNames := ?_, macroRefs := ?_, modeRefs := ?_,
        emitRefs := ?_, parserRefs := ?_, aliasRefs := ?_, noMacroCycle := hcyc, oneStart := ?_,
        tokenActions := ?_, fragActions := ?_, noEmptyLiteral := ?_, rangesOrdered := ?_, listParams := ?_ }
    · intro n hn
      have : ∃ e, (n, e) ∈ s.declared ∧ (e.isToken || e.isMacro || e.isExt) = true := by
        rcases hn with ⟨a, h⟩ | ⟨id, l, e, h⟩ | h
        · exact ⟨_, h, rfl⟩
        · exact ⟨_, h, rfl⟩
        · exact ⟨_, h, rfl⟩
      obtain ⟨e, hm, hk⟩ := this
      have := hlex _ hm
      simp only [hk, Bool.not_true, Bool.false_or] at this
      exact (validTokenNameB_iff n).1 this
    · rintro n ⟨b, hm⟩
      have := hrule _ hm
      simp only [Ent.isRule, Bool.not_true, Bool.false_or] at this
      exact (validRuleNameB_iff n).1 this
    · intro l hl ln n hn
      subst hn
      have := hrefs _ hl
      simp only [Leaf.refName] at this
      exact (hasB_isMacro s n).1 (this n (by simp))
    · intro a ha l m hm
      subst hm
      have := hacts _ ha
      simp only [Bool.or_eq_true, beq_iff_eq] at this
      rcases this with h | h
      · exact Or.inl h
      · exact Or.inr ((hasB_isMode s m).1 h)
    · intro a ha l n hn
      subst hn
      have := hacts _ ha
      simp only [Bool.or_eq_true] at this
      rcases this with h | h
      · exact Or.inl ((hasB_isToken s n).1 h)
      · exact Or.inr ((hasB_isExt s n).1 h)
    · intro a ha l n hn
      subst hn
      have := hatoms _ ha
      simp only [Bool.or_eq_true] at this
      rcases this with (h | h) | h
      · exact Or.inl ((hasB_isToken s n).1 h)
      · exact Or.inr (Or.inl ((hasB_isRule s n).1 h))
      · exact Or.inr (Or.inr ((hasB_isExt s n).1 h))
    · intro a ha l t b hn
      subst hn
      have := hatoms _ ha
      simp only [Bool.and_eq_true, bne_iff_ne, ne_eq, beq_iff_eq] at this
      exact this
    · intro hne
      simp only [Bool.or_eq_true, List.isEmpty_iff, beq_iff_eq] at hstart
      rcases hstart with h | h
      · exact absurd h hne
      · exact h
    · intro r hr ht a ha
      have := htok r hr
      simp only [ht, Bool.not_true, Bool.false_or, List.all_eq_true, Bool.and_eq_true, Bool.not_eq_true'] at this
      exact this a ha
    · intro r hr hf
      have := hfrag r hr
      simp only [hf, Bool.not_true, Bool.false_or, decide_eq_true_eq] at this
      exact this
    · intro l hl ln t b hn
      subst hn
      have := hleaves _ hl
      simpa using this
    · intro l hl c hc i hi
      have := hleaves _ hl
      cases l with
      | lit ln t b => simp [Leaf.classes] at hc
      | ref ln n => simp [Leaf.classes] at hc
      | dot ln => simp [Leaf.classes] at hc
      | cls c' =>
        simp only [List.all_eq_true, decide_eq_true_eq] at this
        exact this c hc i hi
      | diff a b =>
        simp only [List.all_eq_true, decide_eq_true_eq] at this
        exact this c hc i hi
    · intro a ha l e sp hn
      subst hn
      have := hatoms _ ha
      simp only [Bool.and_eq_true] at this
      exact this
  · intro w
    refine ⟨⟨⟨⟨⟨⟨⟨⟨⟨⟨⟨w.syntaxOk, w.namesUnique⟩, ?_⟩, ?_⟩, ?_⟩, ?_⟩, ?_⟩, w.noMacroCycle⟩, ?_⟩, ?_⟩, ?_⟩, ?_⟩
    · rintro ⟨n, e⟩ hm
      cases hk : (e.isToken || e.isMacro || e.isExt)
      · simp
      · simp only [Bool.not_true, Bool.false_or]
        apply (validTokenNameB_iff n).2
        apply w.lexicalNames
        simp only [Bool.or_eq_true] at hk
        rcases hk with (hk | hk) | hk
        · obtain ⟨a, rfl⟩ := (Ent.isToken_iff e).1 hk; exact Or.inl ⟨a, hm⟩
        · obtain ⟨id, l, ex, rfl⟩ := (Ent.isMacro_iff e).1 hk; exact Or.inr (Or.inl ⟨id, l, ex, hm⟩)
        · rw [(Ent.isExt_iff e).1 hk] at hm; exact Or.inr (Or.inr hm)
    · rintro ⟨n, e⟩ hm
      cases hk : e.isRule
      · simp
      · simp only [Bool.not_true, Bool.false_or]
        obtain ⟨b, rfl⟩ := (Ent.isRule_iff e).1 hk
        exact (validRuleNameB_iff n).2 (w.ruleNames n ⟨b, hm⟩)
    · intro l hl
      cases l with
      | ref ln n =>
        simp only [Leaf.refName]
        intro x hx
        simp only [List.mem_singleton] at hx; subst hx
        exact (hasB_isMacro s x).2 (w.macroRefs _ hl ln x rfl)
      | _ => simp [Leaf.refName]
    · intro a ha
      cases a with
      | discard l => rfl
      | popMode l => rfl
      | pushMode l m =>
        simp only [Bool.or_eq_true, beq_iff_eq]
        rcases w.modeRefs _ ha l m rfl with h | h
        · exact Or.inl h
        · exact Or.inr ((hasB_isMode s m).2 h)
      | emit l n =>
        simp only [Bool.or_eq_true]
        rcases w.emitRefs _ ha l n rfl with h | h
        · exact Or.inl ((hasB_isToken s n).2 h)
        · exact Or.inr ((hasB_isExt s n).2 h)
    · intro a ha
      cases a with
      | name l n =>
        simp only [Bool.or_eq_true]
        rcases w.parserRefs _ ha l n rfl with h | h | h
        · exact Or.inl (Or.inl ((hasB_isToken s n).2 h))
        · exact Or.inl (Or.inr ((hasB_isRule s n).2 h))
        · exact Or.inr ((hasB_isExt s n).2 h)
      | alias l t b =>
        simp only [Bool.and_eq_true, bne_iff_ne, ne_eq, beq_iff_eq]
        exact w.aliasRefs _ ha l t b rfl
      | error l => rfl
      | list l e sp =>
        simp only [Bool.and_eq_true]
        exact w.listParams _ ha l e sp rfl
    · simp only [Bool.or_eq_true, List.isEmpty_iff, beq_iff_eq]
      by_cases h : s.prules = []
      · exact Or.inl h
      · exact Or.inr (w.oneStart h)
    · intro r hr
      cases ht : r.isToken
      · simp
      · simp only [Bool.not_true, Bool.false_or, List.all_eq_true, Bool.and_eq_true, Bool.not_eq_true']
        exact w.tokenActions r hr ht
    · intro r hr
      cases hf : r.isFrag
      · simp
      · simp only [Bool.not_true, Bool.false_or, decide_eq_true_eq]
        exact w.fragActions r hr hf
    · intro l hl
      cases l with
      | lit ln t b => simpa using w.noEmptyLiteral _ hl ln t b rfl
      | ref ln n => simp [Leaf.classes]
      | dot ln => simp [Leaf.classes]
      | cls c =>
        simp only [List.all_eq_true, decide_eq_true_eq]
        exact fun c' hc i hi => w.rangesOrdered _ hl c' hc i hi
      | diff a b =>
        simp only [List.all_eq_true, decide_eq_true_eq]
        exact fun c' hc i hi => w.rangesOrdered _ hl c' hc i hi

end Lox.Dec.Analyze
