import Lox.Dec.ContainersOps
/-! `stablemap.MultiMap[K,V]` (a `Map[K, *array.Array[V]]` plus the `array.Array` objects it points
to) refines "keys in first-insertion order, each with its values in insertion order".
Core Lean only; not linked into the driver. -/
set_option linter.unusedSectionVars false
namespace Lox.Dec.Containers

section Multi
variable {K V : Type} [DecidableEq K] [Inhabited K]

/-- The content of the array object a pointer refers to (nil: no elements). -/
def elemsAt (arrs : Array (List V)) (p : Ptr) : List V :=
  match p with
  | none => []
  | some a => (arrs[a]?).getD []

/-- `m` represents `l`: the underlying map represents some `lp : key → pointer` whose pointers are
valid, pairwise different array objects, and `l` is `lp` with every pointer replaced by the content
of its object. -/
def MRep (m : CMulti K V) (l : AMulti K V) : Prop :=
  ∃ lp : AMap K Ptr, Rep m.map lp ∧ (∀ e ∈ lp, ∃ a, e.2 = some a ∧ a < m.arrs.size) ∧
    (lp.map (·.2)).Nodup ∧ l = lp.map fun e => (e.1, elemsAt m.arrs e.2)

theorem mrep_zero : MRep (CMulti.zero : CMulti K V) [] :=
  ⟨[], rep_zero, by simp, by simp, rfl⟩

theorem arrElems_some (arrs : Array (List V)) (a : Nat) (ha : a < arrs.size) :
    arrElems arrs (some a) = .ok (elemsAt arrs (some a)) := by
  simp [arrElems, elemsAt, Array.getElem?_eq_getElem ha]

theorem mmElemsAll_ok (arrs : Array (List V)) (lp : List (K × Ptr))
    (h : ∀ e ∈ lp, ∃ a, e.2 = some a ∧ a < arrs.size) :
    mmElemsAll arrs lp = .ok (lp.map fun e => (e.1, elemsAt arrs e.2)) := by
  induction lp with
  | nil => rfl
  | cons e lp ih =>
    obtain ⟨k, p⟩ := e
    obtain ⟨a, rfl, ha⟩ := h (k, p) (by simp)
    simp only [mmElemsAll, arrElems_some arrs a ha, ok_bind,
      ih (fun e he => h e (List.mem_cons_of_mem _ he)), pure_eq_ok, List.map_cons]

theorem lookup_map_snd {β γ : Type} (lp : List (K × β)) (f : β → γ) (k : K) :
    (lp.map fun e => (e.1, f e.2)).lookup k = (lp.lookup k).map f := by
  induction lp with
  | nil => rfl
  | cons e lp ih =>
    obtain ⟨k', p⟩ := e
    simp only [List.map_cons, List.lookup_cons]
    cases k == k' <;> simp [ih]

theorem any_map_snd {β γ : Type} (lp : List (K × β)) (f : β → γ) (k : K) :
    (lp.map fun e => (e.1, f e.2)).any (fun e => decide (e.1 = k)) =
      lp.any (fun e => decide (e.1 = k)) := by
  induction lp with
  | nil => rfl
  | cons e lp ih => simp only [List.map_cons, List.any_cons, ih]

theorem any_eq_lookup_isSome {β : Type} (lp : List (K × β)) (k : K) :
    lp.any (fun e => decide (e.1 = k)) = (lp.lookup k).isSome := by
  induction lp with
  | nil => rfl
  | cons e lp ih =>
    obtain ⟨k', p⟩ := e
    simp only [List.any_cons, List.lookup_cons, ih]
    by_cases h : k = k'
    · subst h; simp
    · have h' : ¬ k' = k := fun e => h e.symm
      have : (k == k') = false := by simpa using h
      simp [this, h']

theorem snd_inj_of_nodup {α β : Type} {lp : List (α × β)} (h : (lp.map (·.2)).Nodup)
    {e e' : α × β} (he : e ∈ lp) (he' : e' ∈ lp) (heq : e.2 = e'.2) : e = e' := by
  induction lp with
  | nil => cases he
  | cons x lp ih =>
    simp only [List.map_cons, List.nodup_cons, List.mem_map, not_exists, not_and] at h
    rcases List.mem_cons.mp he with h1 | h1
    · rcases List.mem_cons.mp he' with h2 | h2
      · rw [h1, h2]
      · subst h1
        exact absurd heq.symm (h.1 e' h2)
    · rcases List.mem_cons.mp he' with h2 | h2
      · subst h2
        exact absurd heq (h.1 e h1)
      · exact ih h.2 h1 h2

theorem elemsAt_modify_self (arrs : Array (List V)) (a : Nat) (v : V) (ha : a < arrs.size) :
    elemsAt (arrs.modify a (· ++ [v])) (some a) = elemsAt arrs (some a) ++ [v] := by
  simp [elemsAt, Array.getElem?_modify, Array.getElem?_eq_getElem ha]

theorem elemsAt_modify_ne (arrs : Array (List V)) (a : Nat) (v : V) (p : Ptr) (hp : p ≠ some a) :
    elemsAt (arrs.modify a (· ++ [v])) p = elemsAt arrs p := by
  cases p with
  | none => rfl
  | some b =>
    have : a ≠ b := fun e => hp (by rw [e])
    simp [elemsAt, Array.getElem?_modify, this]

theorem MRep.add {m : CMulti K V} {l : AMulti K V} (h : MRep m l) (k : K) (v : V) :
    ∃ m', mmAdd m k v = .ok m' ∧ MRep m' (aMMAdd l k v) := by
  obtain ⟨lp, hrep, hval, hnd, rfl⟩ := h
  replace hrep : Rep m.map lp := hrep
  have hkeys := hrep.keys_nodup
  cases hlk : lp.lookup k with
  | some p =>
    have hmem : (k, p) ∈ lp := (lookup_eq_some_of_nodup hkeys k p).mp hlk
    obtain ⟨a, hpa, ha⟩ := hval (k, p) hmem
    simp only at hpa
    subst hpa
    refine ⟨{ map := m.map, arrs := m.arrs.modify a (· ++ [v]) }, ?_, lp, hrep, ?_, hnd, ?_⟩
    · simp [mmAdd, hrep.get k, aGet, hlk, arrAdd, ha]
    · intro e he
      obtain ⟨b, hb1, hb2⟩ := hval e he
      exact ⟨b, hb1, by simpa using hb2⟩
    · have hany : (lp.map fun e => (e.1, elemsAt m.arrs e.2)).any (fun e => decide (e.1 = k)) = true := by
        rw [any_map_snd, any_eq_lookup_isSome, hlk]; rfl
      simp only [aMMAdd, hany, if_true, List.map_map]
      apply List.map_congr_left
      intro e he
      simp only [Function.comp]
      by_cases hek : e.1 = k
      · have : e = (k, some a) := by
          obtain ⟨k', p'⟩ := e
          simp only at hek
          subst hek
          have := (lookup_eq_some_of_nodup hkeys k' p').mpr he
          rw [hlk] at this
          rw [← Option.some.inj this]
        subst this
        simp [elemsAt_modify_self m.arrs a v ha]
      · have hne : e.2 ≠ some a := by
          intro heq
          have := snd_inj_of_nodup hnd he hmem heq
          exact hek (by rw [this])
        simp [hek, elemsAt_modify_ne m.arrs a v e.2 hne]
  | none =>
    obtain ⟨map', hput, hrep'⟩ := hrep.put k (some m.arrs.size)
    have hany : lp.any (fun e => decide (e.1 = k)) = false := by
      rw [any_eq_lookup_isSome, hlk]; rfl
    simp only [aPut, hany, Bool.false_eq_true, if_false] at hrep'
    have hsz : m.arrs.size < (m.arrs.push []).size := by simp
    refine ⟨{ map := map', arrs := (m.arrs.push []).modify m.arrs.size (· ++ [v]) }, ?_,
      lp ++ [(k, some m.arrs.size)], hrep', ?_, ?_, ?_⟩
    · simp [mmAdd, hrep.get k, aGet, hlk, hput, arrAdd]
    · intro e he
      rcases List.mem_append.mp he with he | he
      · obtain ⟨b, hb1, hb2⟩ := hval e he
        exact ⟨b, hb1, by simp; omega⟩
      · simp only [List.mem_singleton] at he
        subst he
        exact ⟨m.arrs.size, rfl, by simp⟩
    · rw [List.map_append, List.nodup_append]
      refine ⟨hnd, by simp, ?_⟩
      intro x hx y hy
      simp only [List.map_cons, List.map_nil, List.mem_singleton] at hy
      subst hy
      obtain ⟨e, he, rfl⟩ := List.mem_map.mp hx
      obtain ⟨b, hb1, hb2⟩ := hval e he
      rw [hb1]
      intro heq
      have := Option.some.inj heq
      omega
    · have hany' : (lp.map fun e => (e.1, elemsAt m.arrs e.2)).any (fun e => decide (e.1 = k)) = false := by
        rw [any_map_snd, hany]
      simp only [aMMAdd, hany', Bool.false_eq_true, if_false, List.map_append, List.map_cons,
        List.map_nil]
      congr 1
      · apply List.map_congr_left
        intro e he
        obtain ⟨b, hb1, hb2⟩ := hval e he
        have hne : e.2 ≠ some m.arrs.size := by
          rw [hb1]; intro heq; have := Option.some.inj heq; omega
        rw [elemsAt_modify_ne _ _ _ _ hne, hb1]
        simp [elemsAt, Array.getElem?_push, Nat.ne_of_lt hb2]
      · rw [elemsAt_modify_self _ _ _ hsz]
        simp [elemsAt]

theorem MRep.get {m : CMulti K V} {l : AMulti K V} (h : MRep m l) (k : K) :
    mmGet m k = .ok (match l.lookup k with
      | some es => (es, true)
      | none => ([], false)) := by
  obtain ⟨lp, hrep, hval, hnd, rfl⟩ := h
  replace hrep : Rep m.map lp := hrep
  rw [lookup_map_snd]
  cases hlk : lp.lookup k with
  | some p =>
    have hmem : (k, p) ∈ lp := (lookup_eq_some_of_nodup hrep.keys_nodup k p).mp hlk
    obtain ⟨a, hpa, ha⟩ := hval (k, p) hmem
    simp only at hpa
    subst hpa
    simp [mmGet, hrep.get k, aGet, hlk, arrElems_some m.arrs a ha]
  | none =>
    have : (default : Ptr) = none := rfl
    simp [mmGet, hrep.get k, aGet, hlk, this, arrElems]

theorem MRep.forEach {m : CMulti K V} {l : AMulti K V} (h : MRep m l) :
    mmForEach m = .ok l := by
  obtain ⟨lp, hrep, hval, hnd, rfl⟩ := h
  replace hrep : Rep m.map lp := hrep
  simp only [mmForEach, hrep.forEach, ok_bind, mmElemsAll_ok m.arrs lp hval]

theorem MRep.remove {m : CMulti K V} {l : AMulti K V} (h : MRep m l) (k : K) :
    ∃ m', mmRemove m k = .ok m' ∧ MRep m' (l.filter fun e => decide (e.1 ≠ k)) := by
  obtain ⟨lp, hrep, hval, hnd, rfl⟩ := h
  replace hrep : Rep m.map lp := hrep
  obtain ⟨map', h1, h2⟩ := hrep.remove k
  refine ⟨{ map := map', arrs := m.arrs }, by simp [mmRemove, h1], aRemove lp k, h2, ?_, ?_, ?_⟩
  · intro e he
    exact hval e (List.mem_filter.mp he).1
  · exact hnd.sublist ((List.filter_sublist).map _)
  · simp only [aRemove, List.filter_map]
    rfl

theorem MRep.clear {m : CMulti K V} {l : AMulti K V} (h : MRep m l) :
    ∃ m', mmClear m = .ok m' ∧ MRep m' [] := by
  obtain ⟨lp, hrep, hval, hnd, rfl⟩ := h
  replace hrep : Rep m.map lp := hrep
  obtain ⟨map', h1, h2⟩ := hrep.clear
  exact ⟨{ map := map', arrs := m.arrs }, by simp [mmClear, h1], [], h2, by simp, by simp, rfl⟩

theorem mmStep_refines {m : CMulti K V} {l : AMulti K V} (h : MRep m l) (op : MOp K V) :
    ∃ m', mmStep op m = .ok ((mmSpecStep op l).1, m') ∧ MRep m' (mmSpecStep op l).2 := by
  cases op with
  | add k v =>
    obtain ⟨m', h1, h2⟩ := h.add k v
    exact ⟨m', by simp [mmStep, h1, mmSpecStep], h2⟩
  | get k =>
    refine ⟨m, ?_, h⟩
    simp only [mmStep, h.get k, ok_bind, pure_eq_ok, mmSpecStep]
    cases l.lookup k <;> rfl
  | has k =>
    obtain ⟨lp, hrep, hval, hnd, rfl⟩ := h
    replace hrep : Rep m.map lp := hrep
    exact ⟨m, by simp only [mmStep, hrep.has k, mmSpecStep, any_map_snd], lp, hrep, hval, hnd, rfl⟩
  | len =>
    obtain ⟨lp, hrep, hval, hnd, rfl⟩ := h
    replace hrep : Rep m.map lp := hrep
    exact ⟨m, by simp [mmStep, hrep.len, mmSpecStep], lp, hrep, hval, hnd, rfl⟩
  | remove k =>
    obtain ⟨m', h1, h2⟩ := h.remove k
    exact ⟨m', by simp [mmStep, h1, mmSpecStep], h2⟩
  | clear =>
    obtain ⟨m', h1, h2⟩ := h.clear
    exact ⟨m', by simp [mmStep, h1, mmSpecStep], h2⟩
  | keys =>
    obtain ⟨lp, hrep, hval, hnd, rfl⟩ := h
    replace hrep : Rep m.map lp := hrep
    refine ⟨m, ?_, lp, hrep, hval, hnd, rfl⟩
    simp only [mmStep, keys, hrep.forEach, ok_bind, pure_eq_ok, mmSpecStep, List.map_map]
    rfl
  | forEach => exact ⟨m, by simp [mmStep, h.forEach, mmSpecStep], h⟩

theorem mmRun_refines {m : CMulti K V} {l : AMulti K V} (h : MRep m l) (ops : List (MOp K V)) :
    ∃ m', mmRun ops m = .ok ((mmRunSpec ops l).1, m') ∧ MRep m' (mmRunSpec ops l).2 := by
  induction ops generalizing m l with
  | nil => exact ⟨m, rfl, h⟩
  | cons op ops ih =>
    obtain ⟨m₁, h1, h2⟩ := mmStep_refines h op
    obtain ⟨m₂, h3, h4⟩ := ih h2
    exact ⟨m₂, by simp [mmRun, mmRunSpec, h1, h3], h4⟩

end Multi
end Lox.Dec.Containers
