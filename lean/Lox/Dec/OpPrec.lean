/-!
# Operator-precedence machine and precedence climbing (C05)

Core Lean only. Two self-contained parsers for operand/operator sequences
`atom (op atom)*`, given as a first atom `a0` and a list `ws` of (operator, atom) pairs:

* `opParse dec` – what an LR parser generated for `E → E op E | atom` does when each
  shift/reduce conflict "`E op₁ E .` on the stack, `op₂` incoming" is decided by
  `dec op₁ op₂` (`true` = reduce `op₁` first, `false` = shift `op₂`). The atom is reduced to `E`
  as soon as it is shifted, so the parse stack is a list of (left operand, operator) pairs plus the
  operand on top. At the end of input everything is reduced.
* `climb table` – the specification: precedence climbing (Richards/Clarke, in Norvell's
  formulation `Exp(p)`), `table op = (precedence, rightAssoc)`: after consuming `op` the right
  operand is parsed with minimal precedence `prec op` if `op` is right-associative and
  `prec op + 1` otherwise. On a level that mixes `@left` and `@right` operators it is therefore
  the associativity of the operator already consumed (the one on the stack, i.e. the production
  being reduced in the S/R conflict) that counts.

`Atom` is arbitrary: a parenthesised sub-expression or any alternative without a binary operator
is an atom of the enclosing sequence (its own content is parsed separately), which is why those
are unaffected by the qualifiers.
-/
namespace Lox.Dec.OpPrec

/-- Expression trees. -/
inductive Tree (Op Atom : Type) where
  | leaf (a : Atom)
  | node (op : Op) (l r : Tree Op Atom)
  deriving DecidableEq, Repr

variable {Op Atom : Type}

/-- Parse stack below the top operand: (left operand, operator shifted after it), innermost first. -/
abbrev Stack (Op Atom : Type) := List (Tree Op Atom × Op)

/-! ## The shift-reduce machine -/

/-- With `incoming` as lookahead: reduce while the decision says so. -/
def reduceWhile (dec : Op → Op → Bool) (incoming : Op) :
    Stack Op Atom → Tree Op Atom → Stack Op Atom × Tree Op Atom
  | [], t => ([], t)
  | (l, o) :: st, t =>
    if dec o incoming then reduceWhile dec incoming st (.node o l t) else ((l, o) :: st, t)

/-- At end of input: reduce everything. -/
def reduceAll : Stack Op Atom → Tree Op Atom → Tree Op Atom
  | [], t => t
  | (l, o) :: st, t => reduceAll st (.node o l t)

/-- The machine from a given configuration. -/
def run (dec : Op → Op → Bool) : Stack Op Atom → Tree Op Atom → List (Op × Atom) → Tree Op Atom
  | st, t, [] => reduceAll st t
  | st, t, (op, a) :: ws =>
    let r := reduceWhile dec op st t
    run dec ((r.2, op) :: r.1) (.leaf a) ws

/-- The shift-reduce parse of `a0 op₁ a₁ op₂ a₂ …`. -/
def opParse (dec : Op → Op → Bool) (a0 : Atom) (ws : List (Op × Atom)) : Tree Op Atom :=
  run dec [] (.leaf a0) ws

/-! ## Precedence climbing -/

/-- Minimal precedence for the right operand of `op`. -/
def nextMin (table : Op → Nat × Bool) (op : Op) : Nat :=
  if (table op).2 then (table op).1 else (table op).1 + 1

/-- The loop of `Exp(m)` with the left operand `lhs` already parsed; returns the tree and the
unconsumed input. `fuel` bounds the recursion depth (structural recursion keeps the function
evaluable by `decide`); `ws.length + 1` is always enough, see `climbLoop_fuel`. -/
def climbLoop (table : Op → Nat × Bool) :
    Nat → Nat → Tree Op Atom → List (Op × Atom) → Tree Op Atom × List (Op × Atom)
  | 0, _, lhs, ws => (lhs, ws)
  | _ + 1, _, lhs, [] => (lhs, [])
  | fuel + 1, m, lhs, (op, a) :: rest =>
    if (table op).1 < m then (lhs, (op, a) :: rest)
    else
      let r := climbLoop table fuel (nextMin table op) (.leaf a) rest
      climbLoop table fuel m (.node op lhs r.1) r.2

/-- The precedence-climbing parse of `a0 op₁ a₁ op₂ a₂ …`. -/
def climb (table : Op → Nat × Bool) (a0 : Atom) (ws : List (Op × Atom)) : Tree Op Atom :=
  (climbLoop table (ws.length + 1) 0 (.leaf a0) ws).1

/-- The documented shift/reduce relation for operator `a` on the stack and `b` incoming:
reduce iff `a` binds tighter, or both are on one level and `a` is left-associative. -/
def DocumentedDecision (table : Op → Nat × Bool) (dec : Op → Op → Bool) : Prop :=
  ∀ a b, dec a b = true ↔
    ((table b).1 < (table a).1 ∨ ((table a).1 = (table b).1 ∧ (table a).2 = false))

/-- The documented decision as a function (it satisfies `DocumentedDecision`). -/
def docDec (table : Op → Nat × Bool) (a b : Op) : Bool :=
  decide ((table b).1 < (table a).1) || ((table a).1 == (table b).1 && !(table a).2)

/-- The table with every operator declared left-associative. -/
def forceLeft (table : Op → Nat × Bool) : Op → Nat × Bool := fun o => ((table o).1, false)

end Lox.Dec.OpPrec
