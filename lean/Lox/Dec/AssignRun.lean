import Lox.Dec.AssignBind
/-!
# C06 – the generated `_act`: what every action parameter receives

Model of the `_act` function that `emit_parser.go` writes (`parserTemplate`, `func (p *P) _act`)
and of `_cast[T]`, over an abstract universe of run-time values:

* a user production calls its bound method with `_cast[<Go type of term i>](stack slot i)`;
* the synthesised actions of helper rules build slices / pass values through, again reading the
  stack through `_cast`.

`_cast[T](v)` is `cv, _ := v.(T); return cv`: the value itself when the assertion succeeds, the
zero value of `T` otherwise – this is where a parameter could silently turn into a zero value.
-/
namespace Lox.Dec.Assign

/-- Run-time values as far as `_act` is concerned. -/
structure Values where
  Val : Type
  /-- dynamic type of the value once boxed into `any`; `none` for the nil interface value -/
  dyn : Val → Option Ty
  /-- `var zero T` -/
  zero : Ty → Val
  /-- the type assertion `.(T)` succeeds on a value of dynamic type `d`
  (`d` is `T` for a concrete `T`; `d` implements `T` for an interface type `T`) -/
  conforms : Ty → Ty → Bool
  /-- `[]T{e}` -/
  lit1 : Ty → Val → Val
  /-- `append(l, e)` for `l : []T` -/
  app : Ty → Val → Val → Val
  /-- `e.Discard()` (elements of `x*!`) -/
  discard : Val → Bool

/-- `_, ok := v.(T)` -/
def Values.passes (V : Values) (v : V.Val) (T : Ty) : Bool :=
  match V.dyn v with
  | some d => V.conforms d T
  | none => false

/-- `_cast[T](v)` of the generated parser. -/
def castTo (V : Values) (T : Ty) (v : V.Val) : V.Val := if V.passes v T then v else V.zero T

/-- What Go's static typing guarantees about a value of static type `T` that was boxed into
`any` (a stack slot): the assertion `.(T)` succeeds on it, or it is the zero value of `T`
(the nil value of an interface type, on which the assertion fails and `_cast` returns the same
nil value again). -/
def WellTyped (V : Values) (v : V.Val) (T : Ty) : Prop := V.passes v T = true ∨ v = V.zero T

/-- Facts about go/types and the Go run time that the statements below rely on. -/
structure Values.Lawful (V : Values) (c : Case) : Prop where
  /-- a slice literal / the result of `append` has the slice type as its dynamic type -/
  dyn_lit1 : ∀ T e, V.dyn (V.lit1 T e) = some (c.sliceOf T)
  dyn_app : ∀ T l e, V.dyn (V.app T l e) = some (c.sliceOf T)
  /-- slice types are concrete: a value whose dynamic type is `[]T` passes `.([]T)` -/
  conforms_slice : ∀ T, V.conforms (c.sliceOf T) (c.sliceOf T) = true
  /-- identical types are interchangeable in assertions and have the same zero value -/
  conforms_ident : ∀ d T T', c.identical T T' = true → V.conforms d T = V.conforms d T'
  zero_ident : ∀ T T', c.identical T T' = true → V.zero T = V.zero T'

theorem cast_of_wellTyped {V : Values} {v : V.Val} {T : Ty} (h : WellTyped V v T) :
    castTo V T v = v := by
  unfold castTo
  rcases h with h | h
  · simp [h]
  · simp [h]

theorem cast_wellTyped (V : Values) (T : Ty) (v : V.Val) : WellTyped V (castTo V T v) T := by
  unfold castTo
  by_cases hp : V.passes v T = true
  · simp only [hp, ↓reduceIte]; exact Or.inl hp
  · simp only [hp, Bool.false_eq_true, ↓reduceIte]; exact Or.inr rfl

theorem wellTyped_ident {V : Values} {c : Case} (L : V.Lawful c) {v : V.Val} {T T' : Ty}
    (hi : c.identical T T' = true) (h : WellTyped V v T) : WellTyped V v T' := by
  rcases h with h | h
  · left
    unfold Values.passes at h ⊢
    cases hd : V.dyn v with
    | none => rw [hd] at h; cases h
    | some d => rw [hd] at h; simp only at h ⊢; rw [← L.conforms_ident d T T' hi]; exact h
  · right; rw [h, L.zero_ident T T' hi]

theorem wellTyped_slice {V : Values} {c : Case} (L : V.Lawful c) {v : V.Val} {T : Ty}
    (h : V.dyn v = some (c.sliceOf T)) : WellTyped V v (c.sliceOf T) := by
  left; unfold Values.passes; rw [h]; exact L.conforms_slice T

/-- The Go types of the terms of a production (`get_term_go_type` on every term). -/
def termTys (c : Case) (ty : List (Option Ty)) : List Term → Option (List Ty)
  | [] => some []
  | t :: ts =>
    match termTyF c ty t, termTys c ty ts with
    | some T, some Ts => some (T :: Ts)
    | _, _ => none

/-- `_act(prod)`: `args` are the symbols of the top `len(prod.Terms)` stack slots, first term
first; `call m vs` is the user's action method number `m` applied to `vs`; `cast` is `_cast`
(the second instance, `fun _ v => v`, is the parser one would like to have: no assertion at all).
`none`: the template has no case for such a production (it does not occur in well-formed
grammars). -/
def act (c : Case) (b : Binding) (V : Values) (call : Nat → List V.Val → V.Val)
    (cast : Ty → V.Val → V.Val) (p : Nat) (args : List V.Val) : Option V.Val :=
  match c.prods[p]? with
  | none => none
  | some pr =>
    match genOf c pr.rule with
    | some .user =>
      (match (b.method[p]?).join, termTys c b.ruleTy pr.terms with
       | some m, some tys =>
         if tys.length = args.length then some (call m (List.zipWith cast tys args)) else none
       | _, _ => none)
    | some .oneOrMore =>
      (match pr.terms, args with
       | [x], [a0] => (termTyF c b.ruleTy x).map fun T => V.lit1 T (cast T a0)
       | [_, x], [a0, a1] =>
         (termTyF c b.ruleTy x).map fun T => V.app T (cast (c.sliceOf T) a0) (cast T a1)
       | _, _ => none)
    | some .oneOrMoreF =>
      (match pr.terms, args with
       | [x], [a0] =>
         (termTyF c b.ruleTy x).map fun T =>
           if V.discard (cast T a0) then V.zero (c.sliceOf T)
           else V.app T (V.zero (c.sliceOf T)) (cast T a0)
       | [_, x], [a0, a1] =>
         (termTyF c b.ruleTy x).map fun T =>
           if V.discard (cast T a1) then cast (c.sliceOf T) a0
           else V.app T (cast (c.sliceOf T) a0) (cast T a1)
       | _, _ => none)
    | some .list =>
      (match pr.terms, args with
       | [x], [a0] => (termTyF c b.ruleTy x).map fun T => V.lit1 T (cast T a0)
       | [_, _, x], [a0, _, a2] =>
         (termTyF c b.ruleTy x).map fun T => V.app T (cast (c.sliceOf T) a0) (cast T a2)
       | _, _ => none)
    | some .zeroOrOne | some .zeroOrMore | some .zeroOrMoreF =>
      (match tyGet b.ruleTy pr.rule, pr.terms, args with
       | some T, [_], [a0] => some (cast T a0)
       | some T, [], [] => some (V.zero T)
       | _, _, _ => none)
    | _ => none

/-- Every stack value is well typed for the Go type lox derived for its symbol. -/
def ArgsOK (V : Values) (c : Case) (ty : List (Option Ty)) : List Term → List V.Val → Prop
  | [], [] => True
  | t :: ts, v :: vs => (∃ T, termTyF c ty t = some T ∧ WellTyped V v T) ∧ ArgsOK V c ty ts vs
  | _, _ => False

theorem zipWith_cast_eq {V : Values} {c : Case} {ty : List (Option Ty)} :
    ∀ (ts : List Term) (vs : List V.Val), ArgsOK V c ty ts vs →
      ∃ tys, termTys c ty ts = some tys ∧ tys.length = vs.length ∧
        List.zipWith (castTo V) tys vs = vs
  | [], [], _ => ⟨[], rfl, rfl, rfl⟩
  | [], _ :: _, h => absurd h id
  | _ :: _, [], h => absurd h id
  | t :: ts, v :: vs, h => by
    obtain ⟨⟨T, hT, hw⟩, hrest⟩ := h
    obtain ⟨tys, h1, h2, h3⟩ := zipWith_cast_eq ts vs hrest
    refine ⟨T :: tys, ?_, by simp [h2], ?_⟩
    · simp [termTys, hT, h1]
    · simp [List.zipWith, cast_of_wellTyped hw, h3]

theorem zipWith_id_eq {V : Values} : ∀ (tys : List Ty) (vs : List V.Val), tys.length = vs.length →
    List.zipWith (fun (_ : Ty) (v : V.Val) => v) tys vs = vs
  | [], [], _ => rfl
  | _ :: tys, v :: vs, h => by
    simp only [List.zipWith_cons_cons, List.cons.injEq, true_and]
    exact zipWith_id_eq tys vs (by simpa using h)
  | [], _ :: _, h => by simp at h
  | _ :: _, [], h => by simp at h

/-! ## The equations between the types of a helper rule and of its terms -/

theorem stripR_specElemR {c : Case} {x : Term} (hx : Simple c x) :
    stripR (specElemR c x) = specTermTy c x := by
  cases x with
  | tok => rfl
  | err => rfl
  | rule h =>
    simp only [Simple] at hx
    unfold genOf at hx
    cases hr : c.rules[h]? with
    | none => simp [hr] at hx
    | some rh =>
      have hg : rh.gen = .user := by simpa [hr] using hx
      simp only [specTermTy]
      rw [specElemR_user hr hg, specTy_eq_strip, specTyR_user hr hg]

/-- `x?` (and `@list(x,s)?`) has the type of `x`. -/
theorem specTy_opt {c : Case} (w : WF c) {r : Nat} {ru : Rule} (hr : c.rules[r]? = some ru)
    (hg : ru.gen = .zeroOrOne) :
    ∃ p0 p1 x, ruleProds c r = [p0, p1] ∧ termsOf c p0 = [x] ∧ termsOf c p1 = [] ∧
      specTy c r = specTermTy c x := by
  have hrl : r < c.rules.length := (List.getElem?_eq_some_iff.mp hr).1
  have hgen := genOf_eq hr
  rw [hg] at hgen
  obtain ⟨p0, p1, x, hl, h0, h1, hx⟩ := shape_opt w hrl hgen
  refine ⟨p0, p1, x, hl, h0, h1, ?_⟩
  rw [specTy_eq_strip, specTyR_opt hr hg hl h0]
  rcases hx with hx | ⟨h, rfl, hh⟩
  · rw [← stripR_specElemR hx]
    cases x with
    | tok => rfl
    | err => rfl
    | rule h =>
      simp only [Simple] at hx
      simp [optSpecR, hx]
  · simp only [optSpecR, hh, ↓reduceIte, specTermTy]
    rw [specTy_eq_strip, specTyR_slice (by rw [hh]; rfl)]

/-- `x+`, `x+!`, `@list(x, s)` have the type slice-of-type-of-`x`. -/
theorem specTy_slice {c : Case} (w : WF c) (at' : AllTyped c) {r : Nat}
    (hg : isSliceGen (genOf c r) = true) :
    ∃ p0 p1 x T, ruleProds c r = [p0, p1] ∧ termsOf c p1 = [x] ∧ Simple c x ∧
      specTermTy c x = some T ∧ specTy c r = some (c.sliceOf T) := by
  obtain ⟨p0, p1, x, hl, ht, hx⟩ := shape_slice w (isSliceGen_lt hg) hg
  obtain ⟨T, hT⟩ := specElemR_simple_ty at' hx
  refine ⟨p0, p1, x, T, hl, ht, hx, ?_, ?_⟩
  · rw [← stripR_specElemR hx, hT]; rfl
  · rw [specTy_eq_strip, specTyR_slice hg]
    unfold specSliceR; rw [hl]; simp only; rw [ht]; simp only; rw [hT]; rfl

/-- `x*`, `x*!` have the type of `x+`, `x+!`. -/
theorem specTy_star {c : Case} (w : WF c) {r : Nat} {ru : Rule} (hr : c.rules[r]? = some ru)
    (hg : ru.gen = .zeroOrMore ∨ ru.gen = .zeroOrMoreF) :
    ∃ p0 p1 h, ruleProds c r = [p0, p1] ∧ termsOf c p0 = [.rule h] ∧ termsOf c p1 = [] ∧
      isSliceGen (genOf c h) = true ∧ specTy c r = specTy c h := by
  obtain ⟨p0, p1, h, hl, h0, h1, hh, he⟩ := specTyR_star w hr hg
  exact ⟨p0, p1, h, hl, h0, h1, hh, by rw [specTy_eq_strip, he, specTy_eq_strip, specTyR_slice hh]⟩

theorem shape_plus {c : Case} (w : WF c) {r : Nat} (hr : r < c.rules.length)
    (hg : genOf c r = some .oneOrMore ∨ genOf c r = some .oneOrMoreF) :
    ∃ p0 p1 x, ruleProds c r = [p0, p1] ∧ termsOf c p0 = [.rule r, x] ∧ termsOf c p1 = [x] ∧
      Simple c x := by
  have := w.shapes r hr
  unfold HelperShape at this
  rcases hg with hg | hg
  · rw [hg] at this; simp only at this
    split at this
    · rename_i r' x' x heq
      obtain ⟨p0, p1, hl, h0, h1⟩ := map_eq_two heq
      obtain ⟨e1, e2, hx⟩ := this
      subst e1; subst e2
      exact ⟨p0, p1, x', hl, h0, h1, hx⟩
    · exact absurd this id
  · rw [hg] at this; simp only at this
    split at this
    · rename_i r' x' x heq
      obtain ⟨p0, p1, hl, h0, h1⟩ := map_eq_two heq
      obtain ⟨e1, e2, hx⟩ := this
      subst e1; subst e2
      exact ⟨p0, p1, x', hl, h0, h1, hx⟩
    · exact absurd this id

theorem shape_list {c : Case} (w : WF c) {r : Nat} (hr : r < c.rules.length)
    (hg : genOf c r = some .list) :
    ∃ p0 p1 s x, ruleProds c r = [p0, p1] ∧ termsOf c p0 = [.rule r, s, x] ∧ termsOf c p1 = [x] ∧
      Simple c x ∧ Simple c s := by
  have := w.shapes r hr
  unfold HelperShape at this
  rw [hg] at this; simp only at this
  split at this
  · rename_i r' s x' x heq
    obtain ⟨p0, p1, hl, h0, h1⟩ := map_eq_two heq
    obtain ⟨e1, e2, hx, hs⟩ := this
    subst e1; subst e2
    exact ⟨p0, p1, s, x', hl, h0, h1, hx, hs⟩
  · exact absurd this id

theorem termsOf_eq {c : Case} {p : Nat} {pr : Prod} (h : c.prods[p]? = some pr) :
    termsOf c p = pr.terms := by
  unfold termsOf; rw [h]; rfl

theorem mem_two {p p0 p1 : Nat} (h : p ∈ [p0, p1]) : p = p0 ∨ p = p1 := by
  simpa using h

/-! ## `_cast` is the identity on every stack slot `_act` reads -/

/-- What a successful `AssignActions` establishes (see `Lox.Props.C06.ok_facts`). -/
structure Facts (c : Case) (b : Binding) : Prop where
  wf : WF c
  typed : AllTyped c
  ty : ∀ r, tyGet b.ruleTy r = specTy c r
  spec : Spec c
  bound : ∀ (k : Nat) p, c.prods[k]? = some p → UserProd c p →
    ∃ m, b.method[k]? = some (some m) ∧ Matches c p m

theorem argsOK0 {V : Values} {c : Case} {ty : List (Option Ty)} {args : List V.Val}
    (h : ArgsOK V c ty [] args) : args = [] := by
  cases args with
  | nil => rfl
  | cons _ _ => exact absurd h id

theorem argsOK1 {V : Values} {c : Case} {ty : List (Option Ty)} {x : Term} {args : List V.Val}
    (h : ArgsOK V c ty [x] args) :
    ∃ a0 T, args = [a0] ∧ termTyF c ty x = some T ∧ WellTyped V a0 T := by
  match args, h with
  | [a0], h => obtain ⟨⟨T, h1, h2⟩, _⟩ := h; exact ⟨a0, T, rfl, h1, h2⟩
  | _ :: _ :: _, h => exact absurd h.2 id

theorem argsOK2 {V : Values} {c : Case} {ty : List (Option Ty)} {x y : Term} {args : List V.Val}
    (h : ArgsOK V c ty [x, y] args) :
    ∃ a0 a1 T0 T1, args = [a0, a1] ∧ termTyF c ty x = some T0 ∧ WellTyped V a0 T0 ∧
      termTyF c ty y = some T1 ∧ WellTyped V a1 T1 := by
  match args, h with
  | [a0, a1], h =>
    obtain ⟨⟨T0, h1, h2⟩, ⟨T1, h3, h4⟩, _⟩ := h
    exact ⟨a0, a1, T0, T1, rfl, h1, h2, h3, h4⟩
  | [_], h => exact absurd h.2 id
  | _ :: _ :: _ :: _, h => exact absurd h.2.2 id

theorem argsOK3 {V : Values} {c : Case} {ty : List (Option Ty)} {x y z : Term} {args : List V.Val}
    (h : ArgsOK V c ty [x, y, z] args) :
    ∃ a0 a1 a2 T0 T2, args = [a0, a1, a2] ∧ termTyF c ty x = some T0 ∧ WellTyped V a0 T0 ∧
      termTyF c ty z = some T2 ∧ WellTyped V a2 T2 := by
  match args, h with
  | [a0, a1, a2], h =>
    obtain ⟨⟨T0, h1, h2⟩, _, ⟨T2, h3, h4⟩, _⟩ := h
    exact ⟨a0, a1, a2, T0, T2, rfl, h1, h2, h3, h4⟩
  | [_], h => exact absurd h.2 id
  | [_, _], h => exact absurd h.2.2 id
  | _ :: _ :: _ :: _ :: _, h => exact absurd h.2.2.2 id

theorem termTyF_facts {c : Case} {b : Binding} (F : Facts c b) (t : Term) :
    termTyF c b.ruleTy t = specTermTy c t := termTyF_spec F.ty t

/-- The element type and the slice type of a `+` / `@list` helper, in terms of the binding. -/
theorem slice_types {c : Case} {b : Binding} (F : Facts c b) {r : Nat}
    (hg : isSliceGen (genOf c r) = true) :
    ∃ p0 p1 x T, ruleProds c r = [p0, p1] ∧ termsOf c p1 = [x] ∧
      termTyF c b.ruleTy x = some T ∧ tyGet b.ruleTy r = some (c.sliceOf T) := by
  obtain ⟨p0, p1, x, T, hl, h1, _, hT, hs⟩ := specTy_slice F.wf F.typed hg
  exact ⟨p0, p1, x, T, hl, h1, by rw [termTyF_facts F, hT], by rw [F.ty, hs]⟩

theorem act_eq_ideal {c : Case} {b : Binding} {V : Values} (F : Facts c b)
    (call : Nat → List V.Val → V.Val) {p : Nat} {pr : Prod} (hp : c.prods[p]? = some pr)
    {args : List V.Val} (ha : ArgsOK V c b.ruleTy pr.terms args) :
    act c b V call (castTo V) p args = act c b V call (fun _ v => v) p args := by
  have hmem : p ∈ ruleProds c pr.rule := mem_ruleProds.mpr ⟨pr, hp, rfl⟩
  have hterms := termsOf_eq hp
  have hrl : pr.rule < c.rules.length := F.wf.prodRule pr (List.mem_of_getElem? hp)
  have hr : c.rules[pr.rule]? = some c.rules[pr.rule] := List.getElem?_eq_getElem hrl
  have hgen := genOf_eq hr
  unfold act
  rw [hp]; simp only
  rw [hgen]
  cases hg : (c.rules[pr.rule]).gen with
  | user =>
    simp only
    obtain ⟨tys, h1, h2, h3⟩ := zipWith_cast_eq pr.terms args ha
    rw [h1]
    cases (b.method[p]?).join with
    | none => rfl
    | some m => simp only [h2, ↓reduceIte, h3, zipWith_id_eq tys args h2]
  | sprime => rfl
  | oneOrMore =>
    simp only
    rw [hg] at hgen
    obtain ⟨p0, p1, x, hl, h0, h1, _⟩ := shape_plus F.wf hrl (Or.inl hgen)
    obtain ⟨q0, q1, x', T, hl', h1', hT, hS⟩ := slice_types F (r := pr.rule) (by rw [hgen]; rfl)
    rw [hl] at hl' hmem
    obtain ⟨e0, e1⟩ : p0 = q0 ∧ p1 = q1 := by simpa using hl'
    subst e0; subst e1
    rw [h1] at h1'; obtain rfl : x = x' := by simpa using h1'
    rcases mem_two hmem with e | e <;> subst e
    · rw [hterms] at h0; rw [h0] at ha ⊢
      obtain ⟨a0, a1, T0, T1, rfl, g0, w0, g1, w1⟩ := argsOK2 ha
      simp only [termTyF] at g0
      rw [hS] at g0; rw [hT] at g1
      obtain rfl := Option.some.inj g0; obtain rfl := Option.some.inj g1
      simp only [hT, Option.map_some, cast_of_wellTyped w0, cast_of_wellTyped w1]
    · rw [hterms] at h1; rw [h1] at ha ⊢
      obtain ⟨a0, T0, rfl, g0, w0⟩ := argsOK1 ha
      simp only [g0, Option.map_some, cast_of_wellTyped w0]
  | oneOrMoreF =>
    simp only
    rw [hg] at hgen
    obtain ⟨p0, p1, x, hl, h0, h1, _⟩ := shape_plus F.wf hrl (Or.inr hgen)
    obtain ⟨q0, q1, x', T, hl', h1', hT, hS⟩ := slice_types F (r := pr.rule) (by rw [hgen]; rfl)
    rw [hl] at hl' hmem
    obtain ⟨e0, e1⟩ : p0 = q0 ∧ p1 = q1 := by simpa using hl'
    subst e0; subst e1
    rw [h1] at h1'; obtain rfl : x = x' := by simpa using h1'
    rcases mem_two hmem with e | e <;> subst e
    · rw [hterms] at h0; rw [h0] at ha ⊢
      obtain ⟨a0, a1, T0, T1, rfl, g0, w0, g1, w1⟩ := argsOK2 ha
      simp only [termTyF] at g0
      rw [hS] at g0; rw [hT] at g1
      obtain rfl := Option.some.inj g0; obtain rfl := Option.some.inj g1
      simp only [hT, Option.map_some, cast_of_wellTyped w0, cast_of_wellTyped w1]
    · rw [hterms] at h1; rw [h1] at ha ⊢
      obtain ⟨a0, T0, rfl, g0, w0⟩ := argsOK1 ha
      simp only [g0, Option.map_some, cast_of_wellTyped w0]
  | list =>
    simp only
    rw [hg] at hgen
    obtain ⟨p0, p1, sp, x, hl, h0, h1, _, _⟩ := shape_list F.wf hrl hgen
    obtain ⟨q0, q1, x', T, hl', h1', hT, hS⟩ := slice_types F (r := pr.rule) (by rw [hgen]; rfl)
    rw [hl] at hl' hmem
    obtain ⟨e0, e1⟩ : p0 = q0 ∧ p1 = q1 := by simpa using hl'
    subst e0; subst e1
    rw [h1] at h1'; obtain rfl : x = x' := by simpa using h1'
    rcases mem_two hmem with e | e <;> subst e
    · rw [hterms] at h0; rw [h0] at ha ⊢
      obtain ⟨a0, a1, a2, T0, T2, rfl, g0, w0, g2, w2⟩ := argsOK3 ha
      simp only [termTyF] at g0
      rw [hS] at g0; rw [hT] at g2
      obtain rfl := Option.some.inj g0; obtain rfl := Option.some.inj g2
      simp only [hT, Option.map_some, cast_of_wellTyped w0, cast_of_wellTyped w2]
    · rw [hterms] at h1; rw [h1] at ha ⊢
      obtain ⟨a0, T0, rfl, g0, w0⟩ := argsOK1 ha
      simp only [g0, Option.map_some, cast_of_wellTyped w0]
  | zeroOrOne =>
    simp only
    obtain ⟨p0, p1, x, hl, h0, h1, hS⟩ := specTy_opt F.wf hr hg
    rw [hl] at hmem
    rcases mem_two hmem with e | e <;> subst e
    · rw [hterms] at h0; rw [h0] at ha ⊢
      obtain ⟨a0, T0, rfl, g0, w0⟩ := argsOK1 ha
      have : tyGet b.ruleTy pr.rule = some T0 := by rw [F.ty, hS, ← termTyF_facts F, g0]
      simp only [this, cast_of_wellTyped w0]
    · rw [hterms] at h1; rw [h1] at ha ⊢
      obtain rfl := argsOK0 ha
      cases tyGet b.ruleTy pr.rule <;> rfl
  | zeroOrMore =>
    simp only
    obtain ⟨p0, p1, h, hl, h0, h1, _, hS⟩ := specTy_star F.wf hr (Or.inl hg)
    rw [hl] at hmem
    rcases mem_two hmem with e | e <;> subst e
    · rw [hterms] at h0; rw [h0] at ha ⊢
      obtain ⟨a0, T0, rfl, g0, w0⟩ := argsOK1 ha
      have : tyGet b.ruleTy pr.rule = some T0 := by
        rw [F.ty, hS, ← F.ty]; exact g0
      simp only [this, cast_of_wellTyped w0]
    · rw [hterms] at h1; rw [h1] at ha ⊢
      obtain rfl := argsOK0 ha
      cases tyGet b.ruleTy pr.rule <;> rfl
  | zeroOrMoreF =>
    simp only
    obtain ⟨p0, p1, h, hl, h0, h1, _, hS⟩ := specTy_star F.wf hr (Or.inr hg)
    rw [hl] at hmem
    rcases mem_two hmem with e | e <;> subst e
    · rw [hterms] at h0; rw [h0] at ha ⊢
      obtain ⟨a0, T0, rfl, g0, w0⟩ := argsOK1 ha
      have : tyGet b.ruleTy pr.rule = some T0 := by
        rw [F.ty, hS, ← F.ty]; exact g0
      simp only [this, cast_of_wellTyped w0]
    · rw [hterms] at h1; rw [h1] at ha ⊢
      obtain rfl := argsOK0 ha
      cases tyGet b.ruleTy pr.rule <;> rfl

/-- The call a user production makes: the bound method applied to exactly the stack values. -/
theorem act_user {c : Case} {b : Binding} {V : Values} (F : Facts c b)
    (call : Nat → List V.Val → V.Val) {p : Nat} {pr : Prod} (hp : c.prods[p]? = some pr)
    (hu : UserProd c pr) {args : List V.Val} (ha : ArgsOK V c b.ruleTy pr.terms args) :
    ∃ m, b.method[p]? = some (some m) ∧ Matches c pr m ∧
      act c b V call (castTo V) p args = some (call m args) := by
  obtain ⟨m, hm, hmatch⟩ := F.bound p pr hp hu
  refine ⟨m, hm, hmatch, ?_⟩
  unfold act
  rw [hp]; simp only
  unfold UserProd at hu
  rw [hu]; simp only
  obtain ⟨tys, h1, h2, h3⟩ := zipWith_cast_eq pr.terms args ha
  rw [h1, hm]
  simp [h2, h3]

/-- The type of a user rule is identical to the return type of each of its methods. -/
theorem ruleTy_of_method {c : Case} {b : Binding} (F : Facts c b) {pr : Prod}
    (hu : UserProd c pr) {i : Nat} (hm : Matches c pr i) :
    ∃ m T, c.methods[i]? = some m ∧ tyGet b.ruleTy pr.rule = some T ∧ c.identical m.ret T = true := by
  obtain ⟨m, h1, h2, h3, h4, _⟩ := hm
  unfold UserProd genOf at hu
  cases hr : c.rules[pr.rule]? with
  | none => simp [hr] at hu
  | some ru =>
    have hg : ru.gen = .user := by simpa [hr] using hu
    have hname : ruleName c pr.rule = ru.name := by unfold ruleName; rw [hr]; rfl
    rw [hname] at h2
    have ha : (⟨i, ru.name, m⟩ : Action) ∈ actions c := mem_actions.mpr ⟨h1, h2, h3, h4⟩
    obtain ⟨f, rest, hl, hfa, hfr⟩ := head_actionsOf ha
    simp only at hl hfr
    refine ⟨m, f.m.ret, h1, ?_, ?_⟩
    · rw [F.ty, specTy_eq_strip, specTyR_user hr hg]
      unfold userTy; rw [hl]; rfl
    · exact F.spec.retAgree m (List.mem_of_getElem? h1) f.m (action_method_mem hfa) ru.name h2
        (by rw [(mem_actions.mp hfa).2.1, hfr])

/-- The value every action leaves on the stack is well typed for the type of its rule, provided
the user's methods return values of their declared result types (`hcall`: Go's static typing). -/
theorem act_wellTyped {c : Case} {b : Binding} {V : Values} (L : V.Lawful c) (F : Facts c b)
    (call : Nat → List V.Val → V.Val)
    (hcall : ∀ (i : Nat) m vs, c.methods[i]? = some m → WellTyped V (call i vs) m.ret)
    {p : Nat} {pr : Prod} (hp : c.prods[p]? = some pr)
    {args : List V.Val} (ha : ArgsOK V c b.ruleTy pr.terms args) {res : V.Val}
    (hres : act c b V call (castTo V) p args = some res) :
    ∃ T, tyGet b.ruleTy pr.rule = some T ∧ WellTyped V res T := by
  have hmem : p ∈ ruleProds c pr.rule := mem_ruleProds.mpr ⟨pr, hp, rfl⟩
  have hterms := termsOf_eq hp
  have hrl : pr.rule < c.rules.length := F.wf.prodRule pr (List.mem_of_getElem? hp)
  have hr : c.rules[pr.rule]? = some c.rules[pr.rule] := List.getElem?_eq_getElem hrl
  have hgen := genOf_eq hr
  cases hg : (c.rules[pr.rule]).gen with
  | user =>
    have hu : UserProd c pr := by unfold UserProd; rw [hgen, hg]
    obtain ⟨m, _, hmatch, hact⟩ := act_user F call hp hu ha
    rw [hact] at hres
    obtain rfl := Option.some.inj hres
    obtain ⟨mm, T, h1, h2, h3⟩ := ruleTy_of_method F hu hmatch
    exact ⟨T, h2, wellTyped_ident L h3 (hcall m mm args h1)⟩
  | sprime =>
    unfold act at hres
    rw [hp] at hres; simp only at hres
    rw [hgen, hg] at hres; cases hres
  | oneOrMore =>
    rw [hg] at hgen
    obtain ⟨p0, p1, x, hl, h0, h1, _⟩ := shape_plus F.wf hrl (Or.inl hgen)
    obtain ⟨q0, q1, x', T, hl', h1', hT, hS⟩ := slice_types F (r := pr.rule) (by rw [hgen]; rfl)
    rw [hl] at hl' hmem
    obtain ⟨e0, e1⟩ : p0 = q0 ∧ p1 = q1 := by simpa using hl'
    subst e0; subst e1
    rw [h1] at h1'; obtain rfl : x = x' := by simpa using h1'
    refine ⟨c.sliceOf T, hS, ?_⟩
    unfold act at hres
    rw [hp] at hres; simp only at hres
    rw [hgen] at hres; simp only at hres
    rcases mem_two hmem with e | e <;> subst e
    · rw [hterms] at h0; rw [h0] at ha hres
      obtain ⟨a0, a1, T0, T1, rfl, _, _, _, _⟩ := argsOK2 ha
      simp only [hT, Option.map_some, Option.some.injEq] at hres
      subst hres; exact wellTyped_slice L (L.dyn_app _ _ _)
    · rw [hterms] at h1; rw [h1] at ha hres
      obtain ⟨a0, T0, rfl, _, _⟩ := argsOK1 ha
      simp only [hT, Option.map_some, Option.some.injEq] at hres
      subst hres; exact wellTyped_slice L (L.dyn_lit1 _ _)
  | oneOrMoreF =>
    rw [hg] at hgen
    obtain ⟨p0, p1, x, hl, h0, h1, _⟩ := shape_plus F.wf hrl (Or.inr hgen)
    obtain ⟨q0, q1, x', T, hl', h1', hT, hS⟩ := slice_types F (r := pr.rule) (by rw [hgen]; rfl)
    rw [hl] at hl' hmem
    obtain ⟨e0, e1⟩ : p0 = q0 ∧ p1 = q1 := by simpa using hl'
    subst e0; subst e1
    rw [h1] at h1'; obtain rfl : x = x' := by simpa using h1'
    refine ⟨c.sliceOf T, hS, ?_⟩
    unfold act at hres
    rw [hp] at hres; simp only at hres
    rw [hgen] at hres; simp only at hres
    rcases mem_two hmem with e | e <;> subst e
    · rw [hterms] at h0; rw [h0] at ha hres
      obtain ⟨a0, a1, T0, T1, rfl, _, _, _, _⟩ := argsOK2 ha
      simp only [hT, Option.map_some, Option.some.injEq] at hres
      subst hres
      split
      · exact cast_wellTyped V _ _
      · exact wellTyped_slice L (L.dyn_app _ _ _)
    · rw [hterms] at h1; rw [h1] at ha hres
      obtain ⟨a0, T0, rfl, _, _⟩ := argsOK1 ha
      simp only [hT, Option.map_some, Option.some.injEq] at hres
      subst hres
      split
      · exact Or.inr rfl
      · exact wellTyped_slice L (L.dyn_app _ _ _)
  | list =>
    rw [hg] at hgen
    obtain ⟨p0, p1, sp, x, hl, h0, h1, _, _⟩ := shape_list F.wf hrl hgen
    obtain ⟨q0, q1, x', T, hl', h1', hT, hS⟩ := slice_types F (r := pr.rule) (by rw [hgen]; rfl)
    rw [hl] at hl' hmem
    obtain ⟨e0, e1⟩ : p0 = q0 ∧ p1 = q1 := by simpa using hl'
    subst e0; subst e1
    rw [h1] at h1'; obtain rfl : x = x' := by simpa using h1'
    refine ⟨c.sliceOf T, hS, ?_⟩
    unfold act at hres
    rw [hp] at hres; simp only at hres
    rw [hgen] at hres; simp only at hres
    rcases mem_two hmem with e | e <;> subst e
    · rw [hterms] at h0; rw [h0] at ha hres
      obtain ⟨a0, a1, a2, T0, T2, rfl, _, _, _, _⟩ := argsOK3 ha
      simp only [hT, Option.map_some, Option.some.injEq] at hres
      subst hres; exact wellTyped_slice L (L.dyn_app _ _ _)
    · rw [hterms] at h1; rw [h1] at ha hres
      obtain ⟨a0, T0, rfl, _, _⟩ := argsOK1 ha
      simp only [hT, Option.map_some, Option.some.injEq] at hres
      subst hres; exact wellTyped_slice L (L.dyn_lit1 _ _)
  | zeroOrOne =>
    unfold act at hres
    rw [hp] at hres; simp only at hres
    rw [hgen, hg] at hres; simp only at hres
    split at hres
    · rename_i _ _ _ T _ a0 hT _
      obtain rfl := Option.some.inj hres
      exact ⟨T, hT, cast_wellTyped V _ _⟩
    · rename_i _ _ _ T hT _
      obtain rfl := Option.some.inj hres
      exact ⟨T, hT, Or.inr rfl⟩
    · cases hres
  | zeroOrMore =>
    unfold act at hres
    rw [hp] at hres; simp only at hres
    rw [hgen, hg] at hres; simp only at hres
    split at hres
    · rename_i _ _ _ T _ a0 hT _
      obtain rfl := Option.some.inj hres
      exact ⟨T, hT, cast_wellTyped V _ _⟩
    · rename_i _ _ _ T hT _
      obtain rfl := Option.some.inj hres
      exact ⟨T, hT, Or.inr rfl⟩
    · cases hres
  | zeroOrMoreF =>
    unfold act at hres
    rw [hp] at hres; simp only at hres
    rw [hgen, hg] at hres; simp only at hres
    split at hres
    · rename_i _ _ _ T _ a0 hT _
      obtain rfl := Option.some.inj hres
      exact ⟨T, hT, cast_wellTyped V _ _⟩
    · rename_i _ _ _ T hT _
      obtain rfl := Option.some.inj hres
      exact ⟨T, hT, Or.inr rfl⟩
    · cases hres

end Lox.Dec.Assign
