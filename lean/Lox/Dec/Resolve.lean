/-!
# Conflict resolution by precedence qualifiers (model of `lr1.resolveConflicts`)

Core Lean only (linked into the driver). Mirrors

* `/repo/internal/parsergen/lr1/action.go`  – `ActionMap.AddShift/AddReduce/AddAccept`
  (`addShift`, `addReduce`, `addAccept`, `buildCell`);
* `/repo/internal/parsergen/lr1/construct.go` – the closure `resolveConflict` inside
  `resolveConflicts` (`decideSR`, `resolveOne`) and the loop at its end (`hasConflicts`).

Productions and rules are numbers; pointer equality of `*Prod` / `*Rule` in the Go code is equality
of those numbers. An action cell is the `array.Array[*Action]` stored for one (state, terminal).
-/
namespace Lox.Dec

/-- What `resolveConflict` reads of a production: `Prod.Rule`, `Prod.Precedence` (0 = no
qualifier; the front end only ever stores positive numbers for `@left(n)`/`@right(n)`),
`Prod.Associativity == Right`. (`grammar.go`, type `Prod`.) -/
structure ProdInfo where
  rule : Nat
  prec : Nat
  rightAssoc : Bool
  deriving DecidableEq, Repr, Inhabited

/-- `lr1.Action`. `shift target prods`: `prods` are the productions of the items that asked for
the shift, one entry per contributing LR(1) item, in the order `AddShift` appended them. -/
inductive Action where
  | shift (target : Nat) (prods : List Nat)
  | reduce (prod : Nat)
  | accept
  deriving DecidableEq, Repr, Inhabited

/-- Panics of `action.go` / the `assert` in `resolveConflicts`, as values. -/
inductive Panic where
  | shiftShift    -- "impossible shift-shift conflict"
  | acceptAccept  -- "impossible accept-accept conflict"
  | assert        -- `assert.True(!actions.Empty())`
  deriving DecidableEq, Repr

/-! ## Filling a cell (`action.go`) -/

/-- `ActionMap.AddShift(terminal, toState, prod)` on the cell of `terminal`: the first shift
action of the cell absorbs the production (panic if its target differs), otherwise a new shift
action is appended. -/
def addShift (target prod : Nat) : List Action → Except Panic (List Action)
  | [] => .ok [.shift target [prod]]
  | .shift t ps :: rest =>
    if t ≠ target then .error .shiftShift else .ok (.shift t (ps ++ [prod]) :: rest)
  | a :: rest => (addShift target prod rest).map (a :: ·)

/-- `ActionMap.AddReduce`: always appends. -/
def addReduce (prod : Nat) (cell : List Action) : List Action := cell ++ [.reduce prod]

/-- `ActionMap.AddAccept`: panics if the cell already holds an accept, else appends. -/
def addAccept (cell : List Action) : Except Panic (List Action) :=
  if cell.any (· == .accept) then .error .acceptAccept else .ok (cell ++ [.accept])

/-- One call on the action map. -/
inductive Call where
  | shift (target prod : Nat)
  | reduce (prod : Nat)
  | accept
  deriving DecidableEq, Repr

def applyCall (cell : List Action) : Call → Except Panic (List Action)
  | .shift t p => addShift t p cell
  | .reduce p => .ok (addReduce p cell)
  | .accept => addAccept cell

/-- The cell produced by a sequence of calls (all for one state and terminal). -/
def buildCell (calls : List Call) : Except Panic (List Action) :=
  calls.foldlM applyCall []

/-! ## `resolveConflict` -/

/-- Which of the two actions of a shift/reduce cell survives. -/
inductive Keep where
  | shift
  | reduce
  deriving DecidableEq, Repr

/-- The body of `resolveConflict` once `shift` and `reduce` are identified; `prods = shift.Prods`,
`rp = reduce.Prods[0]`. `none` = `return false`.

* the `for i, prod := range shift.Prods` loop: every contributing production must have the rule
  and the precedence of the first one (with no contributing production `shiftRule` stays `nil` and
  the common-rule test fails);
* `haveCommonRule`, `shiftPrec <= 0`, `reduceProd.Precedence <= 0`;
* the `switch`: lower shift precedence removes the shift, higher removes the reduce, and on equal
  precedence the reduce is removed only when `len(shift.Prods) == 1 && shift.Prods[0] ==
  reduce.Prods[0] && shift.Prods[0].Associativity == Right` (as written: known finding K1),
  otherwise the shift is removed. -/
def decideSR (info : Nat → ProdInfo) (prods : List Nat) (rp : Nat) : Option Keep :=
  match prods with
  | [] => none
  | p0 :: rest =>
    let shiftRule := (info p0).rule
    let shiftPrec := (info p0).prec
    if rest.all (fun q => (info q).rule == shiftRule && (info q).prec == shiftPrec) then
      let reducePrec := (info rp).prec
      if shiftRule == (info rp).rule && 0 < shiftPrec && 0 < reducePrec then
        if shiftPrec < reducePrec then some .reduce
        else if reducePrec < shiftPrec then some .shift
        else if rest.isEmpty && p0 == rp && (info p0).rightAssoc then some .shift
        else some .reduce
      else none
    else none

/-- The surviving cell of a resolved shift/reduce pair. -/
def keepOf (shift reduce : Action) : Keep → List Action
  | .shift => [shift]
  | .reduce => [reduce]

/-- `resolveConflict(state, terminal, actions)`: the cell afterwards and the returned Boolean
("resolved"). Only cells of exactly two actions, one shift and one reduce in either order, can be
resolved; every other cell is returned unchanged with `false`. -/
def resolveOne (info : Nat → ProdInfo) (acts : List Action) : List Action × Bool :=
  match acts with
  | [.shift t ps, .reduce rp] =>
    match decideSR info ps rp with
    | some k => (keepOf (.shift t ps) (.reduce rp) k, true)
    | none => (acts, false)
  | [.reduce rp, .shift t ps] =>
    match decideSR info ps rp with
    | some k => (keepOf (.shift t ps) (.reduce rp) k, true)
    | none => (acts, false)
  | _ => (acts, false)

/-- What the loop at the end of `resolveConflicts` does to one cell: cells of length 1 are left
alone, any other cell goes through `resolveConflict`; the Boolean is "this cell sets
`HasConflicts`". (An empty cell trips `assert.True(!actions.Empty())` first, see `checkTable`.) -/
def resolveCell (info : Nat → ProdInfo) (cell : List Action) : List Action × Bool :=
  if cell.length == 1 then (cell, false)
  else let r := resolveOne info cell; (r.1, !r.2)

/-- `ParserTable.HasConflicts` after `resolveConflicts`, the table given as the list of its cells. -/
def hasConflicts (info : Nat → ProdInfo) (table : List (List Action)) : Bool :=
  table.any fun cell => cell.length != 1 && !(resolveOne info cell).2

/-- The table after `resolveConflicts`. -/
def resolveTable (info : Nat → ProdInfo) (table : List (List Action)) : List (List Action) :=
  table.map fun cell => (resolveCell info cell).1

/-- `resolveConflicts` with its assertion: an empty cell panics. -/
def checkTable (info : Nat → ProdInfo) (table : List (List Action)) :
    Except Panic (List (List Action) × Bool) :=
  if table.any (·.isEmpty) then .error .assert
  else .ok (resolveTable info table, hasConflicts info table)

/-! ## The decision seen by the generated parser -/

/-- The shift/reduce decision a resolved cell encodes: `some true` = only the reduce is left,
`some false` = only the shift is left, `none` = anything else (conflict, or no S/R pair). -/
def srDecision (info : Nat → ProdInfo) (cell : List Action) : Option Bool :=
  match resolveOne info cell with
  | ([.reduce _], true) => some true
  | ([.shift _ _], true) => some false
  | _ => none

/-! ## Specification side: the documented decision, and the model with known finding K1 switched off -/

/-- The documented decision for a shift/reduce pair (docs/markdown/parser_reference.md,
"Precedence and Associativity"): the higher precedence wins; on equal precedence `@left` reduces
("reduce the first `expr` before considering the next") and `@right` shifts. -/
def documented (shiftPrec reducePrec : Nat) (rightAssoc : Bool) : Keep :=
  if shiftPrec < reducePrec then .reduce
  else if reducePrec < shiftPrec then .shift
  else if rightAssoc then .shift
  else .reduce

/-- `resolveConflict` as documented (known finding K1 repaired): same preconditions as `decideSR`,
but on equal precedence the associativity of the production on the stack decides, however many
items contribute to the shift. Not a model of the pinned code; used by the check to recognise a
repaired tree and by the C05 search. -/
def decideSRDoc (info : Nat → ProdInfo) (prods : List Nat) (rp : Nat) : Option Keep :=
  match decideSR info prods rp, prods with
  | some _, p0 :: _ => some (documented (info p0).prec (info rp).prec (info rp).rightAssoc)
  | _, _ => none

def resolveOneDoc (info : Nat → ProdInfo) (acts : List Action) : List Action × Bool :=
  match acts with
  | [.shift t ps, .reduce rp] =>
    match decideSRDoc info ps rp with
    | some k => (keepOf (.shift t ps) (.reduce rp) k, true)
    | none => (acts, false)
  | [.reduce rp, .shift t ps] =>
    match decideSRDoc info ps rp with
    | some k => (keepOf (.shift t ps) (.reduce rp) k, true)
    | none => (acts, false)
  | _ => (acts, false)

/-- Production table of `examples/calc/calc.lox` as numbered by lox (`S'` = 0, `S` = 1, 2,
`expr` = 3 … 10, `num` = 11, 12): 3,4 `@left(1)`; 5,6,7 `@left(2)`; 8 = `expr '^' expr @right(3)`. -/
def calcInfo : Nat → ProdInfo := fun p =>
  if p = 0 then ⟨0, 0, false⟩ else if p ≤ 2 then ⟨1, 0, false⟩
  else if p ≤ 4 then ⟨2, 1, false⟩ else if p ≤ 7 then ⟨2, 2, false⟩
  else if p = 8 then ⟨2, 3, true⟩ else if p ≤ 10 then ⟨2, 0, false⟩ else ⟨3, 0, false⟩

end Lox.Dec
