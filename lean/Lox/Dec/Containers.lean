/-! Pointer-level model of the generic containers of `/repo/internal/base` (C13: the generator
relies on insertion-ordered containers so that Go's randomised map iteration never reaches the
output). Core Lean only, executable (linked into `loxdrv`).

* `stablemap/node.go`, `stablemap/map.go`: `Map[K,V]` = a Go map `nodes : map[K]*node` plus a
  circular doubly linked list with a sentinel (`list`). Here: a node store `heap` (an array indexed
  by node id; a `*node` is `Option Nat`, `none` = nil), the Go map as an association list
  `key → node id` **whose order no operation uses** (lookup / store / delete / clear / len only),
  and one step function per method, statement by statement.
* `stablemap/multi_map.go`: `MultiMap.Add`.
* `set/set.go`: `Set[T]` over `Map[T,bool]`.
* `stack/stack.go`, `array/array.go`: slices.

A Go panic is an explicit `Except.error` value; nothing is defaulted. The abstract specification
(`AMap`, `ASet`, …) is at the end of each section; the refinement proofs are in
`ContainersProofs.lean`. -/
namespace Lox.Dec.Containers

/-- How an operation can fail. `nilDeref` and `nilMap` are Go panics; `dangling` (a node id outside
the store) and `fuel` (a traversal that did not come back to the sentinel within
`allocated nodes + 1` steps) cannot be expressed in Go and exist so that the model never invents a
default. -/
inductive Err where
  | nilDeref
  | nilMap
  | dangling
  | fuel
  | index
  deriving DecidableEq, Repr

deriving instance DecidableEq for Except

/-- A Go pointer to a node: `none` is nil, `some i` is the node with id `i`. -/
abbrev Ptr := Option Nat

/-- `stablemap/node.go: type node`. -/
structure Node (K V : Type) where
  next : Ptr
  prev : Ptr
  key : K
  value : V
  deriving Repr

/-- The node store: node id = index. Nodes are never freed (Go's collector is not observable). -/
abbrev Heap (K V : Type) := Array (Node K V)

/-- `stablemap/map.go: type Map`. `nodes = none` is the nil map of the zero value `Map{}`. -/
structure CMap (K V : Type) where
  nodes : Option (List (K × Nat))
  list : Ptr
  heap : Heap K V
  deriving Repr

/-- The zero value `stablemap.Map[K,V]{}` (what `var m Map[K,V]` gives). -/
def CMap.zero {K V : Type} : CMap K V := { nodes := none, list := none, heap := #[] }

section Map
variable {K V : Type} [DecidableEq K] [Inhabited K] [Inhabited V]

/-! ### Memory access -/

/-- `*p` for reading. -/
def load (h : Heap K V) (p : Ptr) : Except Err (Node K V) :=
  match p with
  | none => .error .nilDeref
  | some i =>
    match h[i]? with
    | some n => .ok n
    | none => .error .dangling

/-- `p.field = …`. -/
def store (h : Heap K V) (p : Ptr) (f : Node K V → Node K V) : Except Err (Heap K V) :=
  match p with
  | none => .error .nilDeref
  | some i => if i < h.size then .ok (h.modify i f) else .error .dangling

/-- `&node[K,V]{key: k}` / `&node[K,V]{}`: a fresh id and the extended store. -/
def alloc (h : Heap K V) (k : K) : Nat × Heap K V :=
  (h.size, h.push { next := none, prev := none, key := k, value := default })

/-! ### The Go map `nodes` (order never used) -/

/-- `m.nodes[k]` (reading a nil map gives the zero value, nil). -/
def goLookup (nodes : Option (List (K × Nat))) (k : K) : Option Nat :=
  match nodes with
  | none => none
  | some l => l.lookup k

/-- `m.nodes[k] = n` (assignment to an entry of a nil map panics). The entry replaces an existing
one; where it lands in the association list is irrelevant. -/
def goStore (nodes : Option (List (K × Nat))) (k : K) (n : Nat) :
    Except Err (Option (List (K × Nat))) :=
  match nodes with
  | none => .error .nilMap
  | some l => .ok (some ((k, n) :: l.filter (fun e => decide (e.1 ≠ k))))

/-- `delete(m.nodes, k)`. -/
def goDelete (nodes : Option (List (K × Nat))) (k : K) : Option (List (K × Nat)) :=
  nodes.map fun l => l.filter (fun e => decide (e.1 ≠ k))

/-- `clear(m.nodes)`. -/
def goClear (nodes : Option (List (K × Nat))) : Option (List (K × Nat)) :=
  nodes.map fun _ => []

/-- `len(m.nodes)`. -/
def goLen (nodes : Option (List (K × Nat))) : Nat :=
  match nodes with
  | none => 0
  | some l => l.length

/-! ### `node.go` -/

/-- `initList(l)`: `l.prev = l; l.next = l`. -/
def initList (h : Heap K V) (l : Ptr) : Except Err (Heap K V) := do
  let h ← store h l (fun x => { x with prev := l })
  store h l (fun x => { x with next := l })

/-- `insertNodeAfter(n, o)`: `n.prev = o; n.next = o.next; o.next.prev = n; o.next = n`. -/
def insertNodeAfter (h : Heap K V) (n o : Ptr) : Except Err (Heap K V) := do
  let h ← store h n (fun x => { x with prev := o })
  let on ← load h o
  let h ← store h n (fun x => { x with next := on.next })
  let on ← load h o
  let h ← store h on.next (fun x => { x with prev := n })
  store h o (fun x => { x with next := n })

/-- `removeNode(n)`: `n.prev.next = n.next; n.next.prev = n.prev; n.next = nil; n.prev = nil`. -/
def removeNode (h : Heap K V) (n : Ptr) : Except Err (Heap K V) := do
  let nn ← load h n
  let h ← store h nn.prev (fun x => { x with next := nn.next })
  let nn ← load h n
  let h ← store h nn.next (fun x => { x with prev := nn.prev })
  let h ← store h n (fun x => { x with next := none })
  store h n (fun x => { x with prev := none })

/-! ### `map.go` -/

/-- `initMap(m)`: lazy initialisation of the zero value. -/
def initMap (m : CMap K V) : Except Err (CMap K V) :=
  match m.nodes with
  | some _ => .ok m
  | none => do
    let (l, h) := alloc m.heap default
    let h ← initList h (some l)
    pure { nodes := some [], list := some l, heap := h }

/-- `(*Map).Len`. -/
def len (m : CMap K V) : Nat :=
  match m.nodes with
  | none => 0
  | some _ => goLen m.nodes

/-- `(*Map).Has`. -/
def has (m : CMap K V) (k : K) : Bool :=
  match m.nodes with
  | none => false
  | some _ => (goLookup m.nodes k).isSome

/-- `(*Map).Clear`. The old nodes keep their links (they are unreachable). -/
def clear (m : CMap K V) : Except Err (CMap K V) :=
  match m.nodes with
  | none => .ok m
  | some _ => do
    let nodes := goClear m.nodes
    let h ← initList m.heap m.list
    pure { nodes := nodes, list := m.list, heap := h }

/-- `(*Map).Put`. -/
def put (m : CMap K V) (k : K) (v : V) : Except Err (CMap K V) := do
  let m ← initMap m
  match goLookup m.nodes k with
  | some n =>
    let h ← store m.heap (some n) (fun x => { x with value := v })
    pure { m with heap := h }
  | none =>
    let (n, h) := alloc m.heap k
    let l ← load h m.list
    let h ← insertNodeAfter h (some n) l.prev
    let nodes ← goStore m.nodes k n
    let h ← store h (some n) (fun x => { x with value := v })
    pure { nodes := nodes, list := m.list, heap := h }

/-- `(*Map).Get`. -/
def get (m : CMap K V) (k : K) : Except Err (V × Bool) :=
  match m.nodes with
  | none => .ok (default, false)
  | some _ =>
    match goLookup m.nodes k with
    | none => .ok (default, false)
    | some n => do
      let x ← load m.heap (some n)
      pure (x.value, true)

/-- `(*Map).GetOrZero`. -/
def getOrZero (m : CMap K V) (k : K) : Except Err V := do
  let r ← get m k
  pure r.1

/-- `(*Map).Remove`. -/
def remove (m : CMap K V) (k : K) : Except Err (CMap K V) :=
  match m.nodes with
  | none => .ok m
  | some _ =>
    match goLookup m.nodes k with
    | none => .ok m
    | some n => do
      let h ← removeNode m.heap (some n)
      pure { nodes := goDelete m.nodes k, list := m.list, heap := h }

/-- The loop `for n := …; n != m.list; n = n.next { f(n.key, n.value) }` with the calls of `f`
collected. -/
def walk (h : Heap K V) (stop : Ptr) : Nat → Ptr → Except Err (List (K × V))
  | 0, _ => .error .fuel
  | fuel + 1, p =>
    if p = stop then .ok []
    else do
      let x ← load h p
      let rest ← walk h stop fuel x.next
      pure ((x.key, x.value) :: rest)

/-- `(*Map).ForEach`: the sequence of calls `f(key, value)`. -/
def forEach (m : CMap K V) : Except Err (List (K × V)) :=
  match m.list with
  | none => .ok []
  | some l => do
    let s ← load m.heap (some l)
    walk m.heap (some l) (m.heap.size + 1) s.next

/-- `(*Map).Keys`. -/
def keys (m : CMap K V) : Except Err (List K) := do
  let kvs ← forEach m
  pure (kvs.map (·.1))

/-- `(*Map).Values`. -/
def values (m : CMap K V) : Except Err (List V) := do
  let kvs ← forEach m
  pure (kvs.map (·.2))

/-! ### Operation sequences -/

inductive Op (K V : Type) where
  | put (k : K) (v : V)
  | get (k : K)
  | getOrZero (k : K)
  | has (k : K)
  | len
  | remove (k : K)
  | clear
  | forEach
  | keys
  | values
  deriving Repr

/-- What a caller can see of one operation. -/
inductive Obs (K V : Type) where
  | unit
  | got (v : V) (ok : Bool)
  | val (v : V)
  | bool (b : Bool)
  | nat (n : Nat)
  | pairs (l : List (K × V))
  | keys (l : List K)
  | values (l : List V)
  deriving DecidableEq, Repr

def step (op : Op K V) (m : CMap K V) : Except Err (Obs K V × CMap K V) :=
  match op with
  | .put k v => do let m ← put m k v; pure (.unit, m)
  | .get k => do let r ← get m k; pure (.got r.1 r.2, m)
  | .getOrZero k => do let v ← getOrZero m k; pure (.val v, m)
  | .has k => .ok (.bool (has m k), m)
  | .len => .ok (.nat (len m), m)
  | .remove k => do let m ← remove m k; pure (.unit, m)
  | .clear => do let m ← clear m; pure (.unit, m)
  | .forEach => do let l ← forEach m; pure (.pairs l, m)
  | .keys => do let l ← keys m; pure (.keys l, m)
  | .values => do let l ← values m; pure (.values l, m)

def run : List (Op K V) → CMap K V → Except Err (List (Obs K V) × CMap K V)
  | [], m => .ok ([], m)
  | op :: ops, m => do
    let (o, m) ← step op m
    let (os, m) ← run ops m
    pure (o :: os, m)

/-- The Go runtime may lay the map out differently at any time: `sched i` rearranges the
association list before step `i`. -/
def reorder (f : List (K × Nat) → List (K × Nat)) (m : CMap K V) : CMap K V :=
  { m with nodes := m.nodes.map f }

def runSched (sched : Nat → List (K × Nat) → List (K × Nat)) :
    Nat → List (Op K V) → CMap K V → Except Err (List (Obs K V) × CMap K V)
  | _, [], m => .ok ([], m)
  | i, op :: ops, m => do
    let (o, m) ← step op (reorder (sched i) m)
    let (os, m) ← runSched sched (i + 1) ops m
    pure (o :: os, m)

/-! ### Abstract specification -/

/-- The live entries in insertion order. -/
abbrev AMap (K V : Type) := List (K × V)

def aPut (l : AMap K V) (k : K) (v : V) : AMap K V :=
  if l.any (fun e => decide (e.1 = k)) then l.map (fun e => if e.1 = k then (e.1, v) else e)
  else l ++ [(k, v)]

def aRemove (l : AMap K V) (k : K) : AMap K V := l.filter (fun e => decide (e.1 ≠ k))

def aGet (l : AMap K V) (k : K) : V × Bool :=
  match l.lookup k with
  | some v => (v, true)
  | none => (default, false)

def specStep (op : Op K V) (l : AMap K V) : Obs K V × AMap K V :=
  match op with
  | .put k v => (.unit, aPut l k v)
  | .get k => (.got (aGet l k).1 (aGet l k).2, l)
  | .getOrZero k => (.val (aGet l k).1, l)
  | .has k => (.bool (l.any (fun e => decide (e.1 = k))), l)
  | .len => (.nat l.length, l)
  | .remove k => (.unit, aRemove l k)
  | .clear => (.unit, [])
  | .forEach => (.pairs l, l)
  | .keys => (.keys (l.map (·.1)), l)
  | .values => (.values (l.map (·.2)), l)

def runSpec : List (Op K V) → AMap K V → List (Obs K V) × AMap K V
  | [], l => ([], l)
  | op :: ops, l =>
    let r := specStep op l
    let rs := runSpec ops r.2
    (r.1 :: rs.1, rs.2)

/-- The abstraction function: follow `next` from the sentinel. -/
def abs (m : CMap K V) : Except Err (AMap K V) := forEach m

end Map

/-! ## `set/set.go` -/

/-- `type Set[T] struct { set stablemap.Map[T, bool] }`. -/
structure CSet (T : Type) where
  set : CMap T Bool
  deriving Repr

def CSet.zero {T : Type} : CSet T := { set := CMap.zero }

section Set
variable {T : Type} [DecidableEq T] [Inhabited T]

/-- `(*Set).Clear`. -/
def setClear (s : CSet T) : Except Err (CSet T) := do
  let m ← clear s.set
  pure { set := m }

/-- `(*Set).Add`: `if s.set.Has(x) { return false }; s.set.Put(x, true); return true`. -/
def setAdd (s : CSet T) (x : T) : Except Err (Bool × CSet T) :=
  if has s.set x then .ok (false, s)
  else do
    let m ← put s.set x true
    pure (true, { set := m })

/-- `(*Set).AddSlice`: `changed = s.Add(x) || changed` for every `x`. -/
def setAddSlice (s : CSet T) : List T → Except Err (Bool × CSet T)
  | [] => .ok (false, s)
  | x :: xs => do
    let (c, s) ← setAdd s x
    let (c', s) ← setAddSlice s xs
    pure (c || c', s)

/-- `(*Set).AddSet(o)`: `o.set.ForEach(func(k, v) { changed = s.Add(k) || changed })`. The calls of
the callback are collected first; `o` is not modified by them (also when `o` is a copy of `*s`:
every `Add` then returns false before touching the map). -/
def setAddSet (s o : CSet T) : Except Err (Bool × CSet T) := do
  let kvs ← forEach o.set
  setAddSlice s (kvs.map (·.1))

/-- `(*Set).Remove`. -/
def setRemove (s : CSet T) (x : T) : Except Err (CSet T) := do
  let m ← remove s.set x
  pure { set := m }

/-- `Set.Has`. -/
def setHas (s : CSet T) (x : T) : Bool := has s.set x

/-- `Set.Len`. -/
def setLen (s : CSet T) : Nat := len s.set

/-- `Set.Empty`. -/
def setEmpty (s : CSet T) : Bool := len s.set == 0

/-- `Set.Elements`. -/
def setElements (s : CSet T) : Except Err (List T) := keys s.set

/-- `(*Set).ForEach`: the sequence of calls `fn(e)`. -/
def setForEach (s : CSet T) : Except Err (List T) := do
  let kvs ← forEach s.set
  pure (kvs.map (·.1))

/-- `Set.Equal(o)`. -/
def setEqual (s o : CSet T) : Except Err Bool :=
  if setLen s != setLen o then .ok false
  else do
    let xs ← setForEach s
    pure (xs.foldl (fun isEqual x => isEqual && setHas o x) true)

/-- `(*Set).Clone`. -/
def setClone (s : CSet T) : Except Err (CSet T) := do
  let xs ← setForEach s
  let r ← setAddSlice CSet.zero xs
  pure r.2

/-- `set.New(xs...)`. -/
def setNew (xs : List T) : Except Err (CSet T) := do
  let r ← setAddSlice CSet.zero xs
  pure r.2

/-- Programs over several sets: set variables are numbered. -/
inductive SetOp (T : Type) where
  | add (r : Nat) (x : T)
  | addSlice (r : Nat) (xs : List T)
  | addSet (r o : Nat)
  | remove (r : Nat) (x : T)
  | has (r : Nat) (x : T)
  | empty (r : Nat)
  | len (r : Nat)
  | elements (r : Nat)
  | equal (r o : Nat)
  | forEach (r : Nat)
  | clone (dst src : Nat)
  | clear (r : Nat)
  | new (dst : Nat) (xs : List T)
  deriving Repr

inductive SetObs (T : Type) where
  | unit
  | bool (b : Bool)
  | nat (n : Nat)
  | elems (l : List T)
  deriving DecidableEq, Repr

def setVar {σ : Type} (regs : Nat → σ) (r : Nat) (s : σ) : Nat → σ :=
  fun i => if i = r then s else regs i

def setStep (op : SetOp T) (regs : Nat → CSet T) : Except Err (SetObs T × (Nat → CSet T)) :=
  match op with
  | .add r x => do let (c, s) ← setAdd (regs r) x; pure (.bool c, setVar regs r s)
  | .addSlice r xs => do let (c, s) ← setAddSlice (regs r) xs; pure (.bool c, setVar regs r s)
  | .addSet r o => do let (c, s) ← setAddSet (regs r) (regs o); pure (.bool c, setVar regs r s)
  | .remove r x => do let s ← setRemove (regs r) x; pure (.unit, setVar regs r s)
  | .has r x => .ok (.bool (setHas (regs r) x), regs)
  | .empty r => .ok (.bool (setEmpty (regs r)), regs)
  | .len r => .ok (.nat (setLen (regs r)), regs)
  | .elements r => do let l ← setElements (regs r); pure (.elems l, regs)
  | .equal r o => do let b ← setEqual (regs r) (regs o); pure (.bool b, regs)
  | .forEach r => do let l ← setForEach (regs r); pure (.elems l, regs)
  | .clone dst src => do let s ← setClone (regs src); pure (.unit, setVar regs dst s)
  | .clear r => do let s ← setClear (regs r); pure (.unit, setVar regs r s)
  | .new dst xs => do let s ← setNew xs; pure (.unit, setVar regs dst s)

def setRun : List (SetOp T) → (Nat → CSet T) → Except Err (List (SetObs T) × (Nat → CSet T))
  | [], regs => .ok ([], regs)
  | op :: ops, regs => do
    let (o, regs) ← setStep op regs
    let (os, regs) ← setRun ops regs
    pure (o :: os, regs)

/-! ### Abstract specification: duplicate-free lists in first-insertion order -/

abbrev ASet (T : Type) := List T

def sAdd (l : ASet T) (x : T) : Bool × ASet T := if x ∈ l then (false, l) else (true, l ++ [x])

def sAddAll (l : ASet T) : List T → Bool × ASet T
  | [] => (false, l)
  | x :: xs =>
    let r := sAdd l x
    let rs := sAddAll r.2 xs
    (r.1 || rs.1, rs.2)

def sEqual (l o : ASet T) : Bool := l.length == o.length && l.all (fun x => decide (x ∈ o))

def setSpecStep (op : SetOp T) (regs : Nat → ASet T) : SetObs T × (Nat → ASet T) :=
  match op with
  | .add r x => (.bool (sAdd (regs r) x).1, setVar regs r (sAdd (regs r) x).2)
  | .addSlice r xs => (.bool (sAddAll (regs r) xs).1, setVar regs r (sAddAll (regs r) xs).2)
  | .addSet r o => (.bool (sAddAll (regs r) (regs o)).1, setVar regs r (sAddAll (regs r) (regs o)).2)
  | .remove r x => (.unit, setVar regs r ((regs r).filter (fun y => decide (y ≠ x))))
  | .has r x => (.bool (decide (x ∈ regs r)), regs)
  | .empty r => (.bool (regs r).isEmpty, regs)
  | .len r => (.nat (regs r).length, regs)
  | .elements r => (.elems (regs r), regs)
  | .equal r o => (.bool (sEqual (regs r) (regs o)), regs)
  | .forEach r => (.elems (regs r), regs)
  | .clone dst src => (.unit, setVar regs dst (regs src))
  | .clear r => (.unit, setVar regs r [])
  | .new dst xs => (.unit, setVar regs dst (sAddAll [] xs).2)

def setRunSpec : List (SetOp T) → (Nat → ASet T) → List (SetObs T) × (Nat → ASet T)
  | [], regs => ([], regs)
  | op :: ops, regs =>
    let r := setSpecStep op regs
    let rs := setRunSpec ops r.2
    (r.1 :: rs.1, rs.2)

end Set

/-! ## `stablemap/multi_map.go`, `array/array.go`, `stack/stack.go` -/

/-- `type MultiMap[K,V] struct { Map[K, *array.Array[V]] }`: the values are pointers to
`array.Array` objects; `arrs` is the store of those objects (id = index, content = `elems`). -/
structure CMulti (K V : Type) where
  map : CMap K Ptr
  arrs : Array (List V)
  deriving Repr

def CMulti.zero {K V : Type} : CMulti K V := { map := CMap.zero, arrs := #[] }

section Multi
variable {K V : Type} [DecidableEq K] [Inhabited K]

/-- `(*Array).Add` through a pointer: `arr.Add(v)` (`s.elems = append(s.elems, e)`; nil receiver
panics). -/
def arrAdd (arrs : Array (List V)) (p : Ptr) (v : V) : Except Err (Array (List V)) :=
  match p with
  | none => .error .nilDeref
  | some a => if a < arrs.size then .ok (arrs.modify a (· ++ [v])) else .error .dangling

/-- `(*Array).Elements` through a pointer (`if s == nil { return nil }`). -/
def arrElems (arrs : Array (List V)) (p : Ptr) : Except Err (List V) :=
  match p with
  | none => .ok []
  | some a =>
    match arrs[a]? with
    | some l => .ok l
    | none => .error .dangling

/-- `(*MultiMap).Add`: `arr, ok := m.Get(k); if !ok { arr = new(array.Array[V]); m.Put(k, arr) };
arr.Add(v)`. -/
def mmAdd (m : CMulti K V) (k : K) (v : V) : Except Err (CMulti K V) := do
  let r ← get m.map k
  if r.2 then
    let arrs ← arrAdd m.arrs r.1 v
    pure { map := m.map, arrs := arrs }
  else
    let a := m.arrs.size
    let arrs := m.arrs.push []
    let map ← put m.map k (some a)
    let arrs ← arrAdd arrs (some a) v
    pure { map := map, arrs := arrs }

/-- `m.Get(k)` followed by `Elements()`. -/
def mmGet (m : CMulti K V) (k : K) : Except Err (List V × Bool) := do
  let r ← get m.map k
  let es ← arrElems m.arrs r.1
  pure (es, r.2)

def mmElemsAll (arrs : Array (List V)) : List (K × Ptr) → Except Err (List (K × List V))
  | [] => .ok []
  | (k, p) :: rest => do
    let es ← arrElems arrs p
    let r ← mmElemsAll arrs rest
    pure ((k, es) :: r)

/-- `m.ForEach(func(k, arr) { f(k, arr.Elements()) })`. -/
def mmForEach (m : CMulti K V) : Except Err (List (K × List V)) := do
  let kvs ← forEach m.map
  mmElemsAll m.arrs kvs

def mmRemove (m : CMulti K V) (k : K) : Except Err (CMulti K V) := do
  let map ← remove m.map k
  pure { map := map, arrs := m.arrs }

def mmClear (m : CMulti K V) : Except Err (CMulti K V) := do
  let map ← clear m.map
  pure { map := map, arrs := m.arrs }

inductive MOp (K V : Type) where
  | add (k : K) (v : V)
  | get (k : K)
  | has (k : K)
  | len
  | remove (k : K)
  | clear
  | keys
  | forEach
  deriving Repr

inductive MObs (K V : Type) where
  | unit
  | got (l : List V) (ok : Bool)
  | bool (b : Bool)
  | nat (n : Nat)
  | keys (l : List K)
  | all (l : List (K × List V))
  deriving DecidableEq, Repr

def mmStep (op : MOp K V) (m : CMulti K V) : Except Err (MObs K V × CMulti K V) :=
  match op with
  | .add k v => do let m ← mmAdd m k v; pure (.unit, m)
  | .get k => do let r ← mmGet m k; pure (.got r.1 r.2, m)
  | .has k => .ok (.bool (has m.map k), m)
  | .len => .ok (.nat (len m.map), m)
  | .remove k => do let m ← mmRemove m k; pure (.unit, m)
  | .clear => do let m ← mmClear m; pure (.unit, m)
  | .keys => do let l ← keys m.map; pure (.keys l, m)
  | .forEach => do let l ← mmForEach m; pure (.all l, m)

def mmRun : List (MOp K V) → CMulti K V → Except Err (List (MObs K V) × CMulti K V)
  | [], m => .ok ([], m)
  | op :: ops, m => do
    let (o, m) ← mmStep op m
    let (os, m) ← mmRun ops m
    pure (o :: os, m)

/-- Specification: keys in first-insertion order, each with its values in insertion order. -/
abbrev AMulti (K V : Type) := List (K × List V)

def aMMAdd (l : AMulti K V) (k : K) (v : V) : AMulti K V :=
  if l.any (fun e => decide (e.1 = k)) then l.map (fun e => if e.1 = k then (e.1, e.2 ++ [v]) else e)
  else l ++ [(k, [v])]

def mmSpecStep (op : MOp K V) (l : AMulti K V) : MObs K V × AMulti K V :=
  match op with
  | .add k v => (.unit, aMMAdd l k v)
  | .get k =>
    (match l.lookup k with
     | some es => .got es true
     | none => .got [] false, l)
  | .has k => (.bool (l.any (fun e => decide (e.1 = k))), l)
  | .len => (.nat l.length, l)
  | .remove k => (.unit, l.filter (fun e => decide (e.1 ≠ k)))
  | .clear => (.unit, [])
  | .keys => (.keys (l.map (·.1)), l)
  | .forEach => (.all l, l)

def mmRunSpec : List (MOp K V) → AMulti K V → List (MObs K V) × AMulti K V
  | [], l => ([], l)
  | op :: ops, l =>
    let r := mmSpecStep op l
    let rs := mmRunSpec ops r.2
    (r.1 :: rs.1, rs.2)

end Multi

/-! ### Slices: `stack.Stack[T]`, `array.Array[T]` (`elems []T`; capacity is not observable) -/

section Slices
variable {T : Type}

/-- `(*Stack).Push`, `(*Array).Add`. -/
def slicePush (s : List T) (e : T) : List T := s ++ [e]

/-- `(*Stack).Pop`: `elem := s.elems[l-1]; s.elems = s.elems[:l-1]` (index out of range on an
empty stack). -/
def stackPop (s : List T) : Except Err (T × List T) :=
  match s.getLast? with
  | some e => .ok (e, s.dropLast)
  | none => .error .index

/-- `(*Stack).Peek`. -/
def stackPeek (s : List T) : Except Err T :=
  match s.getLast? with
  | some e => .ok e
  | none => .error .index

/-- `(*Array).Get(n)` (a negative or too large index panics). -/
def arrayGet (s : List T) (n : Int) : Except Err T :=
  if n < 0 then .error .index
  else
    match s[n.toNat]? with
    | some e => .ok e
    | none => .error .index

/-- `(*Array).DeleteFunc(f)` = `slices.DeleteFunc`: keeps the elements for which `f` is false, in
order. -/
def arrayDeleteFunc (s : List T) (f : T → Bool) : List T := s.filter (fun e => !f e)

end Slices

end Lox.Dec.Containers
