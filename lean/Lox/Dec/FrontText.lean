/-! # Text → value helpers of the lox front end (core Lean only)

Models of the helpers of `/repo/internal/parser/parser.go` that turn token TEXT into values and that
can panic on it: `hexToRune` (`strconv.ParseUint(str, 16, 32)`, `panic(err)`), `unescape`
(`lit[i+1]`, `lit[i+2:i+4]`, `lit[i+2:i+6]`, `lit[i+2:i+10]`, `default: panic("unreachable")`),
`fixLiteral` (`lit[1:len(lit)-1]`), `checkEscapes` (`lit[i+2:i+2+n]`) and the precedence
conversion of `on_parser_qualif` (`strconv.Atoi`, a diagnostic since the repair of D11).

Bytes are `Nat`s (< 256 in every use). A Go panic is the explicit result `Res.panic`.

Capacity. Go checks an INDEX `s[i]` against `len(s)` but a SLICE `s[a:b]` against `cap(s)`. Token
texts are sub-slices of the file buffer, so `lit[i+2:i+6]` reaching beyond the token does not panic
there: it reads the bytes that follow the token in the buffer. The functions that slice therefore
take the bytes between `len` and `cap` as an extra argument `cap` (`unescapeC`, `checkEscapesC`,
`fixLiteralC`); `unescape`, `checkEscapes`, `fixLiteral` are the instances with capacity = length
(the case in which Go panics soonest). The theorems of `Lox.Props.C12` hold for every `cap`. -/
namespace Lox.Dec.FrontText

inductive Res (α : Type) where
  | ok (v : α)
  | panic (msg : String)
  deriving Repr, DecidableEq

def Res.map {α β : Type} (f : α → β) : Res α → Res β
  | .ok v => .ok (f v)
  | .panic m => .panic m

def Res.bind {α β : Type} (r : Res α) (f : α → Res β) : Res β :=
  match r with
  | .ok v => f v
  | .panic m => .panic m

def Res.isOk {α : Type} : Res α → Bool
  | .ok _ => true
  | .panic _ => false

/-! ## hexToRune -/

/-- `[0-9a-fA-F]` (the macro `HEX` of parser.lox; also what `ParseUint(…, 16, …)` accepts). -/
def isHex (b : Nat) : Bool :=
  (48 ≤ b && b ≤ 57) || (65 ≤ b && b ≤ 70) || (97 ≤ b && b ≤ 102)

def hexVal (b : Nat) : Nat :=
  if b ≤ 57 then b - 48 else if b ≤ 70 then b - 55 else b - 87

/-- The digit loop of `strconv.ParseUint(s, 16, 32)`: `none` = `err != nil` (a byte that is not a
hex digit: `ErrSyntax`; a value above `1<<32 - 1`: `ErrRange`). -/
def parseHexAcc : Nat → List Nat → Option Nat
  | v, [] => some v
  | v, d :: ds =>
    if isHex d then
      if v * 16 + hexVal d < 4294967296 then parseHexAcc (v * 16 + hexVal d) ds else none
    else none

/-- `strconv.ParseUint(s, 16, 32)`; the empty string is a syntax error. -/
def parseHex32 (ds : List Nat) : Option Nat :=
  match ds with
  | [] => none
  | _ => parseHexAcc 0 ds

/-- `rune(v)` for a `uint64` below 2^32: the int32 with the same low 32 bits. -/
def toRune (v : Nat) : Int :=
  if v < 2147483648 then (v : Int) else (v : Int) - 4294967296

/-- `hexToRune` (parser.go): `panic(err)` when `ParseUint` fails. -/
def hexToRune (ds : List Nat) : Res Int :=
  match parseHex32 ds with
  | some v => .ok (toRune v)
  | none => .panic "strconv.ParseUint"

/-- `utf8.ValidRune`. -/
def validRune (r : Int) : Bool :=
  (0 ≤ r && r < 55296) || (57343 < r && r ≤ 1114111)

/-- `strings.Builder.WriteRune` = `utf8.AppendRune`: invalid runes are written as U+FFFD. -/
def encodeRune (r : Int) : List Nat :=
  if !validRune r then [239, 191, 189]
  else
    let n := r.toNat
    if n < 128 then [n]
    else if n < 2048 then [192 + n / 64, 128 + n % 64]
    else if n < 65536 then [224 + n / 4096, 128 + n / 64 % 64, 128 + n % 64]
    else [240 + n / 262144, 128 + n / 4096 % 64, 128 + n / 64 % 64, 128 + n % 64]

/-- `byte(r)` for an int32. -/
def toByte (r : Int) : Nat := (r % 256).toNat

/-! ## unescape -/

/-- The one-letter escapes of the `switch lit[i+1]` in `unescape`: n r t ' \ - . -/
def simpleEsc (c : Nat) : Option Nat :=
  if c = 110 then some 10
  else if c = 114 then some 13
  else if c = 116 then some 9
  else if c = 39 then some 39
  else if c = 92 then some 92
  else if c = 45 then some 45
  else none

/-- `unescape` (parser.go). The second argument is the rest of `lit` from index `i` on, `cap` the
bytes behind `lit` inside its capacity. The `panic` results are the ways the Go function can
panic: `lit[i+1]` past the end, a slice `lit[i+2:i+k]` past the capacity, `hexToRune` on a non-hex
string, and the `default` arm. When a slice reaches past the length but not past the capacity the
hex digits are taken from `cap`, and `i += k` then ends the loop. -/
def unescapeC (cap : List Nat) : List Nat → Res (List Nat)
  | [] => .ok []
  | b :: rest =>
    if b ≠ 92 then (unescapeC cap rest).map (b :: ·)
    else
      match rest with
      | [] => .panic "index out of range"
      | c :: r1 =>
        match simpleEsc c with
        | some v => (unescapeC cap r1).map (v :: ·)
        | none =>
          if c = 120 then
            match r1 with
            | d1 :: d2 :: r2 =>
              (hexToRune [d1, d2]).bind fun v => (unescapeC cap r2).map (toByte v :: ·)
            | _ =>
              if (r1 ++ cap).length < 2 then .panic "slice bounds out of range"
              else (hexToRune ((r1 ++ cap).take 2)).bind fun v => .ok [toByte v]
          else if c = 117 then
            match r1 with
            | d1 :: d2 :: d3 :: d4 :: r2 =>
              (hexToRune [d1, d2, d3, d4]).bind fun v => (unescapeC cap r2).map (encodeRune v ++ ·)
            | _ =>
              if (r1 ++ cap).length < 4 then .panic "slice bounds out of range"
              else (hexToRune ((r1 ++ cap).take 4)).bind fun v => .ok (encodeRune v)
          else if c = 85 then
            match r1 with
            | d1 :: d2 :: d3 :: d4 :: d5 :: d6 :: d7 :: d8 :: r2 =>
              (hexToRune [d1, d2, d3, d4, d5, d6, d7, d8]).bind fun v =>
                (unescapeC cap r2).map (encodeRune v ++ ·)
            | _ =>
              if (r1 ++ cap).length < 8 then .panic "slice bounds out of range"
              else (hexToRune ((r1 ++ cap).take 8)).bind fun v => .ok (encodeRune v)
          else .panic "unreachable"

/-- `unescape` on a slice whose capacity equals its length. -/
def unescape (lit : List Nat) : Res (List Nat) := unescapeC [] lit

/-- `fixLiteral` (parser.go): `unescape(lit[1 : len(lit)-1])`. The sub-slice keeps the capacity
of `lit`, so the last byte of `lit` is the first byte behind it. -/
def fixLiteralC (cap : List Nat) (lit : List Nat) : Res (List Nat) :=
  if lit.length < 2 then .panic "slice bounds out of range"
  else unescapeC (lit.drop (lit.length - 1) ++ cap) ((lit.drop 1).dropLast)

def fixLiteral (lit : List Nat) : Res (List Nat) := fixLiteralC [] lit

/-! ## checkEscapes -/

/-- `checkEscapes` (parser.go): the offsets (relative to the token) at which
`escape sequence is not a valid Unicode code point` is reported, or a panic
(`lit[i+2:i+2+n]` past the capacity, `hexToRune` on a non-hex string). `pos` is the loop variable
`i`, the list is `lit[i:]`, `cap` the bytes behind `lit` inside its capacity. -/
def checkEscapesC (cap : List Nat) : Nat → List Nat → Res (List Nat)
  | _, [] => .ok []
  | _, [_] => .ok []
  | pos, b :: c :: rest =>
    if b ≠ 92 then checkEscapesC cap (pos + 1) (c :: rest)
    else
      let n := if c = 117 then 4 else if c = 85 then 8 else 0
      if n = 0 then checkEscapesC cap (pos + 2) rest
      else if (rest ++ cap).length < n then .panic "slice bounds out of range"
      else
        (hexToRune ((rest ++ cap).take n)).bind fun v =>
          (checkEscapesC cap (pos + 2) rest).map fun ds => if validRune v then ds else pos :: ds

def checkEscapes (pos : Nat) (lit : List Nat) : Res (List Nat) := checkEscapesC [] pos lit

/-! ## precedence numbers -/

def isDigit (b : Nat) : Bool := 48 ≤ b && b ≤ 57

/-- `strconv.Atoi` on a string without sign: `none` = `err != nil` (empty, a non-digit, or a value
above `1<<63 - 1`). -/
def atoiAcc : Nat → List Nat → Option Nat
  | v, [] => some v
  | v, d :: ds =>
    if isDigit d then
      if v * 10 + (d - 48) < 9223372036854775808 then atoiAcc (v * 10 + (d - 48)) ds else none
    else none

def atoi (ds : List Nat) : Option Nat :=
  match ds with
  | [] => none
  | _ => atoiAcc 0 ds

inductive QRes where
  | prec (n : Nat)
  | diag            -- "precedence must be a positive integer"
  | panic (msg : String)
  deriving Repr, DecidableEq

/-- `strconv.Atoi(s)` followed by the test `err != nil || n <= 0`, on a string without sign. -/
def qualifU (ds : List Nat) : QRes :=
  match atoi ds with
  | none => .diag
  | some v => if v = 0 then .diag else .prec v

/-- The conversion in `on_parser_qualif` as it is now:
`q.Precedence, err = strconv.Atoi(…); if err != nil || q.Precedence <= 0 { Errorf(…) }`.
`Atoi` accepts one leading sign: after `-` the result is an error or ≤ 0, both the diagnostic.
(`NUM = [0-9]+` never carries a sign; the arms are there because the model follows the code.) -/
def qualif (ds : List Nat) : QRes :=
  match ds with
  | 43 :: t => qualifU t
  | 45 :: _ => .diag
  | _ => qualifU ds

/-- The conversion as it was on the pinned tree (D11): `panic(err)` on a conversion error and
`panic("not-reached")`-style assertion on 0. Kept to state what the repair changed. -/
def qualifPinned (ds : List Nat) : QRes :=
  match atoi ds with
  | none => .panic "strconv.Atoi"
  | some v => if v = 0 then .panic "precedence must be positive" else .prec v

/-! ## The language the front end's lexer lets through -/

/-- Byte strings made of the units `unescape` understands: a byte other than `\`, `\` + one of
`n r t ' \ -`, `\x` + 2 hex digits, `\u` + 4, `\U` + 8. This is the union of what the modes
`Literal` and `ClassChar` of parser.lox accept (see `LitBody`, `ClassChar`). -/
inductive WellEscaped : List Nat → Prop
  | nil : WellEscaped []
  | plain (b : Nat) (rest : List Nat) : b ≠ 92 → WellEscaped rest → WellEscaped (b :: rest)
  | simple (c : Nat) (rest : List Nat) : (simpleEsc c).isSome = true → WellEscaped rest →
      WellEscaped (92 :: c :: rest)
  | hex2 (ds rest : List Nat) : ds.length = 2 → (∀ d ∈ ds, isHex d = true) → WellEscaped rest →
      WellEscaped (92 :: 120 :: (ds ++ rest))
  | hex4 (ds rest : List Nat) : ds.length = 4 → (∀ d ∈ ds, isHex d = true) → WellEscaped rest →
      WellEscaped (92 :: 117 :: (ds ++ rest))
  | hex8 (ds rest : List Nat) : ds.length = 8 → (∀ d ∈ ds, isHex d = true) → WellEscaped rest →
      WellEscaped (92 :: 85 :: (ds ++ rest))

/-- `@mode Literal` of parser.lox, the text between the quotes (a sequence of fragment matches):
```
@frag '\\' [\\'nrt]      @frag '\\x' HEX HEX      @frag '\\u' HEX HEX HEX HEX
@frag '\\U' HEX×8        @frag ~[\\\n]
```
(`~[\\\n]` matches one code point; its UTF-8 bytes are ≥ 128 or the ASCII byte itself, and an
invalid byte is kept as it is, so byte-wise it is "a byte other than `\` and newline".) -/
inductive LitBody : List Nat → Prop
  | nil : LitBody []
  | plain (b : Nat) (rest : List Nat) : b ≠ 92 → b ≠ 10 → LitBody rest → LitBody (b :: rest)
  | simple (c : Nat) (rest : List Nat) : c = 92 ∨ c = 39 ∨ c = 110 ∨ c = 114 ∨ c = 116 →
      LitBody rest → LitBody (92 :: c :: rest)
  | hex2 (ds rest : List Nat) : ds.length = 2 → (∀ d ∈ ds, isHex d = true) → LitBody rest →
      LitBody (92 :: 120 :: (ds ++ rest))
  | hex4 (ds rest : List Nat) : ds.length = 4 → (∀ d ∈ ds, isHex d = true) → LitBody rest →
      LitBody (92 :: 117 :: (ds ++ rest))
  | hex8 (ds rest : List Nat) : ds.length = 8 → (∀ d ∈ ds, isHex d = true) → LitBody rest →
      LitBody (92 :: 85 :: (ds ++ rest))

/-- One `CLASS_CHAR` token of `@mode ClassChar` (as repaired by D24: the fallback is `~[\\\n-]`):
```
CLASS_CHAR = '\\' [\\nrt\-] | '\\x' HEX HEX | '\\u' HEX×4 | '\\U' HEX×8 | ~[\\\n-]
```
The last alternative is one code point: 1–4 bytes none of which is `\`, newline or `-`. -/
inductive ClassChar : List Nat → Prop
  | simple (c : Nat) : c = 92 ∨ c = 110 ∨ c = 114 ∨ c = 116 ∨ c = 45 → ClassChar [92, c]
  | hex2 (ds : List Nat) : ds.length = 2 → (∀ d ∈ ds, isHex d = true) → ClassChar (92 :: 120 :: ds)
  | hex4 (ds : List Nat) : ds.length = 4 → (∀ d ∈ ds, isHex d = true) → ClassChar (92 :: 117 :: ds)
  | hex8 (ds : List Nat) : ds.length = 8 → (∀ d ∈ ds, isHex d = true) → ClassChar (92 :: 85 :: ds)
  | other (bs : List Nat) : bs ≠ [] → (∀ b ∈ bs, b ≠ 92 ∧ b ≠ 10 ∧ b ≠ 45) → ClassChar bs

/-- The `ClassChar` fallback as it was before the repair of D24: `~[\n-]` does not exclude the
backslash, so a `\` that starts no escape became a one-byte CLASS_CHAR. -/
def classCharPinnedWitness : List Nat := [92]

/-- Executable check of `WellEscaped` (used by the driver to label cases). -/
def wellEscapedB : List Nat → Bool
  | [] => true
  | b :: rest =>
    if b ≠ 92 then wellEscapedB rest
    else
      match rest with
      | [] => false
      | c :: r1 =>
        if (simpleEsc c).isSome then wellEscapedB r1
        else if c = 120 then
          match r1 with
          | d1 :: d2 :: r2 => isHex d1 && isHex d2 && wellEscapedB r2
          | _ => false
        else if c = 117 then
          match r1 with
          | d1 :: d2 :: d3 :: d4 :: r2 => isHex d1 && isHex d2 && isHex d3 && isHex d4 && wellEscapedB r2
          | _ => false
        else if c = 85 then
          match r1 with
          | d1 :: d2 :: d3 :: d4 :: d5 :: d6 :: d7 :: d8 :: r2 =>
            isHex d1 && isHex d2 && isHex d3 && isHex d4 && isHex d5 && isHex d6 && isHex d7 && isHex d8 &&
              wellEscapedB r2
          | _ => false
        else false

end Lox.Dec.FrontText
