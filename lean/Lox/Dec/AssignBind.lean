import Lox.Dec.AssignDerive
/-! Passes 4–6 of `AssignActions`: every rule typed, exactly one matching method per production,
no orphan method. -/
namespace Lox.Dec.Assign

/-! ## Pass 4 -/

theorem untypedDiag_eq_none {tm : TyMap} {ri : Rule × Nat} :
    untypedDiag tm ri = none ↔ (ri.1.gen ≠ .sprime → tm.get ri.2 ≠ none) := by
  unfold untypedDiag
  by_cases h : ri.1.gen = .sprime
  · simp [h]
  · cases hg : tm.get ri.2 <;> simp [h]

theorem untypedDiags_nil {c : Case} {tm : TyMap} :
    untypedDiags c tm = [] ↔
      ∀ (r : Nat) ru, c.rules[r]? = some ru → ru.gen ≠ .sprime → tm.get r ≠ none := by
  unfold untypedDiags
  rw [List.filterMap_eq_nil_iff]
  constructor
  · intro h r ru hr
    exact untypedDiag_eq_none.mp (h (ru, r) (List.mem_zipIdx_iff_getElem?.mpr hr))
  · intro h ri hri
    exact untypedDiag_eq_none.mpr (h ri.2 ri.1 (List.mem_zipIdx_iff_getElem?.mp hri))

theorem mem_untypedDiags {c : Case} {tm : TyMap} {d : Diag} (h : d ∈ untypedDiags c tm) :
    ∃ (r : Nat) (ru : Rule), d = ⟨.untyped, .rule r⟩ ∧ c.rules[r]? = some ru ∧ ru.gen ≠ .sprime ∧
      tm.get r = none := by
  unfold untypedDiags at h
  rw [List.mem_filterMap] at h
  obtain ⟨ri, hri, hd⟩ := h
  unfold untypedDiag at hd
  by_cases hs : ri.1.gen = .sprime
  · simp [hs] at hd
  · simp only [hs, ↓reduceIte] at hd
    cases hg : tm.get ri.2 with
    | some e => simp [hg] at hd
    | none =>
      simp only [hg, Option.isNone_none, ↓reduceIte, Option.some.injEq] at hd
      exact ⟨ri.2, ri.1, hd.symm, List.mem_zipIdx_iff_getElem?.mp hri, hs, hg⟩

/-! No `NewSlice(nil)` survives when every rule is typed. -/

theorem userTy_not_junk {c : Case} {ru : Rule} : userTy c ru ≠ some .junk := by
  unfold userTy
  cases actionsOf c ru.name <;> simp

/-- All rules other than `S'` have a type. -/
def AllTyped (c : Case) : Prop :=
  ∀ (r : Nat) ru, c.rules[r]? = some ru → ru.gen ≠ .sprime → specTyR c r ≠ none

theorem specElemR_simple_ty {c : Case} (at' : AllTyped c) {x : Term} (hx : Simple c x) :
    ∃ t, specElemR c x = some (.ty t) := by
  cases x with
  | tok => exact ⟨_, rfl⟩
  | err => exact ⟨_, rfl⟩
  | rule r =>
    simp only [Simple] at hx
    unfold genOf at hx
    cases hr : c.rules[r]? with
    | none => simp [hr] at hx
    | some ru =>
      have hg : ru.gen = .user := by simpa [hr] using hx
      rw [specElemR_user hr hg]
      have h1 := at' r ru hr (by rw [hg]; exact fun h => by cases h)
      rw [specTyR_user hr hg] at h1
      cases hu : userTy c ru with
      | none => exact absurd hu h1
      | some t =>
        cases t with
        | ty t => exact ⟨t, rfl⟩
        | junk => exact absurd hu userTy_not_junk

theorem specSliceR_ty {c : Case} (w : WF c) (at' : AllTyped c) {h : Nat}
    (hg : isSliceGen (genOf c h) = true) : ∃ t, specSliceR c h = some (.ty t) := by
  obtain ⟨p0, p1, x, hl, ht, hx⟩ := shape_slice w (isSliceGen_lt hg) hg
  obtain ⟨t, he⟩ := specElemR_simple_ty at' hx
  refine ⟨c.sliceOf t, ?_⟩
  unfold specSliceR; rw [hl]; simp only; rw [ht]; simp only; rw [he]; rfl

theorem specTyR_star {c : Case} (w : WF c) {r : Nat} {ru : Rule} (hr : c.rules[r]? = some ru)
    (hg : ru.gen = .zeroOrMore ∨ ru.gen = .zeroOrMoreF) :
    ∃ p0 p1 h, ruleProds c r = [p0, p1] ∧ termsOf c p0 = [.rule h] ∧ termsOf c p1 = [] ∧
      isSliceGen (genOf c h) = true ∧ specTyR c r = specSliceR c h := by
  have hrl : r < c.rules.length := (List.getElem?_eq_some_iff.mp hr).1
  have hgen := genOf_eq hr
  have hgen' : genOf c r = some .zeroOrMore ∨ genOf c r = some .zeroOrMoreF := by
    rcases hg with hg | hg <;> rw [hgen, hg] <;> simp
  obtain ⟨p0, p1, h, hl, h0, h1, hh⟩ := shape_star w hrl hgen'
  refine ⟨p0, p1, h, hl, h0, h1, hh, ?_⟩
  unfold specTyR; rw [hr]; simp only
  rcases hg with hg | hg <;> rw [hg] <;> simp only <;> rw [hl] <;> simp only <;> rw [h0] <;> simp [hh]

theorem no_junk {c : Case} (w : WF c) (at' : AllTyped c) (r : Nat) : specTyR c r ≠ some .junk := by
  cases hr : c.rules[r]? with
  | none => unfold specTyR; rw [hr]; simp
  | some ru =>
    have hrl : r < c.rules.length := (List.getElem?_eq_some_iff.mp hr).1
    have hgen := genOf_eq hr
    have slice_case : isSliceGen (genOf c r) = true → specTyR c r ≠ some .junk := by
      intro hsl
      obtain ⟨t, ht⟩ := specSliceR_ty w at' hsl
      rw [specTyR_slice hsl, ht]; simp
    have star_case : (ru.gen = .zeroOrMore ∨ ru.gen = .zeroOrMoreF) → specTyR c r ≠ some .junk := by
      intro hg
      obtain ⟨_, _, h, _, _, _, hh, he⟩ := specTyR_star w hr hg
      obtain ⟨t, ht⟩ := specSliceR_ty w at' hh
      rw [he, ht]; simp
    cases hg : ru.gen with
    | user => rw [specTyR_user hr hg]; exact userTy_not_junk
    | sprime => unfold specTyR; rw [hr]; simp [hg]
    | oneOrMore => exact slice_case (by rw [hgen, hg]; rfl)
    | oneOrMoreF => exact slice_case (by rw [hgen, hg]; rfl)
    | list => exact slice_case (by rw [hgen, hg]; rfl)
    | zeroOrMore => exact star_case (Or.inl hg)
    | zeroOrMoreF => exact star_case (Or.inr hg)
    | zeroOrOne =>
      rw [hg] at hgen
      obtain ⟨p0, p1, x, hl, h0, _, hx⟩ := shape_opt w hrl hgen
      rw [specTyR_opt hr hg hl h0]
      rcases hx with hx | ⟨h, rfl, hh⟩
      · obtain ⟨t, ht⟩ := specElemR_simple_ty at' hx
        cases x with
        | tok => simp [optSpecR, specElemR]
        | err => simp [optSpecR, specElemR]
        | rule h =>
          simp only [Simple] at hx
          simp only [optSpecR, hx]
          rw [ht]; simp
      · obtain ⟨t, ht⟩ := specSliceR_ty w at' (by rw [hh]; rfl)
        simp only [optSpecR, hh, ↓reduceIte]
        rw [ht]; simp

/-- Stripping the `junk` marker. -/
def stripR : Option RTy → Option Ty
  | some (.ty t) => some t
  | _ => none

theorem finalTypes_map : ∀ (tm : TyMap), (∀ e ∈ tm, e ≠ some .junk) →
    finalTypes tm = some (tm.map stripR)
  | [], _ => rfl
  | e :: l, h => by
    have ih := finalTypes_map l (fun e he => h e (List.mem_cons_of_mem _ he))
    have he := h e List.mem_cons_self
    unfold finalTypes
    rw [ih]
    cases e with
    | none => rfl
    | some t =>
      cases t with
      | ty t => rfl
      | junk => exact absurd rfl he

theorem tyGet_map_strip (tm : TyMap) (r : Nat) : tyGet (tm.map stripR) r = stripR (tm.get r) := by
  unfold tyGet TyMap.get
  rw [List.getElem?_map]
  cases tm[r]? with
  | none => rfl
  | some e => rfl

theorem specTy_eq_strip (c : Case) (r : Nat) : specTy c r = stripR (specTyR c r) := by
  unfold specTy stripR
  cases specTyR c r with
  | none => rfl
  | some t => cases t <;> rfl

theorem mem_of_get {tm : TyMap} {e : Option RTy} (he : e ∈ tm) : ∃ r, tm.get r = e := by
  obtain ⟨r, hr⟩ := List.getElem?_of_mem he
  exact ⟨r, by unfold TyMap.get; rw [hr]; rfl⟩

/-- After pass 4 the final `RuleGoTypes` is `specTy`. -/
theorem finalTypes_spec {c : Case} (w : WF c) (at' : AllTyped c) {tm : TyMap}
    (htm : ∀ r, tm.get r = specTyR c r) :
    ∃ ty, finalTypes tm = some ty ∧ ty.length = tm.length ∧ ∀ r, tyGet ty r = specTy c r := by
  refine ⟨tm.map stripR, finalTypes_map tm ?_, by simp, ?_⟩
  · intro e he
    obtain ⟨r, hr⟩ := mem_of_get he
    rw [← hr, htm r]; exact no_junk w at' r
  · intro r; rw [tyGet_map_strip, htm r, specTy_eq_strip]

/-! ## Pass 5 -/

theorem termTyF_spec {c : Case} {ty : List (Option Ty)} (hty : ∀ r, tyGet ty r = specTy c r)
    (t : Term) : termTyF c ty t = specTermTy c t := by
  cases t with
  | tok => rfl
  | err => rfl
  | rule r => exact hty r

theorem argsOK_iff {c : Case} {ty : List (Option Ty)} (hty : ∀ r, tyGet ty r = specTy c r) :
    ∀ (ts : List Term) (qs : List Ty), argsOK c ty ts qs = true ↔ Accepts c ts qs
  | [], [] => by simp [argsOK, Accepts]
  | [], _ :: _ => by simp [argsOK, Accepts]
  | _ :: _, [] => by simp [argsOK, Accepts]
  | t :: ts, q :: qs => by
    simp only [argsOK, Accepts, Bool.and_eq_true]
    rw [argsOK_iff hty ts qs, termTyF_spec hty t]
    cases specTermTy c t with
    | none => simp
    | some tt => simp

theorem mem_matchesOf {c : Case} {ty : List (Option Ty)} (hty : ∀ r, tyGet ty r = specTy c r)
    {p : Prod} {i : Nat} : i ∈ matchesOf c ty p ↔ Matches c p i := by
  unfold matchesOf Matches
  simp only [List.mem_map, List.mem_filter, mem_actionsOf, isMatch, argsOK_iff hty]
  constructor
  · rintro ⟨a, ⟨⟨ha, hr⟩, hacc⟩, rfl⟩
    obtain ⟨h1, h2, h3, h4⟩ := mem_actions.mp ha
    exact ⟨a.m, h1, by rw [h2, hr], h3, h4, hacc⟩
  · rintro ⟨m, h1, h2, h3, h4, hacc⟩
    exact ⟨⟨i, ruleName c p.rule, m⟩, ⟨⟨mem_actions.mpr ⟨h1, h2, h3, h4⟩, rfl⟩, hacc⟩, rfl⟩

theorem zipIdx_pairwise {α : Type} : ∀ (l : List α) (k : Nat),
    (l.zipIdx k).Pairwise (fun a b => a.2 ≠ b.2)
  | [], _ => List.Pairwise.nil
  | a :: l, k => by
    rw [List.zipIdx_cons]
    refine List.Pairwise.cons ?_ (zipIdx_pairwise l (k + 1))
    intro b hb
    have := List.le_snd_of_mem_zipIdx hb
    simp only; omega

theorem actions_pairwise (c : Case) : (actions c).Pairwise (fun a b => a.idx ≠ b.idx) := by
  unfold actions
  refine List.Pairwise.filterMap mkAction ?_ (zipIdx_pairwise c.methods 0)
  intro x y hxy a ha b hb
  rw [mkAction_eq_some] at ha hb
  rw [ha.2.2.2.1, hb.2.2.2.1]; exact hxy

theorem matchesOf_nodup (c : Case) (ty : List (Option Ty)) (p : Prod) : (matchesOf c ty p).Nodup := by
  unfold matchesOf actionsOf
  rw [List.nodup_iff_pairwise_ne, List.pairwise_map]
  exact ((actions_pairwise c).sublist
    ((List.filter_sublist).trans (List.filter_sublist)))

theorem singleton_of_unique {l : List Nat} (hn : l.Nodup) {i : Nat} (hi : i ∈ l)
    (hu : ∀ j ∈ l, j = i) : l = [i] := by
  match l, hn, hi, hu with
  | [a], _, hi, _ => simp at hi; rw [hi]
  | a :: b :: l, hn, _, hu =>
    have ha := hu a List.mem_cons_self
    have hb := hu b (List.mem_cons_of_mem _ List.mem_cons_self)
    rw [List.nodup_cons] at hn
    exact absurd (by rw [ha, hb]; exact List.mem_cons_self) hn.1

theorem matchDiag_eq_none {c : Case} {ty : List (Option Ty)} {pi : Prod × Nat} :
    matchDiag c ty pi = none ↔ (isUserProd c pi.1 = true → ∃ m, matchesOf c ty pi.1 = [m]) := by
  unfold matchDiag
  by_cases h : isUserProd c pi.1 = true
  · simp only [h, ↓reduceIte, true_implies]
    match hm : matchesOf c ty pi.1 with
    | [] => simp
    | [m] => simp
    | a :: b :: l => simp
  · simp [h]

theorem isUserProd_iff {c : Case} {p : Prod} : isUserProd c p = true ↔ UserProd c p := by
  unfold isUserProd UserProd; simp

theorem matchDiags_nil {c : Case} {ty : List (Option Ty)} :
    matchDiags c ty = [] ↔ ∀ p ∈ c.prods, UserProd c p → ∃ m, matchesOf c ty p = [m] := by
  unfold matchDiags
  rw [List.filterMap_eq_nil_iff]
  constructor
  · intro h p hp hu
    obtain ⟨i, hi⟩ := List.getElem?_of_mem hp
    exact matchDiag_eq_none.mp (h (p, i) (List.mem_zipIdx_iff_getElem?.mpr hi)) (isUserProd_iff.mpr hu)
  · intro h pi hpi
    refine matchDiag_eq_none.mpr (fun hu => ?_)
    exact h pi.1 (List.mem_of_getElem? (List.mem_zipIdx_iff_getElem?.mp hpi)) (isUserProd_iff.mp hu)

theorem mem_matchDiags {c : Case} {ty : List (Option Ty)} (hty : ∀ r, tyGet ty r = specTy c r)
    {d : Diag} (h : d ∈ matchDiags c ty) : Violates c d := by
  unfold matchDiags at h
  rw [List.mem_filterMap] at h
  obtain ⟨pi, hpi, hd⟩ := h
  have hp := List.mem_zipIdx_iff_getElem?.mp hpi
  unfold matchDiag at hd
  by_cases hu : isUserProd c pi.1 = true
  · simp only [hu, ↓reduceIte] at hd
    match hm : matchesOf c ty pi.1 with
    | [] =>
      rw [hm] at hd; simp only [Option.some.injEq] at hd; subst hd
      refine ⟨pi.1, hp, isUserProd_iff.mp hu, ?_⟩
      intro i hi
      have := (mem_matchesOf hty).mpr hi
      rw [hm] at this; cases this
    | [m] => rw [hm] at hd; simp at hd
    | a :: b :: l =>
      rw [hm] at hd; simp only [Option.some.injEq] at hd; subst hd
      have hn := matchesOf_nodup c ty pi.1
      rw [hm, List.nodup_cons] at hn
      refine ⟨pi.1, hp, isUserProd_iff.mp hu, a, b, ?_, ?_, ?_⟩
      · intro e; subst e; exact hn.1 List.mem_cons_self
      · exact (mem_matchesOf hty).mp (by rw [hm]; exact List.mem_cons_self)
      · exact (mem_matchesOf hty).mp (by rw [hm]; exact List.mem_cons_of_mem _ List.mem_cons_self)
  · simp [hu] at hd

/-! ## Pass 6 -/

theorem orphanDiag_eq_none {bound : List (Option Nat)} {a : Action} :
    orphanDiag bound a = none ↔ some a.idx ∈ bound := by
  unfold orphanDiag
  by_cases hb : some a.idx ∈ bound <;> simp [hb]

theorem orphanDiags_nil {c : Case} {bound : List (Option Nat)} :
    orphanDiags c bound = [] ↔ ∀ a ∈ actions c, some a.idx ∈ bound := by
  unfold orphanDiags
  rw [List.filterMap_eq_nil_iff]
  constructor
  · intro h a ha; exact orphanDiag_eq_none.mp (h a ha)
  · intro h a ha; exact orphanDiag_eq_none.mpr (h a ha)

theorem mem_orphanDiags {c : Case} {bound : List (Option Nat)} {d : Diag}
    (h : d ∈ orphanDiags c bound) :
    ∃ a ∈ actions c, d = ⟨.orphan, .method a.m.name⟩ ∧ some a.idx ∉ bound := by
  unfold orphanDiags at h
  rw [List.mem_filterMap] at h
  obtain ⟨a, ha, hd⟩ := h
  unfold orphanDiag at hd
  by_cases hb : some a.idx ∈ bound
  · simp [hb] at hd
  · simp only [List.contains_eq_mem, hb, decide_false, Bool.false_eq_true, ↓reduceIte,
      Option.some.injEq] at hd
    exact ⟨a, ha, hd.symm, hb⟩

theorem mem_bound {c : Case} {ty : List (Option Ty)} {i : Nat} :
    some i ∈ c.prods.map (bindProd c ty) ↔
      ∃ p ∈ c.prods, UserProd c p ∧ matchesOf c ty p = [i] := by
  simp only [List.mem_map]
  constructor
  · rintro ⟨p, hp, hb⟩
    unfold bindProd at hb
    by_cases hu : isUserProd c p = true
    · simp only [hu, ↓reduceIte] at hb
      match hm : matchesOf c ty p with
      | [] => rw [hm] at hb; cases hb
      | [m] =>
        rw [hm] at hb; simp only [Option.some.injEq] at hb
        exact ⟨p, hp, isUserProd_iff.mp hu, by rw [hm, hb]⟩
      | a :: b :: l => rw [hm] at hb; cases hb
    · simp [hu] at hb
  · rintro ⟨p, hp, hu, hm⟩
    refine ⟨p, hp, ?_⟩
    unfold bindProd
    simp [isUserProd_iff.mpr hu, hm]

/-! ## Inversion of `assign` -/

/-- The conjunction of "no diagnostic" over the six passes. -/
structure Clean (c : Case) (tm : TyMap) (ty : List (Option Ty)) : Prop where
  d1 : collectDiags c = []
  d2 : retDiags c = []
  d3 : derive c = .ok tm
  d4 : untypedDiags c tm = []
  fin : finalTypes tm = some ty
  d5 : matchDiags c ty = []
  d6 : orphanDiags c (c.prods.map (bindProd c ty)) = []

theorem assign_ok_inv {c : Case} {b : Binding} (h : assign c = .ok b) :
    ∃ tm ty, Clean c tm ty ∧ b = ⟨c.prods.map (bindProd c ty), ty, emitBounds c⟩ := by
  unfold assign at h
  simp only at h
  by_cases h1 : collectDiags c = []
  · simp only [h1, ne_eq, not_true_eq_false, ↓reduceIte] at h
    by_cases h2 : retDiags c = []
    · simp only [h2, not_true_eq_false, ↓reduceIte] at h
      cases h3 : derive c with
      | error e => rw [h3] at h; cases h
      | ok tm =>
        rw [h3] at h; simp only at h
        by_cases h4 : untypedDiags c tm = []
        · simp only [h4, not_true_eq_false, ↓reduceIte] at h
          cases hf : finalTypes tm with
          | none => rw [hf] at h; cases h
          | some ty =>
            rw [hf] at h; simp only at h
            by_cases h5 : matchDiags c ty = []
            · simp only [h5, not_true_eq_false, ↓reduceIte] at h
              by_cases h6 : orphanDiags c (c.prods.map (bindProd c ty)) = []
              · simp only [h6, not_true_eq_false, ↓reduceIte, Result.ok.injEq] at h
                exact ⟨tm, ty, ⟨h1, h2, h3, h4, hf, h5, h6⟩, h.symm⟩
              · simp [h6] at h
            · simp [h5] at h
        · simp [h4] at h
    · simp [h2] at h
  · simp [h1] at h

theorem assign_ok_of {c : Case} {tm : TyMap} {ty : List (Option Ty)} (k : Clean c tm ty) :
    assign c = .ok ⟨c.prods.map (bindProd c ty), ty, emitBounds c⟩ := by
  unfold assign
  simp [k.d1, k.d2, k.d3, k.d4, k.fin, k.d5, k.d6]

/-- A failing run reports the diagnostics of exactly one pass, the first that has any. -/
theorem assign_fail_inv {c : Case} {ds : List Diag} (h : assign c = .fail ds) :
    ds ≠ [] ∧
    (ds = collectDiags c ∨
     (collectDiags c = [] ∧ (ds = retDiags c ∨
      (retDiags c = [] ∧ ∃ tm, derive c = .ok tm ∧ (ds = untypedDiags c tm ∨
       (untypedDiags c tm = [] ∧ ∃ ty, finalTypes tm = some ty ∧ (ds = matchDiags c ty ∨
        (matchDiags c ty = [] ∧ ds = orphanDiags c (c.prods.map (bindProd c ty)))))))))) := by
  unfold assign at h
  simp only at h
  by_cases h1 : collectDiags c = []
  · simp only [h1, ne_eq, not_true_eq_false, ↓reduceIte] at h
    by_cases h2 : retDiags c = []
    · simp only [h2, not_true_eq_false, ↓reduceIte] at h
      cases h3 : derive c with
      | error e => rw [h3] at h; cases h
      | ok tm =>
        rw [h3] at h; simp only at h
        by_cases h4 : untypedDiags c tm = []
        · simp only [h4, not_true_eq_false, ↓reduceIte] at h
          cases hf : finalTypes tm with
          | none => rw [hf] at h; cases h
          | some ty =>
            rw [hf] at h; simp only at h
            by_cases h5 : matchDiags c ty = []
            · simp only [h5, not_true_eq_false, ↓reduceIte] at h
              by_cases h6 : orphanDiags c (c.prods.map (bindProd c ty)) = []
              · simp [h6] at h
              · simp only [h6, not_false_eq_true, ↓reduceIte, Result.fail.injEq] at h
                subst h
                exact ⟨h6, Or.inr ⟨h1, Or.inr ⟨h2, tm, rfl, Or.inr ⟨h4, ty, hf, Or.inr ⟨h5, rfl⟩⟩⟩⟩⟩
            · simp only [h5, not_false_eq_true, ↓reduceIte, Result.fail.injEq] at h
              subst h
              exact ⟨h5, Or.inr ⟨h1, Or.inr ⟨h2, tm, rfl, Or.inr ⟨h4, ty, hf, Or.inl rfl⟩⟩⟩⟩
        · simp only [h4, not_false_eq_true, ↓reduceIte, Result.fail.injEq] at h
          subst h
          exact ⟨h4, Or.inr ⟨h1, Or.inr ⟨h2, tm, rfl, Or.inl rfl⟩⟩⟩
    · simp only [h2, not_false_eq_true, ↓reduceIte, Result.fail.injEq] at h
      subst h
      exact ⟨h2, Or.inr ⟨h1, Or.inl rfl⟩⟩
  · simp only [ne_eq, h1, not_false_eq_true, ↓reduceIte, Result.fail.injEq] at h
    subst h
    exact ⟨h1, Or.inl rfl⟩

end Lox.Dec.Assign
