import Lox.Dec.ContainersHeap
import Lox.Dec.ContainersChain
/-! Refinement proofs for `stablemap.Map` (`Lox.Dec.Containers`): the representation relation
`Rep m l` and its preservation by every operation. Core Lean only; not linked into the driver. -/
set_option linter.unusedSectionVars false
namespace Lox.Dec.Containers

/-! ### Association lists -/

theorem lookup_eq_some_of_nodup {K β : Type} [DecidableEq K] {g : List (K × β)}
    (hn : (g.map (·.1)).Nodup) (k : K) (v : β) : g.lookup k = some v ↔ (k, v) ∈ g := by
  induction g with
  | nil => simp
  | cons e g ih =>
    obtain ⟨k', v'⟩ := e
    simp only [List.map_cons, List.nodup_cons, List.mem_map, not_exists, not_and] at hn
    rw [List.lookup_cons]
    by_cases hk : k = k'
    · subst hk
      simp only [beq_self_eq_true, Option.some.injEq, List.mem_cons, Prod.mk.injEq, true_and]
      constructor
      · intro h; exact Or.inl h.symm
      · rintro (h | h)
        · exact h.symm
        · exact absurd rfl (hn.1 _ h)
    · have : (k == k') = false := by simpa using hk
      simp only [this, List.mem_cons, Prod.mk.injEq, hk, false_and, false_or]
      exact ih hn.2

theorem lookup_eq_none_iff' {K β : Type} [DecidableEq K] {g : List (K × β)} (k : K) :
    g.lookup k = none ↔ ∀ e ∈ g, e.1 ≠ k := by
  rw [List.lookup_eq_none_iff]
  constructor
  · intro h e he hk
    have := h e he
    exact (bne_iff_ne.mp this) hk.symm
  · intro h e he
    exact bne_iff_ne.mpr (fun hk => h e he hk.symm)

theorem headD_reverse (l : List Nat) (a : Nat) : l.reverse.headD a = l.getLastD a := by
  rw [List.headD_eq_head?_getD, List.head?_reverse, List.getLastD_eq_getLast?]

theorem getLastD_reverse (l : List Nat) (a : Nat) : l.reverse.getLastD a = l.headD a := by
  rw [List.headD_eq_head?_getD, List.getLastD_eq_getLast?, List.getLast?_reverse]

section Map
variable {K V : Type} [DecidableEq K] [Inhabited K] [Inhabited V]

/-! ### The representation invariant -/

/-- The links of `m` form the ring `0 → cyc₀ → cyc₁ → … → 0` (`0` is the sentinel), `prev` is the
inverse of `next` along it, the ring's nodes are exactly the values of the Go map, each under its
own key, and the keys are distinct. -/
structure Ring (m : CMap K V) (cyc : List Nat) : Prop where
  list : m.list = some 0
  nodes : ∃ g, m.nodes = some g ∧ g.Perm (cyc.map fun i => (keyAt m.heap i, i))
  size : cyc.length < m.heap.size
  bound : ∀ i ∈ cyc, i < m.heap.size
  nodup : (0 :: cyc).Nodup
  fwd : Chain (nextAt m.heap) 0 cyc 0
  bwd : Chain (prevAt m.heap) 0 cyc.reverse 0
  keys : (cyc.map (keyAt m.heap)).Nodup

/-- `m` represents the abstract map `l`: the zero value represents `[]`; an initialised map
represents the entries read along its ring. -/
def Rep (m : CMap K V) (l : AMap K V) : Prop :=
  (m = CMap.zero ∧ l = []) ∨ ∃ cyc, Ring m cyc ∧ l = cyc.map (kvAt m.heap)

/-- The invariant of `stablemap.Map`. -/
def Inv (m : CMap K V) : Prop := ∃ l, Rep m l

theorem Ring.pos {m : CMap K V} {cyc : List Nat} (hr : Ring m cyc) : 0 < m.heap.size :=
  Nat.lt_of_le_of_lt (Nat.zero_le _) hr.size

theorem Ring.bound' {m : CMap K V} {cyc : List Nat} (hr : Ring m cyc) :
    ∀ i ∈ 0 :: cyc, i < m.heap.size := by
  intro i hi
  rcases List.mem_cons.mp hi with rfl | hi
  · exact hr.pos
  · exact hr.bound i hi

theorem Ring.keys_g {m : CMap K V} {cyc : List Nat} (hr : Ring m cyc) {g : List (K × Nat)}
    (hp : g.Perm (cyc.map fun i => (keyAt m.heap i, i))) : (g.map (·.1)).Nodup := by
  have := hp.map (·.1)
  rw [List.map_map] at this
  exact (this.nodup_iff).mpr hr.keys

theorem Ring.lookup_some {m : CMap K V} {cyc : List Nat} (hr : Ring m cyc) (k : K) (n : Nat) :
    goLookup m.nodes k = some n ↔ n ∈ cyc ∧ keyAt m.heap n = k := by
  obtain ⟨g, hg, hp⟩ := hr.nodes
  simp only [goLookup, hg]
  rw [lookup_eq_some_of_nodup (hr.keys_g hp), hp.mem_iff]
  simp only [List.mem_map, Prod.mk.injEq]
  constructor
  · rintro ⟨i, hi, h1, h2⟩
    subst h2
    exact ⟨hi, h1⟩
  · rintro ⟨h1, h2⟩
    exact ⟨n, h1, h2, rfl⟩

theorem Ring.lookup_none {m : CMap K V} {cyc : List Nat} (hr : Ring m cyc) (k : K) :
    goLookup m.nodes k = none ↔ ∀ i ∈ cyc, keyAt m.heap i ≠ k := by
  obtain ⟨g, hg, hp⟩ := hr.nodes
  simp only [goLookup, hg]
  rw [lookup_eq_none_iff']
  constructor
  · intro h i hi
    exact h (keyAt m.heap i, i) (hp.mem_iff.mpr (List.mem_map.mpr ⟨i, hi, rfl⟩))
  · intro h e he
    obtain ⟨i, hi, rfl⟩ := List.mem_map.mp (hp.mem_iff.mp he)
    exact h i hi

/-- Two ring nodes with the same key are the same node. -/
theorem Ring.key_inj {m : CMap K V} {cyc : List Nat} (hr : Ring m cyc) {i j : Nat}
    (hi : i ∈ cyc) (hj : j ∈ cyc) (h : keyAt m.heap i = keyAt m.heap j) : i = j := by
  have h1 := (hr.lookup_some (keyAt m.heap i) i).mpr ⟨hi, rfl⟩
  have h2 := (hr.lookup_some (keyAt m.heap i) j).mpr ⟨hj, h.symm⟩
  rw [h1] at h2
  exact Option.some.inj h2

/-- Changes of the store that do not touch the ring's links and keys keep the ring. -/
theorem Ring.congr {m m' : CMap K V} {cyc : List Nat} (hr : Ring m cyc) (hl : m'.list = m.list)
    (hnodes : m'.nodes = m.nodes) (hs : m.heap.size ≤ m'.heap.size)
    (hn : ∀ j ∈ 0 :: cyc, nextAt m'.heap j = nextAt m.heap j)
    (hp : ∀ j ∈ 0 :: cyc, prevAt m'.heap j = prevAt m.heap j)
    (hk : ∀ j ∈ cyc, keyAt m'.heap j = keyAt m.heap j) : Ring m' cyc := by
  have hmap : (cyc.map fun i => (keyAt m'.heap i, i)) = cyc.map fun i => (keyAt m.heap i, i) :=
    List.map_congr_left fun i hi => by rw [hk i hi]
  have hmap' : cyc.map (keyAt m'.heap) = cyc.map (keyAt m.heap) := List.map_congr_left hk
  refine ⟨hl.trans hr.list, ?_, Nat.lt_of_lt_of_le hr.size hs,
    fun i hi => Nat.lt_of_lt_of_le (hr.bound i hi) hs, hr.nodup, ?_, ?_, ?_⟩
  · rw [hnodes, hmap]; exact hr.nodes
  · rw [chain_congr hn]; exact hr.fwd
  · rw [chain_congr (fun i hi => hp i (by simpa using hi))]; exact hr.bwd
  · rw [hmap']; exact hr.keys

/-- Appending a fresh node `n` (key `k`, not yet present) behind the last node. -/
theorem Ring.insert {m m' : CMap K V} {cyc : List Nat} (hr : Ring m cyc) {n : Nat} {k : K}
    {g : List (K × Nat)} (hg : m.nodes = some g)
    (hnew : n ∉ 0 :: cyc) (hnb : n < m.heap.size) (hlen : cyc.length + 1 < m.heap.size)
    (hkn : keyAt m.heap n = k) (hk : ∀ i ∈ cyc, keyAt m.heap i ≠ k)
    (hl : m'.list = m.list)
    (hnodes : m'.nodes = some ((k, n) :: g.filter (fun e => decide (e.1 ≠ k))))
    (hs : m'.heap.size = m.heap.size)
    (hn : ∀ j, nextAt m'.heap j = if j = cyc.getLastD 0 then some n else if j = n then some 0
      else nextAt m.heap j)
    (hp : ∀ j, prevAt m'.heap j = if j = 0 then some n else if j = n then some (cyc.getLastD 0)
      else prevAt m.heap j)
    (hkey : ∀ j, keyAt m'.heap j = keyAt m.heap j) : Ring m' (cyc ++ [n]) := by
  have hlast : cyc.getLastD 0 ∈ 0 :: cyc := getLastD_mem cyc 0
  have hn_last : n ≠ cyc.getLastD 0 := fun e => hnew (e ▸ hlast)
  have hn0 : n ≠ 0 := fun e => hnew (by simp [e])
  obtain ⟨g', hg', hperm⟩ := hr.nodes
  rw [hg] at hg'
  cases hg'
  refine ⟨hl.trans hr.list, ⟨_, hnodes, ?_⟩, by simp [hs]; omega, ?_, ?_, ?_, ?_, ?_⟩
  · have hf : g.filter (fun e => decide (e.1 ≠ k)) = g := by
      rw [List.filter_eq_self]
      intro e he
      obtain ⟨i, hi, rfl⟩ := List.mem_map.mp (hperm.mem_iff.mp he)
      simpa using hk i hi
    rw [hf, List.map_append, List.map_cons, List.map_nil, hkey n, hkn]
    refine List.Perm.trans ?_ (List.perm_append_singleton _ _).symm
    refine List.Perm.cons _ ?_
    have : (cyc.map fun i => (keyAt m'.heap i, i)) = cyc.map fun i => (keyAt m.heap i, i) :=
      List.map_congr_left fun i _ => by rw [hkey i]
    rw [this]; exact hperm
  · intro i hi
    rw [hs]
    rcases List.mem_append.mp hi with hi | hi
    · exact hr.bound i hi
    · simp only [List.mem_singleton] at hi; subst hi; exact hnb
  · have h0 := hr.nodup
    rw [List.nodup_cons] at h0 ⊢
    refine ⟨?_, ?_⟩
    · simp only [List.mem_append, List.mem_singleton, not_or]
      exact ⟨h0.1, fun e => hn0 e.symm⟩
    · rw [List.nodup_append]
      refine ⟨h0.2, by simp, ?_⟩
      intro a ha b hb
      simp only [List.mem_singleton] at hb
      subst hb
      rintro rfl
      exact hnew (List.mem_cons_of_mem _ ha)
  · have hc : Chain (nextAt m.heap) 0 (cyc ++ []) 0 := by simpa using hr.fwd
    refine chain_insert hc (by simpa using hr.nodup) (by simpa using hnew) rfl ?_ ?_ ?_
    · rw [hn]; simp
    · rw [hn, if_neg hn_last, if_pos rfl, chain_last hr.fwd]
    · intro i h1 h2; rw [hn, if_neg h1, if_neg h2]
  · have hc : Chain (prevAt m.heap) 0 ([] ++ cyc.reverse) 0 := by simpa using hr.bwd
    have hnd : (0 :: ([] ++ cyc.reverse)).Nodup := by
      have := hr.nodup
      simp only [List.nodup_cons, List.nil_append, List.mem_reverse] at this ⊢
      exact ⟨this.1, (List.reverse_perm cyc).nodup_iff.mpr this.2⟩
    have := chain_insert (f' := prevAt m'.heap) (n := n) (p := 0) hc hnd
      (by simpa using hnew) rfl (by rw [hp]; simp) ?_ ?_
    · simpa using this
    · rw [hp, if_neg hn0, if_pos rfl, chain_head hr.bwd, headD_reverse]
    · intro i h1 h2; rw [hp, if_neg h1, if_neg h2]
  · rw [List.map_append, List.map_cons, List.map_nil, hkey n, hkn]
    have hmap' : cyc.map (keyAt m'.heap) = cyc.map (keyAt m.heap) :=
      List.map_congr_left fun i _ => hkey i
    rw [hmap', List.nodup_append]
    refine ⟨hr.keys, by simp, ?_⟩
    intro a ha b hb
    simp only [List.mem_singleton] at hb
    subst hb
    obtain ⟨i, hi, rfl⟩ := List.mem_map.mp ha
    exact hk i hi

/-- Ring nodes other than `n` carry a key different from `n`'s. -/
theorem Ring.filter_key {m : CMap K V} {l₁ l₂ : List Nat} {n : Nat}
    (hr : Ring m (l₁ ++ n :: l₂)) :
    (l₁ ++ n :: l₂).filter (fun i => decide (keyAt m.heap i ≠ keyAt m.heap n)) = l₁ ++ l₂ := by
  have hnd := (List.nodup_cons.mp hr.nodup).2
  have hmem : n ∈ l₁ ++ n :: l₂ := by simp
  rw [List.nodup_append] at hnd
  obtain ⟨_, h2, h3⟩ := hnd
  rw [List.filter_append, List.filter_cons_of_neg (by simp)]
  congr 1
  · rw [List.filter_eq_self]
    intro i hi
    simp only [ne_eq, decide_eq_true_eq]
    intro hk
    have := hr.key_inj (List.mem_append_left _ hi) hmem hk
    exact h3 i hi n (by simp) this
  · rw [List.filter_eq_self]
    intro i hi
    simp only [ne_eq, decide_eq_true_eq]
    intro hk
    have := hr.key_inj (List.mem_append_right _ (List.mem_cons_of_mem _ hi)) hmem hk
    subst this
    exact (List.nodup_cons.mp h2).1 hi

/-- Unlinking the ring node `n`. -/
theorem Ring.remove {m m' : CMap K V} {l₁ l₂ : List Nat} {n : Nat}
    (hr : Ring m (l₁ ++ n :: l₂)) {g : List (K × Nat)} (hg : m.nodes = some g)
    (hl : m'.list = m.list)
    (hnodes : m'.nodes = some (g.filter (fun e => decide (e.1 ≠ keyAt m.heap n))))
    (hs : m'.heap.size = m.heap.size)
    (hn : ∀ j, nextAt m'.heap j = if j = n then none else if j = l₁.getLastD 0 then
      some (l₂.headD 0) else nextAt m.heap j)
    (hp : ∀ j, prevAt m'.heap j = if j = n then none else if j = l₂.headD 0 then
      some (l₁.getLastD 0) else prevAt m.heap j)
    (hkey : ∀ j, keyAt m'.heap j = keyAt m.heap j) : Ring m' (l₁ ++ l₂) := by
  have hsub : (l₁ ++ l₂).Sublist (l₁ ++ n :: l₂) :=
    (List.sublist_cons_self n l₂).append_left l₁
  have hnd := hr.nodup
  have hn1 : n ∉ 0 :: l₁ := by
    intro hmem
    rw [List.nodup_cons] at hnd
    rcases List.mem_cons.mp hmem with h | h
    · exact hnd.1 (h ▸ by simp)
    · exact (List.nodup_append.mp hnd.2).2.2 n h n (by simp) rfl
  have hn2 : n ∉ l₂ ++ [0] := by
    intro hmem
    rw [List.nodup_cons] at hnd
    rcases List.mem_append.mp hmem with h | h
    · exact (List.nodup_cons.mp (List.nodup_append.mp hnd.2).2.1).1 h
    · simp only [List.mem_singleton] at h
      exact hnd.1 (h ▸ by simp)
  have hpn : l₁.getLastD 0 ≠ n := fun e => hn1 (e ▸ getLastD_mem l₁ 0)
  have hqn : l₂.headD 0 ≠ n := by
    intro e
    apply hn2
    rw [← e]
    cases l₂ <;> simp
  obtain ⟨g', hg', hperm⟩ := hr.nodes
  rw [hg] at hg'
  cases hg'
  have hsplit := (chain_append _ _ _ _ _ _).mp hr.fwd
  have hbwd : Chain (prevAt m.heap) 0 (l₂.reverse ++ n :: l₁.reverse) 0 := by
    simpa using hr.bwd
  have hsplit' := (chain_append _ _ _ _ _ _).mp hbwd
  refine ⟨hl.trans hr.list, ⟨_, hnodes, ?_⟩, ?_, ?_, hr.nodup.sublist (hsub.cons_cons 0),
    ?_, ?_, ?_⟩
  · have h1 := hperm.filter (fun e => decide (e.1 ≠ keyAt m.heap n))
    rw [List.filter_map] at h1
    have h2 : ((fun e : K × Nat => decide (e.1 ≠ keyAt m.heap n)) ∘
        fun i => (keyAt m.heap i, i)) = fun i => decide (keyAt m.heap i ≠ keyAt m.heap n) := rfl
    rw [h2, hr.filter_key] at h1
    have : ((l₁ ++ l₂).map fun i => (keyAt m'.heap i, i)) =
        (l₁ ++ l₂).map fun i => (keyAt m.heap i, i) :=
      List.map_congr_left fun i _ => by rw [hkey i]
    rw [this]; exact h1
  · have := hr.size
    simp only [List.length_append, List.length_cons] at this ⊢
    omega
  · intro i hi
    rw [hs]
    exact hr.bound i (hsub.subset hi)
  · refine chain_remove hr.fwd hr.nodup rfl ?_ ?_
    · rw [hn, if_neg hpn, if_pos rfl, chain_head hsplit.2]
    · intro i h1 h2; rw [hn, if_neg h2, if_neg h1]
  · have hnd' : (0 :: (l₂.reverse ++ n :: l₁.reverse)).Nodup := by
      have e : l₂.reverse ++ n :: l₁.reverse = (l₁ ++ n :: l₂).reverse := by simp
      rw [e]
      rw [List.nodup_cons] at hnd ⊢
      exact ⟨fun h => hnd.1 (List.mem_reverse.mp h), (List.reverse_perm _).nodup_iff.mpr hnd.2⟩
    have := chain_remove (f' := prevAt m'.heap) hbwd hnd' rfl ?_ ?_
    · simpa using this
    · rw [getLastD_reverse, hp, if_neg hqn, if_pos rfl, chain_head hsplit'.2, headD_reverse]
    · intro i h1 h2
      rw [getLastD_reverse] at h1
      rw [hp, if_neg h2, if_neg h1]
  · have hmap' : (l₁ ++ l₂).map (keyAt m'.heap) = (l₁ ++ l₂).map (keyAt m.heap) :=
      List.map_congr_left fun i _ => hkey i
    rw [hmap']
    exact hr.keys.sublist (hsub.map _)

/-! ### Traversal -/

theorem walk_chain (h : Heap K V) (stop x : Nat) (l : List Nat) (fuel : Nat)
    (hc : Chain (nextAt h) x l stop) (hb : ∀ i ∈ x :: l, i < h.size ∧ i ≠ stop)
    (hf : l.length + 1 < fuel) :
    walk h (some stop) fuel (some x) = .ok ((x :: l).map (kvAt h)) := by
  induction l generalizing x fuel with
  | nil =>
    obtain ⟨f, rfl⟩ : ∃ f, fuel = f + 2 := ⟨fuel - 2, by simp at hf; omega⟩
    have hx := hb x (by simp)
    have hne : (some x : Ptr) ≠ some stop := fun e => hx.2 (Option.some.inj e)
    simp only [Chain, nextAt] at hc
    simp [walk, hne, load_some h x hx.1, hc, kvAt, keyAt, valAt]
  | cons y l ih =>
    obtain ⟨f, rfl⟩ : ∃ f, fuel = f + 1 := ⟨fuel - 1, by omega⟩
    have hx := hb x (by simp)
    have hne : (some x : Ptr) ≠ some stop := fun e => hx.2 (Option.some.inj e)
    simp only [Chain, nextAt] at hc
    have := ih y f hc.2 (fun i hi => hb i (List.mem_cons_of_mem _ hi))
      (by simp only [List.length_cons] at hf; omega)
    simp only [walk, hne, if_false, load_some h x hx.1, ok_bind, hc.1, this]
    simp [kvAt, keyAt, valAt]

theorem Ring.forEach {m : CMap K V} {cyc : List Nat} (hr : Ring m cyc) :
    forEach m = .ok (cyc.map (kvAt m.heap)) := by
  have h0 := chain_head hr.fwd
  simp only [nextAt] at h0
  simp only [Containers.forEach, hr.list, load_some m.heap 0 hr.pos, ok_bind, h0]
  cases cyc with
  | nil => simp [walk]
  | cons x l =>
    simp only [List.headD_cons]
    refine walk_chain m.heap 0 x l _ hr.fwd.2 ?_ ?_
    · intro i hi
      refine ⟨hr.bound i hi, ?_⟩
      rintro rfl
      exact (List.nodup_cons.mp hr.nodup).1 hi
    · have := hr.size
      simp only [List.length_cons] at this
      omega

theorem Rep.forEach {m : CMap K V} {l : AMap K V} (h : Rep m l) : forEach m = .ok l := by
  rcases h with ⟨rfl, rfl⟩ | ⟨cyc, hr, rfl⟩
  · rfl
  · exact hr.forEach

/-- `abs` is defined on every state satisfying the invariant and returns the represented map. -/
theorem Rep.abs {m : CMap K V} {l : AMap K V} (h : Rep m l) : abs m = .ok l := h.forEach

theorem Rep.unique {m : CMap K V} {l l' : AMap K V} (h : Rep m l) (h' : Rep m l') : l = l' := by
  have := h.forEach
  rw [h'.forEach] at this
  exact (Except.ok.inj this).symm

theorem rep_zero : Rep (CMap.zero : CMap K V) [] := Or.inl ⟨rfl, rfl⟩

/-! ### `initMap` -/

theorem initMap_zero :
    ∃ m₀ : CMap K V, initMap (CMap.zero : CMap K V) = .ok m₀ ∧ Ring m₀ [] := by
  obtain ⟨ha1, ha2, ha3, ha4, ha5, ha6⟩ := alloc_spec (#[] : Heap K V) default
  obtain ⟨h', he, hs, hn, hp, hk, hv⟩ := initList_spec (alloc (#[] : Heap K V) default).2 0
    (by rw [ha2]; exact Nat.zero_lt_one)
  refine ⟨{ nodes := some [], list := some 0, heap := h' }, ?_, ?_⟩
  · have e : alloc (#[] : Heap K V) default = (0, (alloc (#[] : Heap K V) default).2) := rfl
    simp only [initMap, CMap.zero]
    rw [e]
    simp only [he, ok_bind, pure_eq_ok]
  · refine ⟨rfl, ⟨[], rfl, List.Perm.nil⟩, ?_, by simp, by simp, ?_, ?_, by simp⟩
    · simp only [List.length_nil, hs, ha2]; omega
    · simp only [Chain, hn]; simp
    · simp only [List.reverse_nil, Chain, hp]; simp

theorem Rep.initMap {m : CMap K V} {l : AMap K V} (h : Rep m l) :
    ∃ m₀ cyc, initMap m = .ok m₀ ∧ Ring m₀ cyc ∧ l = cyc.map (kvAt m₀.heap) := by
  rcases h with ⟨rfl, rfl⟩ | ⟨cyc, hr, rfl⟩
  · obtain ⟨m₀, h1, h2⟩ := initMap_zero (K := K) (V := V)
    exact ⟨m₀, [], h1, h2, rfl⟩
  · obtain ⟨g, hg, _⟩ := hr.nodes
    exact ⟨m, cyc, by simp [Containers.initMap, hg], hr, rfl⟩

end Map
end Lox.Dec.Containers
