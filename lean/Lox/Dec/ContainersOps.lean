import Lox.Dec.ContainersProofs
/-! Every operation of `stablemap.Map` preserves `Rep` and returns what the specification returns;
lifted to operation sequences (`run`, `runSched`). Core Lean only; not linked into the driver. -/
set_option linter.unusedSectionVars false
namespace Lox.Dec.Containers

section Map
variable {K V : Type} [DecidableEq K] [Inhabited K] [Inhabited V]

/-! ### Observers -/

theorem Rep.len {m : CMap K V} {l : AMap K V} (h : Rep m l) : len m = l.length := by
  rcases h with ⟨rfl, rfl⟩ | ⟨cyc, hr, rfl⟩
  · rfl
  · obtain ⟨g, hg, hp⟩ := hr.nodes
    simp [Containers.len, hg, goLen, hp.length_eq]

theorem Ring.any_key {m : CMap K V} {cyc : List Nat} (hr : Ring m cyc) (k : K) :
    (cyc.map (kvAt m.heap)).any (fun e => decide (e.1 = k)) = (goLookup m.nodes k).isSome := by
  cases hlk : goLookup m.nodes k with
  | some n =>
    obtain ⟨h1, h2⟩ := (hr.lookup_some k n).mp hlk
    simp only [Option.isSome_some, List.any_eq_true, List.mem_map]
    exact ⟨_, ⟨n, h1, rfl⟩, decide_eq_true h2⟩
  | none =>
    have h1 := (hr.lookup_none k).mp hlk
    simp only [Option.isSome_none, List.any_eq_false, List.mem_map]
    rintro e ⟨i, hi, rfl⟩
    exact fun hd => h1 i hi (of_decide_eq_true hd)

theorem Rep.has {m : CMap K V} {l : AMap K V} (h : Rep m l) (k : K) :
    has m k = l.any (fun e => decide (e.1 = k)) := by
  rcases h with ⟨rfl, rfl⟩ | ⟨cyc, hr, rfl⟩
  · rfl
  · obtain ⟨g, hg, hp⟩ := hr.nodes
    rw [hr.any_key]
    simp [Containers.has, hg]

theorem Ring.map_fst {m : CMap K V} (cyc : List Nat) :
    (cyc.map (kvAt m.heap)).map (·.1) = cyc.map (keyAt m.heap) := by
  rw [List.map_map]; rfl

theorem Rep.get {m : CMap K V} {l : AMap K V} (h : Rep m l) (k : K) :
    get m k = .ok (aGet l k) := by
  rcases h with ⟨rfl, rfl⟩ | ⟨cyc, hr, rfl⟩
  · rfl
  · obtain ⟨g, hg, hp⟩ := hr.nodes
    have hnd : ((cyc.map (kvAt m.heap)).map (·.1)).Nodup := by
      rw [Ring.map_fst]; exact hr.keys
    simp only [Containers.get, hg]
    rw [← hg]
    cases hlk : goLookup m.nodes k with
    | some n =>
      obtain ⟨h1, h2⟩ := (hr.lookup_some k n).mp hlk
      have : (cyc.map (kvAt m.heap)).lookup k = some (valAt m.heap n) := by
        rw [lookup_eq_some_of_nodup hnd]
        exact List.mem_map.mpr ⟨n, h1, by simp [kvAt, h2]⟩
      simp [load_some m.heap n (hr.bound n h1), aGet, this, valAt]
    | none =>
      have h1 := (hr.lookup_none k).mp hlk
      have : (cyc.map (kvAt m.heap)).lookup k = none := by
        rw [lookup_eq_none_iff']
        intro e he
        obtain ⟨i, hi, rfl⟩ := List.mem_map.mp he
        exact h1 i hi
      simp [aGet, this]

theorem Rep.keys_nodup {m : CMap K V} {l : AMap K V} (h : Rep m l) : (l.map (·.1)).Nodup := by
  rcases h with ⟨rfl, rfl⟩ | ⟨cyc, hr, rfl⟩
  · simp
  · rw [Ring.map_fst]; exact hr.keys

/-! ### `Clear` -/

theorem Rep.clear {m : CMap K V} {l : AMap K V} (h : Rep m l) :
    ∃ m', clear m = .ok m' ∧ Rep m' [] := by
  rcases h with ⟨rfl, rfl⟩ | ⟨cyc, hr, rfl⟩
  · exact ⟨CMap.zero, rfl, rep_zero⟩
  · obtain ⟨g, hg, hp⟩ := hr.nodes
    obtain ⟨h', he, hs, hn, hpv, hk, hv⟩ := initList_spec m.heap 0 hr.pos
    refine ⟨{ nodes := some [], list := some 0, heap := h' }, ?_, Or.inr ⟨[], ?_, rfl⟩⟩
    · simp [Containers.clear, hg, hr.list, he, goClear]
    · refine ⟨rfl, ⟨[], rfl, List.Perm.nil⟩, ?_, by simp, by simp, ?_, ?_, by simp⟩
      · simp only [List.length_nil, hs]; exact hr.pos
      · simp only [Chain, hn]; simp
      · simp only [List.reverse_nil, Chain, hpv]; simp

/-! ### `Remove` -/

theorem Rep.remove {m : CMap K V} {l : AMap K V} (h : Rep m l) (k : K) :
    ∃ m', remove m k = .ok m' ∧ Rep m' (aRemove l k) := by
  rcases h with ⟨rfl, rfl⟩ | ⟨cyc, hr, rfl⟩
  · exact ⟨CMap.zero, rfl, rep_zero⟩
  · obtain ⟨g, hg, hp⟩ := hr.nodes
    cases hlk : goLookup m.nodes k with
    | none =>
      have h1 := (hr.lookup_none k).mp hlk
      refine ⟨m, ?_, Or.inr ⟨cyc, hr, ?_⟩⟩
      · simp only [Containers.remove, hg]
        rw [← hg, hlk]
      · simp only [aRemove]
        rw [List.filter_eq_self.mpr]
        intro e he
        obtain ⟨i, hi, rfl⟩ := List.mem_map.mp he
        exact decide_eq_true (h1 i hi)
    | some n =>
      obtain ⟨h1, h2⟩ := (hr.lookup_some k n).mp hlk
      obtain ⟨l₁, l₂, rfl⟩ := List.append_of_mem h1
      have hsplit := (chain_append _ _ _ _ _ _).mp hr.fwd
      have hbwd : Chain (prevAt m.heap) 0 (l₂.reverse ++ n :: l₁.reverse) 0 := by
        simpa using hr.bwd
      have hsplit' := (chain_append _ _ _ _ _ _).mp hbwd
      have hnext : nextAt m.heap n = some (l₂.headD 0) := chain_head hsplit.2
      have hprev : prevAt m.heap n = some (l₁.getLastD 0) := by
        rw [chain_head hsplit'.2, headD_reverse]
      have hpm : l₁.getLastD 0 ∈ 0 :: (l₁ ++ n :: l₂) := by
        have := getLastD_mem l₁ 0
        simp only [List.mem_cons, List.mem_append] at this ⊢
        rcases this with h | h
        · exact Or.inl h
        · exact Or.inr (Or.inl h)
      have hqm : l₂.headD 0 ∈ 0 :: (l₁ ++ n :: l₂) := by
        cases l₂ <;> simp
      have hnd := hr.nodup
      have hn1 : n ∉ 0 :: l₁ := by
        intro hmem
        rw [List.nodup_cons] at hnd
        rcases List.mem_cons.mp hmem with h | h
        · exact hnd.1 (h ▸ by simp)
        · exact (List.nodup_append.mp hnd.2).2.2 n h n (by simp) rfl
      have hpn : l₁.getLastD 0 ≠ n := fun e => hn1 (e ▸ getLastD_mem l₁ 0)
      have hqn : l₂.headD 0 ≠ n := by
        intro e
        rw [List.nodup_cons] at hnd
        cases l₂ with
        | nil => exact hnd.1 (by simp at e; simp [e])
        | cons y r =>
          simp only [List.headD_cons] at e
          subst e
          have := (List.nodup_cons.mp (List.nodup_append.mp hnd.2).2.1).1
          exact this (by simp)
      obtain ⟨h', he, hs, hn, hpv, hk, hv⟩ := removeNode_spec m.heap n _ _ (hr.bound n h1)
        (hr.bound' _ hpm) (hr.bound' _ hqm) hpn hqn hprev hnext
      refine ⟨{ nodes := goDelete m.nodes k, list := m.list, heap := h' }, ?_, Or.inr ⟨l₁ ++ l₂, ?_, ?_⟩⟩
      · simp only [Containers.remove, hg]
        rw [← hg, hlk]
        simp only [he, ok_bind, pure_eq_ok]
      · refine hr.remove hg rfl ?_ hs hn hpv hk
        simp [goDelete, hg, h2]
      · simp only [aRemove]
        rw [List.filter_map]
        have h3 : ((fun e : K × V => decide (e.1 ≠ k)) ∘ kvAt m.heap) =
            fun i => decide (keyAt m.heap i ≠ keyAt m.heap n) := by
          subst h2; rfl
        rw [h3, hr.filter_key]
        exact List.map_congr_left fun i _ => by simp [kvAt, hk i, hv i]

/-! ### `Put` -/

theorem Rep.put {m : CMap K V} {l : AMap K V} (h : Rep m l) (k : K) (v : V) :
    ∃ m', put m k v = .ok m' ∧ Rep m' (aPut l k v) := by
  obtain ⟨m₀, cyc, hinit, hr, rfl⟩ := h.initMap
  obtain ⟨g, hg, hp⟩ := hr.nodes
  cases hlk : goLookup m₀.nodes k with
  | some n =>
    obtain ⟨h1, h2⟩ := (hr.lookup_some k n).mp hlk
    obtain ⟨h', he, hs, hn, hpv, hk, hv⟩ := store_value_spec m₀.heap n v (hr.bound n h1)
    refine ⟨{ m₀ with heap := h' }, ?_, Or.inr ⟨cyc, ?_, ?_⟩⟩
    · simp only [Containers.put, hinit, ok_bind, hlk, he, pure_eq_ok]
    · exact hr.congr rfl rfl (Nat.le_of_eq hs.symm) (fun j _ => hn j) (fun j _ => hpv j)
        (fun j _ => hk j)
    · have hany : (cyc.map (kvAt m₀.heap)).any (fun e => decide (e.1 = k)) = true := by
        rw [hr.any_key, hlk]; rfl
      simp only [aPut, hany, if_true, List.map_map]
      apply List.map_congr_left
      intro i hi
      simp only [Function.comp, kvAt, hk i, hv i]
      by_cases hin : i = n
      · subst hin; simp [h2]
      · have : keyAt m₀.heap i ≠ k := fun e => hin (hr.key_inj hi h1 (e.trans h2.symm))
        simp [hin, this]
  | none =>
    have h1 := (hr.lookup_none k).mp hlk
    obtain ⟨ha1, ha2, ha3, ha4, ha5, ha6⟩ := alloc_spec m₀.heap k
    have ealloc : alloc m₀.heap k = (m₀.heap.size, (alloc m₀.heap k).2) := rfl
    generalize (alloc m₀.heap k).2 = h₁ at ha2 ha3 ha4 ha5 ha6 ealloc
    have hlt : ∀ j ∈ 0 :: cyc, j ≠ m₀.heap.size := fun j hj => Nat.ne_of_lt (hr.bound' j hj)
    have hr1 : Ring ({ m₀ with heap := h₁ } : CMap K V) cyc :=
      hr.congr rfl rfl (by simp only [ha2]; omega)
        (fun j hj => by simp only [ha3, if_neg (hlt j hj)])
        (fun j hj => by simp only [ha4, if_neg (hlt j hj)])
        (fun j hj => by simp only [ha5, if_neg (hlt j (List.mem_cons_of_mem _ hj))])
    have hlast : cyc.getLastD 0 ∈ 0 :: cyc := getLastD_mem cyc 0
    have hprev0 : prevAt h₁ 0 = some (cyc.getLastD 0) := by
      rw [chain_head hr1.bwd, headD_reverse]
    have hnextlast : nextAt h₁ (cyc.getLastD 0) = some 0 := chain_last hr1.fwd
    have hnsz : m₀.heap.size < h₁.size := by rw [ha2]; omega
    obtain ⟨h₂, he2, hs2, hn2, hp2, hk2, hv2⟩ := insertNodeAfter_spec h₁ m₀.heap.size
      (cyc.getLastD 0) 0 hnsz (hr1.bound' _ hlast) hr1.pos (hlt _ hlast).symm hnextlast
    obtain ⟨h₃, he3, hs3, hn3, hp3, hk3, hv3⟩ := store_value_spec h₂ m₀.heap.size v
      (by rw [hs2]; exact hnsz)
    have hnew : m₀.heap.size ∉ 0 :: cyc := fun hm => hlt _ hm rfl
    refine ⟨⟨some ((k, m₀.heap.size) :: g.filter (fun e => decide (e.1 ≠ k))), m₀.list, h₃⟩,
      ?_, Or.inr ⟨cyc ++ [m₀.heap.size], ?_, ?_⟩⟩
    · simp only [Containers.put, hinit, ok_bind, hlk]
      rw [ealloc]
      simp only [hr.list, load_some h₁ 0 hr1.pos, ok_bind]
      simp only [prevAt] at hprev0
      simp only [hprev0, he2, ok_bind, goStore, hg, he3, pure_eq_ok]
    · refine hr1.insert (k := k) hg hnew hnsz (by have := hr.size; simp only [ha2]; omega) ?_ ?_
        rfl rfl (by simp only [hs3, hs2]) ?_ ?_ ?_
      · simp only [ha5, if_pos]
      · intro i hi
        simp only [ha5, if_neg (hlt i (List.mem_cons_of_mem _ hi))]
        exact h1 i hi
      · intro j; simp only [hn3, hn2]
      · intro j; simp only [hp3, hp2]
      · intro j; simp only [hk3, hk2]
    · have hany : (cyc.map (kvAt m₀.heap)).any (fun e => decide (e.1 = k)) = false := by
        rw [hr.any_key, hlk]; rfl
      simp only [aPut, hany, Bool.false_eq_true, if_false, List.map_append, List.map_cons,
        List.map_nil]
      congr 1
      · apply List.map_congr_left
        intro i hi
        have := hlt i (List.mem_cons_of_mem _ hi)
        simp only [kvAt, hk3, hk2, ha5, hv3, hv2, ha6, if_neg this]
      · simp only [kvAt, hk3, hk2, ha5, hv3, if_pos]

/-! ### Steps and runs -/

theorem step_refines {m : CMap K V} {l : AMap K V} (h : Rep m l) (op : Op K V) :
    ∃ m', step op m = .ok ((specStep op l).1, m') ∧ Rep m' (specStep op l).2 := by
  cases op with
  | put k v =>
    obtain ⟨m', h1, h2⟩ := h.put k v
    exact ⟨m', by simp [step, h1, specStep], h2⟩
  | get k => exact ⟨m, by simp [step, h.get k, specStep], h⟩
  | getOrZero k => exact ⟨m, by simp [step, getOrZero, h.get k, specStep], h⟩
  | has k => exact ⟨m, by simp [step, h.has k, specStep], h⟩
  | len => exact ⟨m, by simp [step, h.len, specStep], h⟩
  | remove k =>
    obtain ⟨m', h1, h2⟩ := h.remove k
    exact ⟨m', by simp [step, h1, specStep], h2⟩
  | clear =>
    obtain ⟨m', h1, h2⟩ := h.clear
    exact ⟨m', by simp [step, h1, specStep], h2⟩
  | forEach => exact ⟨m, by simp [step, h.forEach, specStep], h⟩
  | keys => exact ⟨m, by simp [step, keys, h.forEach, specStep], h⟩
  | values => exact ⟨m, by simp [step, values, h.forEach, specStep], h⟩

theorem run_refines {m : CMap K V} {l : AMap K V} (h : Rep m l) (ops : List (Op K V)) :
    ∃ m', run ops m = .ok ((runSpec ops l).1, m') ∧ Rep m' (runSpec ops l).2 := by
  induction ops generalizing m l with
  | nil => exact ⟨m, rfl, h⟩
  | cons op ops ih =>
    obtain ⟨m₁, h1, h2⟩ := step_refines h op
    obtain ⟨m₂, h3, h4⟩ := ih h2
    exact ⟨m₂, by simp [run, runSpec, h1, h3], h4⟩

/-- The representation relation does not look at the order of the Go map. -/
theorem Rep.reorder {m : CMap K V} {l : AMap K V} (h : Rep m l)
    {f : List (K × Nat) → List (K × Nat)} (hf : ∀ g, (f g).Perm g) : Rep (reorder f m) l := by
  rcases h with ⟨rfl, rfl⟩ | ⟨cyc, hr, rfl⟩
  · exact rep_zero
  · obtain ⟨g, hg, hp⟩ := hr.nodes
    refine Or.inr ⟨cyc, ⟨hr.list, ⟨f g, by simp [Containers.reorder, hg], (hf g).trans hp⟩,
      hr.size, hr.bound, hr.nodup, hr.fwd, hr.bwd, hr.keys⟩, rfl⟩

theorem runSched_refines {m : CMap K V} {l : AMap K V} (h : Rep m l)
    (sched : Nat → List (K × Nat) → List (K × Nat)) (hs : ∀ i g, (sched i g).Perm g) (i : Nat)
    (ops : List (Op K V)) :
    ∃ m', runSched sched i ops m = .ok ((runSpec ops l).1, m') ∧ Rep m' (runSpec ops l).2 := by
  induction ops generalizing m l i with
  | nil => exact ⟨m, rfl, h⟩
  | cons op ops ih =>
    obtain ⟨m₁, h1, h2⟩ := step_refines (h.reorder (hs i)) op
    obtain ⟨m₂, h3, h4⟩ := ih h2 (i + 1)
    exact ⟨m₂, by simp [runSched, runSpec, h1, h3], h4⟩

end Map
end Lox.Dec.Containers
