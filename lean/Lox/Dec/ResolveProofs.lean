import Lox.Dec.Resolve
/-!
# Helper lemmas about `Lox.Dec.resolveOne` (used by `Lox/Props/C04.lean` and `Lox/Props/C05.lean`)
-/
namespace Lox.Dec

/-- The only kind of cell the precedence rule may touch: exactly one shift and one reduce (in
either order); the shift has at least one contributing production; every contributing production
belongs to the rule of the reduced production; all contributing productions carry one and the same
explicit precedence (`> 0`); the reduced production carries an explicit precedence. -/
def SRPairOfOneRule (info : Nat → ProdInfo) (acts : List Action) : Prop :=
  ∃ t ps rp,
    (acts = [.shift t ps, .reduce rp] ∨ acts = [.reduce rp, .shift t ps]) ∧
    ps ≠ [] ∧
    (∀ q ∈ ps, (info q).rule = (info rp).rule) ∧
    (∀ q ∈ ps, ∀ q' ∈ ps, (info q).prec = (info q').prec) ∧
    (∀ q ∈ ps, 0 < (info q).prec) ∧
    0 < (info rp).prec

/-- `decideSR` answers exactly under the conditions spelled out in `SRPairOfOneRule`. -/
theorem decideSR_isSome_iff (info : Nat → ProdInfo) (ps : List Nat) (rp : Nat) :
    (decideSR info ps rp).isSome = true ↔
      ps ≠ [] ∧ (∀ q ∈ ps, (info q).rule = (info rp).rule) ∧
      (∀ q ∈ ps, ∀ q' ∈ ps, (info q).prec = (info q').prec) ∧
      (∀ q ∈ ps, 0 < (info q).prec) ∧ 0 < (info rp).prec := by
  cases ps with
  | nil => simp [decideSR]
  | cons p0 rest =>
    by_cases hall : rest.all (fun q => (info q).rule == (info p0).rule && (info q).prec == (info p0).prec) = true
    · have hall' : ∀ q ∈ rest, (info q).rule = (info p0).rule ∧ (info q).prec = (info p0).prec := by
        simpa using hall
      by_cases hc : ((info p0).rule == (info rp).rule && decide (0 < (info p0).prec) && decide (0 < (info rp).prec)) = true
      · have hc' : (info p0).rule = (info rp).rule ∧ 0 < (info p0).prec ∧ 0 < (info rp).prec := by
          simpa [and_assoc] using hc
        have lhs : (decideSR info (p0 :: rest) rp).isSome = true := by
          simp only [decideSR, hall, hc, if_true]
          repeat' split
          all_goals rfl
        simp only [lhs, true_iff]
        refine ⟨by simp, ?_, ?_, ?_, hc'.2.2⟩
        · intro q hq
          rcases List.mem_cons.1 hq with rfl | hq
          · exact hc'.1
          · rw [(hall' q hq).1]; exact hc'.1
        · have key : ∀ q ∈ p0 :: rest, (info q).prec = (info p0).prec := by
            intro q hq
            rcases List.mem_cons.1 hq with rfl | hq
            · rfl
            · exact (hall' q hq).2
          intro q hq q' hq'
          rw [key q hq, key q' hq']
        · intro q hq
          rcases List.mem_cons.1 hq with rfl | hq
          · exact hc'.2.1
          · rw [(hall' q hq).2]; exact hc'.2.1
      · have lhs : (decideSR info (p0 :: rest) rp).isSome = false := by
          simp only [decideSR, hall, hc, if_true]; rfl
        simp only [lhs, Bool.false_eq_true, false_iff]
        rintro ⟨-, hr, -, hp, hrp⟩
        apply hc
        have h1 := hr p0 (List.mem_cons_self ..)
        have h2 := hp p0 (List.mem_cons_self ..)
        simp [h1, h2, hrp]
    · have lhs : (decideSR info (p0 :: rest) rp).isSome = false := by
        simp only [decideSR, hall]; rfl
      simp only [lhs, Bool.false_eq_true, false_iff]
      rintro ⟨-, hr, hpp, -, -⟩
      apply hall
      rw [List.all_eq_true]
      intro q hq
      have hq' : q ∈ p0 :: rest := List.mem_cons_of_mem _ hq
      have h1 := hr q hq'
      have h2 := hr p0 (List.mem_cons_self ..)
      have h3 := hpp q hq' p0 (List.mem_cons_self ..)
      simp [h1, h2, h3]

/-- Shape of `resolveOne` on a shift/reduce pair. -/
theorem resolveOne_sr (info : Nat → ProdInfo) (t : Nat) (ps : List Nat) (rp : Nat) :
    resolveOne info [.shift t ps, .reduce rp] =
      match decideSR info ps rp with
      | some k => (keepOf (.shift t ps) (.reduce rp) k, true)
      | none => ([.shift t ps, .reduce rp], false) := by
  simp only [resolveOne]
  cases decideSR info ps rp <;> rfl

theorem resolveOne_rs (info : Nat → ProdInfo) (t : Nat) (ps : List Nat) (rp : Nat) :
    resolveOne info [.reduce rp, .shift t ps] =
      match decideSR info ps rp with
      | some k => (keepOf (.shift t ps) (.reduce rp) k, true)
      | none => ([.reduce rp, .shift t ps], false) := by
  simp only [resolveOne]
  cases decideSR info ps rp <;> rfl

/-- Anything that is not a two-element shift/reduce cell is returned unchanged and unresolved. -/
theorem resolveOne_other (info : Nat → ProdInfo) (acts : List Action)
    (h : ∀ t ps rp, acts ≠ [.shift t ps, .reduce rp] ∧ acts ≠ [.reduce rp, .shift t ps]) :
    resolveOne info acts = (acts, false) := by
  unfold resolveOne
  split
  · exact absurd rfl (h _ _ _).1
  · exact absurd rfl (h _ _ _).2
  · rfl

/-- An unresolved cell is returned as it was. -/
theorem unresolved_unchanged (info : Nat → ProdInfo) (acts : List Action)
    (h : (resolveOne info acts).2 = false) : (resolveOne info acts).1 = acts := by
  unfold resolveOne at h ⊢
  split
  · split <;> simp_all
  · split <;> simp_all
  · rfl

/-- `decideSR` on a cell that passes all preconditions: the four-way `switch`. -/
theorem decideSR_of (info : Nat → ProdInfo) (p0 : Nat) (rest : List Nat) (rp : Nat)
    (hall : rest.all (fun q => (info q).rule == (info p0).rule && (info q).prec == (info p0).prec) = true)
    (hrule : (info p0).rule = (info rp).rule) (h0 : 0 < (info p0).prec) (h1 : 0 < (info rp).prec) :
    decideSR info (p0 :: rest) rp =
      some (if (info p0).prec < (info rp).prec then Keep.reduce
        else if (info rp).prec < (info p0).prec then Keep.shift
        else if (rest.isEmpty && p0 == rp && (info p0).rightAssoc) = true then Keep.shift
        else Keep.reduce) := by
  have hc : ((info p0).rule == (info rp).rule && decide (0 < (info p0).prec) &&
      decide (0 < (info rp).prec)) = true := by simp [hrule, h0, h1]
  simp only [decideSR, hall, hc, if_true]
  by_cases ha : (info p0).prec < (info rp).prec
  · simp only [ha, if_true]
  · by_cases hb : (info rp).prec < (info p0).prec
    · simp only [ha, hb, if_true, if_false]
    · by_cases hd : (rest.isEmpty && p0 == rp && (info p0).rightAssoc) = true
      · simp only [ha, hb, hd, if_true, if_false]
      · simp only [ha, hb, hd, if_false]
        rfl

end Lox.Dec
