import Lox.Dec.Assign
/-!
# C06 – what the property says, written without the passes of `AssignActions`

* `WF c`       – the shape of grammars that the lox front end produces (helper rules as
                 `ast.ParserTerm.normalize` builds them) and the facts about names that Go guarantees;
* `IdentEquiv` – `gotypes.Identical` is an equivalence relation (a fact about go/types, checked on
                 every tabulated matrix by the harness);
* `specTyR`    – the DOCUMENTED derivation of the type of every rule: a user rule has the return
                 type of its action methods; `x?` has the type of `x`; `x*`, `x+`, `x*!`, `@list(x, s)`
                 have the type slice-of-type-of-`x`; `@list(x, s)?` the type of `@list(x, s)`;
* `Spec c`     – the clauses of property C06;
* `Violates`   – what each diagnostic claims about its subject.
-/
namespace Lox.Dec.Assign

/-! ## Well-formed cases -/

def isSliceGen : Option Gen → Bool
  | some .oneOrMore | some .oneOrMoreF | some .list => true
  | _ => false

/-- `x` in `x?`, `x*`, `x+`, `@list(x, sep)`: a terminal, `@error`, or a user rule
(`parser.on_parser_term_card`, `ParserTerm.postCheck`). -/
def Simple (c : Case) : Term → Prop
  | .tok => True
  | .err => True
  | .rule r => genOf c r = some .user

instance (c : Case) (t : Term) : Decidable (Simple c t) := by
  cases t <;> simp only [Simple] <;> infer_instance

/-- `x` is a `@list(…)` rule (the only non-simple term a helper rule is built over: `@list(x,s)?`). -/
def IsListRef (c : Case) : Term → Prop
  | .rule h => genOf c h = some .list
  | _ => False

instance (c : Case) (t : Term) : Decidable (IsListRef c t) := by
  cases t <;> simp only [IsListRef] <;> infer_instance

/-- The productions of a helper rule, as `ParserTerm.normalize` writes them. -/
def HelperShape (c : Case) (r : Nat) : Prop :=
  match genOf c r with
  | some .zeroOrOne =>
    -- `x? = x | ε`, `@list(x,s)? = @list(x,s) | ε`
    match (ruleProds c r).map (termsOf c) with
    | [[x], []] => Simple c x ∨ IsListRef c x
    | _ => False
  | some .zeroOrMore =>
    match (ruleProds c r).map (termsOf c) with
    | [[.rule h], []] => genOf c h = some .oneOrMore
    | _ => False
  | some .zeroOrMoreF =>
    match (ruleProds c r).map (termsOf c) with
    | [[.rule h], []] => genOf c h = some .oneOrMoreF
    | _ => False
  | some .oneOrMore | some .oneOrMoreF =>
    -- `x+ = x+ x | x`
    match (ruleProds c r).map (termsOf c) with
    | [[.rule r', x'], [x]] => r' = r ∧ x' = x ∧ Simple c x
    | _ => False
  | some .list =>
    -- `@list(x,s) = @list(x,s) s x | x`
    match (ruleProds c r).map (termsOf c) with
    | [[.rule r', s, x'], [x]] => r' = r ∧ x' = x ∧ Simple c x ∧ Simple c s
    | _ => False
  | _ => True

structure WF (c : Case) : Prop where
  /-- `Prod.Rule` is a rule of the grammar -/
  prodRule : ∀ p ∈ c.prods, p.rule < c.rules.length
  /-- only user rules can be named by a method: the names of `S'` and of the helper rules contain
  characters (`'`, `*`, `+`, `?`, `!`, `@`, `(`) that cannot occur in a Go identifier -/
  helperNoMethod : ∀ r ∈ c.rules, r.gen ≠ .user → ∀ m ∈ c.methods, ruleOf m.name ≠ some r.name
  shapes : ∀ r, r < c.rules.length → HelperShape c r

instance (c : Case) (r : Nat) : Decidable (HelperShape c r) := by
  unfold HelperShape
  split
  all_goals first | (split <;> infer_instance) | infer_instance

/-- `gotypes.Identical` is an equivalence relation. -/
structure IdentEquiv (c : Case) : Prop where
  refl : ∀ t, c.identical t t = true
  symm : ∀ t u, c.identical t u = true → c.identical u t = true
  trans : ∀ t u v, c.identical t u = true → c.identical u v = true → c.identical t v = true

/-! ## The documented derivation of rule types -/

/-- Type of `x` for a simple `x`. -/
def specElemR (c : Case) : Term → Option RTy
  | .tok => some (.ty c.tokenTy)
  | .err => some (.ty c.errorTy)
  | .rule r =>
    match c.rules[r]? with
    | some ru => if ru.gen = .user then userTy c ru else none
    | none => none

/-- Type of `x+`, `x+!`, `@list(x, s)` (rule `h`): slice of the type of `x`, where `x` is the only
term of the rule's second production. -/
def specSliceR (c : Case) (h : Nat) : Option RTy :=
  match ruleProds c h with
  | _ :: p1 :: _ =>
    (match termsOf c p1 with
     | x :: _ => some (sliceOfR c (specElemR c x))
     | [] => none)
  | _ => none

def specTyR (c : Case) (r : Nat) : Option RTy :=
  match c.rules[r]? with
  | none => none
  | some ru =>
    match ru.gen with
    | .user => userTy c ru
    | .sprime => none
    | .oneOrMore | .oneOrMoreF | .list => specSliceR c r
    | .zeroOrMore | .zeroOrMoreF =>
      (match ruleProds c r with
       | p0 :: _ =>
         (match termsOf c p0 with
          | .rule h :: _ => if isSliceGen (genOf c h) then specSliceR c h else none
          | _ => none)
       | [] => none)
    | .zeroOrOne =>
      (match ruleProds c r with
       | p0 :: _ =>
         (match termsOf c p0 with
          | .rule h :: _ => if genOf c h = some .list then specSliceR c h else specElemR c (.rule h)
          | x :: _ => specElemR c x
          | [] => none)
       | [] => none)

/-- The Go type of a rule according to the documentation; `none` = the rule has no type. -/
def specTy (c : Case) (r : Nat) : Option Ty :=
  match specTyR c r with
  | some (.ty t) => some t
  | _ => none

/-- The Go type of the value of a term (`getTermGoType`). -/
def specTermTy (c : Case) : Term → Option Ty
  | .tok => some c.tokenTy
  | .err => some c.errorTy
  | .rule r => specTy c r

/-! ## The property -/

/-- `m`'s parameters accept the values of `terms`: as many parameters as terms, and the type of
every term is assignable (`gotypes.AssignableTo`) to the parameter at its position. -/
def Accepts (c : Case) : List Term → List Ty → Prop
  | [], [] => True
  | t :: ts, q :: qs => (∃ tt, specTermTy c t = some tt ∧ c.assignable tt q = true) ∧ Accepts c ts qs
  | _, _ => False

/-- Method number `i` is an action method of `p`'s rule (named `on_<rule>[__suffix]`, one result,
not variadic) whose parameters accept `p`'s terms. -/
def Matches (c : Case) (p : Prod) (i : Nat) : Prop :=
  ∃ m, c.methods[i]? = some m ∧ ruleOf m.name = some (ruleName c p.rule) ∧
    m.nres = 1 ∧ m.variadic = false ∧ Accepts c p.terms m.params

/-- The production belongs to a rule the user wrote. -/
def UserProd (c : Case) (p : Prod) : Prop := genOf c p.rule = some .user

structure Spec (c : Case) : Prop where
  /-- every action method returns exactly one value and is not variadic -/
  shape : ∀ m ∈ c.methods, (ruleOf m.name).isSome → m.nres = 1 ∧ m.variadic = false
  /-- the rule named by every action method exists -/
  ruleExists : ∀ m ∈ c.methods, ∀ n, ruleOf m.name = some n → ∃ r ∈ c.rules, r.name = n
  /-- all methods of a rule return one type -/
  retAgree : ∀ m ∈ c.methods, ∀ m' ∈ c.methods, ∀ n, ruleOf m.name = some n → ruleOf m'.name = some n →
    c.identical m.ret m'.ret = true
  /-- every rule (other than `S'`, which is never reduced) gets a type -/
  typed : ∀ (r : Nat) ru, c.rules[r]? = some ru → ru.gen ≠ .sprime → ∃ t, specTy c r = some t
  /-- every production of a user rule has one and only one matching method -/
  unique : ∀ p ∈ c.prods, UserProd c p → ∃ i, Matches c p i ∧ ∀ j, Matches c p j → j = i
  /-- no action method is left unmatched -/
  noOrphan : ∀ (i : Nat) m, c.methods[i]? = some m → (ruleOf m.name).isSome →
    ∃ p ∈ c.prods, UserProd c p ∧ Matches c p i

/-! ## What a diagnostic says about its subject -/

def Violates (c : Case) (d : Diag) : Prop :=
  match d.kind, d.subj with
  | .results, .method nm =>
    ∃ m ∈ c.methods, m.name = nm ∧ (ruleOf m.name).isSome ∧ m.nres ≠ 1
  | .variadic, .method nm =>
    ∃ m ∈ c.methods, m.name = nm ∧ (ruleOf m.name).isSome ∧ m.variadic = true
  | .retConflict, .method nm =>
    ∃ m ∈ c.methods, ∃ m' ∈ c.methods, m.name = nm ∧ (ruleOf m.name).isSome ∧
      ruleOf m'.name = ruleOf m.name ∧ c.identical m.ret m'.ret = false
  | .noRule, .method nm =>
    ∃ m ∈ c.methods, ∃ n, m.name = nm ∧ ruleOf m.name = some n ∧ ∀ r ∈ c.rules, r.name ≠ n
  | .untyped, .rule r =>
    ∃ ru, c.rules[r]? = some ru ∧ ru.gen ≠ .sprime ∧ specTyR c r = none
  | .noMatch, .prod p =>
    ∃ pr, c.prods[p]? = some pr ∧ UserProd c pr ∧ ∀ i, ¬ Matches c pr i
  | .ambiguous, .prod p =>
    ∃ pr, c.prods[p]? = some pr ∧ UserProd c pr ∧ ∃ i j, i ≠ j ∧ Matches c pr i ∧ Matches c pr j
  | .orphan, .method nm =>
    ∃ (i : Nat) (m : Method), c.methods[i]? = some m ∧ m.name = nm ∧ (ruleOf m.name).isSome ∧
      ∀ p ∈ c.prods, UserProd c p → ¬ Matches c p i
  | _, _ => False

end Lox.Dec.Assign
