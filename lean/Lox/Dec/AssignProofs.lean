import Lox.Dec.AssignSpec
/-! Lemmas about `Lox.Dec.Assign.assign`, pass by pass (core Lean only). The property theorems
are in `Lox/Props/C06.lean`. -/
namespace Lox.Dec.Assign

/-! ## Pass 1 -/

theorem ruleOf_onBounds : ruleOf onBoundsName = none := by decide

theorem ruleOf_of_isOnBounds {m : Method} (h : (m.name == onBoundsName) = true) :
    ruleOf m.name = none := by
  have : m.name = onBoundsName := by simpa using h
  rw [this]; exact ruleOf_onBounds

theorem mkAction_eq_some {mi : Method × Nat} {a : Action} :
    mkAction mi = some a ↔
      ruleOf mi.1.name = some a.rule ∧ mi.1.nres = 1 ∧ mi.1.variadic = false ∧ a.idx = mi.2 ∧ a.m = mi.1 := by
  unfold mkAction
  by_cases hb : (mi.1.name == onBoundsName) = true
  · have := ruleOf_of_isOnBounds hb
    simp [hb, this]
  · simp only [hb, Bool.false_eq_true, ↓reduceIte]
    cases hr : ruleOf mi.1.name with
    | none => simp
    | some r =>
      by_cases h2 : mi.1.nres = 1 ∧ mi.1.variadic = false
      · simp only [h2, and_self, ↓reduceIte, Option.some.injEq, true_and]
        constructor
        · rintro rfl; simp
        · rintro ⟨h1, h3, h4⟩
          cases a; simp_all
      · simp only [h2, ↓reduceIte]
        constructor
        · intro h; cases h
        · rintro ⟨_, h3, h4, _⟩; exact absurd ⟨h3, h4⟩ h2

theorem mem_actions {c : Case} {a : Action} :
    a ∈ actions c ↔ c.methods[a.idx]? = some a.m ∧ ruleOf a.m.name = some a.rule ∧
      a.m.nres = 1 ∧ a.m.variadic = false := by
  unfold actions
  rw [List.mem_filterMap]
  constructor
  · rintro ⟨mi, hmem, hmk⟩
    rw [List.mem_zipIdx_iff_getElem?] at hmem
    rw [mkAction_eq_some] at hmk
    obtain ⟨h1, h2, h3, h4, h5⟩ := hmk
    rw [h4, h5]; exact ⟨hmem, h1, h2, h3⟩
  · rintro ⟨h1, h2, h3, h4⟩
    refine ⟨(a.m, a.idx), ?_, ?_⟩
    · rw [List.mem_zipIdx_iff_getElem?]; exact h1
    · rw [mkAction_eq_some]; exact ⟨h2, h3, h4, rfl, rfl⟩

theorem action_ext {c : Case} {a b : Action} (ha : a ∈ actions c) (hb : b ∈ actions c)
    (h : a.idx = b.idx) : a = b := by
  rw [mem_actions] at ha hb
  have hm : a.m = b.m := by
    have := ha.1; rw [h, hb.1] at this; exact (Option.some.inj this).symm
  have hr : a.rule = b.rule := by
    have := ha.2.1; rw [hm, hb.2.1] at this; exact (Option.some.inj this).symm
  cases a; cases b; simp_all

theorem collectDiag_eq_none {m : Method} :
    collectDiag m = none ↔ ((ruleOf m.name).isSome → m.nres = 1 ∧ m.variadic = false) := by
  unfold collectDiag
  by_cases hb : (m.name == onBoundsName) = true
  · simp [hb, ruleOf_of_isOnBounds hb]
  · simp only [hb, Bool.false_eq_true, ↓reduceIte]
    cases hr : ruleOf m.name with
    | none => simp
    | some r =>
      by_cases h1 : m.nres = 1 <;> by_cases h2 : m.variadic = true <;> simp [h1, h2]

theorem collectDiags_nil {c : Case} :
    collectDiags c = [] ↔ ∀ m ∈ c.methods, (ruleOf m.name).isSome → m.nres = 1 ∧ m.variadic = false := by
  unfold collectDiags
  rw [List.filterMap_eq_nil_iff]
  constructor
  · intro h m hm; exact collectDiag_eq_none.mp (h m hm)
  · intro h m hm; exact collectDiag_eq_none.mpr (h m hm)

theorem mem_collectDiags {c : Case} {d : Diag} (h : d ∈ collectDiags c) : Violates c d := by
  unfold collectDiags at h
  rw [List.mem_filterMap] at h
  obtain ⟨m, hm, hd⟩ := h
  unfold collectDiag at hd
  by_cases hb : (m.name == onBoundsName) = true
  · simp [hb] at hd
  · simp only [hb, Bool.false_eq_true, ↓reduceIte] at hd
    cases hr : ruleOf m.name with
    | none => simp [hr] at hd
    | some r =>
      simp only [hr] at hd
      by_cases h1 : m.nres = 1
      · by_cases h2 : m.variadic = true
        · simp only [h1, ne_eq, not_true_eq_false, ↓reduceIte, h2, Option.some.injEq] at hd
          subst hd
          exact ⟨m, hm, rfl, by simp [hr], h2⟩
        · simp [h1, h2] at hd
      · simp only [ne_eq, h1, not_false_eq_true, ↓reduceIte, Option.some.injEq] at hd
        subst hd
        exact ⟨m, hm, rfl, by simp [hr], h1⟩

/-! ## Pass 2 -/

theorem mem_actionsOf {c : Case} {a : Action} {n : String} :
    a ∈ actionsOf c n ↔ a ∈ actions c ∧ a.rule = n := by
  unfold actionsOf
  rw [List.mem_filter]; simp

theorem action_method_mem {c : Case} {a : Action} (h : a ∈ actions c) : a.m ∈ c.methods :=
  List.mem_of_getElem? (mem_actions.mp h).1

theorem head_actionsOf {c : Case} {a : Action} (h : a ∈ actions c) :
    ∃ f rest, actionsOf c a.rule = f :: rest ∧ f ∈ actions c ∧ f.rule = a.rule := by
  have hm : a ∈ actionsOf c a.rule := mem_actionsOf.mpr ⟨h, rfl⟩
  cases hl : actionsOf c a.rule with
  | nil => rw [hl] at hm; cases hm
  | cons f rest =>
    have hf : f ∈ actionsOf c a.rule := by rw [hl]; exact List.mem_cons_self
    exact ⟨f, rest, rfl, (mem_actionsOf.mp hf).1, (mem_actionsOf.mp hf).2⟩

theorem hasRule_iff {c : Case} {n : String} : hasRule c n = true ↔ ∃ r ∈ c.rules, r.name = n := by
  unfold hasRule; simp

theorem retDiags_nil {c : Case} : retDiags c = [] ↔ ∀ a ∈ actions c, retDiag c a = [] := by
  unfold retDiags; rw [List.flatMap_eq_nil_iff]

/-- Every group's name is a rule. -/
theorem pass2_hasRule {c : Case} (h : retDiags c = []) {a : Action} (ha : a ∈ actions c) :
    hasRule c a.rule = true := by
  obtain ⟨f, rest, hl, hf, hfr⟩ := head_actionsOf ha
  have := retDiags_nil.mp h f hf
  unfold retDiag at this
  rw [hfr, hl] at this
  simp only [↓reduceIte] at this
  by_cases hh : hasRule c a.rule = true
  · exact hh
  · simp [hh] at this

/-- Every method of a group returns a type identical to the first one's. -/
theorem pass2_identical {c : Case} (hrefl : ∀ t, c.identical t t = true) (h : retDiags c = [])
    {a f : Action} {rest : List Action} (ha : a ∈ actions c) (hl : actionsOf c a.rule = f :: rest) :
    c.identical a.m.ret f.m.ret = true := by
  have := retDiags_nil.mp h a ha
  unfold retDiag at this
  rw [hl] at this
  by_cases hi : f.idx = a.idx
  · have hf : f ∈ actionsOf c a.rule := by rw [hl]; exact List.mem_cons_self
    have := action_ext (mem_actionsOf.mp hf).1 ha hi
    rw [this]; exact hrefl _
  · simp only [hi, ↓reduceIte] at this
    by_cases hh : c.identical a.m.ret f.m.ret = true
    · exact hh
    · simp [hh] at this

theorem retDiag_nil_of {c : Case} {a : Action}
    (h1 : hasRule c a.rule = true)
    (h2 : ∀ f rest, actionsOf c a.rule = f :: rest → c.identical a.m.ret f.m.ret = true) :
    retDiag c a = [] := by
  unfold retDiag
  cases hl : actionsOf c a.rule with
  | nil => rfl
  | cons f rest =>
    simp only
    by_cases hi : f.idx = a.idx
    · simp [hi, h1]
    · simp [hi, h2 f rest hl]

theorem mem_retDiags {c : Case} {d : Diag} (h : d ∈ retDiags c) : Violates c d := by
  unfold retDiags at h
  rw [List.mem_flatMap] at h
  obtain ⟨a, ha, hd⟩ := h
  unfold retDiag at hd
  cases hl : actionsOf c a.rule with
  | nil => simp [hl] at hd
  | cons f rest =>
    have hf : f ∈ actionsOf c a.rule := by rw [hl]; exact List.mem_cons_self
    obtain ⟨hfa, hfr⟩ := mem_actionsOf.mp hf
    rw [hl] at hd
    simp only at hd
    by_cases hi : f.idx = a.idx
    · simp only [hi, ↓reduceIte] at hd
      by_cases hh : hasRule c a.rule = true
      · simp [hh] at hd
      · simp only [hh, Bool.false_eq_true, ↓reduceIte, List.mem_cons, List.not_mem_nil, or_false] at hd
        subst hd
        refine ⟨a.m, action_method_mem ha, a.rule, rfl, (mem_actions.mp ha).2.1, ?_⟩
        intro r hr hn
        exact hh (hasRule_iff.mpr ⟨r, hr, hn⟩)
    · simp only [hi, ↓reduceIte] at hd
      by_cases hh : c.identical a.m.ret f.m.ret = true
      · simp [hh] at hd
      · simp only [hh, Bool.false_eq_true, ↓reduceIte, List.mem_cons, List.not_mem_nil, or_false] at hd
        subst hd
        refine ⟨a.m, action_method_mem ha, f.m, action_method_mem hfa, rfl, ?_, ?_, ?_⟩
        · simp [(mem_actions.mp ha).2.1]
        · rw [(mem_actions.mp ha).2.1, (mem_actions.mp hfa).2.1, hfr]
        · simpa using hh

/-- Under the shape clause the action methods are exactly the `on_` methods. -/
theorem action_of_method {c : Case} {m : Method} {n : String} (hm : m ∈ c.methods)
    (hn : ruleOf m.name = some n) (h1 : m.nres = 1) (h2 : m.variadic = false) :
    ∃ a ∈ actions c, a.m = m ∧ a.rule = n := by
  obtain ⟨i, hi⟩ := List.getElem?_of_mem hm
  exact ⟨⟨i, n, m⟩, mem_actions.mpr ⟨hi, hn, h1, h2⟩, rfl, rfl⟩

end Lox.Dec.Assign
