import Lox.Dec.Terminals
/-! Helper lemmas for C19 (core Lean only). -/
namespace Lox.Dec.Terminals

theorem mem_constBlock {ts : List String} {n : String} {k : Nat} :
    (n, k) ∈ constBlock ts ↔ ts[k]? = some n := by
  simp [constBlock, List.mem_zipIdx_iff_getElem?]

theorem constOf_eq_some {ts : List String} {n : String} {k : Nat} (h : constOf ts n = some k) :
    ts[k]? = some n := by
  unfold constOf at h
  match hf : (constBlock ts).find? (fun p => p.1 == n) with
  | none => simp [hf] at h
  | some (a, j) =>
    simp only [hf, Option.map_some, Option.some.injEq] at h
    subst h
    have h1 := List.find?_some hf
    have h2 := List.mem_of_find?_eq_some hf
    simp only [beq_iff_eq] at h1
    subst h1
    exact mem_constBlock.mp h2

theorem constOf_isSome {ts : List String} {n : String} (h : n ∈ ts) : (constOf ts n).isSome := by
  unfold constOf
  rw [Option.isSome_map, List.find?_isSome]
  obtain ⟨k, hk, rfl⟩ := List.getElem_of_mem h
  exact ⟨(ts[k], k), mem_constBlock.mpr (List.getElem?_eq_getElem hk), by simp⟩

theorem getElem?_inj_of_nodup {ts : List String} (hn : ts.Nodup) {i j : Nat} {n : String}
    (hi : ts[i]? = some n) (hj : ts[j]? = some n) : i = j := by
  have hil : i < ts.length := (List.getElem?_eq_some_iff.mp hi).1
  exact (List.getElem?_inj hil hn).mp (hi.trans hj.symm)

theorem constOf_of_getElem? {ts : List String} (hn : ts.Nodup) {k : Nat} {n : String}
    (hk : ts[k]? = some n) : constOf ts n = some k := by
  have hm : n ∈ ts := List.mem_of_getElem? hk
  have := constOf_isSome hm
  match hc : constOf ts n with
  | none => simp [hc] at this
  | some j => rw [getElem?_inj_of_nodup hn (constOf_eq_some hc) hk]

/-! ### `CreateNames` -/

/-- Invariant of the pass: terminals are distinct and every terminal is EOF, ERROR or registered. -/
def Inv (c : Ctx) : Prop :=
  c.terms.Nodup ∧ ∀ t ∈ c.terms, t ∈ c.names ∨ t = "EOF" ∨ t = "ERROR"

/-- What one piece of the traversal that would add `ns` does to the context. -/
def StepSpec (c c' : Ctx) (ns : List String) : Prop :=
  (Inv c → Inv c') ∧
  (c'.err = false → c.err = false ∧ c'.terms = c.terms ++ ns ∧ ∀ n ∈ ns, validTokenName n = true)

theorem StepSpec.refl (c : Ctx) : StepSpec c c [] := by
  simp [StepSpec]

theorem StepSpec.trans {a b c : Ctx} {n₁ n₂ : List String}
    (h₁ : StepSpec a b n₁) (h₂ : StepSpec b c n₂) : StepSpec a c (n₁ ++ n₂) := by
  refine ⟨fun hi => h₂.1 (h₁.1 hi), fun he => ?_⟩
  obtain ⟨hb, ht, hv⟩ := h₂.2 he
  obtain ⟨ha, ht', hv'⟩ := h₁.2 hb
  refine ⟨ha, by rw [ht, ht', List.append_assoc], ?_⟩
  intro n hn
  rcases List.mem_append.mp hn with h | h
  · exact hv' n h
  · exact hv n h

theorem StepSpec.err (c : Ctx) (ns : List String) : StepSpec c { c with err := true } ns := by
  refine ⟨fun hi => hi, fun he => ?_⟩
  simp at he

theorem StepSpec.register (c : Ctx) (n : String) : StepSpec c { c with names := n :: c.names } [] := by
  refine ⟨fun hi => ⟨hi.1, fun t ht => ?_⟩, fun he => ⟨he, by simp, by simp⟩⟩
  rcases hi.2 t ht with h | h
  · exact Or.inl (List.mem_cons_of_mem _ h)
  · exact Or.inr h

theorem validChars_ne_eof {cs : List Char} (h : validChars cs = true) :
    cs ≠ ['E', 'O', 'F'] ∧ cs ≠ ['E', 'R', 'R', 'O', 'R'] := by
  cases cs with
  | nil => simp [validChars] at h
  | cons c cs =>
    simp only [validChars, Bool.and_eq_true, bne_iff_ne, ne_eq] at h
    exact ⟨h.1.2, h.2⟩

theorem valid_ne_reserved {n : String} (h : validTokenName n = true) : n ≠ "EOF" ∧ n ≠ "ERROR" := by
  have := validChars_ne_eof h
  constructor
  · rintro rfl; exact this.1 (by decide)
  · rintro rfl; exact this.2 (by decide)

theorem valid_ne_qqq {n : String} (h : validTokenName n = true) : n ≠ "???" := by
  rintro rfl
  revert h
  decide

theorem declare_spec (c : Ctx) (n : String) : StepSpec c (declare c n) [n] := by
  unfold declare
  by_cases hv : validTokenName n = true
  · by_cases hc : c.names.contains n = true
    · simp only [hv, hc, Bool.not_true, Bool.false_eq_true, if_false, if_true]
      exact StepSpec.err c _
    · simp only [hv, hc, Bool.not_true, Bool.false_eq_true, if_false]
      have hnm : n ∉ c.names := by simpa using hc
      refine ⟨fun hi => ⟨?_, ?_⟩, fun he => ⟨he, rfl, by simpa using hv⟩⟩
      · have hnt : n ∉ c.terms := by
          intro hm
          rcases hi.2 n hm with h | h | h
          · exact hnm h
          · exact (valid_ne_reserved hv).1 h
          · exact (valid_ne_reserved hv).2 h
        simp only [List.nodup_append, List.nodup_cons, List.not_mem_nil, not_false_eq_true,
          List.nodup_nil, and_self, List.mem_cons, or_false, true_and]
        exact ⟨hi.1, fun a ha b hb => by rw [hb]; rintro rfl; exact hnt ha⟩
      · intro t ht
        simp only [List.mem_append, List.mem_cons, List.not_mem_nil, or_false] at ht
        rcases ht with h | h
        · rcases hi.2 t h with h' | h'
          · exact Or.inl (List.mem_cons_of_mem _ h')
          · exact Or.inr h'
        · exact Or.inl (by simp [h])
  · simp only [hv, Bool.not_false, if_true]
    exact StepSpec.err c _

theorem declareAll_spec (c : Ctx) (ns : List String) : StepSpec c (declareAll c ns) ns := by
  induction ns generalizing c with
  | nil => exact StepSpec.refl c
  | cons n ns ih => exact (declare_spec c n).trans (ih _)

mutual
theorem runStmt_spec (c : Ctx) : (s : Stmt) → StepSpec c (runStmt c s) (stmtNames s)
  | .token n => by simp only [runStmt, stmtNames]; exact declare_spec c n
  | .external ns => by simp only [runStmt, stmtNames]; exact declareAll_spec c ns
  | .mode n body => by
    simp only [runStmt, stmtNames]
    split
    · exact StepSpec.err c _
    · exact (StepSpec.register c n).trans (runStmts_spec _ body)
  | .other (some n) => by
    simp only [runStmt, stmtNames]
    split
    · exact StepSpec.err c _
    · exact StepSpec.register c n
  | .other none => by simp only [runStmt, stmtNames]; exact StepSpec.refl c
theorem runStmts_spec (c : Ctx) : (ss : List Stmt) → StepSpec c (runStmts c ss) (stmtsNames ss)
  | [] => by simp only [runStmts, stmtsNames]; exact StepSpec.refl c
  | s :: ss => by
    simp only [runStmts, stmtsNames]
    exact (runStmt_spec c s).trans (runStmts_spec _ ss)
end

theorem runSpec_spec (c : Ctx) (s : Spec) : StepSpec c (runSpec c s) (specNames s) := by
  induction s generalizing c with
  | nil => exact StepSpec.refl c
  | cons f fs ih => exact (runStmts_spec c f).trans (ih _)

theorem inv_init : Inv Ctx.init := by
  refine ⟨by decide, fun t ht => ?_⟩
  simp only [Ctx.init, List.mem_cons, List.not_mem_nil, or_false] at ht
  exact Or.inr ht

end Lox.Dec.Terminals
