/-! Interleaving model for C18 "generated parsers and lexers are safe to run concurrently".
Core Lean only.

`n` components (parser and lexer instances); component `i` has its own state type `S i`
(the receiver struct: `_lx`/`lox` stacks, `simplelexer` buffers), input type `In i` (a method call
with its arguments) and output type `Out i`. Every step reads the same immutable `Tables`
(the package-level `_lexerMode…`, `_actions`, `_goto`, `_lhs`, `_rhs` … variables of the generated
files, which no generated function assigns to — the Go-side premise) and its own state only.
A schedule is any list of events `(i, input)`: any total order the Go scheduler could produce
for steps that are atomic with respect to each other (which they are when states are disjoint). -/
namespace Lox.Dec.Interleave

variable {n : Nat} {T : Type} {S In Out : Fin n → Type}

/-- `step i tables s x = (s', out)`. -/
abbrev Step (n : Nat) (T : Type) (S In Out : Fin n → Type) :=
  (i : Fin n) → T → S i → In i → S i × Out i

/-- An item tagged with the component it belongs to. -/
abbrev Tagged (X : Fin n → Type) := (i : Fin n) × X i

/-- The tuple of component states. -/
abbrev Global (S : Fin n → Type) := (i : Fin n) → S i

/-- Overwrite component `i` of the tuple. -/
def upd (g : Global S) (i : Fin n) (v : S i) : Global S :=
  fun j => if h : i = j then h ▸ v else g j

/-- The items of component `i`, in order. -/
def proj {X : Fin n → Type} (i : Fin n) : List (Tagged X) → List (X i)
  | [] => []
  | ⟨j, x⟩ :: es => if h : j = i then (h ▸ x) :: proj i es else proj i es

/-- Component `i` running alone: final state and trace. -/
def runSolo (step : Step n T S In Out) (tb : T) (i : Fin n) : S i → List (In i) → S i × List (Out i)
  | s, [] => (s, [])
  | s, x :: xs =>
    let r := step i tb s x
    let rest := runSolo step tb i r.1 xs
    (rest.1, r.2 :: rest.2)

/-- The interleaved run of a schedule: final global state and the global trace. -/
def run (step : Step n T S In Out) (tb : T) : Global S → List (Tagged In) → Global S × List (Tagged Out)
  | g, [] => (g, [])
  | g, ⟨i, x⟩ :: es =>
    let r := step i tb (g i) x
    let rest := run step tb (upd g i r.1) es
    (rest.1, ⟨i, r.2⟩ :: rest.2)

theorem upd_same (g : Global S) (i : Fin n) (v : S i) : upd g i v i = v := by
  simp [upd]

theorem upd_other (g : Global S) {i j : Fin n} (v : S i) (h : i ≠ j) : upd g i v j = g j := by
  simp [upd, h]

/-- Core lemma: within any interleaved run, component `i` sees exactly its solo run. -/
theorem run_proj (step : Step n T S In Out) (tb : T) (i : Fin n) (g : Global S)
    (sch : List (Tagged In)) :
    proj i (run step tb g sch).2 = (runSolo step tb i (g i) (proj i sch)).2 ∧
    (run step tb g sch).1 i = (runSolo step tb i (g i) (proj i sch)).1 := by
  induction sch generalizing g with
  | nil => exact ⟨rfl, rfl⟩
  | cons e es ih =>
    obtain ⟨j, x⟩ := e
    by_cases h : j = i
    · subst h
      have := ih (upd g j (step j tb (g j) x).1)
      rw [upd_same] at this
      simp only [run, proj, runSolo, dif_pos]
      exact ⟨by rw [this.1], this.2⟩
    · have := ih (upd g j (step j tb (g j) x).1)
      rw [upd_other _ _ h] at this
      simp only [run, proj, dif_neg h]
      exact this

/-! ### The contrast: a shared *mutable* cell -/

/-- A step that may also write the shared cell. -/
abbrev StepM (n : Nat) (T : Type) (S In Out : Fin n → Type) :=
  (i : Fin n) → T → S i → In i → T × S i × Out i

def runSoloM (step : StepM n T S In Out) (i : Fin n) : T → S i → List (In i) → List (Out i)
  | _, _, [] => []
  | tb, s, x :: xs =>
    let r := step i tb s x
    r.2.2 :: runSoloM step i r.1 r.2.1 xs

def runM (step : StepM n T S In Out) : T → Global S → List (Tagged In) → List (Tagged Out)
  | _, _, [] => []
  | tb, g, ⟨i, x⟩ :: es =>
    let r := step i tb (g i) x
    ⟨i, r.2.2⟩ :: runM step r.1 (upd g i r.2.1) es

/-- Two components that both "take a ticket" from one shared counter. -/
def ticketStep : StepM 2 Nat (fun _ => Unit) (fun _ => Unit) (fun _ => Nat) :=
  fun _ c s _ => (c + 1, s, c)

end Lox.Dec.Interleave
