import Lox.Drv.Common
import Lox.Dec.Analyze
/-! Driver op `dec.analyze` (C17). Core Lean only.

Case line: `dec.analyze <spec> [| anything]` — what follows the `|` is for the Go side only (the
rendered text, the injected fault) and ignored here.

`<spec>`: tokens separated by blanks, prefix notation with explicit counts.

```
spec  := <#units> unit*
unit  := U <#stmts> stmt*
stmt  := lexrule | O <id> <line> <name> <#rules> lexrule* | P <id> <line> <0|1 start> <name> <#prods> prod*
lexrule := T <id> <line> <name> expr <#acts> act*   | F <id> <line> expr <#acts> act*
         | M <id> <line> <name> expr                | X <id> <line> <#names> (<line> <name>)*
expr  := <#alts> alt*        alt := <#terms> term*
term  := L <card> <line> <hex|-> <badEsc> | R <card> <line> <name> | D <card> <line>
       | C <card> class | S <card> class class | G <card> expr
class := <line> <0|1 neg> <badEsc> <#items> (<lo> <hi>)*
card  := 0 one | 1 ? | 2 * | 3 *? | 4 + | 5 +?
act   := d <line> | u <line> <mode> | o <line> | e <line> <name>
prod  := <line> <#terms> pterm* qual          qual := n | l <line> <prec> | r <line> <prec>
pterm := <pcard> atom                         pcard := - | * | ! | + | ?
atom  := N <line> <name> | A <line> <hex|-> <badEsc> | E <line> | I <line> atom atom
```
Literals travel as the hexadecimal of their bytes (`-` = empty); the model only compares them.

Answer: `wf=<0|1>` (the decision procedure `wellFormedB`), then the diagnostics of `analyze` in
order as `kind@line` or `kind(name)@line`; `accept` when there are none. -/
namespace Lox.Dec.Analyze

abbrev P (α : Type) := List String → Option (α × List String)

def pNat : P Nat
  | t :: ts => t.toNat?.map (·, ts)
  | [] => none

def pTok : P String
  | t :: ts => some (t, ts)
  | [] => none

def pLit : P String
  | t :: ts => some (if t == "-" then "" else t, ts)
  | [] => none

def pBool : P Bool
  | "0" :: ts => some (false, ts)
  | "1" :: ts => some (true, ts)
  | _ => none

/-- `n` repetitions of `p`. -/
def pMany {α : Type} (p : P α) : Nat → P (List α)
  | 0, ts => some ([], ts)
  | n + 1, ts => do
    let (a, ts) ← p ts
    let (as, ts) ← pMany p n ts
    pure (a :: as, ts)

/-- A count followed by that many `p`. -/
def pCounted {α : Type} (p : P α) : P (List α) := fun ts => do
  let (n, ts) ← pNat ts
  pMany p n ts

def pCard : P Card
  | "0" :: ts => some (.one, ts)
  | "1" :: ts => some (.opt, ts)
  | "2" :: ts => some (.star, ts)
  | "3" :: ts => some (.starNG, ts)
  | "4" :: ts => some (.plus, ts)
  | "5" :: ts => some (.plusNG, ts)
  | _ => none

def pItem : P ClassItem := fun ts => do
  let (lo, ts) ← pNat ts
  let (hi, ts) ← pNat ts
  pure (⟨lo, hi⟩, ts)

def pClass : P CharClass := fun ts => do
  let (line, ts) ← pNat ts
  let (neg, ts) ← pBool ts
  let (bad, ts) ← pNat ts
  let (items, ts) ← pCounted pItem ts
  pure (⟨line, neg, items, bad⟩, ts)

/-- Terms nest through groups; `fuel` bounds the nesting depth. -/
def pTerm : Nat → P LTerm
  | 0, _ => none
  | fuel + 1, ts =>
    match ts with
    | "L" :: ts => do
      let (c, ts) ← pCard ts
      let (line, ts) ← pNat ts
      let (s, ts) ← pLit ts
      let (bad, ts) ← pNat ts
      pure (.leaf c (.lit line s bad), ts)
    | "R" :: ts => do
      let (c, ts) ← pCard ts
      let (line, ts) ← pNat ts
      let (n, ts) ← pTok ts
      pure (.leaf c (.ref line n), ts)
    | "D" :: ts => do
      let (c, ts) ← pCard ts
      let (line, ts) ← pNat ts
      pure (.leaf c (.dot line), ts)
    | "C" :: ts => do
      let (c, ts) ← pCard ts
      let (cl, ts) ← pClass ts
      pure (.leaf c (.cls cl), ts)
    | "S" :: ts => do
      let (c, ts) ← pCard ts
      let (a, ts) ← pClass ts
      let (b, ts) ← pClass ts
      pure (.leaf c (.diff a b), ts)
    | "G" :: ts => do
      let (c, ts) ← pCard ts
      let (alts, ts) ← pCounted (pCounted (pTerm fuel)) ts
      pure (.group c alts, ts)
    | _ => none

def pExpr (fuel : Nat) : P LExpr := pCounted (pCounted (pTerm fuel))

def pAction : P Action
  | "d" :: ts => do
    let (l, ts) ← pNat ts
    pure (.discard l, ts)
  | "u" :: ts => do
    let (l, ts) ← pNat ts
    let (m, ts) ← pTok ts
    pure (.pushMode l m, ts)
  | "o" :: ts => do
    let (l, ts) ← pNat ts
    pure (.popMode l, ts)
  | "e" :: ts => do
    let (l, ts) ← pNat ts
    let (n, ts) ← pTok ts
    pure (.emit l n, ts)
  | _ => none

def pNamePos : P (Line × Name) := fun ts => do
  let (l, ts) ← pNat ts
  let (n, ts) ← pTok ts
  pure ((l, n), ts)

def pLexRule (fuel : Nat) : P LexRule
  | "T" :: ts => do
    let (id, ts) ← pNat ts
    let (l, ts) ← pNat ts
    let (n, ts) ← pTok ts
    let (e, ts) ← pExpr fuel ts
    let (a, ts) ← pCounted pAction ts
    pure (.token id l n e a, ts)
  | "F" :: ts => do
    let (id, ts) ← pNat ts
    let (l, ts) ← pNat ts
    let (e, ts) ← pExpr fuel ts
    let (a, ts) ← pCounted pAction ts
    pure (.frag id l e a, ts)
  | "M" :: ts => do
    let (id, ts) ← pNat ts
    let (l, ts) ← pNat ts
    let (n, ts) ← pTok ts
    let (e, ts) ← pExpr fuel ts
    pure (.macro id l n e, ts)
  | "X" :: ts => do
    let (id, ts) ← pNat ts
    let (l, ts) ← pNat ts
    let (ns, ts) ← pCounted pNamePos ts
    pure (.external id l ns, ts)
  | _ => none

def pAtom : Nat → P PAtom
  | 0, _ => none
  | fuel + 1, ts =>
    match ts with
    | "N" :: ts => do
      let (l, ts) ← pNat ts
      let (n, ts) ← pTok ts
      pure (.name l n, ts)
    | "A" :: ts => do
      let (l, ts) ← pNat ts
      let (s, ts) ← pLit ts
      let (b, ts) ← pNat ts
      pure (.alias l s b, ts)
    | "E" :: ts => do
      let (l, ts) ← pNat ts
      pure (.error l, ts)
    | "I" :: ts => do
      let (l, ts) ← pNat ts
      let (e, ts) ← pAtom fuel ts
      let (s, ts) ← pAtom fuel ts
      pure (.list l e s, ts)
    | _ => none

def pPCard : P (Option PCard)
  | "-" :: ts => some (none, ts)
  | "*" :: ts => some (some .star, ts)
  | "!" :: ts => some (some .starF, ts)
  | "+" :: ts => some (some .plus, ts)
  | "?" :: ts => some (some .opt, ts)
  | _ => none

def pPTerm (fuel : Nat) : P PTerm := fun ts => do
  let (c, ts) ← pPCard ts
  let (a, ts) ← pAtom fuel ts
  pure (⟨a, c⟩, ts)

def pQual : P (Option Qual)
  | "n" :: ts => some (none, ts)
  | "l" :: ts => do
    let (l, ts) ← pNat ts
    let (p, ts) ← pNat ts
    pure (some ⟨l, false, p⟩, ts)
  | "r" :: ts => do
    let (l, ts) ← pNat ts
    let (p, ts) ← pNat ts
    pure (some ⟨l, true, p⟩, ts)
  | _ => none

def pProd (fuel : Nat) : P Prod := fun ts => do
  let (l, ts) ← pNat ts
  let (terms, ts) ← pCounted (pPTerm fuel) ts
  let (q, ts) ← pQual ts
  pure (⟨l, terms, q⟩, ts)

def pStmt (fuel : Nat) : P Stmt
  | "O" :: ts => do
    let (id, ts) ← pNat ts
    let (l, ts) ← pNat ts
    let (n, ts) ← pTok ts
    let (rs, ts) ← pCounted (pLexRule fuel) ts
    pure (.mode id l n rs, ts)
  | "P" :: ts => do
    let (id, ts) ← pNat ts
    let (l, ts) ← pNat ts
    let (st, ts) ← pBool ts
    let (n, ts) ← pTok ts
    let (prods, ts) ← pCounted (pProd fuel) ts
    pure (.prule ⟨id, l, st, n, prods⟩, ts)
  | ts => do
    let (r, ts) ← pLexRule fuel ts
    pure (.rule r, ts)

def pUnit (fuel : Nat) : P Unit
  | "U" :: ts => do
    let (ss, ts) ← pCounted (pStmt fuel) ts
    pure (⟨ss⟩, ts)
  | _ => none

def parseSpec (payload : String) : Option Spec :=
  let toks := Lox.Drv.fields payload ' '
  match pCounted (pUnit (toks.length + 1)) toks with
  | some (us, []) => some ⟨us⟩
  | _ => none

def Kind.show : Kind → String
  | .badEscape => "badEscape"
  | .badPrecedence => "badPrecedence"
  | .listCard => "listCard"
  | .nameInvalid => "nameInvalid"
  | .nameReserved => "nameReserved"
  | .ruleNameInvalid => "ruleNameInvalid"
  | .redefined => "redefined"
  | .startRedefined => "startRedefined"
  | .emptyLiteral => "emptyLiteral"
  | .undefined => "undefined"
  | .notMacro => "notMacro"
  | .reversedRange => "reversedRange"
  | .undefinedMode => "undefinedMode"
  | .notToken => "notToken"
  | .notRuleOrToken => "notRuleOrToken"
  | .unknownLiteral => "unknownLiteral"
  | .ambiguousLiteral => "ambiguousLiteral"
  | .listEntryNotSimple => "listEntryNotSimple"
  | .listSepNotSimple => "listSepNotSimple"
  | .macroCycle => "macroCycle"
  | .tokenDiscard => "tokenDiscard"
  | .tokenEmit => "tokenEmit"
  | .fragTwoDiscard => "fragTwoDiscard"
  | .fragTwoEmit => "fragTwoEmit"
  | .fragDiscardAndEmit => "fragDiscardAndEmit"
  | .startUndefined => "startUndefined"
  | .panic => "panic"
  | .fuel => "fuel"

def Diag.show (d : Diag) : String :=
  d.kind.show ++ (if d.name.isEmpty then "" else "(" ++ d.name ++ ")") ++ "@" ++ toString d.line

def showDiags (ds : List Diag) : String :=
  if ds.isEmpty then "accept" else " ".intercalate (ds.map Diag.show)

def handleAnalyze (op payload : String) : Option String :=
  if op == "dec.analyze" then
    some (match parseSpec ((payload.splitOn "|").headD "") with
      | some s => "wf=" ++ (if wellFormedB s then "1" else "0") ++ " " ++ showDiags (analyze s)
      | none => "error: malformed case")
  else none

end Lox.Dec.Analyze
