import Lox.Drv.Common
import Lox.Dec.Resolve
/-! Driver ops of the conflict-resolution model: `handleResolve op payload` answers one protocol line,
`none` = unknown op.

`dec.resolve <infos> | <cells>` and `dec.table <infos> | <cells>`: syntax documented at the top of
`/verif/harness/drv/ops_resolve.go`. `dec.resolvedoc` / `dec.tabledoc`: same syntax, answered by the
model with known finding K1 switched off (`resolveOneDoc`); Lean only, used by the check to explain
disagreements. -/
namespace Lox.Dec
open Lox.Drv

def parseInfos (s : String) : Option (List ProdInfo) :=
  ((s.splitOn ";").filter (fun f => !(fields f ' ').isEmpty)).mapM fun f =>
    match parseNats f with
    | some [r, p, a] => if a ≤ 1 then some ⟨r, p, a == 1⟩ else none
    | _ => none

/-- One ','-separated piece of a cell: the calls it stands for. -/
def parseCalls (nprods : Nat) (e : String) : Option (List Call) :=
  match fields e ' ' with
  | "s" :: t :: p :: ps => do
    let t ← t.toNat?
    if t > 65536 then none
    let ps ← (p :: ps).mapM String.toNat?
    if ps.any (· ≥ nprods) then none
    pure (ps.map (Call.shift t))
  | ["r", p] => do
    let p ← p.toNat?
    if p ≥ nprods then none
    pure [Call.reduce p]
  | ["a"] => some [Call.accept]
  | _ => none

def parseCell (nprods : Nat) (c : String) : Option (List Call) :=
  if (fields c ' ').isEmpty then some []
  else ((c.splitOn ",").mapM (parseCalls nprods)).map List.flatten

def showAction : Action → String
  | .shift t ps => "s " ++ showNats (t :: ps)
  | .reduce p => "r " ++ toString p
  | .accept => "a"

def showCell (c : List Action) : String := " , ".intercalate (c.map showAction)

def showPanic : Panic → String
  | .shiftShift => "PANIC shift-shift"
  | .acceptAccept => "PANIC accept-accept"
  | .assert => "PANIC assert"

def b2s (b : Bool) : String := if b then "1" else "0"

def runResolve (perCell : Bool) (payload : String) (doc : Bool := false) : Option String :=
  match payload.splitOn "|" with
  | [is, cs] => do
    let infos ← parseInfos is
    let info : Nat → ProdInfo := fun i => infos.getD i ⟨0, 0, false⟩
    let calls ← (cs.splitOn ";").mapM (parseCell infos.length)
    match calls.mapM buildCell with
    | .error p => some (showPanic p)
    | .ok table =>
      match checkTable info table with
      | .error p => some (showPanic p)
      | .ok (out0, c) =>
        -- `doc`: the cells as the documented resolver (K1 off) leaves them; verdicts are the same
        -- (`Lox.Props.C05.doc_same_verdict`)
        let out := if doc then table.map fun cell =>
            if cell.length == 1 then cell else (resolveOneDoc info cell).1
          else out0
        let cellStrs :=
          if perCell then
            (table.zip out).map fun (cellIn, cellOut) =>
              showCell cellOut ++ " : " ++ b2s (hasConflicts info [cellIn])
          else out.map showCell
        some (" ; ".intercalate cellStrs ++ " | " ++ b2s c)
  | _ => none

def handleResolve (op payload : String) : Option String :=
  match op with
  | "dec.resolve" => some ((runResolve true payload).getD "bad-op")
  | "dec.table" => some ((runResolve false payload).getD "bad-op")
  | "dec.resolvedoc" => some ((runResolve true payload true).getD "bad-op")
  | "dec.tabledoc" => some ((runResolve false payload true).getD "bad-op")
  | _ => none

end Lox.Dec
