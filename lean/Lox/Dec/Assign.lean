/-!
# C06 – binding of action methods to productions (`codegen.AssignActions`)

Executable model of `/repo/internal/codegen/assign_actions.go` (core Lean only; linked into the
driver). The Go type system is a PARAMETER of the model: a case carries a finite universe of types
`Ty := Nat` and the relations `assignable` / `identical` computed by go/types itself, the map
`sliceOf` (`gotypes.NewSlice`) and the two designated types `Token` and `Error`.

Passes of `AssignActions`, in the order of the Go source:

1. `getActionMethods` – every method `ParserType.Method(i)` (source order) whose name has the form
   `on_<rule>[__suffix]` must return exactly one value and must not be variadic; `_onBounds` turns
   `EmitBounds` on. Any diagnostic stops here.
2. per rule name: all methods must return a type identical to the FIRST method's; the name must be a
   rule of the grammar; the rule gets the first method's return type. Any diagnostic stops here.
3. `getReduceTypeForGeneratedRule`, iterated over all productions until nothing changes.
4. every rule except `S'` must have a type. Any diagnostic stops here.
5. `matchMethod` for every production of a user rule: exactly one method of the rule must have as
   many parameters as the production has terms, each term type assignable to its parameter.
   Any diagnostic stops here.
6. every action method must have been bound to some production.

Go panics (failed `assert.True`, index out of range, failed type assertion) are the explicit result
`Result.panic`; they are unreachable for grammars produced by the front end (`WF`, see
`Lox/Props/C06.lean`).
-/
namespace Lox.Dec.Assign

abbrev Ty := Nat

/-- A term of a production as `getTermGoType` sees it: a terminal other than ERROR, the ERROR
terminal, or rule number `r` (`lr1.Rule.Index`). -/
inductive Term where
  | tok
  | err
  | rule (r : Nat)
  deriving DecidableEq, Repr, Inhabited

/-- `codegen.RuleGenerated` (codegen.go): classification of a rule by its name. -/
inductive Gen where
  | user | sprime | zeroOrMore | zeroOrMoreF | oneOrMore | oneOrMoreF | zeroOrOne | list
  deriving DecidableEq, Repr, Inhabited

structure Rule where
  name : String
  gen : Gen
  deriving Repr, Inhabited

/-- `lr1.Prod`: `rule` is `Prod.Rule.Index`. `Rule.Prods` is the sub-list of `Grammar.Prods` with
that rule, in the same order (`Grammar.AddProd` appends to both). -/
structure Prod where
  rule : Nat
  terms : List Term
  deriving Repr, Inhabited

/-- One method of the parser type (`ParserType.Method(i)`): `nres` = `sig.Results().Len()`,
`ret` = type of the first result (meaningful when `nres ≥ 1`), `variadic` = `sig.Variadic()`. -/
structure Method where
  name : String
  params : List Ty
  nres : Nat
  ret : Ty
  variadic : Bool
  deriving Repr, Inhabited

structure Case where
  /-- `gotypes.AssignableTo v t` -/
  assignable : Ty → Ty → Bool
  /-- `gotypes.Identical` -/
  identical : Ty → Ty → Bool
  /-- `gotypes.NewSlice` -/
  sliceOf : Ty → Ty
  tokenTy : Ty
  errorTy : Ty
  rules : List Rule
  prods : List Prod
  /-- in the order of `ParserType.Method(i)` (source order of the declarations) -/
  methods : List Method

/-! ## Naming convention (`ruleFromMethod`) -/

/-- The part of `s` before the first `"__"` (all of `s` if there is none):
`rule[:strings.Index(rule, "__")]`. -/
def cutSep : List Char → List Char
  | [] => []
  | [c] => [c]
  | c :: d :: cs => if c = '_' ∧ d = '_' then [] else c :: cutSep (d :: cs)

/-- `ruleFromMethod` on character lists: `none` when the method is not an action method (Go returns
`""`, and the caller skips the method when the rule part is empty). -/
def ruleOfChars : List Char → Option (List Char)
  | 'o' :: 'n' :: '_' :: rest =>
    match cutSep rest with
    | [] => none
    | r => some r
  | _ => none

def ruleOf (name : String) : Option String := (ruleOfChars name.toList).map String.ofList

def onBoundsName : String := "_onBounds"

/-! ## Diagnostics and results -/

inductive DKind where
  | results      -- "%v: action method must return a single value"
  | variadic     -- "%v: action method cannot be variadic"
  | retConflict  -- "action return type conflict: %v returns …"
  | noRule       -- "action method %v: no rule named %v"
  | untyped      -- "rule missing action method: %v"
  | noMatch      -- "production has no matching action method"
  | ambiguous    -- "multiple action methods matching production"
  | orphan       -- "could not match action method %v to a production"
  deriving DecidableEq, Repr

inductive Subject where
  | method (name : String)
  | rule (r : Nat)
  | prod (p : Nat)
  deriving DecidableEq, Repr

structure Diag where
  kind : DKind
  subj : Subject
  deriving DecidableEq, Repr

/-- What `AssignActions` leaves in the context on success: `ActionMethods` (production ↦ index of
the method in `Case.methods`, `none` for productions of generated rules and of `S'`), `RuleGoTypes`
(`none` only for `S'`) and `EmitBounds`. -/
structure Binding where
  method : List (Option Nat)
  ruleTy : List (Option Ty)
  emitBounds : Bool
  deriving DecidableEq, Repr

inductive Result where
  | ok (b : Binding)
  | fail (ds : List Diag)
  | panic (msg : String)
  deriving DecidableEq, Repr

/-! ## Pass 1: `getActionMethods` -/

def emitBounds (c : Case) : Bool := c.methods.any (·.name == onBoundsName)

def collectDiag (m : Method) : Option Diag :=
  if m.name == onBoundsName then none else
  match ruleOf m.name with
  | none => none
  | some _ =>
    if m.nres ≠ 1 then some ⟨.results, .method m.name⟩
    else if m.variadic then some ⟨.variadic, .method m.name⟩
    else none

def collectDiags (c : Case) : List Diag := c.methods.filterMap collectDiag

/-- An entry of the `actionMethods` map: index in `Case.methods`, rule name, the method. -/
structure Action where
  idx : Nat
  rule : String
  m : Method
  deriving Repr, Inhabited

def mkAction (mi : Method × Nat) : Option Action :=
  if mi.1.name == onBoundsName then none else
  match ruleOf mi.1.name with
  | none => none
  | some r => if mi.1.nres = 1 ∧ mi.1.variadic = false then some ⟨mi.2, r, mi.1⟩ else none

/-- All action methods, in method order (`actionMethods[rule]` is the sub-list with that rule). -/
def actions (c : Case) : List Action := c.methods.zipIdx.filterMap mkAction

def actionsOf (c : Case) (rule : String) : List Action := (actions c).filter (·.rule == rule)

/-! ## Pass 2: return types -/

def hasRule (c : Case) (name : String) : Bool := c.rules.any (·.name == name)

/-- Diagnostics of the loop over the `methods` map for the group of `a` when `a` is visited. -/
def retDiag (c : Case) (a : Action) : List Diag :=
  match actionsOf c a.rule with
  | [] => []
  | f :: _ =>
    if f.idx = a.idx then
      (if hasRule c a.rule then [] else [⟨.noRule, .method a.m.name⟩])
    else if c.identical a.m.ret f.m.ret then [] else [⟨.retConflict, .method a.m.name⟩]

def retDiags (c : Case) : List Diag := (actions c).flatMap (retDiag c)

/-- `RuleGoTypes` entries: `junk` is `gotypes.NewSlice(nil)` (a slice whose element type is the nil
interface), which `getReduceTypeForGeneratedRule` builds when the element has no type yet. -/
inductive RTy where
  | ty (t : Ty)
  | junk
  deriving DecidableEq, Repr

abbrev TyMap := List (Option RTy)

def TyMap.get (tm : TyMap) (r : Nat) : Option RTy := (tm[r]?).join

/-- `RuleGoTypes` after pass 2: the return type of the first action method of the rule's name. -/
def userTy (c : Case) (r : Rule) : Option RTy :=
  match actionsOf c r.name with
  | [] => none
  | f :: _ => some (.ty f.m.ret)

def initTypes (c : Case) : TyMap := c.rules.map (userTy c)

/-! ## Pass 3: generated rules -/

def termTy (c : Case) (tm : TyMap) : Term → Option RTy
  | .tok => some (.ty c.tokenTy)
  | .err => some (.ty c.errorTy)
  | .rule r => tm.get r

/-- `gotypes.NewSlice(getTermGoType(term))`. -/
def sliceOfR (c : Case) : Option RTy → RTy
  | some (.ty t) => .ty (c.sliceOf t)
  | _ => .junk

/-- `gotypes.Identical` on `RuleGoTypes` entries. -/
def identicalR (c : Case) : RTy → RTy → Bool
  | .ty a, .ty b => c.identical a b
  | .junk, .junk => true
  | _, _ => false

/-- `rule.Prods` as indices into `Grammar.Prods`. -/
def ruleProds (c : Case) (r : Nat) : List Nat :=
  (c.prods.zipIdx.filter (fun pi => pi.1.rule == r)).map (·.2)

def genOf (c : Case) (r : Nat) : Option Gen := (c.rules[r]?).map (·.gen)

def termsOf (c : Case) (p : Nat) : List Term := ((c.prods[p]?).map (·.terms)).getD []

inductive Red where
  | nil
  | ty (t : RTy)
  | panic (msg : String)
  deriving DecidableEq, Repr

/-- The `generatedOneOrMore, generatedOneOrMoreF, generatedList` case for rule `r`, production `p`. -/
def reduceSlice (c : Case) (tm : TyMap) (r p : Nat) : Red :=
  match ruleProds c r with
  | _ :: p1 :: _ =>
    if p ≠ p1 then .nil else
    match termsOf c p with
    | x :: _ => .ty (sliceOfR c (termTy c tm x))
    | [] => .panic "index out of range: prod.Terms[0]"
  | _ => .panic "index out of range: rule.Prods[1]"

/-- The `generatedZeroOrOne` case. -/
def reduceOpt (c : Case) (tm : TyMap) (r p : Nat) : Red :=
  match ruleProds c r with
  | p0 :: _ =>
    if p ≠ p0 then .nil else
    match termsOf c p with
    | x :: _ => (match termTy c tm x with | none => .nil | some t => .ty t)
    | [] => .panic "index out of range: prod.Terms[0]"
  | [] => .panic "index out of range: rule.Prods[0]"

/-- The recursive call `getReduceTypeForGeneratedRule(termCplus, termCplus.Prods[1])` followed by
`assert.True(typeCplus != nil)`. -/
def reduceInner (c : Case) (tm : TyMap) (h : Nat) : Red :=
  match ruleProds c h with
  | _ :: p1 :: _ =>
    (match genOf c h with
     | some .oneOrMore | some .oneOrMoreF | some .list =>
       (match reduceSlice c tm h p1 with
        | .nil => .panic "assert: typeCplus != nil"
        | x => x)
     | none => .panic "rule index out of range"
     | _ => .panic "assert: typeCplus != nil")
  | _ => .panic "index out of range: termCplus.Prods[1]"

/-- The `generatedZeroOrMore, generatedZeroOrMoreF` case. -/
def reduceStar (c : Case) (tm : TyMap) (r p : Nat) : Red :=
  match ruleProds c r with
  | p0 :: _ =>
    if p ≠ p0 then .nil else
    match termsOf c p with
    | .rule h :: _ => reduceInner c tm h
    | _ :: _ => .panic "type assertion: prod.Terms[0].(*lr1.Rule)"
    | [] => .panic "index out of range: prod.Terms[0]"
  | [] => .panic "index out of range: rule.Prods[0]"

/-- `getReduceTypeForGeneratedRule(rule, prod)` for `rule = Rules[r]`, `prod = Prods[p]`. -/
def reduceType (c : Case) (tm : TyMap) (r p : Nat) : Red :=
  match genOf c r with
  | none => .panic "rule index out of range"
  | some .user | some .sprime => .nil
  | some .zeroOrOne => reduceOpt c tm r p
  | some .zeroOrMore | some .zeroOrMoreF => reduceStar c tm r p
  | some .oneOrMore | some .oneOrMoreF | some .list => reduceSlice c tm r p

/-- One iteration of `for _, prod := range c.ParserGrammar.Prods` inside the `changed` loop. -/
def passStep (c : Case) (st : Except String (TyMap × Bool)) (pi : Prod × Nat) :
    Except String (TyMap × Bool) :=
  match st with
  | .error e => .error e
  | .ok (tm, ch) =>
    match reduceType c tm pi.1.rule pi.2 with
    | .panic m => .error m
    | .nil => .ok (tm, ch)
    | .ty t =>
      match tm.get pi.1.rule with
      | some e => if identicalR c e t then .ok (tm, ch) else .error "assert: Identical(existing, typ)"
      | none => .ok (tm.set pi.1.rule (some t), true)

def pass (c : Case) (tm : TyMap) : Except String (TyMap × Bool) :=
  c.prods.zipIdx.foldl (passStep c) (.ok (tm, false))

/-- `for changed { … }`; every pass that changes something types one more rule, so
`rules.length + 1` rounds always suffice (`Lox.Props.C06.derive_no_fuel`). -/
def deriveLoop (c : Case) : Nat → TyMap → Except String TyMap
  | 0, _ => .error "fuel"
  | f + 1, tm =>
    match pass c tm with
    | .error e => .error e
    | .ok (tm', ch) => if ch then deriveLoop c f tm' else .ok tm'

def derive (c : Case) : Except String TyMap := deriveLoop c (c.rules.length + 1) (initTypes c)

/-! ## Pass 4: every rule typed -/

def untypedDiag (tm : TyMap) (ri : Rule × Nat) : Option Diag :=
  if ri.1.gen = .sprime then none
  else if (tm.get ri.2).isNone then some ⟨.untyped, .rule ri.2⟩ else none

def untypedDiags (c : Case) (tm : TyMap) : List Diag := c.rules.zipIdx.filterMap (untypedDiag tm)

def finalTy : Option RTy → Option (Option Ty)
  | none => some none
  | some (.ty t) => some (some t)
  | some .junk => none

/-- The final `RuleGoTypes`; `none` when a `NewSlice(nil)` survived (then the template would print
`[]<nil>`; unreachable, see the module docstring). -/
def finalTypes : TyMap → Option (List (Option Ty))
  | [] => some []
  | e :: l =>
    match finalTy e, finalTypes l with
    | some x, some xs => some (x :: xs)
    | _, _ => none

/-! ## Pass 5: matching -/

def tyGet (ty : List (Option Ty)) (r : Nat) : Option Ty := (ty[r]?).join

def termTyF (c : Case) (ty : List (Option Ty)) : Term → Option Ty
  | .tok => some c.tokenTy
  | .err => some c.errorTy
  | .rule r => tyGet ty r

/-- parameter-wise `gotypes.AssignableTo(termGoType, param)`. -/
def argsOK (c : Case) (ty : List (Option Ty)) : List Term → List Ty → Bool
  | [], [] => true
  | t :: ts, q :: qs =>
    (match termTyF c ty t with
     | some tt => c.assignable tt q
     | none => false) && argsOK c ty ts qs
  | _, _ => false

/-- `isMatch` of `matchMethod`. -/
def isMatch (c : Case) (ty : List (Option Ty)) (terms : List Term) (m : Method) : Bool :=
  argsOK c ty terms m.params

def ruleName (c : Case) (r : Nat) : String := ((c.rules[r]?).map (·.name)).getD ""

/-- `matchMethod(prod, methods[prod.Rule.Name])`, as indices into `Case.methods`. -/
def matchesOf (c : Case) (ty : List (Option Ty)) (p : Prod) : List Nat :=
  ((actionsOf c (ruleName c p.rule)).filter (fun a => isMatch c ty p.terms a.m)).map (·.idx)

def isUserProd (c : Case) (p : Prod) : Bool := genOf c p.rule == some .user

def bindProd (c : Case) (ty : List (Option Ty)) (p : Prod) : Option Nat :=
  if isUserProd c p then
    match matchesOf c ty p with
    | [m] => some m
    | _ => none
  else none

def matchDiag (c : Case) (ty : List (Option Ty)) (pi : Prod × Nat) : Option Diag :=
  if isUserProd c pi.1 then
    match matchesOf c ty pi.1 with
    | [] => some ⟨.noMatch, .prod pi.2⟩
    | [_] => none
    | _ => some ⟨.ambiguous, .prod pi.2⟩
  else none

def matchDiags (c : Case) (ty : List (Option Ty)) : List Diag :=
  c.prods.zipIdx.filterMap (matchDiag c ty)

/-! ## Pass 6: orphans -/

def orphanDiag (bound : List (Option Nat)) (a : Action) : Option Diag :=
  if bound.contains (some a.idx) then none else some ⟨.orphan, .method a.m.name⟩

def orphanDiags (c : Case) (bound : List (Option Nat)) : List Diag :=
  (actions c).filterMap (orphanDiag bound)

/-! ## `AssignActions` -/

def assign (c : Case) : Result :=
  let d1 := collectDiags c
  if d1 ≠ [] then .fail d1 else
  let d2 := retDiags c
  if d2 ≠ [] then .fail d2 else
  match derive c with
  | .error e => .panic e
  | .ok tm =>
    let d4 := untypedDiags c tm
    if d4 ≠ [] then .fail d4 else
    match finalTypes tm with
    | none => .panic "NewSlice(nil) reaches matchMethod"
    | some ty =>
      let d5 := matchDiags c ty
      if d5 ≠ [] then .fail d5 else
      let bound := c.prods.map (bindProd c ty)
      let d6 := orphanDiags c bound
      if d6 ≠ [] then .fail d6 else
      .ok ⟨bound, ty, emitBounds c⟩

end Lox.Dec.Assign
