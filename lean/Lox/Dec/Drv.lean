import Lox.Drv.Common
import Lox.Dec.DrvResolve
import Lox.Dec.DrvTerminals
/-! Driver ops of the Dec vertical: `handle op payload` answers one protocol line, `none` = unknown op.
Each sub-area keeps its ops in its own module (`DrvResolve`: `dec.resolve`, `dec.table`;
`DrvTerminals`: `dec.terminals`, `dec.createnames`); this module only chains them. -/
namespace Lox.Dec

def handle (op payload : String) : Option String :=
  (handleResolve op payload).orElse fun _ =>
  Terminals.handleTerminals op payload

end Lox.Dec
