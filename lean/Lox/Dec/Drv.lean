import Lox.Drv.Common
/-! Driver ops of the Dec vertical: `handle op payload` answers one protocol line, `none` = unknown op. -/
namespace Lox.Dec

def handle (_op _payload : String) : Option String := none

end Lox.Dec
