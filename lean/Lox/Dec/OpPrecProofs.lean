import Lox.Dec.OpPrec
/-!
# The operator-precedence machine computes the precedence-climbing tree

Helper lemmas for `Lox.Props.C05.op_machine_climb`.

Idea: the machine's stack is the recursion stack of `climbLoop`. A frame `(l, o)` stands for an
activation that has consumed `l o` and waits for the right operand of `o`, which is being parsed
with minimal precedence `nextMin o`. `unwind st r` says what the pending activations do once the
innermost one returns `r`. The stack invariant `Inv` is "each operator was accepted by the loop
below it", i.e. precedences strictly increase towards the top, or stay equal only across
right-associative operators.
-/
namespace Lox.Dec.OpPrec

variable {Op Atom : Type}

/-! ## Fuel -/

theorem climbLoop_length (table : Op → Nat × Bool) :
    ∀ (fuel m : Nat) (lhs : Tree Op Atom) (ws : List (Op × Atom)),
      (climbLoop table fuel m lhs ws).2.length ≤ ws.length := by
  intro fuel
  induction fuel with
  | zero => intro m lhs ws; simp [climbLoop]
  | succ f ih =>
    intro m lhs ws
    cases ws with
    | nil => simp [climbLoop]
    | cons w rest =>
      obtain ⟨op, a⟩ := w
      simp only [climbLoop]
      split
      · exact Nat.le_refl _
      · have h1 := ih (nextMin table op) (.leaf a) rest
        have h2 := ih m (.node op lhs (climbLoop table f (nextMin table op) (.leaf a) rest).1)
          (climbLoop table f (nextMin table op) (.leaf a) rest).2
        simp only [List.length_cons]
        omega

/-- More fuel than `ws.length` changes nothing. -/
theorem climbLoop_fuel (table : Op → Nat × Bool) :
    ∀ (fuel fuel' m : Nat) (lhs : Tree Op Atom) (ws : List (Op × Atom)),
      ws.length < fuel → fuel ≤ fuel' →
      climbLoop table fuel' m lhs ws = climbLoop table fuel m lhs ws := by
  intro fuel
  induction fuel with
  | zero => intro fuel' m lhs ws h; omega
  | succ f ih =>
    intro fuel' m lhs ws hlen hle
    obtain ⟨f', rfl⟩ : ∃ f', fuel' = f' + 1 := ⟨fuel' - 1, by omega⟩
    cases ws with
    | nil => simp [climbLoop]
    | cons w rest =>
      obtain ⟨op, a⟩ := w
      simp only [List.length_cons] at hlen
      simp only [climbLoop]
      split
      · rfl
      · have e1 := ih f' (nextMin table op) (.leaf a) rest (by omega) (by omega)
        rw [e1]
        have hl := climbLoop_length table f (nextMin table op) (.leaf a) rest
        exact ih f' m _ _ (by omega) (by omega)

/-- `climbLoop` with enough fuel. -/
def climbFrom (table : Op → Nat × Bool) (m : Nat) (lhs : Tree Op Atom) (ws : List (Op × Atom)) :
    Tree Op Atom × List (Op × Atom) :=
  climbLoop table (ws.length + 1) m lhs ws

theorem climbFrom_nil (table : Op → Nat × Bool) (m : Nat) (lhs : Tree Op Atom) :
    climbFrom table m lhs [] = (lhs, []) := by
  simp [climbFrom, climbLoop]

/-- The recursion equation of precedence climbing, free of fuel. -/
theorem climbFrom_cons (table : Op → Nat × Bool) (m : Nat) (lhs : Tree Op Atom) (op : Op) (a : Atom)
    (rest : List (Op × Atom)) :
    climbFrom table m lhs ((op, a) :: rest) =
      if (table op).1 < m then (lhs, (op, a) :: rest)
      else
        climbFrom table m (.node op lhs (climbFrom table (nextMin table op) (.leaf a) rest).1)
          (climbFrom table (nextMin table op) (.leaf a) rest).2 := by
  simp only [climbFrom, List.length_cons, climbLoop]
  split
  · rfl
  · have hl := climbLoop_length table (rest.length + 1) (nextMin table op) (.leaf a) rest
    exact climbLoop_fuel table _ _ m _ _ (by omega) (by omega)

theorem climb_eq (table : Op → Nat × Bool) (a0 : Atom) (ws : List (Op × Atom)) :
    climb table a0 ws = (climbFrom table 0 (.leaf a0) ws).1 := rfl

/-! ## Stack ↔ pending activations -/

/-- Minimal precedence of the innermost pending activation. -/
def level (table : Op → Nat × Bool) : Stack Op Atom → Nat
  | [] => 0
  | (_, o) :: _ => nextMin table o

/-- Stack invariant: every operator on the stack was acceptable to the loop below it
(`level` of the rest `≤` its precedence): precedences strictly increase towards the top, or stay
equal only across right-associative operators. -/
def Inv (table : Op → Nat × Bool) : Stack Op Atom → Prop
  | [] => True
  | (_, o) :: st => level table st ≤ (table o).1 ∧ Inv table st

/-- What the pending activations compute once the innermost returns `r`. -/
def unwind (table : Op → Nat × Bool) :
    Stack Op Atom → Tree Op Atom × List (Op × Atom) → Tree Op Atom
  | [], r => r.1
  | (l, o) :: st, r => unwind table st (climbFrom table (level table st) (.node o l r.1) r.2)

theorem unwind_end (table : Op → Nat × Bool) :
    ∀ (st : Stack Op Atom) (t : Tree Op Atom), unwind table st (t, []) = reduceAll st t := by
  intro st
  induction st with
  | nil => intro t; rfl
  | cons f st ih =>
    intro t
    obtain ⟨l, o⟩ := f
    simp only [unwind, reduceAll, climbFrom_nil]
    exact ih _

/-- One input pair: the reductions the machine performs before shifting `op` are exactly the
returns of the activations whose minimal precedence `op` does not reach. -/
theorem unwind_step (table : Op → Nat × Bool) (dec : Op → Op → Bool)
    (hdec : DocumentedDecision table dec) (op : Op) (a : Atom) (rest : List (Op × Atom)) :
    ∀ (st : Stack Op Atom) (t : Tree Op Atom), Inv table st →
      unwind table st (climbFrom table (level table st) t ((op, a) :: rest)) =
        unwind table (((reduceWhile dec op st t).2, op) :: (reduceWhile dec op st t).1)
          (climbFrom table (nextMin table op) (.leaf a) rest) ∧
      Inv table (((reduceWhile dec op st t).2, op) :: (reduceWhile dec op st t).1) := by
  intro st
  induction st with
  | nil =>
    intro t _
    simp only [level, climbFrom_cons, Nat.not_lt_zero, if_false, reduceWhile, unwind, Inv,
      Nat.zero_le, and_self]
  | cons f st ih =>
    intro t hinv
    obtain ⟨l, o⟩ := f
    obtain ⟨hlo, hinv'⟩ := hinv
    by_cases hlt : (table op).1 < nextMin table o
    · -- `op` does not reach the level of the activation waiting for `o`'s operand: it returns
      have hd : dec o op = true := by
        rw [hdec]
        unfold nextMin at hlt
        cases hr : (table o).2 with
        | true => rw [hr] at hlt; simp at hlt; exact Or.inl hlt
        | false =>
          rw [hr] at hlt; simp at hlt
          by_cases h : (table op).1 < (table o).1
          · exact Or.inl h
          · exact Or.inr ⟨by omega, rfl⟩
      have hrw : reduceWhile dec op ((l, o) :: st) t = reduceWhile dec op st (.node o l t) := by
        simp [reduceWhile, hd]
      rw [hrw]
      have := ih (.node o l t) hinv'
      simpa only [level, climbFrom_cons, hlt, if_true, unwind] using this
    · -- `op` is accepted by the innermost loop: shift
      have hd : dec o op = false := by
        cases h : dec o op with
        | false => rfl
        | true =>
          exfalso
          rw [hdec] at h
          unfold nextMin at hlt
          rcases h with h | ⟨h1, h2⟩
          · cases hr : (table o).2 <;> rw [hr] at hlt <;> simp at hlt <;> omega
          · rw [h2] at hlt; simp at hlt; omega
      have hrw : reduceWhile dec op ((l, o) :: st) t = ((l, o) :: st, t) := by
        simp [reduceWhile, hd]
      rw [hrw]
      refine ⟨?_, ?_⟩
      · simp only [level, climbFrom_cons, hlt, if_false, unwind]
      · exact ⟨by simpa only [level] using Nat.le_of_not_lt hlt, hlo, hinv'⟩

/-- The machine started in any configuration satisfying the invariant finishes the pending
precedence-climbing activations. -/
theorem run_eq_unwind (table : Op → Nat × Bool) (dec : Op → Op → Bool)
    (hdec : DocumentedDecision table dec) :
    ∀ (ws : List (Op × Atom)) (st : Stack Op Atom) (t : Tree Op Atom), Inv table st →
      run dec st t ws = unwind table st (climbFrom table (level table st) t ws) := by
  intro ws
  induction ws with
  | nil =>
    intro st t _
    simp only [run, climbFrom_nil, unwind_end]
  | cons w rest ih =>
    intro st t hinv
    obtain ⟨op, a⟩ := w
    obtain ⟨hstep, hinv'⟩ := unwind_step table dec hdec op a rest st t hinv
    simp only [run]
    rw [ih _ _ hinv', hstep]
    rfl

theorem opParse_eq_climb (table : Op → Nat × Bool) (dec : Op → Op → Bool)
    (hdec : DocumentedDecision table dec) (a0 : Atom) (ws : List (Op × Atom)) :
    opParse dec a0 ws = climb table a0 ws := by
  rw [opParse, run_eq_unwind table dec hdec ws [] (.leaf a0) trivial, climb_eq]
  rfl

end Lox.Dec.OpPrec
