import Lox.Rang3.Model
/-! Order-independence arguments for C13 "output is deterministic and independent of earlier runs".
Core Lean only.

Go randomises the iteration order of built-in maps. lox ranges over maps in a handful of places;
each such loop body either (1) collects and then sorts by a key that is unique, (2) only inserts
into another set/map, or (3) only looks up. This file proves that in cases (1) and (2) the result
does not depend on the order, for all lists. A map iteration is modelled as an arbitrary
permutation of the entries (`List.Perm`) or, where only the set matters, as any list with the same
members. Go's `slices.SortFunc`/`sort.Slice` are unstable and their algorithm unspecified, so the
sort theorems are stated for *every* function that returns a sorted permutation. -/
namespace Lox.Dec.Order

/-! ### 1. Sorting by a unique key -/

/-- `le` is a (decidable) linear order on keys — what a Go `cmp`/`less` function must be. -/
structure IsLinearLe {κ : Type} (le : κ → κ → Bool) : Prop where
  total : ∀ a b, le a b = true ∨ le b a = true
  trans : ∀ a b c, le a b = true → le b c = true → le a c = true
  antisymm : ∀ a b, le a b = true → le b a = true → a = b

variable {α κ : Type}

/-- Sorted by `key` under `le`. -/
def SortedBy (le : κ → κ → Bool) (key : α → κ) (l : List α) : Prop :=
  l.Pairwise (fun a b => le (key a) (key b) = true)

/-- Elements at different positions have different keys. -/
def KeysDistinct (key : α → κ) (l : List α) : Prop :=
  l.Pairwise (fun a b => key a ≠ key b)

/-- `sort` returns a sorted permutation of its input (any algorithm, stable or not). -/
def IsSortBy (le : κ → κ → Bool) (key : α → κ) (sort : List α → List α) : Prop :=
  ∀ l, (sort l).Perm l ∧ SortedBy le key (sort l)

theorem KeysDistinct.eq_of_key_eq {key : α → κ} {l : List α} (hd : KeysDistinct key l)
    {a b : α} (ha : a ∈ l) (hb : b ∈ l) (h : key a = key b) : a = b := by
  induction l with
  | nil => cases ha
  | cons x xs ih =>
    rw [KeysDistinct, List.pairwise_cons] at hd
    rcases List.mem_cons.mp ha with rfl | ha'
    · rcases List.mem_cons.mp hb with rfl | hb'
      · rfl
      · exact absurd h (hd.1 b hb')
    · rcases List.mem_cons.mp hb with rfl | hb'
      · exact absurd h.symm (hd.1 a ha')
      · exact ih hd.2 ha' hb'

theorem KeysDistinct.perm {key : α → κ} {l₁ l₂ : List α} (hp : l₁.Perm l₂)
    (hd : KeysDistinct key l₁) : KeysDistinct key l₂ :=
  (hp.pairwise_iff (fun h => Ne.symm h)).mp hd

/-- Two lists sorted by a relation that is antisymmetric on their members and that are
permutations of each other are equal. -/
theorem eq_of_perm_of_pairwise {R : α → α → Prop} :
    ∀ {l₁ l₂ : List α}, l₁.Perm l₂ →
      (∀ a b, a ∈ l₁ → b ∈ l₁ → R a b → R b a → a = b) →
      l₁.Pairwise R → l₂.Pairwise R → l₁ = l₂
  | [], l₂, hp, _, _, _ => (List.Perm.nil_eq hp)
  | _ :: _, [], hp, _, _, _ => absurd hp.symm (by simp)
  | a :: t₁, b :: t₂, hp, hanti, h₁, h₂ => by
    have ha : a ∈ b :: t₂ := hp.mem_iff.mp List.mem_cons_self
    have hb : b ∈ a :: t₁ := hp.mem_iff.mpr List.mem_cons_self
    rw [List.pairwise_cons] at h₁ h₂
    have hab : a = b := by
      rcases List.mem_cons.mp ha with h | h
      · exact h
      · rcases List.mem_cons.mp hb with h' | h'
        · exact h'.symm
        · exact hanti a b List.mem_cons_self hb (h₁.1 b h') (h₂.1 a h)
    subst hab
    have ht : t₁.Perm t₂ := List.Perm.cons_inv hp
    have := eq_of_perm_of_pairwise ht
      (fun x y hx hy => hanti x y (List.mem_cons_of_mem _ hx) (List.mem_cons_of_mem _ hy)) h₁.2 h₂.2
    rw [this]

/-- A key-distinct list has exactly one sorted arrangement. -/
theorem sorted_unique {le : κ → κ → Bool} (hle : IsLinearLe le) {key : α → κ} {l₁ l₂ : List α}
    (hp : l₁.Perm l₂) (hd : KeysDistinct key l₁)
    (h₁ : SortedBy le key l₁) (h₂ : SortedBy le key l₂) : l₁ = l₂ :=
  eq_of_perm_of_pairwise hp
    (fun _ _ ha hb hab hba => hd.eq_of_key_eq ha hb (hle.antisymm _ _ hab hba)) h₁ h₂

/-- Whatever the sorting algorithm(s), sorting two permutations of a key-distinct list gives the
same list. -/
theorem sort_perm_any {le : κ → κ → Bool} (hle : IsLinearLe le) {key : α → κ}
    {sort₁ sort₂ : List α → List α} (hs₁ : IsSortBy le key sort₁) (hs₂ : IsSortBy le key sort₂)
    {l₁ l₂ : List α} (hp : l₁.Perm l₂) (hd : KeysDistinct key l₁) : sort₁ l₁ = sort₂ l₂ := by
  have p : (sort₁ l₁).Perm (sort₂ l₂) := ((hs₁ l₁).1.trans hp).trans (hs₂ l₂).1.symm
  exact sorted_unique hle p (hd.perm (hs₁ l₁).1.symm) (hs₁ l₁).2 (hs₂ l₂).2

/-- A concrete sort (structural, so that `decide` can run it): insertion sort on the key. -/
def insertBy (le : κ → κ → Bool) (key : α → κ) (x : α) : List α → List α
  | [] => [x]
  | y :: ys => if le (key x) (key y) then x :: y :: ys else y :: insertBy le key x ys

def sortBy (le : κ → κ → Bool) (key : α → κ) (l : List α) : List α :=
  l.foldr (insertBy le key) []

theorem insertBy_perm (le : κ → κ → Bool) (key : α → κ) (x : α) (l : List α) :
    (insertBy le key x l).Perm (x :: l) := by
  induction l with
  | nil => exact List.Perm.refl _
  | cons y ys ih =>
    unfold insertBy
    split
    · exact List.Perm.refl _
    · exact (ih.cons y).trans (List.Perm.swap x y ys)

theorem insertBy_sorted {le : κ → κ → Bool} (hle : IsLinearLe le) (key : α → κ) (x : α)
    (l : List α) (hs : SortedBy le key l) : SortedBy le key (insertBy le key x l) := by
  induction l with
  | nil => simp [insertBy, SortedBy]
  | cons y ys ih =>
    rw [SortedBy, List.pairwise_cons] at hs
    unfold insertBy
    split
    · rename_i hxy
      refine List.pairwise_cons.mpr ⟨?_, List.pairwise_cons.mpr hs⟩
      intro z hz
      rcases List.mem_cons.mp hz with rfl | hz'
      · exact hxy
      · exact hle.trans _ _ _ hxy (hs.1 z hz')
    · rename_i hxy
      refine List.pairwise_cons.mpr ⟨?_, ih hs.2⟩
      intro z hz
      rcases List.mem_cons.mp ((insertBy_perm le key x ys).mem_iff.mp hz) with rfl | hz'
      · rcases hle.total (key z) (key y) with h | h
        · exact absurd h hxy
        · exact h
      · exact hs.1 z hz'

theorem sortBy_isSort {le : κ → κ → Bool} (hle : IsLinearLe le) (key : α → κ) :
    IsSortBy le key (sortBy le key) := by
  intro l
  induction l with
  | nil => exact ⟨List.Perm.refl _, List.Pairwise.nil⟩
  | cons x xs ih =>
    exact ⟨(insertBy_perm le key x _).trans (ih.1.cons x), insertBy_sorted hle key x _ ih.2⟩

/-- Another algorithm with the same specification: core's merge sort. -/
def mergeSortBy (le : κ → κ → Bool) (key : α → κ) (l : List α) : List α :=
  l.mergeSort (fun a b => le (key a) (key b))

theorem mergeSortBy_isSort {le : κ → κ → Bool} (hle : IsLinearLe le) (key : α → κ) :
    IsSortBy le key (mergeSortBy le key) := by
  intro l
  refine ⟨List.mergeSort_perm _ _, ?_⟩
  apply List.pairwise_mergeSort
  · intro a b c; exact hle.trans _ _ _
  · intro a b
    rcases hle.total (key a) (key b) with h | h <;> simp [h]

/-! #### The comparators lox sorts with -/

/-- Strings (`cmp.Compare`/`sort.Strings`/`slices.Sort` on terminal, term, mode names, import
paths). Go compares bytes, Lean code points; on valid UTF-8 these agree, and the theorems need
only that it is a linear order. -/
def leString (a b : String) : Bool := decide (a ≤ b)

theorem leString_linear : IsLinearLe leString where
  total a b := by
    rcases String.le_total a b with h | h
    · exact Or.inl (decide_eq_true h)
    · exact Or.inr (decide_eq_true h)
  trans a b c h₁ h₂ := decide_eq_true (String.le_trans (of_decide_eq_true h₁) (of_decide_eq_true h₂))
  antisymm a b h₁ h₂ := String.le_antisymm (of_decide_eq_true h₁) (of_decide_eq_true h₂)

/-- Naturals (mode index, state id, production index). -/
def leNat (a b : Nat) : Bool := decide (a ≤ b)

theorem leNat_linear : IsLinearLe leNat where
  total a b := by
    rcases Nat.le_total a b with h | h
    · exact Or.inl (decide_eq_true h)
    · exact Or.inr (decide_eq_true h)
  trans a b c h₁ h₂ := decide_eq_true (Nat.le_trans (of_decide_eq_true h₁) (of_decide_eq_true h₂))
  antisymm a b h₁ h₂ := Nat.le_antisymm (of_decide_eq_true h₁) (of_decide_eq_true h₂)

open Lox.Rang3 in
theorem range_lt_iff (a b : Range) : a.lt b = true ↔ a.b < b.b ∨ (a.b = b.b ∧ a.e < b.e) := by
  simp only [Range.lt, cmp]
  repeat' split
  all_goals simp only [decide_eq_true_eq]
  all_goals omega

open Lox.Rang3 in
theorem range_le_iff (a b : Range) : a.le b = true ↔ a.b < b.b ∨ (a.b = b.b ∧ a.e ≤ b.e) := by
  simp only [Range.le, cmp]
  repeat' split
  all_goals simp only [decide_eq_true_eq]
  all_goals omega

open Lox.Rang3 in
theorem range_eq {a b : Range} (h₁ : a.b = b.b) (h₂ : a.e = b.e) : a = b := by
  cases a; cases b; simp_all

/-- `rang3.Compare` (as `≤ 0`) is a linear order on ranges. -/
theorem leRange_linear : IsLinearLe Lox.Rang3.Range.le where
  total a b := by rw [range_le_iff, range_le_iff]; omega
  trans a b c := by rw [range_le_iff, range_le_iff, range_le_iff]; omega
  antisymm a b := by
    rw [range_le_iff, range_le_iff]
    intro h₁ h₂
    exact range_eq (by omega) (by omega)

/-! ### 2. Insert-only loops -/

/-- A set representation: membership and an insert that adds exactly its argument. -/
structure SetRep (α σ : Type) where
  mem : α → σ → Prop
  ins : α → σ → σ
  mem_ins : ∀ x y s, mem y (ins x s) ↔ y = x ∨ mem y s

/-- `for x := range l { s.Add(x) }`. -/
def SetRep.addAll {σ : Type} (R : SetRep α σ) (s : σ) (l : List α) : σ :=
  l.foldl (fun s x => R.ins x s) s

theorem SetRep.mem_addAll {σ : Type} (R : SetRep α σ) (s : σ) (l : List α) (y : α) :
    R.mem y (R.addAll s l) ↔ y ∈ l ∨ R.mem y s := by
  induction l generalizing s with
  | nil => simp [SetRep.addAll]
  | cons x xs ih =>
    simp only [SetRep.addAll, List.foldl_cons] at ih ⊢
    rw [ih, R.mem_ins, List.mem_cons]
    constructor
    · rintro (h | h | h)
      · exact Or.inl (Or.inr h)
      · exact Or.inl (Or.inl h)
      · exact Or.inr h
    · rintro ((h | h) | h)
      · exact Or.inr (Or.inl h)
      · exact Or.inl h
      · exact Or.inr (Or.inr h)

/-- Duplicate-free list as a set (`if !contains { append }`). -/
def insertDedup [DecidableEq α] (x : α) (s : List α) : List α := if x ∈ s then s else x :: s

def listSet [DecidableEq α] : SetRep α (List α) where
  mem y s := y ∈ s
  ins := insertDedup
  mem_ins x y s := by
    unfold insertDedup
    split
    · constructor
      · exact Or.inr
      · rintro (rfl | h)
        · assumption
        · exact h
    · exact List.mem_cons

/-- Finite map as a function; `m[k] = v`. -/
def mapSet {κ ν : Type} [DecidableEq κ] (m : κ → Option ν) (kv : κ × ν) : κ → Option ν :=
  fun k => if k = kv.1 then some kv.2 else m k

theorem mapSet_foldl {κ ν : Type} [DecidableEq κ] (m : κ → Option ν) (l : List (κ × ν))
    (hn : (l.map (·.1)).Nodup) (k : κ) (v : ν) :
    l.foldl mapSet m k = some v ↔ (k, v) ∈ l ∨ (k ∉ l.map (·.1) ∧ m k = some v) := by
  induction l generalizing m with
  | nil => simp
  | cons kv t ih =>
    obtain ⟨k', v'⟩ := kv
    rw [List.map_cons, List.nodup_cons] at hn
    rw [List.foldl_cons, ih _ hn.2]
    simp only [mapSet, List.mem_cons, Prod.mk.injEq, List.map_cons, not_or]
    by_cases hk : k = k'
    · subst hk
      simp only [true_and, if_true, Option.some.injEq, not_true_eq_false, false_and, or_false]
      constructor
      · rintro (h | ⟨_, h⟩)
        · exact absurd (List.mem_map.mpr ⟨(k, v), h, rfl⟩) hn.1
        · exact Or.inl h.symm
      · rintro (h | h)
        · exact Or.inr ⟨hn.1, h.symm⟩
        · exact absurd (List.mem_map.mpr ⟨(k, v), h, rfl⟩) hn.1
    · simp [hk]

/-! ### 3. The range heap -/

open Lox.Rang3

theorem mem_heapPush (r y : Range) (h : List Range) : y ∈ heapPush r h ↔ y = r ∨ y ∈ h := by
  induction h with
  | nil => simp [heapPush]
  | cons x xs ih =>
    unfold heapPush
    split
    · subst_vars
      simp only [List.mem_cons]
      constructor
      · exact Or.inr
      · rintro (h | h)
        · exact Or.inl h
        · exact h
    · split
      · simp only [List.mem_cons]
      · simp only [List.mem_cons, ih]
        constructor
        · rintro (h | h | h)
          · exact Or.inr (Or.inl h)
          · exact Or.inl h
          · exact Or.inr (Or.inr h)
        · rintro (h | h | h)
          · exact Or.inr (Or.inl h)
          · exact Or.inl h
          · exact Or.inr (Or.inr h)

/-- Strictly increasing for `rang3.Compare`: the heap invariant of the list model. -/
def StrictSorted (h : List Range) : Prop := h.Pairwise (fun a b => a.lt b = true)

theorem strictSorted_heapPush (r : Range) (h : List Range) (hs : StrictSorted h) :
    StrictSorted (heapPush r h) := by
  induction h with
  | nil => simp [heapPush, StrictSorted]
  | cons x xs ih =>
    rw [StrictSorted, List.pairwise_cons] at hs
    unfold heapPush
    split
    · exact List.pairwise_cons.mpr hs
    · rename_i hne
      split
      · rename_i hlt
        refine List.pairwise_cons.mpr ⟨?_, List.pairwise_cons.mpr hs⟩
        intro y hy
        rcases List.mem_cons.mp hy with rfl | hy'
        · exact hlt
        · have := hs.1 y hy'
          rw [range_lt_iff] at *
          omega
      · rename_i hnlt
        refine List.pairwise_cons.mpr ⟨?_, ih hs.2⟩
        intro y hy
        rcases (mem_heapPush r y xs).mp hy with rfl | hy'
        · rw [range_lt_iff] at *
          have : ¬ (y.b = x.b ∧ y.e = x.e) := fun h => hne (range_eq h.1 h.2)
          omega
        · exact hs.1 y hy'

/-- The heap model as a set representation. -/
def heapSet : SetRep Range (List Range) where
  mem y s := y ∈ s
  ins := heapPush
  mem_ins x y s := mem_heapPush x y s

theorem heapOf_eq_addAll (l : List Range) : heapOf l = heapSet.addAll [] l := rfl

theorem mem_heapOf (l : List Range) (y : Range) : y ∈ heapOf l ↔ y ∈ l := by
  rw [heapOf_eq_addAll]
  have := heapSet.mem_addAll [] l y
  simp only [heapSet, List.not_mem_nil, or_false] at this
  exact this

theorem strictSorted_foldl (l : List Range) (h : List Range) (hs : StrictSorted h) :
    StrictSorted (l.foldl (fun h r => heapPush r h) h) := by
  induction l generalizing h with
  | nil => exact hs
  | cons x xs ih => exact ih _ (strictSorted_heapPush x h hs)

theorem strictSorted_heapOf (l : List Range) : StrictSorted (heapOf l) :=
  strictSorted_foldl l [] List.Pairwise.nil

theorem StrictSorted.nodup {h : List Range} (hs : StrictSorted h) : h.Nodup := by
  refine List.nodup_iff_pairwise_ne.mpr (List.Pairwise.imp ?_ hs)
  intro a b hlt hab
  subst hab
  rw [range_lt_iff] at hlt
  omega

/-- Strictly sorted lists are canonical: equal as soon as they have the same members. -/
theorem StrictSorted.ext {h₁ h₂ : List Range} (s₁ : StrictSorted h₁) (s₂ : StrictSorted h₂)
    (hm : ∀ x, x ∈ h₁ ↔ x ∈ h₂) : h₁ = h₂ := by
  have hp : h₁.Perm h₂ := (List.perm_ext_iff_of_nodup s₁.nodup s₂.nodup).mpr hm
  refine eq_of_perm_of_pairwise hp ?_ s₁ s₂
  intro a b _ _ hab hba
  rw [range_lt_iff] at hab hba
  omega

/-! ### 4. `PreParseGo`: which Go file supplies the package name -/

/-- `filepath.Ext` on a name without path separators (a directory entry): the suffix starting at
the last `'.'`, empty if there is none. -/
def extChars (cs : List Char) : List Char :=
  if '.' ∈ cs then '.' :: (cs.reverse.takeWhile (· != '.')).reverse else []

def hasGoExt (name : String) : Bool := extChars name.toList == ['.', 'g', 'o']

/-- `os.DirEntry` as far as `PreParseGo` looks at it. -/
structure DirEntry where
  name : String
  isDir : Bool
  deriving DecidableEq, Repr

/-- `baseGenGo`, `lexerGenGo`, `parserGenGo` (`internal/codegen/codegen.go`). -/
def generatedNames : List String := ["base.gen.go", "lexer.gen.go", "parser.gen.go"]

def isGenerated (e : DirEntry) : Bool := generatedNames.contains e.name

/-- The `if` inside the loop of `PreParseGo` (`internal/codegen/pre_parser_go.go`). -/
def isUserGo (e : DirEntry) : Bool :=
  !e.isDir && hasGoExt e.name && e.name != "base.gen.go" && e.name != "lexer.gen.go"
    && e.name != "parser.gen.go"

/-- The loop of `PreParseGo`: every match overwrites `oneSourceName`; `none` = still `""`
("package contains no Go sources"). -/
def pickSource (es : List DirEntry) : Option String :=
  es.foldl (fun acc e => if isUserGo e then some e.name else acc) none

/-- The loop as it was on the pinned tree (before the `fix:` commit for D12): `base.gen.go` was
not excluded. -/
def isUserGoPinned (e : DirEntry) : Bool :=
  !e.isDir && hasGoExt e.name && e.name != "lexer.gen.go" && e.name != "parser.gen.go"

def pickSourcePinned (es : List DirEntry) : Option String :=
  es.foldl (fun acc e => if isUserGoPinned e then some e.name else acc) none

theorem pickSource_foldl (es : List DirEntry) (acc : Option String) :
    es.foldl (fun acc e => if isUserGo e then some e.name else acc) acc =
      (((es.filter isUserGo).getLast?).map (·.name)).or acc := by
  induction es generalizing acc with
  | nil => simp
  | cons e es ih =>
    rw [List.foldl_cons, ih]
    by_cases h : isUserGo e = true
    · simp only [h, if_true, List.filter_cons_of_pos]
      cases hl : (es.filter isUserGo).getLast? with
      | none =>
        have : es.filter isUserGo = [] := List.getLast?_eq_none_iff.mp hl
        simp [this]
      | some x =>
        have hne : es.filter isUserGo ≠ [] := by intro h0; simp [h0] at hl
        rw [List.getLast?_cons_of_ne_nil hne] at *
        simp [hl]
    · simp [h]

theorem pickSource_eq (es : List DirEntry) :
    pickSource es = ((es.filter isUserGo).getLast?).map (·.name) := by
  rw [pickSource, pickSource_foldl]; simp

theorem isUserGo_not_generated {e : DirEntry} (h : isUserGo e = true) : isGenerated e = false := by
  simp only [isUserGo, Bool.and_eq_true, bne_iff_ne, ne_eq] at h
  simp only [isGenerated, generatedNames, List.contains_cons, List.contains_nil, Bool.or_false,
    Bool.or_eq_false_iff, beq_eq_false_iff_ne, ne_eq]
  exact ⟨h.1.1.2, h.1.2, h.2⟩

theorem filter_isUserGo_filter (es : List DirEntry) :
    (es.filter (fun e => !isGenerated e)).filter isUserGo = es.filter isUserGo := by
  rw [List.filter_filter]
  apply List.filter_congr
  intro e _
  by_cases h : isUserGo e = true
  · simp [h, isUserGo_not_generated h]
  · simp [h]

/-- Sorted insertion by file name (what `os.ReadDir` shows after a file was created). -/
def insertByName (e : DirEntry) : List DirEntry → List DirEntry
  | [] => [e]
  | x :: xs => if e.name < x.name then e :: x :: xs else x :: insertByName e xs

theorem insertByName_split (e : DirEntry) (es : List DirEntry) :
    ∃ l₁ l₂, es = l₁ ++ l₂ ∧ insertByName e es = l₁ ++ e :: l₂ := by
  induction es with
  | nil => exact ⟨[], [], rfl, rfl⟩
  | cons x xs ih =>
    unfold insertByName
    split
    · exact ⟨[], x :: xs, rfl, rfl⟩
    · obtain ⟨l₁, l₂, h₁, h₂⟩ := ih
      exact ⟨x :: l₁, l₂, by rw [h₁]; rfl, by rw [h₂]; rfl⟩

/-! ### 5. `imports`: aliases and the rendered import block -/

/-- `imports.imports` (a Go map path ↦ alias) as the list of its entries in *some* iteration
order; the paths are pairwise distinct. -/
abbrev ImportMap := List (String × String)

/-- `imports.Import`: the alias already recorded, else `_i<len>` which is recorded. -/
def importPath (m : ImportMap) (path : String) : String × ImportMap :=
  match m.lookup path with
  | some a => (a, m)
  | none =>
    let a := "_i" ++ toString m.length
    (a, (path, a) :: m)

/-- A sequence of `Import` calls: the aliases returned and the final map. -/
def importAll (m : ImportMap) : List String → List String × ImportMap
  | [] => ([], m)
  | p :: ps =>
    let r := importPath m p
    let rest := importAll r.2 ps
    (r.1 :: rest.1, rest.2)

/-- `imports.WriteTo`: range over the map collecting paths (in iteration order), sort them, look
each alias up. The result is the list of `(alias, path)` lines. -/
def writeLines (sort : List String → List String) (m : ImportMap) : List (String × String) :=
  (sort (m.map (·.1))).map (fun p => ((m.lookup p).getD "", p))

/-- The text written: nothing for an empty map, else `import (`, one `  alias "path"` line per
entry (`q` is `%q`), `)`. -/
def renderImports (q : String → String) (lines : List (String × String)) : String :=
  if lines.isEmpty then ""
  else "import (\n" ++ String.join (lines.map fun l => "  " ++ l.1 ++ " " ++ q l.2 ++ "\n") ++ ")\n"

theorem lookup_eq_some_iff {m : ImportMap} (hn : (m.map (·.1)).Nodup) (p a : String) :
    m.lookup p = some a ↔ (p, a) ∈ m := by
  induction m with
  | nil => simp
  | cons kv t ih =>
    obtain ⟨k, v⟩ := kv
    rw [List.map_cons, List.nodup_cons] at hn
    rw [List.lookup_cons]
    by_cases hk : p = k
    · subst hk
      simp only [beq_self_eq_true, Option.some.injEq, List.mem_cons, Prod.mk.injEq, true_and]
      constructor
      · exact fun h => Or.inl h.symm
      · rintro (h | h)
        · exact h.symm
        · exact absurd (List.mem_map.mpr ⟨(p, a), h, rfl⟩) hn.1
    · have : (p == k) = false := by simpa using hk
      simp only [this, List.mem_cons, Prod.mk.injEq, hk, false_and, false_or]
      exact ih hn.2

theorem lookup_perm {m₁ m₂ : ImportMap} (hp : m₁.Perm m₂) (hn : (m₁.map (·.1)).Nodup)
    (p : String) : m₁.lookup p = m₂.lookup p := by
  have hn₂ : (m₂.map (·.1)).Nodup := (hp.map _).nodup_iff.mp hn
  apply Option.ext
  intro a
  rw [lookup_eq_some_iff hn, lookup_eq_some_iff hn₂, hp.mem_iff]

theorem lookup_eq_none {m : ImportMap} {p : String} (h : m.lookup p = none) :
    p ∉ m.map (·.1) := by
  induction m with
  | nil => simp
  | cons kv t ih =>
    obtain ⟨k, v⟩ := kv
    rw [List.lookup_cons] at h
    by_cases hk : p = k
    · subst hk; simp at h
    · have hb : (p == k) = false := by simpa using hk
      simp only [hb] at h
      simp only [List.map_cons, List.mem_cons, not_or]
      exact ⟨hk, ih h⟩

end Lox.Dec.Order
