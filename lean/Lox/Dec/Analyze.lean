/-! # C17 — the analysis passes of the lox front end (model) and well-formedness (specification)

Core Lean only (linked into the driver).

Go sources modelled (all under `/repo/internal`):

* `codegen/parse_lox.go` `ParseLox`: the `*.lox` files of a directory are parsed one after the other
  into `ast.Unit`s; the first file whose parse reported an error stops everything.
* `parser/parser.go`: diagnostics produced *while the AST is built* (`checkEscapes`,
  `on_parser_qualif`, `on_parser_term_card`, `on_parser_term__token`).
* `ast/context.go` `Context.Analyze`: passes `CreateNames, Check, Normalize, GenerateGrammar` over the
  whole `ast.Spec`; a pass that left an error behind is the last one to run. `RegisterName`,
  `Lookup`, `CreateAlias`/`LookupAlias`.
* `ast/*.go`: `RunPass` of every AST type (cited at the function that models it).
* `base/errlogger`: `Errorf` lines are the diagnostics (`file:line:col: message`), `Infof` lines are not.

Positions. Every node that a diagnostic can point at carries the *line* of its first token
(`ctx.Position(ast) = ast.Bounds().Begin`); diagnostics are compared by `(kind, name, line)`. For
specifications of several files the harness adds `1000 * file index` to the line, so that one
natural number identifies file and line and the lines of one declaration stay contiguous.

Not modelled: `mode.ModeBuilder.pickAction` ("Conflicting lexer actions", raised while the DFA of a
mode is built, when rules of two *different files* accept the same text in one mode). It depends
on the languages of the rules, not on the shape of the declarations. -/
namespace Lox.Dec.Analyze

abbrev Name := String
/-- Line of a token; with several files: `1000 * file + line`. -/
abbrev Line := Nat
/-- Identifier of a declaration (statement, or rule inside a mode block), chosen by whoever builds
the AST; the harness numbers them consecutively. -/
abbrev DeclId := Nat

/-! ## Abstract syntax (what `parser.go` builds) -/

/-- `ast.Card` (`lexer_card = '?' | '*' | '*?' | '+' | '+?'`). -/
inductive Card where
  | one | opt | star | starNG | plus | plusNG
  deriving DecidableEq, Repr, Inhabited

/-- `ast.CharClassItem`: `From`, `To` (a single character is `c-c`). -/
structure ClassItem where
  lo : Nat
  hi : Nat
  deriving DecidableEq, Repr, Inhabited

/-- `ast.CharClass` (`'~'? '[' char_class_item+ ']'`). `badEsc` = number of `\u`/`\U` escapes in its
item tokens that `parser.checkEscapes` rejects (surrogates, values above U+10FFFF). -/
structure CharClass where
  line : Line
  neg : Bool
  items : List ClassItem
  badEsc : Nat
  deriving DecidableEq, Repr, Inhabited

/-- The lexer terms that are not groups, i.e. the nodes the passes act upon. -/
inductive Leaf where
  /-- `ast.LexerTermLiteral`; `text` is the literal after unescaping (the driver passes the bytes in
  hexadecimal: the passes only test emptiness and equality). -/
  | lit (line : Line) (text : String) (badEsc : Nat)
  /-- `ast.LexerTermRef`: an identifier inside a lexer expression. -/
  | ref (line : Line) (name : Name)
  /-- `ast.LexerTermCharClass` over one `ast.CharClass`. -/
  | cls (c : CharClass)
  /-- `ast.LexerTermCharClass` over `ast.CharClassBinaryExpr` (`[..] - [..]`). -/
  | diff (l r : CharClass)
  /-- `.` (`parser.on_lexer_term__tok` builds the class `[\x00-\U0010FFFF]` without position). -/
  | dot (line : Line)
  deriving DecidableEq, Repr, Inhabited

/-- `ast.LexerTermCard`. A parenthesised expression is an `ast.LexerExpr` used as a term. -/
inductive LTerm where
  | leaf (card : Card) (l : Leaf)
  | group (card : Card) (alts : List (List LTerm))
  deriving Repr, Inhabited

/-- `ast.LexerExpr`: alternatives (`ast.LexerFactor`) of sequences of terms. -/
abbrev LExpr := List (List LTerm)

/-- `ast.Action` implementations. `@push_mode()` is `pushMode _ "$default"`. -/
inductive Action where
  | discard (line : Line)
  | pushMode (line : Line) (mode : Name)
  | popMode (line : Line)
  | emit (line : Line) (name : Name)
  deriving DecidableEq, Repr, Inhabited

/-- Statements allowed inside and outside a `@mode` block (`lexer_rule`). -/
inductive LexRule where
  /-- `NAME = expr action*` (`ast.TokenRule`). -/
  | token (id : DeclId) (line : Line) (name : Name) (expr : LExpr) (actions : List Action)
  /-- `@frag expr action*` (`ast.FragRule`). -/
  | frag (id : DeclId) (line : Line) (expr : LExpr) (actions : List Action)
  /-- `@macro NAME = expr` (`ast.MacroRule`). -/
  | macro (id : DeclId) (line : Line) (name : Name) (expr : LExpr)
  /-- `@external A B …` (`ast.ExternalRule`); each `ast.ExternalName` has its own position. -/
  | external (id : DeclId) (line : Line) (names : List (Line × Name))
  deriving Repr, Inhabited

/-- `parser_term = ID | LITERAL | '@error' | parser_list`: an `ast.ParserTerm` of type `Simple`
(`name`, `alias`), `Error` or `List`. -/
inductive PAtom where
  | name (line : Line) (n : Name)
  | alias (line : Line) (text : String) (badEsc : Nat)
  | error (line : Line)
  | list (line : Line) (elem sep : PAtom)
  deriving DecidableEq, Repr, Inhabited

/-- `parser_card = '*' | '*!' | '+' | '?'`. -/
inductive PCard where
  | star | starF | plus | opt
  deriving DecidableEq, Repr, Inhabited

/-- `parser_term_card = parser_term parser_card?`. `parser.on_parser_term_card` turns `@list(..)?`
into the same term with type `ListOpt`, wraps any other term with a cardinality into a new
`ParserTerm{Type: card, Child: term}` and reports any other cardinality on a `@list`. -/
structure PTerm where
  atom : PAtom
  card : Option PCard
  deriving DecidableEq, Repr, Inhabited

/-- `ast.ProdQualifier` (`@left(n)` / `@right(n)`); `prec` is the number as written. -/
structure Qual where
  line : Line
  right : Bool
  prec : Nat
  deriving DecidableEq, Repr, Inhabited

/-- `ast.ParserProd`; `@empty` is a production without terms. -/
structure Prod where
  line : Line
  terms : List PTerm
  qual : Option Qual
  deriving DecidableEq, Repr, Inhabited

/-- `ast.ParserRule`. -/
structure PRule where
  id : DeclId
  line : Line
  isStart : Bool
  name : Name
  prods : List Prod
  deriving DecidableEq, Repr, Inhabited

/-- `ast.Statement`. -/
inductive Stmt where
  | rule (r : LexRule)
  /-- `@mode NAME { lexer_rule* }` (`ast.Mode`). -/
  | mode (id : DeclId) (line : Line) (name : Name) (rules : List LexRule)
  | prule (r : PRule)
  deriving Repr, Inhabited

/-- `ast.Unit`: one file. -/
structure Unit where
  stmts : List Stmt
  deriving Repr, Inhabited

/-- `ast.Spec`: the files in `filepath.Glob` order. -/
structure Spec where
  units : List Unit
  deriving Repr, Inhabited

/-! ## Traversals -/

mutual
/-- The leaf terms below a term, in the order `RunPass`/`NFACons` reach them. -/
def LTerm.leaves : LTerm → List Leaf
  | .leaf _ l => [l]
  | .group _ alts => altsLeaves alts
def altsLeaves : List (List LTerm) → List Leaf
  | [] => []
  | a :: as => altLeaves a ++ altsLeaves as
def altLeaves : List LTerm → List Leaf
  | [] => []
  | t :: ts => t.leaves ++ altLeaves ts
end

/-- Leaves of an expression in traversal order. -/
def exprLeaves (e : LExpr) : List Leaf := altsLeaves e

mutual
/-- Every (sub)expression has an alternative and every alternative a term (`lexer_expr`,
`lexer_factor` of parser.lox). `LexerExpr.NFACons`/`LexerFactor.NFACons` assert it. -/
def LTerm.shapeOk : LTerm → Bool
  | .leaf _ _ => true
  | .group _ alts => !alts.isEmpty && altsShapeOk alts
def altsShapeOk : List (List LTerm) → Bool
  | [] => true
  | a :: as => (!a.isEmpty && altShapeOk a) && altsShapeOk as
def altShapeOk : List LTerm → Bool
  | [] => true
  | t :: ts => t.shapeOk && altShapeOk ts
end

def exprShapeOk (e : LExpr) : Bool := !e.isEmpty && altsShapeOk e

/-- Names of the macro references of an expression, in order. -/
def Leaf.refName : Leaf → List Name
  | .ref _ n => [n]
  | _ => []

def exprRefs (e : LExpr) : List Name := (exprLeaves e).flatMap Leaf.refName

def Leaf.lines : Leaf → List Line
  | .lit l _ _ => [l]
  | .ref l _ => [l]
  | .cls c => [c.line]
  | .diff a b => [a.line, b.line]
  | .dot l => [l]

def Action.line : Action → Line
  | .discard l => l
  | .pushMode l _ => l
  | .popMode l => l
  | .emit l _ => l

def PAtom.line : PAtom → Line
  | .name l _ => l
  | .alias l _ _ => l
  | .error l => l
  | .list l _ _ => l

def PAtom.lines : PAtom → List Line
  | .name l _ => [l]
  | .alias l _ _ => [l]
  | .error l => [l]
  | .list l e s => l :: (e.lines ++ s.lines)

/-- `Type == ParserTermSimple`. -/
def PAtom.isSimple : PAtom → Bool
  | .name _ _ => true
  | .alias _ _ _ => true
  | _ => false

def PAtom.isList : PAtom → Bool
  | .list _ _ _ => true
  | _ => false

def Qual.lines : Option Qual → List Line
  | some q => [q.line]
  | none => []

def Prod.lines (p : Prod) : List Line :=
  p.line :: (p.terms.flatMap (·.atom.lines) ++ Qual.lines p.qual)

def LexRule.id : LexRule → DeclId
  | .token id _ _ _ _ => id
  | .frag id _ _ _ => id
  | .macro id _ _ _ => id
  | .external id _ _ => id

def LexRule.line : LexRule → Line
  | .token _ l _ _ _ => l
  | .frag _ l _ _ => l
  | .macro _ l _ _ => l
  | .external _ l _ => l

def exprLines (e : LExpr) : List Line := (exprLeaves e).flatMap Leaf.lines

/-- Lines of all positioned nodes of a declaration (first: the declaration's own). -/
def LexRule.lines : LexRule → List Line
  | .token _ l _ e acts => l :: (exprLines e ++ acts.map Action.line)
  | .frag _ l e acts => l :: (exprLines e ++ acts.map Action.line)
  | .macro _ l _ e => l :: exprLines e
  | .external _ l names => l :: names.map (·.1)

def PRule.lines (r : PRule) : List Line := r.line :: r.prods.flatMap Prod.lines

/-- A declaration as seen by `diag_in_decl`: identifier and the lines of its nodes. -/
structure Decl where
  id : DeclId
  lines : List Line
  deriving Repr

def listMin : List Nat → Nat
  | [] => 0
  | [a] => a
  | a :: as => min a (listMin as)

def listMax : List Nat → Nat
  | [] => 0
  | a :: as => max a (listMax as)

/-- First and last line of a declaration. -/
def Decl.lo (d : Decl) : Line := listMin d.lines
def Decl.hi (d : Decl) : Line := listMax d.lines

def LexRule.decl (r : LexRule) : Decl := ⟨r.id, r.lines⟩
def PRule.decl (r : PRule) : Decl := ⟨r.id, r.lines⟩

/-- Declarations of a statement. A mode block is a declaration (its header and everything in it) and
so is each rule inside it. -/
def Stmt.decls : Stmt → List Decl
  | .rule r => [r.decl]
  | .mode id l _ rs => ⟨id, l :: rs.flatMap LexRule.lines⟩ :: rs.map LexRule.decl
  | .prule r => [r.decl]

def Spec.stmts (s : Spec) : List Stmt := s.units.flatMap (·.stmts)

def Spec.decls (s : Spec) : List Decl := s.stmts.flatMap Stmt.decls

def Stmt.lexRules : Stmt → List LexRule
  | .rule r => [r]
  | .mode _ _ _ rs => rs
  | .prule _ => []

def Stmt.prules : Stmt → List PRule
  | .prule r => [r]
  | _ => []

/-- All token, fragment, macro and external declarations, inside and outside modes, in order. -/
def Spec.lexRules (s : Spec) : List LexRule := s.stmts.flatMap Stmt.lexRules

def Spec.prules (s : Spec) : List PRule := s.stmts.flatMap Stmt.prules

/-! ## Diagnostics -/

/-- One constructor per distinct message of the Go code (plus two explicit non-diagnostic results). -/
inductive Kind where
  /-- parser.go `checkEscapes`: "escape sequence is not a valid Unicode code point" -/
  | badEscape
  /-- parser.go `on_parser_qualif`: "precedence must be a positive integer" -/
  | badPrecedence
  /-- parser.go `on_parser_term_card`: "@list term can only use the zero-or-more '?' cardinality" -/
  | listCard
  /-- `validateTokenName`: "name must be all uppercase, …" -/
  | nameInvalid
  /-- `validateTokenName`, `ParserRule.RunPass`: "sorry, %q is a reserved name" -/
  | nameReserved
  /-- `ParserRule.RunPass`: "rule name cannot contain consecutive underscores: %v" -/
  | ruleNameInvalid
  /-- `RegisterName`: "%v redefined" -/
  | redefined
  /-- `ParserRule.RunPass`: "@start redefined: %v" -/
  | startRedefined
  /-- `LexerTermLiteral.RunPass`, parser.go `on_parser_term__token`: "literal cannot be empty" -/
  | emptyLiteral
  /-- `LexerTermRef`, `ActionEmit`, `ParserTerm.preCheck`: "undefined: %v" -/
  | undefined
  /-- `LexerTermRef.RunPass`: "term is not a macro: %v" -/
  | notMacro
  /-- `CharClass.RunPass`: "invalid character range: lower bound is above upper bound" -/
  | reversedRange
  /-- `ActionPushMode.RunPass`: "undefined mode: %v" -/
  | undefinedMode
  /-- `ActionEmit.RunPass`: "not a token: %v" -/
  | notToken
  /-- `ParserTerm.preCheck`: "%v is not a parser or token rule" -/
  | notRuleOrToken
  /-- `ParserTerm.preCheck`: "unknown token literal: '%v'" -/
  | unknownLiteral
  /-- `ParserTerm.preCheck`: "ambiguous token literal: '%v'" -/
  | ambiguousLiteral
  /-- `ParserTerm.postCheck`: "@list entry param must be a simple token or rule" -/
  | listEntryNotSimple
  /-- `ParserTerm.postCheck`: "@list separator param must be a simple token or rule" -/
  | listSepNotSimple
  /-- `MacroRule.NFACons`: "macro cycle detected" -/
  | macroCycle
  /-- `TokenRule.RunPass`: "tokens cannot be discarded; use @frag instead" -/
  | tokenDiscard
  /-- `TokenRule.RunPass`: "@emit is not allowed in token actions" -/
  | tokenEmit
  /-- `FragRule.RunPass`: "@frag can only have one @discard action" -/
  | fragTwoDiscard
  /-- `FragRule.RunPass`: "@frag can only have one @emit action" -/
  | fragTwoEmit
  /-- `FragRule.RunPass`: "@frag cannot be discarded and emitted at the same time" -/
  | fragDiscardAndEmit
  /-- `Spec.RunPass`: "@start rule undefined" (a general error, without position) -/
  | startUndefined
  /-- Not a diagnostic: the Go code panics (nil dereference / failed assertion). -/
  | panic
  /-- Not a diagnostic: the model's recursion budget for macro expansion ran out (shown impossible). -/
  | fuel
  deriving DecidableEq, Repr, Inhabited

/-- A diagnostic: what, where, about which name (or literal), and which declaration is blamed
(`none`: the specification as a whole). -/
structure Diag where
  kind : Kind
  line : Line
  name : String
  decl : Option DeclId
  deriving DecidableEq, Repr, Inhabited

/-! ## Stage 0 — diagnostics of `parser.Parse` -/

def rep (n : Nat) (d : Diag) : List Diag := List.replicate n d

def Leaf.syntaxDiags (id : DeclId) : Leaf → List Diag
  | .lit l _ b => rep b ⟨.badEscape, l, "", some id⟩
  | .cls c => rep c.badEsc ⟨.badEscape, c.line, "", some id⟩
  | .diff a b => rep a.badEsc ⟨.badEscape, a.line, "", some id⟩ ++ rep b.badEsc ⟨.badEscape, b.line, "", some id⟩
  | _ => []

def exprSyntaxDiags (id : DeclId) (e : LExpr) : List Diag :=
  (exprLeaves e).flatMap (Leaf.syntaxDiags id)

def LexRule.syntaxDiags : LexRule → List Diag
  | .token id _ _ e _ => exprSyntaxDiags id e
  | .frag id _ e _ => exprSyntaxDiags id e
  | .macro id _ _ e => exprSyntaxDiags id e
  | .external _ _ _ => []

/-- `on_parser_term__token` (`checkEscapes` on a LITERAL, then "literal cannot be empty");
parameters of a `@list` first. -/
def PAtom.syntaxDiags (id : DeclId) : PAtom → List Diag
  | .alias l s b =>
    rep b ⟨.badEscape, l, "", some id⟩ ++ (if s.isEmpty then [⟨.emptyLiteral, l, "", some id⟩] else [])
  | .list _ e s => e.syntaxDiags id ++ s.syntaxDiags id
  | _ => []

/-- `on_parser_term_card`: a `@list` may only carry `?`. -/
def PTerm.badListCard (t : PTerm) : Bool :=
  t.atom.isList && (match t.card with | some c => c != .opt | none => false)

def PTerm.syntaxDiags (id : DeclId) (t : PTerm) : List Diag :=
  t.atom.syntaxDiags id ++ (if t.badListCard then [⟨.listCard, t.atom.line, "", some id⟩] else [])

/-- `on_parser_qualif`: `strconv.Atoi` fails (more than 63 bits) or the value is `<= 0`. -/
def Qual.bad (q : Qual) : Bool := q.prec == 0 || q.prec ≥ 2 ^ 63

def Qual.syntaxDiags (id : DeclId) : Option Qual → List Diag
  | some q => if q.bad then [⟨.badPrecedence, q.line, "", some id⟩] else []
  | none => []

def Prod.syntaxDiags (id : DeclId) (p : Prod) : List Diag :=
  p.terms.flatMap (PTerm.syntaxDiags id) ++ Qual.syntaxDiags id p.qual

def Stmt.syntaxDiags : Stmt → List Diag
  | .rule r => r.syntaxDiags
  | .mode _ _ _ rs => rs.flatMap LexRule.syntaxDiags
  | .prule r => r.prods.flatMap (Prod.syntaxDiags r.id)

def Unit.syntaxDiags (u : Unit) : List Diag := u.stmts.flatMap Stmt.syntaxDiags

/-- The first non-empty list. -/
def firstNonEmpty : List (List Diag) → List Diag
  | [] => []
  | d :: ds => if d.isEmpty then firstNonEmpty ds else d

/-- `ParseLox`: files are parsed in order; the first one with an error ends the run. -/
def syntaxDiags (s : Spec) : List Diag := firstNonEmpty (s.units.map Unit.syntaxDiags)

/-! ## Pass `CreateNames` -/

/-- What `Context.names` maps a name to. -/
inductive Ent where
  /-- `*TokenRule`; `alias`: the literal registered with `CreateAlias` (whole expression is one
  literal with cardinality one). -/
  | token (alias : Option String)
  /-- `*MacroRule` (identifier, position, body). -/
  | macro (id : DeclId) (line : Line) (expr : LExpr)
  /-- `*ExternalName` -/
  | ext
  /-- `*Mode` -/
  | mode
  /-- `*ParserRule` -/
  | rule (isStart : Bool)
  deriving Repr, Inhabited

/-- `Context.names`, in registration order. -/
abbrev Env := List (Name × Ent)

def Env.lookup (env : Env) (n : Name) : Option Ent := List.lookup n env

def Ent.isStart : Ent → Bool
  | .rule b => b
  | _ => false

def Ent.isRule : Ent → Bool
  | .rule _ => true
  | _ => false

def Ent.hasAlias (lit : String) : Ent → Bool
  | .token (some a) => a == lit
  | _ => false

/-- `ctx.StartParserRule != nil`. -/
def Env.hasStart (env : Env) : Bool := env.any (·.2.isStart)

/-- `ctx.HasParserRules`. -/
def Env.hasRules (env : Env) : Bool := env.any (·.2.isRule)

def isNameChar (c : Char) : Bool := c.isUpper || c.isDigit || c == '_'

/-- `tokenNameRegex = ^[A-Z][A-Z0-9_]*$`. -/
def matchesTokenRegex (cs : List Char) : Bool :=
  match cs with
  | [] => false
  | c :: rest => c.isUpper && rest.all isNameChar

/-- `strings.Contains(n, "__")`. -/
def hasDoubleUnderscore : List Char → Bool
  | '_' :: '_' :: _ => true
  | _ :: cs => hasDoubleUnderscore cs
  | [] => false

/-- `strings.HasSuffix(n, "_")`. -/
def endsWithUnderscore (cs : List Char) : Bool := cs.getLast? == some '_'

def isReserved (n : Name) : Bool := n == "EOF" || n == "ERROR"

/-- How a name is validated before it is registered. -/
inductive NameCheck where
  /-- tokens, macros, external names: `validateTokenName` -/
  | lexical
  /-- parser rules: no `__`, not reserved -/
  | rule
  /-- modes: none -/
  | none
  deriving DecidableEq, Repr, Inhabited

/-- `validateTokenName`, first half. -/
def tokenNameShapeOk (n : Name) : Bool :=
  matchesTokenRegex n.toList && !endsWithUnderscore n.toList && !hasDoubleUnderscore n.toList

/-- `ParserRule.RunPass`: `!strings.Contains(r.Name, "__")`. -/
def ruleNameOk (n : Name) : Bool := !hasDoubleUnderscore n.toList

/-- One call of `RegisterName` with what precedes it in the `RunPass` of the declaring node. -/
structure Ev where
  id : DeclId
  line : Line
  name : Name
  ent : Ent
  check : NameCheck
  deriving Repr, Inhabited

def Ev.validate (ev : Ev) : List Diag :=
  match ev.check with
  | .lexical =>
    if !tokenNameShapeOk ev.name then [⟨.nameInvalid, ev.line, "", some ev.id⟩]
    else if isReserved ev.name then [⟨.nameReserved, ev.line, ev.name, some ev.id⟩]
    else []
  | .rule =>
    if !ruleNameOk ev.name then [⟨.ruleNameInvalid, ev.line, ev.name, some ev.id⟩]
    else if isReserved ev.name then [⟨.nameReserved, ev.line, ev.name, some ev.id⟩]
    else []
  | .none => []

/-- `TokenRule.RunPass` (CreateNames), `MacroRule.RunPass`, `ExternalName.RunPass`,
`ParserRule.RunPass`, first statement of `Mode.RunPass`: validate, `RegisterName` (an existing name:
"redefined", nothing is registered), then for a parser rule the `@start` bookkeeping. -/
def regEv (env : Env) (ev : Ev) : Env × List Diag :=
  match ev.validate with
  | [] =>
    if (env.lookup ev.name).isSome then (env, [⟨.redefined, ev.line, ev.name, some ev.id⟩])
    else (env ++ [(ev.name, ev.ent)],
          if ev.ent.isStart && env.hasStart then [⟨.startRedefined, ev.line, ev.name, some ev.id⟩] else [])
  | ds => (env, ds)

/-- Threading the name table through a list, collecting diagnostics. -/
def foldDiag {α : Type} (f : Env → α → Env × List Diag) : Env → List α → Env × List Diag
  | env, [] => (env, [])
  | env, a :: as => ((foldDiag f (f env a).1 as).1, (f env a).2 ++ (foldDiag f (f env a).1 as).2)

/-- `ctx.CreateAlias` is called when the expression is a single literal with cardinality one. -/
def aliasOf (e : LExpr) : Option String :=
  match e with
  | [[.leaf .one (.lit _ s _)]] => some s
  | _ => none

def LexRule.events : LexRule → List Ev
  | .token id l n e _ => [⟨id, l, n, .token (aliasOf e), .lexical⟩]
  | .frag _ _ _ _ => []
  | .macro id l n e => [⟨id, l, n, .macro id l e, .lexical⟩]
  | .external id _ names => names.map fun p => ⟨id, p.1, p.2, .ext, .lexical⟩

def PRule.event (r : PRule) : Ev := ⟨r.id, r.line, r.name, .rule r.isStart, .rule⟩

def modeEvent (id : DeclId) (l : Line) (n : Name) : Ev := ⟨id, l, n, .mode, .none⟩

/-- All registrations a statement asks for (a mode: its own, then those of its rules). -/
def Stmt.events : Stmt → List Ev
  | .rule r => r.events
  | .mode id l n rs => modeEvent id l n :: rs.flatMap LexRule.events
  | .prule r => [r.event]

/-- `Statement.RunPass(ctx, CreateNames)`. `Mode.RunPass` returns before its rules when its own name
could not be registered. -/
def cnStmt (env : Env) : Stmt → Env × List Diag
  | .rule r => foldDiag regEv env r.events
  | .prule r => regEv env r.event
  | .mode id l n rs =>
    if (regEv env (modeEvent id l n)).2.isEmpty then
      foldDiag regEv (regEv env (modeEvent id l n)).1 (rs.flatMap LexRule.events)
    else regEv env (modeEvent id l n)

/-- Pass `CreateNames` over all units. -/
def createNames (s : Spec) : Env × List Diag := foldDiag cnStmt [] s.stmts

def Spec.events (s : Spec) : List Ev := s.stmts.flatMap Stmt.events

/-- The name table when nothing goes wrong. -/
def Spec.declared (s : Spec) : Env := s.events.map fun ev => (ev.name, ev.ent)

/-! ## Pass `Check` -/

def defaultMode : Name := "$default"

def Ent.isMode : Ent → Bool
  | .mode => true
  | _ => false

/-- `ctx.LexerModes[name] != nil`: the default mode and every registered `@mode`. -/
def Env.hasMode (env : Env) (n : Name) : Bool :=
  n == defaultMode || env.any fun p => p.1 == n && p.2.isMode

/-- How many registered tokens have the literal as alias (`ctx.aliases`: one → that token, more →
`AmbiguousAlias`). -/
def Env.aliasCount (env : Env) (lit : String) : Nat := env.countP (·.2.hasAlias lit)

def reversedItems (c : CharClass) : List ClassItem := c.items.filter fun i => i.lo > i.hi

/-- `CharClass.RunPass` (Check): one diagnostic per reversed item, at the class. -/
def CharClass.check (id : DeclId) (c : CharClass) : List Diag :=
  (reversedItems c).map fun _ => ⟨.reversedRange, c.line, "", some id⟩

/-- `RunPass(ctx, Check)` of `LexerTermLiteral`, `LexerTermRef`, `LexerTermCharClass`. -/
def Leaf.check (env : Env) (id : DeclId) : Leaf → List Diag
  | .lit l s _ => if s.isEmpty then [⟨.emptyLiteral, l, "", some id⟩] else []
  | .ref l n =>
    match env.lookup n with
    | none => [⟨.undefined, l, n, some id⟩]
    | some (.macro _ _ _) => []
    | some _ => [⟨.notMacro, l, n, some id⟩]
  | .cls c => c.check id
  | .diff a b => a.check id ++ b.check id
  | .dot _ => []

def exprCheck (env : Env) (id : DeclId) (e : LExpr) : List Diag :=
  (exprLeaves e).flatMap (Leaf.check env id)

/-- `ActionPushMode.RunPass`, `ActionEmit.RunPass` (Check). -/
def Action.check (env : Env) (id : DeclId) : Action → List Diag
  | .pushMode l m => if env.hasMode m then [] else [⟨.undefinedMode, l, m, some id⟩]
  | .emit l n =>
    match env.lookup n with
    | none => [⟨.undefined, l, n, some id⟩]
    | some (.token _) => []
    | some .ext => []
    | some _ => [⟨.notToken, l, n, some id⟩]
  | _ => []

def LexRule.check (env : Env) : LexRule → List Diag
  | .token id _ _ e acts => exprCheck env id e ++ acts.flatMap (Action.check env id)
  | .frag id _ e acts => exprCheck env id e ++ acts.flatMap (Action.check env id)
  | .macro id _ _ e => exprCheck env id e
  | .external _ _ _ => []

/-- `ParserTerm.RunPass(ctx, Check)` on a term of type Simple, Error, List or ListOpt:
`preCheck`, then the parameters of a `@list`, then `postCheck`. -/
def PAtom.check (env : Env) (id : DeclId) : PAtom → List Diag
  | .name l n =>
    match env.lookup n with
    | none => [⟨.undefined, l, n, some id⟩]
    | some (.rule _) => []
    | some (.token _) => []
    | some .ext => []
    | some _ => [⟨.notRuleOrToken, l, n, some id⟩]
  | .alias l s _ =>
    if s.isEmpty then []  -- `preCheck` selects on `t.Alias != ""`; reported when the file was parsed
    else match env.aliasCount s with
      | 0 => [⟨.unknownLiteral, l, s, some id⟩]
      | 1 => []
      | _ => [⟨.ambiguousLiteral, l, s, some id⟩]
  | .error _ => []
  | .list _ e s =>
    e.check env id ++ s.check env id ++
      (if !e.isSimple then [⟨.listEntryNotSimple, e.line, "", some id⟩]
       else if !s.isSimple then [⟨.listSepNotSimple, e.line, "", some id⟩]
       else [])

/-- A term with a cardinality is a wrapper `ParserTerm{Type: card, Child: atom}` whose `preCheck`
and `postCheck` have nothing to say (or the `@list` itself, retyped `ListOpt`). -/
def PTerm.check (env : Env) (id : DeclId) (t : PTerm) : List Diag := t.atom.check env id

def PRule.check (env : Env) (r : PRule) : List Diag :=
  r.prods.flatMap fun p => p.terms.flatMap (PTerm.check env r.id)

def Stmt.check (env : Env) : Stmt → List Diag
  | .rule r => r.check env
  | .mode _ _ _ rs => rs.flatMap (LexRule.check env)
  | .prule r => r.check env

def check (env : Env) (s : Spec) : List Diag := s.stmts.flatMap (Stmt.check env)

/-! ## Pass `Normalize`

`ParserTerm.normalize` creates the helper rules of `?`, `*`, `+`, `@list` and re-runs the earlier
passes on them under `assert.False(ctx.Errs.HasError())`: it reports nothing. (It dereferences
`t.Child.Symbol`, which `preCheck` leaves nil only for the literal `''`; that literal is reported
when the file is parsed, so the pass is not reached with it.) -/

/-! ## Pass `GenerateGrammar` -/

/-- `MacroRule.NFACons` with its `cycleDetect` flag: `visiting` are the macros being expanded.
Expanding a macro that is being expanded reports a cycle at that macro and stops there. `fuel` bounds
the nesting depth (one more than the number of names suffices). -/
def expandMacro (env : Env) : Nat → List Name → Name → List Diag
  | 0, _, _ => [⟨.fuel, 0, "", none⟩]
  | fuel + 1, visiting, m =>
    match env.lookup m with
    | some (.macro id line e) =>
      if visiting.contains m then [⟨.macroCycle, line, "", some id⟩]
      else (exprRefs e).flatMap (expandMacro env fuel (m :: visiting))
    | _ => [⟨.panic, 0, "", none⟩]  -- `t.refMacro` is nil: excluded by the Check pass

/-- `LexerExpr.NFACons`: every macro reference is expanded in place, in order. -/
def expandExpr (env : Env) (e : LExpr) : List Diag :=
  if !exprShapeOk e then [⟨.panic, 0, "", none⟩]
  else (exprRefs e).flatMap (expandMacro env (env.length + 1) [])

def Action.isDiscard : Action → Bool
  | .discard _ => true
  | _ => false

def Action.isEmit : Action → Bool
  | .emit _ _ => true
  | _ => false

/-- The loop over `r.Actions` in `TokenRule.RunPass`: the first `@discard` or `@emit` is reported. -/
def tokenActionDiags (id : DeclId) (l : Line) : List Action → List Diag
  | [] => []
  | a :: as =>
    if a.isDiscard then [⟨.tokenDiscard, l, "", some id⟩]
    else if a.isEmit then [⟨.tokenEmit, l, "", some id⟩]
    else tokenActionDiags id l as

/-- The loop over `r.Actions` in `FragRule.RunPass` with its flags `hasDiscard`, `hasEmit`, then the
test after the loop. -/
def fragActionDiags (id : DeclId) (l : Line) : Bool → Bool → List Action → List Diag
  | hasDiscard, hasEmit, [] =>
    if hasDiscard && hasEmit then [⟨.fragDiscardAndEmit, l, "", some id⟩] else []
  | hasDiscard, hasEmit, a :: as =>
    if a.isDiscard then
      (if hasDiscard then [⟨.fragTwoDiscard, l, "", some id⟩] else fragActionDiags id l true hasEmit as)
    else if a.isEmit then
      (if hasEmit then [⟨.fragTwoEmit, l, "", some id⟩] else fragActionDiags id l hasDiscard true as)
    else fragActionDiags id l hasDiscard hasEmit as

/-- `RunPass(ctx, GenerateGrammar)` of token, fragment and macro rules. A macro is expanded once on
its own (`MacroRule.RunPass`), through `MacroRule.NFACons` like any reference to it. -/
def LexRule.generate (env : Env) : LexRule → List Diag
  | .token id l _ e acts => expandExpr env e ++ tokenActionDiags id l acts
  | .frag id l e acts => expandExpr env e ++ fragActionDiags id l false false acts
  | .macro _ _ n e =>
    if !exprShapeOk e then [⟨.panic, 0, "", none⟩] else expandMacro env (env.length + 1) [] n
  | .external _ _ _ => []

def Stmt.generate (env : Env) : Stmt → List Diag
  | .rule r => r.generate env
  | .mode _ _ _ rs => rs.flatMap (LexRule.generate env)
  | .prule _ => []

/-- `Spec.RunPass(ctx, GenerateGrammar)`: all statements; only if none of them reported anything,
"@start rule undefined" when there are parser rules and no start rule. -/
def generate (env : Env) (s : Spec) : List Diag :=
  let ds := s.stmts.flatMap (Stmt.generate env)
  if !ds.isEmpty then ds
  else if env.hasRules && !env.hasStart then [⟨.startUndefined, 0, "", none⟩]
  else []

/-! ## The front end -/

/-- `ParseLox` up to and including `Context.Analyze(spec, AllPasses)`: the diagnostics in the order
they are printed. The empty list means the specification is accepted. -/
def analyze (s : Spec) : List Diag :=
  let d0 := syntaxDiags s
  if !d0.isEmpty then d0 else
  let r := createNames s
  if !r.2.isEmpty then r.2 else
  let d2 := check r.1 s
  if !d2.isEmpty then d2 else
  generate r.1 s

/-! ## Well-formedness — the specification

Written from the text of property C17 and the reference documentation
(`docs/markdown/lexer_reference.md`, `parser_reference.md`), not from the passes: it speaks about the
declarations of the specification (`Spec.lexRules`, `Spec.prules`, `Spec.declared`), never about
passes, their order or their early exits. -/

/-- lexer_reference.md "Lexical Names": all uppercase, starts with a letter, then letters, digits,
underscores; does not end with an underscore; no consecutive underscores; not `EOF`/`ERROR`. -/
def ValidTokenName (n : Name) : Prop :=
  (∃ c cs, n.toList = c :: cs ∧ c.isUpper = true ∧
      ∀ x ∈ cs, x.isUpper = true ∨ x.isDigit = true ∨ x = '_') ∧
  (¬ ∃ pre, n.toList = pre ++ ['_']) ∧
  (¬ ∃ pre post, n.toList = pre ++ '_' :: '_' :: post) ∧
  n ≠ "EOF" ∧ n ≠ "ERROR"

/-- parser_reference.md: "must not contain consecutive underscores"; and the reserved names `EOF`,
`ERROR` (lexer_reference.md reserves them for lexical names; `@error` is the terminal `ERROR` and the
helper rules of `?`, `*`, `+` are named after their term, so the front end reserves them for rules
too). The other two documented conditions — a Go identifier that does not start with an underscore —
hold for every `ID` token of a `.lox` file, `[A-Za-z][A-Za-z0-9_]*`: they are part of "the file
parses". -/
def ValidRuleName (n : Name) : Prop :=
  (¬ ∃ pre post, n.toList = pre ++ '_' :: '_' :: post) ∧ n ≠ "EOF" ∧ n ≠ "ERROR"

/-- The name is declared as a token rule / macro / mode / parser rule / external token. -/
def Spec.IsToken (s : Spec) (n : Name) : Prop := ∃ a, (n, Ent.token a) ∈ s.declared
def Spec.IsMacro (s : Spec) (n : Name) : Prop := ∃ id l e, (n, Ent.macro id l e) ∈ s.declared
def Spec.IsMode (s : Spec) (n : Name) : Prop := (n, Ent.mode) ∈ s.declared
def Spec.IsRule (s : Spec) (n : Name) : Prop := ∃ b, (n, Ent.rule b) ∈ s.declared
def Spec.IsExternal (s : Spec) (n : Name) : Prop := (n, Ent.ext) ∈ s.declared

/-- Macro `a` mentions macro `b` in its body. -/
def Spec.MacroRef (s : Spec) (a b : Name) : Prop :=
  ∃ id l e, (a, Ent.macro id l e) ∈ s.declared ∧ b ∈ exprRefs e ∧ s.IsMacro b

/-- One or more `MacroRef` steps. -/
inductive Spec.MacroReach (s : Spec) : Name → Name → Prop where
  | step {a b : Name} : s.MacroRef a b → MacroReach s a b
  | trans {a b c : Name} : s.MacroRef a b → MacroReach s b c → MacroReach s a c

def LexRule.expr? : LexRule → Option LExpr
  | .token _ _ _ e _ => some e
  | .frag _ _ e _ => some e
  | .macro _ _ _ e => some e
  | .external _ _ _ => none

def LexRule.actions : LexRule → List Action
  | .token _ _ _ _ a => a
  | .frag _ _ _ a => a
  | _ => []

def LexRule.isToken : LexRule → Bool
  | .token _ _ _ _ _ => true
  | _ => false

def LexRule.isFrag : LexRule → Bool
  | .frag _ _ _ _ => true
  | _ => false

def LexRule.leaves (r : LexRule) : List Leaf :=
  match r.expr? with
  | some e => exprLeaves e
  | none => []

/-- All leaf terms of all lexer expressions. -/
def Spec.leaves (s : Spec) : List Leaf := s.lexRules.flatMap LexRule.leaves

def Leaf.classes : Leaf → List CharClass
  | .cls c => [c]
  | .diff a b => [a, b]
  | _ => []

/-- All actions of all token and fragment rules. -/
def Spec.actions (s : Spec) : List Action := s.lexRules.flatMap LexRule.actions

def PRule.terms (r : PRule) : List PTerm := r.prods.flatMap (·.terms)

/-- All terms of all productions. -/
def Spec.pterms (s : Spec) : List PTerm := s.prules.flatMap PRule.terms

/-- The atoms of a term: itself and, for a `@list`, its parameters (recursively). -/
def PAtom.atoms : PAtom → List PAtom
  | .list l e sp => .list l e sp :: (e.atoms ++ sp.atoms)
  | .name l n => [.name l n]
  | .alias l t b => [.alias l t b]
  | .error l => [.error l]

def Spec.patoms (s : Spec) : List PAtom := s.pterms.flatMap (·.atom.atoms)

def Leaf.escOk : Leaf → Bool
  | .lit _ _ b => b == 0
  | .cls c => c.badEsc == 0
  | .diff a b => a.badEsc == 0 && b.badEsc == 0
  | _ => true

def PAtom.escOk : PAtom → Bool
  | .alias _ _ b => b == 0
  | _ => true

/-- What has to hold for the text to be a `.lox` specification at all (the property presupposes
it): escapes name code points, precedences are positive numbers that fit, `@list` only takes `?`,
expressions are not empty. -/
structure SyntaxOk (s : Spec) : Prop where
  escapesLex : ∀ l ∈ s.leaves, l.escOk = true
  escapesParser : ∀ a ∈ s.patoms, a.escOk = true
  listCard : ∀ t ∈ s.pterms, t.atom.isList = true → t.card = none ∨ t.card = some .opt
  precedence : ∀ r ∈ s.prules, ∀ p ∈ r.prods, ∀ q, p.qual = some q → 0 < q.prec ∧ q.prec < 2 ^ 63
  shape : ∀ r ∈ s.lexRules, ∀ e, r.expr? = some e → exprShapeOk e = true

/-- Property C17's notion of a well-formed specification, clause by clause. -/
structure WellFormed (s : Spec) : Prop where
  /-- (presupposed) the files are syntactically valid -/
  syntaxOk : SyntaxOk s
  /-- "names unique across tokens, macros, modes and rules" (and external tokens) -/
  namesUnique : (s.declared.map (·.1)).Nodup
  /-- "obeying the documented naming rules": lexical names … -/
  lexicalNames : ∀ n, s.IsToken n ∨ s.IsMacro n ∨ s.IsExternal n → ValidTokenName n
  /-- … and parser rule names -/
  ruleNames : ∀ n, s.IsRule n → ValidRuleName n
  /-- "every referenced … macro … defined": identifiers in lexer expressions -/
  macroRefs : ∀ l ∈ s.leaves, ∀ ln n, l = .ref ln n → s.IsMacro n
  /-- "every referenced … mode … defined" -/
  modeRefs : ∀ a ∈ s.actions, ∀ l m, a = .pushMode l m → m = defaultMode ∨ s.IsMode m
  /-- "every referenced token … defined": `@emit` -/
  emitRefs : ∀ a ∈ s.actions, ∀ l n, a = .emit l n → s.IsToken n ∨ s.IsExternal n
  /-- "every referenced token, … rule … defined": identifiers in productions -/
  parserRefs : ∀ a ∈ s.patoms, ∀ l n, a = .name l n → s.IsToken n ∨ s.IsRule n ∨ s.IsExternal n
  /-- "every referenced … literal alias defined and unambiguous" (and "no empty literal") -/
  aliasRefs : ∀ a ∈ s.patoms, ∀ l t b, a = .alias l t b →
    t ≠ "" ∧ s.declared.countP (·.2.hasAlias t) = 1
  /-- "no macro cycle" -/
  noMacroCycle : ∀ m, ¬ s.MacroReach m m
  /-- "exactly one @start" (of a specification that has a parser section) -/
  oneStart : s.prules ≠ [] → (s.prules.filter (·.isStart)).length = 1
  /-- "no @discard or @emit on a token" -/
  tokenActions : ∀ r ∈ s.lexRules, r.isToken = true → ∀ a ∈ r.actions, a.isDiscard = false ∧ a.isEmit = false
  /-- "at most one of each on a fragment" (and not both: a fragment cannot be dropped and emitted) -/
  fragActions : ∀ r ∈ s.lexRules, r.isFrag = true →
    (r.actions.filter Action.isDiscard).length + (r.actions.filter Action.isEmit).length ≤ 1
  /-- "no empty literal" -/
  noEmptyLiteral : ∀ l ∈ s.leaves, ∀ ln t b, l = .lit ln t b → t ≠ ""
  /-- "class ranges with lower bound not above upper bound" -/
  rangesOrdered : ∀ l ∈ s.leaves, ∀ c ∈ l.classes, ∀ i ∈ c.items, i.lo ≤ i.hi
  /-- the parameters of `@list` are plain tokens or rules -/
  listParams : ∀ a ∈ s.patoms, ∀ l e sp, a = .list l e sp → e.isSimple = true ∧ sp.isSimple = true

/-! ## A decision procedure for `WellFormed`

Written clause by clause after the predicate (not after the passes); `wellFormedB_iff` in
`Lox/Dec/AnalyzeProofs.lean` shows that it decides `WellFormed`. The driver prints it next to
the model's diagnostics so that the harness also checks it against what the generator intended. -/

def validTokenNameB (n : Name) : Bool := tokenNameShapeOk n && !isReserved n

def validRuleNameB (n : Name) : Bool := ruleNameOk n && !isReserved n

def Ent.isToken : Ent → Bool
  | .token _ => true
  | _ => false

def Ent.isMacro : Ent → Bool
  | .macro _ _ _ => true
  | _ => false

def Ent.isExt : Ent → Bool
  | .ext => true
  | _ => false

def Spec.hasB (s : Spec) (p : Ent → Bool) (n : Name) : Bool := s.declared.any fun x => x.1 == n && p x.2

def syntaxOkB (s : Spec) : Bool :=
  s.leaves.all Leaf.escOk &&
  s.patoms.all PAtom.escOk &&
  s.pterms.all (fun t => !t.atom.isList || t.card == none || t.card == some .opt) &&
  s.prules.all (fun r => r.prods.all fun p => match p.qual with
    | some q => 0 < q.prec && q.prec < 2 ^ 63
    | none => true) &&
  s.lexRules.all (fun r => match r.expr? with | some e => exprShapeOk e | none => true)

/-- Macros that the body of a macro named `m` mentions. -/
def Spec.macroSucc (s : Spec) (m : Name) : List Name :=
  s.declared.flatMap fun p =>
    match p.2 with
    | .macro _ _ e => if p.1 == m then (exprRefs e).filter (s.hasB Ent.isMacro) else []
    | _ => []

/-- There is a walk of `k` references starting at `m`. -/
def Spec.walkB (s : Spec) : Nat → Name → Bool
  | 0, _ => true
  | k + 1, m => (s.macroSucc m).any (s.walkB k)

def Spec.macroNames (s : Spec) : List Name :=
  (s.declared.filter (·.2.isMacro)).map (·.1)

/-- No walk as long as the number of macros: it would repeat a macro. -/
def acyclicB (s : Spec) : Bool := !s.macroNames.any (s.walkB s.macroNames.length)

def wellFormedB (s : Spec) : Bool :=
  syntaxOkB s &&
  decide (s.declared.map (·.1)).Nodup &&
  s.declared.all (fun p => !(p.2.isToken || p.2.isMacro || p.2.isExt) || validTokenNameB p.1) &&
  s.declared.all (fun p => !p.2.isRule || validRuleNameB p.1) &&
  s.leaves.all (fun l => l.refName.all (s.hasB Ent.isMacro)) &&
  s.actions.all (fun a => match a with
    | .pushMode _ m => m == defaultMode || s.hasB Ent.isMode m
    | .emit _ n => s.hasB Ent.isToken n || s.hasB Ent.isExt n
    | _ => true) &&
  s.patoms.all (fun a => match a with
    | .name _ n => s.hasB Ent.isToken n || s.hasB Ent.isRule n || s.hasB Ent.isExt n
    | .alias _ t _ => t != "" && s.declared.countP (·.2.hasAlias t) == 1
    | .list _ e sp => e.isSimple && sp.isSimple
    | _ => true) &&
  acyclicB s &&
  (s.prules.isEmpty || (s.prules.filter (·.isStart)).length == 1) &&
  s.lexRules.all (fun r => !r.isToken || r.actions.all fun a => !a.isDiscard && !a.isEmit) &&
  s.lexRules.all (fun r => !r.isFrag ||
    (r.actions.filter Action.isDiscard).length + (r.actions.filter Action.isEmit).length ≤ 1) &&
  s.leaves.all (fun l => match l with
    | .lit _ t _ => t != ""
    | _ => l.classes.all fun c => c.items.all fun i => i.lo ≤ i.hi)

end Lox.Dec.Analyze
