import Lox.Dec.AssignSpec
/-! The naming convention `on_<rule>[__suffix]` (`ruleFromMethod`), and the decidable checks of the
hypotheses `WF` / `IdentEquiv` that the driver evaluates on every case of the correspondence run. -/
namespace Lox.Dec.Assign

/-! ## `ruleFromMethod` -/

/-- `s` contains `"__"`. -/
def hasSep : List Char → Bool
  | c :: d :: cs => (c == '_' && d == '_') || hasSep (d :: cs)
  | _ => false

theorem cutSep_self : ∀ (r : List Char), hasSep r = false → cutSep r = r
  | [], _ => rfl
  | [_], _ => rfl
  | c :: d :: cs, h => by
    simp only [hasSep, Bool.or_eq_false_iff, Bool.and_eq_false_imp, beq_iff_eq] at h
    have hcd : ¬ (c = '_' ∧ d = '_') := fun ⟨h1, h2⟩ => by
      have := h.1 h1; simp [h2] at this
    simp only [cutSep, hcd, ↓reduceIte]
    rw [cutSep_self (d :: cs) h.2]

theorem cutSep_append : ∀ (r s : List Char), hasSep r = false → r.getLast? ≠ some '_' →
    cutSep (r ++ '_' :: '_' :: s) = r
  | [], s, _, _ => by simp [cutSep]
  | [c], s, _, hl => by
    have hc : c ≠ '_' := by simpa using hl
    simp [cutSep, hc]
  | c :: d :: cs, s, h, hl => by
    simp only [hasSep, Bool.or_eq_false_iff, Bool.and_eq_false_imp, beq_iff_eq] at h
    have hcd : ¬ (c = '_' ∧ d = '_') := fun ⟨h1, h2⟩ => by
      have := h.1 h1; simp [h2] at this
    have hl' : (d :: cs).getLast? ≠ some '_' := by
      simpa [List.getLast?_cons_cons] using hl
    have ih := cutSep_append (d :: cs) s h.2 hl'
    simp only [List.cons_append] at ih ⊢
    simp only [cutSep, hcd, ↓reduceIte]
    rw [ih]

theorem cutSep_inv : ∀ (n r : List Char), cutSep n = r → n = r ∨ ∃ s, n = r ++ '_' :: '_' :: s
  | [], r, h => by left; simpa [cutSep] using h
  | [c], r, h => by left; simpa [cutSep] using h
  | c :: d :: cs, r, h => by
    simp only [cutSep] at h
    by_cases hcd : c = '_' ∧ d = '_'
    · simp only [hcd, and_self, ↓reduceIte] at h
      right; exact ⟨cs, by rw [← h, hcd.1, hcd.2]; rfl⟩
    · simp only [hcd, ↓reduceIte] at h
      rcases cutSep_inv (d :: cs) (cutSep (d :: cs)) rfl with e | ⟨s, e⟩
      · left; rw [← h, ← e]
      · right; exact ⟨s, by rw [← h]; exact congrArg (c :: ·) e⟩

/-- **The convention.** For a rule name `r` that is not empty, contains no `"__"` and does not end
in `'_'`, the methods lox attributes to `r` are exactly `on_<r>` and `on_<r>__<anything>`. -/
theorem ruleOfChars_iff {n r : List Char} (hne : r ≠ []) (hs : hasSep r = false)
    (hl : r.getLast? ≠ some '_') :
    ruleOfChars n = some r ↔
      n = 'o' :: 'n' :: '_' :: r ∨ ∃ s, n = 'o' :: 'n' :: '_' :: (r ++ '_' :: '_' :: s) := by
  constructor
  · intro h
    unfold ruleOfChars at h
    split at h
    · rename_i rest
      split at h
      · cases h
      · rename_i x hx
        have hr : cutSep rest = r := by simpa using h
        rcases cutSep_inv rest r hr with e | ⟨s, e⟩
        · left; rw [e]
        · right; exact ⟨s, by rw [e]⟩
    · cases h
  · rintro (rfl | ⟨s, rfl⟩)
    · unfold ruleOfChars
      simp only [cutSep_self r hs]
    · unfold ruleOfChars
      simp only [cutSep_append r s hs hl]

/-! The three caveats of the convention on the real implementation (`ruleFromMethod`): -/

/-- a rule whose name ends in `_` cannot use a suffix: `on_a___x` is attributed to rule `a` -/
example : ruleOf "on_a___x" = some "a" := by decide
/-- methods named `on_`, `on___x` are not action methods at all (they are ignored) -/
example : ruleOf "on_" = none ∧ ruleOf "on___x" = none := by decide
/-- a rule name containing `__` could never be named by a method (the front end rejects such rule
names: "rule name cannot contain consecutive underscores") -/
example : ruleOf "on_a__b" = some "a" := by decide

/-! ## Decidable hypotheses -/

instance (c : Case) : Decidable (WF c) :=
  decidable_of_iff
    ((∀ p ∈ c.prods, p.rule < c.rules.length) ∧
     (∀ r ∈ c.rules, r.gen ≠ .user → ∀ m ∈ c.methods, ruleOf m.name ≠ some r.name) ∧
     (∀ r, r < c.rules.length → HelperShape c r))
    ⟨fun ⟨a, b, d⟩ => ⟨a, b, d⟩, fun ⟨a, b, d⟩ => ⟨a, b, d⟩⟩

/-- `Identical` restricted to the types `< n` is reflexive, symmetric and transitive. -/
def identCheck (c : Case) (n : Nat) : Bool :=
  (List.range n).all fun i => c.identical i i &&
    (List.range n).all fun j => (!c.identical i j || c.identical j i) &&
      (List.range n).all fun k => !(c.identical i j && c.identical j k) || c.identical i k

theorem identEquiv_of_check {c : Case} {n : Nat} (h : identCheck c n = true)
    (hout : ∀ i j, (n ≤ i ∨ n ≤ j) → c.identical i j = (i == j)) : IdentEquiv c := by
  unfold identCheck at h
  simp only [List.all_eq_true, List.mem_range, Bool.and_eq_true, Bool.or_eq_true,
    Bool.not_eq_eq_eq_not, Bool.not_true, Bool.and_eq_false_imp] at h
  refine ⟨?_, ?_, ?_⟩
  · intro t
    by_cases ht : t < n
    · exact (h t ht).1
    · rw [hout t t (Or.inl (Nat.le_of_not_lt ht))]; simp
  · intro t u htu
    by_cases ht : t < n
    · by_cases hu : u < n
      · rcases ((h t ht).2 u hu).1 with e | e
        · rw [e] at htu; cases htu
        · exact e
      · rw [hout t u (Or.inr (Nat.le_of_not_lt hu))] at htu
        have : t = u := by simpa using htu
        subst this; exact (h t ht).1
    · rw [hout t u (Or.inl (Nat.le_of_not_lt ht))] at htu
      have : t = u := by simpa using htu
      subst this
      rw [hout t t (Or.inl (Nat.le_of_not_lt ht))]; simp
  · intro t u v h1 h2
    by_cases ht : t < n
    · by_cases hu : u < n
      · by_cases hv : v < n
        · rcases ((h t ht).2 u hu).2 v hv with e | e
          · exact absurd h2 (by rw [e h1]; simp)
          · exact e
        · rw [hout u v (Or.inr (Nat.le_of_not_lt hv))] at h2
          have : u = v := by simpa using h2
          subst this; exact h1
      · rw [hout t u (Or.inr (Nat.le_of_not_lt hu))] at h1
        have : t = u := by simpa using h1
        subst this; exact h2
    · rw [hout t u (Or.inl (Nat.le_of_not_lt ht))] at h1
      have : t = u := by simpa using h1
      subst this; exact h2

end Lox.Dec.Assign
