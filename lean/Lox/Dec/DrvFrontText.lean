import Lox.Drv.Common
import Lox.Dec.FrontText
/-! Line-protocol ops of the front-end text helpers (family `fronttext`, C12). Core only.

```
dec.unescape <bytes>        -> ok <bytes> | panic
dec.hextorune <bytes>       -> ok <int32> | panic
dec.fixliteral <bytes>      -> ok <bytes> | panic
dec.checkescapes <bytes>    -> ok <offsets> | panic
dec.qualif <bytes>          -> prec <n> | diag | panic
dec.wellescaped <bytes>     -> 1 | 0          (the predicate the theorems are stated for)
dec.unescapecap <bytes> | <bytes behind the slice, inside its capacity>      -> ok <bytes> | panic
dec.checkescapescap <bytes> | <cap bytes>                                    -> ok <offsets> | panic
dec.fixliteralcap <bytes> | <cap bytes>                                      -> ok <bytes> | panic
```
Bytes are space separated decimal integers. -/
namespace Lox.Dec.FrontText
open Lox.Drv

def showRes (r : Res (List Nat)) : String :=
  match r with
  | .ok v => if v.isEmpty then "ok" else "ok " ++ showNats v
  | .panic _ => "panic"

def handleFrontText (op payload : String) : Option String :=
  match op with
  | "dec.unescape" => (parseNats payload).map fun bs => showRes (unescape bs)
  | "dec.fixliteral" => (parseNats payload).map fun bs => showRes (fixLiteral bs)
  | "dec.checkescapes" => (parseNats payload).map fun bs => showRes (checkEscapes 0 bs)
  | "dec.hextorune" => (parseNats payload).map fun bs =>
      match hexToRune bs with
      | .ok v => "ok " ++ toString v
      | .panic _ => "panic"
  | "dec.qualif" => (parseNats payload).map fun bs =>
      match qualif bs with
      | .prec n => "prec " ++ toString n
      | .diag => "diag"
      | .panic _ => "panic"
  | "dec.unescapecap" | "dec.checkescapescap" | "dec.fixliteralcap" =>
      match payload.splitOn "|" with
      | [a, b] =>
        match parseNats a, parseNats b with
        | some bs, some cap =>
          some (showRes (if op = "dec.unescapecap" then unescapeC cap bs
                         else if op = "dec.fixliteralcap" then fixLiteralC cap bs
                         else checkEscapesC cap 0 bs))
        | _, _ => none
      | _ => none
  | "dec.wellescaped" => (parseNats payload).map fun bs => if wellEscapedB bs then "1" else "0"
  | _ => none

end Lox.Dec.FrontText
