import Lox.Dec.Analyze
/-! # C17 — lemmas about `analyze` (helper module; the property theorems are in `Lox/Props/C17.lean`)

Each stage of `analyze` is characterised by a declarative condition on the declarations of the
specification (`Spec.lexRules`, `Spec.prules`, `Spec.events`), independent of the order in which the
passes walk over the statements. -/
namespace Lox.Dec.Analyze

/-! ## Lists -/

theorem isEmpty_false_iff {α : Type} (l : List α) : (!l.isEmpty) = true ↔ l ≠ [] := by
  cases l <;> simp

theorem firstNonEmpty_eq_nil (ls : List (List Diag)) : firstNonEmpty ls = [] ↔ ∀ l ∈ ls, l = [] := by
  induction ls with
  | nil => simp [firstNonEmpty]
  | cons d ds ih =>
    cases d with
    | nil => simp [firstNonEmpty, ih]
    | cons x xs => simp [firstNonEmpty]

theorem mem_firstNonEmpty {ls : List (List Diag)} {d : Diag} (h : d ∈ firstNonEmpty ls) : ∃ l ∈ ls, d ∈ l := by
  induction ls with
  | nil => simp [firstNonEmpty] at h
  | cons x xs ih =>
    cases x with
    | nil =>
      simp only [firstNonEmpty, List.isEmpty_nil, if_true] at h
      obtain ⟨l, hl, hd⟩ := ih h
      exact ⟨l, List.mem_cons_of_mem _ hl, hd⟩
    | cons y ys =>
      simp only [firstNonEmpty, List.isEmpty_cons] at h
      exact ⟨y :: ys, List.mem_cons_self, h⟩

/-- The first non-empty list, when the lists before it are empty. -/
theorem firstNonEmpty_append_of_nil {ls₁ : List (List Diag)} (h : ∀ l ∈ ls₁, l = []) (l : List Diag) (ls₂ : List (List Diag))
    (hl : l ≠ []) : firstNonEmpty (ls₁ ++ l :: ls₂) = l := by
  induction ls₁ with
  | nil => cases l with
    | nil => exact absurd rfl hl
    | cons x xs => simp [firstNonEmpty]
  | cons a as ih =>
    have ha : a = [] := h a List.mem_cons_self
    subst ha
    simp only [List.cons_append, firstNonEmpty, List.isEmpty_nil, if_true]
    exact ih fun l hl => h l (List.mem_cons_of_mem _ hl)

/-! ## Statements, rules, events -/

theorem mem_stmts {s : Spec} {st : Stmt} : st ∈ s.stmts ↔ ∃ u ∈ s.units, st ∈ u.stmts := by
  simp [Spec.stmts, List.mem_flatMap]

theorem mem_lexRules {s : Spec} {r : LexRule} : r ∈ s.lexRules ↔ ∃ st ∈ s.stmts, r ∈ st.lexRules := by
  simp [Spec.lexRules, List.mem_flatMap]

theorem mem_prules {s : Spec} {r : PRule} : r ∈ s.prules ↔ Stmt.prule r ∈ s.stmts := by
  simp only [Spec.prules, List.mem_flatMap]
  constructor
  · rintro ⟨st, hst, hr⟩
    cases st <;> simp [Stmt.prules] at hr
    subst hr; exact hst
  · intro h; exact ⟨_, h, by simp [Stmt.prules]⟩

theorem Stmt.events_eq (st : Stmt) :
    st.events = (match st with | .mode id l n _ => [modeEvent id l n] | _ => []) ++
      st.lexRules.flatMap LexRule.events ++ st.prules.map PRule.event := by
  cases st <;> simp [Stmt.events, Stmt.lexRules, Stmt.prules]

/-- Every event stems from a lexer rule, a mode header or a parser rule. -/
theorem mem_events {s : Spec} {ev : Ev} :
    ev ∈ s.events ↔ (∃ r ∈ s.lexRules, ev ∈ r.events) ∨ (∃ r ∈ s.prules, ev = r.event) ∨
      (∃ id l n rs, Stmt.mode id l n rs ∈ s.stmts ∧ ev = modeEvent id l n) := by
  simp only [Spec.events, List.mem_flatMap, mem_lexRules, mem_prules]
  constructor
  · rintro ⟨st, hst, hev⟩
    cases st with
    | rule r => exact Or.inl ⟨r, ⟨_, hst, by simp [Stmt.lexRules]⟩, by simpa [Stmt.events] using hev⟩
    | prule r =>
      simp only [Stmt.events, List.mem_singleton] at hev
      exact Or.inr (Or.inl ⟨r, hst, hev⟩)
    | mode id l n rs =>
      simp only [Stmt.events, List.mem_cons, List.mem_flatMap] at hev
      rcases hev with hev | ⟨r, hr, hev⟩
      · exact Or.inr (Or.inr ⟨id, l, n, rs, hst, hev⟩)
      · exact Or.inl ⟨r, ⟨_, hst, by simpa [Stmt.lexRules] using hr⟩, hev⟩
  · rintro (⟨r, ⟨st, hst, hr⟩, hev⟩ | ⟨r, hst, hev⟩ | ⟨id, l, n, rs, hst, hev⟩)
    · refine ⟨st, hst, ?_⟩
      cases st with
      | rule r' =>
        simp only [Stmt.lexRules, List.mem_singleton] at hr
        subst hr; simpa [Stmt.events] using hev
      | prule r' => simp [Stmt.lexRules] at hr
      | mode id l n rs =>
        simp only [Stmt.lexRules] at hr
        simp only [Stmt.events, List.mem_cons, List.mem_flatMap]
        exact Or.inr ⟨r, hr, hev⟩
    · exact ⟨_, hst, by simp [Stmt.events, hev]⟩
    · exact ⟨_, hst, by simp [Stmt.events, hev]⟩

/-! ## Stage 0 -/

theorem rep_eq_nil (n : Nat) (d : Diag) : rep n d = [] ↔ n = 0 := by
  simp [rep]

theorem Leaf.syntaxDiags_eq_nil (id : DeclId) (l : Leaf) : l.syntaxDiags id = [] ↔ l.escOk = true := by
  cases l <;> simp [Leaf.syntaxDiags, Leaf.escOk, rep_eq_nil]

theorem LexRule.syntaxDiags_eq_nil (r : LexRule) : r.syntaxDiags = [] ↔ ∀ l ∈ r.leaves, l.escOk = true := by
  cases r <;>
    simp [LexRule.syntaxDiags, LexRule.leaves, LexRule.expr?, exprSyntaxDiags, List.flatMap_eq_nil_iff,
      Leaf.syntaxDiags_eq_nil]

/-- What stage 0 wants from an atom of a production. -/
def PAtom.synOk : PAtom → Bool
  | .alias _ t b => b == 0 && !t.isEmpty
  | _ => true

theorem PAtom.syntaxDiags_eq_nil (id : DeclId) (a : PAtom) :
    a.syntaxDiags id = [] ↔ ∀ x ∈ a.atoms, x.synOk = true := by
  induction a with
  | name l n => simp [PAtom.syntaxDiags, PAtom.atoms, PAtom.synOk]
  | alias l t b =>
    by_cases ht : t.isEmpty <;> simp [PAtom.syntaxDiags, PAtom.atoms, PAtom.synOk, rep_eq_nil, ht]
  | error l => simp [PAtom.syntaxDiags, PAtom.atoms, PAtom.synOk]
  | list l e sp ihe ihs =>
    simp only [PAtom.syntaxDiags, List.append_eq_nil_iff, ihe, ihs, PAtom.atoms, List.mem_cons,
      List.mem_append]
    constructor
    · rintro ⟨h1, h2⟩ x (hx | hx | hx)
      · subst hx; rfl
      · exact h1 x hx
      · exact h2 x hx
    · intro h
      exact ⟨fun x hx => h x (Or.inr (Or.inl hx)), fun x hx => h x (Or.inr (Or.inr hx))⟩

theorem PTerm.syntaxDiags_eq_nil (id : DeclId) (t : PTerm) :
    t.syntaxDiags id = [] ↔ (∀ x ∈ t.atom.atoms, x.synOk = true) ∧ t.badListCard = false := by
  by_cases h : t.badListCard <;> simp [PTerm.syntaxDiags, PAtom.syntaxDiags_eq_nil, h]

theorem Qual.syntaxDiags_eq_nil (id : DeclId) (q : Option Qual) :
    Qual.syntaxDiags id q = [] ↔ ∀ x, q = some x → x.bad = false := by
  cases q with
  | none => simp [Qual.syntaxDiags]
  | some x => by_cases h : x.bad <;> simp [Qual.syntaxDiags, h]

theorem Prod.syntaxDiags_eq_nil (id : DeclId) (p : Prod) :
    p.syntaxDiags id = [] ↔
      (∀ t ∈ p.terms, (∀ x ∈ t.atom.atoms, x.synOk = true) ∧ t.badListCard = false) ∧
      (∀ x, p.qual = some x → x.bad = false) := by
  simp [Prod.syntaxDiags, List.flatMap_eq_nil_iff, PTerm.syntaxDiags_eq_nil, Qual.syntaxDiags_eq_nil]

theorem Stmt.syntaxDiags_eq_nil (st : Stmt) :
    st.syntaxDiags = [] ↔ (∀ r ∈ st.lexRules, r.syntaxDiags = []) ∧
      (∀ r ∈ st.prules, ∀ p ∈ r.prods, p.syntaxDiags r.id = []) := by
  cases st <;> simp [Stmt.syntaxDiags, Stmt.lexRules, Stmt.prules, List.flatMap_eq_nil_iff]

/-- Stage 0 in terms of the declarations. -/
structure Clean0 (s : Spec) : Prop where
  lex : ∀ r ∈ s.lexRules, ∀ l ∈ r.leaves, l.escOk = true
  atoms : ∀ r ∈ s.prules, ∀ p ∈ r.prods, ∀ t ∈ p.terms, ∀ x ∈ t.atom.atoms, x.synOk = true
  cards : ∀ r ∈ s.prules, ∀ p ∈ r.prods, ∀ t ∈ p.terms, t.badListCard = false
  quals : ∀ r ∈ s.prules, ∀ p ∈ r.prods, ∀ x, p.qual = some x → x.bad = false

theorem syntaxDiags_eq_nil (s : Spec) : syntaxDiags s = [] ↔ Clean0 s := by
  simp only [syntaxDiags, firstNonEmpty_eq_nil, List.mem_map, forall_exists_index, and_imp,
    forall_apply_eq_imp_iff₂, Unit.syntaxDiags, List.flatMap_eq_nil_iff, Stmt.syntaxDiags_eq_nil]
  constructor
  · intro h
    have hl : ∀ r ∈ s.lexRules, r.syntaxDiags = [] := by
      intro r hr
      obtain ⟨st, hst, hr⟩ := mem_lexRules.1 hr
      obtain ⟨u, hu, hst⟩ := mem_stmts.1 hst
      exact (h u hu st hst).1 r hr
    have hp : ∀ r ∈ s.prules, ∀ p ∈ r.prods, p.syntaxDiags r.id = [] := by
      intro r hr
      obtain ⟨u, hu, hst⟩ := mem_stmts.1 (mem_prules.1 hr)
      exact (h u hu _ hst).2 r (by simp [Stmt.prules])
    refine ⟨fun r hr => (LexRule.syntaxDiags_eq_nil r).1 (hl r hr), ?_, ?_, ?_⟩
    · intro r hr p hp' t ht
      exact (((Prod.syntaxDiags_eq_nil r.id p).1 (hp r hr p hp')).1 t ht).1
    · intro r hr p hp' t ht
      exact (((Prod.syntaxDiags_eq_nil r.id p).1 (hp r hr p hp')).1 t ht).2
    · intro r hr p hp'
      exact ((Prod.syntaxDiags_eq_nil r.id p).1 (hp r hr p hp')).2
  · intro h u hu st hst
    have hst' : st ∈ s.stmts := mem_stmts.2 ⟨u, hu, hst⟩
    refine ⟨fun r hr => (LexRule.syntaxDiags_eq_nil r).2 (h.lex r (mem_lexRules.2 ⟨st, hst', hr⟩)), ?_⟩
    intro r hr p hp
    have hr' : r ∈ s.prules := by
      cases st <;> simp [Stmt.prules] at hr
      subst hr; exact mem_prules.2 hst'
    exact (Prod.syntaxDiags_eq_nil r.id p).2
      ⟨fun t ht => ⟨h.atoms r hr' p hp t ht, h.cards r hr' p hp t ht⟩, h.quals r hr' p hp⟩

/-! ## Pass `CreateNames` -/

theorem foldDiag_append {α : Type} (f : Env → α → Env × List Diag) (env : Env) (xs ys : List α) :
    foldDiag f env (xs ++ ys) =
      ((foldDiag f (foldDiag f env xs).1 ys).1, (foldDiag f env xs).2 ++ (foldDiag f (foldDiag f env xs).1 ys).2) := by
  induction xs generalizing env with
  | nil => simp [foldDiag]
  | cons x xs ih => simp [foldDiag, ih, List.append_assoc]

/-- The entry an event registers. -/
def Ev.entry (ev : Ev) : Name × Ent := (ev.name, ev.ent)

theorem lookup_isSome_iff (env : Env) (n : Name) : (env.lookup n).isSome = true ↔ n ∈ env.map (·.1) := by
  induction env with
  | nil => simp [Env.lookup]
  | cons p ps ih =>
    obtain ⟨k, v⟩ := p
    simp only [Env.lookup, List.lookup_cons, List.map_cons, List.mem_cons]
    by_cases h : n == k
    · simp [eq_of_beq h]
    · have : n ≠ k := fun e => h (by simp [e])
      simp only [h]
      simp only [Env.lookup] at ih
      simp [ih, this]

theorem hasStart_append (env : Env) (p : Name × Ent) :
    Env.hasStart (env ++ [p]) = (env.hasStart || p.2.isStart) := by
  simp [Env.hasStart, List.any_append]

/-- One registration leaves no diagnostic. -/
def Ev.okIn (env : Env) (ev : Ev) : Prop :=
  ev.validate = [] ∧ ev.name ∉ env.map (·.1) ∧ ¬ (ev.ent.isStart = true ∧ env.hasStart = true)

theorem regEv_nil (env : Env) (ev : Ev) : (regEv env ev).2 = [] ↔ ev.okIn env := by
  unfold regEv Ev.okIn
  cases hv : ev.validate with
  | cons d ds => simp
  | nil =>
    by_cases hl : (env.lookup ev.name).isSome = true
    · simp [hl, (lookup_isSome_iff env ev.name).1 hl]
    · have hn : ev.name ∉ env.map (·.1) := fun h => hl ((lookup_isSome_iff env ev.name).2 h)
      simp only [hl]
      by_cases hs : (ev.ent.isStart && env.hasStart) = true
      · simp only [hs, if_true]
        simp only [Bool.and_eq_true] at hs
        simp [hs, hn]
      · simp only [hs]
        simp only [Bool.and_eq_true] at hs
        simp [hs, hn]

theorem regEv_env (env : Env) (ev : Ev) (h : (regEv env ev).2 = []) : (regEv env ev).1 = env ++ [ev.entry] := by
  have hk := (regEv_nil env ev).1 h
  obtain ⟨hv, hn, _⟩ := hk
  have hl : ¬ (env.lookup ev.name).isSome = true := fun h => hn ((lookup_isSome_iff env ev.name).1 h)
  simp [regEv, hv, hl, Ev.entry]

/-- A list of registrations leaves no diagnostic. -/
def EvsOk : Env → List Ev → Prop
  | _, [] => True
  | env, ev :: evs => ev.okIn env ∧ EvsOk (env ++ [ev.entry]) evs

theorem foldRegEv_nil (env : Env) (evs : List Ev) :
    (foldDiag regEv env evs).2 = [] ↔ EvsOk env evs := by
  induction evs generalizing env with
  | nil => simp [foldDiag, EvsOk]
  | cons ev evs ih =>
    simp only [foldDiag, List.append_eq_nil_iff, EvsOk, regEv_nil]
    constructor
    · rintro ⟨h1, h2⟩
      have := regEv_env env ev ((regEv_nil env ev).2 h1)
      rw [this] at h2
      exact ⟨h1, (ih _).1 h2⟩
    · rintro ⟨h1, h2⟩
      have := regEv_env env ev ((regEv_nil env ev).2 h1)
      rw [this]
      exact ⟨h1, (ih _).2 h2⟩

theorem foldRegEv_env (env : Env) (evs : List Ev) (h : (foldDiag regEv env evs).2 = []) :
    (foldDiag regEv env evs).1 = env ++ evs.map Ev.entry := by
  induction evs generalizing env with
  | nil => simp [foldDiag]
  | cons ev evs ih =>
    simp only [foldDiag, List.append_eq_nil_iff] at h ⊢
    have he := regEv_env env ev h.1
    rw [he] at h ⊢
    rw [ih _ h.2]
    simp

/-- A statement is as clean as the list of its registrations, and builds the same table. -/
theorem cnStmt_nil (env : Env) (st : Stmt) :
    ((cnStmt env st).2 = [] ↔ (foldDiag regEv env st.events).2 = []) ∧
    ((cnStmt env st).2 = [] → (cnStmt env st).1 = (foldDiag regEv env st.events).1) := by
  cases st with
  | rule r => simp [cnStmt, Stmt.events]
  | prule r => simp [cnStmt, Stmt.events, foldDiag]
  | mode id l n rs =>
    simp only [cnStmt, Stmt.events, foldDiag]
    by_cases h : (regEv env (modeEvent id l n)).2 = []
    · simp [h]
    · simp [h]

theorem foldCnStmt (env : Env) (sts : List Stmt) :
    ((foldDiag cnStmt env sts).2 = [] ↔ (foldDiag regEv env (sts.flatMap Stmt.events)).2 = []) ∧
    ((foldDiag cnStmt env sts).2 = [] →
      (foldDiag cnStmt env sts).1 = (foldDiag regEv env (sts.flatMap Stmt.events)).1) := by
  induction sts generalizing env with
  | nil => simp [foldDiag]
  | cons st sts ih =>
    simp only [foldDiag, List.flatMap_cons, foldDiag_append, List.append_eq_nil_iff]
    obtain ⟨h1, h2⟩ := cnStmt_nil env st
    constructor
    · constructor
      · rintro ⟨ha, hb⟩
        have he := h2 ha
        rw [he] at hb
        exact ⟨h1.1 ha, (ih _).1.1 hb⟩
      · rintro ⟨ha, hb⟩
        have he := h2 (h1.2 ha)
        rw [he]
        exact ⟨h1.2 ha, (ih _).1.2 hb⟩
    · rintro ⟨ha, hb⟩
      have he := h2 ha
      rw [he] at hb ⊢
      exact (ih _).2 hb

theorem createNames_nil (s : Spec) : (createNames s).2 = [] ↔ EvsOk [] s.events := by
  rw [createNames, (foldCnStmt [] s.stmts).1, foldRegEv_nil]; rfl

theorem createNames_env (s : Spec) (h : (createNames s).2 = []) : (createNames s).1 = s.declared := by
  have h' := h
  rw [createNames] at h ⊢
  rw [(foldCnStmt [] s.stmts).2 h]
  have : (foldDiag regEv [] (s.stmts.flatMap Stmt.events)).2 = [] := (foldCnStmt [] s.stmts).1.1 h
  rw [foldRegEv_env [] _ this]
  simp [Spec.declared, Spec.events, Ev.entry]

/-- `EvsOk` without the table: validity of each name, distinct names, at most one `@start`. -/
theorem evsOk_iff (env : Env) (evs : List Ev) :
    EvsOk env evs ↔
      (∀ ev ∈ evs, ev.validate = [] ∧ ev.name ∉ env.map (·.1) ∧ (ev.ent.isStart = true → env.hasStart = false)) ∧
      evs.Pairwise (fun a b => a.name ≠ b.name ∧ ¬ (a.ent.isStart = true ∧ b.ent.isStart = true)) := by
  induction evs generalizing env with
  | nil => simp [EvsOk]
  | cons ev evs ih =>
    simp only [EvsOk, ih, Ev.okIn, List.mem_cons, forall_eq_or_imp, List.pairwise_cons, List.map_append,
      List.map_cons, List.map_nil, List.mem_append, List.not_mem_nil, or_false, hasStart_append, Ev.entry]
    constructor
    · rintro ⟨⟨hv, hn, hs⟩, hall, hp⟩
      refine ⟨⟨⟨hv, hn, ?_⟩, ?_⟩, ?_, hp⟩
      · intro h; cases hh : env.hasStart <;> simp_all
      · intro x hx
        obtain ⟨h1, h2, h3⟩ := hall x hx
        refine ⟨h1, fun h => h2 (Or.inl h), fun h => ?_⟩
        have := h3 h
        simp only [Bool.or_eq_false_iff] at this
        exact this.1
      · intro x hx
        obtain ⟨h1, h2, h3⟩ := hall x hx
        refine ⟨fun h => h2 (Or.inr h.symm), ?_⟩
        rintro ⟨ha, hb⟩
        have := h3 hb
        simp [ha] at this
    · rintro ⟨⟨⟨hv, hn, hs⟩, hall⟩, hp1, hp⟩
      refine ⟨⟨hv, hn, ?_⟩, ?_, hp⟩
      · rintro ⟨ha, hb⟩; simp [hs ha] at hb
      · intro x hx
        obtain ⟨h1, h2, h3⟩ := hall x hx
        obtain ⟨h4, h5⟩ := hp1 x hx
        refine ⟨h1, ?_, ?_⟩
        · rintro (h | h)
          · exact h2 h
          · exact h4 h.symm
        · intro h
          simp only [Bool.or_eq_false_iff]
          refine ⟨h3 h, ?_⟩
          cases hh : ev.ent.isStart
          · rfl
          · exact absurd ⟨hh, h⟩ h5


/-- At most one element satisfies `p`. -/
theorem pairwise_not_both {α : Type} (p : α → Bool) (l : List α) :
    l.Pairwise (fun a b => ¬ (p a = true ∧ p b = true)) ↔ l.countP p ≤ 1 := by
  induction l with
  | nil => simp
  | cons a l ih =>
    simp only [List.pairwise_cons, ih, List.countP_cons]
    by_cases ha : p a = true
    · simp only [ha, true_and, if_true]
      constructor
      · rintro ⟨h1, _⟩
        have : l.countP p = 0 := List.countP_eq_zero.2 fun x hx => h1 x hx
        omega
      · intro h
        have h0 : l.countP p = 0 := by omega
        exact ⟨fun x hx => List.countP_eq_zero.1 h0 x hx, by omega⟩
    · simp [ha]

/-- Events of the three kinds of declaration. -/
theorem events_check {s : Spec} {ev : Ev} (h : ev ∈ s.events) :
    (ev.check = .lexical ∧ (ev.ent.isToken = true ∨ ev.ent.isMacro = true ∨ ev.ent.isExt = true)) ∨
    (ev.check = .rule ∧ ev.ent.isRule = true) ∨ (ev.check = .none ∧ ev.ent.isMode = true) := by
  rcases mem_events.1 h with ⟨r, _, hev⟩ | ⟨r, _, hev⟩ | ⟨id, l, n, rs, _, hev⟩
  · cases r with
    | token id l n e a =>
      simp only [LexRule.events, List.mem_singleton] at hev; subst hev; simp [Ent.isToken]
    | frag id l e a => simp [LexRule.events] at hev
    | «macro» id l n e =>
      simp only [LexRule.events, List.mem_singleton] at hev; subst hev; simp [Ent.isMacro]
    | external id l names =>
      simp only [LexRule.events, List.mem_map] at hev
      obtain ⟨p, _, rfl⟩ := hev; simp [Ent.isExt]
  · subst hev; simp [PRule.event, Ent.isRule]
  · subst hev; simp [modeEvent, Ent.isMode]

theorem mem_declared {s : Spec} {n : Name} {e : Ent} :
    (n, e) ∈ s.declared ↔ ∃ ev ∈ s.events, ev.name = n ∧ ev.ent = e := by
  simp only [Spec.declared, List.mem_map]
  constructor
  · rintro ⟨ev, hev, h⟩; cases h; exact ⟨ev, hev, rfl, rfl⟩
  · rintro ⟨ev, hev, rfl, rfl⟩; exact ⟨ev, hev, rfl⟩

/-- The start rules among the events are the `@start` parser rules. -/
theorem events_countP_start (s : Spec) :
    s.events.countP (·.ent.isStart) = (s.prules.filter (·.isStart)).length := by
  have key : ∀ sts : List Stmt, (sts.flatMap Stmt.events).countP (·.ent.isStart) =
      ((sts.flatMap Stmt.prules).filter (·.isStart)).length := by
    intro sts
    induction sts with
    | nil => simp
    | cons st sts ih =>
      simp only [List.flatMap_cons, List.countP_append, List.filter_append, List.length_append, ih]
      congr 1
      cases st with
      | rule r =>
        cases r <;> simp [Stmt.events, Stmt.prules, LexRule.events, Ent.isStart, List.countP_map, List.countP_eq_zero]
      | prule r =>
        by_cases h : r.isStart <;> simp [Stmt.events, Stmt.prules, PRule.event, Ent.isStart, h]
      | mode id l n rs =>
        simp only [Stmt.events, Stmt.prules, List.filter_nil, List.length_nil, List.countP_cons]
        have hm : (modeEvent id l n).ent.isStart = false := rfl
        have : (rs.flatMap LexRule.events).countP (·.ent.isStart) = 0 := by
          apply List.countP_eq_zero.2
          intro ev hev
          obtain ⟨r, _, hr⟩ := List.mem_flatMap.1 hev
          cases r with
          | token id l n e a => simp only [LexRule.events, List.mem_singleton] at hr; subst hr; simp [Ent.isStart]
          | frag id l e a => simp [LexRule.events] at hr
          | «macro» id l n e => simp only [LexRule.events, List.mem_singleton] at hr; subst hr; simp [Ent.isStart]
          | external id l names =>
            simp only [LexRule.events, List.mem_map] at hr
            obtain ⟨p, _, rfl⟩ := hr; simp [Ent.isStart]
        simp [this, hm]
  simpa [Spec.events, Spec.prules] using key s.stmts

/-- Pass `CreateNames` in terms of the declarations. -/
structure Clean1 (s : Spec) : Prop where
  valid : ∀ ev ∈ s.events, ev.validate = []
  nodup : (s.declared.map (·.1)).Nodup
  start : (s.prules.filter (·.isStart)).length ≤ 1

theorem createNames_nil_iff (s : Spec) : (createNames s).2 = [] ↔ Clean1 s := by
  rw [createNames_nil, evsOk_iff, List.pairwise_and_iff, pairwise_not_both (fun ev : Ev => ev.ent.isStart),
    events_countP_start]
  have hn : s.events.Pairwise (fun a b => a.name ≠ b.name) ↔ (s.declared.map (·.1)).Nodup := by
    simp [Spec.declared, List.nodup_iff_pairwise_ne, List.pairwise_map]
  rw [hn]
  constructor
  · rintro ⟨h1, h2, h3⟩
    exact ⟨fun ev hev => (h1 ev hev).1, h2, h3⟩
  · rintro ⟨h1, h2, h3⟩
    exact ⟨fun ev hev => ⟨h1 ev hev, by simp, by simp [Env.hasStart]⟩, h2, h3⟩

/-! ## Name table look-up -/

theorem lookup_eq_none (env : Env) (n : Name) : env.lookup n = none ↔ n ∉ env.map (·.1) := by
  have := lookup_isSome_iff env n
  cases h : env.lookup n <;> simp_all

theorem lookup_of_mem {env : Env} (hnd : (env.map (·.1)).Nodup) {n : Name} {e : Ent} (h : (n, e) ∈ env) :
    env.lookup n = some e := by
  induction env with
  | nil => simp at h
  | cons p ps ih =>
    obtain ⟨k, v⟩ := p
    simp only [List.map_cons, List.nodup_cons] at hnd
    simp only [Env.lookup, List.lookup_cons]
    rcases List.mem_cons.1 h with h1 | h2
    · cases h1; simp
    · have hk : n ≠ k := by
        intro e'; subst e'
        exact hnd.1 (List.mem_map.2 ⟨(n, e), h2, rfl⟩)
      have : (n == k) = false := by simp [hk]
      simp only [this]
      exact ih hnd.2 h2

theorem mem_of_lookup {env : Env} {n : Name} {e : Ent} (h : env.lookup n = some e) : (n, e) ∈ env := by
  induction env with
  | nil => simp [Env.lookup] at h
  | cons p ps ih =>
    obtain ⟨k, v⟩ := p
    simp only [Env.lookup, List.lookup_cons] at h
    by_cases hk : n == k
    · simp only [hk, Option.some.injEq] at h
      subst h
      rw [eq_of_beq hk]; exact List.mem_cons_self
    · simp only [hk] at h
      exact List.mem_cons_of_mem _ (ih h)

theorem lookup_iff {env : Env} (hnd : (env.map (·.1)).Nodup) {n : Name} {e : Ent} :
    env.lookup n = some e ↔ (n, e) ∈ env := ⟨mem_of_lookup, lookup_of_mem hnd⟩

/-! ## Pass `Check` -/

theorem mem_check {env : Env} {s : Spec} {d : Diag} :
    d ∈ check env s ↔ (∃ r ∈ s.lexRules, d ∈ r.check env) ∨ (∃ r ∈ s.prules, d ∈ r.check env) := by
  simp only [check, List.mem_flatMap, mem_lexRules, mem_prules]
  constructor
  · rintro ⟨st, hst, hd⟩
    cases st with
    | rule r => exact Or.inl ⟨r, ⟨_, hst, by simp [Stmt.lexRules]⟩, hd⟩
    | prule r => exact Or.inr ⟨r, hst, hd⟩
    | mode id l n rs =>
      simp only [Stmt.check, List.mem_flatMap] at hd
      obtain ⟨r, hr, hd⟩ := hd
      exact Or.inl ⟨r, ⟨_, hst, by simpa [Stmt.lexRules] using hr⟩, hd⟩
  · rintro (⟨r, ⟨st, hst, hr⟩, hd⟩ | ⟨r, hst, hd⟩)
    · refine ⟨st, hst, ?_⟩
      cases st with
      | rule r' => simp only [Stmt.lexRules, List.mem_singleton] at hr; subst hr; exact hd
      | prule r' => simp [Stmt.lexRules] at hr
      | mode id l n rs =>
        simp only [Stmt.lexRules] at hr
        simp only [Stmt.check, List.mem_flatMap]; exact ⟨r, hr, hd⟩
    · exact ⟨_, hst, hd⟩

theorem check_eq_nil {env : Env} {s : Spec} :
    check env s = [] ↔ (∀ r ∈ s.lexRules, r.check env = []) ∧ (∀ r ∈ s.prules, r.check env = []) := by
  simp only [List.eq_nil_iff_forall_not_mem, mem_check]
  constructor
  · intro h
    exact ⟨fun r hr d hd => h d (Or.inl ⟨r, hr, hd⟩), fun r hr d hd => h d (Or.inr ⟨r, hr, hd⟩)⟩
  · rintro ⟨h1, h2⟩ d (⟨r, hr, hd⟩ | ⟨r, hr, hd⟩)
    · exact h1 r hr d hd
    · exact h2 r hr d hd

def CharClass.ordered (c : CharClass) : Prop := ∀ i ∈ c.items, i.lo ≤ i.hi

theorem CharClass.check_eq_nil (id : DeclId) (c : CharClass) : c.check id = [] ↔ c.ordered := by
  simp [CharClass.check, reversedItems, List.filter_eq_nil_iff, CharClass.ordered, Nat.not_lt]

/-- What pass `Check` wants from a leaf of a lexer expression. -/
def Leaf.checkOk (env : Env) : Leaf → Prop
  | .lit _ t _ => t ≠ ""
  | .ref _ n => ∃ id l e, env.lookup n = some (.macro id l e)
  | .cls c => c.ordered
  | .diff a b => a.ordered ∧ b.ordered
  | .dot _ => True

theorem Leaf.check_eq_nil (env : Env) (id : DeclId) (l : Leaf) : l.check env id = [] ↔ l.checkOk env := by
  cases l with
  | lit ln t b => by_cases h : t.isEmpty <;> simp_all [Leaf.check, Leaf.checkOk, String.isEmpty_iff]
  | ref ln n =>
    simp only [Leaf.check, Leaf.checkOk]
    cases h : env.lookup n with
    | none => simp
    | some e => cases e <;> simp
  | cls c => simp [Leaf.check, Leaf.checkOk, CharClass.check_eq_nil]
  | diff a b => simp [Leaf.check, Leaf.checkOk, CharClass.check_eq_nil]
  | dot ln => simp [Leaf.check, Leaf.checkOk]

/-- What pass `Check` wants from an action. -/
def Action.checkOk (env : Env) : Action → Prop
  | .pushMode _ m => env.hasMode m = true
  | .emit _ n => ∃ e, env.lookup n = some e ∧ (e.isToken = true ∨ e.isExt = true)
  | _ => True

theorem Action.check_eq_nil (env : Env) (id : DeclId) (a : Action) : a.check env id = [] ↔ a.checkOk env := by
  cases a with
  | discard l => simp [Action.check, Action.checkOk]
  | popMode l => simp [Action.check, Action.checkOk]
  | pushMode l m => by_cases h : env.hasMode m <;> simp [Action.check, Action.checkOk, h]
  | emit l n =>
    simp only [Action.check, Action.checkOk]
    cases h : env.lookup n with
    | none => simp
    | some e => cases e <;> simp [Ent.isToken, Ent.isExt]

theorem LexRule.check_eq_nil (env : Env) (r : LexRule) :
    r.check env = [] ↔ (∀ l ∈ r.leaves, l.checkOk env) ∧ (∀ a ∈ r.actions, a.checkOk env) := by
  cases r <;>
    simp [LexRule.check, LexRule.leaves, LexRule.expr?, LexRule.actions, exprCheck, List.flatMap_eq_nil_iff,
      Leaf.check_eq_nil, Action.check_eq_nil]

/-- What pass `Check` wants from an atom of a production. -/
def PAtom.checkOk (env : Env) : PAtom → Prop
  | .name _ n => ∃ e, env.lookup n = some e ∧ (e.isToken = true ∨ e.isRule = true ∨ e.isExt = true)
  | .alias _ t _ => t = "" ∨ env.aliasCount t = 1
  | .error _ => True
  | .list _ e sp => e.isSimple = true ∧ sp.isSimple = true

theorem PAtom.check_eq_nil (env : Env) (id : DeclId) (a : PAtom) :
    a.check env id = [] ↔ ∀ x ∈ a.atoms, x.checkOk env := by
  induction a with
  | name l n =>
    simp only [PAtom.check, PAtom.atoms, List.mem_singleton, forall_eq, PAtom.checkOk]
    cases h : env.lookup n with
    | none => simp
    | some e => cases e <;> simp [Ent.isToken, Ent.isExt, Ent.isRule]
  | alias l t b =>
    simp only [PAtom.check, PAtom.atoms, List.mem_singleton, forall_eq, PAtom.checkOk]
    by_cases ht : t.isEmpty
    · simp [String.isEmpty_iff.1 ht]
    · have : t ≠ "" := fun e => ht (String.isEmpty_iff.2 e)
      simp only [ht, Bool.false_eq_true, if_false, this, false_or]
      rcases hc : env.aliasCount t with _ | _ | k <;> simp
  | error l => simp [PAtom.check, PAtom.atoms, PAtom.checkOk]
  | list l e sp ihe ihs =>
    simp only [PAtom.check, List.append_eq_nil_iff, ihe, ihs, PAtom.atoms, List.mem_cons, List.mem_append]
    constructor
    · rintro ⟨⟨h1, h2⟩, h3⟩ x (hx | hx | hx)
      · subst hx
        simp only [PAtom.checkOk]
        by_cases he : e.isSimple <;> by_cases hs : sp.isSimple <;> simp_all
      · exact h1 x hx
      · exact h2 x hx
    · intro h
      refine ⟨⟨fun x hx => h x (Or.inr (Or.inl hx)), fun x hx => h x (Or.inr (Or.inr hx))⟩, ?_⟩
      have := h _ (Or.inl rfl)
      simp only [PAtom.checkOk] at this
      simp [this.1, this.2]

theorem PRule.check_eq_nil (env : Env) (r : PRule) :
    r.check env = [] ↔ ∀ t ∈ r.terms, ∀ x ∈ t.atom.atoms, x.checkOk env := by
  simp only [PRule.check, List.flatMap_eq_nil_iff, PTerm.check, PAtom.check_eq_nil, PRule.terms, List.mem_flatMap]
  constructor
  · rintro h t ⟨p, hp, ht⟩; exact h p hp t ht
  · intro h p hp t ht; exact h t ⟨p, hp, ht⟩


/-! ## Pass `GenerateGrammar` -/

theorem mem_stmtGenerate {env : Env} {s : Spec} {d : Diag} :
    d ∈ s.stmts.flatMap (Stmt.generate env) ↔ ∃ r ∈ s.lexRules, d ∈ r.generate env := by
  simp only [List.mem_flatMap, mem_lexRules]
  constructor
  · rintro ⟨st, hst, hd⟩
    cases st with
    | rule r => exact ⟨r, ⟨_, hst, by simp [Stmt.lexRules]⟩, hd⟩
    | prule r => simp [Stmt.generate] at hd
    | mode id l n rs =>
      simp only [Stmt.generate, List.mem_flatMap] at hd
      obtain ⟨r, hr, hd⟩ := hd
      exact ⟨r, ⟨_, hst, by simpa [Stmt.lexRules] using hr⟩, hd⟩
  · rintro ⟨r, ⟨st, hst, hr⟩, hd⟩
    refine ⟨st, hst, ?_⟩
    cases st with
    | rule r' => simp only [Stmt.lexRules, List.mem_singleton] at hr; subst hr; exact hd
    | prule r' => simp [Stmt.lexRules] at hr
    | mode id l n rs =>
      simp only [Stmt.lexRules] at hr
      simp only [Stmt.generate, List.mem_flatMap]; exact ⟨r, hr, hd⟩

theorem stmtGenerate_eq_nil {env : Env} {s : Spec} :
    s.stmts.flatMap (Stmt.generate env) = [] ↔ ∀ r ∈ s.lexRules, r.generate env = [] := by
  simp only [List.eq_nil_iff_forall_not_mem, mem_stmtGenerate]
  constructor
  · intro h r hr d hd; exact h d ⟨r, hr, hd⟩
  · rintro h d ⟨r, hr, hd⟩; exact h r hr d hd

theorem tokenActionDiags_eq_nil (id : DeclId) (l : Line) (acts : List Action) :
    tokenActionDiags id l acts = [] ↔ ∀ a ∈ acts, a.isDiscard = false ∧ a.isEmit = false := by
  induction acts with
  | nil => simp [tokenActionDiags]
  | cons a as ih =>
    simp only [tokenActionDiags, List.mem_cons, forall_eq_or_imp]
    by_cases hd : a.isDiscard = true
    · simp [hd]
    · by_cases he : a.isEmit = true
      · simp [hd, he]
      · simp [hd, he, ih]

theorem Action.not_both (a : Action) : ¬ (a.isDiscard = true ∧ a.isEmit = true) := by
  cases a <;> simp [Action.isDiscard, Action.isEmit]

def b2n (b : Bool) : Nat := if b then 1 else 0

theorem fragActionDiags_eq_nil (id : DeclId) (l : Line) (hd he : Bool) (acts : List Action) :
    fragActionDiags id l hd he acts = [] ↔
      b2n hd + b2n he + (acts.filter Action.isDiscard).length + (acts.filter Action.isEmit).length ≤ 1 := by
  induction acts generalizing hd he with
  | nil => cases hd <;> cases he <;> simp [fragActionDiags, b2n]
  | cons a as ih =>
    simp only [fragActionDiags, List.filter_cons]
    by_cases h1 : a.isDiscard = true
    · have h2 : a.isEmit = false := by
        cases h : a.isEmit
        · rfl
        · exact absurd ⟨h1, h⟩ a.not_both
      cases hd
      · simp only [h1, h2, if_true, Bool.false_eq_true, if_false, ih, List.length_cons, b2n]
        omega
      · simp only [h1, h2, if_true, List.length_cons, b2n, Bool.false_eq_true, if_false]
        simp
        omega
    · by_cases h2 : a.isEmit = true
      · cases he
        · simp only [h1, h2, if_true, Bool.false_eq_true, if_false, ih, List.length_cons, b2n]
          omega
        · simp only [h1, h2, if_true, List.length_cons, b2n, Bool.false_eq_true, if_false]
          simp
          omega
      · simp only [h1, h2, Bool.false_eq_true, if_false, ih]

/-! ### Macro expansion and cycles -/

def Env.IsMacro (env : Env) (n : Name) : Prop := ∃ id l e, env.lookup n = some (.macro id l e)

/-- Macro `a` of the table mentions macro `b` of the table. -/
def Env.Edge (env : Env) (a b : Name) : Prop :=
  ∃ id l e, env.lookup a = some (.macro id l e) ∧ b ∈ exprRefs e ∧ env.IsMacro b

inductive Env.Reach (env : Env) : Name → Name → Prop where
  | step {a b : Name} : env.Edge a b → Reach env a b
  | trans {a b c : Name} : env.Edge a b → Reach env b c → Reach env a c

theorem Env.Reach.snoc {env : Env} {a b c : Name} (h : env.Reach a b) (e : env.Edge b c) : env.Reach a c := by
  induction h with
  | step e' => exact .trans e' (.step e)
  | trans e' _ ih => exact .trans e' (ih e)

/-- Every identifier in the body of a macro of the table names a macro of the table. -/
def Env.Resolved (env : Env) : Prop :=
  ∀ a id l e, env.lookup a = some (.macro id l e) → ∀ b ∈ exprRefs e, env.IsMacro b

/-- Pigeonhole: a duplicate-free list drawn from `m` is not longer than `m`. -/
theorem nodup_length_le {l m : List Name} (hn : l.Nodup) (hs : ∀ x ∈ l, x ∈ m) : l.length ≤ m.length := by
  induction l generalizing m with
  | nil => simp
  | cons a l ih =>
    simp only [List.nodup_cons] at hn
    have ha : a ∈ m := hs a List.mem_cons_self
    have : l.length ≤ (m.erase a).length := by
      apply ih hn.2
      intro x hx
      have hxa : x ≠ a := fun e => hn.1 (e ▸ hx)
      exact (List.mem_erase_of_ne hxa).2 (hs x (List.mem_cons_of_mem _ hx))
    rw [List.length_erase_of_mem ha] at this
    have : 0 < m.length := List.length_pos_of_mem ha
    simp only [List.length_cons]
    omega

theorem isMacro_mem_names {env : Env} {n : Name} (h : env.IsMacro n) : n ∈ env.map (·.1) := by
  obtain ⟨id, l, e, h⟩ := h
  exact List.mem_map.2 ⟨_, mem_of_lookup h, rfl⟩

/-- Without cycles the expansion reports nothing (and the budget is never used up). -/
theorem expandMacro_nil_of_acyclic {env : Env} (hres : env.Resolved) (hac : ∀ m, ¬ env.Reach m m) :
    ∀ (fuel : Nat) (V : List Name) (m : Name), env.IsMacro m → V.Nodup → (∀ v ∈ V, env.Reach v m) →
      (∀ v ∈ V, v ∈ env.map (·.1)) → env.length + 1 ≤ V.length + fuel → expandMacro env fuel V m = [] := by
  intro fuel
  induction fuel with
  | zero =>
    intro V m _ hnd _ hsub hlen
    have := nodup_length_le hnd hsub
    simp only [List.length_map] at this
    omega
  | succ f ih =>
    intro V m hm hnd hreach hsub hlen
    obtain ⟨id, l, e, hl⟩ := hm
    have hmV : m ∉ V := fun h => hac m (hreach m h)
    simp only [expandMacro, hl]
    have : V.contains m = false := by simpa using hmV
    simp only [this, Bool.false_eq_true, if_false, List.flatMap_eq_nil_iff]
    intro b hb
    have hbm : env.IsMacro b := hres m id l e hl b hb
    have hedge : env.Edge m b := ⟨id, l, e, hl, hb, hbm⟩
    apply ih (m :: V) b hbm
    · exact List.nodup_cons.2 ⟨hmV, hnd⟩
    · intro v hv
      rcases List.mem_cons.1 hv with rfl | hv
      · exact .step hedge
      · exact (hreach v hv).snoc hedge
    · intro v hv
      rcases List.mem_cons.1 hv with rfl | hv
      · exact isMacro_mem_names ⟨id, l, e, hl⟩
      · exact hsub v hv
    · simp only [List.length_cons]; omega

/-- An expansion that reports nothing never comes back to a macro it is expanding. -/
theorem not_mem_of_expandMacro_nil {env : Env} {a c : Name} (h : env.Reach a c) :
    ∀ (fuel : Nat) (V : List Name), expandMacro env fuel V a = [] → c ∉ a :: V := by
  induction h with
  | @step a b e =>
    intro fuel V hx
    obtain ⟨id, l, ex, hl, hb, ⟨id', l', e', hl'⟩⟩ := e
    cases fuel with
    | zero => simp [expandMacro] at hx
    | succ f =>
      simp only [expandMacro, hl] at hx
      by_cases hc : V.contains a = true
      · rw [if_pos hc] at hx; simp at hx
      · simp only [hc, Bool.false_eq_true, if_false, List.flatMap_eq_nil_iff] at hx
        have hb' := hx b hb
        cases f with
        | zero => simp [expandMacro] at hb'
        | succ f' =>
          simp only [expandMacro, hl'] at hb'
          by_cases hc' : (a :: V).contains b = true
          · rw [if_pos hc'] at hb'; simp at hb'
          · simpa using hc'
  | @trans a b c e _ ih =>
    intro fuel V hx
    obtain ⟨id, l, ex, hl, hb, _⟩ := e
    cases fuel with
    | zero => simp [expandMacro] at hx
    | succ f =>
      simp only [expandMacro, hl] at hx
      by_cases hc : V.contains a = true
      · rw [if_pos hc] at hx; simp at hx
      · simp only [hc, Bool.false_eq_true, if_false, List.flatMap_eq_nil_iff] at hx
        have := ih f (a :: V) (hx b hb)
        intro hmem
        exact this (List.mem_cons_of_mem _ hmem)

theorem acyclic_of_expandMacro_nil {env : Env} (fuel : Nat)
    (h : ∀ m, env.IsMacro m → expandMacro env fuel [] m = []) : ∀ m, ¬ env.Reach m m := by
  intro m hr
  have hm : env.IsMacro m := by
    cases hr with
    | step e => obtain ⟨id, l, ex, hl, _⟩ := e; exact ⟨id, l, ex, hl⟩
    | trans e _ => obtain ⟨id, l, ex, hl, _⟩ := e; exact ⟨id, l, ex, hl⟩
  exact not_mem_of_expandMacro_nil hr fuel [] (h m hm) List.mem_cons_self


/-! ## Names -/

theorem hasDoubleUnderscore_iff (cs : List Char) :
    hasDoubleUnderscore cs = true ↔ ∃ pre post, cs = pre ++ '_' :: '_' :: post := by
  fun_induction hasDoubleUnderscore cs with
  | case1 rest => simp; exact ⟨[], rest, rfl⟩
  | case2 c cs' hne ih =>
    rw [ih]
    constructor
    · rintro ⟨pre, post, h⟩; exact ⟨c :: pre, post, by simp [h]⟩
    · rintro ⟨pre, post, h⟩
      cases pre with
      | nil =>
        simp only [List.nil_append, List.cons.injEq] at h
        obtain ⟨h1, h2⟩ := h
        subst h1 h2
        exact (hne post rfl rfl).elim
      | cons p pre' =>
        simp only [List.cons_append, List.cons.injEq] at h
        exact ⟨pre', post, h.2⟩
  | case3 => simp


theorem endsWithUnderscore_iff (cs : List Char) : endsWithUnderscore cs = true ↔ ∃ pre, cs = pre ++ ['_'] := by
  simp [endsWithUnderscore, List.getLast?_eq_some_iff]

theorem matchesTokenRegex_iff (cs : List Char) :
    matchesTokenRegex cs = true ↔ ∃ c rest, cs = c :: rest ∧ c.isUpper = true ∧
      ∀ x ∈ rest, x.isUpper = true ∨ x.isDigit = true ∨ x = '_' := by
  cases cs with
  | nil => simp [matchesTokenRegex]
  | cons c rest =>
    simp only [matchesTokenRegex, isNameChar, Bool.and_eq_true, List.all_eq_true, Bool.or_eq_true, beq_iff_eq,
      or_assoc, List.cons.injEq]
    constructor
    · rintro ⟨h1, h2⟩; exact ⟨c, rest, ⟨rfl, rfl⟩, h1, h2⟩
    · rintro ⟨c', rest', ⟨rfl, rfl⟩, h1, h2⟩; exact ⟨h1, h2⟩

theorem isReserved_iff (n : Name) : isReserved n = true ↔ n = "EOF" ∨ n = "ERROR" := by
  simp [isReserved]

theorem validTokenNameB_iff (n : Name) : validTokenNameB n = true ↔ ValidTokenName n := by
  have hr := isReserved_iff n
  simp only [validTokenNameB, tokenNameShapeOk, Bool.and_eq_true, Bool.not_eq_true', ValidTokenName,
    matchesTokenRegex_iff, ← Bool.not_eq_true, endsWithUnderscore_iff, hasDoubleUnderscore_iff, hr, not_or]
  simp only [and_assoc, ne_eq]

theorem validRuleNameB_iff (n : Name) : validRuleNameB n = true ↔ ValidRuleName n := by
  have hr := isReserved_iff n
  simp only [validRuleNameB, ruleNameOk, Bool.and_eq_true, Bool.not_eq_true', ValidRuleName, ← Bool.not_eq_true,
    hasDoubleUnderscore_iff, hr, not_or, ne_eq]


/-! ## The passes in terms of the declarations -/

/-- Pass `Check` in terms of the declarations. -/
structure Clean2 (s : Spec) (env : Env) : Prop where
  leaves : ∀ r ∈ s.lexRules, ∀ l ∈ r.leaves, l.checkOk env
  actions : ∀ r ∈ s.lexRules, ∀ a ∈ r.actions, a.checkOk env
  atoms : ∀ r ∈ s.prules, ∀ t ∈ r.terms, ∀ x ∈ t.atom.atoms, x.checkOk env

theorem check_nil_iff (env : Env) (s : Spec) : check env s = [] ↔ Clean2 s env := by
  simp only [check_eq_nil, LexRule.check_eq_nil, PRule.check_eq_nil]
  constructor
  · rintro ⟨h1, h2⟩; exact ⟨fun r hr => (h1 r hr).1, fun r hr => (h1 r hr).2, h2⟩
  · rintro ⟨h1, h2, h3⟩; exact ⟨fun r hr => ⟨h1 r hr, h2 r hr⟩, h3⟩

theorem mem_exprRefs {e : LExpr} {b : Name} : b ∈ exprRefs e ↔ ∃ ln, Leaf.ref ln b ∈ exprLeaves e := by
  simp only [exprRefs, List.mem_flatMap]
  constructor
  · rintro ⟨l, hl, hb⟩
    cases l <;> simp [Leaf.refName] at hb
    subst hb; exact ⟨_, hl⟩
  · rintro ⟨ln, h⟩; exact ⟨_, h, by simp [Leaf.refName]⟩

/-- A macro entry of the name table stems from a `@macro` declaration. -/
theorem macro_rule_of_declared {s : Spec} {n : Name} {id : DeclId} {l : Line} {e : LExpr}
    (h : (n, Ent.macro id l e) ∈ s.declared) : LexRule.macro id l n e ∈ s.lexRules := by
  obtain ⟨ev, hev, hn, he⟩ := mem_declared.1 h
  rcases mem_events.1 hev with ⟨r, hr, hev⟩ | ⟨r, _, hev⟩ | ⟨id', l', n', rs, _, hev⟩
  · cases r with
    | token id' l' n' e' a =>
      simp only [LexRule.events, List.mem_singleton] at hev; subst hev; simp at he
    | frag id' l' e' a => simp [LexRule.events] at hev
    | «macro» id' l' n' e' =>
      simp only [LexRule.events, List.mem_singleton] at hev; subst hev
      simp only [Ent.macro.injEq] at he
      obtain ⟨rfl, rfl, rfl⟩ := he
      simp only at hn; subst hn; exact hr
    | external id' l' names =>
      simp only [LexRule.events, List.mem_map] at hev
      obtain ⟨p, _, rfl⟩ := hev; simp at he
  · subst hev; simp [PRule.event] at he
  · subst hev; simp [modeEvent] at he

theorem declared_of_macro_rule {s : Spec} {n : Name} {id : DeclId} {l : Line} {e : LExpr}
    (h : LexRule.macro id l n e ∈ s.lexRules) : (n, Ent.macro id l e) ∈ s.declared :=
  mem_declared.2 ⟨⟨id, l, n, .macro id l e, .lexical⟩, mem_events.2 (Or.inl ⟨_, h, by simp [LexRule.events]⟩), rfl, rfl⟩

/-- Pass `GenerateGrammar` in terms of the declarations. -/
structure Clean4 (s : Spec) (env : Env) : Prop where
  shape : ∀ r ∈ s.lexRules, ∀ e, r.expr? = some e → exprShapeOk e = true
  tokenActs : ∀ r ∈ s.lexRules, r.isToken = true → ∀ a ∈ r.actions, a.isDiscard = false ∧ a.isEmit = false
  fragActs : ∀ r ∈ s.lexRules, r.isFrag = true →
    (r.actions.filter Action.isDiscard).length + (r.actions.filter Action.isEmit).length ≤ 1
  acyclic : ∀ m, ¬ env.Reach m m
  start : env.hasRules = true → env.hasStart = true

theorem resolved_of_clean2 {s : Spec} (h2 : Clean2 s s.declared) :
    Env.Resolved s.declared := by
  intro a id l e hl b hb
  have hr := macro_rule_of_declared (mem_of_lookup hl)
  obtain ⟨ln, hleaf⟩ := mem_exprRefs.1 hb
  have := h2.leaves _ hr (.ref ln b) (by simpa [LexRule.leaves, LexRule.expr?] using hleaf)
  exact this

theorem expandExpr_eq_nil (env : Env) (e : LExpr) :
    expandExpr env e = [] ↔ exprShapeOk e = true ∧ ∀ b ∈ exprRefs e, expandMacro env (env.length + 1) [] b = [] := by
  unfold expandExpr
  by_cases h : exprShapeOk e = true
  · simp [h, List.flatMap_eq_nil_iff]
  · simp [h]

/-- The statements' part of pass `GenerateGrammar` in terms of the declarations. -/
structure Clean4L (s : Spec) (env : Env) : Prop where
  shape : ∀ r ∈ s.lexRules, ∀ e, r.expr? = some e → exprShapeOk e = true
  tokenActs : ∀ r ∈ s.lexRules, r.isToken = true → ∀ a ∈ r.actions, a.isDiscard = false ∧ a.isEmit = false
  fragActs : ∀ r ∈ s.lexRules, r.isFrag = true →
    (r.actions.filter Action.isDiscard).length + (r.actions.filter Action.isEmit).length ≤ 1
  acyclic : ∀ m, ¬ env.Reach m m

theorem lexGenerate_nil_iff {s : Spec} (hnd : (s.declared.map (·.1)).Nodup) (h2 : Clean2 s s.declared) :
    (∀ r ∈ s.lexRules, r.generate s.declared = []) ↔ Clean4L s s.declared := by
  have hres := resolved_of_clean2 h2
  constructor
  · intro hg
    have hmac : ∀ m, s.declared.IsMacro m → expandMacro s.declared (s.declared.length + 1) [] m = [] := by
      rintro m ⟨id, l, e, hl⟩
      have := hg _ (macro_rule_of_declared (mem_of_lookup hl))
      simp only [LexRule.generate] at this
      by_cases hsh : exprShapeOk e = true
      · simpa [hsh] using this
      · simp [hsh] at this
    refine ⟨?_, ?_, ?_, acyclic_of_expandMacro_nil _ hmac⟩
    · intro r hr e he
      have := hg r hr
      cases r with
      | token id l n e' a =>
        simp only [LexRule.expr?, Option.some.injEq] at he; subst he
        simp only [LexRule.generate, List.append_eq_nil_iff, expandExpr_eq_nil] at this
        exact this.1.1
      | frag id l e' a =>
        simp only [LexRule.expr?, Option.some.injEq] at he; subst he
        simp only [LexRule.generate, List.append_eq_nil_iff, expandExpr_eq_nil] at this
        exact this.1.1
      | «macro» id l n e' =>
        simp only [LexRule.expr?, Option.some.injEq] at he; subst he
        simp only [LexRule.generate] at this
        by_cases hsh : exprShapeOk e' = true
        · exact hsh
        · simp [hsh] at this
      | external id l names => simp [LexRule.expr?] at he
    · intro r hr ht
      have := hg r hr
      cases r <;> simp [LexRule.isToken] at ht
      simp only [LexRule.generate, List.append_eq_nil_iff, tokenActionDiags_eq_nil] at this
      simpa [LexRule.actions] using this.2
    · intro r hr hf
      have := hg r hr
      cases r <;> simp [LexRule.isFrag] at hf
      simp only [LexRule.generate, List.append_eq_nil_iff, fragActionDiags_eq_nil] at this
      simpa [LexRule.actions, b2n] using this.2
  · rintro ⟨hshape, htok, hfrag, hac⟩
    have hexp : ∀ b, s.declared.IsMacro b → expandMacro s.declared (s.declared.length + 1) [] b = [] := by
      intro b hb
      exact expandMacro_nil_of_acyclic hres hac _ [] b hb List.nodup_nil (by simp) (by simp) (by simp)
    have hrefs : ∀ r ∈ s.lexRules, ∀ e, r.expr? = some e → ∀ b ∈ exprRefs e, s.declared.IsMacro b := by
      intro r hr e he b hb
      obtain ⟨ln, hleaf⟩ := mem_exprRefs.1 hb
      exact h2.leaves r hr (.ref ln b) (by simpa [LexRule.leaves, he] using hleaf)
    intro r hr
    cases r with
    | token id l n e a =>
      simp only [LexRule.generate, List.append_eq_nil_iff, expandExpr_eq_nil, tokenActionDiags_eq_nil]
      exact ⟨⟨hshape _ hr e rfl, fun b hb => hexp b (hrefs _ hr e rfl b hb)⟩, by simpa [LexRule.actions] using htok _ hr rfl⟩
    | frag id l e a =>
      simp only [LexRule.generate, List.append_eq_nil_iff, expandExpr_eq_nil, fragActionDiags_eq_nil]
      exact ⟨⟨hshape _ hr e rfl, fun b hb => hexp b (hrefs _ hr e rfl b hb)⟩, by simpa [LexRule.actions, b2n] using hfrag _ hr rfl⟩
    | «macro» id l n e =>
      simp only [LexRule.generate, hshape _ hr e rfl]
      simpa using hexp n ⟨id, l, e, lookup_of_mem hnd (declared_of_macro_rule hr)⟩
    | external id l names => simp [LexRule.generate]


theorem generate_eq_nil_split (env : Env) (s : Spec) : generate env s = [] ↔
    (∀ r ∈ s.lexRules, r.generate env = []) ∧ (env.hasRules = true → env.hasStart = true) := by
  unfold generate
  simp only [isEmpty_false_iff]
  by_cases h : s.stmts.flatMap (Stmt.generate env) = []
  · have h' := stmtGenerate_eq_nil.1 h
    simp only [h, ne_eq, not_true_eq_false, if_false]
    cases h1 : env.hasRules <;> cases h2 : env.hasStart <;> simp <;> exact h'
  · have h' := h
    rw [stmtGenerate_eq_nil] at h'
    simp [h, h']

theorem generate_nil_iff {s : Spec} (hnd : (s.declared.map (·.1)).Nodup) (h2 : Clean2 s s.declared) :
    generate s.declared s = [] ↔ Clean4 s s.declared := by
  rw [generate_eq_nil_split, lexGenerate_nil_iff hnd h2]
  constructor
  · rintro ⟨⟨a, b, c, d⟩, hs⟩; exact ⟨a, b, c, d, hs⟩
  · rintro ⟨a, b, c, d, hs⟩; exact ⟨⟨a, b, c, d⟩, hs⟩

/-- `analyze` reports nothing exactly when every stage is clean. -/
theorem analyze_nil_clean (s : Spec) :
    analyze s = [] ↔ Clean0 s ∧ Clean1 s ∧ Clean2 s s.declared ∧ Clean4 s s.declared := by
  unfold analyze
  simp only [isEmpty_false_iff]
  by_cases h0 : syntaxDiags s = []
  · simp only [h0, ne_eq, not_true_eq_false, if_false]
    by_cases h1 : (createNames s).2 = []
    · have henv := createNames_env s h1
      simp only [h1, not_true_eq_false, if_false, henv]
      have c1 := (createNames_nil_iff s).1 h1
      by_cases h2 : check s.declared s = []
      · simp only [h2, not_true_eq_false, if_false]
        have c2 := (check_nil_iff _ s).1 h2
        rw [generate_nil_iff c1.nodup c2]
        exact ⟨fun h => ⟨(syntaxDiags_eq_nil s).1 h0, c1, c2, h⟩, fun h => h.2.2.2⟩
      · simp only [h2, not_false_eq_true, if_true]
        exact ⟨fun h => h.elim, fun h => absurd ((check_nil_iff _ s).2 h.2.2.1) h2⟩
    · simp only [h1, not_false_eq_true, if_true]
      exact ⟨fun h => h.elim, fun h => absurd ((createNames_nil_iff s).2 h.2.1) h1⟩
  · simp only [h0, ne_eq, not_false_eq_true, if_true]
    exact ⟨fun h => h.elim, fun h => absurd ((syntaxDiags_eq_nil s).2 h.1) h0⟩


/-! ## Clean stages ↔ `WellFormed` -/

theorem mem_leaves {s : Spec} {l : Leaf} : l ∈ s.leaves ↔ ∃ r ∈ s.lexRules, l ∈ r.leaves := by
  simp [Spec.leaves, List.mem_flatMap]

theorem mem_actions {s : Spec} {a : Action} : a ∈ s.actions ↔ ∃ r ∈ s.lexRules, a ∈ r.actions := by
  simp [Spec.actions, List.mem_flatMap]

theorem mem_pterms {s : Spec} {t : PTerm} : t ∈ s.pterms ↔ ∃ r ∈ s.prules, ∃ p ∈ r.prods, t ∈ p.terms := by
  simp [Spec.pterms, PRule.terms, List.mem_flatMap]

theorem mem_terms {r : PRule} {t : PTerm} : t ∈ r.terms ↔ ∃ p ∈ r.prods, t ∈ p.terms := by
  simp [PRule.terms, List.mem_flatMap]

theorem mem_patoms {s : Spec} {x : PAtom} :
    x ∈ s.patoms ↔ ∃ r ∈ s.prules, ∃ p ∈ r.prods, ∃ t ∈ p.terms, x ∈ t.atom.atoms := by
  simp only [Spec.patoms, List.mem_flatMap, mem_pterms]
  constructor
  · rintro ⟨t, ⟨r, hr, p, hp, ht⟩, hx⟩; exact ⟨r, hr, p, hp, t, ht, hx⟩
  · rintro ⟨r, hr, p, hp, t, ht, hx⟩; exact ⟨t, ⟨r, hr, p, hp, ht⟩, hx⟩

theorem validate_lexical {ev : Ev} (h : ev.check = .lexical) : ev.validate = [] ↔ validTokenNameB ev.name = true := by
  unfold Ev.validate validTokenNameB
  rw [h]
  by_cases h1 : tokenNameShapeOk ev.name = true <;> by_cases h2 : isReserved ev.name = true <;> simp [h1, h2]

theorem validate_rule {ev : Ev} (h : ev.check = .rule) : ev.validate = [] ↔ validRuleNameB ev.name = true := by
  unfold Ev.validate validRuleNameB
  rw [h]
  by_cases h1 : ruleNameOk ev.name = true <;> by_cases h2 : isReserved ev.name = true <;> simp [h1, h2]

theorem validate_none {ev : Ev} (h : ev.check = .none) : ev.validate = [] := by
  unfold Ev.validate; rw [h]

theorem hasMode_iff (env : Env) (m : Name) : env.hasMode m = true ↔ m = defaultMode ∨ (m, Ent.mode) ∈ env := by
  simp only [Env.hasMode, Bool.or_eq_true, beq_iff_eq, List.any_eq_true, Bool.and_eq_true]
  constructor
  · rintro (h | ⟨⟨n, e⟩, hp, hn, he⟩)
    · exact Or.inl h
    · cases e <;> simp [Ent.isMode] at he
      simp only at hn; subst hn; exact Or.inr hp
  · rintro (h | h)
    · exact Or.inl h
    · exact Or.inr ⟨_, h, rfl, rfl⟩

theorem lexRule_event_check {r : LexRule} {ev : Ev} (h : ev ∈ r.events) : ev.check = .lexical := by
  cases r with
  | token id l n e a => simp only [LexRule.events, List.mem_singleton] at h; subst h; rfl
  | frag id l e a => simp [LexRule.events] at h
  | «macro» id l n e => simp only [LexRule.events, List.mem_singleton] at h; subst h; rfl
  | external id l names =>
    simp only [LexRule.events, List.mem_map] at h
    obtain ⟨p, _, rfl⟩ := h; rfl

theorem declared_hasRules (s : Spec) : s.declared.hasRules = true ↔ s.prules ≠ [] := by
  simp only [Env.hasRules, List.any_eq_true]
  constructor
  · rintro ⟨⟨n, e⟩, hp, he⟩
    obtain ⟨ev, hev, _, rfl⟩ := mem_declared.1 hp
    rcases events_check hev with ⟨_, h⟩ | ⟨hc, _⟩ | ⟨_, h⟩
    · cases hh : ev.ent <;> simp_all [Ent.isRule, Ent.isToken, Ent.isMacro, Ent.isExt]
    · rcases mem_events.1 hev with ⟨r, _, hr⟩ | ⟨r, hr, _⟩ | ⟨id, l, n', rs, _, hr⟩
      · rw [lexRule_event_check hr] at hc; cases hc
      · exact List.ne_nil_of_mem hr
      · subst hr; simp [modeEvent] at hc
    · cases hh : ev.ent <;> simp_all [Ent.isRule, Ent.isMode]
  · intro h
    obtain ⟨r, hr⟩ := List.exists_mem_of_ne_nil _ h
    exact ⟨(r.name, .rule r.isStart), mem_declared.2 ⟨r.event, mem_events.2 (Or.inr (Or.inl ⟨r, hr, rfl⟩)), rfl, rfl⟩, rfl⟩

theorem declared_hasStart (s : Spec) : s.declared.hasStart = true ↔ 0 < (s.prules.filter (·.isStart)).length := by
  rw [← events_countP_start, List.countP_pos_iff]
  simp only [Env.hasStart, List.any_eq_true]
  constructor
  · rintro ⟨⟨n, e⟩, hp, he⟩
    obtain ⟨ev, hev, _, rfl⟩ := mem_declared.1 hp
    exact ⟨ev, hev, he⟩
  · rintro ⟨ev, hev, he⟩
    exact ⟨(ev.name, ev.ent), mem_declared.2 ⟨ev, hev, rfl, rfl⟩, he⟩

theorem isMacro_iff {s : Spec} (hnd : (s.declared.map (·.1)).Nodup) (n : Name) : s.declared.IsMacro n ↔ s.IsMacro n := by
  simp only [Env.IsMacro, Spec.IsMacro, lookup_iff hnd]

theorem edge_iff {s : Spec} (hnd : (s.declared.map (·.1)).Nodup) (a b : Name) : s.declared.Edge a b ↔ s.MacroRef a b := by
  simp only [Env.Edge, Spec.MacroRef, lookup_iff hnd, isMacro_iff hnd]

theorem reach_iff {s : Spec} (hnd : (s.declared.map (·.1)).Nodup) (a b : Name) : s.declared.Reach a b ↔ s.MacroReach a b := by
  constructor
  · intro h
    induction h with
    | step e => exact .step ((edge_iff hnd _ _).1 e)
    | trans e _ ih => exact .trans ((edge_iff hnd _ _).1 e) ih
  · intro h
    induction h with
    | step e => exact .step ((edge_iff hnd _ _).2 e)
    | trans e _ ih => exact .trans ((edge_iff hnd _ _).2 e) ih

theorem Ent.isToken_iff (e : Ent) : e.isToken = true ↔ ∃ a, e = .token a := by
  cases e <;> simp [Ent.isToken]

theorem Ent.isRule_iff (e : Ent) : e.isRule = true ↔ ∃ b, e = .rule b := by
  cases e <;> simp [Ent.isRule]

theorem Ent.isExt_iff (e : Ent) : e.isExt = true ↔ e = .ext := by
  cases e <;> simp [Ent.isExt]

theorem Ent.isMacro_iff (e : Ent) : e.isMacro = true ↔ ∃ id l ex, e = .macro id l ex := by
  cases e <;> simp [Ent.isMacro]

theorem PAtom.synOk_iff (x : PAtom) : x.synOk = true ↔ x.escOk = true ∧ ∀ l t b, x = .alias l t b → t ≠ "" := by
  cases x <;> simp [PAtom.synOk, PAtom.escOk]

theorem badListCard_iff (t : PTerm) : t.badListCard = false ↔ (t.atom.isList = true → t.card = none ∨ t.card = some .opt) := by
  unfold PTerm.badListCard
  cases t.atom.isList <;> simp
  cases t.card with
  | none => simp
  | some c => cases c <;> simp

theorem Qual.bad_iff (q : Qual) : q.bad = false ↔ 0 < q.prec ∧ q.prec < 2 ^ 63 := by
  simp only [Qual.bad, Bool.or_eq_false_iff, beq_eq_false_iff_ne, decide_eq_false_iff_not]
  omega

theorem clean_iff_wellFormed (s : Spec) :
    (Clean0 s ∧ Clean1 s ∧ Clean2 s s.declared ∧ Clean4 s s.declared) ↔ WellFormed s := by
  constructor
  · rintro ⟨c0, c1, c2, c4⟩
    have hnd := c1.nodup
    refine
      { syntaxOk := ⟨?_, ?_, ?_, ?_, c4.shape⟩, namesUnique := hnd, lexicalNames := ?_, ruleNames := ?_,
        macroRefs := ?_, modeRefs := ?_, emitRefs := ?_, parserRefs := ?_, aliasRefs := ?_,
        noMacroCycle := ?_, oneStart := ?_, tokenActions := c4.tokenActs, fragActions := c4.fragActs,
        noEmptyLiteral := ?_, rangesOrdered := ?_, listParams := ?_ }
    · intro l hl
      obtain ⟨r, hr, hl⟩ := mem_leaves.1 hl
      exact c0.lex r hr l hl
    · intro a ha
      obtain ⟨r, hr, p, hp, t, ht, hx⟩ := mem_patoms.1 ha
      exact ((PAtom.synOk_iff a).1 (c0.atoms r hr p hp t ht a hx)).1
    · intro t ht
      obtain ⟨r, hr, p, hp, ht⟩ := mem_pterms.1 ht
      exact (badListCard_iff t).1 (c0.cards r hr p hp t ht)
    · intro r hr p hp q hq
      exact (Qual.bad_iff q).1 (c0.quals r hr p hp q hq)
    · intro n hn
      have : ∃ e, (n, e) ∈ s.declared ∧ (e.isToken = true ∨ e.isMacro = true ∨ e.isExt = true) := by
        rcases hn with ⟨a, h⟩ | ⟨id, l, e, h⟩ | h
        · exact ⟨_, h, Or.inl rfl⟩
        · exact ⟨_, h, Or.inr (Or.inl rfl)⟩
        · exact ⟨_, h, Or.inr (Or.inr rfl)⟩
      obtain ⟨e, he, hk⟩ := this
      obtain ⟨ev, hev, rfl, rfl⟩ := mem_declared.1 he
      have hc : ev.check = .lexical := by
        rcases events_check hev with ⟨h, _⟩ | ⟨_, h⟩ | ⟨_, h⟩
        · exact h
        · cases hh : ev.ent <;> simp_all [Ent.isRule, Ent.isToken, Ent.isMacro, Ent.isExt]
        · cases hh : ev.ent <;> simp_all [Ent.isMode, Ent.isToken, Ent.isMacro, Ent.isExt]
      exact (validTokenNameB_iff _).1 ((validate_lexical hc).1 (c1.valid ev hev))
    · rintro n ⟨b, he⟩
      obtain ⟨ev, hev, rfl, hent⟩ := mem_declared.1 he
      have hc : ev.check = .rule := by
        rcases events_check hev with ⟨_, h⟩ | ⟨h, _⟩ | ⟨_, h⟩
        · simp_all [Ent.isToken, Ent.isMacro, Ent.isExt]
        · exact h
        · simp_all [Ent.isMode]
      exact (validRuleNameB_iff _).1 ((validate_rule hc).1 (c1.valid ev hev))
    · intro l hl ln n hn
      obtain ⟨r, hr, hl⟩ := mem_leaves.1 hl
      subst hn
      exact (isMacro_iff hnd n).1 (c2.leaves r hr _ hl)
    · intro a ha l m hm
      obtain ⟨r, hr, ha⟩ := mem_actions.1 ha
      subst hm
      exact (hasMode_iff _ m).1 (c2.actions r hr _ ha)
    · intro a ha l n hn
      obtain ⟨r, hr, ha⟩ := mem_actions.1 ha
      subst hn
      obtain ⟨e, hl, hk⟩ := c2.actions r hr _ ha
      have hm := mem_of_lookup hl
      rcases hk with hk | hk
      · obtain ⟨a, rfl⟩ := (Ent.isToken_iff e).1 hk; exact Or.inl ⟨a, hm⟩
      · rw [(Ent.isExt_iff e).1 hk] at hm; exact Or.inr hm
    · intro a ha l n hn
      obtain ⟨r, hr, p, hp, t, ht, hx⟩ := mem_patoms.1 ha
      subst hn
      obtain ⟨e, hl, hk⟩ := c2.atoms r hr t (mem_terms.2 ⟨p, hp, ht⟩) _ hx
      have hm := mem_of_lookup hl
      rcases hk with hk | hk | hk
      · obtain ⟨a, rfl⟩ := (Ent.isToken_iff e).1 hk; exact Or.inl ⟨a, hm⟩
      · obtain ⟨b, rfl⟩ := (Ent.isRule_iff e).1 hk; exact Or.inr (Or.inl ⟨b, hm⟩)
      · rw [(Ent.isExt_iff e).1 hk] at hm; exact Or.inr (Or.inr hm)
    · intro a ha l t b hn
      obtain ⟨r, hr, p, hp, tm, ht, hx⟩ := mem_patoms.1 ha
      subst hn
      have h1 := ((PAtom.synOk_iff _).1 (c0.atoms r hr p hp tm ht _ hx)).2 l t b rfl
      have h2 := c2.atoms r hr tm (mem_terms.2 ⟨p, hp, ht⟩) _ hx
      simp only [PAtom.checkOk, h1, false_or] at h2
      exact ⟨h1, h2⟩
    · intro m hm
      exact c4.acyclic m ((reach_iff hnd m m).2 hm)
    · intro hne
      have h1 := c4.start ((declared_hasRules s).2 hne)
      have h2 := (declared_hasStart s).1 h1
      have h3 := c1.start
      omega
    · intro l hl ln t b hn
      obtain ⟨r, hr, hl⟩ := mem_leaves.1 hl
      subst hn
      exact c2.leaves r hr _ hl
    · intro l hl c hc i hi
      obtain ⟨r, hr, hl⟩ := mem_leaves.1 hl
      have := c2.leaves r hr l hl
      cases l <;> simp [Leaf.classes] at hc
      · subst hc; exact this i hi
      · rcases hc with rfl | rfl
        · exact this.1 i hi
        · exact this.2 i hi
    · intro a ha l e sp hn
      obtain ⟨r, hr, p, hp, t, ht, hx⟩ := mem_patoms.1 ha
      subst hn
      exact c2.atoms r hr t (mem_terms.2 ⟨p, hp, ht⟩) _ hx
  · intro w
    have hnd := w.namesUnique
    refine ⟨⟨?_, ?_, ?_, ?_⟩, ⟨?_, hnd, ?_⟩, ⟨?_, ?_, ?_⟩, ⟨w.syntaxOk.shape, w.tokenActions, w.fragActions, ?_, ?_⟩⟩
    · intro r hr l hl
      exact w.syntaxOk.escapesLex l (mem_leaves.2 ⟨r, hr, hl⟩)
    · intro r hr p hp t ht x hx
      have hm : x ∈ s.patoms := mem_patoms.2 ⟨r, hr, p, hp, t, ht, hx⟩
      refine (PAtom.synOk_iff x).2 ⟨w.syntaxOk.escapesParser x hm, ?_⟩
      intro l tx b hxe
      exact (w.aliasRefs x hm l tx b hxe).1
    · intro r hr p hp t ht
      exact (badListCard_iff t).2 (w.syntaxOk.listCard t (mem_pterms.2 ⟨r, hr, p, hp, ht⟩))
    · intro r hr p hp q hq
      exact (Qual.bad_iff q).2 (w.syntaxOk.precedence r hr p hp q hq)
    · intro ev hev
      have hd : (ev.name, ev.ent) ∈ s.declared := mem_declared.2 ⟨ev, hev, rfl, rfl⟩
      rcases events_check hev with ⟨hc, hk⟩ | ⟨hc, hk⟩ | ⟨hc, _⟩
      · refine (validate_lexical hc).2 ((validTokenNameB_iff _).2 (w.lexicalNames _ ?_))
        rcases hk with hk | hk | hk
        · obtain ⟨a, ha⟩ := (Ent.isToken_iff _).1 hk; rw [ha] at hd; exact Or.inl ⟨a, hd⟩
        · obtain ⟨id, l, ex, ha⟩ := (Ent.isMacro_iff _).1 hk; rw [ha] at hd; exact Or.inr (Or.inl ⟨id, l, ex, hd⟩)
        · rw [(Ent.isExt_iff _).1 hk] at hd; exact Or.inr (Or.inr hd)
      · refine (validate_rule hc).2 ((validRuleNameB_iff _).2 (w.ruleNames _ ?_))
        obtain ⟨b, hb⟩ := (Ent.isRule_iff _).1 hk; rw [hb] at hd; exact ⟨b, hd⟩
      · exact validate_none hc
    · by_cases hne : s.prules = []
      · simp [hne]
      · have := w.oneStart hne; omega
    · intro r hr l hl
      have hm : l ∈ s.leaves := mem_leaves.2 ⟨r, hr, hl⟩
      cases l with
      | lit ln t b => exact w.noEmptyLiteral _ hm ln t b rfl
      | ref ln n => exact (isMacro_iff hnd n).2 (w.macroRefs _ hm ln n rfl)
      | cls c => exact fun i hi => w.rangesOrdered _ hm c (by simp [Leaf.classes]) i hi
      | diff a b =>
        exact ⟨fun i hi => w.rangesOrdered _ hm a (by simp [Leaf.classes]) i hi,
          fun i hi => w.rangesOrdered _ hm b (by simp [Leaf.classes]) i hi⟩
      | dot ln => trivial
    · intro r hr a ha
      have hm : a ∈ s.actions := mem_actions.2 ⟨r, hr, ha⟩
      cases a with
      | discard l => trivial
      | popMode l => trivial
      | pushMode l m => exact (hasMode_iff _ m).2 (w.modeRefs _ hm l m rfl)
      | emit l n =>
        rcases w.emitRefs _ hm l n rfl with ⟨a, h⟩ | h
        · exact ⟨_, lookup_of_mem hnd h, Or.inl rfl⟩
        · exact ⟨_, lookup_of_mem hnd h, Or.inr rfl⟩
    · intro r hr t ht x hx
      obtain ⟨p, hp, ht⟩ := mem_terms.1 ht
      have hm : x ∈ s.patoms := mem_patoms.2 ⟨r, hr, p, hp, t, ht, hx⟩
      cases x with
      | name l n =>
        rcases w.parserRefs _ hm l n rfl with ⟨a, h⟩ | ⟨b, h⟩ | h
        · exact ⟨_, lookup_of_mem hnd h, Or.inl rfl⟩
        · exact ⟨_, lookup_of_mem hnd h, Or.inr (Or.inl rfl)⟩
        · exact ⟨_, lookup_of_mem hnd h, Or.inr (Or.inr rfl)⟩
      | alias l tx b => exact Or.inr (w.aliasRefs _ hm l tx b rfl).2
      | error l => trivial
      | list l e sp => exact w.listParams _ hm l e sp rfl
    · intro m hm
      exact w.noMacroCycle m ((reach_iff hnd m m).1 hm)
    · intro h
      have hne := (declared_hasRules s).1 h
      have := w.oneStart hne
      exact (declared_hasStart s).2 (by omega)

/-- A decision procedure agrees with the predicate when it agrees clause by clause. -/
theorem analyze_nil_iff_wellFormed (s : Spec) : analyze s = [] ↔ WellFormed s :=
  (analyze_nil_clean s).trans (clean_iff_wellFormed s)


/-! ## Where the diagnostics point -/

theorem listMin_le {l : List Nat} {x : Nat} (h : x ∈ l) : listMin l ≤ x := by
  induction l with
  | nil => simp at h
  | cons a as ih =>
    cases as with
    | nil => simp at h; simp [listMin, h]
    | cons b bs =>
      simp only [listMin]
      rcases List.mem_cons.1 h with rfl | h
      · exact Nat.min_le_left _ _
      · exact Nat.le_trans (Nat.min_le_right _ _) (ih h)

theorem le_listMax {l : List Nat} {x : Nat} (h : x ∈ l) : x ≤ listMax l := by
  induction l with
  | nil => simp at h
  | cons a as ih =>
    simp only [listMax]
    rcases List.mem_cons.1 h with rfl | h
    · exact Nat.le_max_left _ _
    · exact Nat.le_trans (ih h) (Nat.le_max_right _ _)

/-- The diagnostic blames declaration `id` and lies on one of the lines `ls`. -/
def Diag.At (d : Diag) (id : DeclId) (ls : List Line) : Prop := d.decl = some id ∧ d.line ∈ ls

theorem Diag.At.mono {d : Diag} {id : DeclId} {ls ls' : List Line} (h : d.At id ls) (hs : ∀ x ∈ ls, x ∈ ls') :
    d.At id ls' := ⟨h.1, hs _ h.2⟩

theorem mem_rep {n : Nat} {d x : Diag} (h : x ∈ rep n d) : x = d := by
  simp only [rep, List.mem_replicate] at h; exact h.2

theorem Leaf.syntaxDiags_at {id : DeclId} {l : Leaf} {d : Diag} (h : d ∈ l.syntaxDiags id) : d.At id l.lines := by
  cases l with
  | lit ln t b => simp only [Leaf.syntaxDiags] at h; rw [mem_rep h]; simp [Diag.At, Leaf.lines]
  | ref ln n => simp [Leaf.syntaxDiags] at h
  | cls c => simp only [Leaf.syntaxDiags] at h; rw [mem_rep h]; simp [Diag.At, Leaf.lines]
  | diff a b =>
    simp only [Leaf.syntaxDiags, List.mem_append] at h
    rcases h with h | h <;> rw [mem_rep h] <;> simp [Diag.At, Leaf.lines]
  | dot ln => simp [Leaf.syntaxDiags] at h

theorem CharClass.check_at {id : DeclId} {c : CharClass} {d : Diag} (h : d ∈ c.check id) : d.At id [c.line] := by
  simp only [CharClass.check, List.mem_map] at h
  obtain ⟨_, _, rfl⟩ := h
  simp [Diag.At]

theorem Leaf.check_at {env : Env} {id : DeclId} {l : Leaf} {d : Diag} (h : d ∈ l.check env id) : d.At id l.lines := by
  cases l with
  | lit ln t b =>
    simp only [Leaf.check] at h
    split at h <;> simp at h
    subst h; simp [Diag.At, Leaf.lines]
  | ref ln n =>
    simp only [Leaf.check] at h
    split at h <;> simp at h <;> subst h <;> simp [Diag.At, Leaf.lines]
  | cls c => exact (CharClass.check_at h).mono (by simp [Leaf.lines])
  | diff a b =>
    simp only [Leaf.check, List.mem_append] at h
    rcases h with h | h
    · exact (CharClass.check_at h).mono (by simp [Leaf.lines])
    · exact (CharClass.check_at h).mono (by simp [Leaf.lines])
  | dot ln => simp [Leaf.check] at h

theorem Action.check_at {env : Env} {id : DeclId} {a : Action} {d : Diag} (h : d ∈ a.check env id) : d.At id [a.line] := by
  cases a with
  | discard l => simp [Action.check] at h
  | popMode l => simp [Action.check] at h
  | pushMode l m =>
    simp only [Action.check] at h
    split at h <;> simp at h
    subst h; simp [Diag.At, Action.line]
  | emit l n =>
    simp only [Action.check] at h
    split at h <;> simp at h <;> subst h <;> simp [Diag.At, Action.line]

theorem mem_exprLines {e : LExpr} {l : Leaf} {x : Line} (hl : l ∈ exprLeaves e) (hx : x ∈ l.lines) : x ∈ exprLines e :=
  List.mem_flatMap.2 ⟨l, hl, hx⟩

theorem LexRule.syntaxDiags_at {r : LexRule} {d : Diag} (h : d ∈ r.syntaxDiags) : d.At r.id r.lines := by
  cases r with
  | token id l n e a =>
    simp only [LexRule.syntaxDiags, exprSyntaxDiags, List.mem_flatMap] at h
    obtain ⟨lf, hlf, hd⟩ := h
    exact (Leaf.syntaxDiags_at hd).mono fun x hx => by
      simp only [LexRule.lines, List.mem_cons, List.mem_append]; exact Or.inr (Or.inl (mem_exprLines hlf hx))
  | frag id l e a =>
    simp only [LexRule.syntaxDiags, exprSyntaxDiags, List.mem_flatMap] at h
    obtain ⟨lf, hlf, hd⟩ := h
    exact (Leaf.syntaxDiags_at hd).mono fun x hx => by
      simp only [LexRule.lines, List.mem_cons, List.mem_append]; exact Or.inr (Or.inl (mem_exprLines hlf hx))
  | «macro» id l n e =>
    simp only [LexRule.syntaxDiags, exprSyntaxDiags, List.mem_flatMap] at h
    obtain ⟨lf, hlf, hd⟩ := h
    exact (Leaf.syntaxDiags_at hd).mono fun x hx => by
      simp only [LexRule.lines, List.mem_cons]; exact Or.inr (mem_exprLines hlf hx)
  | external id l names => simp [LexRule.syntaxDiags] at h

theorem LexRule.check_at {env : Env} {r : LexRule} {d : Diag} (h : d ∈ r.check env) : d.At r.id r.lines := by
  cases r with
  | token id l n e a =>
    simp only [LexRule.check, exprCheck, List.mem_append, List.mem_flatMap] at h
    rcases h with ⟨lf, hlf, hd⟩ | ⟨ac, hac, hd⟩
    · exact (Leaf.check_at hd).mono fun x hx => by
        simp only [LexRule.lines, List.mem_cons, List.mem_append]; exact Or.inr (Or.inl (mem_exprLines hlf hx))
    · exact (Action.check_at hd).mono fun x hx => by
        simp only [List.mem_singleton] at hx; subst hx
        simp only [LexRule.lines, List.mem_cons, List.mem_append, List.mem_map]; exact Or.inr (Or.inr ⟨ac, hac, rfl⟩)
  | frag id l e a =>
    simp only [LexRule.check, exprCheck, List.mem_append, List.mem_flatMap] at h
    rcases h with ⟨lf, hlf, hd⟩ | ⟨ac, hac, hd⟩
    · exact (Leaf.check_at hd).mono fun x hx => by
        simp only [LexRule.lines, List.mem_cons, List.mem_append]; exact Or.inr (Or.inl (mem_exprLines hlf hx))
    · exact (Action.check_at hd).mono fun x hx => by
        simp only [List.mem_singleton] at hx; subst hx
        simp only [LexRule.lines, List.mem_cons, List.mem_append, List.mem_map]; exact Or.inr (Or.inr ⟨ac, hac, rfl⟩)
  | «macro» id l n e =>
    simp only [LexRule.check, exprCheck, List.mem_flatMap] at h
    obtain ⟨lf, hlf, hd⟩ := h
    exact (Leaf.check_at hd).mono fun x hx => by
      simp only [LexRule.lines, List.mem_cons]; exact Or.inr (mem_exprLines hlf hx)
  | external id l names => simp [LexRule.check] at h

theorem PAtom.line_mem_lines (a : PAtom) : a.line ∈ a.lines := by
  cases a <;> simp [PAtom.line, PAtom.lines]

theorem PAtom.syntaxDiags_at {id : DeclId} {a : PAtom} {d : Diag} (h : d ∈ a.syntaxDiags id) : d.At id a.lines := by
  induction a with
  | name l n => simp [PAtom.syntaxDiags] at h
  | alias l t b =>
    simp only [PAtom.syntaxDiags, List.mem_append] at h
    rcases h with h | h
    · rw [mem_rep h]; simp [Diag.At, PAtom.lines]
    · split at h <;> simp at h
      subst h; simp [Diag.At, PAtom.lines]
  | error l => simp [PAtom.syntaxDiags] at h
  | list l e sp ihe ihs =>
    simp only [PAtom.syntaxDiags, List.mem_append] at h
    rcases h with h | h
    · exact (ihe h).mono fun x hx => by simp [PAtom.lines, hx]
    · exact (ihs h).mono fun x hx => by simp [PAtom.lines, hx]

theorem PAtom.check_at {env : Env} {id : DeclId} {a : PAtom} {d : Diag} (h : d ∈ a.check env id) : d.At id a.lines := by
  induction a with
  | name l n =>
    simp only [PAtom.check] at h
    split at h <;> simp at h <;> subst h <;> simp [Diag.At, PAtom.lines]
  | alias l t b =>
    simp only [PAtom.check] at h
    split at h
    · simp at h
    · split at h <;> simp at h <;> subst h <;> simp [Diag.At, PAtom.lines]
  | error l => simp [PAtom.check] at h
  | list l e sp ihe ihs =>
    simp only [PAtom.check, List.mem_append] at h
    rcases h with (h | h) | h
    · exact (ihe h).mono fun x hx => by simp [PAtom.lines, hx]
    · exact (ihs h).mono fun x hx => by simp [PAtom.lines, hx]
    · have hl : e.line ∈ (PAtom.list l e sp).lines := by
        simp [PAtom.lines, PAtom.line_mem_lines e]
      split at h
      · simp only [List.mem_singleton] at h; subst h; exact ⟨rfl, hl⟩
      · split at h
        · simp only [List.mem_singleton] at h; subst h; exact ⟨rfl, hl⟩
        · simp at h

theorem prod_lines_sub {r : PRule} {p : Prod} (hp : p ∈ r.prods) {x : Line} (hx : x ∈ p.lines) : x ∈ r.lines := by
  simp only [PRule.lines, List.mem_cons, List.mem_flatMap]
  exact Or.inr ⟨p, hp, hx⟩

theorem term_lines_sub {p : Prod} {t : PTerm} (ht : t ∈ p.terms) {x : Line} (hx : x ∈ t.atom.lines) : x ∈ p.lines := by
  simp only [Prod.lines, List.mem_cons, List.mem_append, List.mem_flatMap]
  exact Or.inr (Or.inl ⟨t, ht, hx⟩)

theorem PRule.syntaxDiags_at {r : PRule} {d : Diag} (h : d ∈ r.prods.flatMap (Prod.syntaxDiags r.id)) :
    d.At r.id r.lines := by
  simp only [List.mem_flatMap, Prod.syntaxDiags, List.mem_append] at h
  obtain ⟨p, hp, h⟩ := h
  rcases h with ⟨t, ht, h⟩ | h
  · simp only [PTerm.syntaxDiags, List.mem_append] at h
    rcases h with h | h
    · exact (PAtom.syntaxDiags_at h).mono fun x hx => prod_lines_sub hp (term_lines_sub ht hx)
    · split at h <;> simp at h
      subst h
      exact ⟨rfl, prod_lines_sub hp (term_lines_sub ht (PAtom.line_mem_lines _))⟩
  · cases hq : p.qual with
    | none => simp [hq, Qual.syntaxDiags] at h
    | some q =>
      simp only [hq, Qual.syntaxDiags] at h
      split at h <;> simp at h
      subst h
      refine ⟨rfl, prod_lines_sub hp ?_⟩
      simp [Prod.lines, hq, Qual.lines]

theorem PRule.check_at {env : Env} {r : PRule} {d : Diag} (h : d ∈ r.check env) : d.At r.id r.lines := by
  simp only [PRule.check, List.mem_flatMap, PTerm.check] at h
  obtain ⟨p, hp, t, ht, h⟩ := h
  exact (PAtom.check_at h).mono fun x hx => prod_lines_sub hp (term_lines_sub ht hx)

/-- `∃ D ∈ s.decls` with the blamed identifier whose lines contain the diagnostic's line. -/
def Diag.InDecls (d : Diag) (s : Spec) : Prop :=
  ∀ i, d.decl = some i → ∃ D ∈ s.decls, D.id = i ∧ d.line ∈ D.lines

theorem lexRule_decl_mem {s : Spec} {r : LexRule} (h : r ∈ s.lexRules) : r.decl ∈ s.decls := by
  obtain ⟨st, hst, hr⟩ := mem_lexRules.1 h
  simp only [Spec.decls, List.mem_flatMap]
  refine ⟨st, hst, ?_⟩
  cases st with
  | rule r' => simp only [Stmt.lexRules, List.mem_singleton] at hr; subst hr; simp [Stmt.decls]
  | prule r' => simp [Stmt.lexRules] at hr
  | mode id l n rs =>
    simp only [Stmt.lexRules] at hr
    simp only [Stmt.decls, List.mem_cons, List.mem_map]
    exact Or.inr ⟨r, hr, rfl⟩

theorem prule_decl_mem {s : Spec} {r : PRule} (h : r ∈ s.prules) : r.decl ∈ s.decls := by
  simp only [Spec.decls, List.mem_flatMap]
  exact ⟨_, mem_prules.1 h, by simp [Stmt.decls]⟩

theorem inDecls_of_lexRule {s : Spec} {r : LexRule} {d : Diag} (hr : r ∈ s.lexRules) (h : d.At r.id r.lines) :
    d.InDecls s := by
  intro i hi
  rw [h.1] at hi; cases hi
  exact ⟨r.decl, lexRule_decl_mem hr, rfl, h.2⟩

theorem inDecls_of_prule {s : Spec} {r : PRule} {d : Diag} (hr : r ∈ s.prules) (h : d.At r.id r.lines) :
    d.InDecls s := by
  intro i hi
  rw [h.1] at hi; cases hi
  exact ⟨r.decl, prule_decl_mem hr, rfl, h.2⟩

theorem syntaxDiags_inDecls {s : Spec} {d : Diag} (h : d ∈ syntaxDiags s) : d.InDecls s := by
  obtain ⟨l, hl, hd⟩ := mem_firstNonEmpty h
  obtain ⟨u, hu, rfl⟩ := List.mem_map.1 hl
  obtain ⟨st, hst, hd⟩ := List.mem_flatMap.1 hd
  have hst' : st ∈ s.stmts := mem_stmts.2 ⟨u, hu, hst⟩
  cases st with
  | rule r =>
    exact inDecls_of_lexRule (mem_lexRules.2 ⟨_, hst', by simp [Stmt.lexRules]⟩) (LexRule.syntaxDiags_at hd)
  | mode id l n rs =>
    simp only [Stmt.syntaxDiags, List.mem_flatMap] at hd
    obtain ⟨r, hr, hd⟩ := hd
    exact inDecls_of_lexRule (mem_lexRules.2 ⟨_, hst', by simpa [Stmt.lexRules] using hr⟩) (LexRule.syntaxDiags_at hd)
  | prule r =>
    exact inDecls_of_prule (mem_prules.2 hst') (PRule.syntaxDiags_at hd)

theorem regEv_at {env : Env} {ev : Ev} {d : Diag} (h : d ∈ (regEv env ev).2) : d.At ev.id [ev.line] := by
  unfold regEv at h
  cases hv : ev.validate with
  | nil =>
    simp only [hv] at h
    split at h
    · simp only [List.mem_singleton] at h; subst h; simp [Diag.At]
    · split at h <;> simp at h
      subst h; simp [Diag.At]
  | cons x xs =>
    simp only [hv] at h
    have : d ∈ ev.validate := hv ▸ h
    unfold Ev.validate at this
    split at this
    · split at this
      · simp only [List.mem_singleton] at this; subst this; simp [Diag.At]
      · split at this <;> simp at this
        subst this; simp [Diag.At]
    · split at this
      · simp only [List.mem_singleton] at this; subst this; simp [Diag.At]
      · split at this <;> simp at this
        subst this; simp [Diag.At]
    · simp at this

theorem mem_foldDiag {α : Type} {f : Env → α → Env × List Diag} {env : Env} {xs : List α} {d : Diag}
    (h : d ∈ (foldDiag f env xs).2) : ∃ x ∈ xs, ∃ env', d ∈ (f env' x).2 := by
  induction xs generalizing env with
  | nil => simp [foldDiag] at h
  | cons x xs ih =>
    simp only [foldDiag, List.mem_append] at h
    rcases h with h | h
    · exact ⟨x, List.mem_cons_self, env, h⟩
    · obtain ⟨y, hy, env', hd⟩ := ih h
      exact ⟨y, List.mem_cons_of_mem _ hy, env', hd⟩

theorem cnStmt_at {env : Env} {st : Stmt} {d : Diag} (h : d ∈ (cnStmt env st).2) :
    ∃ ev ∈ st.events, d.At ev.id [ev.line] := by
  cases st with
  | rule r =>
    obtain ⟨ev, hev, env', hd⟩ := mem_foldDiag h
    exact ⟨ev, hev, regEv_at hd⟩
  | prule r => exact ⟨r.event, by simp [Stmt.events], regEv_at h⟩
  | mode id l n rs =>
    simp only [cnStmt] at h
    split at h
    · obtain ⟨ev, hev, env', hd⟩ := mem_foldDiag h
      exact ⟨ev, by simp only [Stmt.events, List.mem_cons]; exact Or.inr hev, regEv_at hd⟩
    · exact ⟨modeEvent id l n, by simp [Stmt.events], regEv_at h⟩

/-- Every registration belongs to a declaration and sits on one of its lines. -/
theorem event_decl {s : Spec} {ev : Ev} (h : ev ∈ s.events) : ∃ D ∈ s.decls, D.id = ev.id ∧ ev.line ∈ D.lines := by
  rcases mem_events.1 h with ⟨r, hr, hev⟩ | ⟨r, hr, hev⟩ | ⟨id, l, n, rs, hst, hev⟩
  · refine ⟨r.decl, lexRule_decl_mem hr, ?_⟩
    cases r with
    | token id l n e a =>
      simp only [LexRule.events, List.mem_singleton] at hev; subst hev
      simp [LexRule.decl, LexRule.id, LexRule.lines]
    | frag id l e a => simp [LexRule.events] at hev
    | «macro» id l n e =>
      simp only [LexRule.events, List.mem_singleton] at hev; subst hev
      simp [LexRule.decl, LexRule.id, LexRule.lines]
    | external id l names =>
      simp only [LexRule.events, List.mem_map] at hev
      obtain ⟨p, hp, rfl⟩ := hev
      simp only [LexRule.decl, LexRule.id, LexRule.lines, List.mem_cons, List.mem_map, true_and]
      exact Or.inr ⟨p, hp, rfl⟩
  · subst hev
    exact ⟨r.decl, prule_decl_mem hr, by simp [PRule.decl, PRule.event, PRule.lines]⟩
  · subst hev
    refine ⟨⟨id, l :: rs.flatMap LexRule.lines⟩, ?_, by simp [modeEvent]⟩
    simp only [Spec.decls, List.mem_flatMap]
    exact ⟨_, hst, by simp [Stmt.decls]⟩

theorem createNames_inDecls {s : Spec} {d : Diag} (h : d ∈ (createNames s).2) : d.InDecls s := by
  obtain ⟨st, hst, env', hd⟩ := mem_foldDiag h
  obtain ⟨ev, hev, hat⟩ := cnStmt_at hd
  have hev' : ev ∈ s.events := List.mem_flatMap.2 ⟨st, hst, hev⟩
  obtain ⟨D, hD, hid, hl⟩ := event_decl hev'
  intro i hi
  rw [hat.1] at hi; cases hi
  have : d.line = ev.line := by simpa using hat.2
  exact ⟨D, hD, hid, this ▸ hl⟩

theorem check_inDecls {env : Env} {s : Spec} {d : Diag} (h : d ∈ check env s) : d.InDecls s := by
  rcases mem_check.1 h with ⟨r, hr, hd⟩ | ⟨r, hr, hd⟩
  · exact inDecls_of_lexRule hr (LexRule.check_at hd)
  · exact inDecls_of_prule hr (PRule.check_at hd)

/-- What an expansion reports is a cycle at a macro of the table (or carries no declaration). -/
theorem expandMacro_at {env : Env} {d : Diag} :
    ∀ (fuel : Nat) (V : List Name) (m : Name), d ∈ expandMacro env fuel V m →
      d.decl = none ∨ ∃ n id l e, env.lookup n = some (.macro id l e) ∧ d.decl = some id ∧ d.line = l := by
  intro fuel
  induction fuel with
  | zero => intro V m h; simp only [expandMacro, List.mem_singleton] at h; subst h; exact Or.inl rfl
  | succ f ih =>
    intro V m h
    simp only [expandMacro] at h
    split at h
    · rename_i id l e hl
      split at h
      · simp only [List.mem_singleton] at h; subst h
        exact Or.inr ⟨m, id, l, e, hl, rfl, rfl⟩
      · obtain ⟨b, _, hd⟩ := List.mem_flatMap.1 h
        exact ih _ _ hd
    · simp only [List.mem_singleton] at h; subst h; exact Or.inl rfl

theorem expand_inDecls {s : Spec} {d : Diag}
    (h : d.decl = none ∨ ∃ n id l e, s.declared.lookup n = some (.macro id l e) ∧ d.decl = some id ∧ d.line = l) :
    d.InDecls s := by
  intro i hi
  rcases h with h | ⟨n, id, l, e, hl, hid, hline⟩
  · rw [h] at hi; cases hi
  · rw [hid] at hi; cases hi
    have hr := macro_rule_of_declared (mem_of_lookup hl)
    exact ⟨_, lexRule_decl_mem hr, rfl, by simp [LexRule.decl, LexRule.lines, hline]⟩

theorem tokenActionDiags_at {id : DeclId} {l : Line} {acts : List Action} {d : Diag}
    (h : d ∈ tokenActionDiags id l acts) : d.At id [l] := by
  induction acts with
  | nil => simp [tokenActionDiags] at h
  | cons a as ih =>
    simp only [tokenActionDiags] at h
    split at h
    · simp only [List.mem_singleton] at h; subst h; simp [Diag.At]
    · split at h
      · simp only [List.mem_singleton] at h; subst h; simp [Diag.At]
      · exact ih h

theorem fragActionDiags_at {id : DeclId} {l : Line} {acts : List Action} {d : Diag} :
    ∀ {hd he : Bool}, d ∈ fragActionDiags id l hd he acts → d.At id [l] := by
  induction acts with
  | nil =>
    intro hd he h
    simp only [fragActionDiags] at h
    split at h <;> simp at h
    subst h; simp [Diag.At]
  | cons a as ih =>
    intro hd he h
    simp only [fragActionDiags] at h
    split at h
    · split at h
      · simp only [List.mem_singleton] at h; subst h; simp [Diag.At]
      · exact ih h
    · split at h
      · split at h
        · simp only [List.mem_singleton] at h; subst h; simp [Diag.At]
        · exact ih h
      · exact ih h

theorem expandExpr_at {env : Env} {e : LExpr} {d : Diag} (h : d ∈ expandExpr env e) :
    d.decl = none ∨ ∃ n id l ex, env.lookup n = some (.macro id l ex) ∧ d.decl = some id ∧ d.line = l := by
  unfold expandExpr at h
  split at h
  · simp only [List.mem_singleton] at h; subst h; exact Or.inl rfl
  · obtain ⟨b, _, hd⟩ := List.mem_flatMap.1 h
    exact expandMacro_at _ _ _ hd

theorem LexRule.generate_inDecls {s : Spec} {r : LexRule} {d : Diag} (hr : r ∈ s.lexRules)
    (h : d ∈ r.generate s.declared) : d.InDecls s := by
  cases r with
  | token id l n e a =>
    simp only [LexRule.generate, List.mem_append] at h
    rcases h with h | h
    · exact expand_inDecls (expandExpr_at h)
    · exact inDecls_of_lexRule hr ((tokenActionDiags_at h).mono (by simp [LexRule.lines]))
  | frag id l e a =>
    simp only [LexRule.generate, List.mem_append] at h
    rcases h with h | h
    · exact expand_inDecls (expandExpr_at h)
    · exact inDecls_of_lexRule hr ((fragActionDiags_at h).mono (by simp [LexRule.lines]))
  | «macro» id l n e =>
    simp only [LexRule.generate] at h
    split at h
    · simp only [List.mem_singleton] at h; subst h
      intro i hi; cases hi
    · exact expand_inDecls (expandMacro_at _ _ _ h)
  | external id l names => simp [LexRule.generate] at h

theorem generate_inDecls {s : Spec} {d : Diag} (h : d ∈ generate s.declared s) : d.InDecls s := by
  unfold generate at h
  simp only at h
  split at h
  · obtain ⟨r, hr, hd⟩ := mem_stmtGenerate.1 h
    exact LexRule.generate_inDecls hr hd
  · split at h
    · simp only [List.mem_singleton] at h; subst h
      intro i hi; cases hi
    · simp at h

theorem mem_analyze {s : Spec} {d : Diag} (h : d ∈ analyze s) :
    d ∈ syntaxDiags s ∨ d ∈ (createNames s).2 ∨
      ((createNames s).2 = [] ∧ (d ∈ check (createNames s).1 s ∨ d ∈ generate (createNames s).1 s)) := by
  unfold analyze at h
  simp only at h
  split at h
  · exact Or.inl h
  · split at h
    · exact Or.inr (Or.inl h)
    · rename_i h1
      have h1' : (createNames s).2 = [] := by
        cases hh : (createNames s).2 with
        | nil => rfl
        | cons x xs => simp [hh] at h1
      split at h
      · exact Or.inr (Or.inr ⟨h1', Or.inl h⟩)
      · exact Or.inr (Or.inr ⟨h1', Or.inr h⟩)

theorem analyze_inDecls {s : Spec} {d : Diag} (h : d ∈ analyze s) : d.InDecls s := by
  rcases mem_analyze h with h | h | ⟨h1, h | h⟩
  · exact syntaxDiags_inDecls h
  · exact createNames_inDecls h
  · exact check_inDecls h
  · rw [createNames_env s h1] at h
    exact generate_inDecls h

end Lox.Dec.Analyze
