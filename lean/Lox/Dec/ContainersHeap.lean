import Lox.Dec.Containers
/-! Refinement proofs for `Lox.Dec.Containers` (core Lean only; not linked into the driver).

Structure: (1) heap accessors and the effect of `initList` / `insertNodeAfter` / `removeNode`
pointwise; (2) list combinatorics over an abstract successor function (`Chain`); (3) the
representation relation `Rep m l` ("`m` is the zero value and `l = []`, or the links form one
ring `0 → cyc → 0` whose nodes are exactly the range of the Go map, and `l` is read off `cyc`");
(4) every operation preserves `Rep` and returns what the specification returns. -/
set_option linter.unusedSectionVars false
namespace Lox.Dec.Containers

/-! ### `Except` -/

@[simp] theorem ok_bind {α β : Type} (a : α) (f : α → Except Err β) :
    (Except.ok a >>= f) = f a := rfl
@[simp] theorem error_bind {α β : Type} (e : Err) (f : α → Except Err β) :
    ((Except.error e : Except Err α) >>= f) = Except.error e := rfl
@[simp] theorem pure_eq_ok {α : Type} (a : α) : (pure a : Except Err α) = Except.ok a := rfl

section Map
variable {K V : Type} [DecidableEq K] [Inhabited K] [Inhabited V]

/-! ### Heap accessors -/

def zeroNode : Node K V := { next := none, prev := none, key := default, value := default }

def nodeAt (h : Heap K V) (i : Nat) : Node K V := (h[i]?).getD zeroNode
def nextAt (h : Heap K V) (i : Nat) : Option Nat := (nodeAt h i).next
def prevAt (h : Heap K V) (i : Nat) : Option Nat := (nodeAt h i).prev
def keyAt (h : Heap K V) (i : Nat) : K := (nodeAt h i).key
def valAt (h : Heap K V) (i : Nat) : V := (nodeAt h i).value
def kvAt (h : Heap K V) (i : Nat) : K × V := (keyAt h i, valAt h i)

theorem nodeAt_modify (h : Heap K V) (i j : Nat) (f : Node K V → Node K V) (hi : i < h.size) :
    nodeAt (h.modify i f) j = if i = j then f (nodeAt h j) else nodeAt h j := by
  unfold nodeAt
  rw [Array.getElem?_modify]
  split
  · subst_vars
    simp [Array.getElem?_eq_getElem hi]
  · rfl

theorem nodeAt_push (h : Heap K V) (x : Node K V) (j : Nat) :
    nodeAt (h.push x) j = if j = h.size then x else nodeAt h j := by
  unfold nodeAt
  rw [Array.getElem?_push]
  split <;> rfl

theorem load_some (h : Heap K V) (i : Nat) (hi : i < h.size) :
    load h (some i) = .ok (nodeAt h i) := by
  simp [load, nodeAt, Array.getElem?_eq_getElem hi]

theorem store_some (h : Heap K V) (i : Nat) (f : Node K V → Node K V) (hi : i < h.size) :
    store h (some i) f = .ok (h.modify i f) := by
  simp [store, hi]

/-! ### Effect of the three list primitives, pointwise -/

theorem initList_eq (h : Heap K V) (l : Nat) (hl : l < h.size) :
    initList h (some l) = .ok ((h.modify l fun x => { x with prev := some l }).modify l
      fun x => { x with next := some l }) := by
  simp only [initList, store_some h l _ hl, ok_bind]
  rw [store_some _ l _ (by simpa using hl)]

theorem initList_spec (h : Heap K V) (l : Nat) (hl : l < h.size) :
    ∃ h', initList h (some l) = .ok h' ∧ h'.size = h.size ∧
      (∀ j, nextAt h' j = if j = l then some l else nextAt h j) ∧
      (∀ j, prevAt h' j = if j = l then some l else prevAt h j) ∧
      (∀ j, keyAt h' j = keyAt h j) ∧ (∀ j, valAt h' j = valAt h j) := by
  refine ⟨_, initList_eq h l hl, by simp, ?_, ?_, ?_, ?_⟩
  all_goals
    intro j
    simp only [nextAt, prevAt, keyAt, valAt]
    rw [nodeAt_modify _ _ _ _ (by simpa using hl), nodeAt_modify _ _ _ _ hl]
    by_cases hj : l = j
    · subst hj; simp
    · have : ¬ j = l := fun e => hj e.symm
      simp [hj, this]

theorem insertNodeAfter_eq (h : Heap K V) (n o z : Nat) (hn : n < h.size) (ho : o < h.size)
    (hz : z < h.size) (hno : n ≠ o) (hoz : nextAt h o = some z) :
    insertNodeAfter h (some n) (some o) = .ok
      ((((h.modify n fun x => { x with prev := some o }).modify n
        fun x => { x with next := some z }).modify z
        fun x => { x with prev := some n }).modify o fun x => { x with next := some n }) := by
  have e1 : (nodeAt (h.modify n fun x => { x with prev := some o }) o).next = some z := by
    rw [nodeAt_modify _ _ _ _ hn]; simp [hno]; exact hoz
  have e2 : (nodeAt ((h.modify n fun x => { x with prev := some o }).modify n
      fun x => { x with next := some z }) o).next = some z := by
    rw [nodeAt_modify _ _ _ _ (by simpa using hn)]; simp [hno]; exact e1
  simp only [insertNodeAfter, store_some h n _ hn, ok_bind]
  rw [load_some _ o (by simpa using ho)]
  simp only [ok_bind, e1]
  rw [store_some _ n _ (by simpa using hn)]
  simp only [ok_bind]
  rw [load_some _ o (by simpa using ho)]
  simp only [ok_bind, e2]
  rw [store_some _ z _ (by simpa using hz)]
  simp only [ok_bind]
  rw [store_some _ o _ (by simpa using ho)]

theorem insertNodeAfter_spec (h : Heap K V) (n o z : Nat) (hn : n < h.size) (ho : o < h.size)
    (hz : z < h.size) (hno : n ≠ o) (hoz : nextAt h o = some z) :
    ∃ h', insertNodeAfter h (some n) (some o) = .ok h' ∧ h'.size = h.size ∧
      (∀ j, nextAt h' j = if j = o then some n else if j = n then some z else nextAt h j) ∧
      (∀ j, prevAt h' j = if j = z then some n else if j = n then some o else prevAt h j) ∧
      (∀ j, keyAt h' j = keyAt h j) ∧ (∀ j, valAt h' j = valAt h j) := by
  refine ⟨_, insertNodeAfter_eq h n o z hn ho hz hno hoz, by simp, ?_, ?_, ?_, ?_⟩
  all_goals
    intro j
    simp only [nextAt, prevAt, keyAt, valAt]
    rw [nodeAt_modify _ _ _ _ (by simpa using ho), nodeAt_modify _ _ _ _ (by simpa using hz),
      nodeAt_modify _ _ _ _ (by simpa using hn), nodeAt_modify _ _ _ _ hn]
    by_cases h1 : o = j <;> by_cases h2 : z = j <;> by_cases h3 : n = j <;>
      simp [h1, h2, h3, eq_comm] <;> (subst_vars; simp_all)

theorem removeNode_eq (h : Heap K V) (n p q : Nat) (hn : n < h.size) (hp : p < h.size)
    (hq : q < h.size) (hpn : p ≠ n) (hprev : prevAt h n = some p)
    (hnext : nextAt h n = some q) :
    removeNode h (some n) = .ok
      ((((h.modify p fun x => { x with next := some q }).modify q
        fun x => { x with prev := some p }).modify n
        fun x => { x with next := none }).modify n fun x => { x with prev := none }) := by
  have e1 : nodeAt (h.modify p fun x => { x with next := some q }) n = nodeAt h n := by
    rw [nodeAt_modify _ _ _ _ hp]; simp [hpn]
  simp only [removeNode, load_some h n hn, ok_bind]
  simp only [nextAt, prevAt] at hprev hnext
  simp only [hprev, hnext]
  rw [store_some _ p _ hp]
  simp only [ok_bind]
  rw [load_some _ n (by simpa using hn)]
  simp only [ok_bind, e1, hprev, hnext]
  rw [store_some _ q _ (by simpa using hq)]
  simp only [ok_bind]
  rw [store_some _ n _ (by simpa using hn)]
  simp only [ok_bind]
  rw [store_some _ n _ (by simpa using hn)]

theorem removeNode_spec (h : Heap K V) (n p q : Nat) (hn : n < h.size) (hp : p < h.size)
    (hq : q < h.size) (hpn : p ≠ n) (hqn : q ≠ n) (hprev : prevAt h n = some p)
    (hnext : nextAt h n = some q) :
    ∃ h', removeNode h (some n) = .ok h' ∧ h'.size = h.size ∧
      (∀ j, nextAt h' j = if j = n then none else if j = p then some q else nextAt h j) ∧
      (∀ j, prevAt h' j = if j = n then none else if j = q then some p else prevAt h j) ∧
      (∀ j, keyAt h' j = keyAt h j) ∧ (∀ j, valAt h' j = valAt h j) := by
  refine ⟨_, removeNode_eq h n p q hn hp hq hpn hprev hnext, by simp, ?_, ?_, ?_, ?_⟩
  all_goals
    intro j
    have _ := hqn
    simp only [nextAt, prevAt, keyAt, valAt]
    rw [nodeAt_modify _ _ _ _ (by simpa using hn), nodeAt_modify _ _ _ _ (by simpa using hn),
      nodeAt_modify _ _ _ _ (by simpa using hq), nodeAt_modify _ _ _ _ hp]
    by_cases h1 : n = j <;> by_cases h2 : q = j <;> by_cases h3 : p = j <;>
      simp [h1, h2, h3, eq_comm] <;> (subst_vars; simp_all)

theorem store_value_spec (h : Heap K V) (n : Nat) (v : V) (hn : n < h.size) :
    ∃ h', store h (some n) (fun x => { x with value := v }) = .ok h' ∧ h'.size = h.size ∧
      (∀ j, nextAt h' j = nextAt h j) ∧ (∀ j, prevAt h' j = prevAt h j) ∧
      (∀ j, keyAt h' j = keyAt h j) ∧ (∀ j, valAt h' j = if j = n then v else valAt h j) := by
  refine ⟨_, store_some h n _ hn, by simp, ?_, ?_, ?_, ?_⟩
  all_goals
    intro j
    simp only [nextAt, prevAt, keyAt, valAt]
    rw [nodeAt_modify _ _ _ _ hn]
    by_cases h1 : n = j
    · subst h1; simp
    · have : ¬ j = n := fun e => h1 e.symm
      simp [h1, this]

theorem alloc_spec (h : Heap K V) (k : K) :
    (alloc h k).1 = h.size ∧ (alloc h k).2.size = h.size + 1 ∧
      (∀ j, nextAt (alloc h k).2 j = if j = h.size then none else nextAt h j) ∧
      (∀ j, prevAt (alloc h k).2 j = if j = h.size then none else prevAt h j) ∧
      (∀ j, keyAt (alloc h k).2 j = if j = h.size then k else keyAt h j) ∧
      (∀ j, valAt (alloc h k).2 j = if j = h.size then default else valAt h j) := by
  refine ⟨rfl, by simp [alloc], ?_, ?_, ?_, ?_⟩
  all_goals
    intro j
    simp only [nextAt, prevAt, keyAt, valAt, alloc, nodeAt_push]
    split <;> rfl

theorem nextAt_lt_none (h : Heap K V) (j : Nat) (hj : h.size ≤ j) : nextAt h j = none := by
  simp [nextAt, nodeAt, Array.getElem?_eq_none hj, zeroNode]

theorem prevAt_lt_none (h : Heap K V) (j : Nat) (hj : h.size ≤ j) : prevAt h j = none := by
  simp [prevAt, nodeAt, Array.getElem?_eq_none hj, zeroNode]

end Map
end Lox.Dec.Containers
