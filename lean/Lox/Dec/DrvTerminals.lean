import Lox.Drv.Common
import Lox.Dec.Terminals
/-! Driver op `dec.terminals <spec>` (C19). Core Lean only.

Spec encoding, tokens separated by spaces:
`T:<name>` token rule, `X:<name>` one `@external` name, `M:<name>{` … `}` mode block,
`O:<name>` / `O` any other statement (registers a name / does not), `F|` file boundary.
Answer of `dec.terminals`: the terminal names in numbering order, separated by spaces.
Answer of `dec.createnames`: `ok` or `err`, then `|`, then the terminal names the pass produced. -/
namespace Lox.Dec.Terminals

/-- Parser state: finished files (reversed), open mode blocks (innermost first, each with the
statements that preceded it, reversed), statements of the innermost open block (reversed). -/
structure PState where
  files : List File
  stack : List (String × List Stmt)
  cur : List Stmt

def pushStmt (st : PState) (s : Stmt) : PState := { st with cur := s :: st.cur }

def parseTok (st : PState) (tok : String) : Option PState :=
  if tok == "F|" then
    if st.stack.isEmpty then some { st with files := st.cur.reverse :: st.files, cur := [] } else none
  else if tok == "}" then
    match st.stack with
    | [] => none
    | (name, saved) :: rest => some { st with stack := rest, cur := Stmt.mode name st.cur.reverse :: saved }
  else if tok == "O" then some (pushStmt st (.other none))
  else if tok.startsWith "T:" then some (pushStmt st (.token (tok.drop 2).toString))
  else if tok.startsWith "X:" then some (pushStmt st (.external [(tok.drop 2).toString]))
  else if tok.startsWith "O:" then some (pushStmt st (.other (some (tok.drop 2).toString)))
  else if tok.startsWith "M:" && tok.endsWith "{" then
    some { st with stack := (((tok.drop 2).dropEnd 1).toString, st.cur) :: st.stack, cur := [] }
  else none

def parseToks : PState → List String → Option PState
  | st, [] => some st
  | st, t :: ts => match parseTok st t with
    | some st' => parseToks st' ts
    | none => none

/-- Decode a spec; `none` on a malformed payload (unbalanced braces, unknown token). -/
def parseSpec (payload : String) : Option Spec :=
  match parseToks ⟨[], [], []⟩ (Lox.Drv.fields payload ' ') with
  | some st => if st.stack.isEmpty then some (st.cur.reverse :: st.files).reverse else none
  | none => none

def handleTerminals (op payload : String) : Option String :=
  if op == "dec.terminals" then
    some (match parseSpec payload with
      | some s => " ".intercalate (terminals s)
      | none => "error: malformed spec")
  else if op == "dec.createnames" then
    some (match parseSpec payload with
      | some s =>
        let c := createNames s
        (if c.err then "err" else "ok") ++ "|" ++ " ".intercalate c.terms
      | none => "error: malformed spec")
  else none

end Lox.Dec.Terminals
