/-! List combinatorics for `Lox.Dec.ContainersProofs`: paths of an abstract successor function
(`Chain f a l b`: `a → l₀ → l₁ → … → b` along `f`), and how they change when a node is spliced
in or out. Independent of the heap representation (used once for `next` and once, on the
reversed list, for `prev`). -/
namespace Lox.Dec.Containers

/-- `f a = l₀`, `f l₀ = l₁`, …, `f l_last = b` (`f a = b` when `l = []`). -/
def Chain (f : Nat → Option Nat) : Nat → List Nat → Nat → Prop
  | a, [], b => f a = some b
  | a, x :: l, b => f a = some x ∧ Chain f x l b

theorem chain_append (f : Nat → Option Nat) (a : Nat) (l₁ : List Nat) (x : Nat) (l₂ : List Nat)
    (b : Nat) : Chain f a (l₁ ++ x :: l₂) b ↔ Chain f a l₁ x ∧ Chain f x l₂ b := by
  induction l₁ generalizing a with
  | nil => simp [Chain]
  | cons y l₁ ih => simp [Chain, ih, and_assoc]

theorem chain_congr {f f' : Nat → Option Nat} {a : Nat} {l : List Nat} {b : Nat}
    (h : ∀ i, i ∈ a :: l → f' i = f i) : Chain f' a l b ↔ Chain f a l b := by
  induction l generalizing a with
  | nil => simp [Chain, h a (by simp)]
  | cons y l ih =>
    simp only [Chain, h a (by simp)]
    rw [ih (fun i hi => h i (List.mem_cons_of_mem _ hi))]

theorem chain_head {f : Nat → Option Nat} {a : Nat} {l : List Nat} {b : Nat}
    (h : Chain f a l b) : f a = some (l.headD b) := by
  cases l with
  | nil => exact h
  | cons y l => exact h.1

theorem getLastD_mem (l : List Nat) (a : Nat) : l.getLastD a ∈ a :: l := by
  induction l generalizing a with
  | nil => simp
  | cons y l ih =>
    rw [List.getLastD_cons]
    exact List.mem_cons_of_mem _ (ih y)

/-- Splice `n` in after `p`, the last node of `a :: l₁`. -/
theorem chain_insert {f f' : Nat → Option Nat} {a : Nat} {l₁ l₂ : List Nat} {b n p : Nat}
    (hc : Chain f a (l₁ ++ l₂) b) (hnd : (a :: (l₁ ++ l₂)).Nodup) (hn : n ∉ a :: (l₁ ++ l₂))
    (hp : p = l₁.getLastD a) (hfp : f' p = some n) (hfn : f' n = f p)
    (hrest : ∀ i, i ≠ p → i ≠ n → f' i = f i) : Chain f' a (l₁ ++ n :: l₂) b := by
  induction l₁ generalizing a with
  | nil =>
    simp only [List.getLastD_nil] at hp
    subst hp
    simp only [List.nil_append, Chain] at hc ⊢
    refine ⟨hfp, ?_⟩
    cases l₂ with
    | nil => simpa [Chain, hfn] using hc
    | cons x r =>
      simp only [Chain] at hc ⊢
      refine ⟨by rw [hfn]; exact hc.1, ?_⟩
      rw [chain_congr]
      · exact hc.2
      · intro i hi
        apply hrest
        · rintro rfl
          simp only [List.nil_append, List.nodup_cons] at hnd
          exact hnd.1 hi
        · rintro rfl
          simp only [List.nil_append, List.mem_cons, not_or] at hn
          simp only [List.mem_cons] at hi
          exact hi.elim hn.2.1 hn.2.2
  | cons y l₁ ih =>
    rw [List.getLastD_cons] at hp
    simp only [List.cons_append, Chain] at hc ⊢
    have hnd' : (y :: (l₁ ++ l₂)).Nodup := (List.nodup_cons.mp hnd).2
    have hn' : n ∉ y :: (l₁ ++ l₂) := fun hm => hn (List.mem_cons_of_mem _ hm)
    refine ⟨?_, ih hc.2 hnd' hn' hp⟩
    rw [hrest a, hc.1]
    · rintro rfl
      have : l₁.getLastD y ∈ y :: l₁ := getLastD_mem l₁ y
      have hm : a ∈ y :: (l₁ ++ l₂) := by
        rw [hp]
        simp only [List.mem_cons, List.mem_append] at this ⊢
        rcases this with h | h
        · exact Or.inl h
        · exact Or.inr (Or.inl h)
      exact (List.nodup_cons.mp hnd).1 hm
    · rintro rfl
      exact hn (by simp)

/-- Splice `n` out; `p` is its predecessor (the last node of `a :: l₁`). -/
theorem chain_remove {f f' : Nat → Option Nat} {a : Nat} {l₁ l₂ : List Nat} {b n p : Nat}
    (hc : Chain f a (l₁ ++ n :: l₂) b) (hnd : (a :: (l₁ ++ n :: l₂)).Nodup)
    (hp : p = l₁.getLastD a) (hfp : f' p = f n)
    (hrest : ∀ i, i ≠ p → i ≠ n → f' i = f i) : Chain f' a (l₁ ++ l₂) b := by
  induction l₁ generalizing a with
  | nil =>
    simp only [List.getLastD_nil] at hp
    subst hp
    simp only [List.nil_append, Chain] at hc ⊢
    simp only [List.nil_append, List.nodup_cons, List.mem_cons, not_or] at hnd
    cases l₂ with
    | nil => simpa [Chain, hfp] using hc.2
    | cons x r =>
      simp only [Chain] at hc ⊢
      refine ⟨by rw [hfp]; exact hc.2.1, ?_⟩
      rw [chain_congr]
      · exact hc.2.2
      · intro i hi
        apply hrest
        · rintro rfl
          exact hnd.1.2 hi
        · rintro rfl
          exact hnd.2.1 hi
  | cons y l₁ ih =>
    rw [List.getLastD_cons] at hp
    simp only [List.cons_append, Chain] at hc ⊢
    have hnd' : (y :: (l₁ ++ n :: l₂)).Nodup := (List.nodup_cons.mp hnd).2
    refine ⟨?_, ih hc.2 hnd' hp⟩
    rw [hrest a, hc.1]
    · rintro rfl
      have : l₁.getLastD y ∈ y :: l₁ := getLastD_mem l₁ y
      have hm : a ∈ y :: (l₁ ++ n :: l₂) := by
        rw [hp]
        simp only [List.mem_cons, List.mem_append] at this ⊢
        rcases this with h | h
        · exact Or.inl h
        · exact Or.inr (Or.inl h)
      exact (List.nodup_cons.mp hnd).1 hm
    · rintro rfl
      exact (List.nodup_cons.mp hnd).1 (by simp)

/-- The last node of the path is the one whose successor is `b`. -/
theorem chain_last {f : Nat → Option Nat} {a : Nat} {l : List Nat} {b : Nat}
    (h : Chain f a l b) : f (l.getLastD a) = some b := by
  induction l generalizing a with
  | nil => exact h
  | cons y l ih =>
    rw [List.getLastD_cons]
    exact ih h.2

end Lox.Dec.Containers
