import Lox.Drv.Common
import Lox.Dec.Containers
/-! Driver ops for the container models (C13). Core Lean only.

Payload: operations separated by `;`, fields by spaces; keys, values and elements are integers.
Answer: one result per operation, separated by `;` (`-` for an operation without result, a list
as space separated items, possibly empty). A model error (Go panic) makes the whole answer
`panic <kind>`.

* `dec.stablemap` (`stablemap.Map[int,int]`, starting from the zero value):
  `P k v` Put · `G k` Get → `v true|false` · `Z k` GetOrZero · `H k` Has · `L` Len · `R k` Remove ·
  `C` Clear · `F` ForEach → `k:v …` · `K` Keys · `V` Values.
* `dec.set` (`set.Set[int]`, set variables `r`, `o` are small naturals, all start as zero values):
  `A r x` Add → changed · `S r x…` AddSlice → changed · `U r o` `r.AddSet(o)` → changed · `R r x`
  Remove · `H r x` Has · `E r` Empty · `L r` Len · `X r` Elements · `Q r o` `r.Equal(o)` ·
  `F r` ForEach · `N d s` `d = s.Clone()` · `C r` Clear · `W d x…` `d = set.New(x…)`.
* `dec.multimap` (`stablemap.MultiMap[int,int]`): `A k v` Add · `G k` Get+Elements →
  `true|false:v …` · `H k` · `L` · `R k` · `C` · `K` · `F` → `k:[v …] …`.
* `dec.stack` (`stack.Stack[int]`): `P x` Push · `O` Pop → x · `T` Peek → x · `L` · `E` · `X`
  Elements.
* `dec.array` (`array.Array[int]`): `A x` Add · `G i` Get · `L` · `E` · `X` Elements ·
  `D m` DeleteFunc(e % m == 0), m > 0. -/
namespace Lox.Dec.Containers

open Lox.Drv

def showErr : Err → String
  | .nilDeref => "panic nil-dereference"
  | .nilMap => "panic nil-map"
  | .dangling => "panic dangling"
  | .fuel => "panic fuel"
  | .index => "panic index"

def showBool (b : Bool) : String := if b then "true" else "false"

def splitOps (payload : String) : List (List String) :=
  ((payload.splitOn ";").map fun s => fields s ' ').filter (· ≠ [])

/-! ### stablemap -/

def parseMapOp (ws : List String) : Option (Op Int Int) :=
  match ws with
  | ["P", k, v] => do let k ← parseInt k; let v ← parseInt v; pure (.put k v)
  | ["G", k] => (parseInt k).map .get
  | ["Z", k] => (parseInt k).map .getOrZero
  | ["H", k] => (parseInt k).map .has
  | ["L"] => some .len
  | ["R", k] => (parseInt k).map .remove
  | ["C"] => some .clear
  | ["F"] => some .forEach
  | ["K"] => some .keys
  | ["V"] => some .values
  | _ => none

def showObs : Obs Int Int → String
  | .unit => "-"
  | .got v ok => toString v ++ " " ++ showBool ok
  | .val v => toString v
  | .bool b => showBool b
  | .nat n => toString n
  | .pairs l => " ".intercalate (l.map fun (k, v) => toString k ++ ":" ++ toString v)
  | .keys l => showInts l
  | .values l => showInts l

def runStablemap (payload : String) : String :=
  match (splitOps payload).mapM parseMapOp with
  | none => "error: malformed ops"
  | some ops =>
    match run ops CMap.zero with
    | .ok (obs, _) => ";".intercalate (obs.map showObs)
    | .error e => showErr e

/-! ### set -/

def parseSetOp (ws : List String) : Option (SetOp Int) :=
  match ws with
  | ["A", r, x] => do let r ← r.toNat?; let x ← parseInt x; pure (.add r x)
  | "S" :: r :: xs => do let r ← r.toNat?; let xs ← xs.mapM parseInt; pure (.addSlice r xs)
  | ["U", r, o] => do let r ← r.toNat?; let o ← o.toNat?; pure (.addSet r o)
  | ["R", r, x] => do let r ← r.toNat?; let x ← parseInt x; pure (.remove r x)
  | ["H", r, x] => do let r ← r.toNat?; let x ← parseInt x; pure (.has r x)
  | ["E", r] => r.toNat?.map .empty
  | ["L", r] => r.toNat?.map .len
  | ["X", r] => r.toNat?.map .elements
  | ["Q", r, o] => do let r ← r.toNat?; let o ← o.toNat?; pure (.equal r o)
  | ["F", r] => r.toNat?.map .forEach
  | ["N", d, s] => do let d ← d.toNat?; let s ← s.toNat?; pure (.clone d s)
  | ["C", r] => r.toNat?.map .clear
  | "W" :: d :: xs => do let d ← d.toNat?; let xs ← xs.mapM parseInt; pure (.new d xs)
  | _ => none

def showSetObs : SetObs Int → String
  | .unit => "-"
  | .bool b => showBool b
  | .nat n => toString n
  | .elems l => showInts l

def runSet (payload : String) : String :=
  match (splitOps payload).mapM parseSetOp with
  | none => "error: malformed ops"
  | some ops =>
    match setRun ops (fun _ => CSet.zero) with
    | .ok (obs, _) => ";".intercalate (obs.map showSetObs)
    | .error e => showErr e

/-! ### multimap -/

def parseMOp (ws : List String) : Option (MOp Int Int) :=
  match ws with
  | ["A", k, v] => do let k ← parseInt k; let v ← parseInt v; pure (.add k v)
  | ["G", k] => (parseInt k).map .get
  | ["H", k] => (parseInt k).map .has
  | ["L"] => some .len
  | ["R", k] => (parseInt k).map .remove
  | ["C"] => some .clear
  | ["K"] => some .keys
  | ["F"] => some .forEach
  | _ => none

def showMObs : MObs Int Int → String
  | .unit => "-"
  | .got l ok => showBool ok ++ ":" ++ showInts l
  | .bool b => showBool b
  | .nat n => toString n
  | .keys l => showInts l
  | .all l => " ".intercalate (l.map fun (k, vs) => toString k ++ ":[" ++ showInts vs ++ "]")

def runMultimap (payload : String) : String :=
  match (splitOps payload).mapM parseMOp with
  | none => "error: malformed ops"
  | some ops =>
    match mmRun ops CMulti.zero with
    | .ok (obs, _) => ";".intercalate (obs.map showMObs)
    | .error e => showErr e

/-! ### stack, array -/

/-- One step on a slice-backed container; `none` = malformed op. The result text and the new
slice, or the panic. -/
def stackStep (s : List Int) (ws : List String) : Option (Except Err (String × List Int)) :=
  match ws with
  | ["P", x] => (parseInt x).map fun x => .ok ("-", slicePush s x)
  | ["O"] => some ((stackPop s).map fun (e, s) => (toString e, s))
  | ["T"] => some ((stackPeek s).map fun e => (toString e, s))
  | ["L"] => some (.ok (toString s.length, s))
  | ["E"] => some (.ok (showBool s.isEmpty, s))
  | ["X"] => some (.ok (showInts s, s))
  | _ => none

def arrayStep (s : List Int) (ws : List String) : Option (Except Err (String × List Int)) :=
  match ws with
  | ["A", x] => (parseInt x).map fun x => .ok ("-", slicePush s x)
  | ["G", i] => (parseInt i).map fun i => (arrayGet s i).map fun e => (toString e, s)
  | ["L"] => some (.ok (toString s.length, s))
  | ["E"] => some (.ok (showBool s.isEmpty, s))
  | ["X"] => some (.ok (showInts s, s))
  | ["D", m] => (parseInt m).bind fun m =>
      if m > 0 then some (.ok ("-", arrayDeleteFunc s (fun e => e % m == 0))) else none
  | _ => none

def runSlice (stepf : List Int → List String → Option (Except Err (String × List Int))) :
    List (List String) → List Int → List String → String
  | [], _, acc => ";".intercalate acc.reverse
  | ws :: rest, s, acc =>
    match stepf s ws with
    | none => "error: malformed ops"
    | some (.error e) => showErr e
    | some (.ok (r, s)) => runSlice stepf rest s (r :: acc)

def handleContainers (op payload : String) : Option String :=
  if op == "dec.stablemap" then some (runStablemap payload)
  else if op == "dec.set" then some (runSet payload)
  else if op == "dec.multimap" then some (runMultimap payload)
  else if op == "dec.stack" then some (runSlice stackStep (splitOps payload) [] [])
  else if op == "dec.array" then some (runSlice arrayStep (splitOps payload) [] [])
  else none

end Lox.Dec.Containers
