import Lox.Dec.AssignProofs
/-! Pass 3 of `AssignActions` (`getReduceTypeForGeneratedRule` iterated to a fixed point) computes
the documented derivation `specTyR`, never panics on well-formed cases and needs no more than
`rules.length + 1` rounds. -/
namespace Lox.Dec.Assign

/-! ## Shapes of helper rules -/

theorem map_eq_two {α β : Type} {f : α → β} {l : List α} {a b : β} (h : l.map f = [a, b]) :
    ∃ x y, l = [x, y] ∧ f x = a ∧ f y = b := by
  match l, h with
  | [x, y], h => simp at h; exact ⟨x, y, rfl, h.1, h.2⟩

theorem shape_slice {c : Case} (w : WF c) {h : Nat} (hh : h < c.rules.length)
    (hg : isSliceGen (genOf c h) = true) :
    ∃ p0 p1 x, ruleProds c h = [p0, p1] ∧ termsOf c p1 = [x] ∧ Simple c x := by
  have := w.shapes h hh
  unfold HelperShape at this
  unfold isSliceGen at hg
  split at hg
  · rename_i hg'; rw [hg'] at this; simp only at this
    split at this
    · rename_i r' x' x heq
      obtain ⟨p0, p1, hl, _, h1⟩ := map_eq_two heq
      exact ⟨p0, p1, x, hl, h1, this.2.2⟩
    · exact absurd this id
  · rename_i hg'; rw [hg'] at this; simp only at this
    split at this
    · rename_i r' x' x heq
      obtain ⟨p0, p1, hl, _, h1⟩ := map_eq_two heq
      exact ⟨p0, p1, x, hl, h1, this.2.2⟩
    · exact absurd this id
  · rename_i hg'; rw [hg'] at this; simp only at this
    split at this
    · rename_i r' s x' x heq
      obtain ⟨p0, p1, hl, _, h1⟩ := map_eq_two heq
      exact ⟨p0, p1, x, hl, h1, this.2.2.1⟩
    · exact absurd this id
  · cases hg

theorem shape_opt {c : Case} (w : WF c) {r : Nat} (hr : r < c.rules.length)
    (hg : genOf c r = some .zeroOrOne) :
    ∃ p0 p1 x, ruleProds c r = [p0, p1] ∧ termsOf c p0 = [x] ∧ termsOf c p1 = [] ∧
      (Simple c x ∨ ∃ h, x = .rule h ∧ genOf c h = some .list) := by
  have := w.shapes r hr
  unfold HelperShape at this
  rw [hg] at this; simp only at this
  split at this
  · rename_i x heq
    obtain ⟨p0, p1, hl, h0, h1⟩ := map_eq_two heq
    refine ⟨p0, p1, x, hl, h0, h1, ?_⟩
    rcases this with h | h
    · exact Or.inl h
    · cases x with
      | rule h' => exact Or.inr ⟨h', rfl, h⟩
      | tok => exact absurd h id
      | err => exact absurd h id
  · exact absurd this id

theorem shape_star {c : Case} (w : WF c) {r : Nat} (hr : r < c.rules.length)
    (hg : genOf c r = some .zeroOrMore ∨ genOf c r = some .zeroOrMoreF) :
    ∃ p0 p1 h, ruleProds c r = [p0, p1] ∧ termsOf c p0 = [.rule h] ∧ termsOf c p1 = [] ∧
      isSliceGen (genOf c h) = true := by
  have := w.shapes r hr
  unfold HelperShape at this
  rcases hg with hg | hg
  · rw [hg] at this; simp only at this
    split at this
    · rename_i h heq
      obtain ⟨p0, p1, hl, h0, h1⟩ := map_eq_two heq
      exact ⟨p0, p1, h, hl, h0, h1, by rw [this]; rfl⟩
    · exact absurd this id
  · rw [hg] at this; simp only at this
    split at this
    · rename_i h heq
      obtain ⟨p0, p1, hl, h0, h1⟩ := map_eq_two heq
      exact ⟨p0, p1, h, hl, h0, h1, by rw [this]; rfl⟩
    · exact absurd this id

theorem mem_ruleProds {c : Case} {r p : Nat} :
    p ∈ ruleProds c r ↔ ∃ pr, c.prods[p]? = some pr ∧ pr.rule = r := by
  unfold ruleProds
  simp only [List.mem_map, List.mem_filter, List.mem_zipIdx_iff_getElem?, beq_iff_eq]
  constructor
  · rintro ⟨⟨pr, i⟩, ⟨h1, h2⟩, rfl⟩; exact ⟨pr, h1, h2⟩
  · rintro ⟨pr, h1, h2⟩; exact ⟨(pr, p), ⟨h1, h2⟩, rfl⟩

theorem genOf_lt {c : Case} {r : Nat} {g : Gen} (h : genOf c r = some g) : r < c.rules.length := by
  unfold genOf at h
  cases hr : c.rules[r]? with
  | none => simp [hr] at h
  | some ru => exact (List.getElem?_eq_some_iff.mp hr).1

theorem genOf_eq {c : Case} {r : Nat} {ru : Rule} (h : c.rules[r]? = some ru) :
    genOf c r = some ru.gen := by
  unfold genOf; rw [h]; rfl

theorem isSliceGen_lt {c : Case} {h : Nat} (hg : isSliceGen (genOf c h) = true) :
    h < c.rules.length := by
  cases hh : genOf c h with
  | none => rw [hh] at hg; cases hg
  | some g => exact genOf_lt hh

/-! ## The invariant of the loop -/

def noneCount (tm : TyMap) : Nat := tm.count none

/-- Entries are the documented types; only helper rules may still be untyped. -/
structure Inv (c : Case) (tm : TyMap) : Prop where
  len : tm.length = c.rules.length
  ent : ∀ (r : Nat) ru, c.rules[r]? = some ru →
    tm.get r = specTyR c r ∨ (tm.get r = none ∧ ru.gen ≠ .user ∧ ru.gen ≠ .sprime)

theorem userTy_none_of_helper {c : Case} (w : WF c) {ru : Rule} (hru : ru ∈ c.rules)
    (hg : ru.gen ≠ .user) : userTy c ru = none := by
  unfold userTy
  cases hl : actionsOf c ru.name with
  | nil => rfl
  | cons f rest =>
    have hf : f ∈ actionsOf c ru.name := by rw [hl]; exact List.mem_cons_self
    obtain ⟨hfa, hfr⟩ := mem_actionsOf.mp hf
    have := w.helperNoMethod ru hru hg f.m (action_method_mem hfa)
    rw [(mem_actions.mp hfa).2.1, hfr] at this
    exact absurd rfl this

theorem get_initTypes {c : Case} {r : Nat} {ru : Rule} (h : c.rules[r]? = some ru) :
    (initTypes c).get r = userTy c ru := by
  unfold TyMap.get initTypes
  rw [List.getElem?_map, h]; rfl

theorem specTyR_user {c : Case} {r : Nat} {ru : Rule} (h : c.rules[r]? = some ru)
    (hg : ru.gen = .user) : specTyR c r = userTy c ru := by
  unfold specTyR; rw [h]; simp only; rw [hg]

theorem inv_init {c : Case} (w : WF c) : Inv c (initTypes c) := by
  refine ⟨by simp [initTypes], ?_⟩
  intro r ru h
  rw [get_initTypes h]
  by_cases hg : ru.gen = .user
  · left; exact (specTyR_user h hg).symm
  · have hn := userTy_none_of_helper w (List.mem_of_getElem? h) hg
    by_cases hs : ru.gen = .sprime
    · left; rw [hn]; unfold specTyR; rw [h]; simp only; rw [hs]
    · right; exact ⟨hn, hg, hs⟩

theorem specElemR_user {c : Case} {r : Nat} {ru : Rule} (h : c.rules[r]? = some ru)
    (hg : ru.gen = .user) : specElemR c (.rule r) = userTy c ru := by
  simp only [specElemR, h, hg, ↓reduceIte]

/-- Under the invariant a simple term already has its final type. -/
theorem termTy_simple {c : Case} {tm : TyMap} (inv : Inv c tm) {x : Term} (hx : Simple c x) :
    termTy c tm x = specElemR c x := by
  cases x with
  | tok => rfl
  | err => rfl
  | rule r =>
    simp only [Simple] at hx
    unfold genOf at hx
    cases hr : c.rules[r]? with
    | none => simp [hr] at hx
    | some ru =>
      have hg : ru.gen = .user := by simpa [hr] using hx
      simp only [termTy]
      rcases inv.ent r ru hr with h | ⟨_, h, _⟩
      · rw [h, specTyR_user hr hg, specElemR_user hr hg]
      · exact absurd hg h

theorem reduceSlice_eq {c : Case} {tm : TyMap} (w : WF c) (inv : Inv c tm) {h : Nat}
    (hg : isSliceGen (genOf c h) = true) :
    ∃ p0 p1 T, ruleProds c h = [p0, p1] ∧ specSliceR c h = some T ∧
      ∀ p, reduceSlice c tm h p = if p = p1 then .ty T else .nil := by
  obtain ⟨p0, p1, x, hl, ht, hx⟩ := shape_slice w (isSliceGen_lt hg) hg
  refine ⟨p0, p1, sliceOfR c (specElemR c x), hl, ?_, ?_⟩
  · unfold specSliceR; rw [hl]; simp only; rw [ht]
  · intro p
    unfold reduceSlice; rw [hl]; simp only
    by_cases hp : p = p1
    · subst hp; simp only [ne_eq, not_true_eq_false, ↓reduceIte]; rw [ht]; simp only
      rw [termTy_simple inv hx]
    · simp [hp]

theorem specTyR_slice {c : Case} {r : Nat} (hg : isSliceGen (genOf c r) = true) :
    specTyR c r = specSliceR c r := by
  unfold specTyR
  cases hr : c.rules[r]? with
  | none => simp [genOf, hr, isSliceGen] at hg
  | some ru =>
    simp only
    rw [genOf_eq hr] at hg
    cases hgen : ru.gen <;> simp [hgen, isSliceGen] at hg ⊢

/-- The documented type of `x?` / `@list(x,s)?` in terms of its only term. -/
def optSpecR (c : Case) : Term → Option RTy
  | .rule h => if genOf c h = some .list then specSliceR c h else specElemR c (.rule h)
  | x => specElemR c x

theorem specTyR_opt {c : Case} {r : Nat} {ru : Rule} (hr : c.rules[r]? = some ru)
    (hg : ru.gen = .zeroOrOne) {p0 : Nat} {rest : List Nat} (hl : ruleProds c r = p0 :: rest)
    {x : Term} {xs : List Term} (h0 : termsOf c p0 = x :: xs) : specTyR c r = optSpecR c x := by
  unfold specTyR; rw [hr]; simp only; rw [hg]; simp only; rw [hl]; simp only; rw [h0]
  cases x <;> rfl

/-- `getReduceTypeForGeneratedRule` never panics on a well-formed grammar and, when it returns a
type, returns the documented one. -/
theorem reduceType_sound {c : Case} {tm : TyMap} (w : WF c) (inv : Inv c tm) {r : Nat} {ru : Rule}
    (hr : c.rules[r]? = some ru) (p : Nat) :
    reduceType c tm r p = .nil ∨ ∃ t, reduceType c tm r p = .ty t ∧ specTyR c r = some t := by
  have hrl : r < c.rules.length := (List.getElem?_eq_some_iff.mp hr).1
  have hgen := genOf_eq hr
  unfold reduceType
  rw [hgen]
  cases hg : ru.gen with
  | user => left; rfl
  | sprime => left; rfl
  | zeroOrOne =>
    simp only
    rw [hg] at hgen
    obtain ⟨p0, p1, x, hl, h0, _, hx⟩ := shape_opt w hrl hgen
    unfold reduceOpt; rw [hl]; simp only
    by_cases hp : p = p0
    · subst hp
      simp only [ne_eq, not_true_eq_false, ↓reduceIte]; rw [h0]; simp only
      have hspec : specTyR c r = optSpecR c x := specTyR_opt hr hg hl h0
      rcases hx with hx | ⟨h, rfl, hh⟩
      · rw [termTy_simple inv hx]
        have hspec' : specTyR c r = specElemR c x := by
          rw [hspec]
          cases x with
          | tok => rfl
          | err => rfl
          | rule h =>
            simp only [Simple] at hx
            simp [optSpecR, hx]
        cases he : specElemR c x with
        | none => left; rfl
        | some t => right; exact ⟨t, rfl, by rw [hspec', he]⟩
      · simp only [termTy]
        have hspec' : specTyR c r = specSliceR c h := by rw [hspec]; simp [optSpecR, hh]
        have hhl := genOf_lt hh
        obtain ⟨rh, hrh⟩ : ∃ rh, c.rules[h]? = some rh := ⟨c.rules[h], List.getElem?_eq_getElem hhl⟩
        have hsl : isSliceGen (genOf c h) = true := by rw [hh]; rfl
        rcases inv.ent h rh hrh with e | ⟨e, _, _⟩
        · rw [e, specTyR_slice hsl]
          cases hs : specSliceR c h with
          | none => left; rfl
          | some t => right; exact ⟨t, rfl, by rw [hspec', hs]⟩
        · rw [e]; left; rfl
    · left; simp [hp]
  | zeroOrMore =>
    simp only
    rw [hg] at hgen
    obtain ⟨p0, p1, h, hl, h0, _, hh⟩ := shape_star w hrl (Or.inl hgen)
    unfold reduceStar; rw [hl]; simp only
    by_cases hp : p = p0
    · subst hp
      simp only [ne_eq, not_true_eq_false, ↓reduceIte]; rw [h0]; simp only
      obtain ⟨q0, q1, T, hql, hT, hred⟩ := reduceSlice_eq w inv hh
      right
      refine ⟨T, ?_, ?_⟩
      · unfold reduceInner; rw [hql]; simp only
        have := hred q1
        simp only [↓reduceIte] at this
        unfold isSliceGen at hh
        split at hh
        · rename_i e; rw [e]; simp only; rw [this]
        · rename_i e; rw [e]; simp only; rw [this]
        · rename_i e; rw [e]; simp only; rw [this]
        · cases hh
      · unfold specTyR; rw [hr]; simp only; rw [hg]; simp only; rw [hl]; simp only; rw [h0]
        simp [hh, hT]
    · left; simp [hp]
  | zeroOrMoreF =>
    simp only
    rw [hg] at hgen
    obtain ⟨p0, p1, h, hl, h0, _, hh⟩ := shape_star w hrl (Or.inr hgen)
    unfold reduceStar; rw [hl]; simp only
    by_cases hp : p = p0
    · subst hp
      simp only [ne_eq, not_true_eq_false, ↓reduceIte]; rw [h0]; simp only
      obtain ⟨q0, q1, T, hql, hT, hred⟩ := reduceSlice_eq w inv hh
      right
      refine ⟨T, ?_, ?_⟩
      · unfold reduceInner; rw [hql]; simp only
        have := hred q1
        simp only [↓reduceIte] at this
        unfold isSliceGen at hh
        split at hh
        · rename_i e; rw [e]; simp only; rw [this]
        · rename_i e; rw [e]; simp only; rw [this]
        · rename_i e; rw [e]; simp only; rw [this]
        · cases hh
      · unfold specTyR; rw [hr]; simp only; rw [hg]; simp only; rw [hl]; simp only; rw [h0]
        simp [hh, hT]
    · left; simp [hp]
  | oneOrMore =>
    simp only
    have hsl : isSliceGen (genOf c r) = true := by rw [hgen, hg]; rfl
    obtain ⟨q0, q1, T, _, hT, hred⟩ := reduceSlice_eq w inv hsl
    rw [hred p]
    by_cases hp : p = q1
    · right; exact ⟨T, by simp [hp], by rw [specTyR_slice hsl, hT]⟩
    · left; simp [hp]
  | oneOrMoreF =>
    simp only
    have hsl : isSliceGen (genOf c r) = true := by rw [hgen, hg]; rfl
    obtain ⟨q0, q1, T, _, hT, hred⟩ := reduceSlice_eq w inv hsl
    rw [hred p]
    by_cases hp : p = q1
    · right; exact ⟨T, by simp [hp], by rw [specTyR_slice hsl, hT]⟩
    · left; simp [hp]
  | list =>
    simp only
    have hsl : isSliceGen (genOf c r) = true := by rw [hgen, hg]; rfl
    obtain ⟨q0, q1, T, _, hT, hred⟩ := reduceSlice_eq w inv hsl
    rw [hred p]
    by_cases hp : p = q1
    · right; exact ⟨T, by simp [hp], by rw [specTyR_slice hsl, hT]⟩
    · left; simp [hp]

/-! ## One round of the loop -/

theorem get_set_self {tm : TyMap} {r : Nat} {v : Option RTy} (h : r < tm.length) :
    TyMap.get (tm.set r v) r = v := by
  unfold TyMap.get; rw [List.getElem?_set]; simp [h]

theorem get_set_ne {tm : TyMap} {r r' : Nat} {v : Option RTy} (h : r ≠ r') :
    TyMap.get (tm.set r v) r' = TyMap.get tm r' := by
  unfold TyMap.get; rw [List.getElem?_set]; simp [h]

theorem get_none_elem {tm : TyMap} {r : Nat} (h : r < tm.length) (hg : TyMap.get tm r = none) :
    tm[r]? = some none := by
  unfold TyMap.get at hg
  rw [List.getElem?_eq_getElem h] at hg ⊢
  simp only [Option.join_some] at hg
  rw [hg]

def noneCnt : TyMap → Nat
  | [] => 0
  | none :: l => noneCnt l + 1
  | some _ :: l => noneCnt l

theorem noneCnt_le : ∀ tm : TyMap, noneCnt tm ≤ tm.length
  | [] => Nat.le_refl _
  | none :: l => by simp only [noneCnt, List.length_cons]; exact Nat.succ_le_succ (noneCnt_le l)
  | some _ :: l => by simp only [noneCnt, List.length_cons]; exact Nat.le_succ_of_le (noneCnt_le l)

theorem noneCnt_set : ∀ (tm : TyMap) (r : Nat) (t : RTy), tm[r]? = some none →
    noneCnt (tm.set r (some t)) + 1 = noneCnt tm
  | [], r, t, h => by simp at h
  | a :: l, 0, t, h => by
    simp only [List.getElem?_cons_zero, Option.some.injEq] at h
    subst h; simp [noneCnt]
  | none :: l, r + 1, t, h => by
    simp only [List.getElem?_cons_succ] at h
    simp only [List.set_cons_succ, noneCnt]
    have := noneCnt_set l r t h; omega
  | some _ :: l, r + 1, t, h => by
    simp only [List.getElem?_cons_succ] at h
    simp only [List.set_cons_succ, noneCnt]
    exact noneCnt_set l r t h

theorem identicalR_refl {c : Case} (hrefl : ∀ t, c.identical t t = true) (t : RTy) :
    identicalR c t t = true := by
  cases t <;> simp [identicalR, hrefl]

theorem passStep_inv {c : Case} {tm : TyMap} {ch : Bool} (w : WF c)
    (hrefl : ∀ t, c.identical t t = true) (inv : Inv c tm) {pr : Prod} {p : Nat}
    (hp : c.prods[p]? = some pr) :
    ∃ tm' ch', passStep c (.ok (tm, ch)) (pr, p) = .ok (tm', ch') ∧ Inv c tm' ∧
      ((tm' = tm ∧ ch' = ch) ∨ (ch' = true ∧ noneCnt tm' + 1 = noneCnt tm)) := by
  have hrl : pr.rule < c.rules.length := w.prodRule pr (List.mem_of_getElem? hp)
  have hr : c.rules[pr.rule]? = some c.rules[pr.rule] := List.getElem?_eq_getElem hrl
  unfold passStep
  simp only
  rcases reduceType_sound w inv hr p with h | ⟨t, h, hs⟩
  · rw [h]; exact ⟨tm, ch, rfl, inv, Or.inl ⟨rfl, rfl⟩⟩
  · rw [h]; simp only
    cases hg : tm.get pr.rule with
    | some e =>
      simp only
      have he : e = t := by
        rcases inv.ent _ _ hr with h1 | ⟨h1, _⟩
        · rw [hg, hs] at h1; exact Option.some.inj h1
        · rw [hg] at h1; cases h1
      rw [he, identicalR_refl hrefl]
      exact ⟨tm, ch, rfl, inv, Or.inl ⟨rfl, rfl⟩⟩
    | none =>
      simp only
      have hlt : pr.rule < tm.length := by rw [inv.len]; exact hrl
      refine ⟨tm.set pr.rule (some t), true, rfl, ⟨by simp [inv.len], ?_⟩, Or.inr ⟨rfl, ?_⟩⟩
      · intro r ru hru
        by_cases hrr : pr.rule = r
        · subst hrr; left; rw [get_set_self hlt, hs]
        · rw [get_set_ne hrr]; exact inv.ent r ru hru
      · exact noneCnt_set tm pr.rule t (get_none_elem hlt hg)

theorem fold_inv {c : Case} (w : WF c) (hrefl : ∀ t, c.identical t t = true) :
    ∀ (l : List (Prod × Nat)), (∀ x ∈ l, c.prods[x.2]? = some x.1) → ∀ tm ch, Inv c tm →
    ∃ tm' ch', l.foldl (passStep c) (.ok (tm, ch)) = .ok (tm', ch') ∧ Inv c tm' ∧
      ((tm' = tm ∧ ch' = ch) ∨ (ch' = true ∧ noneCnt tm' < noneCnt tm))
  | [], _, tm, ch, inv => ⟨tm, ch, rfl, inv, Or.inl ⟨rfl, rfl⟩⟩
  | (pr, p) :: l, hl, tm, ch, inv => by
    obtain ⟨tm1, ch1, h1, inv1, d1⟩ := passStep_inv (ch := ch) w hrefl inv (hl (pr, p) List.mem_cons_self)
    obtain ⟨tm2, ch2, h2, inv2, d2⟩ := fold_inv w hrefl l (fun x hx => hl x (List.mem_cons_of_mem _ hx)) tm1 ch1 inv1
    refine ⟨tm2, ch2, ?_, inv2, ?_⟩
    · rw [List.foldl_cons, h1, h2]
    · rcases d1 with ⟨e1, e1'⟩ | ⟨e1, e1'⟩ <;> rcases d2 with ⟨e2, e2'⟩ | ⟨e2, e2'⟩
      · left; exact ⟨e2.trans e1, e2'.trans e1'⟩
      · right; rw [← e1]; exact ⟨e2, e2'⟩
      · right; rw [e2, e2']; exact ⟨e1, by omega⟩
      · right; exact ⟨e2, by omega⟩

theorem zipIdx_prods {c : Case} : ∀ x ∈ c.prods.zipIdx, c.prods[x.2]? = some x.1 :=
  fun _ hx => List.mem_zipIdx_iff_getElem?.mp hx

theorem pass_inv {c : Case} {tm : TyMap} (w : WF c) (hrefl : ∀ t, c.identical t t = true)
    (inv : Inv c tm) :
    ∃ tm' ch', pass c tm = .ok (tm', ch') ∧ Inv c tm' ∧
      ((tm' = tm ∧ ch' = false) ∨ (ch' = true ∧ noneCnt tm' < noneCnt tm)) :=
  fold_inv w hrefl _ zipIdx_prods tm false inv

theorem loop_inv {c : Case} (w : WF c) (hrefl : ∀ t, c.identical t t = true) :
    ∀ (fuel : Nat) (tm : TyMap), Inv c tm → noneCnt tm < fuel →
    ∃ tm', deriveLoop c fuel tm = .ok tm' ∧ Inv c tm' ∧ pass c tm' = .ok (tm', false)
  | 0, _, _, h => absurd h (Nat.not_lt_zero _)
  | fuel + 1, tm, inv, h => by
    obtain ⟨tm1, ch1, h1, inv1, d⟩ := pass_inv w hrefl inv
    unfold deriveLoop
    rw [h1]; simp only
    rcases d with ⟨e, e'⟩ | ⟨e, e'⟩
    · subst e'; subst e
      exact ⟨tm1, by simp, inv1, h1⟩
    · subst e
      simp only [↓reduceIte]
      exact loop_inv w hrefl fuel tm1 inv1 (by omega)

/-! ## The last round changes nothing -/

/-- What a round that ends with `changed = false` saw at production `x`. -/
def QuietAt (c : Case) (tm : TyMap) (x : Prod × Nat) : Prop :=
  reduceType c tm x.1.rule x.2 = .nil ∨
    ∃ t e, reduceType c tm x.1.rule x.2 = .ty t ∧ tm.get x.1.rule = some e

theorem fold_error {c : Case} (e : String) : ∀ l : List (Prod × Nat),
    l.foldl (passStep c) (.error e) = .error e
  | [] => rfl
  | _ :: l => by rw [List.foldl_cons]; exact fold_error e l

theorem passStep_true {c : Case} {tm : TyMap} {x : Prod × Nat} {r : TyMap × Bool}
    (h : passStep c (.ok (tm, true)) x = .ok r) : r.2 = true := by
  unfold passStep at h
  simp only at h
  split at h
  · cases h
  · cases h; rfl
  · split at h
    · split at h
      · cases h; rfl
      · cases h
    · cases h; rfl

theorem fold_true {c : Case} : ∀ (l : List (Prod × Nat)) (tm : TyMap) (r : TyMap × Bool),
    l.foldl (passStep c) (.ok (tm, true)) = .ok r → r.2 = true
  | [], _, r, h => by cases h; rfl
  | x :: l, tm, r, h => by
    rw [List.foldl_cons] at h
    cases hs : passStep c (.ok (tm, true)) x with
    | error e => rw [hs, fold_error] at h; cases h
    | ok r1 =>
      have := passStep_true hs
      rw [hs] at h
      obtain ⟨tm1, ch1⟩ := r1
      simp only at this; subst this
      exact fold_true l tm1 r h

theorem passStep_false {c : Case} (tm : TyMap) (x : Prod × Nat) :
    (passStep c (.ok (tm, false)) x = .ok (tm, false) ∧ QuietAt c tm x) ∨
    (∃ e, passStep c (.ok (tm, false)) x = .error e) ∨
    (∃ tm1, passStep c (.ok (tm, false)) x = .ok (tm1, true)) := by
  unfold passStep QuietAt
  simp only
  cases hr : reduceType c tm x.1.rule x.2 with
  | nil => exact Or.inl ⟨rfl, Or.inl rfl⟩
  | panic m => exact Or.inr (Or.inl ⟨m, rfl⟩)
  | ty t =>
    simp only
    cases hg : tm.get x.1.rule with
    | none => exact Or.inr (Or.inr ⟨_, rfl⟩)
    | some e =>
      simp only
      by_cases hi : identicalR c e t = true
      · simp only [hi, ↓reduceIte]
        exact Or.inl ⟨trivial, Or.inr ⟨t, e, rfl, rfl⟩⟩
      · simp only [hi, Bool.false_eq_true, ↓reduceIte]
        exact Or.inr (Or.inl ⟨_, rfl⟩)

theorem fold_quiet {c : Case} : ∀ (l : List (Prod × Nat)) (tm tm' : TyMap),
    l.foldl (passStep c) (.ok (tm, false)) = .ok (tm', false) → tm' = tm ∧ ∀ x ∈ l, QuietAt c tm x
  | [], tm, tm', h => by
    simp only [List.foldl_nil, Except.ok.injEq] at h
    exact ⟨(congrArg Prod.fst h).symm, fun _ hx => by cases hx⟩
  | x :: l, tm, tm', h => by
    rw [List.foldl_cons] at h
    rcases passStep_false (c := c) tm x with ⟨k1, k2⟩ | ⟨e, k⟩ | ⟨tm1, k⟩
    · rw [k1] at h
      obtain ⟨e, q⟩ := fold_quiet l tm tm' h
      refine ⟨e, ?_⟩
      intro y hy
      rcases List.mem_cons.mp hy with rfl | hy
      · exact k2
      · exact q y hy
    · rw [k, fold_error] at h; cases h
    · rw [k] at h
      have := fold_true l _ _ h
      cases this

theorem pass_quiet {c : Case} {tm tm' : TyMap} (h : pass c tm = .ok (tm', false))
    {pr : Prod} {p : Nat} (hp : c.prods[p]? = some pr) : QuietAt c tm (pr, p) :=
  (fold_quiet _ tm tm' h).2 (pr, p) (List.mem_zipIdx_iff_getElem?.mpr hp)

/-! ## At the fixed point every entry is the documented type -/

theorem reduceType_slice {c : Case} {tm : TyMap} {r p : Nat} (hg : isSliceGen (genOf c r) = true) :
    reduceType c tm r p = reduceSlice c tm r p := by
  unfold reduceType
  unfold isSliceGen at hg
  split at hg
  · rename_i e; rw [e]
  · rename_i e; rw [e]
  · rename_i e; rw [e]
  · cases hg

theorem prod_of_mem_ruleProds {c : Case} {r p : Nat} {l : List Nat} (hl : ruleProds c r = l)
    (hp : p ∈ l) : ∃ pr, c.prods[p]? = some pr ∧ pr.rule = r :=
  mem_ruleProds.mp (hl ▸ hp)

theorem slice_typed_at_fix {c : Case} {tm : TyMap} (w : WF c) (inv : Inv c tm)
    (hq : pass c tm = .ok (tm, false)) {h : Nat} (hg : isSliceGen (genOf c h) = true) :
    tm.get h ≠ none := by
  obtain ⟨p0, p1, T, hl, _, hred⟩ := reduceSlice_eq w inv hg
  obtain ⟨pr, hp, hpr⟩ := prod_of_mem_ruleProds hl (by simp : p1 ∈ [p0, p1])
  have q := pass_quiet hq hp
  unfold QuietAt at q
  simp only [hpr] at q
  rw [reduceType_slice hg, hred p1] at q
  simp only [↓reduceIte] at q
  rcases q with q | ⟨t, e, _, q⟩
  · cases q
  · rw [q]; exact fun h => by cases h

theorem reduceType_star {c : Case} {tm : TyMap} (w : WF c) (inv : Inv c tm) {r : Nat} {ru : Rule}
    (hr : c.rules[r]? = some ru) (hg : ru.gen = .zeroOrMore ∨ ru.gen = .zeroOrMoreF)
    {p0 : Nat} {rest : List Nat} (hl : ruleProds c r = p0 :: rest) :
    reduceType c tm r p0 ≠ .nil := by
  have hrl : r < c.rules.length := (List.getElem?_eq_some_iff.mp hr).1
  have hgen := genOf_eq hr
  have hgen' : genOf c r = some .zeroOrMore ∨ genOf c r = some .zeroOrMoreF := by
    rcases hg with hg | hg <;> rw [hgen, hg] <;> simp
  obtain ⟨q0, q1, h, hl', h0, _, hh⟩ := shape_star w hrl hgen'
  have hq0 : q0 = p0 := by rw [hl] at hl'; exact (List.cons.inj hl').1.symm
  subst hq0
  obtain ⟨s0, s1, T, hsl, hT, hred⟩ := reduceSlice_eq w inv hh
  have hinner : reduceInner c tm h = .ty T := by
    unfold reduceInner; rw [hsl]; simp only
    have := hred s1
    simp only [↓reduceIte] at this
    unfold isSliceGen at hh
    split at hh
    · rename_i e; rw [e]; simp only; rw [this]
    · rename_i e; rw [e]; simp only; rw [this]
    · rename_i e; rw [e]; simp only; rw [this]
    · cases hh
  have : reduceType c tm r q0 = .ty T := by
    unfold reduceType; rw [hgen]
    rcases hg with hg | hg <;> rw [hg] <;> simp only <;> unfold reduceStar <;> rw [hl] <;>
      simp only [ne_eq, not_true_eq_false, ↓reduceIte] <;> rw [h0] <;> exact hinner
  rw [this]; exact fun h => by cases h

theorem fix_complete {c : Case} {tm : TyMap} (w : WF c) (inv : Inv c tm)
    (hq : pass c tm = .ok (tm, false)) {r : Nat} {ru : Rule} (hr : c.rules[r]? = some ru) :
    tm.get r = specTyR c r := by
  rcases inv.ent r ru hr with h | ⟨hn, hu, hs⟩
  · exact h
  · have hrl : r < c.rules.length := (List.getElem?_eq_some_iff.mp hr).1
    have hgen := genOf_eq hr
    have slice_case : isSliceGen (genOf c r) = true → tm.get r = specTyR c r :=
      fun hsl => absurd hn (slice_typed_at_fix w inv hq hsl)
    have star_case : (ru.gen = .zeroOrMore ∨ ru.gen = .zeroOrMoreF) → tm.get r = specTyR c r := by
      intro hg
      have hgen' : genOf c r = some .zeroOrMore ∨ genOf c r = some .zeroOrMoreF := by
        rcases hg with hg | hg <;> rw [hgen, hg] <;> simp
      obtain ⟨p0, p1, h, hl, _, _, _⟩ := shape_star w hrl hgen'
      obtain ⟨pr, hp, hpr⟩ := prod_of_mem_ruleProds hl (by simp : p0 ∈ [p0, p1])
      have q := pass_quiet hq hp
      unfold QuietAt at q
      simp only [hpr] at q
      rcases q with q | ⟨t, e, _, q⟩
      · exact absurd q (reduceType_star w inv hr hg hl)
      · rw [hn] at q; cases q
    cases hg : ru.gen with
    | user => exact absurd hg hu
    | sprime => exact absurd hg hs
    | oneOrMore => exact slice_case (by rw [hgen, hg]; rfl)
    | oneOrMoreF => exact slice_case (by rw [hgen, hg]; rfl)
    | list => exact slice_case (by rw [hgen, hg]; rfl)
    | zeroOrMore => exact star_case (Or.inl hg)
    | zeroOrMoreF => exact star_case (Or.inr hg)
    | zeroOrOne =>
      rw [hg] at hgen
      obtain ⟨p0, p1, x, hl, h0, _, hx⟩ := shape_opt w hrl hgen
      obtain ⟨pr, hp, hpr⟩ := prod_of_mem_ruleProds hl (by simp : p0 ∈ [p0, p1])
      have q := pass_quiet hq hp
      unfold QuietAt at q
      simp only [hpr] at q
      rcases q with q | ⟨t, e, _, q⟩
      · have hred : reduceType c tm r p0 =
            (match termTy c tm x with | none => .nil | some t => .ty t) := by
          unfold reduceType; rw [hgen]; simp only
          unfold reduceOpt; rw [hl]; simp only [ne_eq, not_true_eq_false, ↓reduceIte, h0]
          cases termTy c tm x <;> rfl
        rw [hred] at q
        have hnone : termTy c tm x = none := by
          cases ht : termTy c tm x with
          | none => rfl
          | some t => rw [ht] at q; cases q
        rw [hn, specTyR_opt hr hg hl h0]
        rcases hx with hx | ⟨h, rfl, hh⟩
        · rw [termTy_simple inv hx] at hnone
          cases x with
          | tok => cases hnone
          | err => cases hnone
          | rule h =>
            simp only [Simple] at hx
            simp only [optSpecR, hx, reduceCtorEq, ↓reduceIte, Option.some.injEq]
            exact hnone.symm
        · simp only [termTy] at hnone
          exact absurd hnone (slice_typed_at_fix w inv hq (by rw [hh]; rfl))
      · rw [hn] at q; cases q

/-- Pass 3 on a well-formed case: no panic, the fuel suffices, and the resulting `RuleGoTypes` is
the documented derivation. -/
theorem derive_spec {c : Case} (w : WF c) (hrefl : ∀ t, c.identical t t = true) :
    ∃ tm, derive c = .ok tm ∧ tm.length = c.rules.length ∧ ∀ r, tm.get r = specTyR c r := by
  have inv0 := inv_init w
  have hfuel : noneCnt (initTypes c) < c.rules.length + 1 := by
    have := noneCnt_le (initTypes c)
    rw [inv0.len] at this; omega
  obtain ⟨tm, h1, inv, hq⟩ := loop_inv w hrefl _ _ inv0 hfuel
  refine ⟨tm, h1, inv.len, ?_⟩
  intro r
  cases hr : c.rules[r]? with
  | some ru => exact fix_complete w inv hq hr
  | none =>
    have h1 : tm.get r = none := by
      unfold TyMap.get
      have : tm[r]? = none := by
        rw [List.getElem?_eq_none_iff, inv.len]
        exact List.getElem?_eq_none_iff.mp hr
      rw [this]; rfl
    rw [h1]; unfold specTyR; rw [hr]

end Lox.Dec.Assign
