import Lox.Dec.AnalyzeProofs
/-! # C17 — single faults: adding one faulty declaration to a well-formed specification

The declaration may be put anywhere: between two statements of any file, into a new file, or
(lexer rules) between two rules of any `@mode` block (`AddedStmt`, `AddedInMode`). -/
namespace Lox.Dec.Analyze

/-! ## The first registration that fails -/

/-- Diagnostics of the first registration of the list that produces any. -/
def firstDirty : Env → List Ev → List Diag
  | _, [] => []
  | env, ev :: evs => if (regEv env ev).2 = [] then firstDirty (regEv env ev).1 evs else (regEv env ev).2

theorem firstDirty_sub_fold (env : Env) (evs : List Ev) : ∀ d ∈ firstDirty env evs, d ∈ (foldDiag regEv env evs).2 := by
  induction evs generalizing env with
  | nil => simp [firstDirty]
  | cons ev evs ih =>
    intro d hd
    simp only [firstDirty] at hd
    simp only [foldDiag, List.mem_append]
    split at hd
    · exact Or.inr (ih _ d hd)
    · exact Or.inl hd

theorem firstDirty_append_clean (env : Env) (E₁ E₂ : List Ev) (h : (foldDiag regEv env E₁).2 = []) :
    firstDirty env (E₁ ++ E₂) = firstDirty (foldDiag regEv env E₁).1 E₂ := by
  induction E₁ generalizing env with
  | nil => simp [foldDiag]
  | cons ev evs ih =>
    simp only [foldDiag, List.append_eq_nil_iff] at h
    simp only [List.cons_append, firstDirty, h.1, if_true, foldDiag]
    exact ih _ h.2

theorem firstDirty_append_dirty (env : Env) (E₁ E₂ : List Ev) (h : (foldDiag regEv env E₁).2 ≠ []) :
    firstDirty env (E₁ ++ E₂) = firstDirty env E₁ := by
  induction E₁ generalizing env with
  | nil => simp [foldDiag] at h
  | cons ev evs ih =>
    simp only [List.cons_append, firstDirty]
    by_cases h1 : (regEv env ev).2 = []
    · simp only [h1, if_true]
      apply ih
      simpa [foldDiag, h1] using h
    · simp [h1]

theorem firstDirty_sub_cnStmt (env : Env) (st : Stmt) : ∀ d ∈ firstDirty env st.events, d ∈ (cnStmt env st).2 := by
  cases st with
  | rule r => exact firstDirty_sub_fold env _
  | prule r =>
    intro d hd
    simp only [Stmt.events, firstDirty] at hd
    split at hd
    · simp at hd
    · exact hd
  | mode id l n rs =>
    intro d hd
    simp only [Stmt.events, firstDirty] at hd
    simp only [cnStmt]
    split at hd
    · rename_i h
      simp only [h, List.isEmpty_nil, if_true]
      exact firstDirty_sub_fold _ _ d hd
    · rename_i h
      have : (regEv env (modeEvent id l n)).2.isEmpty = false := by
        cases hh : (regEv env (modeEvent id l n)).2 with
        | nil => exact absurd hh h
        | cons x xs => rfl
      simp only [this, Bool.false_eq_true, if_false]
      exact hd

theorem firstDirty_sub_createNames (env : Env) (sts : List Stmt) :
    ∀ d ∈ firstDirty env (sts.flatMap Stmt.events), d ∈ (foldDiag cnStmt env sts).2 := by
  induction sts generalizing env with
  | nil => simp [firstDirty]
  | cons st sts ih =>
    intro d hd
    simp only [List.flatMap_cons] at hd
    simp only [foldDiag, List.mem_append]
    by_cases h : (foldDiag regEv env st.events).2 = []
    · rw [firstDirty_append_clean _ _ _ h] at hd
      have hc := (cnStmt_nil env st).1.2 h
      rw [← (cnStmt_nil env st).2 hc] at hd
      exact Or.inr (ih _ d hd)
    · rw [firstDirty_append_dirty _ _ _ h] at hd
      exact Or.inl (firstDirty_sub_cnStmt env st d hd)

/-- After a clean prefix `E₁`, whatever the next registration reports is reported by the pass. -/
theorem createNames_of_prefix {s : Spec} {E₁ E₂ : List Ev} {ev : Ev} (hs : s.events = E₁ ++ ev :: E₂)
    (hok : EvsOk [] E₁) : ∀ d ∈ (regEv (E₁.map Ev.entry) ev).2, d ∈ (createNames s).2 := by
  intro d hd
  apply firstDirty_sub_createNames [] s.stmts d
  have h1 : (foldDiag regEv [] E₁).2 = [] := (foldRegEv_nil [] E₁).2 hok
  have henv := foldRegEv_env [] E₁ h1
  simp only [List.nil_append] at henv
  change d ∈ firstDirty [] s.events
  rw [hs, firstDirty_append_clean _ _ _ h1, henv]
  simp only [firstDirty]
  have : (regEv (E₁.map Ev.entry) ev).2 ≠ [] := List.ne_nil_of_mem hd
  simp [this, hd]

theorem evsOk_prefix {env : Env} {E₁ E₂ : List Ev} (h : EvsOk env (E₁ ++ E₂)) : EvsOk env E₁ := by
  induction E₁ generalizing env with
  | nil => trivial
  | cons ev evs ih => exact ⟨h.1, ih h.2⟩


/-! ## Which stage speaks -/

theorem analyze_of_syntax {s : Spec} {d : Diag} (h : d ∈ syntaxDiags s) : d ∈ analyze s := by
  have hne : syntaxDiags s ≠ [] := List.ne_nil_of_mem h
  unfold analyze
  simp only [(isEmpty_false_iff _).2 hne, if_true]
  exact h

theorem analyze_of_names {s : Spec} {d : Diag} (h0 : Clean0 s) (h : d ∈ (createNames s).2) : d ∈ analyze s := by
  have hne : (createNames s).2 ≠ [] := List.ne_nil_of_mem h
  have h0' := (syntaxDiags_eq_nil s).2 h0
  unfold analyze
  simp only [h0', List.isEmpty_nil, Bool.not_true, Bool.false_eq_true, if_false, (isEmpty_false_iff _).2 hne, if_true]
  exact h

theorem analyze_of_check {s : Spec} {d : Diag} (h0 : Clean0 s) (h1 : Clean1 s) (h : d ∈ check s.declared s) :
    d ∈ analyze s := by
  have hne : check s.declared s ≠ [] := List.ne_nil_of_mem h
  have h0' := (syntaxDiags_eq_nil s).2 h0
  have h1' := (createNames_nil_iff s).2 h1
  have henv := createNames_env s h1'
  unfold analyze
  simp only [h0', h1', henv, List.isEmpty_nil, Bool.not_true, Bool.false_eq_true, if_false,
    (isEmpty_false_iff _).2 hne, if_true]
  exact h

theorem analyze_of_generate {s : Spec} {d : Diag} (h0 : Clean0 s) (h1 : Clean1 s) (h2 : Clean2 s s.declared)
    (h : d ∈ generate s.declared s) : d ∈ analyze s := by
  have h0' := (syntaxDiags_eq_nil s).2 h0
  have h1' := (createNames_nil_iff s).2 h1
  have h2' := (check_nil_iff _ s).2 h2
  have henv := createNames_env s h1'
  unfold analyze
  simp only [h0', h1', henv, h2', List.isEmpty_nil, Bool.not_true, Bool.false_eq_true, if_false]
  exact h

theorem generate_of_rule {env : Env} {s : Spec} {r : LexRule} {d : Diag} (hr : r ∈ s.lexRules) (h : d ∈ r.generate env) :
    d ∈ generate env s := by
  have hm : d ∈ s.stmts.flatMap (Stmt.generate env) := mem_stmtGenerate.2 ⟨r, hr, h⟩
  have hne : s.stmts.flatMap (Stmt.generate env) ≠ [] := List.ne_nil_of_mem hm
  unfold generate
  simp only [(isEmpty_false_iff _).2 hne, if_true]
  exact hm

/-! ## Adding a declaration -/

/-- `s'` is `s` with the statement `st` put between two statements of a file, or alone into a new
file between two files. -/
inductive AddedStmt (st : Stmt) : Spec → Spec → Prop where
  | inUnit (U₁ U₂ : List Unit) (S₁ S₂ : List Stmt) :
      AddedStmt st ⟨U₁ ++ ⟨S₁ ++ S₂⟩ :: U₂⟩ ⟨U₁ ++ ⟨S₁ ++ st :: S₂⟩ :: U₂⟩
  | newUnit (U₁ U₂ : List Unit) : AddedStmt st ⟨U₁ ++ U₂⟩ ⟨U₁ ++ ⟨[st]⟩ :: U₂⟩

/-- `s'` is `s` with the lexer rule `r` put between two rules of a `@mode` block. -/
inductive AddedInMode (r : LexRule) : Spec → Spec → Prop where
  | mk (U₁ U₂ : List Unit) (S₁ S₂ : List Stmt) (id : DeclId) (l : Line) (n : Name) (R₁ R₂ : List LexRule) :
      AddedInMode r ⟨U₁ ++ ⟨S₁ ++ .mode id l n (R₁ ++ R₂) :: S₂⟩ :: U₂⟩
        ⟨U₁ ++ ⟨S₁ ++ .mode id l n (R₁ ++ r :: R₂) :: S₂⟩ :: U₂⟩

/-- What the proofs use of an insertion: the new lexer rules `nl`, parser rules `np` and registrations
`nev` appear inside the old lists, and the file that received them comes after untouched files. -/
structure Ins (s s' : Spec) (nl : List LexRule) (np : List PRule) (nev : List Ev) : Prop where
  lex : ∃ L₁ L₂, s.lexRules = L₁ ++ L₂ ∧ s'.lexRules = L₁ ++ nl ++ L₂
  par : ∃ P₁ P₂, s.prules = P₁ ++ P₂ ∧ s'.prules = P₁ ++ np ++ P₂
  evs : ∃ E₁ E₂, s.events = E₁ ++ E₂ ∧ s'.events = E₁ ++ nev ++ E₂
  syn : ∃ U₁ un U₂, s'.units = U₁ ++ un :: U₂ ∧ (∀ u ∈ U₁, u ∈ s.units) ∧
    (∀ r ∈ nl, ∀ d ∈ r.syntaxDiags, d ∈ un.syntaxDiags) ∧
    (∀ r ∈ np, ∀ d ∈ r.prods.flatMap (Prod.syntaxDiags r.id), d ∈ un.syntaxDiags)

theorem stmt_syntax_sub (st : Stmt) :
    (∀ r ∈ st.lexRules, ∀ d ∈ r.syntaxDiags, d ∈ st.syntaxDiags) ∧
    (∀ r ∈ st.prules, ∀ d ∈ r.prods.flatMap (Prod.syntaxDiags r.id), d ∈ st.syntaxDiags) := by
  cases st with
  | rule r =>
    refine ⟨?_, by simp [Stmt.prules]⟩
    intro r' hr d hd
    simp only [Stmt.lexRules, List.mem_singleton] at hr; subst hr; exact hd
  | prule r =>
    refine ⟨by simp [Stmt.lexRules], ?_⟩
    intro r' hr d hd
    simp only [Stmt.prules, List.mem_singleton] at hr; subst hr; exact hd
  | mode id l n rs =>
    refine ⟨?_, by simp [Stmt.prules]⟩
    intro r hr d hd
    simp only [Stmt.lexRules] at hr
    simp only [Stmt.syntaxDiags, List.mem_flatMap]
    exact ⟨r, hr, hd⟩

theorem unit_syntax_of_stmt {un : Unit} {st : Stmt} (h : st ∈ un.stmts) {d : Diag} (hd : d ∈ st.syntaxDiags) :
    d ∈ un.syntaxDiags := List.mem_flatMap.2 ⟨st, h, hd⟩

theorem ins_of_stmts {s s' : Spec} {A B : List Stmt} {st : Stmt} (h : s.stmts = A ++ B) (h' : s'.stmts = A ++ st :: B)
    (hsyn : ∃ U₁ un U₂, s'.units = U₁ ++ un :: U₂ ∧ (∀ u ∈ U₁, u ∈ s.units) ∧ st ∈ un.stmts) :
    Ins s s' st.lexRules st.prules st.events := by
  refine ⟨⟨A.flatMap Stmt.lexRules, B.flatMap Stmt.lexRules, ?_, ?_⟩,
    ⟨A.flatMap Stmt.prules, B.flatMap Stmt.prules, ?_, ?_⟩,
    ⟨A.flatMap Stmt.events, B.flatMap Stmt.events, ?_, ?_⟩, ?_⟩
  · simp [Spec.lexRules, h]
  · simp [Spec.lexRules, h']
  · simp [Spec.prules, h]
  · simp [Spec.prules, h']
  · simp [Spec.events, h]
  · simp [Spec.events, h']
  · obtain ⟨U₁, un, U₂, hu, hsub, hst⟩ := hsyn
    exact ⟨U₁, un, U₂, hu, hsub,
      fun r hr d hd => unit_syntax_of_stmt hst ((stmt_syntax_sub st).1 r hr d hd),
      fun r hr d hd => unit_syntax_of_stmt hst ((stmt_syntax_sub st).2 r hr d hd)⟩

theorem AddedStmt.ins {st : Stmt} {s s' : Spec} (h : AddedStmt st s s') : Ins s s' st.lexRules st.prules st.events := by
  cases h with
  | inUnit U₁ U₂ S₁ S₂ =>
    apply ins_of_stmts (A := U₁.flatMap (·.stmts) ++ S₁) (B := S₂ ++ U₂.flatMap (·.stmts))
    · simp [Spec.stmts]
    · simp [Spec.stmts]
    · exact ⟨U₁, ⟨S₁ ++ st :: S₂⟩, U₂, rfl, fun u hu => by simp [hu], by simp⟩
  | newUnit U₁ U₂ =>
    apply ins_of_stmts (A := U₁.flatMap (·.stmts)) (B := U₂.flatMap (·.stmts))
    · simp [Spec.stmts]
    · simp [Spec.stmts]
    · exact ⟨U₁, ⟨[st]⟩, U₂, rfl, fun u hu => by simp [hu], by simp⟩

theorem AddedInMode.ins {r : LexRule} {s s' : Spec} (h : AddedInMode r s s') : Ins s s' [r] [] r.events := by
  cases h with
  | mk U₁ U₂ S₁ S₂ id l n R₁ R₂ =>
    refine ⟨⟨(U₁.flatMap (·.stmts) ++ S₁).flatMap Stmt.lexRules ++ R₁,
        R₂ ++ (S₂ ++ U₂.flatMap (·.stmts)).flatMap Stmt.lexRules, ?_, ?_⟩,
      ⟨(U₁.flatMap (·.stmts) ++ S₁).flatMap Stmt.prules, (S₂ ++ U₂.flatMap (·.stmts)).flatMap Stmt.prules, ?_, ?_⟩,
      ⟨(U₁.flatMap (·.stmts) ++ S₁).flatMap Stmt.events ++ modeEvent id l n :: R₁.flatMap LexRule.events,
        R₂.flatMap LexRule.events ++ (S₂ ++ U₂.flatMap (·.stmts)).flatMap Stmt.events, ?_, ?_⟩,
      ⟨U₁, ⟨S₁ ++ .mode id l n (R₁ ++ r :: R₂) :: S₂⟩, U₂, rfl, fun u hu => by simp [hu], ?_, by simp⟩⟩
    · simp [Spec.lexRules, Spec.stmts, Stmt.lexRules]
    · simp [Spec.lexRules, Spec.stmts, Stmt.lexRules]
    · simp [Spec.prules, Spec.stmts, Stmt.prules]
    · simp [Spec.prules, Spec.stmts, Stmt.prules]
    · simp [Spec.events, Spec.stmts, Stmt.events]
    · simp [Spec.events, Spec.stmts, Stmt.events]
    · intro r' hr d hd
      simp only [List.mem_singleton] at hr; subst hr
      apply unit_syntax_of_stmt (st := .mode id l n (R₁ ++ r' :: R₂)) (by simp)
      simp only [Stmt.syntaxDiags, List.mem_flatMap]
      exact ⟨r', by simp, hd⟩


/-! ## What an insertion preserves -/

theorem Ins.mem_lex {s s' : Spec} {nl np nev} (h : Ins s s' nl np nev) {x : LexRule} :
    x ∈ s'.lexRules ↔ x ∈ s.lexRules ∨ x ∈ nl := by
  obtain ⟨L₁, L₂, h1, h2⟩ := h.lex
  rw [h1, h2]; simp only [List.mem_append]
  constructor <;> (intro hx; rcases hx with (hx | hx) | hx <;> simp [hx])

theorem Ins.mem_par {s s' : Spec} {nl np nev} (h : Ins s s' nl np nev) {x : PRule} :
    x ∈ s'.prules ↔ x ∈ s.prules ∨ x ∈ np := by
  obtain ⟨P₁, P₂, h1, h2⟩ := h.par
  rw [h1, h2]; simp only [List.mem_append]
  constructor <;> (intro hx; rcases hx with (hx | hx) | hx <;> simp [hx])

theorem Ins.mem_evs {s s' : Spec} {nl np nev} (h : Ins s s' nl np nev) {x : Ev} :
    x ∈ s'.events ↔ x ∈ s.events ∨ x ∈ nev := by
  obtain ⟨E₁, E₂, h1, h2⟩ := h.evs
  rw [h1, h2]; simp only [List.mem_append]
  constructor <;> (intro hx; rcases hx with (hx | hx) | hx <;> simp [hx])

theorem Ins.mem_declared {s s' : Spec} {nl np nev} (h : Ins s s' nl np nev) {x : Name × Ent} :
    x ∈ s'.declared ↔ x ∈ s.declared ∨ x ∈ nev.map Ev.entry := by
  obtain ⟨n, e⟩ := x
  simp only [Analyze.mem_declared, h.mem_evs, List.mem_map]
  constructor
  · rintro ⟨ev, hev | hev, rfl, rfl⟩
    · exact Or.inl ⟨ev, hev, rfl, rfl⟩
    · exact Or.inr ⟨ev, hev, rfl⟩
  · rintro (⟨ev, hev, rfl, rfl⟩ | ⟨ev, hev, he⟩)
    · exact ⟨ev, Or.inl hev, rfl, rfl⟩
    · simp only [Ev.entry] at he
      cases he
      exact ⟨ev, Or.inr hev, rfl, rfl⟩

/-- Stage 0 for one parser rule. -/
structure PRule.Clean0 (r : PRule) : Prop where
  atoms : ∀ p ∈ r.prods, ∀ t ∈ p.terms, ∀ x ∈ t.atom.atoms, x.synOk = true
  cards : ∀ p ∈ r.prods, ∀ t ∈ p.terms, t.badListCard = false
  quals : ∀ p ∈ r.prods, ∀ x, p.qual = some x → x.bad = false

theorem Ins.clean0 {s s' : Spec} {nl np nev} (h : Ins s s' nl np nev) (c : Clean0 s)
    (hl : ∀ r ∈ nl, ∀ l ∈ r.leaves, l.escOk = true) (hp : ∀ r ∈ np, r.Clean0) : Clean0 s' := by
  refine ⟨?_, ?_, ?_, ?_⟩
  · intro r hr
    rcases h.mem_lex.1 hr with hr | hr
    · exact c.lex r hr
    · exact hl r hr
  · intro r hr
    rcases h.mem_par.1 hr with hr | hr
    · exact c.atoms r hr
    · exact (hp r hr).atoms
  · intro r hr
    rcases h.mem_par.1 hr with hr | hr
    · exact c.cards r hr
    · exact (hp r hr).cards
  · intro r hr
    rcases h.mem_par.1 hr with hr | hr
    · exact c.quals r hr
    · exact (hp r hr).quals

/-- The new registrations are valid, new, pairwise different and none is a `@start` rule. -/
structure FreshEvents (s : Spec) (nev : List Ev) : Prop where
  valid : ∀ ev ∈ nev, ev.validate = []
  fresh : ∀ ev ∈ nev, ev.name ∉ s.declared.map (·.1)
  nodup : (nev.map (·.name)).Nodup
  noStart : ∀ ev ∈ nev, ev.ent.isStart = false

theorem declared_names (s : Spec) : s.declared.map (·.1) = s.events.map (·.name) := by
  simp [Spec.declared]

theorem Ins.clean1 {s s' : Spec} {nl np nev} (h : Ins s s' nl np nev) (c : Clean1 s) (hf : FreshEvents s nev)
    (hnp : ∀ r ∈ np, r.isStart = false) : Clean1 s' := by
  refine ⟨?_, ?_, ?_⟩
  · intro ev hev
    rcases h.mem_evs.1 hev with hev | hev
    · exact c.valid ev hev
    · exact hf.valid ev hev
  · obtain ⟨E₁, E₂, h1, h2⟩ := h.evs
    have hn := c.nodup
    rw [declared_names, h1] at hn
    rw [declared_names, h2]
    simp only [List.map_append] at hn ⊢
    have hfr : ∀ ev ∈ nev, ev.name ∉ (E₁.map (·.name)) ∧ ev.name ∉ (E₂.map (·.name)) := by
      intro ev hev
      have := hf.fresh ev hev
      rw [declared_names, h1] at this
      simp only [List.map_append, List.mem_append, not_or] at this
      exact this
    rw [List.nodup_append] at hn
    obtain ⟨hn1, hn2, hn12⟩ := hn
    rw [List.nodup_append, List.nodup_append]
    refine ⟨⟨hn1, hf.nodup, ?_⟩, hn2, ?_⟩
    · intro a ha b hb hab
      obtain ⟨ev, hev, rfl⟩ := List.mem_map.1 hb
      exact (hfr ev hev).1 (hab ▸ ha)
    · intro a ha b hb hab
      rcases List.mem_append.1 ha with ha | ha
      · exact hn12 a ha b hb hab
      · obtain ⟨ev, hev, rfl⟩ := List.mem_map.1 ha
        exact (hfr ev hev).2 (hab ▸ hb)
  · obtain ⟨P₁, P₂, h1, h2⟩ := h.par
    have hc := c.start
    rw [h1] at hc
    rw [h2]
    have : np.filter (·.isStart) = [] := List.filter_eq_nil_iff.2 fun r hr => by simp [hnp r hr]
    simp only [List.filter_append, List.length_append, this, List.length_nil] at hc ⊢
    omega

/-- Look-ups of old names are not disturbed. -/
theorem Ins.lookup_mono {s s' : Spec} {nl np nev} (h : Ins s s' nl np nev) (hnd' : (s'.declared.map (·.1)).Nodup)
    {n : Name} {e : Ent} (hl : s.declared.lookup n = some e) : s'.declared.lookup n = some e :=
  lookup_of_mem hnd' (h.mem_declared.2 (Or.inl (mem_of_lookup hl)))

theorem Ins.aliasCount {s s' : Spec} {nl np nev} (h : Ins s s' nl np nev)
    (hna : ∀ ev ∈ nev, ∀ t, ev.ent.hasAlias t = false) (t : String) :
    s'.declared.aliasCount t = s.declared.aliasCount t := by
  obtain ⟨E₁, E₂, h1, h2⟩ := h.evs
  simp only [Env.aliasCount, Spec.declared, h1, h2, List.map_append, List.countP_append, List.countP_map]
  have : nev.countP ((fun x : Name × Ent => x.2.hasAlias t) ∘ fun ev => (ev.name, ev.ent)) = 0 :=
    List.countP_eq_zero.2 fun ev hev => by simp [hna ev hev t]
  omega

theorem Leaf.checkOk_mono {env env' : Env} (hm : ∀ n e, env.lookup n = some e → env'.lookup n = some e) {l : Leaf}
    (h : l.checkOk env) : l.checkOk env' := by
  cases l with
  | ref ln n => obtain ⟨id, ln', e, hl⟩ := h; exact ⟨id, ln', e, hm _ _ hl⟩
  | _ => exact h

theorem Ins.clean2 {s s' : Spec} {nl np nev} (h : Ins s s' nl np nev) (hnd' : (s'.declared.map (·.1)).Nodup)
    (c : Clean2 s s.declared) (hna : ∀ ev ∈ nev, ∀ t, ev.ent.hasAlias t = false)
    (hl : ∀ r ∈ nl, r.check s'.declared = []) (hp : ∀ r ∈ np, r.check s'.declared = []) :
    Clean2 s' s'.declared := by
  have hm : ∀ n e, s.declared.lookup n = some e → s'.declared.lookup n = some e := fun n e => h.lookup_mono hnd'
  refine ⟨?_, ?_, ?_⟩
  · intro r hr l hl'
    rcases h.mem_lex.1 hr with hr | hr
    · exact Leaf.checkOk_mono hm (c.leaves r hr l hl')
    · exact ((LexRule.check_eq_nil _ r).1 (hl r hr)).1 l hl'
  · intro r hr a ha
    rcases h.mem_lex.1 hr with hr | hr
    · have := c.actions r hr a ha
      cases a with
      | pushMode l m =>
        rcases (hasMode_iff _ m).1 this with h1 | h1
        · exact (hasMode_iff _ m).2 (Or.inl h1)
        · exact (hasMode_iff _ m).2 (Or.inr (h.mem_declared.2 (Or.inl h1)))
      | emit l n => obtain ⟨e, hl', hk⟩ := this; exact ⟨e, hm _ _ hl', hk⟩
      | discard l => trivial
      | popMode l => trivial
    · exact ((LexRule.check_eq_nil _ r).1 (hl r hr)).2 a ha
  · intro r hr t ht x hx
    rcases h.mem_par.1 hr with hr | hr
    · have := c.atoms r hr t ht x hx
      cases x with
      | name l n => obtain ⟨e, hl', hk⟩ := this; exact ⟨e, hm _ _ hl', hk⟩
      | alias l tx b =>
        rcases this with h1 | h1
        · exact Or.inl h1
        · exact Or.inr (by rw [h.aliasCount hna]; exact h1)
      | error l => trivial
      | list l e sp => exact this
    · exact (PRule.check_eq_nil _ r).1 (hp r hr) t ht x hx

/-! ## Faults -/

/-- Stage 0 of `s` (well formed), unit by unit. -/
theorem units_clean_of_wf {s : Spec} (w : WellFormed s) : ∀ u ∈ s.units, u.syntaxDiags = [] := by
  have h := (analyze_nil_clean s).1 ((analyze_nil_iff_wellFormed s).2 w)
  have h0 := (syntaxDiags_eq_nil s).2 h.1
  simp only [syntaxDiags, firstNonEmpty_eq_nil, List.mem_map, forall_exists_index, and_imp,
    forall_apply_eq_imp_iff₂] at h0
  exact h0

/-- A diagnostic of stage 0 in the added declaration is reported. -/
theorem Ins.fault_syntax {s s' : Spec} {nl np nev} (h : Ins s s' nl np nev) (w : WellFormed s) {d : Diag}
    (hd : (∃ r ∈ nl, d ∈ r.syntaxDiags) ∨ (∃ r ∈ np, d ∈ r.prods.flatMap (Prod.syntaxDiags r.id))) :
    d ∈ analyze s' := by
  apply analyze_of_syntax
  obtain ⟨U₁, un, U₂, hu, hsub, h1, h2⟩ := h.syn
  have hdu : d ∈ un.syntaxDiags := by
    rcases hd with ⟨r, hr, hd⟩ | ⟨r, hr, hd⟩
    · exact h1 r hr d hd
    · exact h2 r hr d hd
  simp only [syntaxDiags, hu, List.map_append, List.map_cons]
  rw [firstNonEmpty_append_of_nil _ _ _ (List.ne_nil_of_mem hdu)]
  · exact hdu
  · intro l hl
    obtain ⟨u, hu', rfl⟩ := List.mem_map.1 hl
    exact units_clean_of_wf w u (hsub u hu')

theorem wf_clean {s : Spec} (w : WellFormed s) : Clean0 s ∧ Clean1 s ∧ Clean2 s s.declared ∧ Clean4 s s.declared :=
  (clean_iff_wellFormed s).2 w

/-- A diagnostic of pass `Check` in an added lexer rule is reported. -/
theorem Ins.fault_check_lex {s s' : Spec} {r : LexRule} {np nev} (h : Ins s s' [r] np nev) (w : WellFormed s)
    (hf : FreshEvents s nev) (hnp : ∀ r ∈ np, r.isStart = false ∧ r.Clean0)
    (hsyn : ∀ l ∈ r.leaves, l.escOk = true) {d : Diag} (hd : d ∈ r.check s'.declared) : d ∈ analyze s' := by
  obtain ⟨c0, c1, _, _⟩ := wf_clean w
  have c0' := h.clean0 c0 (fun r' hr l hl => by simp only [List.mem_singleton] at hr; subst hr; exact hsyn l hl)
    (fun r hr => (hnp r hr).2)
  have c1' := h.clean1 c1 hf (fun r hr => (hnp r hr).1)
  exact analyze_of_check c0' c1' (mem_check.2 (Or.inl ⟨r, h.mem_lex.2 (Or.inr (by simp)), hd⟩))

/-- A diagnostic of pass `Check` in an added parser rule is reported. -/
theorem Ins.fault_check_par {s s' : Spec} {r : PRule} {nev} (h : Ins s s' [] [r] nev) (w : WellFormed s)
    (hf : FreshEvents s nev) (hns : r.isStart = false) (hsyn : r.Clean0) {d : Diag} (hd : d ∈ r.check s'.declared) :
    d ∈ analyze s' := by
  obtain ⟨c0, c1, _, _⟩ := wf_clean w
  have c0' := h.clean0 c0 (by simp) (fun r' hr => by simp only [List.mem_singleton] at hr; subst hr; exact hsyn)
  have c1' := h.clean1 c1 hf (fun r' hr => by simp only [List.mem_singleton] at hr; subst hr; exact hns)
  exact analyze_of_check c0' c1' (mem_check.2 (Or.inr ⟨r, h.mem_par.2 (Or.inr (by simp)), hd⟩))

/-- A diagnostic of pass `GenerateGrammar` in an added lexer rule is reported. -/
theorem Ins.fault_generate_lex {s s' : Spec} {r : LexRule} {nev} (h : Ins s s' [r] [] nev) (w : WellFormed s)
    (hf : FreshEvents s nev) (hna : ∀ ev ∈ nev, ∀ t, ev.ent.hasAlias t = false)
    (hsyn : ∀ l ∈ r.leaves, l.escOk = true) (hck : r.check s'.declared = []) {d : Diag}
    (hd : d ∈ r.generate s'.declared) : d ∈ analyze s' := by
  obtain ⟨c0, c1, c2, _⟩ := wf_clean w
  have c0' := h.clean0 c0 (fun r' hr l hl => by simp only [List.mem_singleton] at hr; subst hr; exact hsyn l hl) (by simp)
  have c1' := h.clean1 c1 hf (by simp)
  have c2' := h.clean2 c1'.nodup c2 hna (fun r' hr => by simp only [List.mem_singleton] at hr; subst hr; exact hck) (by simp)
  exact analyze_of_generate c0' c1' c2' (generate_of_rule (h.mem_lex.2 (Or.inr (by simp))) hd)


/-! ## The diagnostic of each faulty construct -/

theorem LexRule.check_of_leaf {env : Env} {r : LexRule} {l : Leaf} {d : Diag} (hl : l ∈ r.leaves)
    (hd : d ∈ l.check env r.id) : d ∈ r.check env := by
  cases r <;> simp only [LexRule.leaves, LexRule.expr?, List.not_mem_nil] at hl <;>
    simp only [LexRule.check, exprCheck, List.mem_append, List.mem_flatMap, LexRule.id] at hd ⊢
  · exact Or.inl ⟨l, hl, hd⟩
  · exact Or.inl ⟨l, hl, hd⟩
  · exact ⟨l, hl, hd⟩

theorem LexRule.check_of_action {env : Env} {r : LexRule} {a : Action} {d : Diag} (ha : a ∈ r.actions)
    (hd : d ∈ a.check env r.id) : d ∈ r.check env := by
  cases r <;> simp only [LexRule.actions, List.not_mem_nil] at ha <;>
    simp only [LexRule.check, List.mem_append, List.mem_flatMap, LexRule.id] at hd ⊢
  · exact Or.inr ⟨a, ha, hd⟩
  · exact Or.inr ⟨a, ha, hd⟩

theorem LexRule.syntax_of_leaf {r : LexRule} {l : Leaf} {d : Diag} (hl : l ∈ r.leaves)
    (hd : d ∈ l.syntaxDiags r.id) : d ∈ r.syntaxDiags := by
  cases r <;> simp only [LexRule.leaves, LexRule.expr?, List.not_mem_nil] at hl <;>
    simp only [LexRule.syntaxDiags, exprSyntaxDiags, List.mem_flatMap, LexRule.id] at hd ⊢
  all_goals exact ⟨l, hl, hd⟩

/-- What `preCheck`/`postCheck` say about this term itself (not about the parameters of a list). -/
def PAtom.checkSelf (env : Env) (id : DeclId) : PAtom → List Diag
  | .list _ e sp =>
    if !e.isSimple then [⟨.listEntryNotSimple, e.line, "", some id⟩]
    else if !sp.isSimple then [⟨.listSepNotSimple, e.line, "", some id⟩] else []
  | y => y.check env id

theorem PAtom.check_of_atom {env : Env} {id : DeclId} {a x : PAtom} {d : Diag} (hx : x ∈ a.atoms)
    (hd : d ∈ x.checkSelf env id) : d ∈ a.check env id := by
  induction a with
  | name l n => simp only [PAtom.atoms, List.mem_singleton] at hx; subst hx; exact hd
  | alias l t b => simp only [PAtom.atoms, List.mem_singleton] at hx; subst hx; exact hd
  | error l => simp only [PAtom.atoms, List.mem_singleton] at hx; subst hx; exact hd
  | list l e sp ihe ihs =>
    simp only [PAtom.atoms, List.mem_cons, List.mem_append] at hx
    simp only [PAtom.check, List.mem_append]
    rcases hx with rfl | hx | hx
    · exact Or.inr hd
    · exact Or.inl (Or.inl (ihe hx))
    · exact Or.inl (Or.inr (ihs hx))

/-- What stage 0 says about this term itself. -/
def PAtom.syntaxSelf (id : DeclId) : PAtom → List Diag
  | .list _ _ _ => []
  | y => y.syntaxDiags id

theorem PAtom.syntax_of_atom {id : DeclId} {a x : PAtom} {d : Diag} (hx : x ∈ a.atoms)
    (hd : d ∈ x.syntaxSelf id) : d ∈ a.syntaxDiags id := by
  induction a with
  | name l n => simp only [PAtom.atoms, List.mem_singleton] at hx; subst hx; exact hd
  | alias l t b => simp only [PAtom.atoms, List.mem_singleton] at hx; subst hx; exact hd
  | error l => simp only [PAtom.atoms, List.mem_singleton] at hx; subst hx; exact hd
  | list l e sp ihe ihs =>
    simp only [PAtom.atoms, List.mem_cons, List.mem_append] at hx
    simp only [PAtom.syntaxDiags, List.mem_append]
    rcases hx with rfl | hx | hx
    · simp [PAtom.syntaxSelf] at hd
    · exact Or.inl (ihe hx)
    · exact Or.inr (ihs hx)

theorem PRule.check_of_term {env : Env} {r : PRule} {p : Prod} {t : PTerm} {d : Diag} (hp : p ∈ r.prods)
    (ht : t ∈ p.terms) (hd : d ∈ t.atom.check env r.id) : d ∈ r.check env := by
  simp only [PRule.check, List.mem_flatMap, PTerm.check]
  exact ⟨p, hp, t, ht, hd⟩

theorem PRule.syntax_of_term {r : PRule} {p : Prod} {t : PTerm} {d : Diag} (hp : p ∈ r.prods)
    (ht : t ∈ p.terms) (hd : d ∈ t.syntaxDiags r.id) : d ∈ r.prods.flatMap (Prod.syntaxDiags r.id) := by
  simp only [List.mem_flatMap, Prod.syntaxDiags, List.mem_append]
  exact ⟨p, hp, Or.inl ⟨t, ht, hd⟩⟩

theorem tokenDiscard_mem (id : DeclId) (l : Line) (acts : List Action) (h1 : ∃ a ∈ acts, a.isDiscard = true)
    (h2 : ∀ a ∈ acts, a.isEmit = false) : ⟨.tokenDiscard, l, "", some id⟩ ∈ tokenActionDiags id l acts := by
  induction acts with
  | nil => simp at h1
  | cons a as ih =>
    simp only [tokenActionDiags]
    by_cases hd : a.isDiscard = true
    · simp [hd]
    · have he : a.isEmit = false := h2 a List.mem_cons_self
      simp only [hd, he, Bool.false_eq_true, if_false]
      apply ih
      · obtain ⟨x, hx, hxd⟩ := h1
        rcases List.mem_cons.1 hx with rfl | hx
        · exact absurd hxd hd
        · exact ⟨x, hx, hxd⟩
      · exact fun x hx => h2 x (List.mem_cons_of_mem _ hx)

theorem tokenEmit_mem (id : DeclId) (l : Line) (acts : List Action) (h1 : ∃ a ∈ acts, a.isEmit = true)
    (h2 : ∀ a ∈ acts, a.isDiscard = false) : ⟨.tokenEmit, l, "", some id⟩ ∈ tokenActionDiags id l acts := by
  induction acts with
  | nil => simp at h1
  | cons a as ih =>
    simp only [tokenActionDiags]
    have hd : a.isDiscard = false := h2 a List.mem_cons_self
    by_cases he : a.isEmit = true
    · simp [hd, he]
    · simp only [hd, he, Bool.false_eq_true, if_false]
      apply ih
      · obtain ⟨x, hx, hxe⟩ := h1
        rcases List.mem_cons.1 hx with rfl | hx
        · exact absurd hxe he
        · exact ⟨x, hx, hxe⟩
      · exact fun x hx => h2 x (List.mem_cons_of_mem _ hx)

theorem fragTwoDiscard_mem (id : DeclId) (l : Line) (acts : List Action) (hd : Bool)
    (h1 : 2 ≤ b2n hd + (acts.filter Action.isDiscard).length) (h2 : ∀ a ∈ acts, a.isEmit = false) :
    ⟨.fragTwoDiscard, l, "", some id⟩ ∈ fragActionDiags id l hd false acts := by
  induction acts generalizing hd with
  | nil => cases hd <;> simp [b2n] at h1
  | cons a as ih =>
    simp only [fragActionDiags]
    have he : a.isEmit = false := h2 a List.mem_cons_self
    by_cases hda : a.isDiscard = true
    · cases hd
      · simp only [hda, if_true, Bool.false_eq_true, if_false]
        apply ih true _ (fun x hx => h2 x (List.mem_cons_of_mem _ hx))
        simp only [List.filter_cons, hda, if_true, List.length_cons, b2n] at h1 ⊢
        simp at h1 ⊢; omega
      · simp [hda]
    · simp only [hda, he, Bool.false_eq_true, if_false]
      apply ih hd _ (fun x hx => h2 x (List.mem_cons_of_mem _ hx))
      simpa [List.filter_cons, hda] using h1

theorem fragTwoEmit_mem (id : DeclId) (l : Line) (acts : List Action) (he : Bool)
    (h1 : 2 ≤ b2n he + (acts.filter Action.isEmit).length) (h2 : ∀ a ∈ acts, a.isDiscard = false) :
    ⟨.fragTwoEmit, l, "", some id⟩ ∈ fragActionDiags id l false he acts := by
  induction acts generalizing he with
  | nil => cases he <;> simp [b2n] at h1
  | cons a as ih =>
    simp only [fragActionDiags]
    have hd : a.isDiscard = false := h2 a List.mem_cons_self
    by_cases hea : a.isEmit = true
    · cases he
      · simp only [hd, hea, if_true, Bool.false_eq_true, if_false]
        apply ih true _ (fun x hx => h2 x (List.mem_cons_of_mem _ hx))
        simp only [List.filter_cons, hea, if_true, List.length_cons, b2n] at h1 ⊢
        simp at h1 ⊢; omega
      · simp [hd, hea]
    · simp only [hd, hea, Bool.false_eq_true, if_false]
      apply ih he _ (fun x hx => h2 x (List.mem_cons_of_mem _ hx))
      simpa [List.filter_cons, hea] using h1

theorem fragBoth_mem (id : DeclId) (l : Line) (acts : List Action) (hd he : Bool)
    (h1 : b2n hd + (acts.filter Action.isDiscard).length = 1) (h2 : b2n he + (acts.filter Action.isEmit).length = 1) :
    ⟨.fragDiscardAndEmit, l, "", some id⟩ ∈ fragActionDiags id l hd he acts := by
  induction acts generalizing hd he with
  | nil => cases hd <;> cases he <;> simp_all [b2n, fragActionDiags]
  | cons a as ih =>
    simp only [fragActionDiags]
    by_cases hda : a.isDiscard = true
    · have hea : a.isEmit = false := by
        cases h : a.isEmit
        · rfl
        · exact absurd ⟨hda, h⟩ a.not_both
      cases hd
      · simp only [hda, if_true, Bool.false_eq_true, if_false]
        apply ih
        · simp only [List.filter_cons, hda, if_true, List.length_cons, b2n] at h1 ⊢
          simp at h1 ⊢; omega
        · simpa [List.filter_cons, hea] using h2
      · simp only [List.filter_cons, hda, if_true, List.length_cons, b2n] at h1
        simp at h1
    · by_cases hea : a.isEmit = true
      · cases he
        · simp only [hda, hea, if_true, Bool.false_eq_true, if_false]
          apply ih
          · simpa [List.filter_cons, hda] using h1
          · simp only [List.filter_cons, hea, if_true, List.length_cons, b2n] at h2 ⊢
            simp at h2 ⊢; omega
        · simp only [List.filter_cons, hea, if_true, List.length_cons, b2n] at h2
          simp at h2
      · simp only [hda, hea, Bool.false_eq_true, if_false]
        apply ih
        · simpa [List.filter_cons, hda] using h1
        · simpa [List.filter_cons, hea] using h2

/-- A macro whose body mentions the macro itself. -/
theorem selfCycle_mem {env : Env} {id : DeclId} {l : Line} {n : Name} {e : LExpr}
    (hl : env.lookup n = some (.macro id l e)) (hsh : exprShapeOk e = true) (hn : n ∈ exprRefs e) :
    ⟨.macroCycle, l, "", some id⟩ ∈ (LexRule.macro id l n e).generate env := by
  have hlen : 0 < env.length := by
    cases env with
    | nil => simp [Env.lookup] at hl
    | cons p ps => simp
  obtain ⟨k, hk⟩ : ∃ k, env.length = k + 1 := ⟨env.length - 1, by omega⟩
  simp only [LexRule.generate, hsh, Bool.not_true, Bool.false_eq_true, if_false, hk, expandMacro, hl,
    List.contains_nil, List.mem_flatMap]
  refine ⟨n, hn, ?_⟩
  simp [hl]


/-! ## Faults of pass `CreateNames` -/

theorem regEv_invalid {env : Env} {ev : Ev} {d : Diag} {ds : List Diag} (h : ev.validate = d :: ds) :
    (regEv env ev).2 = d :: ds := by
  simp [regEv, h]

theorem regEv_redefined {env : Env} {ev : Ev} (hv : ev.validate = []) (hn : ev.name ∈ env.map (·.1)) :
    (regEv env ev).2 = [⟨.redefined, ev.line, ev.name, some ev.id⟩] := by
  have : (env.lookup ev.name).isSome = true := (lookup_isSome_iff env ev.name).2 hn
  simp [regEv, hv, this]

theorem regEv_startRedefined {env : Env} {ev : Ev} (hv : ev.validate = []) (hn : ev.name ∉ env.map (·.1))
    (hs : ev.ent.isStart = true) (he : env.hasStart = true) :
    (regEv env ev).2 = [⟨.startRedefined, ev.line, ev.name, some ev.id⟩] := by
  have : ¬ (env.lookup ev.name).isSome = true := fun h => hn ((lookup_isSome_iff env ev.name).1 h)
  simp [regEv, hv, this, hs, he]

/-- `AddedStmt` together with the registrations that precede the insertion point. -/
inductive AddedStmtAt (st : Stmt) : List Ev → Spec → Spec → Prop where
  | inUnit (U₁ U₂ : List Unit) (S₁ S₂ : List Stmt) :
      AddedStmtAt st ((U₁.flatMap (·.stmts) ++ S₁).flatMap Stmt.events)
        ⟨U₁ ++ ⟨S₁ ++ S₂⟩ :: U₂⟩ ⟨U₁ ++ ⟨S₁ ++ st :: S₂⟩ :: U₂⟩
  | newUnit (U₁ U₂ : List Unit) :
      AddedStmtAt st ((U₁.flatMap (·.stmts)).flatMap Stmt.events) ⟨U₁ ++ U₂⟩ ⟨U₁ ++ ⟨[st]⟩ :: U₂⟩

theorem AddedStmtAt.added {st : Stmt} {E₁ : List Ev} {s s' : Spec} (h : AddedStmtAt st E₁ s s') : AddedStmt st s s' := by
  cases h with
  | inUnit U₁ U₂ S₁ S₂ => exact .inUnit U₁ U₂ S₁ S₂
  | newUnit U₁ U₂ => exact .newUnit U₁ U₂

theorem AddedStmtAt.events {st : Stmt} {E₁ : List Ev} {s s' : Spec} (h : AddedStmtAt st E₁ s s') :
    ∃ E₂, s.events = E₁ ++ E₂ ∧ s'.events = E₁ ++ st.events ++ E₂ := by
  cases h with
  | inUnit U₁ U₂ S₁ S₂ =>
    exact ⟨(S₂ ++ U₂.flatMap (·.stmts)).flatMap Stmt.events, by simp [Spec.events, Spec.stmts], by simp [Spec.events, Spec.stmts]⟩
  | newUnit U₁ U₂ =>
    exact ⟨(U₂.flatMap (·.stmts)).flatMap Stmt.events, by simp [Spec.events, Spec.stmts], by simp [Spec.events, Spec.stmts]⟩

/-- The added statement is syntactically fine (stage 0). -/
structure StmtSyntaxOk (st : Stmt) : Prop where
  lex : ∀ r ∈ st.lexRules, ∀ l ∈ r.leaves, l.escOk = true
  par : ∀ r ∈ st.prules, r.Clean0

/-- Whatever the first registration of the added statement reports is reported. -/
theorem fault_names {st : Stmt} {E₁ : List Ev} {s s' : Spec} (h : AddedStmtAt st E₁ s s') (w : WellFormed s)
    (hsyn : StmtSyntaxOk st) {ev : Ev} {rest : List Ev} (hev : st.events = ev :: rest) {d : Diag}
    (hd : d ∈ (regEv (E₁.map Ev.entry) ev).2) : d ∈ analyze s' := by
  obtain ⟨c0, c1, _, _⟩ := wf_clean w
  have c0' := h.added.ins.clean0 c0 hsyn.lex hsyn.par
  obtain ⟨E₂, he, he'⟩ := h.events
  have hok : EvsOk [] (E₁ ++ E₂) := he ▸ (createNames_nil s).1 ((createNames_nil_iff s).2 c1)
  apply analyze_of_names c0'
  apply createNames_of_prefix (E₁ := E₁) (E₂ := rest ++ E₂) (ev := ev) _ (evsOk_prefix hok) d hd
  rw [he', hev]; simp


/-! ## No `@start` -/

/-- Adding a first parser rule that is not `@start` (and is fine otherwise) to a specification
without parser section: "@start rule undefined". -/
theorem fault_noStart {s s' : Spec} {r : PRule} (h : AddedStmt (.prule r) s s') (w : WellFormed s)
    (hnone : s.prules = []) (hf : FreshEvents s [r.event]) (hns : r.isStart = false) (hsyn : r.Clean0)
    (hck : r.check s'.declared = []) : ⟨.startUndefined, 0, "", none⟩ ∈ analyze s' := by
  obtain ⟨c0, c1, c2, c4⟩ := wf_clean w
  have hi : Ins s s' [] [r] [r.event] := h.ins
  have c0' := hi.clean0 c0 (by simp) (fun r' hr => by simp only [List.mem_singleton] at hr; subst hr; exact hsyn)
  have c1' := hi.clean1 c1 hf (fun r' hr => by simp only [List.mem_singleton] at hr; subst hr; exact hns)
  have hna : ∀ ev ∈ [r.event], ∀ t, ev.ent.hasAlias t = false := by
    intro ev hev t; simp only [List.mem_singleton] at hev; subst hev; rfl
  have c2' := hi.clean2 c1'.nodup c2 hna (by simp)
    (fun r' hr => by simp only [List.mem_singleton] at hr; subst hr; exact hck)
  apply analyze_of_generate c0' c1' c2'
  -- macros of the new table are the macros of the old one
  have hmac : ∀ a id l e, s'.declared.lookup a = some (.macro id l e) → s.declared.lookup a = some (.macro id l e) := by
    intro a id l e hl
    rcases hi.mem_declared.1 (mem_of_lookup hl) with hm | hm
    · exact lookup_of_mem c1.nodup hm
    · simp [Ev.entry, PRule.event] at hm
  have hedge : ∀ a b, s'.declared.Edge a b → s.declared.Edge a b := by
    rintro a b ⟨id, l, e, hl, hb, ⟨id', l', e', hl'⟩⟩
    exact ⟨id, l, e, hmac _ _ _ _ hl, hb, ⟨id', l', e', hmac _ _ _ _ hl'⟩⟩
  have hreach : ∀ a b, s'.declared.Reach a b → s.declared.Reach a b := by
    intro a b hr
    induction hr with
    | step e => exact .step (hedge _ _ e)
    | trans e _ ih => exact .trans (hedge _ _ e) ih
  have hlex : ∀ x, x ∈ s'.lexRules ↔ x ∈ s.lexRules := by
    intro x; rw [hi.mem_lex]; simp
  have c4L : Clean4L s' s'.declared :=
    ⟨fun x hx => c4.shape x ((hlex x).1 hx), fun x hx => c4.tokenActs x ((hlex x).1 hx),
      fun x hx => c4.fragActs x ((hlex x).1 hx), fun m hm => c4.acyclic m (hreach m m hm)⟩
  have hgen := (lexGenerate_nil_iff c1'.nodup c2').2 c4L
  have hrules : s'.declared.hasRules = true := (declared_hasRules s').2 (by
    intro hnil
    have : r ∈ s'.prules := hi.mem_par.2 (Or.inr (by simp))
    simp [hnil] at this)
  have hstart : s'.declared.hasStart = false := by
    cases hh : s'.declared.hasStart
    · rfl
    · have := (declared_hasStart s').1 hh
      obtain ⟨P₁, P₂, h1, h2⟩ := hi.par
      rw [hnone] at h1
      have hP : P₁ = [] ∧ P₂ = [] := by simpa using h1.symm
      rw [h2, hP.1, hP.2] at this
      simp [hns] at this
  unfold generate
  simp [stmtGenerate_eq_nil.2 hgen, hrules, hstart]

/-! ## The fault injectors -/

/-- A new lexer rule goes between two statements of a file, into a file of its own, or between
two rules of a `@mode` block. -/
def LexPlaced (r : LexRule) (s s' : Spec) : Prop := AddedStmt (.rule r) s s' ∨ AddedInMode r s s'

theorem LexPlaced.ins {r : LexRule} {s s' : Spec} (h : LexPlaced r s s') : Ins s s' [r] [] r.events := by
  rcases h with h | h
  · exact h.ins
  · exact h.ins

/-- The added lexer rule declares valid new names and contains no invalid escape: it gets through
stage 0 and pass `CreateNames`. -/
structure LexCarrier (r : LexRule) (s s' : Spec) : Prop where
  placed : LexPlaced r s s'
  fresh : FreshEvents s r.events
  syn : ∀ l ∈ r.leaves, l.escOk = true

/-- … and also through pass `Check`, without adding a literal alias. -/
structure LexCarrier4 (r : LexRule) (s s' : Spec) : Prop extends LexCarrier r s s' where
  noAlias : ∀ ev ∈ r.events, ∀ t, ev.ent.hasAlias t = false
  checked : r.check s'.declared = []

/-- The added parser rule (not `@start`) has a valid new name and gets through stage 0. -/
structure ParCarrier (r : PRule) (s s' : Spec) : Prop where
  placed : AddedStmt (.prule r) s s'
  fresh : FreshEvents s [r.event]
  notStart : r.isStart = false
  syn : r.Clean0

def PRule.atoms (r : PRule) : List PAtom := r.terms.flatMap (·.atom.atoms)

theorem mem_ratoms {r : PRule} {x : PAtom} (h : x ∈ r.atoms) :
    ∃ p ∈ r.prods, ∃ t ∈ p.terms, x ∈ t.atom.atoms := by
  simp only [PRule.atoms, List.mem_flatMap] at h
  obtain ⟨t, ht, hx⟩ := h
  obtain ⟨p, hp, ht⟩ := mem_terms.1 ht
  exact ⟨p, hp, t, ht, hx⟩

/-- The single-fault variants of `s`: `s'` is `s` plus one declaration with one fault, put anywhere.
Indices: the expected diagnostic (kind, blamed declaration, line). -/
inductive Injection (s s' : Spec) : Kind → Option DeclId → Line → Prop where
  /-- a name that breaks a naming rule (any rule of `ValidTokenName`, a reserved name, `__` in a
  rule name): a token, macro, external, mode or parser rule statement whose first name is invalid -/
  | badName (st : Stmt) (E₁ : List Ev) (h : AddedStmtAt st E₁ s s') (hsyn : StmtSyntaxOk st) (ev : Ev) (rest : List Ev)
      (hev : st.events = ev :: rest) (d : Diag) (ds : List Diag) (hv : ev.validate = d :: ds) :
      Injection s s' d.kind d.decl d.line
  /-- a name declared earlier, duplicated into a declaration of any kind -/
  | dupName (st : Stmt) (E₁ : List Ev) (h : AddedStmtAt st E₁ s s') (hsyn : StmtSyntaxOk st) (ev : Ev) (rest : List Ev)
      (hev : st.events = ev :: rest) (hv : ev.validate = []) (hdup : ev.name ∈ E₁.map (·.name)) :
      Injection s s' .redefined (some ev.id) ev.line
  /-- a second `@start` after the first -/
  | secondStart (st : Stmt) (E₁ : List Ev) (h : AddedStmtAt st E₁ s s') (hsyn : StmtSyntaxOk st) (ev : Ev) (rest : List Ev)
      (hev : st.events = ev :: rest) (hv : ev.validate = []) (hnew : ev.name ∉ E₁.map (·.name))
      (hs : ev.ent.isStart = true) (hfirst : ∃ e ∈ E₁, e.ent.isStart = true) :
      Injection s s' .startRedefined (some ev.id) ev.line
  /-- an empty literal in a lexer expression -/
  | emptyLiteral (r : LexRule) (c : LexCarrier r s s') (ln : Line) (b : Nat) (h : Leaf.lit ln "" b ∈ r.leaves) :
      Injection s s' .emptyLiteral (some r.id) ln
  /-- a class range whose lower bound is above its upper bound -/
  | reversedRange (r : LexRule) (c : LexCarrier r s s') (l : Leaf) (hl : l ∈ r.leaves) (cl : CharClass)
      (hc : cl ∈ l.classes) (i : ClassItem) (hi : i ∈ cl.items) (hrev : i.hi < i.lo) :
      Injection s s' .reversedRange (some r.id) cl.line
  /-- a reference to a name nobody declares -/
  | undefinedRef (r : LexRule) (c : LexCarrier r s s') (ln : Line) (n : Name) (h : Leaf.ref ln n ∈ r.leaves)
      (hu : s'.declared.lookup n = none) : Injection s s' .undefined (some r.id) ln
  /-- a reference to something that is not a macro -/
  | refNotMacro (r : LexRule) (c : LexCarrier r s s') (ln : Line) (n : Name) (h : Leaf.ref ln n ∈ r.leaves) (e : Ent)
      (hu : s'.declared.lookup n = some e) (hk : e.isMacro = false) : Injection s s' .notMacro (some r.id) ln
  /-- `@push_mode` of an undefined mode -/
  | undefinedMode (r : LexRule) (c : LexCarrier r s s') (ln : Line) (m : Name) (h : Action.pushMode ln m ∈ r.actions)
      (hu : s'.declared.hasMode m = false) : Injection s s' .undefinedMode (some r.id) ln
  /-- `@emit` of an undefined name -/
  | emitUndefined (r : LexRule) (c : LexCarrier r s s') (ln : Line) (n : Name) (h : Action.emit ln n ∈ r.actions)
      (hu : s'.declared.lookup n = none) : Injection s s' .undefined (some r.id) ln
  /-- `@emit` of something that is not a token -/
  | emitNonToken (r : LexRule) (c : LexCarrier r s s') (ln : Line) (n : Name) (h : Action.emit ln n ∈ r.actions) (e : Ent)
      (hu : s'.declared.lookup n = some e) (hk : e.isToken = false ∧ e.isExt = false) :
      Injection s s' .notToken (some r.id) ln
  /-- an escape that names no code point, in a literal of a lexer expression -/
  | badEscapeLex (r : LexRule) (h : LexPlaced r s s') (ln : Line) (t : String) (b : Nat)
      (hl : Leaf.lit ln t (b + 1) ∈ r.leaves) : Injection s s' .badEscape (some r.id) ln
  /-- `@discard` on a token -/
  | tokenDiscard (id : DeclId) (l : Line) (n : Name) (e : LExpr) (acts : List Action)
      (c : LexCarrier4 (.token id l n e acts) s s') (h1 : ∃ a ∈ acts, a.isDiscard = true)
      (h2 : ∀ a ∈ acts, a.isEmit = false) : Injection s s' .tokenDiscard (some id) l
  /-- `@emit` on a token -/
  | tokenEmit (id : DeclId) (l : Line) (n : Name) (e : LExpr) (acts : List Action)
      (c : LexCarrier4 (.token id l n e acts) s s') (h1 : ∃ a ∈ acts, a.isEmit = true)
      (h2 : ∀ a ∈ acts, a.isDiscard = false) : Injection s s' .tokenEmit (some id) l
  /-- a second `@discard` on a fragment -/
  | fragTwoDiscard (id : DeclId) (l : Line) (e : LExpr) (acts : List Action) (c : LexCarrier4 (.frag id l e acts) s s')
      (h1 : 2 ≤ (acts.filter Action.isDiscard).length) (h2 : ∀ a ∈ acts, a.isEmit = false) :
      Injection s s' .fragTwoDiscard (some id) l
  /-- a second `@emit` on a fragment -/
  | fragTwoEmit (id : DeclId) (l : Line) (e : LExpr) (acts : List Action) (c : LexCarrier4 (.frag id l e acts) s s')
      (h1 : 2 ≤ (acts.filter Action.isEmit).length) (h2 : ∀ a ∈ acts, a.isDiscard = false) :
      Injection s s' .fragTwoEmit (some id) l
  /-- both `@discard` and `@emit` on a fragment -/
  | fragBoth (id : DeclId) (l : Line) (e : LExpr) (acts : List Action) (c : LexCarrier4 (.frag id l e acts) s s')
      (h1 : (acts.filter Action.isDiscard).length = 1) (h2 : (acts.filter Action.isEmit).length = 1) :
      Injection s s' .fragDiscardAndEmit (some id) l
  /-- a macro that mentions itself (nobody needs to use it) -/
  | macroCycle (id : DeclId) (l : Line) (n : Name) (e : LExpr) (c : LexCarrier4 (.macro id l n e) s s')
      (hsh : exprShapeOk e = true) (hn : n ∈ exprRefs e) : Injection s s' .macroCycle (some id) l
  /-- a production that mentions a name nobody declares -/
  | parserUndefined (r : PRule) (c : ParCarrier r s s') (ln : Line) (n : Name) (h : PAtom.name ln n ∈ r.atoms)
      (hu : s'.declared.lookup n = none) : Injection s s' .undefined (some r.id) ln
  /-- a production that mentions a macro or a mode -/
  | parserNotRuleOrToken (r : PRule) (c : ParCarrier r s s') (ln : Line) (n : Name) (h : PAtom.name ln n ∈ r.atoms)
      (e : Ent) (hu : s'.declared.lookup n = some e) (hk : e.isToken = false ∧ e.isRule = false ∧ e.isExt = false) :
      Injection s s' .notRuleOrToken (some r.id) ln
  /-- a literal no token is made of -/
  | unknownAlias (r : PRule) (c : ParCarrier r s s') (ln : Line) (t : String) (b : Nat)
      (h : PAtom.alias ln t b ∈ r.atoms) (ht : t ≠ "") (hu : s'.declared.aliasCount t = 0) :
      Injection s s' .unknownLiteral (some r.id) ln
  /-- a literal two tokens are made of -/
  | ambiguousAlias (r : PRule) (c : ParCarrier r s s') (ln : Line) (t : String) (b : Nat)
      (h : PAtom.alias ln t b ∈ r.atoms) (ht : t ≠ "") (hu : 2 ≤ s'.declared.aliasCount t) :
      Injection s s' .ambiguousLiteral (some r.id) ln
  /-- `@list` whose element is not a plain token or rule -/
  | listEntryNotSimple (r : PRule) (c : ParCarrier r s s') (ln : Line) (e sp : PAtom)
      (h : PAtom.list ln e sp ∈ r.atoms) (hk : e.isSimple = false) :
      Injection s s' .listEntryNotSimple (some r.id) e.line
  /-- `@list` whose separator is not a plain token or rule -/
  | listSepNotSimple (r : PRule) (c : ParCarrier r s s') (ln : Line) (e sp : PAtom)
      (h : PAtom.list ln e sp ∈ r.atoms) (hk : e.isSimple = true) (hk' : sp.isSimple = false) :
      Injection s s' .listSepNotSimple (some r.id) e.line
  /-- an empty literal in a production -/
  | emptyAlias (r : PRule) (h : AddedStmt (.prule r) s s') (ln : Line) (b : Nat) (ha : PAtom.alias ln "" b ∈ r.atoms) :
      Injection s s' .emptyLiteral (some r.id) ln
  /-- an escape that names no code point, in a literal of a production -/
  | badEscapePar (r : PRule) (h : AddedStmt (.prule r) s s') (ln : Line) (t : String) (b : Nat)
      (ha : PAtom.alias ln t (b + 1) ∈ r.atoms) : Injection s s' .badEscape (some r.id) ln
  /-- `@left(0)` or a precedence that does not fit -/
  | badPrecedence (r : PRule) (h : AddedStmt (.prule r) s s') (p : Prod) (hp : p ∈ r.prods) (q : Qual)
      (hq : p.qual = some q) (hb : q.bad = true) : Injection s s' .badPrecedence (some r.id) q.line
  /-- no `@start`: a first parser rule, not marked `@start`, in a specification without parser section -/
  | noStart (r : PRule) (c : ParCarrier r s s') (hnone : s.prules = []) (hck : r.check s'.declared = []) :
      Injection s s' .startUndefined none 0
  /-- a cardinality other than `?` on `@list` -/
  | listCard (r : PRule) (h : AddedStmt (.prule r) s s') (t : PTerm) (ht : t ∈ r.terms) (hb : t.badListCard = true) :
      Injection s s' .listCard (some r.id) t.atom.line

end Lox.Dec.Analyze
