import Lox.Dec.AnalyzeProofs
/-! # C17 — single faults: adding one faulty declaration to a well-formed specification

The declaration may be put anywhere: between two statements of any file, into a new file, or
(lexer rules) between two rules of any `@mode` block (`AddedStmt`, `AddedInMode`). -/
namespace Lox.Dec.Analyze

/-! ## The first registration that fails -/

/-- Diagnostics of the first registration of the list that produces any. -/
def firstDirty : Env → List Ev → List Diag
  | _, [] => []
  | env, ev :: evs => if (regEv env ev).2 = [] then firstDirty (regEv env ev).1 evs else (regEv env ev).2

theorem firstDirty_sub_fold (env : Env) (evs : List Ev) : ∀ d ∈ firstDirty env evs, d ∈ (foldDiag regEv env evs).2 := by
  induction evs generalizing env with
  | nil => simp [firstDirty]
  | cons ev evs ih =>
    intro d hd
    simp only [firstDirty] at hd
    simp only [foldDiag, List.mem_append]
    split at hd
    · exact Or.inr (ih _ d hd)
    · exact Or.inl hd

theorem firstDirty_append_clean (env : Env) (E₁ E₂ : List Ev) (h : (foldDiag regEv env E₁).2 = []) :
    firstDirty env (E₁ ++ E₂) = firstDirty (foldDiag regEv env E₁).1 E₂ := by
  induction E₁ generalizing env with
  | nil => simp [foldDiag]
  | cons ev evs ih =>
    simp only [foldDiag, List.append_eq_nil_iff] at h
    simp only [List.cons_append, firstDirty, h.1, if_true, foldDiag]
    exact ih _ h.2

theorem firstDirty_append_dirty (env : Env) (E₁ E₂ : List Ev) (h : (foldDiag regEv env E₁).2 ≠ []) :
    firstDirty env (E₁ ++ E₂) = firstDirty env E₁ := by
  induction E₁ generalizing env with
  | nil => simp [foldDiag] at h
  | cons ev evs ih =>
    simp only [List.cons_append, firstDirty]
    by_cases h1 : (regEv env ev).2 = []
    · simp only [h1, if_true]
      apply ih
      simpa [foldDiag, h1] using h
    · simp [h1]

theorem firstDirty_sub_cnStmt (env : Env) (st : Stmt) : ∀ d ∈ firstDirty env st.events, d ∈ (cnStmt env st).2 := by
  cases st with
  | rule r => exact firstDirty_sub_fold env _
  | prule r =>
    intro d hd
    simp only [Stmt.events, firstDirty] at hd
    split at hd
    · simp at hd
    · exact hd
  | mode id l n rs =>
    intro d hd
    simp only [Stmt.events, firstDirty] at hd
    simp only [cnStmt]
    split at hd
    · rename_i h
      simp only [h, List.isEmpty_nil, if_true]
      exact firstDirty_sub_fold _ _ d hd
    · rename_i h
      have : (regEv env (modeEvent id l n)).2.isEmpty = false := by
        cases hh : (regEv env (modeEvent id l n)).2 with
        | nil => exact absurd hh h
        | cons x xs => rfl
      simp only [this, Bool.false_eq_true, if_false]
      exact hd

theorem firstDirty_sub_createNames (env : Env) (sts : List Stmt) :
    ∀ d ∈ firstDirty env (sts.flatMap Stmt.events), d ∈ (foldDiag cnStmt env sts).2 := by
  induction sts generalizing env with
  | nil => simp [firstDirty]
  | cons st sts ih =>
    intro d hd
    simp only [List.flatMap_cons] at hd
    simp only [foldDiag, List.mem_append]
    by_cases h : (foldDiag regEv env st.events).2 = []
    · rw [firstDirty_append_clean _ _ _ h] at hd
      have hc := (cnStmt_nil env st).1.2 h
      rw [← (cnStmt_nil env st).2 hc] at hd
      exact Or.inr (ih _ d hd)
    · rw [firstDirty_append_dirty _ _ _ h] at hd
      exact Or.inl (firstDirty_sub_cnStmt env st d hd)

/-- After a clean prefix `E₁`, whatever the next registration reports is reported by the pass. -/
theorem createNames_of_prefix {s : Spec} {E₁ E₂ : List Ev} {ev : Ev} (hs : s.events = E₁ ++ ev :: E₂)
    (hok : EvsOk [] E₁) : ∀ d ∈ (regEv (E₁.map Ev.entry) ev).2, d ∈ (createNames s).2 := by
  intro d hd
  apply firstDirty_sub_createNames [] s.stmts d
  have h1 : (foldDiag regEv [] E₁).2 = [] := (foldRegEv_nil [] E₁).2 hok
  have henv := foldRegEv_env [] E₁ h1
  simp only [List.nil_append] at henv
  change d ∈ firstDirty [] s.events
  rw [hs, firstDirty_append_clean _ _ _ h1, henv]
  simp only [firstDirty]
  have : (regEv (E₁.map Ev.entry) ev).2 ≠ [] := List.ne_nil_of_mem hd
  simp [this, hd]

theorem evsOk_prefix {env : Env} {E₁ E₂ : List Ev} (h : EvsOk env (E₁ ++ E₂)) : EvsOk env E₁ := by
  induction E₁ generalizing env with
  | nil => trivial
  | cons ev evs ih => exact ⟨h.1, ih h.2⟩


/-! ## Which stage speaks -/

theorem analyze_of_syntax {s : Spec} {d : Diag} (h : d ∈ syntaxDiags s) : d ∈ analyze s := by
  have hne : syntaxDiags s ≠ [] := List.ne_nil_of_mem h
  unfold analyze
  simp only [(isEmpty_false_iff _).2 hne, if_true]
  exact h

theorem analyze_of_names {s : Spec} {d : Diag} (h0 : Clean0 s) (h : d ∈ (createNames s).2) : d ∈ analyze s := by
  have hne : (createNames s).2 ≠ [] := List.ne_nil_of_mem h
  have h0' := (syntaxDiags_eq_nil s).2 h0
  unfold analyze
  simp only [h0', List.isEmpty_nil, Bool.not_true, Bool.false_eq_true, if_false, (isEmpty_false_iff _).2 hne, if_true]
  exact h

theorem analyze_of_check {s : Spec} {d : Diag} (h0 : Clean0 s) (h1 : Clean1 s) (h : d ∈ check s.declared s) :
    d ∈ analyze s := by
  have hne : check s.declared s ≠ [] := List.ne_nil_of_mem h
  have h0' := (syntaxDiags_eq_nil s).2 h0
  have h1' := (createNames_nil_iff s).2 h1
  have henv := createNames_env s h1'
  unfold analyze
  simp only [h0', h1', henv, List.isEmpty_nil, Bool.not_true, Bool.false_eq_true, if_false,
    (isEmpty_false_iff _).2 hne, if_true]
  exact h

theorem analyze_of_generate {s : Spec} {d : Diag} (h0 : Clean0 s) (h1 : Clean1 s) (h2 : Clean2 s s.declared)
    (h : d ∈ generate s.declared s) : d ∈ analyze s := by
  have h0' := (syntaxDiags_eq_nil s).2 h0
  have h1' := (createNames_nil_iff s).2 h1
  have h2' := (check_nil_iff _ s).2 h2
  have henv := createNames_env s h1'
  unfold analyze
  simp only [h0', h1', henv, h2', List.isEmpty_nil, Bool.not_true, Bool.false_eq_true, if_false]
  exact h

theorem generate_of_rule {env : Env} {s : Spec} {r : LexRule} {d : Diag} (hr : r ∈ s.lexRules) (h : d ∈ r.generate env) :
    d ∈ generate env s := by
  have hm : d ∈ s.stmts.flatMap (Stmt.generate env) := mem_stmtGenerate.2 ⟨r, hr, h⟩
  have hne : s.stmts.flatMap (Stmt.generate env) ≠ [] := List.ne_nil_of_mem hm
  unfold generate
  simp only [(isEmpty_false_iff _).2 hne, if_true]
  exact hm

/-! ## Adding a declaration -/

/-- `s'` is `s` with the statement `st` put between two statements of a file, or alone into a new
file between two files. -/
inductive AddedStmt (st : Stmt) : Spec → Spec → Prop where
  | inUnit (U₁ U₂ : List Unit) (S₁ S₂ : List Stmt) :
      AddedStmt st ⟨U₁ ++ ⟨S₁ ++ S₂⟩ :: U₂⟩ ⟨U₁ ++ ⟨S₁ ++ st :: S₂⟩ :: U₂⟩
  | newUnit (U₁ U₂ : List Unit) : AddedStmt st ⟨U₁ ++ U₂⟩ ⟨U₁ ++ ⟨[st]⟩ :: U₂⟩

/-- `s'` is `s` with the lexer rule `r` put between two rules of a `@mode` block. -/
inductive AddedInMode (r : LexRule) : Spec → Spec → Prop where
  | mk (U₁ U₂ : List Unit) (S₁ S₂ : List Stmt) (id : DeclId) (l : Line) (n : Name) (R₁ R₂ : List LexRule) :
      AddedInMode r ⟨U₁ ++ ⟨S₁ ++ .mode id l n (R₁ ++ R₂) :: S₂⟩ :: U₂⟩
        ⟨U₁ ++ ⟨S₁ ++ .mode id l n (R₁ ++ r :: R₂) :: S₂⟩ :: U₂⟩

/-- What the proofs use of an insertion: the new lexer rules `nl`, parser rules `np` and registrations
`nev` appear inside the old lists, and the file that received them comes after untouched files. -/
structure Ins (s s' : Spec) (nl : List LexRule) (np : List PRule) (nev : List Ev) : Prop where
  lex : ∃ L₁ L₂, s.lexRules = L₁ ++ L₂ ∧ s'.lexRules = L₁ ++ nl ++ L₂
  par : ∃ P₁ P₂, s.prules = P₁ ++ P₂ ∧ s'.prules = P₁ ++ np ++ P₂
  evs : ∃ E₁ E₂, s.events = E₁ ++ E₂ ∧ s'.events = E₁ ++ nev ++ E₂
  syn : ∃ U₁ un U₂, s'.units = U₁ ++ un :: U₂ ∧ (∀ u ∈ U₁, u ∈ s.units) ∧
    (∀ r ∈ nl, ∀ d ∈ r.syntaxDiags, d ∈ un.syntaxDiags) ∧
    (∀ r ∈ np, ∀ d ∈ r.prods.flatMap (Prod.syntaxDiags r.id), d ∈ un.syntaxDiags)

theorem stmt_syntax_sub (st : Stmt) :
    (∀ r ∈ st.lexRules, ∀ d ∈ r.syntaxDiags, d ∈ st.syntaxDiags) ∧
    (∀ r ∈ st.prules, ∀ d ∈ r.prods.flatMap (Prod.syntaxDiags r.id), d ∈ st.syntaxDiags) := by
  cases st with
  | rule r =>
    refine ⟨?_, by simp [Stmt.prules]⟩
    intro r' hr d hd
    simp only [Stmt.lexRules, List.mem_singleton] at hr; subst hr; exact hd
  | prule r =>
    refine ⟨by simp [Stmt.lexRules], ?_⟩
    intro r' hr d hd
    simp only [Stmt.prules, List.mem_singleton] at hr; subst hr; exact hd
  | mode id l n rs =>
    refine ⟨?_, by simp [Stmt.prules]⟩
    intro r hr d hd
    simp only [Stmt.lexRules] at hr
    simp only [Stmt.syntaxDiags, List.mem_flatMap]
    exact ⟨r, hr, hd⟩

theorem unit_syntax_of_stmt {un : Unit} {st : Stmt} (h : st ∈ un.stmts) {d : Diag} (hd : d ∈ st.syntaxDiags) :
    d ∈ un.syntaxDiags := List.mem_flatMap.2 ⟨st, h, hd⟩

theorem ins_of_stmts {s s' : Spec} {A B : List Stmt} {st : Stmt} (h : s.stmts = A ++ B) (h' : s'.stmts = A ++ st :: B)
    (hsyn : ∃ U₁ un U₂, s'.units = U₁ ++ un :: U₂ ∧ (∀ u ∈ U₁, u ∈ s.units) ∧ st ∈ un.stmts) :
    Ins s s' st.lexRules st.prules st.events := by
  refine ⟨⟨A.flatMap Stmt.lexRules, B.flatMap Stmt.lexRules, ?_, ?_⟩,
    ⟨A.flatMap Stmt.prules, B.flatMap Stmt.prules, ?_, ?_⟩,
    ⟨A.flatMap Stmt.events, B.flatMap Stmt.events, ?_, ?_⟩, ?_⟩
  · simp [Spec.lexRules, h]
  · simp [Spec.lexRules, h']
  · simp [Spec.prules, h]
  · simp [Spec.prules, h']
  · simp [Spec.events, h]
  · simp [Spec.events, h']
  · obtain ⟨U₁, un, U₂, hu, hsub, hst⟩ := hsyn
    exact ⟨U₁, un, U₂, hu, hsub,
      fun r hr d hd => unit_syntax_of_stmt hst ((stmt_syntax_sub st).1 r hr d hd),
      fun r hr d hd => unit_syntax_of_stmt hst ((stmt_syntax_sub st).2 r hr d hd)⟩

theorem AddedStmt.ins {st : Stmt} {s s' : Spec} (h : AddedStmt st s s') : Ins s s' st.lexRules st.prules st.events := by
  cases h with
  | inUnit U₁ U₂ S₁ S₂ =>
    apply ins_of_stmts (A := U₁.flatMap (·.stmts) ++ S₁) (B := S₂ ++ U₂.flatMap (·.stmts))
    · simp [Spec.stmts]
    · simp [Spec.stmts]
    · exact ⟨U₁, ⟨S₁ ++ st :: S₂⟩, U₂, rfl, fun u hu => by simp [hu], by simp⟩
  | newUnit U₁ U₂ =>
    apply ins_of_stmts (A := U₁.flatMap (·.stmts)) (B := U₂.flatMap (·.stmts))
    · simp [Spec.stmts]
    · simp [Spec.stmts]
    · exact ⟨U₁, ⟨[st]⟩, U₂, rfl, fun u hu => by simp [hu], by simp⟩

theorem AddedInMode.ins {r : LexRule} {s s' : Spec} (h : AddedInMode r s s') : Ins s s' [r] [] r.events := by
  cases h with
  | mk U₁ U₂ S₁ S₂ id l n R₁ R₂ =>
    refine ⟨⟨(U₁.flatMap (·.stmts) ++ S₁).flatMap Stmt.lexRules ++ R₁,
        R₂ ++ (S₂ ++ U₂.flatMap (·.stmts)).flatMap Stmt.lexRules, ?_, ?_⟩,
      ⟨(U₁.flatMap (·.stmts) ++ S₁).flatMap Stmt.prules, (S₂ ++ U₂.flatMap (·.stmts)).flatMap Stmt.prules, ?_, ?_⟩,
      ⟨(U₁.flatMap (·.stmts) ++ S₁).flatMap Stmt.events ++ modeEvent id l n :: R₁.flatMap LexRule.events,
        R₂.flatMap LexRule.events ++ (S₂ ++ U₂.flatMap (·.stmts)).flatMap Stmt.events, ?_, ?_⟩,
      ⟨U₁, ⟨S₁ ++ .mode id l n (R₁ ++ r :: R₂) :: S₂⟩, U₂, rfl, fun u hu => by simp [hu], ?_, by simp⟩⟩
    · simp [Spec.lexRules, Spec.stmts, Stmt.lexRules]
    · simp [Spec.lexRules, Spec.stmts, Stmt.lexRules]
    · simp [Spec.prules, Spec.stmts, Stmt.prules]
    · simp [Spec.prules, Spec.stmts, Stmt.prules]
    · simp [Spec.events, Spec.stmts, Stmt.events]
    · simp [Spec.events, Spec.stmts, Stmt.events]
    · intro r' hr d hd
      simp only [List.mem_singleton] at hr; subst hr
      apply unit_syntax_of_stmt (st := .mode id l n (R₁ ++ r' :: R₂)) (by simp)
      simp only [Stmt.syntaxDiags, List.mem_flatMap]
      exact ⟨r', by simp, hd⟩

end Lox.Dec.Analyze
